#!/usr/bin/env python3
"""Regenerates the generated tables of DESIGN.md (between <!-- GEN:x --> markers) from registry/,
evidence/, known_findings.json and seeded/*/meta.json."""
import json, os, re
V = os.path.join(os.path.dirname(os.path.abspath(__file__)), "..")
def esc(s): return (s or "").replace("|", "\\|").replace("\n", " ")
# per-property status
rows = ["| id | theorems (discharged/listed) | engines | quick: evaluations / distinct non-trivial / wall | partial or assumption highlights |", "|---|---|---|---|---|"]
for f in sorted(os.listdir(os.path.join(V, "registry"))):
    if not re.match(r"C\d+\.json", f): continue
    r = json.load(open(os.path.join(V, "registry", f))); pid = r["id"]
    ev = {}
    ep = os.path.join(V, "evidence", pid + ".json")
    if os.path.exists(ep): ev = json.load(open(ep))
    c = ev.get("coverage", {})
    eng = "+".join(x["engine"] for x in r.get("runs", [])) or "-"
    note = esc(r.get("level_note", ""))[:260]
    rows.append("| %s | %s/%s | %s | %s / %s / %ss | %s |" % (pid, c.get("discharged", "?"), len(r.get("theorems", [])), eng, c.get("evaluations", "?"), c.get("distinct_nontrivial", "?"), ev.get("wall_s", "?"), note))
status = "\n".join(rows)
# seeded
rows = ["| seeded change | property | what it needs to manifest | result per check |", "|---|---|---|---|"]
sd = os.path.join(V, "seeded")
for d in sorted(os.listdir(sd)):
    mp = os.path.join(sd, d, "meta.json")
    if not os.path.exists(mp): continue
    m = json.load(open(mp))
    res = []
    for p, cr in sorted(m.get("check_results", {}).items()):
        how = cr.get("failing_input_key") or ("no failing input; broken: " + ",".join(x for x in cr.get("broken", []) if x))
        res.append("%s %s (%s; %s)" % (p, cr["result"], cr.get("tier", "quick"), how))
    rows.append("| `%s` | %s | %s | %s |" % (d, m.get("property", "?"), esc(m.get("needs") or m.get("what") or "")[:300], esc("; ".join(res)) or "not run"))
seeded = "\n".join(rows)
# findings
rows = ["| property | key | status | commit | what |", "|---|---|---|---|---|"]
ents = json.load(open(os.path.join(V, "known_findings.json")))
kd = os.path.join(V, "known_findings.d")
if os.path.isdir(kd):
    for f in sorted(os.listdir(kd)):
        ents += json.load(open(os.path.join(kd, f)))
for e in ents:
    rows.append("| %s | `%s` | %s | %s | %s |" % (e["property"], e["key"], e["status"], e.get("commit", ""), esc(e.get("what", ""))[:400]))
findings = "\n".join(rows)
p = os.path.join(V, "DESIGN.md")
s = open(p).read()
for name, body in (("status", status), ("seeded", seeded), ("findings", findings)):
    a, b = "<!-- GEN:%s -->" % name, "<!-- /GEN:%s -->" % name
    if a in s and b in s:
        s = s[:s.index(a) + len(a)] + "\n" + body + "\n" + s[s.index(b):]
open(p, "w").write(s)
print("tables regenerated")
