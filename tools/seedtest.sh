#!/bin/sh
# usage: tools/seedtest.sh <seeded-dir> [Cxx …]   — applies seeded/<dir>/patch.diff in a scratch worktree and
# runs the check(s) of the property (default: the property in meta.json) against it; prints DETECTED / MISSED.
set -e
cd "$(dirname "$0")/.."
sd=$1; shift
name=st-$(basename "$sd" | tr -c 'A-Za-z0-9\n' '-')
props="$*"
[ -n "$props" ] || props=$(python3 -c "import json,sys; print(json.load(open('$sd/meta.json'))['property'])")
trap 'tools/rmworktree.sh "$name"' EXIT
d=$(tools/mkworktree.sh "$name")
git -C "$d" apply "$(pwd)/$sd/patch.diff"
for p in $props; do
  if out=$(VERIF_REPO=$d ./check "$p" --tier ${TIER:-quick} 2>/dev/null); then echo "MISSED $sd $p: $out" | tail -1; else echo "DETECTED $sd $p: $(echo "$out" | grep VIOLATION | head -1)"; fi
done
