#!/bin/sh
# usage: tools/seedtest.sh <seeded-dir> [Cxx …]   — applies seeded/<dir>/patch.diff in a scratch worktree and
# runs the check(s) of the property (default: the property in meta.json) against it; prints DETECTED / MISSED.
set -e
cd "$(dirname "$0")/.."
sd=$1; shift
name=st-$(basename "$sd" | tr -c 'A-Za-z0-9\n' '-')
props="$*"
[ -n "$props" ] || props=$(python3 -c "import json,sys; print(json.load(open('$sd/meta.json'))['property'])")
trap 'tools/rmworktree.sh "$name"' EXIT
d=$(tools/mkworktree.sh "$name")
git -C "$d" apply "$(pwd)/$sd/patch.diff"
for p in $props; do
  if out=$(VERIF_REPO=$d ./check "$p" --tier ${TIER:-quick} 2>/dev/null); then res=MISSED; line=$(echo "$out" | tail -1); else res=DETECTED; line=$(echo "$out" | grep VIOLATION | head -1); fi
  echo "$res $sd $p: $line"
  rp=$(echo "$line" | sed -n 's/.*replay=\([^ ]*\).*/\1/p')
  python3 - "$sd/meta.json" "$p" "$res" "$line" "$rp" "${TIER:-quick}" <<'PY'
import json,sys,os
mp,p,res,line,rp,tier=sys.argv[1:7]
m=json.load(open(mp)) if os.path.exists(mp) else {}
key=None; kinds=[]
if rp and os.path.exists(rp):
    r=json.load(open(rp))
    fi=r.get("failing_input") or {}
    key=fi.get("key"); kinds=sorted({x.get("kind") for x in r.get("broken_obligations_or_ties",[])})
m.setdefault("check_results",{})[p]={"result":res,"tier":tier,"failing_input_key":key,"broken":kinds,"no_failing_input_found":"no-failing-input-found" in line}
json.dump(m,open(mp,"w"),indent=1)
PY
done
