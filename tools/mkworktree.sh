#!/bin/sh
# usage: tools/mkworktree.sh <name>   -> creates /tmp/wt-<name>, a scratch git worktree of /repo's HEAD
# including the (untracked or tracked) *_verif.go hook files currently in /repo.  Use it with
#   VERIF_REPO=/tmp/wt-<name> ./check Cxx
# to try a change to scion without touching /repo.  Remove with tools/rmworktree.sh <name>.
set -e
d=/tmp/wt-$1
git -C /repo worktree remove --force "$d" >/dev/null 2>&1 || true
rm -rf "$d"; git -C /repo worktree prune
git -C /repo worktree add --detach "$d" HEAD >/dev/null 2>&1
(cd /repo && git ls-files --others --exclude-standard | while read f; do mkdir -p "$d/$(dirname "$f")"; cp "$f" "$d/$f" 2>/dev/null || true; done)
echo "$d"
