#!/bin/sh
# usage: tools/rmworktree.sh <name>
git -C /repo worktree remove --force /tmp/wt-$1 2>/dev/null || rm -rf /tmp/wt-$1
git -C /repo worktree prune
h=$(printf '%s' "/tmp/wt-$1" | sha256sum | cut -c1-8)
rm -f /verif/.work/vh_*_$h /verif/.work/gomod_$h.*
