package main

// groups "signed" (C38) and "segverify" (C24): syntactic facts about pkg/scrypto/signed,
// pkg/segment, private/segment/segverifier and private/trust/verifier.go that the models
// Scion/Model/Signed.lean and Scion/Model/SegVerify.lean hard-code (algorithm table, order of the
// guards, what is fed to the hash in which order, what the associated data consists of, what the
// verifier is bound to).

import (
	"fmt"
	"go/ast"
	"strings"
)

// sigCallName: bare and receiver/package-qualified name of the callee ("Verify", "signed.Verify").
func sigCallName(c *ast.CallExpr) (string, string) {
	switch f := c.Fun.(type) {
	case *ast.Ident:
		return f.Name, f.Name
	case *ast.SelectorExpr:
		if x, ok := f.X.(*ast.Ident); ok {
			return f.Sel.Name, x.Name + "." + f.Sel.Name
		}
		return f.Sel.Name, f.Sel.Name
	}
	return "", ""
}

// sigCalls lists, in source order, the names of the functions called inside fn that are in want.
func sigCalls(fn *ast.FuncDecl, want map[string]bool) []string {
	var out []string
	ast.Inspect(fn.Body, func(n ast.Node) bool {
		c, ok := n.(*ast.CallExpr)
		if !ok {
			return true
		}
		name, qual := sigCallName(c)
		if want[name] {
			out = append(out, name)
		} else if want[qual] {
			out = append(out, qual)
		}
		return true
	})
	return out
}

// sigCallArgs returns the printed arguments of the first call of the named function in fn.
func sigCallArgs(c *Ctx, fn *ast.FuncDecl, name string) ([]string, error) {
	var out []string
	found := false
	ast.Inspect(fn.Body, func(n ast.Node) bool {
		if found {
			return false
		}
		ce, ok := n.(*ast.CallExpr)
		if !ok {
			return true
		}
		nm, qual := sigCallName(ce)
		if nm != name && qual != name {
			return true
		}
		found = true
		for _, a := range ce.Args {
			s := c.Expr(a)
			if ce.Ellipsis.IsValid() && a == ce.Args[len(ce.Args)-1] {
				s += "..."
			}
			out = append(out, s)
		}
		return false
	})
	if !found {
		return nil, fmt.Errorf("call of %s not found in %s", name, fn.Name.Name)
	}
	return out, nil
}

func sigSet(xs ...string) map[string]bool {
	m := map[string]bool{}
	for _, x := range xs {
		m[x] = true
	}
	return m
}

func init() {
	register("signed", func(c *Ctx) error {
		const dir = "pkg/scrypto/signed"
		var sb strings.Builder
		sb.WriteString("namespace Scion.Gen.Signed\n")
		for _, n := range []string{"UnknownSignatureAlgorithm", "ECDSAWithSHA256", "ECDSAWithSHA384", "ECDSAWithSHA512"} {
			v, err := c.ConstNat(dir, n)
			if err != nil {
				return err
			}
			fmt.Fprintf(&sb, "/-- `signed.%s` -/\ndef %s : Nat := %s\n", n, strings.ToLower(n[:1])+n[1:], v)
		}
		// the table signatureAlgorithmDetails
		p, err := c.Pkg(dir)
		if err != nil {
			return err
		}
		var keys, pks, hashes []string
		found := false
		for _, f := range p.files {
			for _, d := range f.Decls {
				gd, ok := d.(*ast.GenDecl)
				if !ok {
					continue
				}
				for _, s := range gd.Specs {
					vs, ok := s.(*ast.ValueSpec)
					if !ok || len(vs.Names) != 1 || vs.Names[0].Name != "signatureAlgorithmDetails" || len(vs.Values) != 1 {
						continue
					}
					cl, ok := vs.Values[0].(*ast.CompositeLit)
					if !ok {
						return fmt.Errorf("signatureAlgorithmDetails is not a composite literal")
					}
					found = true
					for _, el := range cl.Elts {
						kv, ok := el.(*ast.KeyValueExpr)
						if !ok {
							return fmt.Errorf("signatureAlgorithmDetails: unexpected element")
						}
						keys = append(keys, c.Expr(kv.Key))
						pk, hs := "", ""
						if v, ok := kv.Value.(*ast.CompositeLit); ok {
							for _, fe := range v.Elts {
								if fkv, ok := fe.(*ast.KeyValueExpr); ok {
									switch c.Expr(fkv.Key) {
									case "pubKeyAlgo":
										pk = c.Expr(fkv.Value)
									case "hash":
										hs = c.Expr(fkv.Value)
									}
								}
							}
						}
						pks = append(pks, pk)
						hashes = append(hashes, hs)
					}
				}
			}
		}
		if !found {
			return fmt.Errorf("signatureAlgorithmDetails not found")
		}
		fmt.Fprintf(&sb, "/-- keys of `signatureAlgorithmDetails`, in source order -/\ndef detailsKeys : List String := %s\n", LeanStrList(keys))
		fmt.Fprintf(&sb, "/-- their `pubKeyAlgo` -/\ndef detailsPubKeyAlgo : List String := %s\n", LeanStrList(pks))
		fmt.Fprintf(&sb, "/-- their `hash` -/\ndef detailsHash : List String := %s\n", LeanStrList(hashes))
		// order of the guards
		ver, err := c.Func(dir, "", "Verify")
		if err != nil {
			return err
		}
		sign, err := c.Func(dir, "", "Sign")
		if err != nil {
			return err
		}
		want := sigSet("extractHeaderAndBody", "checkCanonicalHeaderAndBody", "associatedDataLen", "checkPubKeyAlgo",
			"computeSignatureInput", "VerifyASN1", "Marshal", "Sign")
		fmt.Fprintf(&sb, "/-- calls in `Verify`, in source order -/\ndef verifyCalls : List String := %s\n", LeanStrList(sigCalls(ver, want)))
		fmt.Fprintf(&sb, "/-- calls in `Sign`, in source order -/\ndef signCalls : List String := %s\n", LeanStrList(sigCalls(sign, want)))
		va, err := sigCallArgs(c, ver, "computeSignatureInput")
		if err != nil {
			return err
		}
		sa, err := sigCallArgs(c, sign, "computeSignatureInput")
		if err != nil {
			return err
		}
		fmt.Fprintf(&sb, "/-- arguments of `computeSignatureInput` in `Verify` (the RAW HeaderAndBody) -/\ndef verifyInputArgs : List String := %s\n", LeanStrList(va))
		fmt.Fprintf(&sb, "/-- arguments of `computeSignatureInput` in `Sign` -/\ndef signInputArgs : List String := %s\n", LeanStrList(sa))
		vs, err := sigCallArgs(c, ver, "VerifyASN1")
		if err != nil {
			return err
		}
		fmt.Fprintf(&sb, "/-- arguments of `ecdsa.VerifyASN1` in `Verify` -/\ndef verifyASN1Args : List String := %s\n", LeanStrList(vs))
		// what computeSignatureInput hashes, in order
		csi, err := c.Func(dir, "", "computeSignatureInput")
		if err != nil {
			return err
		}
		var writes []string
		ast.Inspect(csi.Body, func(n ast.Node) bool {
			switch x := n.(type) {
			case *ast.RangeStmt:
				writes = append(writes, "range "+c.Expr(x.X))
			case *ast.CallExpr:
				if se, ok := x.Fun.(*ast.SelectorExpr); ok && se.Sel.Name == "Write" && len(x.Args) == 1 {
					writes = append(writes, "Write "+c.Expr(x.Args[0]))
				}
				if id, ok := x.Fun.(*ast.Ident); ok && id.Name == "copy" && len(x.Args) == 2 {
					writes = append(writes, "copy "+c.Expr(x.Args[1]))
				}
			}
			return true
		})
		fmt.Fprintf(&sb, "/-- the copies / hash writes of `computeSignatureInput`, in source order -/\ndef inputWrites : List String := %s\n", LeanStrList(writes))
		sb.WriteString("end Scion.Gen.Signed\n")
		return c.Emit("Signed.lean", sb.String())
	})

	register("segverify", func(c *Ctx) error {
		var sb strings.Builder
		sb.WriteString("namespace Scion.Gen.SegVerify\n")
		ad, err := c.Func("pkg/segment", "PathSegment", "associatedData")
		if err != nil {
			return err
		}
		var apps []string
		ast.Inspect(ad.Body, func(n ast.Node) bool {
			switch x := n.(type) {
			case *ast.RangeStmt:
				apps = append(apps, "range "+c.Expr(x.X))
			case *ast.CallExpr:
				if id, ok := x.Fun.(*ast.Ident); ok && id.Name == "append" {
					for _, a := range x.Args[1:] {
						apps = append(apps, "append "+c.Expr(a))
					}
				}
			}
			return true
		})
		fmt.Fprintf(&sb, "/-- what `PathSegment.associatedData(idx)` appends, in source order -/\ndef assocDataAppends : List String := %s\n", LeanStrList(apps))
		vae, err := c.Func("pkg/segment", "PathSegment", "VerifyASEntry")
		if err != nil {
			return err
		}
		a1, err := sigCallArgs(c, vae, "Verify")
		if err != nil {
			return err
		}
		fmt.Fprintf(&sb, "/-- arguments of `verifier.Verify` in `VerifyASEntry` -/\ndef verifyASEntryArgs : List String := %s\n", LeanStrList(a1))
		vs, err := c.Func("private/segment/segverifier", "", "VerifySegment")
		if err != nil {
			return err
		}
		var bind []string
		ast.Inspect(vs.Body, func(n ast.Node) bool {
			switch x := n.(type) {
			case *ast.RangeStmt:
				bind = append(bind, "range "+c.Expr(x.X))
			case *ast.KeyValueExpr:
				if k := c.Expr(x.Key); k == "NotBefore" || k == "NotAfter" {
					bind = append(bind, k+" "+c.Expr(x.Value))
				}
			}
			return true
		})
		for _, nm := range []string{"WithIA", "WithValidity", "VerifyASEntry"} {
			as, err := sigCallArgs(c, vs, nm)
			if err != nil {
				return err
			}
			bind = append(bind, nm+" "+strings.Join(as, ", "))
		}
		fmt.Fprintf(&sb, "/-- the loop of `segverifier.VerifySegment`: range, validity, bindings -/\ndef verifySegmentBind : List String := %s\n", LeanStrList(bind))
		tv, err := c.Func("private/trust", "Verifier", "Verify")
		if err != nil {
			return err
		}
		want := sigSet("signed.ExtractUnverifiedHeader", "proto.Unmarshal", "ia.IsWildcard", "v.notifyTRC", "v.getChains", "signed.Verify")
		fmt.Fprintf(&sb, "/-- calls in `trust.Verifier.Verify`, in source order -/\ndef verifierCalls : List String := %s\n", LeanStrList(sigCalls(tv, want)))
		var conds []string
		ast.Inspect(tv.Body, func(n ast.Node) bool {
			if x, ok := n.(*ast.IfStmt); ok && x.Init == nil {
				conds = append(conds, c.Expr(x.Cond))
			}
			return true
		})
		fmt.Fprintf(&sb, "/-- conditions of the plain `if` guards of `trust.Verifier.Verify`, in source order -/\ndef verifierGuards : List String := %s\n", LeanStrList(conds))
		va, err := sigCallArgs(c, tv, "signed.Verify")
		if err != nil {
			return err
		}
		fmt.Fprintf(&sb, "/-- arguments of `signed.Verify` in `trust.Verifier.Verify` -/\ndef verifierVerifyArgs : List String := %s\n", LeanStrList(va))
		sb.WriteString("end Scion.Gen.SegVerify\n")
		return c.Emit("SegVerify.lean", sb.String())
	})
}
