package main

import (
	"fmt"
	"go/ast"
	"strings"
)

// group "gateway": constants and syntactic facts of the SCION-IP gateway (C41, C42, C43).
func init() {
	register("gateway", func(c *Ctx) error {
		var sb strings.Builder
		sb.WriteString("namespace Scion.Gen.Gateway\n")
		consts := []constSpec{
			{"gateway/routing", "UnknownAction", ""},
			{"gateway/routing", "Accept", ""},
			{"gateway/routing", "Reject", ""},
			{"gateway/routing", "Advertise", ""},
			{"gateway/routing", "RedistributeBGP", ""},
			{"gateway/dataplane", "hdrLen", ""},
			{"gateway/dataplane", "sigHdrSize", ""},
			{"gateway/dataplane", "minMTU", ""},
			{"gateway/dataplane", "indexPos", ""},
			{"gateway/dataplane", "streamPos", ""},
			{"gateway/dataplane", "seqPos", ""},
			{"gateway/dataplane", "reassemblyListCap", ""},
			{"gateway/dataplane", "frameBufCap", ""},
			{"gateway/dataplane", "ringSize", ""},
		}
		for _, s := range consts {
			v, err := c.ConstNat(s.Dir, s.Name)
			if err != nil {
				return err
			}
			fmt.Fprintf(&sb, "/-- `%s.%s` -/\ndef %s : Nat := %s\n", s.Dir, s.Name, s.Name, v)
		}
		// Policy.Match: header of the loop over the rules
		fd, err := c.Func("gateway/routing", "Policy", "Match")
		if err != nil {
			return err
		}
		loop := ""
		ast.Inspect(fd, func(n ast.Node) bool {
			if f, ok := n.(*ast.ForStmt); ok && loop == "" {
				loop = "for " + c.Expr(f.Init) + "; " + c.Expr(f.Cond) + "; " + c.Expr(f.Post)
			}
			return true
		})
		if loop == "" {
			return fmt.Errorf("no for loop in routing.Policy.Match")
		}
		fmt.Fprintf(&sb, "/-- header of the rule loop of `routing.Policy.Match` -/\ndef policyMatchLoop : String := %q\n", loop)
		// RoutingTable.route: the conditions of the `continue` statements, in order
		fd, err = c.Func("gateway/dataplane", "RoutingTable", "route")
		if err != nil {
			return err
		}
		var conds []string
		ast.Inspect(fd, func(n ast.Node) bool {
			if s, ok := n.(*ast.IfStmt); ok && len(s.Body.List) == 1 {
				if b, ok := s.Body.List[0].(*ast.BranchStmt); ok && b.Tok.String() == "continue" {
					conds = append(conds, c.Expr(s.Cond))
				}
			}
			return true
		})
		if len(conds) != 2 {
			return fmt.Errorf("RoutingTable.route: expected two `continue` guards, found %v", conds)
		}
		fmt.Fprintf(&sb, "/-- guards of the `continue` statements in `RoutingTable.route` -/\ndef routeContainsCond : String := %q\ndef routeSkipCond : String := %q\n", conds[0], conds[1])
		// encoder.Read: the "one more packet would fit" guard
		fd, err = c.Func("gateway/dataplane", "encoder", "Read")
		if err != nil {
			return err
		}
		fit := ""
		ast.Inspect(fd, func(n ast.Node) bool {
			if s, ok := n.(*ast.IfStmt); ok && fit == "" {
				if strings.Contains(c.Expr(s.Cond), "cap(e.frame)") {
					fit = c.Expr(s.Cond)
				}
			}
			return true
		})
		if fit == "" {
			return fmt.Errorf("encoder.Read: room guard not found")
		}
		fmt.Fprintf(&sb, "/-- the room guard of `encoder.Read` -/\ndef encoderRoomGuard : String := %q\n", fit)
		sb.WriteString("end Scion.Gen.Gateway\n")
		return c.Emit("Gateway.lean", sb.String())
	})
}
