package main

import (
	"fmt"
	"go/ast"
	"go/token"
	"math/big"
	"strconv"
	"strings"
)

// group "wire": constants of the SCION common/address header, extension headers, L4 protocol
// numbers, path type identifiers and SPAO/dispatcher constants (C18, C20, C21, C44).
//
// Several of these constants have an imported type (`PathType path.Type = 3`) or an imported
// operand (`PathLen = path.InfoLen + 2*path.HopLen`), which the import-less type check of
// ConstNat cannot evaluate; wireConst evaluates the declaring expression on the AST instead,
// following selectors into the scion module.
const wireModPrefix = "github.com/scionproto/scion/"

func wireFindConst(c *Ctx, dir, name string) (ast.Expr, *ast.File, int64, error) {
	p, err := c.Pkg(dir)
	if err != nil {
		return nil, nil, 0, err
	}
	for _, f := range p.files {
		for _, d := range f.Decls {
			gd, ok := d.(*ast.GenDecl)
			if !ok || gd.Tok != token.CONST {
				continue
			}
			var last []ast.Expr
			for iota, s := range gd.Specs {
				vs := s.(*ast.ValueSpec)
				if len(vs.Values) > 0 {
					last = vs.Values
				}
				for i, id := range vs.Names {
					if id.Name == name {
						if i < len(last) {
							return last[i], f, int64(iota), nil
						}
						return nil, nil, 0, fmt.Errorf("%s.%s: no value expression", dir, name)
					}
				}
			}
		}
	}
	return nil, nil, 0, fmt.Errorf("constant %s not found in %s", name, dir)
}

func wireEval(c *Ctx, dir string, f *ast.File, iota int64, e ast.Expr, depth int) (*big.Int, error) {
	if depth > 20 {
		return nil, fmt.Errorf("constant expression too deep")
	}
	switch x := e.(type) {
	case *ast.BasicLit:
		if x.Kind == token.CHAR {
			r, _, _, err := strconv.UnquoteChar(x.Value[1:len(x.Value)-1], '\'')
			if err != nil {
				return nil, err
			}
			return big.NewInt(int64(r)), nil
		}
		if x.Kind != token.INT {
			return nil, fmt.Errorf("non-integer literal %s", x.Value)
		}
		v, ok := new(big.Int).SetString(strings.ReplaceAll(x.Value, "_", ""), 0)
		if !ok {
			return nil, fmt.Errorf("bad integer literal %s", x.Value)
		}
		return v, nil
	case *ast.ParenExpr:
		return wireEval(c, dir, f, iota, x.X, depth+1)
	case *ast.Ident:
		if x.Name == "iota" {
			return big.NewInt(iota), nil
		}
		return wireConst(c, dir, x.Name, depth+1)
	case *ast.SelectorExpr:
		pk, ok := x.X.(*ast.Ident)
		if !ok {
			return nil, fmt.Errorf("unsupported selector %s", c.Expr(x))
		}
		for _, im := range f.Imports {
			pth, _ := strconv.Unquote(im.Path.Value)
			nm := pth[strings.LastIndex(pth, "/")+1:]
			if im.Name != nil {
				nm = im.Name.Name
			}
			if nm == pk.Name && strings.HasPrefix(pth, wireModPrefix) {
				return wireConst(c, strings.TrimPrefix(pth, wireModPrefix), x.Sel.Name, depth+1)
			}
		}
		return nil, fmt.Errorf("cannot resolve %s", c.Expr(x))
	case *ast.CallExpr: // conversion T(x)
		if len(x.Args) == 1 {
			return wireEval(c, dir, f, iota, x.Args[0], depth+1)
		}
		return nil, fmt.Errorf("unsupported call %s", c.Expr(x))
	case *ast.UnaryExpr:
		v, err := wireEval(c, dir, f, iota, x.X, depth+1)
		if err != nil {
			return nil, err
		}
		if x.Op == token.SUB {
			return v.Neg(v), nil
		}
		if x.Op == token.ADD {
			return v, nil
		}
		return nil, fmt.Errorf("unsupported unary %s", x.Op)
	case *ast.BinaryExpr:
		a, err := wireEval(c, dir, f, iota, x.X, depth+1)
		if err != nil {
			return nil, err
		}
		b, err := wireEval(c, dir, f, iota, x.Y, depth+1)
		if err != nil {
			return nil, err
		}
		r := new(big.Int)
		switch x.Op {
		case token.ADD:
			return r.Add(a, b), nil
		case token.SUB:
			return r.Sub(a, b), nil
		case token.MUL:
			return r.Mul(a, b), nil
		case token.QUO:
			if b.Sign() == 0 {
				return nil, fmt.Errorf("division by zero")
			}
			return r.Quo(a, b), nil
		case token.SHL:
			return r.Lsh(a, uint(b.Uint64())), nil
		case token.SHR:
			return r.Rsh(a, uint(b.Uint64())), nil
		case token.OR:
			return r.Or(a, b), nil
		case token.AND:
			return r.And(a, b), nil
		}
		return nil, fmt.Errorf("unsupported operator %s", x.Op)
	}
	return nil, fmt.Errorf("unsupported constant expression %s", c.Expr(e))
}

// wireConst evaluates integer constant `name` of package dir.
func wireConst(c *Ctx, dir, name string, depth int) (*big.Int, error) {
	if v, err := c.ConstNat(dir, name); err == nil {
		n, ok := new(big.Int).SetString(v, 10)
		if ok {
			return n, nil
		}
	}
	e, f, iota, err := wireFindConst(c, dir, name)
	if err != nil {
		return nil, err
	}
	v, err := wireEval(c, dir, f, iota, e, depth)
	if err != nil {
		return nil, fmt.Errorf("%s.%s: %w", dir, name, err)
	}
	return v, nil
}

func wireGroup(file, ns string, specs []constSpec) func(*Ctx) error {
	return func(c *Ctx) error {
		var sb strings.Builder
		fmt.Fprintf(&sb, "namespace Scion.Gen.%s\n", ns)
		for _, s := range specs {
			v, err := wireConst(c, s.Dir, s.Name, 0)
			if err != nil {
				return err
			}
			if v.Sign() < 0 {
				return fmt.Errorf("%s.%s is negative", s.Dir, s.Name)
			}
			as := s.As
			if as == "" {
				as = s.Name
			}
			fmt.Fprintf(&sb, "/-- `%s.%s` -/\ndef %s : Nat := %s\n", s.Dir, s.Name, as, v.String())
		}
		fmt.Fprintf(&sb, "end Scion.Gen.%s\n", ns)
		return c.Emit(file, sb.String())
	}
}

func init() {
	register("wire", wireGroup("Wire.lean", "Wire", []constSpec{
		{"pkg/slayers", "LineLen", ""},
		{"pkg/slayers", "CmnHdrLen", ""},
		{"pkg/slayers", "MaxHdrLen", ""},
		{"pkg/slayers", "SCIONVersion", ""},
		{"pkg/slayers", "T4Ip", ""},
		{"pkg/slayers", "T4Svc", ""},
		{"pkg/slayers", "T16Ip", ""},
		{"pkg/slayers", "L4UDP", ""},
		{"pkg/slayers", "L4SCMP", ""},
		{"pkg/slayers", "L4BFD", ""},
		{"pkg/slayers", "HopByHopClass", ""},
		{"pkg/slayers", "End2EndClass", ""},
		{"pkg/slayers", "OptTypePad1", ""},
		{"pkg/slayers", "OptTypePadN", ""},
		{"pkg/slayers", "OptTypeAuthenticator", ""},
		{"pkg/slayers", "PacketAuthOptionMetadataLen", ""},
		{"pkg/addr", "IABytes", ""},
		{"pkg/slayers/path/empty", "PathType", "EmptyPathType"},
		{"pkg/slayers/path/scion", "PathType", "ScionPathType"},
		{"pkg/slayers/path/onehop", "PathType", "OneHopPathType"},
		{"pkg/slayers/path/epic", "PathType", "EpicPathType"},
		{"pkg/slayers/path/onehop", "PathLen", "OneHopPathLen"},
		{"pkg/slayers/path/epic", "MetadataLen", "EpicMetadataLen"},
		{"pkg/slayers/path/epic", "PktIDLen", "EpicPktIDLen"},
		{"pkg/slayers/path/epic", "HVFLen", "EpicHVFLen"},
	}))
}

// group "spao": constants of pkg/spao/mac.go and the literal mask applied to TrafficClass in
// serializeAuthenticatedData (`s.TrafficClass&0x3f`).
func init() {
	register("spao", func(c *Ctx) error {
		var sb strings.Builder
		sb.WriteString("namespace Scion.Gen.Spao\n")
		v, err := wireConst(c, "pkg/spao", "MACBufferSize", 0)
		if err != nil {
			return err
		}
		fmt.Fprintf(&sb, "/-- `pkg/spao.MACBufferSize` -/\ndef MACBufferSize : Nat := %s\n", v.String())
		fd, err := c.Func("pkg/spao", "", "serializeAuthenticatedData")
		if err != nil {
			return err
		}
		var masks []string
		ast.Inspect(fd, func(n ast.Node) bool {
			be, ok := n.(*ast.BinaryExpr)
			if !ok || be.Op != token.AND {
				return true
			}
			sel, ok := be.X.(*ast.SelectorExpr)
			if !ok || sel.Sel.Name != "TrafficClass" {
				return true
			}
			if lit, ok := be.Y.(*ast.BasicLit); ok && lit.Kind == token.INT {
				if m, ok := new(big.Int).SetString(lit.Value, 0); ok {
					masks = append(masks, m.String())
				}
			}
			return true
		})
		if len(masks) != 1 {
			return fmt.Errorf("expected exactly one `TrafficClass&<literal>` in serializeAuthenticatedData, found %d", len(masks))
		}
		fmt.Fprintf(&sb, "/-- literal mask in `s.TrafficClass&…` of `serializeAuthenticatedData` -/\ndef tcMask : Nat := %s\n", masks[0])
		sb.WriteString("end Scion.Gen.Spao\n")
		return c.Emit("Spao.lean", sb.String())
	})
}

// group "disp": SCMP informational type numbers and the syntactic fact that processMsgNextHop
// assigns `prevHop` as destination exactly once (the echo/traceroute request branch).
func init() {
	register("disp", func(c *Ctx) error {
		var sb strings.Builder
		sb.WriteString("namespace Scion.Gen.Disp\n")
		for _, n := range []string{"SCMPTypeEchoRequest", "SCMPTypeEchoReply", "SCMPTypeTracerouteRequest",
			"SCMPTypeTracerouteReply"} {
			v, err := wireConst(c, "pkg/slayers", n, 0)
			if err != nil {
				return err
			}
			fmt.Fprintf(&sb, "/-- `pkg/slayers.%s` -/\ndef %s : Nat := %s\n", n, n, v.String())
		}
		fd, err := c.Func("dispatcher", "Server", "processMsgNextHop")
		if err != nil {
			return err
		}
		n := 0
		ast.Inspect(fd, func(x ast.Node) bool {
			as, ok := x.(*ast.AssignStmt)
			if !ok {
				return true
			}
			for _, r := range as.Rhs {
				if id, ok := r.(*ast.Ident); ok && id.Name == "prevHop" {
					n++
				}
			}
			return true
		})
		fmt.Fprintf(&sb, "/-- number of assignments `… = prevHop` in `Server.processMsgNextHop` -/\ndef prevHopAssignments : Nat := %d\n", n)
		sb.WriteString("end Scion.Gen.Disp\n")
		return c.Emit("Disp.lean", sb.String())
	})
}
