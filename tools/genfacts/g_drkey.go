package main

// group "drkey": constants and syntactic facts of the DRKey derivation and of the DRKey gRPC
// service (C39, C40).

import (
	"fmt"
	"go/ast"
	"go/token"
	"sort"
	"strconv"
	"strings"
)

func init() { register("drkey", genDrkey) }

// intLit evaluates an integer basic literal (decimal, 0x.., 0b..).
func intLit(e ast.Expr) (int64, bool) {
	bl, ok := e.(*ast.BasicLit)
	if !ok || bl.Kind != token.INT {
		return 0, false
	}
	v, err := strconv.ParseInt(strings.ReplaceAll(bl.Value, "_", ""), 0, 64)
	return v, err == nil
}

// constExpr returns the initialiser expression of a package-level constant.
func (c *Ctx) constExpr(dir, name string) (ast.Expr, error) {
	p, err := c.Pkg(dir)
	if err != nil {
		return nil, err
	}
	for _, f := range p.files {
		for _, d := range f.Decls {
			gd, ok := d.(*ast.GenDecl)
			if !ok || gd.Tok != token.CONST {
				continue
			}
			for _, s := range gd.Specs {
				vs := s.(*ast.ValueSpec)
				for i, n := range vs.Names {
					if n.Name == name && i < len(vs.Values) {
						return vs.Values[i], nil
					}
				}
			}
		}
	}
	return nil, fmt.Errorf("constant %s not found in %s", name, dir)
}

// makeLens collects N of every `make([]byte, N)` in a function body.
func makeLens(fd *ast.FuncDecl) []int64 {
	var out []int64
	ast.Inspect(fd.Body, func(n ast.Node) bool {
		ce, ok := n.(*ast.CallExpr)
		if !ok || len(ce.Args) != 2 {
			return true
		}
		if id, ok := ce.Fun.(*ast.Ident); !ok || id.Name != "make" {
			return true
		}
		if v, ok := intLit(ce.Args[1]); ok {
			out = append(out, v)
		}
		return true
	})
	return out
}

// callees lists the names of the functions / methods called in a function body, in source order.
func callees(fd *ast.FuncDecl) []string {
	var out []string
	ast.Inspect(fd.Body, func(n ast.Node) bool {
		ce, ok := n.(*ast.CallExpr)
		if !ok {
			return true
		}
		switch f := ce.Fun.(type) {
		case *ast.Ident:
			out = append(out, f.Name)
		case *ast.SelectorExpr:
			out = append(out, f.Sel.Name)
		}
		return true
	})
	return out
}

// ifConds lists the conditions of the if statements of a function body, in source order.
func (c *Ctx) ifConds(fd *ast.FuncDecl) []string {
	var out []string
	ast.Inspect(fd.Body, func(n ast.Node) bool {
		if is, ok := n.(*ast.IfStmt); ok {
			out = append(out, c.Expr(is.Cond))
		}
		return true
	})
	return out
}

func genDrkey(c *Ctx) error {
	var sb strings.Builder
	sb.WriteString("namespace Scion.Gen.Drkey\n")
	nat := func(doc, name, val string) {
		fmt.Fprintf(&sb, "/-- %s -/\ndef %s : Nat := %s\n", doc, name, val)
	}
	for _, n := range []string{"AsAs", "AsHost", "HostAS", "HostHost"} {
		v, err := c.ConstNat("pkg/drkey", n)
		if err != nil {
			return err
		}
		nat("`pkg/drkey."+n+"` (KeyType)", n, v)
	}
	for _, n := range []string{"T4Ip", "T4Svc", "T16Ip"} {
		v, err := c.ConstNat("pkg/slayers", n)
		if err != nil {
			return err
		}
		nat("`pkg/slayers."+n+"`", n, v)
	}
	// drkey.Generic = Protocol(pb.Protocol_PROTOCOL_GENERIC_UNSPECIFIED); the pb constant's value
	ge, err := c.constExpr("pkg/drkey", "Generic")
	if err != nil {
		return err
	}
	gtxt := c.Expr(ge)
	const pfx, sfx = "Protocol(pb.", ")"
	if !strings.HasPrefix(gtxt, pfx) || !strings.HasSuffix(gtxt, sfx) {
		return fmt.Errorf("drkey.Generic has unexpected form %q", gtxt)
	}
	gv, err := c.ConstNat("pkg/proto/drkey", strings.TrimSuffix(strings.TrimPrefix(gtxt, pfx), sfx))
	if err != nil {
		return err
	}
	nat("`pkg/drkey.Generic` = `"+gtxt+"`", "Generic", gv)
	// Protocol.IsPredefined: membership in pb.Protocol_name — check the body and list the keys
	fd, err := c.Func("pkg/drkey", "Protocol", "IsPredefined")
	if err != nil {
		return err
	}
	if body := c.Expr(fd.Body); !strings.Contains(body, "pb.Protocol_name[int32(p)]") {
		return fmt.Errorf("Protocol.IsPredefined no longer looks up pb.Protocol_name: %s", body)
	}
	pp, err := c.Pkg("pkg/proto/drkey")
	if err != nil {
		return err
	}
	var keys []int
	found := false
	for _, f := range pp.files {
		ast.Inspect(f, func(n ast.Node) bool {
			vs, ok := n.(*ast.ValueSpec)
			if !ok {
				return true
			}
			for i, nm := range vs.Names {
				if nm.Name != "Protocol_name" || i >= len(vs.Values) {
					continue
				}
				cl, ok := vs.Values[i].(*ast.CompositeLit)
				if !ok {
					continue
				}
				found = true
				for _, el := range cl.Elts {
					if kv, ok := el.(*ast.KeyValueExpr); ok {
						if v, ok := intLit(kv.Key); ok {
							keys = append(keys, int(v))
						}
					}
				}
			}
			return true
		})
	}
	if !found {
		return fmt.Errorf("pb.Protocol_name not found")
	}
	sort.Ints(keys)
	ks := make([]string, len(keys))
	for i, k := range keys {
		ks[i] = strconv.Itoa(k)
	}
	fmt.Fprintf(&sb, "/-- keys of `pkg/proto/drkey.Protocol_name` (= `Protocol.IsPredefined`) -/\n"+
		"def predefinedProtocols : List Nat := [%s]\n", strings.Join(ks, ", "))
	// GRACE_PERIOD = <n> * time.Second
	gp, err := c.constExpr("pkg/drkey", "GRACE_PERIOD")
	if err != nil {
		return err
	}
	be, ok := gp.(*ast.BinaryExpr)
	if !ok || be.Op != token.MUL || c.Expr(be.Y) != "time.Second" {
		return fmt.Errorf("GRACE_PERIOD has unexpected form %q", c.Expr(gp))
	}
	gn, ok := intLit(be.X)
	if !ok {
		return fmt.Errorf("GRACE_PERIOD factor is not a literal: %q", c.Expr(gp))
	}
	fmt.Fprintf(&sb, "/-- `pkg/drkey.GRACE_PERIOD` = `%s`, in nanoseconds -/\ndef gracePeriodNs : Int := %d\n",
		c.Expr(gp), gn*1_000_000_000)
	// scratch buffers of the level-2/3 derivers
	var lens []int64
	for _, pk := range []string{"pkg/drkey/specific", "pkg/drkey/generic"} {
		for _, fn := range []string{"DeriveASHost", "DeriveHostAS", "DeriveHostHost"} {
			fd, err := c.Func(pk, "Deriver", fn)
			if err != nil {
				return err
			}
			l := makeLens(fd)
			if len(l) != 1 {
				return fmt.Errorf("%s.%s: expected exactly one make([]byte, N), got %v", pk, fn, l)
			}
			lens = append(lens, l[0])
		}
	}
	for _, l := range lens {
		if l != lens[0] {
			return fmt.Errorf("level-2/3 derivers use different buffer sizes: %v", lens)
		}
	}
	nat("size of the input buffer allocated by every level-2/3 deriver method", "level2BufLen",
		strconv.FormatInt(lens[0], 10))
	// which deriver method each ServiceEngine method calls, and through what
	for _, m := range []string{"DeriveLevel1", "DeriveASHost", "DeriveHostAS", "DeriveHostHost"} {
		fd, err := c.Func("control/drkey", "ServiceEngine", m)
		if err != nil {
			return err
		}
		fmt.Fprintf(&sb, "/-- callees of `control/drkey.ServiceEngine.%s`, source order -/\n"+
			"def engine%sCalls : List String := %s\n", m, m, LeanStrList(callees(fd)))
	}
	// the gRPC handlers: callees in source order (C40: validation precedes the engine call)
	for _, m := range []string{"DRKeyLevel1", "DRKeyIntraLevel1", "DRKeyASHost", "DRKeyHostAS",
		"DRKeyHostHost", "DRKeySecretValue"} {
		fd, err := c.Func("control/drkey/grpc", "Server", m)
		if err != nil {
			return err
		}
		fmt.Fprintf(&sb, "/-- callees of `control/drkey/grpc.Server.%s`, source order -/\n"+
			"def handler%sCalls : List String := %s\n", m, m, LeanStrList(callees(fd)))
	}
	// the validators: their decisions as written
	for _, v := range []struct{ recv, name string }{{"", "validateASHostReq"}, {"", "validateHostASReq"},
		{"", "validateHostHostReq"}, {"Server", "validateAllowedHost"}, {"Server", "validateClientCertificate"},
		{"", "hostAddrFromPeer"}} {
		fd, err := c.Func("control/drkey/grpc", v.recv, v.name)
		if err != nil {
			return err
		}
		fmt.Fprintf(&sb, "/-- `if` conditions of `control/drkey/grpc.%s`, source order -/\n"+
			"def %sConds : List String := %s\n", v.name, v.name, LeanStrList(c.ifConds(fd)))
	}
	sb.WriteString("end Scion.Gen.Drkey\n")
	return c.Emit("Drkey.lean", sb.String())
}
