package main

// group "pathseq" (C47): what the ANTLR listener of private/path/pathpol/sequence.go pastes
// together — the three wildcard constants and, per Exit* method, the fmt.Sprintf format and the
// printed argument expressions — and the layout of one textual hop.  Scion/Model/Seq.lean's
// `compile`/`hopText` hard-code these shapes; Props/C47 `gen_listener` compares.
// Group "addrfmt" (C46): the fmt.Sprintf formats of pkg/addr's formatters.

import (
	"fmt"
	"go/ast"
	"go/token"
	"strconv"
	"strings"
)

// addrpolSprintfs lists, in source order, every fmt.Sprintf call of fn as
// "<format>|<arg>,<arg>…".
func addrpolSprintfs(c *Ctx, fn *ast.FuncDecl) []string {
	var out []string
	ast.Inspect(fn.Body, func(n ast.Node) bool {
		ce, ok := n.(*ast.CallExpr)
		if !ok {
			return true
		}
		sel, ok := ce.Fun.(*ast.SelectorExpr)
		if !ok || sel.Sel.Name != "Sprintf" || len(ce.Args) == 0 {
			return true
		}
		if x, ok := sel.X.(*ast.Ident); !ok || x.Name != "fmt" {
			return true
		}
		lit, ok := ce.Args[0].(*ast.BasicLit)
		if !ok || lit.Kind != token.STRING {
			return true
		}
		f, err := strconv.Unquote(lit.Value)
		if err != nil {
			return true
		}
		var args []string
		for _, a := range ce.Args[1:] {
			args = append(args, c.Expr(a))
		}
		out = append(out, f+"|"+strings.Join(args, ","))
		return true
	})
	return out
}

// addrpolStringConst returns the value of a string constant of the package.
func addrpolStringConst(c *Ctx, dir, name string) (string, error) {
	p, err := c.Pkg(dir)
	if err != nil {
		return "", err
	}
	for _, f := range p.files {
		for _, d := range f.Decls {
			gd, ok := d.(*ast.GenDecl)
			if !ok || gd.Tok != token.CONST {
				continue
			}
			for _, sp := range gd.Specs {
				vs := sp.(*ast.ValueSpec)
				for i, id := range vs.Names {
					if id.Name != name || i >= len(vs.Values) {
						continue
					}
					if lit, ok := vs.Values[i].(*ast.BasicLit); ok && lit.Kind == token.STRING {
						return strconv.Unquote(lit.Value)
					}
				}
			}
		}
	}
	return "", fmt.Errorf("string constant %s not found in %s", name, dir)
}

func addrpolEmitFuncs(c *Ctx, sb *strings.Builder, dir string, fns [][2]string) error {
	for _, rn := range fns {
		fn, err := c.Func(dir, rn[0], rn[1])
		if err != nil {
			return err
		}
		name := rn[1]
		if rn[0] != "" {
			name = rn[0] + "_" + rn[1]
		}
		fmt.Fprintf(sb, "/-- fmt.Sprintf calls of `%s.%s` as \"format|args\" -/\ndef %s : List String := %s\n",
			rn[0], rn[1], name, LeanStrList(addrpolSprintfs(c, fn)))
	}
	return nil
}

func init() {
	register("pathseq", func(c *Ctx) error {
		const dir = "private/path/pathpol"
		var sb strings.Builder
		sb.WriteString("namespace Scion.Gen.PathSeq\n")
		for _, k := range []string{"isdWildcard", "asWildcard", "ifWildcard"} {
			v, err := addrpolStringConst(c, dir, k)
			if err != nil {
				return err
			}
			fmt.Fprintf(&sb, "def %s : String := %q\n", k, v)
		}
		var fns [][2]string
		for _, m := range []string{"ExitQuestionMark", "ExitPlus", "ExitAsterisk", "ExitOr", "ExitConcatenation",
			"ExitParentheses", "ExitHop", "ExitISDHop", "ExitISDASHop", "ExitISDASIFHop", "ExitISDASIFIFHop"} {
			fns = append(fns, [2]string{"sequenceListener", m})
		}
		fns = append(fns, [2]string{"", "NewSequence"}, [2]string{"", "hop"})
		if err := addrpolEmitFuncs(c, &sb, dir, fns); err != nil {
			return err
		}
		// normalizeAS must be applied in ExitAS and ExitLegacyAS
		for _, m := range []string{"ExitAS", "ExitLegacyAS"} {
			fn, err := c.Func(dir, "sequenceListener", m)
			if err != nil {
				return err
			}
			norm := false
			ast.Inspect(fn.Body, func(n ast.Node) bool {
				if ce, ok := n.(*ast.CallExpr); ok {
					if id, ok := ce.Fun.(*ast.Ident); ok && id.Name == "normalizeAS" {
						norm = true
					}
				}
				return true
			})
			fmt.Fprintf(&sb, "def %s_normalizes : Bool := %v\n", m, norm)
		}
		sb.WriteString("end Scion.Gen.PathSeq\n")
		return c.Emit("PathSeq.lean", sb.String())
	})
	register("addrfmt", func(c *Ctx) error {
		var sb strings.Builder
		sb.WriteString("namespace Scion.Gen.AddrFmt\n")
		err := addrpolEmitFuncs(c, &sb, "pkg/addr", [][2]string{{"", "FormatIA"}, {"", "FormatISD"}, {"IA", "String"},
			{"SVC", "BaseString"}, {"Addr", "String"}, {"", "FormatAddrPort"}})
		if err != nil {
			return err
		}
		sb.WriteString("end Scion.Gen.AddrFmt\n")
		return c.Emit("AddrFmt.lean", sb.String())
	})
}
