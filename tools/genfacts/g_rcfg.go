package main

// groups "rcfgport" (C11) and "plumb" (C17): syntactic facts about the router's configuration
// plumbing, regenerated from the source on every run.
//
//  rcfgport -> Scion/Gen/RcfgPort.lean: EndhostPort, the redirect condition of
//     internalLink.Resolve transliterated into a Lean function, the propagation chain
//     Connector.SetPortRange -> dataPlane.SetPortRange -> provider.SetDispatchPorts (-> live
//     internal link) and the snapshot in NewInternalLink, as assignment lists.
//  plumb -> Scion/Gen/Plumb.lean: RouterConfig -> RunConfig (NewConnector), the argument
//     expressions at every provider-factory call site of router/dataplane.go, the parameter names
//     of udpip.newProvider and its struct literal, the conn.Config literals at the Open calls and
//     the Set{Read,Write}Buffer calls of conn.initConnUDP, each transliterated into a Lean
//     function so that their composition is re-checked by the kernel (Props/C17.lean).

import (
	"fmt"
	"go/ast"
	"go/token"
	"sort"
	"strings"
)

func init() {
	register("rcfgport", genRcfgPort)
	register("plumb", genPlumb)
}

// ---------------------------------------------------------------------------------------------
// helpers

func rcfLeanPairs(ps [][2]string) string {
	q := make([]string, len(ps))
	for i, p := range ps {
		q[i] = fmt.Sprintf("(%q, %q)", p[0], p[1])
	}
	return "[" + strings.Join(q, ", ") + "]"
}

// rcfAssignsIn collects `lhs = rhs` / `lhs := rhs` (also tuple assignments, pairwise) in source order.
func rcfAssignsIn(c *Ctx, n ast.Node) [][2]string {
	var out [][2]string
	ast.Inspect(n, func(x ast.Node) bool {
		as, ok := x.(*ast.AssignStmt)
		if !ok || len(as.Lhs) != len(as.Rhs) {
			return true
		}
		for i := range as.Lhs {
			out = append(out, [2]string{c.Expr(as.Lhs[i]), c.Expr(as.Rhs[i])})
		}
		return true
	})
	return out
}

// compositeOf returns the key/value pairs of the first composite literal of the named type
// (`T{...}`, `&T{...}`, `pkg.T{...}`) inside n, in source order.
func rcfCompositesOf(c *Ctx, n ast.Node, typ string) [][][2]string {
	var out [][][2]string
	ast.Inspect(n, func(x ast.Node) bool {
		cl, ok := x.(*ast.CompositeLit)
		if !ok || cl.Type == nil {
			return true
		}
		name := c.Expr(cl.Type)
		if i := strings.LastIndex(name, "."); i >= 0 {
			name = name[i+1:]
		}
		if name != typ {
			return true
		}
		var kv [][2]string
		for _, el := range cl.Elts {
			if p, ok := el.(*ast.KeyValueExpr); ok {
				kv = append(kv, [2]string{c.Expr(p.Key), c.Expr(p.Value)})
			}
		}
		out = append(out, kv)
		return true
	})
	return out
}

func rcfParamNames(fd *ast.FuncDecl) []string {
	var ps []string
	for _, f := range fd.Type.Params.List {
		for _, n := range f.Names {
			ps = append(ps, n.Name)
		}
	}
	return ps
}

// rcfCallsTo lists the argument expressions of every call whose function expression prints as one
// of names, in source order.
func rcfCallsTo(c *Ctx, n ast.Node, match func(fn string) bool) [][]string {
	var out [][]string
	ast.Inspect(n, func(x ast.Node) bool {
		ce, ok := x.(*ast.CallExpr)
		if !ok {
			return true
		}
		fn := c.Expr(ce.Fun)
		if !match(fn) {
			return true
		}
		args := []string{fn}
		for _, a := range ce.Args {
			args = append(args, c.Expr(a))
		}
		out = append(out, args)
		return true
	})
	return out
}

// ---------------------------------------------------------------------------------------------
// rcfgport

// rcfLeanCond transliterates a Go boolean expression over `port`, `<recv>.dispatchStart`,
// `<recv>.dispatchEnd` into Lean (Bool).
func rcfLeanCond(c *Ctx, e ast.Expr) (string, error) {
	switch v := e.(type) {
	case *ast.ParenExpr:
		return rcfLeanCond(c, v.X)
	case *ast.BinaryExpr:
		l, err := rcfLeanCond(c, v.X)
		if err != nil {
			return "", err
		}
		r, err := rcfLeanCond(c, v.Y)
		if err != nil {
			return "", err
		}
		switch v.Op {
		case token.LOR:
			return fmt.Sprintf("(%s || %s)", l, r), nil
		case token.LAND:
			return fmt.Sprintf("(%s && %s)", l, r), nil
		case token.LSS, token.GTR, token.LEQ, token.GEQ:
			op := map[token.Token]string{token.LSS: "<", token.GTR: ">", token.LEQ: "≤", token.GEQ: "≥"}[v.Op]
			return fmt.Sprintf("decide (%s %s %s)", l, op, r), nil
		case token.EQL:
			return fmt.Sprintf("decide (%s = %s)", l, r), nil
		case token.NEQ:
			return fmt.Sprintf("decide (%s ≠ %s)", l, r), nil
		}
	case *ast.UnaryExpr:
		if v.Op == token.NOT {
			x, err := rcfLeanCond(c, v.X)
			if err != nil {
				return "", err
			}
			return "(!" + x + ")", nil
		}
	case *ast.Ident:
		if v.Name == "port" {
			return "port", nil
		}
	case *ast.SelectorExpr:
		switch v.Sel.Name {
		case "dispatchStart", "dispatchEnd", "dispatchRedirect":
			return v.Sel.Name, nil
		}
	}
	return "", fmt.Errorf("redirect condition: cannot transliterate %q", c.Expr(e))
}

func genRcfgPort(c *Ctx) error {
	var sb strings.Builder
	sb.WriteString("namespace Scion.Gen.RcfgPort\n")

	// EndhostPort
	v, err := c.ConstNat("private/topology/underlay", "EndhostPort")
	if err != nil {
		return err
	}
	fmt.Fprintf(&sb, "/-- `private/topology/underlay.EndhostPort` -/\ndef EndhostPort : Nat := %s\n", v)
	tp, err := c.Pkg("private/topology")
	if err != nil {
		return err
	}
	alias := ""
	for _, f := range tp.files {
		ast.Inspect(f, func(n ast.Node) bool {
			vs, ok := n.(*ast.ValueSpec)
			if !ok {
				return true
			}
			for i, nm := range vs.Names {
				if nm.Name == "EndhostPort" && i < len(vs.Values) {
					alias = c.Expr(vs.Values[i])
				}
			}
			return true
		})
	}
	if alias == "" {
		return fmt.Errorf("topology.EndhostPort not found")
	}
	fmt.Fprintf(&sb, "/-- `private/topology.EndhostPort = …` -/\ndef topologyEndhostPort : String := %q\n", alias)

	// internalLink.Resolve: the if statement that assigns the redirect port
	res, err := c.Func("router/underlayproviders/udpip", "internalLink", "Resolve")
	if err != nil {
		return err
	}
	var cond ast.Expr
	var assign [][2]string
	nIf := 0
	ast.Inspect(res.Body, func(n ast.Node) bool {
		is, ok := n.(*ast.IfStmt)
		if !ok {
			return true
		}
		as := rcfAssignsIn(c, is.Body)
		for _, a := range as {
			if a[0] == "port" && strings.HasSuffix(a[1], "dispatchRedirect") {
				cond, assign = is.Cond, as
				nIf++
			}
		}
		return true
	})
	if cond == nil || nIf != 1 {
		return fmt.Errorf("internalLink.Resolve: expected exactly one `if … { port = ….dispatchRedirect }`, found %d", nIf)
	}
	lc, err := rcfLeanCond(c, cond)
	if err != nil {
		return err
	}
	fmt.Fprintf(&sb, "/-- `internalLink.Resolve`: `if %s { … }` -/\n", c.Expr(cond))
	fmt.Fprintf(&sb, "def redirectCond (port dispatchStart dispatchEnd : Nat) : Bool :=\n  %s\n", lc)
	fmt.Fprintf(&sb, "def redirectCondSrc : String := %q\n", c.Expr(cond))
	fmt.Fprintf(&sb, "def redirectAssign : List (String × String) := %s\n", rcfLeanPairs(assign))
	// the address written into the packet uses `port`
	udp := rcfCompositesOf(c, res.Body, "UDPAddr")
	if len(udp) != 1 {
		return fmt.Errorf("internalLink.Resolve: expected one net.UDPAddr literal, found %d", len(udp))
	}
	fmt.Fprintf(&sb, "def resolveUDPAddr : List (String × String) := %s\n", rcfLeanPairs(udp[0]))

	// dataPlane.SetPortRange
	spr, err := c.Func("router", "dataPlane", "SetPortRange")
	if err != nil {
		return err
	}
	fmt.Fprintf(&sb, "def setPortRangeParams : List String := %s\n", LeanStrList(rcfParamNames(spr)))
	fmt.Fprintf(&sb, "def setPortRangeAssigns : List (String × String) := %s\n", rcfLeanPairs(rcfAssignsIn(c, spr.Body)))
	var loops []string
	var loopCalls [][]string
	ast.Inspect(spr.Body, func(n ast.Node) bool {
		rs, ok := n.(*ast.RangeStmt)
		if !ok {
			return true
		}
		val := ""
		if rs.Value != nil {
			val = c.Expr(rs.Value)
		}
		loops = append(loops, val+" in "+c.Expr(rs.X))
		loopCalls = append(loopCalls, rcfCallsTo(c, rs.Body, func(fn string) bool {
			return strings.HasSuffix(fn, ".SetDispatchPorts")
		})...)
		return true
	})
	fmt.Fprintf(&sb, "def setPortRangeLoops : List String := %s\n", LeanStrList(loops))
	var lc2 []string
	for _, x := range loopCalls {
		lc2 = append(lc2, LeanStrList(x))
	}
	fmt.Fprintf(&sb, "def setPortRangeLoopCalls : List (List String) := [%s]\n", strings.Join(lc2, ", "))

	// provider.SetDispatchPorts
	sdp, err := c.Func("router/underlayproviders/udpip", "provider", "SetDispatchPorts")
	if err != nil {
		return err
	}
	fmt.Fprintf(&sb, "def setDispatchPortsParams : List String := %s\n", LeanStrList(rcfParamNames(sdp)))
	fmt.Fprintf(&sb, "def setDispatchPortsAssigns : List (String × String) := %s\n", rcfLeanPairs(rcfAssignsIn(c, sdp.Body)))

	// NewInternalLink: the internalLink literal
	nil_, err := c.Func("router/underlayproviders/udpip", "provider", "NewInternalLink")
	if err != nil {
		return err
	}
	lits := rcfCompositesOf(c, nil_.Body, "internalLink")
	if len(lits) != 1 {
		return fmt.Errorf("NewInternalLink: expected one internalLink literal, found %d", len(lits))
	}
	var disp [][2]string
	for _, kv := range lits[0] {
		if strings.HasPrefix(kv[0], "dispatch") {
			disp = append(disp, kv)
		}
	}
	fmt.Fprintf(&sb, "def newInternalLinkInit : List (String × String) := %s\n", rcfLeanPairs(disp))

	// Connector.SetPortRange
	csp, err := c.Func("router", "Connector", "SetPortRange")
	if err != nil {
		return err
	}
	fmt.Fprintf(&sb, "def connectorSetPortRangeParams : List String := %s\n", LeanStrList(rcfParamNames(csp)))
	var guarded [][2]string
	ast.Inspect(csp.Body, func(n ast.Node) bool {
		is, ok := n.(*ast.IfStmt)
		if !ok {
			return true
		}
		for _, a := range rcfAssignsIn(c, is.Body) {
			guarded = append(guarded, [2]string{c.Expr(is.Cond), a[0] + " = " + a[1]})
		}
		return true
	})
	fmt.Fprintf(&sb, "def connectorOverrides : List (String × String) := %s\n", rcfLeanPairs(guarded))
	var cc []string
	for _, x := range rcfCallsTo(c, csp.Body, func(fn string) bool { return strings.HasSuffix(fn, ".SetPortRange") }) {
		cc = append(cc, LeanStrList(x))
	}
	fmt.Fprintf(&sb, "def connectorCalls : List (List String) := [%s]\n", strings.Join(cc, ", "))

	// ConfigDataplane hands the topology's range on
	cdp, err := c.Func("router/control", "", "ConfigDataplane")
	if err != nil {
		return err
	}
	var cd []string
	for _, x := range rcfCallsTo(c, cdp.Body, func(fn string) bool { return strings.HasSuffix(fn, ".SetPortRange") }) {
		cd = append(cd, LeanStrList(x))
	}
	fmt.Fprintf(&sb, "def configDataplaneCalls : List (List String) := [%s]\n", strings.Join(cd, ", "))

	// resolveLocalDst: the final Resolve call
	rld, err := c.Func("router", "dataPlane", "resolveLocalDst")
	if err != nil {
		return err
	}
	var rc []string
	for _, x := range rcfCallsTo(c, rld.Body, func(fn string) bool { return strings.HasSuffix(fn, ".Resolve") }) {
		rc = append(rc, LeanStrList(x))
	}
	fmt.Fprintf(&sb, "def resolveLocalDstCalls : List (List String) := [%s]\n", strings.Join(rc, ", "))

	sb.WriteString("end Scion.Gen.RcfgPort\n")
	return c.Emit("RcfgPort.lean", sb.String())
}

// ---------------------------------------------------------------------------------------------
// plumb

// rcfStructFields lists the field names of a struct type declared in package dir.
func rcfStructFields(c *Ctx, dir, name string) ([]string, error) {
	p, err := c.Pkg(dir)
	if err != nil {
		return nil, err
	}
	var out []string
	for _, f := range p.files {
		ast.Inspect(f, func(n ast.Node) bool {
			ts, ok := n.(*ast.TypeSpec)
			if !ok || ts.Name.Name != name {
				return true
			}
			st, ok := ts.Type.(*ast.StructType)
			if !ok {
				return true
			}
			for _, fl := range st.Fields.List {
				for _, nm := range fl.Names {
					out = append(out, nm.Name)
				}
			}
			return false
		})
	}
	if len(out) == 0 {
		return nil, fmt.Errorf("struct %s not found in %s", name, dir)
	}
	return out, nil
}

func rcfContains(xs []string, x string) bool {
	for _, y := range xs {
		if x == y {
			return true
		}
	}
	return false
}

// rcfLastSel returns the final selector of a pure selector chain `a.b.c` ("" otherwise) and the chain
// before it.
func rcfLastSel(e ast.Expr) (root string, sel string) {
	se, ok := e.(*ast.SelectorExpr)
	if !ok {
		return "", ""
	}
	var parts []string
	var cur ast.Expr = se.X
	for {
		switch v := cur.(type) {
		case *ast.SelectorExpr:
			parts = append([]string{v.Sel.Name}, parts...)
			cur = v.X
			continue
		case *ast.Ident:
			parts = append([]string{v.Name}, parts...)
		default:
			return "", ""
		}
		break
	}
	return strings.Join(parts, "."), se.Sel.Name
}

func rcfLeanIdent(s string) string {
	// Go field / parameter names are valid Lean identifiers except for a few keywords
	switch s {
	case "end", "from", "at", "do", "in", "then", "else", "if", "fun", "let", "open", "local", "meta":
		return s + "'"
	}
	return s
}

func genPlumb(c *Ctx) error {
	var sb strings.Builder
	sb.WriteString("namespace Scion.Gen.Plumb\n")
	intFields := func(name string, fs []string) {
		fmt.Fprintf(&sb, "structure %s where\n", name)
		for _, f := range fs {
			fmt.Fprintf(&sb, "  %s : Int\n", rcfLeanIdent(f))
		}
		sb.WriteString("deriving DecidableEq, Repr\n")
	}

	// --- RouterConfig -> RunConfig in NewConnector
	rcFields, err := rcfStructFields(c, "router", "RunConfig")
	if err != nil {
		return err
	}
	intFields("RunConfig", rcFields)
	nc, err := c.Func("router", "", "NewConnector")
	if err != nil {
		return err
	}
	cfgParam := rcfParamNames(nc)[0]
	rcl := rcfCompositesOf(c, nc.Body, "RunConfig")
	if len(rcl) != 1 {
		return fmt.Errorf("NewConnector: expected one RunConfig literal, found %d", len(rcl))
	}
	// RouterConfig: only the fields NewConnector copies into RunConfig are modelled
	var rcSrc []string
	lit := map[string]string{}
	for _, kv := range rcl[0] {
		root, sel := "", ""
		// value must be <cfgParam>.<Field>
		if i := strings.Index(kv[1], "."); i > 0 && !strings.Contains(kv[1][i+1:], ".") &&
			!strings.ContainsAny(kv[1], "()[]+-* ") {
			root, sel = kv[1][:i], kv[1][i+1:]
		}
		if root != cfgParam || sel == "" {
			return fmt.Errorf("NewConnector: RunConfig.%s = %q is not a plain field of %s", kv[0], kv[1], cfgParam)
		}
		lit[kv[0]] = sel
		if !rcfContains(rcSrc, sel) {
			rcSrc = append(rcSrc, sel)
		}
	}
	intFields("RouterConfig", rcSrc)
	sb.WriteString("/-- the `RunConfig{…}` literal of `router.NewConnector` -/\n")
	sb.WriteString("def newConnectorRunConfig (config : RouterConfig) : RunConfig :=\n  {")
	for i, f := range rcFields {
		src, ok := lit[f]
		val := "0"
		if ok {
			val = "config." + rcfLeanIdent(src)
		}
		if i > 0 {
			sb.WriteString(",")
		}
		fmt.Fprintf(&sb, " %s := %s", rcfLeanIdent(f), val)
	}
	sb.WriteString(" }\n")

	// --- factory call sites in router/dataplane.go
	rp, err := c.Pkg("router")
	if err != nil {
		return err
	}
	type site struct {
		fn   string
		pos  string
		args []string
	}
	var sites []site
	for _, f := range rp.files {
		if !strings.HasSuffix(c.fset.Position(f.Pos()).Filename, "dataplane.go") {
			continue
		}
		for _, d := range f.Decls {
			fd, ok := d.(*ast.FuncDecl)
			if !ok || fd.Body == nil {
				continue
			}
			// local variables assigned from underlayProviders[...] are factories too
			factVars := map[string]bool{}
			for _, a := range rcfAssignsIn(c, fd.Body) {
				if strings.HasPrefix(a[1], "underlayProviders[") {
					factVars[a[0]] = true
				}
			}
			ast.Inspect(fd.Body, func(n ast.Node) bool {
				as, ok := n.(*ast.AssignStmt)
				if ok && len(as.Lhs) == 2 && len(as.Rhs) == 1 && strings.HasPrefix(c.Expr(as.Rhs[0]), "underlayProviders[") {
					factVars[c.Expr(as.Lhs[0])] = true
				}
				return true
			})
			ast.Inspect(fd.Body, func(n ast.Node) bool {
				ce, ok := n.(*ast.CallExpr)
				if !ok {
					return true
				}
				fn := c.Expr(ce.Fun)
				if !(strings.HasPrefix(fn, "underlayProviders[") || factVars[fn]) {
					return true
				}
				s := site{fn: fd.Name.Name, pos: fmt.Sprintf("dataplane.go:%06d", c.fset.Position(ce.Pos()).Line)}
				for _, a := range ce.Args {
					root, sel := rcfLastSel(a)
					okRoot := root == "runConfig" || strings.HasSuffix(root, ".RunConfig") || root == "RunConfig"
					if sel == "" || !okRoot || !rcfContains(rcFields, sel) {
						s.args = append(s.args, "?"+c.Expr(a))
					} else {
						s.args = append(s.args, sel)
					}
				}
				sites = append(sites, s)
				return true
			})
		}
	}
	if len(sites) == 0 {
		return fmt.Errorf("no provider factory call site found in router/dataplane.go")
	}
	sort.SliceStable(sites, func(i, j int) bool { return sites[i].pos < sites[j].pos })
	var siteNames, siteDefs []string
	for i, s := range sites {
		for _, a := range s.args {
			if strings.HasPrefix(a, "?") {
				return fmt.Errorf("%s (%s): factory argument %q is not a RunConfig field", s.fn, s.pos, a[1:])
			}
		}
		name := fmt.Sprintf("site%d_%s", i, s.fn)
		fmt.Fprintf(&sb, "/-- factory call in `%s` -/\ndef %s (rc : RunConfig) : List Int := [%s]\n",
			s.fn, name, rcfJoinMap(s.args, func(a string) string { return "rc." + rcfLeanIdent(a) }))
		siteNames = append(siteNames, fmt.Sprintf("%q", s.fn))
		siteDefs = append(siteDefs, name)
	}
	fmt.Fprintf(&sb, "def siteNames : List String := [%s]\n", strings.Join(siteNames, ", "))
	fmt.Fprintf(&sb, "def sites : List (RunConfig → List Int) := [%s]\n", strings.Join(siteDefs, ", "))

	// --- udpip.newProvider
	np, err := c.Func("router/underlayproviders/udpip", "", "newProvider")
	if err != nil {
		return err
	}
	nps := rcfParamNames(np)
	fmt.Fprintf(&sb, "def newProviderParams : List String := %s\n", LeanStrList(nps))
	pl := rcfCompositesOf(c, np.Body, "provider")
	if len(pl) != 1 {
		return fmt.Errorf("newProvider: expected one provider literal, found %d", len(pl))
	}
	var provFields [][2]string
	for _, kv := range pl[0] {
		if rcfContains(nps, kv[1]) {
			provFields = append(provFields, kv)
		}
	}
	intFields("Provider", rcfMapFirst(provFields))
	fmt.Fprintf(&sb, "def newProvider (%s : Int) : Provider :=\n  { %s }\n",
		strings.Join(rcfMapStr(nps, rcfLeanIdent), " "),
		rcfJoinMap2(provFields, func(kv [2]string) string { return rcfLeanIdent(kv[0]) + " := " + rcfLeanIdent(kv[1]) }))
	// registration: router.AddUnderlay("udpip", newProvider)
	ud, err := c.Pkg("router/underlayproviders/udpip")
	if err != nil {
		return err
	}
	var regs []string
	for _, f := range ud.files {
		for _, x := range rcfCallsTo(c, f, func(fn string) bool { return strings.HasSuffix(fn, "AddUnderlay") }) {
			regs = append(regs, LeanStrList(x))
		}
	}
	fmt.Fprintf(&sb, "def registrations : List (List String) := [%s]\n", strings.Join(regs, ", "))
	// the factory type's parameter order (documentation of intent)
	// --- conn.Config literals at the Open calls
	connFields := []string{"SendBufferSize", "ReceiveBufferSize"}
	cf, err := rcfStructFields(c, "private/underlay/conn", "Config")
	if err != nil {
		return err
	}
	for _, f := range connFields {
		if !rcfContains(cf, f) {
			return fmt.Errorf("conn.Config has no field %s", f)
		}
	}
	intFields("ConnConfig", cf)
	var openDefs, openNames []string
	for _, f := range ud.files {
		for _, d := range f.Decls {
			fd, ok := d.(*ast.FuncDecl)
			if !ok || fd.Body == nil {
				continue
			}
			var bad error
			ast.Inspect(fd.Body, func(n ast.Node) bool {
				ce, ok := n.(*ast.CallExpr)
				if !ok || !strings.HasSuffix(c.Expr(ce.Fun), "connOpener.Open") {
					return true
				}
				lits := rcfCompositesOf(c, ce, "Config")
				if len(lits) != 1 {
					bad = fmt.Errorf("%s: Open call without a conn.Config literal", fd.Name.Name)
					return false
				}
				var parts []string
				seen := map[string]bool{}
				for _, kv := range lits[0] {
					root, sel := "", ""
					if i := strings.LastIndex(kv[1], "."); i > 0 {
						root, sel = kv[1][:i], kv[1][i+1:]
					}
					if root != "u" || !rcfContains(rcfMapFirst(provFields), sel) {
						bad = fmt.Errorf("%s: conn.Config.%s = %q is not a provider field set by newProvider",
							fd.Name.Name, kv[0], kv[1])
						return false
					}
					seen[kv[0]] = true
					parts = append(parts, fmt.Sprintf("%s := u.%s", rcfLeanIdent(kv[0]), rcfLeanIdent(sel)))
				}
				for _, f := range cf {
					if !seen[f] {
						parts = append(parts, fmt.Sprintf("%s := 0", rcfLeanIdent(f)))
					}
				}
				name := "open_" + fd.Name.Name
				fmt.Fprintf(&sb, "/-- `conn.Config` literal of the `connOpener.Open` call in `%s` -/\n", fd.Name.Name)
				fmt.Fprintf(&sb, "def %s (u : Provider) : ConnConfig :=\n  { %s }\n", name, strings.Join(parts, ", "))
				openDefs = append(openDefs, name)
				openNames = append(openNames, fmt.Sprintf("%q", fd.Name.Name))
				return true
			})
			if bad != nil {
				return bad
			}
		}
	}
	if len(openDefs) == 0 {
		return fmt.Errorf("no connOpener.Open call found in udpip")
	}
	fmt.Fprintf(&sb, "def openNames : List String := [%s]\n", strings.Join(openNames, ", "))
	fmt.Fprintf(&sb, "def opens : List (Provider → ConnConfig) := [%s]\n", strings.Join(openDefs, ", "))

	// the default opener hands the config on unchanged
	uo, err := c.Func("router/underlayproviders/udpip", "uo", "Open")
	if err != nil {
		return err
	}
	var uoc []string
	for _, x := range rcfCallsTo(c, uo.Body, func(fn string) bool { return fn == "conn.New" }) {
		uoc = append(uoc, LeanStrList(x))
	}
	fmt.Fprintf(&sb, "def defaultOpenerParams : List String := %s\n", LeanStrList(rcfParamNames(uo)))
	fmt.Fprintf(&sb, "def defaultOpenerCalls : List (List String) := [%s]\n", strings.Join(uoc, ", "))

	// --- conn.initConnUDP: EVERY call that sets a buffer-size socket option, in source order,
	// with the option it sets and the configuration field its argument comes from
	init_, err := c.Func("private/underlay/conn", "connUDPBase", "initConnUDP")
	if err != nil {
		return err
	}
	if !strings.HasSuffix(c.fset.Position(init_.Pos()).Filename, "conn_linux.go") {
		// the Linux build is the one examined; make sure that is the declaration we got
		cp, _ := c.Pkg("private/underlay/conn")
		init_ = nil
		for _, f := range cp.files {
			if !strings.HasSuffix(c.fset.Position(f.Pos()).Filename, "conn_linux.go") {
				continue
			}
			for _, d := range f.Decls {
				if fd, ok := d.(*ast.FuncDecl); ok && fd.Name.Name == "initConnUDP" {
					init_ = fd
				}
			}
		}
		if init_ == nil {
			return fmt.Errorf("conn_linux.go: initConnUDP not found")
		}
	}
	// optOf classifies a call: which buffer option does it set, with which argument expression
	optOf := func(ce *ast.CallExpr) (opt string, arg ast.Expr) {
		fn := c.Expr(ce.Fun)
		base := fn
		if i := strings.LastIndex(fn, "."); i >= 0 {
			base = fn[i+1:]
		}
		switch {
		case base == "SetReadBuffer" && len(ce.Args) == 1:
			return "SO_RCVBUF", ce.Args[0]
		case base == "SetWriteBuffer" && len(ce.Args) == 1:
			return "SO_SNDBUF", ce.Args[0]
		case strings.HasPrefix(base, "Setsockopt") && len(ce.Args) >= 4:
			o := c.Expr(ce.Args[2])
			if i := strings.LastIndex(o, "."); i >= 0 {
				o = o[i+1:]
			}
			if strings.Contains(o, "BUF") {
				return o, ce.Args[3]
			}
		}
		return "", nil
	}
	dirOf := map[string]string{"SO_RCVBUF": "rcv", "SO_RCVBUFFORCE": "rcv", "SO_SNDBUF": "snd", "SO_SNDBUFFORCE": "snd"}
	type setCall struct{ guard, fn, opt, field string }
	var setCalls []setCall
	inGuard := map[*ast.CallExpr]bool{}
	var shapeErr error
	for _, st := range init_.Body.List {
		is, ok := st.(*ast.IfStmt)
		if !ok {
			continue
		}
		g := c.Expr(is.Cond)
		if !(strings.HasPrefix(g, "cfg.") && strings.HasSuffix(g, " != 0")) {
			continue
		}
		gfield := strings.TrimSuffix(strings.TrimPrefix(g, "cfg."), " != 0")
		if !rcfContains(cf, gfield) {
			continue
		}
		local := map[string]string{}
		for _, a := range rcfAssignsIn(c, is.Body) {
			if _, dup := local[a[0]]; !dup {
				local[a[0]] = a[1]
			}
		}
		ast.Inspect(is.Body, func(n ast.Node) bool {
			ce, ok := n.(*ast.CallExpr)
			if !ok {
				return true
			}
			opt, arg := optOf(ce)
			if opt == "" {
				return true
			}
			inGuard[ce] = true
			a := c.Expr(arg)
			if v, ok := local[a]; ok {
				a = v
			}
			field := strings.TrimPrefix(a, "cfg.")
			if field == a || !rcfContains(cf, field) {
				shapeErr = fmt.Errorf("initConnUDP: %s(%s): argument %q is not a conn.Config field", c.Expr(ce.Fun), opt, a)
				return false
			}
			if _, ok := dirOf[opt]; !ok {
				shapeErr = fmt.Errorf("initConnUDP: unknown buffer option %s", opt)
				return false
			}
			setCalls = append(setCalls, setCall{gfield, c.Expr(ce.Fun), opt, field})
			return true
		})
	}
	if shapeErr != nil {
		return shapeErr
	}
	// a buffer option set outside a `cfg.<Field> != 0` block is a shape the model does not know
	ast.Inspect(init_.Body, func(n ast.Node) bool {
		if ce, ok := n.(*ast.CallExpr); ok {
			if opt, _ := optOf(ce); opt != "" && !inGuard[ce] {
				shapeErr = fmt.Errorf("initConnUDP: %s sets %s outside a `cfg.<Field> != 0` block", c.Expr(ce.Fun), opt)
			}
		}
		return true
	})
	if shapeErr != nil {
		return shapeErr
	}
	if len(setCalls) == 0 {
		return fmt.Errorf("initConnUDP: no buffer-size option is set")
	}
	var rows []string
	for _, sc := range setCalls {
		rows = append(rows, fmt.Sprintf("(%q, %q, %q, %q)", sc.guard, sc.fn, sc.opt, sc.field))
	}
	fmt.Fprintf(&sb, "/-- every call of `initConnUDP` (conn_linux.go) that sets a buffer-size socket option, in source\n"+
		"order: (guarding `cfg.<Field> != 0`, callee, option, configuration field of the argument) -/\n"+
		"def bufSetCalls : List (String × String × String × String) :=\n  [%s]\n", strings.Join(rows, ",\n   "))
	// the same as a state transformer on (SO_RCVBUF, SO_SNDBUF) requests; a call inside a retry
	// branch is taken to happen (the branch is reachable when the kernel clamps the first request)
	sb.WriteString("/-- what the kernel is asked for, option by option, after all of those calls " +
		"(none = never set: system default) -/\n")
	sb.WriteString("def requested (cfg : ConnConfig) : Option Int × Option Int :=\n  let st : Option Int × Option Int := (none, none)\n")
	for _, sc := range setCalls {
		upd := "(some cfg." + rcfLeanIdent(sc.field) + ", st.2)"
		if dirOf[sc.opt] == "snd" {
			upd = "(st.1, some cfg." + rcfLeanIdent(sc.field) + ")"
		}
		fmt.Fprintf(&sb, "  -- %s: %s <- cfg.%s\n  let st := if cfg.%s ≠ 0 then %s else st\n", sc.fn, sc.opt, sc.field,
			rcfLeanIdent(sc.guard), upd)
	}
	sb.WriteString("  st\n")
	sb.WriteString("def soRcvBuf (cfg : ConnConfig) : Option Int := (requested cfg).1\n")
	sb.WriteString("def soSndBuf (cfg : ConnConfig) : Option Int := (requested cfg).2\n")

	sb.WriteString("end Scion.Gen.Plumb\n")
	return c.Emit("Plumb.lean", sb.String())
}

func rcfJoinMap(xs []string, f func(string) string) string {
	return strings.Join(rcfMapStr(xs, f), ", ")
}

func rcfMapStr(xs []string, f func(string) string) []string {
	out := make([]string, len(xs))
	for i, x := range xs {
		out[i] = f(x)
	}
	return out
}

func rcfMapFirst(ps [][2]string) []string {
	out := make([]string, len(ps))
	for i, p := range ps {
		out[i] = p[0]
	}
	return out
}

func rcfJoinMap2(ps [][2]string, f func([2]string) string) string {
	out := make([]string, len(ps))
	for i, p := range ps {
		out[i] = f(p)
	}
	return strings.Join(out, ", ")
}
