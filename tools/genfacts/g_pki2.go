package main

// group "pki2": syntactic facts about the certificate-chain / signer / renewal decision code
// (C34, C36, C37): the certificate type numbering, the chain length constant, the accepted
// signature algorithms, and the source order of the decisive calls in the staged functions the
// Lean models mirror (only the listed callees are kept, so unrelated edits do not disturb it).

import (
	"fmt"
	"go/ast"
	"go/token"
	"strings"
)

// calleesInOrder lists the names of the functions/methods called in fd's body, in source
// order (by position of the call's opening parenthesis' function expression), restricted to keep.
func calleesInOrder(fd *ast.FuncDecl, keep map[string]bool) []string {
	type hit struct {
		pos  token.Pos
		name string
	}
	var hits []hit
	ast.Inspect(fd.Body, func(n ast.Node) bool {
		ce, ok := n.(*ast.CallExpr)
		if !ok {
			return true
		}
		name := ""
		switch f := ce.Fun.(type) {
		case *ast.Ident:
			name = f.Name
		case *ast.SelectorExpr:
			name = f.Sel.Name
		}
		if keep[name] {
			hits = append(hits, hit{ce.Fun.End(), name})
		}
		return true
	})
	for i := 1; i < len(hits); i++ {
		for j := i; j > 0 && hits[j].pos < hits[j-1].pos; j-- {
			hits[j], hits[j-1] = hits[j-1], hits[j]
		}
	}
	out := make([]string, len(hits))
	for i, h := range hits {
		out[i] = h.name
	}
	return out
}

func set(xs ...string) map[string]bool {
	m := map[string]bool{}
	for _, x := range xs {
		m[x] = true
	}
	return m
}

func init() {
	register("pki2", func(c *Ctx) error {
		var sb strings.Builder
		sb.WriteString("namespace Scion.Gen.Pki2\n")
		// certificate type numbering (iota order)
		for _, n := range []string{"Invalid", "Sensitive", "Regular", "Root", "CA", "AS"} {
			v, err := c.ConstNat("pkg/scrypto/cppki", n)
			if err != nil {
				return err
			}
			fmt.Fprintf(&sb, "/-- `cppki.%s` -/\ndef certType%s : Nat := %s\n", n, n, v)
		}
		v, err := c.ConstNat("pkg/scrypto/cppki", "CertVersion")
		if err != nil {
			return err
		}
		fmt.Fprintf(&sb, "/-- `cppki.CertVersion` -/\ndef certVersion : Nat := %s\n", v)

		// the literal k in `len(certs) != k` at the top of ValidateChain
		fd, err := c.Func("pkg/scrypto/cppki", "", "ValidateChain")
		if err != nil {
			return err
		}
		lenLit := ""
		ast.Inspect(fd.Body, func(n ast.Node) bool {
			be, ok := n.(*ast.BinaryExpr)
			if !ok || lenLit != "" {
				return true
			}
			if ce, ok := be.X.(*ast.CallExpr); ok {
				if id, ok := ce.Fun.(*ast.Ident); ok && id.Name == "len" && be.Op == token.NEQ {
					if bl, ok := be.Y.(*ast.BasicLit); ok {
						lenLit = bl.Value
					}
				}
			}
			return true
		})
		if lenLit == "" {
			return fmt.Errorf("ValidateChain: `len(certs) != k` not found")
		}
		fmt.Fprintf(&sb, "/-- `k` of `len(certs) != k` in `cppki.ValidateChain` -/\ndef chainLen : Nat := %s\n", lenLit)

		// ValidSCIONSignatureAlgs element names
		p, err := c.Pkg("pkg/scrypto/cppki")
		if err != nil {
			return err
		}
		var algs []string
		for _, f := range p.files {
			ast.Inspect(f, func(n ast.Node) bool {
				vs, ok := n.(*ast.ValueSpec)
				if !ok || len(vs.Names) != 1 || vs.Names[0].Name != "ValidSCIONSignatureAlgs" || len(vs.Values) != 1 {
					return true
				}
				if cl, ok := vs.Values[0].(*ast.CompositeLit); ok {
					for _, e := range cl.Elts {
						algs = append(algs, c.Expr(e))
					}
				}
				return true
			})
		}
		if len(algs) == 0 {
			return fmt.Errorf("ValidSCIONSignatureAlgs not found")
		}
		fmt.Fprintf(&sb, "/-- elements of `cppki.ValidSCIONSignatureAlgs` -/\ndef validSigAlgs : List String := %s\n", LeanStrList(algs))

		// call orders
		type spec struct {
			dir, recv, name, as string
			keep            map[string]bool
		}
		for _, s := range []spec{
			{"pkg/scrypto/cppki", "", "verifyChain", "verifyChainCalls",
				set("ValidateChain", "IsZero", "CheckSignatureFrom", "RootPool", "Verify")},
			{"pkg/scrypto/cppki", "", "ValidateChain", "validateChainCalls", set("ValidateCert", "Covers")},
			{"private/trust", "", "activeTRCs", "activeTRCsCalls", set("SignedTRC", "IsZero", "Contains", "InGracePeriod")},
			{"private/trust", "SignerGen", "bestForKey", "bestForKeyCalls",
				set("SubjectKeyID", "SelectSignatureAlgorithm", "Chains", "filterChains", "bestChain", "minTime", "GracePeriodEnd")},
			{"private/trust", "", "bestChain", "bestChainCalls", set("VerifyChain")},
			{"private/ca/renewal", "RequestVerifier", "VerifyCMSSignedRenewalRequest", "verifyRequestCalls",
				set("ParseContentInfo", "SignedDataContent", "ExtractChain", "VerifySignature", "EContentValue",
					"ParseCertificateRequest", "processCSR")},
			{"private/ca/renewal", "RequestVerifier", "VerifySignature", "verifySignatureCalls",
				set("FindCertificate", "verifyClientChain", "IsTypeData", "EContentValue", "verifySignerInfo")},
			{"private/ca/renewal", "RequestVerifier", "verifyClientChain", "verifyClientChainCalls",
				set("ExtractIA", "SignedTRC", "IsZero", "Contains", "VerifyChain", "GracePeriodEnd", "verifyWithGraceTRC")},
			{"private/ca/renewal", "RequestVerifier", "verifyWithGraceTRC", "verifyWithGraceCalls",
				set("SignedTRC", "IsZero", "Contains", "VerifyChain")},
			{"private/ca/renewal", "RequestVerifier", "processCSR", "processCSRCalls", set("ExtractIA", "Equal", "CheckSignature")},
			{"private/ca/renewal", "", "ExtractChain", "extractChainCalls", set("X509Certificates", "ValidateCert", "ValidateChain")},
			{"pkg/scrypto/cppki", "CAPolicy", "CreateChain", "createChainCalls",
				set("Covers", "SubjectKeyID", "CreateCertificate", "ParseCertificate", "ValidateChain")},
		} {
			fd, err := c.Func(s.dir, s.recv, s.name)
			if err != nil {
				return err
			}
			fmt.Fprintf(&sb, "/-- decisive calls of `%s.%s`, in source order -/\ndef %s : List String := %s\n",
				s.dir, s.name, s.as, LeanStrList(calleesInOrder(fd, s.keep)))
		}
		sb.WriteString("end Scion.Gen.Pki2\n")
		return c.Emit("Pki2.lean", sb.String())
	})
}
