package main

import (
	"fmt"
	"go/ast"
	"go/token"
	"strings"
)

// group "comb": facts of private/path/combinator used by C28/C29:
//   - the table of validNextSeg (which segment types may follow which), read off the switch;
//   - the bound of filterLongPaths (comparison operator and literal of the `iaCounts[...] > 2` test);
//   - the number of segment slots of the path meta header (len of scion.MetaHdr.SegLen).
func init() {
	register("comb", func(c *Ctx) error {
		var sb strings.Builder
		sb.WriteString("namespace Scion.Gen.Comb\n")
		dir := "private/path/combinator"
		fd, err := c.Func(dir, "", "validNextSeg")
		if err != nil {
			return err
		}
		typeName := func(e ast.Expr) (string, bool) {
			sel, ok := e.(*ast.SelectorExpr)
			if !ok || !strings.HasPrefix(sel.Sel.Name, "PathSegType_") {
				return "", false
			}
			return strings.TrimPrefix(sel.Sel.Name, "PathSegType_"), true
		}
		// allowed next types in `return a == T1 || a == T2`, or none for `return false`
		var allowed func(e ast.Expr) ([]string, error)
		allowed = func(e ast.Expr) ([]string, error) {
			switch x := e.(type) {
			case *ast.Ident:
				if x.Name == "false" {
					return nil, nil
				}
			case *ast.ParenExpr:
				return allowed(x.X)
			case *ast.BinaryExpr:
				if x.Op == token.LOR {
					a, err := allowed(x.X)
					if err != nil {
						return nil, err
					}
					b, err := allowed(x.Y)
					if err != nil {
						return nil, err
					}
					return append(a, b...), nil
				}
				if x.Op == token.EQL && c.Expr(x.X) == "nextSeg.Type" {
					if t, ok := typeName(x.Y); ok {
						return []string{t}, nil
					}
				}
			}
			return nil, fmt.Errorf("validNextSeg: unexpected return expression %s", c.Expr(e))
		}
		var rows []string
		nilFirst := ""
		for _, st := range fd.Body.List {
			switch x := st.(type) {
			case *ast.IfStmt: // if currSeg == nil { return true }
				if c.Expr(x.Cond) == "currSeg == nil" && len(x.Body.List) > 0 {
					if r, ok := x.Body.List[len(x.Body.List)-1].(*ast.ReturnStmt); ok && len(r.Results) == 1 {
						nilFirst = c.Expr(r.Results[0])
					}
				}
			case *ast.SwitchStmt:
				if c.Expr(x.Tag) != "currSeg.Type" {
					return fmt.Errorf("validNextSeg: switch on %s", c.Expr(x.Tag))
				}
				for _, cc := range x.Body.List {
					cl := cc.(*ast.CaseClause)
					if cl.List == nil {
						continue // default: panic
					}
					if len(cl.List) != 1 || len(cl.Body) != 1 {
						return fmt.Errorf("validNextSeg: unexpected case shape")
					}
					from, ok := typeName(cl.List[0])
					ret, ok2 := cl.Body[0].(*ast.ReturnStmt)
					if !ok || !ok2 || len(ret.Results) != 1 {
						return fmt.Errorf("validNextSeg: unexpected case %s", c.Expr(cl))
					}
					al, err := allowed(ret.Results[0])
					if err != nil {
						return err
					}
					rows = append(rows, fmt.Sprintf("(%q, %s)", from, LeanStrList(al)))
				}
			}
		}
		if nilFirst == "" || len(rows) == 0 {
			return fmt.Errorf("validNextSeg: shape not recognised")
		}
		fmt.Fprintf(&sb, "/-- `validNextSeg(nil, _)` returns -/\ndef firstSegAny : String := %q\n", nilFirst)
		fmt.Fprintf(&sb, "/-- `validNextSeg`: for each current segment type the types that may follow -/\n"+
			"def validNext : List (String × List String) := [%s]\n", strings.Join(rows, ", "))

		// filterLongPaths: `if iaCounts[iface.IA] > 2`
		fl, err := c.Func(dir, "", "filterLongPaths")
		if err != nil {
			return err
		}
		op, bound := "", ""
		ast.Inspect(fl.Body, func(n ast.Node) bool {
			if is, ok := n.(*ast.IfStmt); ok && op == "" {
				if be, ok := is.Cond.(*ast.BinaryExpr); ok {
					if _, ok := be.X.(*ast.IndexExpr); ok {
						if lit, ok := be.Y.(*ast.BasicLit); ok && lit.Kind == token.INT {
							op, bound = be.Op.String(), lit.Value
						}
					}
				}
			}
			return true
		})
		if op == "" {
			return fmt.Errorf("filterLongPaths: count test not found")
		}
		fmt.Fprintf(&sb, "/-- `filterLongPaths`: a path is dropped when `iaCounts[ia] <longOp> <longBound>` -/\n"+
			"def longOp : String := %q\ndef longBound : Nat := %s\n", op, bound)
		sb.WriteString("end Scion.Gen.Comb\n")
		return c.Emit("Comb.lean", sb.String())
	})
}
