package main

// group "router1": facts about the SCION-path fast path of the border router
// (router/dataplane.go) used by the theorems of C01, C05, C06, C07:
//   - the methods `scionPacketProcessor.process` calls on its receiver, in source order;
//   - for every check, the SCMP (type, code, pointer) expressions of its slow-path requests;
//   - the case conditions of the two link-type switches of validateEgressID and the guards of
//     validateEgressID / validateTransitUnderlaySrc;
//   - the pointer expressions;
//   - the numeric constants involved.

import (
	"fmt"
	"go/ast"
	"strings"
)

func r1Calls(c *Ctx, fd *ast.FuncDecl, recv string) []string {
	var out []string
	ast.Inspect(fd.Body, func(n ast.Node) bool {
		ce, ok := n.(*ast.CallExpr)
		if !ok {
			return true
		}
		if se, ok := ce.Fun.(*ast.SelectorExpr); ok {
			if id, ok := se.X.(*ast.Ident); ok && id.Name == recv {
				out = append(out, se.Sel.Name)
			}
		}
		return true
	})
	return out
}

// r1Requests lists "type|code|pointer" of every slowPathRequest{...} literal in fd.
func r1Requests(c *Ctx, fd *ast.FuncDecl) []string {
	var out []string
	ast.Inspect(fd.Body, func(n ast.Node) bool {
		cl, ok := n.(*ast.CompositeLit)
		if !ok {
			return true
		}
		if id, ok := cl.Type.(*ast.Ident); !ok || id.Name != "slowPathRequest" {
			return true
		}
		f := map[string]string{"spType": "", "code": "", "pointer": ""}
		for _, e := range cl.Elts {
			if kv, ok := e.(*ast.KeyValueExpr); ok {
				if k, ok := kv.Key.(*ast.Ident); ok {
					f[k.Name] = c.Expr(kv.Value)
				}
			}
		}
		out = append(out, f["spType"]+"|"+f["code"]+"|"+f["pointer"])
		return true
	})
	return out
}

// r1SwitchCases lists, per tagless switch statement in fd (source order), its case conditions.
func r1SwitchCases(c *Ctx, fd *ast.FuncDecl) [][]string {
	var out [][]string
	ast.Inspect(fd.Body, func(n ast.Node) bool {
		sw, ok := n.(*ast.SwitchStmt)
		if !ok || sw.Tag != nil {
			return true
		}
		var cases []string
		for _, s := range sw.Body.List {
			cc := s.(*ast.CaseClause)
			if cc.List == nil {
				cases = append(cases, "default")
				continue
			}
			var parts []string
			for _, e := range cc.List {
				parts = append(parts, c.Expr(e))
			}
			cases = append(cases, strings.Join(parts, " , "))
		}
		out = append(out, cases)
		return true
	})
	return out
}

// r1IfConds lists the conditions of the if statements of fd in source order.
func r1IfConds(c *Ctx, fd *ast.FuncDecl) []string {
	var out []string
	ast.Inspect(fd.Body, func(n ast.Node) bool {
		if is, ok := n.(*ast.IfStmt); ok {
			out = append(out, c.Expr(is.Cond))
		}
		return true
	})
	return out
}

func r1ReturnExpr(c *Ctx, fd *ast.FuncDecl) string {
	res := ""
	ast.Inspect(fd.Body, func(n ast.Node) bool {
		if r, ok := n.(*ast.ReturnStmt); ok && len(r.Results) == 1 && res == "" {
			res = c.Expr(r.Results[0])
		}
		return true
	})
	return res
}

func init() {
	register("router1", func(c *Ctx) error {
		const dir = "router"
		var sb strings.Builder
		sb.WriteString("namespace Scion.Gen.Router1\n")
		fn := func(name string) (*ast.FuncDecl, error) { return c.Func(dir, "scionPacketProcessor", name) }
		proc, err := fn("process")
		if err != nil {
			return err
		}
		fmt.Fprintf(&sb, "/-- methods `scionPacketProcessor.process` calls on its receiver, in source order -/\ndef processCalls : List String := %s\n",
			LeanStrList(r1Calls(c, proc, "p")))
		rs, err := fn("reset")
		if err != nil {
			return err
		}
		var assigns []string
		for _, st := range rs.Body.List {
			if a, ok := st.(*ast.AssignStmt); ok {
				assigns = append(assigns, c.Expr(a))
			}
		}
		fmt.Fprintf(&sb, "/-- assignments of `scionPacketProcessor.reset` (per-packet state cleared before each packet) -/\ndef resetAssigns : List String := %s\n",
			LeanStrList(assigns))
		pp, err := fn("processPkt")
		if err != nil {
			return err
		}
		first := ""
		if len(pp.Body.List) > 0 {
			first = c.Expr(pp.Body.List[0])
		}
		fmt.Fprintf(&sb, "/-- first statement of `processPkt` -/\ndef processPktFirst : String := %q\n", first)
		checks := []string{"validateHopExpiry", "validateIngressID", "validatePktLen", "validateSrcHost",
			"respInvalidSrcIA", "respInvalidDstIA", "verifyCurrentMAC", "validateEgressID", "validateEgressUp",
			"resolveInbound", "handleIngressRouterAlert", "handleEgressRouterAlert"}
		for _, n := range checks {
			fd, err := fn(n)
			if err != nil {
				return err
			}
			fmt.Fprintf(&sb, "/-- slow-path requests (type|code|pointer) of `%s` -/\ndef req_%s : List String := %s\n",
				n, n, LeanStrList(r1Requests(c, fd)))
		}
		eg, err := fn("validateEgressID")
		if err != nil {
			return err
		}
		sws := r1SwitchCases(c, eg)
		if len(sws) != 2 {
			return fmt.Errorf("validateEgressID: expected 2 tagless switches, found %d", len(sws))
		}
		fmt.Fprintf(&sb, "/-- case conditions of the within-segment switch of `validateEgressID` -/\ndef egressWithinCases : List String := %s\n", LeanStrList(sws[0]))
		fmt.Fprintf(&sb, "/-- case conditions of the segment-change switch of `validateEgressID` -/\ndef egressChangeCases : List String := %s\n", LeanStrList(sws[1]))
		fmt.Fprintf(&sb, "/-- if-conditions of `validateEgressID` -/\ndef egressIfConds : List String := %s\n", LeanStrList(r1IfConds(c, eg)))
		for _, n := range []string{"validateTransitUnderlaySrc", "validateSrcDstIA", "validateSrcHost", "validateIngressID",
			"updateNonConsDirIngressSegID", "processEgress", "validateHopExpiry", "verifyCurrentMAC", "validatePktLen"} {
			fd, err := fn(n)
			if err != nil {
				return err
			}
			fmt.Fprintf(&sb, "/-- if-conditions of `%s` -/\ndef conds_%s : List String := %s\n", n, n, LeanStrList(r1IfConds(c, fd)))
		}
		for _, n := range []string{"currentHopPointer", "currentInfoPointer"} {
			fd, err := fn(n)
			if err != nil {
				return err
			}
			fmt.Fprintf(&sb, "/-- `%s` -/\ndef expr_%s : String := %q\n", n, n, r1ReturnExpr(c, fd))
		}
		// epicHdrLen: guard and the two return expressions
		eh, err := fn("epicHdrLen")
		if err != nil {
			return err
		}
		var rets []string
		ast.Inspect(eh.Body, func(n ast.Node) bool {
			if r, ok := n.(*ast.ReturnStmt); ok && len(r.Results) == 1 {
				rets = append(rets, c.Expr(r.Results[0]))
			}
			return true
		})
		fmt.Fprintf(&sb, "/-- if-conditions of `epicHdrLen` -/\ndef conds_epicHdrLen : List String := %s\n", LeanStrList(r1IfConds(c, eh)))
		fmt.Fprintf(&sb, "/-- return expressions of `epicHdrLen` (then-branch first) -/\ndef rets_epicHdrLen : List String := %s\n", LeanStrList(rets))
		consts := []constSpec{
			{"pkg/slayers", "CmnHdrLen", ""}, {"pkg/slayers", "LineLen", ""},
			{"pkg/slayers/path/scion", "MetaLen", ""}, {"pkg/slayers/path", "InfoLen", ""},
			{"pkg/slayers/path", "HopLen", ""}, {"pkg/slayers/path", "MacLen", ""},
			{"pkg/slayers/path", "MACBufferSize", ""},
			{"pkg/addr", "IABytes", ""},
			{"pkg/slayers/path/epic", "MetadataLen", "EpicMetadataLen"},
			{"pkg/slayers", "SCMPTypeDestinationUnreachable", ""}, {"pkg/slayers", "SCMPTypeParameterProblem", ""},
			{"pkg/slayers", "SCMPTypeExternalInterfaceDown", ""}, {"pkg/slayers", "SCMPTypeInternalConnectivityDown", ""},
			{"pkg/slayers", "SCMPCodeNoRoute", ""}, {"pkg/slayers", "SCMPCodeInvalidPacketSize", ""},
			{"pkg/slayers", "SCMPCodeInvalidSourceAddress", ""}, {"pkg/slayers", "SCMPCodeInvalidDestinationAddress", ""},
			{"pkg/slayers", "SCMPCodeInvalidPath", ""}, {"pkg/slayers", "SCMPCodeUnknownHopFieldIngress", ""},
			{"pkg/slayers", "SCMPCodeUnknownHopFieldEgress", ""}, {"pkg/slayers", "SCMPCodeInvalidHopFieldMAC", ""},
			{"pkg/slayers", "SCMPCodePathExpired", ""}, {"pkg/slayers", "SCMPCodeInvalidSegmentChange", ""},
			{"pkg/slayers", "HopByHopClass", ""}, {"pkg/slayers", "End2EndClass", ""},
			{"pkg/slayers", "L4UDP", ""}, {"pkg/slayers", "L4TCP", ""}, {"pkg/slayers", "L4SCMP", ""},
			{"private/topology", "Unset", "LinkUnset"}, {"private/topology", "Core", "LinkCore"},
			{"private/topology", "Parent", "LinkParent"}, {"private/topology", "Child", "LinkChild"},
			{"private/topology", "Peer", "LinkPeer"},
		}
		for _, s := range consts {
			v, err := c.ConstNat(s.Dir, s.Name)
			if err != nil {
				return err
			}
			as := s.As
			if as == "" {
				as = s.Name
			}
			fmt.Fprintf(&sb, "/-- `%s.%s` -/\ndef %s : Nat := %s\n", s.Dir, s.Name, as, v)
		}
		// path type identifiers have an imported type (path.Type): evaluate the declaring
		// expression on the AST
		for _, pt := range [][2]string{{"pkg/slayers/path/scion", "ScionPathType"}, {"pkg/slayers/path/epic", "EpicPathType"}} {
			ex, f, iota, err := wireFindConst(c, pt[0], "PathType")
			if err != nil {
				return err
			}
			v, err := wireEval(c, pt[0], f, iota, ex, 0)
			if err != nil {
				return err
			}
			fmt.Fprintf(&sb, "/-- `%s.PathType` -/\ndef %s : Nat := %s\n", pt[0], pt[1], v.String())
		}
		sb.WriteString("end Scion.Gen.Router1\n")
		return c.Emit("Router1.lean", sb.String())
	})
}
