package main

// group "path": constants of the SCION path encodings (C19 and everything routing).
func init() {
	register("path", constGroup("Path.lean", "Path", []constSpec{
		{"pkg/slayers/path/scion", "MetaLen", ""},
		{"pkg/slayers/path/scion", "MaxHops", ""},
		{"pkg/slayers/path", "InfoLen", ""},
		{"pkg/slayers/path", "HopLen", ""},
		{"pkg/slayers/path", "MacLen", ""},
	}))
}
