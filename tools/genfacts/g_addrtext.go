package main

// group "addrtext": constants of pkg/addr's text formats (C46).
func init() {
	register("addrtext", constGroup("AddrText.lean", "AddrText", []constSpec{
		{"pkg/addr", "ISDBits", ""},
		{"pkg/addr", "ASBits", ""},
		{"pkg/addr", "BGPASBits", ""},
		{"pkg/addr", "MaxISD", ""},
		{"pkg/addr", "MaxAS", ""},
		{"pkg/addr", "MaxBGPAS", ""},
		{"pkg/addr", "asPartBits", ""},
		{"pkg/addr", "asPartBase", ""},
		{"pkg/addr", "asParts", ""},
		{"pkg/addr", "SvcDS", ""},
		{"pkg/addr", "SvcCS", ""},
		{"pkg/addr", "SvcWildcard", ""},
		{"pkg/addr", "SvcNone", ""},
		{"pkg/addr", "SVCMcast", ""},
	}))
}
