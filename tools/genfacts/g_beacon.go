package main

import (
	"fmt"
	"go/ast"
	"strings"
)

// group "beacon": constants of beacon policies / usage flags (C25, C26) and of the hop expiry
// encoding and MAC layout used by the beacon extender (C23).
func init() {
	register("beacon", func(c *Ctx) error {
		var sb strings.Builder
		sb.WriteString("namespace Scion.Gen.Beacon\n")
		for _, s := range []constSpec{
			{"control/beacon", "DefaultMaxHopsLength", ""},
			{"control/beacon", "DefaultBestSetSize", ""},
			{"control/beacon", "DefaultCandidateSetSize", ""},
			{"control/beacon", "UsageUpReg", ""},
			{"control/beacon", "UsageDownReg", ""},
			{"control/beacon", "UsageCoreReg", ""},
			{"control/beacon", "UsageProp", ""},
			{"pkg/slayers/path", "MacLen", ""},
			{"pkg/slayers/path", "MACBufferSize", ""},
		} {
			v, err := c.ConstNat(s.Dir, s.Name)
			if err != nil {
				return err
			}
			fmt.Fprintf(&sb, "/-- `%s.%s` -/\ndef %s : Nat := %s\n", s.Dir, s.Name, s.Name, v)
		}
		// time.Duration constants cannot be evaluated without importing "time": record the
		// defining expressions verbatim (the Lean side fixes what they must be).
		for _, n := range []string{"MaxTTL", "expTimeUnit"} {
			x, err := bcnConstExpr(c, "pkg/slayers/path", n)
			if err != nil {
				return err
			}
			fmt.Fprintf(&sb, "/-- defining expression of `pkg/slayers/path.%s` -/\ndef %sExpr : String := %q\n", n, n, x)
		}
		// ExpTimeToDuration / ExpTimeFromDuration: guards (if conditions) and return statements
		for _, fn := range []string{"ExpTimeToDuration", "ExpTimeFromDuration"} {
			fd, err := c.Func("pkg/slayers/path", "", fn)
			if err != nil {
				return err
			}
			var guards []string
			ret := ""
			for _, st := range fd.Body.List {
				switch x := st.(type) {
				case *ast.IfStmt:
					guards = append(guards, c.Expr(x.Cond))
				case *ast.ReturnStmt:
					ret = c.Expr(x)
				default:
					guards = append(guards, "stmt: "+c.Expr(st))
				}
			}
			fmt.Fprintf(&sb, "/-- `path.%s`: conditions of the error guards, in order -/\ndef %sGuards : List String := %s\n",
				fn, fn, LeanStrList(guards))
			fmt.Fprintf(&sb, "/-- `path.%s`: the final return statement -/\ndef %sReturn : String := %q\n", fn, fn, ret)
		}
		// the byte layout written by MACInput
		fd, err := c.Func("pkg/slayers/path", "", "MACInput")
		if err != nil {
			return err
		}
		var stmts []string
		for _, st := range fd.Body.List {
			stmts = append(stmts, c.Expr(st))
		}
		fmt.Fprintf(&sb, "/-- body of `path.MACInput` -/\ndef MACInputBody : List String := %s\n", LeanStrList(stmts))
		sb.WriteString("end Scion.Gen.Beacon\n")
		return c.Emit("Beacon.lean", sb.String())
	})
}

// constExpr returns the source text of the value of a package-level constant.
func bcnConstExpr(c *Ctx, dir, name string) (string, error) {
	p, err := c.Pkg(dir)
	if err != nil {
		return "", err
	}
	for _, f := range p.files {
		for _, d := range f.Decls {
			gd, ok := d.(*ast.GenDecl)
			if !ok {
				continue
			}
			for _, sp := range gd.Specs {
				vs, ok := sp.(*ast.ValueSpec)
				if !ok {
					continue
				}
				for i, id := range vs.Names {
					if id.Name == name && i < len(vs.Values) {
						return c.Expr(vs.Values[i]), nil
					}
				}
			}
		}
	}
	return "", fmt.Errorf("constant %s not found in %s", name, dir)
}
