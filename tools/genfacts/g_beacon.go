package main

// group "beacon": constants of beacon policies / usage flags (C25) and of hop expiry (C23).
func init() {
	register("beacon", constGroup("Beacon.lean", "Beacon", []constSpec{
		{"control/beacon", "DefaultMaxHopsLength", ""},
		{"control/beacon", "DefaultBestSetSize", ""},
		{"control/beacon", "DefaultCandidateSetSize", ""},
		{"control/beacon", "UsageUpReg", ""},
		{"control/beacon", "UsageDownReg", ""},
		{"control/beacon", "UsageCoreReg", ""},
		{"control/beacon", "UsageProp", ""},
	}))
}
