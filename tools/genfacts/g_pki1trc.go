package main

// group "pki1trc": syntactic facts about TRC validation, update verification and the trust
// store's notification loop (C32, C33, C35): the order in which the sentinel errors appear in
// TRC.Validate, the text of the decisive conditions, the certificate lists handed to verifyAll,
// and the call order inside NotifyTRC's fetch loop.

import (
	"fmt"
	"go/ast"
	"strings"
)

func init() { register("pki1trc", genPki1Trc) }

// identsWithPrefix lists, in source order, identifiers starting with prefix in the node.
func identsWithPrefix(n ast.Node, prefix string) []string {
	var r []string
	ast.Inspect(n, func(x ast.Node) bool {
		if id, ok := x.(*ast.Ident); ok && strings.HasPrefix(id.Name, prefix) {
			r = append(r, id.Name)
		}
		return true
	})
	return r
}

// condGuarding returns the text of the condition of the first `if` whose body mentions ident.
func condGuarding(c *Ctx, n ast.Node, ident string) string {
	res := ""
	ast.Inspect(n, func(x ast.Node) bool {
		if res != "" {
			return false
		}
		if s, ok := x.(*ast.IfStmt); ok {
			for _, id := range identsWithPrefix(s.Body, ident) {
				if id == ident {
					res = c.Expr(s.Cond)
					return false
				}
			}
		}
		return true
	})
	return res
}

// callsOf lists, in source order, "recv.Method(arg0)" for calls of selector methods named in set.
func callsOf(c *Ctx, n ast.Node, names map[string]bool) []string {
	var r []string
	ast.Inspect(n, func(x ast.Node) bool {
		if call, ok := x.(*ast.CallExpr); ok {
			if sel, ok := call.Fun.(*ast.SelectorExpr); ok && names[sel.Sel.Name] {
				arg := ""
				if len(call.Args) > 0 {
					arg = c.Expr(call.Args[len(call.Args)-1])
				}
				r = append(r, sel.Sel.Name+"("+arg+")")
			}
		}
		return true
	})
	return r
}

func genPki1Trc(c *Ctx) error {
	const cp = "pkg/scrypto/cppki"
	val, err := c.Func(cp, "TRC", "Validate")
	if err != nil {
		return err
	}
	idv, err := c.Func(cp, "TRCID", "Validate")
	if err != nil {
		return err
	}
	asq, err := c.Func(cp, "", "validateASSequence")
	if err != nil {
		return err
	}
	vu, err := c.Func(cp, "SignedTRC", "verifyUpdate")
	if err != nil {
		return err
	}
	va, err := c.Func(cp, "SignedTRC", "verifyAll")
	if err != nil {
		return err
	}
	upd, err := c.Func(cp, "TRC", "ValidateUpdate")
	if err != nil {
		return err
	}
	nt, err := c.Func("private/trust", "FetchingProvider", "NotifyTRC")
	if err != nil {
		return err
	}
	ld, err := c.Func("private/trust", "", "loadTRCs")
	if err != nil {
		return err
	}
	var loop ast.Node
	ast.Inspect(nt, func(x ast.Node) bool {
		if f, ok := x.(*ast.ForStmt); ok && loop == nil {
			loop = f
		}
		return true
	})
	if loop == nil {
		return fmt.Errorf("NotifyTRC: fetch loop not found")
	}
	fl := loop.(*ast.ForStmt)
	var sb strings.Builder
	sb.WriteString("namespace Scion.Gen.Pki1Trc\n")
	w := func(doc, name, typ, v string) { fmt.Fprintf(&sb, "/-- %s -/\ndef %s : %s := %s\n", doc, name, typ, v) }
	w("sentinel errors in `TRC.Validate`, source order", "validateSentinels", "List String",
		LeanStrList(identsWithPrefix(val.Body, "Err")))
	w("sentinel errors in `TRCID.Validate`, source order", "idSentinels", "List String",
		LeanStrList(identsWithPrefix(idv.Body, "Err")))
	w("sentinel errors in `validateASSequence`, source order", "asSeqSentinels", "List String",
		LeanStrList(identsWithPrefix(asq.Body, "Err")))
	w("condition guarding `ErrInvalidQuorumSize`", "quorumCond", "String",
		fmt.Sprintf("%q", condGuarding(c, val.Body, "ErrInvalidQuorumSize")))
	w("conditions guarding `ErrNotEnoughVoters` (first one)", "votersCond", "String",
		fmt.Sprintf("%q", condGuarding(c, val.Body, "ErrNotEnoughVoters")))
	w("`verifyAll` calls of `verifyUpdate`, source order", "verifyUpdateCalls", "List String",
		LeanStrList(callsOf(c, vu.Body, map[string]bool{"verifyAll": true, "ValidateUpdate": true})))
	var cnt []string
	ast.Inspect(va.Body, func(x ast.Node) bool {
		if s, ok := x.(*ast.IfStmt); ok {
			t := c.Expr(s.Cond)
			if strings.Contains(t, "len(seen)") {
				cnt = append(cnt, t)
			}
		}
		return true
	})
	w("the counting condition of `verifyAll`", "verifyAllCountCond", "List String", LeanStrList(cnt))
	var uconds []string
	for _, st := range upd.Body.List {
		if s, ok := st.(*ast.IfStmt); ok && s.Init == nil && c.Expr(s.Cond) != "err != nil" {
			uconds = append(uconds, c.Expr(s.Cond))
		}
	}
	w("top-level conditions of `ValidateUpdate`, source order", "updateConds", "List String", LeanStrList(uconds))
	w("loop header of NotifyTRC's fetch loop", "notifyLoop", "List String",
		LeanStrList([]string{c.Expr(fl.Init), c.Expr(fl.Cond), c.Expr(fl.Post)}))
	w("calls in NotifyTRC's fetch loop, source order", "notifyLoopCalls", "List String",
		LeanStrList(callsOf(c, fl.Body, map[string]bool{"TRC": true, "Verify": true, "InsertTRC": true})))
	var assigns []string
	for _, st := range fl.Body.List {
		if a, ok := st.(*ast.AssignStmt); ok {
			assigns = append(assigns, c.Expr(a))
		}
	}
	w("top-level assignments in NotifyTRC's fetch loop", "notifyLoopAssigns", "List String", LeanStrList(assigns))
	w("condition of loadTRCs that mentions the wall clock", "loadFutureCond", "String",
		fmt.Sprintf("%q", condWith(c, ld.Body, "time.Now()")))
	sb.WriteString("end Scion.Gen.Pki1Trc\n")
	return c.Emit("Pki1Trc.lean", sb.String())
}

func condWith(c *Ctx, n ast.Node, sub string) string {
	res := ""
	ast.Inspect(n, func(x ast.Node) bool {
		if s, ok := x.(*ast.IfStmt); ok && res == "" {
			if t := c.Expr(s.Cond); strings.Contains(t, sub) {
				res = t
			}
		}
		return true
	})
	return res
}
