package main

// groups "ring" (C48) and "pool" (C14): syntactic facts about the critical sections of
// private/ringbuf.Ring and about the packet-buffer hand-over sites of the router pipeline.

import (
	"fmt"
	"go/ast"
	"go/token"
	"strings"
)

func init() {
	register("ring", genRing)
	register("pool", genPool)
	register("bfd", genBfd)
}

// group "bfd" (C16): how Session.Run computes the detection time that re-arms the detection
// timer. The product DetectMult x interval must be formed in time.Duration (int64 ns), not in
// layers.BFDTimeInterval (uint32 us), where it would wrap at 2^32 us.
func genBfd(c *Ctx) error {
	fd, err := c.Func("router/bfd", "Session", "Run")
	if err != nil {
		return err
	}
	var rhs ast.Expr
	n := 0
	ast.Inspect(fd.Body, func(nd ast.Node) bool {
		if a, ok := nd.(*ast.AssignStmt); ok && len(a.Lhs) == 1 && len(a.Rhs) == 1 {
			if id, ok := a.Lhs[0].(*ast.Ident); ok && id.Name == "detectionTime" {
				rhs = a.Rhs[0]
				n++
			}
		}
		return true
	})
	if rhs == nil {
		return fmt.Errorf("assignment to detectionTime not found in Session.Run")
	}
	inDuration := false
	if b, ok := rhs.(*ast.BinaryExpr); ok && b.Op == token.MUL {
		isDur := func(e ast.Expr) bool {
			call, ok := e.(*ast.CallExpr)
			return ok && c.Expr(call.Fun) == "time.Duration" && len(call.Args) == 1
		}
		isMaxOfDurations := func(e ast.Expr) bool {
			call, ok := e.(*ast.CallExpr)
			if !ok || c.Expr(call.Fun) != "max" || len(call.Args) != 2 {
				return false
			}
			second, ok := call.Args[1].(*ast.CallExpr)
			return ok && c.Expr(call.Args[0]) == "s.RequiredMinRxInterval" &&
				c.Expr(second.Fun) == "bfdIntervalToDuration"
		}
		inDuration = (isDur(b.X) && isMaxOfDurations(b.Y)) || (isDur(b.Y) && isMaxOfDurations(b.X))
	}
	var sb strings.Builder
	sb.WriteString("namespace Scion.Gen.Bfd\n")
	fmt.Fprintf(&sb, "/-- right-hand side of `detectionTime := ...` in Session.Run -/\n")
	fmt.Fprintf(&sb, "def detectionTimeExpr : String := %q\n", c.Expr(rhs))
	fmt.Fprintf(&sb, "def detectionTimeAssignments : Nat := %d\n", n)
	fmt.Fprintf(&sb, "/-- the product is `time.Duration(mult) * max(s.RequiredMinRxInterval, bfdIntervalToDuration(tx))`: formed in int64 nanoseconds -/\n")
	fmt.Fprintf(&sb, "def detectionProductInDuration : Bool := %s\n", leanBool(inDuration))
	sb.WriteString("end Scion.Gen.Bfd\n")
	return c.Emit("Bfd.lean", sb.String())
}

func leanBool(b bool) string {
	if b {
		return "true"
	}
	return "false"
}

// selName renders a selector chain like r.readableC.Broadcast as "readableC.Broadcast"
// (receiver identifier dropped).
func selName(e ast.Expr) string {
	switch x := e.(type) {
	case *ast.Ident:
		return x.Name
	case *ast.SelectorExpr:
		if id, ok := x.X.(*ast.Ident); ok && (len(id.Name) <= 2) {
			return x.Sel.Name
		}
		return selName(x.X) + "." + x.Sel.Name
	case *ast.IndexExpr:
		return selName(x.X) + "[]"
	case *ast.CallExpr:
		return selName(x.Fun) + "()"
	case *ast.ParenExpr:
		return selName(x.X)
	case *ast.StarExpr:
		return selName(x.X)
	}
	return "?"
}

// callsInOrder lists all calls of a function body in source order.
func callsInOrder(body ast.Node) []string {
	var out []string
	ast.Inspect(body, func(n ast.Node) bool {
		if c, ok := n.(*ast.CallExpr); ok {
			out = append(out, selName(c.Fun))
		}
		return true
	})
	return out
}

// topIndex returns the index of the first top-level statement of body satisfying pred, or -1.
func topIndex(body *ast.BlockStmt, pred func(ast.Stmt) bool) int {
	for i, s := range body.List {
		if pred(s) {
			return i
		}
	}
	return -1
}

func isCallStmt(s ast.Stmt, name string) bool {
	es, ok := s.(*ast.ExprStmt)
	if !ok {
		return false
	}
	c, ok := es.X.(*ast.CallExpr)
	return ok && selName(c.Fun) == name
}

func isDeferCall(s ast.Stmt, name string) bool {
	d, ok := s.(*ast.DeferStmt)
	return ok && selName(d.Call.Fun) == name
}

func assignsField(s ast.Stmt, field string, tok token.Token) bool {
	a, ok := s.(*ast.AssignStmt)
	if !ok || a.Tok != tok || len(a.Lhs) != 1 {
		return false
	}
	return selName(a.Lhs[0]) == field
}

// noReturnBetween: no top-level return statement in body.List[i+1:j].
func noReturnBetween(body *ast.BlockStmt, i, j int) bool {
	for k := i + 1; k < j; k++ {
		if _, ok := body.List[k].(*ast.ReturnStmt); ok {
			return false
		}
	}
	return true
}

// waitLoop finds `for <cond> { ...; X.Wait() }` anywhere in body and returns cond text and X.
func (c *Ctx) waitLoop(body *ast.BlockStmt) (cond, on string, n int) {
	ast.Inspect(body, func(nd ast.Node) bool {
		f, ok := nd.(*ast.ForStmt)
		if !ok {
			return true
		}
		for _, s := range f.Body.List {
			if es, ok := s.(*ast.ExprStmt); ok {
				if call, ok := es.X.(*ast.CallExpr); ok {
					nm := selName(call.Fun)
					if strings.HasSuffix(nm, ".Wait") {
						n++
						on = strings.TrimSuffix(nm, ".Wait")
						if f.Cond != nil {
							cond = c.Expr(f.Cond)
						}
					}
				}
			}
		}
		return true
	})
	// a Wait outside a for loop counts as a violation of the monitor discipline
	total := 0
	for _, nm := range callsInOrder(body) {
		if strings.HasSuffix(nm, ".Wait") {
			total++
		}
	}
	if total != n {
		n = -total
	}
	return
}

func genRing(c *Ctx) error {
	const dir = "private/ringbuf"
	var sb strings.Builder
	sb.WriteString("namespace Scion.Gen.Ring\n")
	get := func(name string) (*ast.FuncDecl, error) { return c.Func(dir, "Ring", name) }
	wr, err := get("Write")
	if err != nil {
		return err
	}
	rd, err := get("Read")
	if err != nil {
		return err
	}
	cl, err := get("Close")
	if err != nil {
		return err
	}
	locked := func(fd *ast.FuncDecl) bool {
		l := fd.Body.List
		return len(l) >= 2 && isCallStmt(l[0], "mutex.Lock") && isDeferCall(l[1], "mutex.Unlock")
	}
	// a broadcast that follows the state change at the top level of the body, with no return
	// statement in between
	after := func(fd *ast.FuncDecl, field string, tok token.Token, bcast string) bool {
		i := topIndex(fd.Body, func(s ast.Stmt) bool { return assignsField(s, field, tok) })
		j := topIndex(fd.Body, func(s ast.Stmt) bool { return isCallStmt(s, bcast) })
		return i >= 0 && j > i && noReturnBetween(fd.Body, i, j)
	}
	fmt.Fprintf(&sb, "/-- Write/Read/Close start with `r.mutex.Lock(); defer r.mutex.Unlock()` -/\n")
	fmt.Fprintf(&sb, "def writeLocked : Bool := %s\ndef readLocked : Bool := %s\ndef closeLocked : Bool := %s\n",
		leanBool(locked(wr)), leanBool(locked(rd)), leanBool(locked(cl)))
	fmt.Fprintf(&sb, "/-- `r.readableC.Broadcast()` follows `r.readable += n` in Write -/\n")
	fmt.Fprintf(&sb, "def writeWakesReaders : Bool := %s\n", leanBool(after(wr, "readable", token.ADD_ASSIGN, "readableC.Broadcast")))
	fmt.Fprintf(&sb, "/-- `r.writableC.Broadcast()` follows `r.writable += n` in Read -/\n")
	fmt.Fprintf(&sb, "def readWakesWriters : Bool := %s\n", leanBool(after(rd, "writable", token.ADD_ASSIGN, "writableC.Broadcast")))
	fmt.Fprintf(&sb, "/-- both broadcasts follow `r.closed = true` in Close -/\n")
	fmt.Fprintf(&sb, "def closeWakesWriters : Bool := %s\n", leanBool(after(cl, "closed", token.ASSIGN, "writableC.Broadcast")))
	fmt.Fprintf(&sb, "def closeWakesReaders : Bool := %s\n", leanBool(after(cl, "closed", token.ASSIGN, "readableC.Broadcast")))
	wc, won, wn := c.waitLoop(wr.Body)
	rc, ron, rn := c.waitLoop(rd.Body)
	fmt.Fprintf(&sb, "/-- the wait loops: condition, condition variable, number of Wait calls (negative: a Wait outside a loop) -/\n")
	fmt.Fprintf(&sb, "def writeWaitCond : String := %q\ndef writeWaitOn : String := %q\ndef writeWaits : Int := %d\n", wc, won, wn)
	fmt.Fprintf(&sb, "def readWaitCond : String := %q\ndef readWaitOn : String := %q\ndef readWaits : Int := %d\n", rc, ron, rn)
	fmt.Fprintf(&sb, "/-- all calls of the method bodies in source order -/\n")
	fmt.Fprintf(&sb, "def writeCalls : List String := %s\n", LeanStrList(callsInOrder(wr.Body)))
	fmt.Fprintf(&sb, "def readCalls : List String := %s\n", LeanStrList(callsInOrder(rd.Body)))
	fmt.Fprintf(&sb, "def closeCalls : List String := %s\n", LeanStrList(callsInOrder(cl.Body)))
	sb.WriteString("end Scion.Gen.Ring\n")
	return c.Emit("Ring.lean", sb.String())
}

// ownershipSites lists, in source order, every place of a function body where a packet buffer
// changes hands: pool Get/Put, Link.Send, link.receive, channel sends and receives.
func (c *Ctx) ownershipSites(body ast.Node) []string {
	var out []string
	ast.Inspect(body, func(n ast.Node) bool {
		switch x := n.(type) {
		case *ast.SendStmt:
			out = append(out, "send "+c.Expr(x.Chan)+" <- "+c.Expr(x.Value))
		case *ast.UnaryExpr:
			if x.Op == token.ARROW {
				out = append(out, "recv "+c.Expr(x.X))
			}
		case *ast.CallExpr:
			if sel, ok := x.Fun.(*ast.SelectorExpr); ok {
				switch sel.Sel.Name {
				case "Get", "Put", "Send", "receive", "WriteBatch", "ReadBatch":
					out = append(out, c.Expr(x))
				}
			}
			if id, ok := x.Fun.(*ast.Ident); ok && id.Name == "readUpTo" {
				out = append(out, c.Expr(x))
			}
		}
		return true
	})
	return out
}

// stmtTexts returns the text of every statement (any depth) of body whose text contains one of
// the given fragments, in source order.
func (c *Ctx) stmtTexts(body ast.Node, frags ...string) []string {
	var out []string
	ast.Inspect(body, func(n ast.Node) bool {
		switch n.(type) {
		case *ast.AssignStmt, *ast.IncDecStmt, *ast.RangeStmt:
			var t string
			if r, ok := n.(*ast.RangeStmt); ok {
				t = "range " + c.Expr(r.X)
			} else {
				t = c.Expr(n)
			}
			for _, f := range frags {
				if strings.Contains(t, f) {
					out = append(out, t)
					break
				}
			}
		}
		return true
	})
	return out
}

func genPool(c *Ctx) error {
	var sb strings.Builder
	sb.WriteString("namespace Scion.Gen.Pool\n")
	type fn struct{ dir, recv, name, as string }
	fns := []fn{
		{"router", "dataPlane", "runProcessor", "runProcessor"},
		{"router", "dataPlane", "runSlowPathProcessor", "runSlowPathProcessor"},
		{"router", "bfdSend", "Send", "bfdSend"},
		{"router", "PacketPool", "Get", "poolGet"},
		{"router", "PacketPool", "Put", "poolPut"},
		{"router/underlayproviders/udpip", "udpConnection", "receive", "connReceive"},
		{"router/underlayproviders/udpip", "udpConnection", "send", "connSend"},
		{"router/underlayproviders/udpip", "", "readUpTo", "readUpTo"},
		{"router/underlayproviders/udpip", "connectedLink", "receive", "connectedReceive"},
		{"router/underlayproviders/udpip", "connectedLink", "Send", "connectedSend"},
		{"router/underlayproviders/udpip", "detachedLink", "receive", "detachedReceive"},
		{"router/underlayproviders/udpip", "detachedLink", "Send", "detachedSend"},
		{"router/underlayproviders/udpip", "internalLink", "receive", "internalReceive"},
		{"router/underlayproviders/udpip", "internalLink", "Send", "internalSend"},
		{"router/underlayproviders/udpip", "internalLink", "runProcessor", "internalRunProcessor"},
	}
	for _, f := range fns {
		fd, err := c.Func(f.dir, f.recv, f.name)
		if err != nil {
			return err
		}
		fmt.Fprintf(&sb, "/-- hand-over sites of `%s.%s.%s` in source order -/\n", f.dir, f.recv, f.name)
		fmt.Fprintf(&sb, "def %s : List String := %s\n", f.as, LeanStrList(c.ownershipSites(fd.Body)))
	}
	snd, err := c.Func("router/underlayproviders/udpip", "udpConnection", "send")
	if err != nil {
		return err
	}
	fmt.Fprintf(&sb, "/-- batch bookkeeping statements of udpConnection.send -/\n")
	fmt.Fprintf(&sb, "def connSendBookkeeping : List String := %s\n",
		LeanStrList(c.stmtTexts(snd.Body, "toWrite", "pkts[i]", "written")))
	rcv, err := c.Func("router/underlayproviders/udpip", "udpConnection", "receive")
	if err != nil {
		return err
	}
	fmt.Fprintf(&sb, "/-- batch bookkeeping statements of udpConnection.receive -/\n")
	fmt.Fprintf(&sb, "def connReceiveBookkeeping : List String := %s\n",
		LeanStrList(c.stmtTexts(rcv.Body, "numReusable", "packets[")))
	sb.WriteString("end Scion.Gen.Pool\n")
	return c.Emit("Pool.lean", sb.String())
}
