package main

import (
	"fmt"
	"go/ast"
	"go/token"
	"strings"
)

// group "scmp": constants of the SCMP reply size computation (C09, C08) and the table of
// slayers.ScmpHeaderSize, extracted syntactically from its switch statement, plus the order of the
// terms in prepareSCMP's `hdrLen := ...` expression.
func init() {
	register("scmp", func(c *Ctx) error {
		var sb strings.Builder
		sb.WriteString("namespace Scion.Gen.Scmp\n")
		consts := []constSpec{
			{"pkg/slayers", "CmnHdrLen", ""},
			{"pkg/slayers", "MaxHdrLen", ""},
			{"pkg/slayers", "LineLen", ""},
			{"pkg/slayers", "MaxSCMPPacketLen", ""},
			{"pkg/slayers", "MaxSCMPHeaderSize", ""},
			{"pkg/addr", "IABytes", ""},
			{"router", "e2eAuthHdrLen", ""},
			{"router", "bufSize", ""},
			{"router", "minHeadroom", ""},
			{"pkg/slayers/path", "HopLen", ""},
			{"pkg/slayers/path", "InfoLen", ""},
			{"pkg/slayers/path/scion", "MetaLen", ""},
			{"pkg/slayers/path/scion", "MaxHops", ""},
			{"pkg/slayers", "L4SCMP", ""},
			{"pkg/slayers", "End2EndClass", ""},
			{"pkg/slayers/path/epic", "MetadataLen", "EpicMetadataLen"},
		}
		for _, s := range consts {
			v, err := c.ConstNat(s.Dir, s.Name)
			if err != nil {
				return err
			}
			as := s.As
			if as == "" {
				as = s.Name
			}
			fmt.Fprintf(&sb, "/-- `%s.%s` -/\ndef %s : Nat := %s\n", s.Dir, s.Name, as, v)
		}
		// ScmpHeaderSize: switch typeCode { case A, B: return n ... default: return d }
		fd, err := c.Func("pkg/slayers", "", "ScmpHeaderSize")
		if err != nil {
			return err
		}
		var sw *ast.SwitchStmt
		for _, st := range fd.Body.List {
			if s, ok := st.(*ast.SwitchStmt); ok {
				sw = s
			}
		}
		if sw == nil || len(fd.Body.List) != 1 {
			return fmt.Errorf("ScmpHeaderSize is no longer a single switch statement")
		}
		retLit := func(body []ast.Stmt) (string, error) {
			if len(body) != 1 {
				return "", fmt.Errorf("ScmpHeaderSize: case body is not a single return")
			}
			r, ok := body[0].(*ast.ReturnStmt)
			if !ok || len(r.Results) != 1 {
				return "", fmt.Errorf("ScmpHeaderSize: case body is not a single return")
			}
			l, ok := r.Results[0].(*ast.BasicLit)
			if !ok || l.Kind != token.INT {
				return "", fmt.Errorf("ScmpHeaderSize: return value is not an integer literal")
			}
			return l.Value, nil
		}
		var cases []string
		def := ""
		for _, cc := range sw.Body.List {
			cl := cc.(*ast.CaseClause)
			v, err := retLit(cl.Body)
			if err != nil {
				return err
			}
			if cl.List == nil {
				def = v
				continue
			}
			for _, x := range cl.List {
				id, ok := x.(*ast.Ident)
				if !ok {
					return fmt.Errorf("ScmpHeaderSize: case label %s is not a named constant", c.Expr(x))
				}
				t, err := c.ConstNat("pkg/slayers", id.Name)
				if err != nil {
					return err
				}
				cases = append(cases, fmt.Sprintf("(%s, %s)", t, v))
			}
		}
		if def == "" {
			return fmt.Errorf("ScmpHeaderSize: no default case")
		}
		fmt.Fprintf(&sb, "/-- `slayers.ScmpHeaderSize`: (type, size) of the explicit cases, in source order -/\n"+
			"def scmpHeaderSizeCases : List (Nat × Nat) := [%s]\n", strings.Join(cases, ", "))
		fmt.Fprintf(&sb, "def scmpHeaderSizeDefault : Nat := %s\n", def)

		// SCMP type constants the router's slow path emits
		for _, n := range []string{"SCMPTypeDestinationUnreachable", "SCMPTypePacketTooBig",
			"SCMPTypeParameterProblem", "SCMPTypeExternalInterfaceDown", "SCMPTypeInternalConnectivityDown",
			"SCMPTypeTracerouteRequest", "SCMPTypeTracerouteReply"} {
			v, err := c.ConstNat("pkg/slayers", n)
			if err != nil {
				return err
			}
			fmt.Fprintf(&sb, "def %s : Nat := %s\n", n, v)
		}
		// SCMP codes used by the fast path
		for _, n := range []string{"SCMPCodeNoRoute", "SCMPCodeInvalidPacketSize", "SCMPCodeInvalidSourceAddress",
			"SCMPCodeInvalidDestinationAddress", "SCMPCodeInvalidPath", "SCMPCodeUnknownHopFieldIngress",
			"SCMPCodeUnknownHopFieldEgress", "SCMPCodeInvalidHopFieldMAC", "SCMPCodePathExpired",
			"SCMPCodeInvalidSegmentChange"} {
			v, err := c.ConstNat("pkg/slayers", n)
			if err != nil {
				return err
			}
			fmt.Fprintf(&sb, "def %s : Nat := %s\n", n, v)
		}

		// prepareSCMP: the expressions that define hdrLen, maxQuoteLen and the headroom test
		pf, err := c.Func("router", "slowPathPacketProcessor", "prepareSCMP")
		if err != nil {
			return err
		}
		want := map[string]string{}
		var conds []string
		ast.Inspect(pf.Body, func(n ast.Node) bool {
			switch v := n.(type) {
			case *ast.AssignStmt:
				if len(v.Lhs) == 1 && len(v.Rhs) == 1 {
					if id, ok := v.Lhs[0].(*ast.Ident); ok {
						switch id.Name {
						case "hdrLen", "maxQuoteLen", "quoteLen", "headroom":
							want[id.Name] = want[id.Name] + "|" + v.Tok.String() + " " + c.Expr(v.Rhs[0])
						}
					}
				}
			case *ast.IfStmt:
				s := c.Expr(v.Cond)
				if strings.Contains(s, "hdrLen") || strings.Contains(s, "quoteLen") {
					conds = append(conds, s)
				}
			}
			return true
		})
		for _, k := range []string{"hdrLen", "maxQuoteLen", "quoteLen", "headroom"} {
			fmt.Fprintf(&sb, "def prepare_%s : String := %q\n", k, want[k])
		}
		fmt.Fprintf(&sb, "def prepare_conds : List String := %s\n", LeanStrList(conds))
		sb.WriteString("end Scion.Gen.Scmp\n")
		return c.Emit("Scmp.lean", sb.String())
	})
}

// group "stun": the guards and slice expressions of stun.foreachAttr / stun.Is, in source order
// (C08: the model's `stunAttrs` transcribes exactly these; `Scion.C08.stun_source_guards`).
func init() {
	register("stun", func(c *Ctx) error {
		var sb strings.Builder
		sb.WriteString("namespace Scion.Gen.Stun\n")
		for _, fn := range []string{"foreachAttr", "Is"} {
			fd, err := c.Func("pkg/stun", "", fn)
			if err != nil {
				return err
			}
			var conds, slices, assigns []string
			ast.Inspect(fd.Body, func(n ast.Node) bool {
				switch v := n.(type) {
				case *ast.IfStmt:
					conds = append(conds, c.Expr(v.Cond))
				case *ast.ForStmt:
					if v.Cond != nil {
						conds = append(conds, "for "+c.Expr(v.Cond))
					}
				case *ast.SliceExpr:
					slices = append(slices, c.Expr(v))
				case *ast.AssignStmt:
					if len(v.Lhs) == 1 && len(v.Rhs) == 1 {
						if id, ok := v.Lhs[0].(*ast.Ident); ok && (id.Name == "attrLen" || id.Name == "attrLenWithPad") {
							assigns = append(assigns, id.Name+" "+v.Tok.String()+" "+c.Expr(v.Rhs[0]))
						}
					}
				case *ast.ReturnStmt:
					if fn == "Is" && len(v.Results) == 1 {
						conds = append(conds, "return "+c.Expr(v.Results[0]))
					}
				}
				return true
			})
			fmt.Fprintf(&sb, "def %s_conds : List String := %s\n", fn, LeanStrList(conds))
			fmt.Fprintf(&sb, "def %s_slices : List String := %s\n", fn, LeanStrList(slices))
			fmt.Fprintf(&sb, "def %s_assigns : List String := %s\n", fn, LeanStrList(assigns))
		}
		for _, k := range []string{"headerLen", "lenFingerprint", "attrNumFingerprint"} {
			v, err := c.ConstNat("pkg/stun", k)
			if err != nil {
				return err
			}
			fmt.Fprintf(&sb, "def %s : Nat := %s\n", k, v)
		}
		sb.WriteString("end Scion.Gen.Stun\n")
		return c.Emit("Stun.lean", sb.String())
	})
}
