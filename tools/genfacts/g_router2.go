package main

// Fact groups of engine router2 (C12, C13, C15):
//   "epic"     -> Scion/Gen/Epic.lean     EPIC time constants in ns, and how processEPIC picks the hop
//   "r2bfd"    -> Scion/Gen/R2Bfd.lean    the BFD transition table read off fsm.go's nested switch,
//                                         IsUp definitions of the udpip links, validateEgressUp's place

import (
	"fmt"
	"go/ast"
	"go/token"
	"strconv"
	"strings"
)

// durationNs evaluates expressions of the form N, time.Unit, N * time.Unit (any nesting of *).
func durationNs(c *Ctx, e ast.Expr) (int64, error) {
	switch v := e.(type) {
	case *ast.BasicLit:
		if v.Kind == token.INT {
			n, err := strconv.ParseInt(v.Value, 0, 64)
			return n, err
		}
	case *ast.ParenExpr:
		return durationNs(c, v.X)
	case *ast.SelectorExpr:
		if id, ok := v.X.(*ast.Ident); ok && id.Name == "time" {
			switch v.Sel.Name {
			case "Nanosecond":
				return 1, nil
			case "Microsecond":
				return 1000, nil
			case "Millisecond":
				return 1000000, nil
			case "Second":
				return 1000000000, nil
			case "Minute":
				return 60 * 1000000000, nil
			}
		}
	case *ast.BinaryExpr:
		if v.Op == token.MUL {
			a, err := durationNs(c, v.X)
			if err != nil {
				return 0, err
			}
			b, err := durationNs(c, v.Y)
			if err != nil {
				return 0, err
			}
			return a * b, nil
		}
	}
	return 0, fmt.Errorf("not a duration constant expression: %s", c.Expr(e))
}

func constExpr(c *Ctx, dir, name string) (ast.Expr, error) {
	p, err := c.Pkg(dir)
	if err != nil {
		return nil, err
	}
	for _, f := range p.files {
		for _, d := range f.Decls {
			gd, ok := d.(*ast.GenDecl)
			if !ok || gd.Tok != token.CONST {
				continue
			}
			for _, sp := range gd.Specs {
				vs := sp.(*ast.ValueSpec)
				for i, n := range vs.Names {
					if n.Name == name && i < len(vs.Values) {
						return vs.Values[i], nil
					}
				}
			}
		}
	}
	return nil, fmt.Errorf("constant %s not found in %s", name, dir)
}

// stmtStrings renders the top-level statements of a function body, one string per statement,
// with `if` statements reduced to "if <cond>".
func stmtStrings(c *Ctx, fd *ast.FuncDecl) []string {
	var out []string
	for _, st := range fd.Body.List {
		switch v := st.(type) {
		case *ast.IfStmt:
			s := "if "
			if v.Init != nil {
				s += c.Expr(v.Init) + "; "
			}
			out = append(out, s+c.Expr(v.Cond))
		default:
			out = append(out, c.Expr(st))
		}
	}
	return out
}

func init() {
	register("epic", func(c *Ctx) error {
		var sb strings.Builder
		sb.WriteString("namespace Scion.Gen.Epic\n")
		for _, n := range []string{"MaxPacketLifetime", "MaxClockSkew", "TimestampResolution"} {
			e, err := constExpr(c, "pkg/experimental/epic", n)
			if err != nil {
				return err
			}
			v, err := durationNs(c, e)
			if err != nil {
				return err
			}
			fmt.Fprintf(&sb, "/-- `pkg/experimental/epic.%s` = `%s`, in ns -/\ndef %s : Nat := %d\n", n, c.Expr(e), n, v)
		}
		for _, n := range []string{"MACBufferSize", "AuthLen"} {
			v, err := c.ConstNat("pkg/experimental/epic", n)
			if err != nil {
				return err
			}
			fmt.Fprintf(&sb, "/-- `pkg/experimental/epic.%s` -/\ndef %s : Nat := %s\n", n, n, v)
		}
		for _, n := range []string{"MetadataLen", "PktIDLen", "HVFLen"} {
			v, err := c.ConstNat("pkg/slayers/path/epic", n)
			if err != nil {
				return err
			}
			fmt.Fprintf(&sb, "/-- `pkg/slayers/path/epic.%s` -/\ndef %s : Nat := %s\n", n, n, v)
		}
		fd, err := c.Func("router", "scionPacketProcessor", "processEPIC")
		if err != nil {
			return err
		}
		sts := stmtStrings(c, fd)
		fmt.Fprintf(&sb, "/-- top-level statements of `scionPacketProcessor.processEPIC`, in source order -/\ndef processEPICStmts : List String := %s\n", LeanStrList(sts))
		sb.WriteString("end Scion.Gen.Epic\n")
		return c.Emit("Epic.lean", sb.String())
	})
}
