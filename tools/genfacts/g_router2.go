package main

// Fact groups of engine router2 (C12, C13, C15):
//   "epic"     -> Scion/Gen/Epic.lean     EPIC time constants in ns, and how processEPIC picks the hop
//   "r2bfd"    -> Scion/Gen/R2Bfd.lean    the BFD transition table read off fsm.go's nested switch,
//                                         IsUp definitions of the udpip links, validateEgressUp's place

import (
	"fmt"
	"go/ast"
	"go/token"
	"strconv"
	"strings"
)

// durationNs evaluates expressions of the form N, time.Unit, N * time.Unit (any nesting of *).
func r2DurationNs(c *Ctx, e ast.Expr) (int64, error) {
	switch v := e.(type) {
	case *ast.BasicLit:
		if v.Kind == token.INT {
			n, err := strconv.ParseInt(v.Value, 0, 64)
			return n, err
		}
	case *ast.ParenExpr:
		return r2DurationNs(c, v.X)
	case *ast.SelectorExpr:
		if id, ok := v.X.(*ast.Ident); ok && id.Name == "time" {
			switch v.Sel.Name {
			case "Nanosecond":
				return 1, nil
			case "Microsecond":
				return 1000, nil
			case "Millisecond":
				return 1000000, nil
			case "Second":
				return 1000000000, nil
			case "Minute":
				return 60 * 1000000000, nil
			}
		}
	case *ast.BinaryExpr:
		if v.Op == token.MUL {
			a, err := r2DurationNs(c, v.X)
			if err != nil {
				return 0, err
			}
			b, err := r2DurationNs(c, v.Y)
			if err != nil {
				return 0, err
			}
			return a * b, nil
		}
	}
	return 0, fmt.Errorf("not a duration constant expression: %s", c.Expr(e))
}

func r2ConstExpr(c *Ctx, dir, name string) (ast.Expr, error) {
	p, err := c.Pkg(dir)
	if err != nil {
		return nil, err
	}
	for _, f := range p.files {
		for _, d := range f.Decls {
			gd, ok := d.(*ast.GenDecl)
			if !ok || gd.Tok != token.CONST {
				continue
			}
			for _, sp := range gd.Specs {
				vs := sp.(*ast.ValueSpec)
				for i, n := range vs.Names {
					if n.Name == name && i < len(vs.Values) {
						return vs.Values[i], nil
					}
				}
			}
		}
	}
	return nil, fmt.Errorf("constant %s not found in %s", name, dir)
}

// stmtStrings renders the top-level statements of a function body, one string per statement,
// with `if` statements reduced to "if <cond>".
func r2StmtStrings(c *Ctx, fd *ast.FuncDecl) []string {
	var out []string
	for _, st := range fd.Body.List {
		switch v := st.(type) {
		case *ast.IfStmt:
			s := "if "
			if v.Init != nil {
				s += c.Expr(v.Init) + "; "
			}
			out = append(out, s+c.Expr(v.Cond))
		default:
			out = append(out, c.Expr(st))
		}
	}
	return out
}

func init() {
	register("epic", func(c *Ctx) error {
		var sb strings.Builder
		sb.WriteString("namespace Scion.Gen.Epic\n")
		for _, n := range []string{"MaxPacketLifetime", "MaxClockSkew", "TimestampResolution"} {
			e, err := r2ConstExpr(c, "pkg/experimental/epic", n)
			if err != nil {
				return err
			}
			v, err := r2DurationNs(c, e)
			if err != nil {
				return err
			}
			fmt.Fprintf(&sb, "/-- `pkg/experimental/epic.%s` = `%s`, in ns -/\ndef %s : Nat := %d\n", n, c.Expr(e), n, v)
		}
		for _, n := range []string{"MACBufferSize", "AuthLen"} {
			v, err := c.ConstNat("pkg/experimental/epic", n)
			if err != nil {
				return err
			}
			fmt.Fprintf(&sb, "/-- `pkg/experimental/epic.%s` -/\ndef %s : Nat := %s\n", n, n, v)
		}
		for _, n := range []string{"MetadataLen", "PktIDLen", "HVFLen"} {
			v, err := c.ConstNat("pkg/slayers/path/epic", n)
			if err != nil {
				return err
			}
			fmt.Fprintf(&sb, "/-- `pkg/slayers/path/epic.%s` -/\ndef %s : Nat := %s\n", n, n, v)
		}
		fd, err := c.Func("router", "scionPacketProcessor", "processEPIC")
		if err != nil {
			return err
		}
		sts := r2StmtStrings(c, fd)
		fmt.Fprintf(&sb, "/-- top-level statements of `scionPacketProcessor.processEPIC`, in source order -/\ndef processEPICStmts : List String := %s\n", LeanStrList(sts))
		vt, err := c.Func("pkg/experimental/epic", "", "VerifyTimestamp")
		if err != nil {
			return err
		}
		fmt.Fprintf(&sb, "/-- top-level statements of `VerifyTimestamp` (`if` reduced to its condition) -/\ndef verifyTimestampStmts : List String := %s\n", LeanStrList(r2StmtStrings(c, vt)))
		sb.WriteString("end Scion.Gen.Epic\n")
		return c.Emit("Epic.lean", sb.String())
	})
}

// ---- group r2bfd -------------------------------------------------------------------------------

var r2BfdStateNum = map[string]int{"stateAdminDown": 0, "stateDown": 1, "stateInit": 2, "stateUp": 3}
var r2BfdEventNum = map[string]int{"eventAdminDown": 0, "eventDown": 1, "eventInit": 2, "eventUp": 3, "eventTimer": 4, "eventAdminUp": 5}

// returnedIdent: the identifier returned by a case body of the form `return <ident>`.
func r2ReturnedIdent(body []ast.Stmt) (string, bool) {
	if len(body) != 1 {
		return "", false
	}
	rs, ok := body[0].(*ast.ReturnStmt)
	if !ok || len(rs.Results) != 1 {
		return "", false
	}
	id, ok := rs.Results[0].(*ast.Ident)
	if !ok {
		return "", false
	}
	return id.Name, true
}

// r2CalleesInOrder lists the method names called on receiver `recv` in the body, in source order.
func r2CalleesInOrder(fd *ast.FuncDecl, recv string) []string {
	var out []string
	ast.Inspect(fd.Body, func(n ast.Node) bool {
		ce, ok := n.(*ast.CallExpr)
		if !ok {
			return true
		}
		if se, ok := ce.Fun.(*ast.SelectorExpr); ok {
			if id, ok := se.X.(*ast.Ident); ok && id.Name == recv {
				out = append(out, se.Sel.Name)
			}
		}
		return true
	})
	return out
}

func r2SingleReturnExpr(c *Ctx, fd *ast.FuncDecl) (string, error) {
	var exprs []string
	for _, st := range fd.Body.List {
		if rs, ok := st.(*ast.ReturnStmt); ok && len(rs.Results) == 1 {
			exprs = append(exprs, c.Expr(rs.Results[0]))
		}
	}
	if len(fd.Body.List) != 1 || len(exprs) != 1 {
		return "", fmt.Errorf("%s is not a single return statement", fd.Name.Name)
	}
	return exprs[0], nil
}

func init() {
	register("r2bfd", func(c *Ctx) error {
		fd, err := c.Func("router/bfd", "", "transition")
		if err != nil {
			return err
		}
		var rows []string
		var outer *ast.SwitchStmt
		for _, st := range fd.Body.List {
			if sw, ok := st.(*ast.SwitchStmt); ok {
				outer = sw
			}
		}
		if outer == nil {
			return fmt.Errorf("transition: no switch statement")
		}
		for _, cc := range outer.Body.List {
			oc := cc.(*ast.CaseClause)
			if oc.List == nil {
				continue // default: panic
			}
			for _, se := range oc.List {
				sid, ok := se.(*ast.Ident)
				sn, known := r2BfdStateNum[r2SidName(sid, ok)]
				if !known {
					return fmt.Errorf("transition: unknown state case %s", c.Expr(se))
				}
				if len(oc.Body) != 1 {
					return fmt.Errorf("transition: case %s is not a single switch", sid.Name)
				}
				inner, ok := oc.Body[0].(*ast.SwitchStmt)
				if !ok {
					return fmt.Errorf("transition: case %s is not a switch", sid.Name)
				}
				for _, ic := range inner.Body.List {
					icc := ic.(*ast.CaseClause)
					if icc.List == nil {
						continue
					}
					res, ok := r2ReturnedIdent(icc.Body)
					rn, known := r2BfdStateNum[res]
					if !ok || !known {
						return fmt.Errorf("transition: unexpected case body in state %s", sid.Name)
					}
					for _, ee := range icc.List {
						eid, ok := ee.(*ast.Ident)
						en, known := r2BfdEventNum[r2SidName(eid, ok)]
						if !known {
							return fmt.Errorf("transition: unknown event %s", c.Expr(ee))
						}
						rows = append(rows, fmt.Sprintf("(%d, %d, %d)", sn, en, rn))
					}
				}
			}
		}
		var sb strings.Builder
		sb.WriteString("namespace Scion.Gen.R2Bfd\n")
		fmt.Fprintf(&sb, "/-- rows (state, event, new state) of `transition` in router/bfd/fsm.go, read off its nested switch;\n    states 0 AdminDown 1 Down 2 Init 3 Up, events 0..3 received state, 4 timer, 5 AdminUp -/\ndef transitionRows : List (Nat × Nat × Nat) := [%s]\n", strings.Join(rows, ", "))
		for _, x := range [][3]string{
			{"router/bfd", "Session", "IsUp"},
			{"router/underlayproviders/udpip", "connectedLink", "IsUp"},
			{"router/underlayproviders/udpip", "detachedLink", "IsUp"},
			{"router/underlayproviders/udpip", "internalLink", "IsUp"},
		} {
			f, err := c.Func(x[0], x[1], x[2])
			if err != nil {
				return err
			}
			var body []string
			for _, st := range f.Body.List {
				if _, isIf := st.(*ast.IfStmt); isIf {
					continue // Session.IsUp's test logging
				}
				body = append(body, c.Expr(st))
			}
			fmt.Fprintf(&sb, "/-- statements of `%s.%s` (logging `if` omitted) -/\ndef isUp_%s : List String := %s\n", x[1], x[2], x[1], LeanStrList(body))
		}
		pf, err := c.Func("router", "scionPacketProcessor", "process")
		if err != nil {
			return err
		}
		fmt.Fprintf(&sb, "/-- methods of the processor called by `process()`, in source order -/\ndef processCallees : List String := %s\n", LeanStrList(r2CalleesInOrder(pf, "p")))
		vf, err := c.Func("router", "scionPacketProcessor", "validateEgressUp")
		if err != nil {
			return err
		}
		var conds []string
		ast.Inspect(vf.Body, func(n ast.Node) bool {
			if is, ok := n.(*ast.IfStmt); ok {
				conds = append(conds, c.Expr(is.Cond))
			}
			return true
		})
		var types []string
		ast.Inspect(vf.Body, func(n ast.Node) bool {
			if se, ok := n.(*ast.SelectorExpr); ok && strings.HasPrefix(se.Sel.Name, "SCMPType") {
				types = append(types, se.Sel.Name)
			}
			return true
		})
		fmt.Fprintf(&sb, "/-- `if` conditions of `validateEgressUp`, outermost first -/\ndef egressUpConds : List String := %s\n", LeanStrList(conds))
		fmt.Fprintf(&sb, "/-- SCMP types named in `validateEgressUp`, in source order (then-branch first) -/\ndef egressUpTypes : List String := %s\n", LeanStrList(types))
		for _, n := range []string{"SCMPTypeExternalInterfaceDown", "SCMPTypeInternalConnectivityDown"} {
			v, err := c.ConstNat("pkg/slayers", n)
			if err != nil {
				return err
			}
			fmt.Fprintf(&sb, "/-- `slayers.%s` -/\ndef %s : Nat := %s\n", n, n, v)
		}
		rp, err := c.Func("router", "dataPlane", "runProcessor")
		if err != nil {
			return err
		}
		var loop *ast.ForStmt
		for _, st := range rp.Body.List {
			if f, ok := st.(*ast.ForStmt); ok {
				loop = f
			}
		}
		if loop == nil {
			return fmt.Errorf("runProcessor: no for loop")
		}
		var cases []string
		var after []string
		seenSwitch := false
		for _, st := range loop.Body.List {
			sw, ok := st.(*ast.SwitchStmt)
			if ok && c.Expr(sw.Tag) == "disp" {
				seenSwitch = true
				for _, cc := range sw.Body.List {
					cl := cc.(*ast.CaseClause)
					name := "default"
					if cl.List != nil {
						var ns []string
						for _, x := range cl.List {
							ns = append(ns, c.Expr(x))
						}
						name = strings.Join(ns, ",")
					}
					b := "false"
					if r2EndsIteration(cl.Body) {
						b = "true"
					}
					cases = append(cases, fmt.Sprintf("(%q, %s)", name, b))
				}
				continue
			}
			if seenSwitch {
				ast.Inspect(st, func(n ast.Node) bool {
					if ce, ok := n.(*ast.CallExpr); ok {
						after = append(after, c.Expr(ce.Fun))
					}
					return true
				})
			}
		}
		if !seenSwitch {
			return fmt.Errorf("runProcessor: no switch on disp")
		}
		fmt.Fprintf(&sb, "/-- the cases of `switch disp` in `dataPlane.runProcessor`, each with whether EVERY path through its body ends\n    the loop iteration (`continue`; a `select`/`switch`/`if-else` counts when all of its arms do) -/\ndef runProcessorCases : List (String × Bool) := [%s]\n", strings.Join(cases, ", "))
		fmt.Fprintf(&sb, "/-- functions called in the loop body after that switch (the forwarding code) -/\ndef runProcessorAfterSwitch : List String := %s\n", LeanStrList(after))
		sb.WriteString("end Scion.Gen.R2Bfd\n")
		return c.Emit("R2Bfd.lean", sb.String())
	})
}

func r2SidName(id *ast.Ident, ok bool) string {
	if !ok || id == nil {
		return ""
	}
	return id.Name
}

// ---- group r2ohp: constants and the check order of processOHP -----------------------------------

func init() {
	register("r2ohp", func(c *Ctx) error {
		var sb strings.Builder
		sb.WriteString("namespace Scion.Gen.R2Ohp\n")
		{
			e, err := r2ConstExpr(c, "pkg/slayers/path/onehop", "PathLen")
			if err != nil {
				return err
			}
			v, err := r2EvalInt(c, e, map[string]string{"path": "pkg/slayers/path"})
			if err != nil {
				return err
			}
			fmt.Fprintf(&sb, "/-- `pkg/slayers/path/onehop.PathLen` = `%s` -/\ndef PathLen : Nat := %d\n", c.Expr(e), v)
		}
		for _, x := range [][2]string{{"pkg/slayers/path", "MACBufferSize"},
			{"pkg/slayers/path", "MacLen"}, {"pkg/slayers", "CmnHdrLen"}, {"router", "hopFieldDefaultExpTime"}} {
			v, err := c.ConstNat(x[0], x[1])
			if err != nil {
				return err
			}
			fmt.Fprintf(&sb, "/-- `%s.%s` -/\ndef %s : Nat := %s\n", x[0], x[1], x[1], v)
		}
		fd, err := c.Func("router", "scionPacketProcessor", "processOHP")
		if err != nil {
			return err
		}
		var conds []string
		ast.Inspect(fd.Body, func(n ast.Node) bool {
			if is, ok := n.(*ast.IfStmt); ok {
				s := c.Expr(is.Cond)
				if is.Init != nil {
					s = c.Expr(is.Init) + "; " + s
				}
				conds = append(conds, s)
			}
			return true
		})
		fmt.Fprintf(&sb, "/-- the `if` conditions of `processOHP` in source order (each guards a discard, except the ingress test) -/\ndef processOHPConds : List String := %s\n", LeanStrList(conds))
		sb.WriteString("end Scion.Gen.R2Ohp\n")
		return c.Emit("R2Ohp.lean", sb.String())
	})
}

// r2EvalInt evaluates integer constant expressions over literals, + and *, and constants of
// imported packages (pkgs maps the import name to the package directory).
func r2EvalInt(c *Ctx, e ast.Expr, pkgs map[string]string) (int64, error) {
	switch v := e.(type) {
	case *ast.BasicLit:
		return strconv.ParseInt(v.Value, 0, 64)
	case *ast.ParenExpr:
		return r2EvalInt(c, v.X, pkgs)
	case *ast.SelectorExpr:
		if id, ok := v.X.(*ast.Ident); ok {
			if dir, ok := pkgs[id.Name]; ok {
				s, err := c.ConstNat(dir, v.Sel.Name)
				if err != nil {
					return 0, err
				}
				return strconv.ParseInt(s, 10, 64)
			}
		}
	case *ast.BinaryExpr:
		a, err := r2EvalInt(c, v.X, pkgs)
		if err != nil {
			return 0, err
		}
		b, err := r2EvalInt(c, v.Y, pkgs)
		if err != nil {
			return 0, err
		}
		switch v.Op {
		case token.ADD:
			return a + b, nil
		case token.MUL:
			return a * b, nil
		}
	}
	return 0, fmt.Errorf("cannot evaluate %s", c.Expr(e))
}

// r2EndsIteration: every path through the statement list ends with `continue` (or return/panic).
func r2EndsIteration(body []ast.Stmt) bool {
	if len(body) == 0 {
		return false
	}
	switch v := body[len(body)-1].(type) {
	case *ast.BranchStmt:
		return v.Tok == token.CONTINUE && v.Label == nil
	case *ast.ReturnStmt:
		return true
	case *ast.BlockStmt:
		return r2EndsIteration(v.List)
	case *ast.IfStmt:
		if v.Else == nil || !r2EndsIteration(v.Body.List) {
			return false
		}
		switch e := v.Else.(type) {
		case *ast.BlockStmt:
			return r2EndsIteration(e.List)
		case *ast.IfStmt:
			return r2EndsIteration([]ast.Stmt{e})
		}
		return false
	case *ast.SelectStmt:
		for _, cc := range v.Body.List {
			if !r2EndsIteration(cc.(*ast.CommClause).Body) {
				return false
			}
		}
		return len(v.Body.List) > 0
	case *ast.SwitchStmt:
		hasDefault := false
		for _, cc := range v.Body.List {
			cl := cc.(*ast.CaseClause)
			if cl.List == nil {
				hasDefault = true
			}
			if !r2EndsIteration(cl.Body) {
				return false
			}
		}
		return hasDefault
	}
	return false
}
