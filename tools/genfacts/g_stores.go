package main

// group "stores" (C27, C31, C45): syntactic facts about the decision points the store models
// transcribe — the conditions of the `if` statements (source order) and the SQL text of the
// functions whose comparison operators the theorems depend on.  Emitted to
// Scion/Gen/StoresFacts.lean; the expectations live in Props/C27.lean, C31.lean, C45.lean.

import (
	"fmt"
	"go/ast"
	"go/token"
	"strconv"
	"strings"
)

func init() { register("stores", genStores) }

// stIfConds returns the conditions (with their init statement) of the if statements in fd, in
// source order, error plumbing (`err != nil`) left out.
func stIfConds(c *Ctx, fd *ast.FuncDecl) []string {
	var out []string
	ast.Inspect(fd.Body, func(n ast.Node) bool {
		if x, ok := n.(*ast.IfStmt); ok {
			cond := c.Expr(x.Cond)
			if cond == "err != nil" { // plumbing, not a decision of the model
				return true
			}
			if x.Init != nil {
				cond = c.Expr(x.Init) + "; " + cond
			}
			out = append(out, cond)
		}
		return true
	})
	return out
}

// stStrings returns the SQL string literals in fd (whitespace-normalised), in source order.
func stStrings(fd *ast.FuncDecl) []string {
	var out []string
	ast.Inspect(fd.Body, func(n ast.Node) bool {
		if x, ok := n.(*ast.BasicLit); ok && x.Kind == token.STRING {
			if s, err := strconv.Unquote(x.Value); err == nil {
				s = strings.Join(strings.Fields(s), " ")
				for _, kw := range []string{"SELECT ", "DELETE ", "INSERT ", "UPDATE ", "AND "} {
					if strings.HasPrefix(s, kw) { // SQL text only (no error messages)
						out = append(out, s)
						break
					}
				}
			}
		}
		return true
	})
	return out
}

// stReturns returns the top-level statements of fd's body (assignments and returns), in source
// order: for the small predicates canRead / isAuthoritative that is the whole definition.
func stReturns(c *Ctx, fd *ast.FuncDecl) []string {
	var out []string
	for _, st := range fd.Body.List {
		out = append(out, c.Expr(st))
	}
	return out
}

func genStores(c *Ctx) error {
	var sb strings.Builder
	sb.WriteString("namespace Scion.Gen.StoresFacts\n")
	emit := func(doc, name string, xs []string) {
		fmt.Fprintf(&sb, "/-- %s -/\ndef %s : List String := %s\n", doc, name, LeanStrList(xs))
	}
	type spec struct {
		dir, recv, fn, name, what string
		kind                       int // 0 if-conditions, 1 SQL string literals, 2 body statements
	}
	for _, s := range []spec{
		{"private/revcache/memrevcache", "memRevCache", "Insert", "revInsertConds", "if conditions of memRevCache.Insert", 0},
		{"private/storage/path/sqlite", "", "insert", "pathInsertConds", "if conditions of path sqlite insert", 0},
		{"private/storage/path/sqlite", "", "updateExisting", "pathUpdateConds", "if conditions of updateExisting", 0},
		{"private/storage/path/sqlite", "executor", "DeleteExpired", "pathDeleteExpiredSQL", "string literals of path DeleteExpired", 1},
		{"private/storage/path/sqlite", "executor", "DeleteSegment", "pathDeleteSegmentSQL", "string literals of DeleteSegment", 1},
		{"private/storage/path/sqlite", "executor", "InsertNextQuery", "pathInsertNextQuerySQL", "string literals of InsertNextQuery", 1},
		{"private/storage/beacon/sqlite", "executor", "InsertBeacon", "beaconInsertConds", "if conditions of InsertBeacon", 0},
		{"private/storage/beacon/sqlite", "executor", "CandidateBeacons", "beaconCandidatesSQL", "string literals of CandidateBeacons", 1},
		{"private/storage/beacon/sqlite", "executor", "DeleteExpiredBeacons", "beaconDeleteExpiredSQL", "string literals of DeleteExpiredBeacons", 1},
		{"pkg/experimental/hiddenpath", "RegistryServer", "Register", "registerConds", "if conditions of RegistryServer.Register", 0},
		{"pkg/experimental/hiddenpath", "AuthoritativeServer", "Segments", "segmentsConds", "if conditions of AuthoritativeServer.Segments", 0},
		{"pkg/experimental/hiddenpath", "", "canRead", "canReadReturns", "statements of canRead", 2},
		{"pkg/experimental/hiddenpath", "", "isAuthoritative", "isAuthoritativeReturns", "statements of isAuthoritative", 2},
	} {
		fd, err := c.Func(s.dir, s.recv, s.fn)
		if err != nil {
			return err
		}
		switch s.kind {
		case 0:
			emit(s.what, s.name, stIfConds(c, fd))
		case 1:
			emit(s.what, s.name, stStrings(fd))
		default:
			emit(s.what, s.name, stReturns(c, fd))
		}
	}
	// the query of Storer.Get: key/value pairs of the query.Params literal
	fd, err := c.Func("pkg/experimental/hiddenpath", "Storer", "Get")
	if err != nil {
		return err
	}
	var kv []string
	ast.Inspect(fd.Body, func(n ast.Node) bool {
		cl, ok := n.(*ast.CompositeLit)
		if !ok || cl.Type == nil || !strings.HasSuffix(c.Expr(cl.Type), "Params") {
			return true
		}
		for _, el := range cl.Elts {
			if p, ok := el.(*ast.KeyValueExpr); ok {
				kv = append(kv, c.Expr(p.Key)+"="+c.Expr(p.Value))
			}
		}
		return true
	})
	emit("fields of the query.Params literal in Storer.Get", "storerGetParams", kv)
	// Storer.Put: arguments of the InsertWithHPGroupIDs call
	fd, err = c.Func("pkg/experimental/hiddenpath", "Storer", "Put")
	if err != nil {
		return err
	}
	var args []string
	ast.Inspect(fd.Body, func(n ast.Node) bool {
		ce, ok := n.(*ast.CallExpr)
		if !ok {
			return true
		}
		if se, ok := ce.Fun.(*ast.SelectorExpr); ok && se.Sel.Name == "InsertWithHPGroupIDs" {
			for _, a := range ce.Args {
				args = append(args, c.Expr(a))
			}
		}
		return true
	})
	emit("arguments of InsertWithHPGroupIDs in Storer.Put", "storerPutArgs", args)
	sb.WriteString("end Scion.Gen.StoresFacts\n")
	return c.Emit("StoresFacts.lean", sb.String())
}
