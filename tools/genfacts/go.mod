module genfacts

go 1.23
