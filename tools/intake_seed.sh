#!/bin/sh
# usage: tools/intake_seed.sh <Cxx> <srcdir> <name> <pkgdir-of-demo> [extra test pkgs…]
# Confirms a seeded change delivered by a mutation author (patch.diff, zz_mut_demo_test.go, meta.json):
# in a fresh scratch worktree: demo passes WITHOUT the patch, patch applies and builds, existing tests of
# the package pass WITH the patch, demo FAILS with the patch.  On success stores it under seeded/<name>/.
set -e
cd "$(dirname "$0")/.."
export GOFLAGS=-mod=mod GOPROXY=off
pid=$1; src=$2; name=$3; pkg=$4; shift 4
wt=intake-$name
trap 'tools/rmworktree.sh "$wt"' EXIT
d=$(tools/mkworktree.sh "$wt")
cp "$src/zz_mut_demo_test.go" "$d/$pkg/zz_mut_demo_test.go"
log=$(mktemp)
echo "== demo without patch (must pass)"; (cd "$d" && go test -count=1 -run 'Mut|Demo|ZZ' "./$pkg/" >"$log" 2>&1) || { tail -20 "$log"; echo "INTAKE-FAIL: demo fails without patch"; exit 1; }
git -C "$d" apply "$src/patch.diff"
echo "== build with patch"; (cd "$d" && go build "./$pkg/..." ) || { echo "INTAKE-FAIL: does not build"; exit 1; }
echo "== demo with patch (must fail)"; if (cd "$d" && go test -count=1 -run 'Mut|Demo|ZZ' "./$pkg/" >"$log" 2>&1); then echo "INTAKE-FAIL: demo passes with patch"; exit 1; fi
rm "$d/$pkg/zz_mut_demo_test.go"
echo "== existing tests with patch (must pass)"; ok=0; for try in 1 2 3 4; do if (cd "$d" && go test -count=1 "./$pkg/..." "$@" >"$log" 2>&1); then ok=1; break; fi; echo "   (attempt $try failed: $(grep -E '^--- FAIL' "$log" | head -3 | tr '\n' ' '))"; done; [ $ok = 1 ] || { grep -E "^(---|FAIL)" "$log" | head; echo "INTAKE-FAIL: existing tests fail with patch"; exit 1; }
mkdir -p "seeded/$name"
cp "$src/patch.diff" "$src/zz_mut_demo_test.go" "seeded/$name/"
python3 - "$src/meta.json" "seeded/$name/meta.json" "$pid" "$pkg" <<'PY'
import json,sys
m=json.load(open(sys.argv[1])); m["property"]=sys.argv[3]; m["demo_package"]=sys.argv[4]
m["confirmed_by_lead"]=["demo passes without patch","patch applies and builds","demo fails with patch","existing tests of "+sys.argv[4]+" pass with patch"]
json.dump(m,open(sys.argv[2],"w"),indent=1)
PY
echo "INTAKE-OK seeded/$name"
