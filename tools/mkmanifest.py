#!/usr/bin/env python3
"""Regenerates MANIFEST.json from registry/*.json (one file per claimed property) and
properties.jsonl; every property without a registry file is listed under not_applicable with
the reason from registry/_not_claimed.json (default: not built yet)."""
import json, os, sys
V = os.path.join(os.path.dirname(os.path.abspath(__file__)), "..")
props = [json.loads(l) for l in open(os.path.join(V, "properties.jsonl")) if l.strip()]
reasons = {}
p = os.path.join(V, "registry", "_not_claimed.json")
if os.path.exists(p):
    reasons = json.load(open(p))
hooks_p = os.path.join(V, "registry", "_hooks.json")
hooks = json.load(open(hooks_p)) if os.path.exists(hooks_p) else {"source_commits": []}
try:
    import subprocess
    out = subprocess.run(["git", "-C", "/repo", "log", "--format=%h %s"], capture_output=True, text=True).stdout
    hooks["source_commits"] = [l.split(" ", 1)[0] for l in out.split("\n") if " verif hooks" in l][::-1]
except Exception:
    pass
checks, na, engines = [], [], {}
ready_p = os.path.join(V, "registry", "_ready.json")
ready = set(json.load(open(ready_p))) if os.path.exists(ready_p) else None
for pr in props:
    pid = pr["id"]
    rp = os.path.join(V, "registry", pid + ".json")
    if os.path.exists(rp) and ready is not None and pid not in ready:
        na.append({"property_id": pid, "reason": reasons.get(pid, "check under construction: model, theorems and harness exist in /verif but are not yet validated on the unchanged tree (not claimed until they are)")})
        continue
    if not os.path.exists(rp):
        na.append({"property_id": pid, "reason": reasons.get(pid, "no check built yet for this property (work in progress; see DESIGN.md section 5 for the plan)")})
        continue
    r = json.load(open(rp))
    for run in r.get("runs", []):
        engines.setdefault(run["engine"], []).append(pid)
    checks.append({
        "property_id": pid,
        "quick_cmd": "./check %s --tier quick" % pid,
        "thorough_cmd": "./check %s --tier thorough" % pid,
        "evidence_file": "/verif/evidence/%s.json" % pid,
        "replay_cmd_template": "./check %s --replay {path}" % pid,
        "engine": "+".join(run["engine"] for run in r.get("runs", [])) or "lean-only",
        "level_claimed": {"category": r.get("level", "proof"), "text": r["level_text"],
                          "design_ref": "DESIGN.md section " + r.get("design_ref", "5")},
        "level_note": r["level_note"],
        "technique": r.get("technique", "Lean 4 proof + differential correspondence"),
    })
man = {
    "version": 1,
    "setup_cmd": "./setup.sh",
    "hooks": {
        "guard": "verif",
        "enable": "go build -tags verif (the harness under /verif/harness is built with -tags verif against /repo via a replace directive)",
        "baseline_off_cmd": json.load(open("/root/.vp/BASELINE.json"))["cmd"] if os.path.exists("/root/.vp/BASELINE.json") else "go test ./...",
        "source_commits": hooks.get("source_commits", []),
        "add_only": True,
    },
    "engines": [{"name": "lean", "path": "/verif/lean", "serves_properties": [c["property_id"] for c in checks],
                 "kind_free_text": "lake project Scion: models (Scion/Model), regenerated facts (Scion/Gen), property theorems (Scion/Props), model driver exe scion_model (Driver/)"}] +
               [{"name": n, "path": "/verif/harness/cmd/" + n, "serves_properties": sorted(set(ps)),
                 "kind_free_text": "Go harness engine: drives the real code in-process, writes ops/impl lines for the Lean model driver and evaluates the property predicate"}
                for n, ps in sorted(engines.items())],
    "checks": checks,
    "notes": "All checks go through ./check <id>: regenerate facts from /repo (tools/genfacts), lake build the property's theorems + axiom audit, rebuild the harness engine against /repo's working tree with -tags verif, run implementation and Lean model driver on the same ops and diff, evaluate the property predicate. known_findings.json lists recorded findings.",
    "not_applicable": na,
}
json.dump(man, open(os.path.join(V, "MANIFEST.json"), "w"), indent=1)
print("MANIFEST.json: %d checks, %d not claimed" % (len(checks), len(na)))
try:
    import jsonschema
    jsonschema.validate(man, json.load(open("/root/.vp/MANIFEST.schema.json")))
    print("schema ok")
except ImportError:
    pass
