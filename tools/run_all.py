#!/usr/bin/env python3
"""Runs ./check for every registered property (optionally a subset) with limited parallelism and
prints a summary table.  usage: tools/run_all.py [--tier quick|thorough] [--jobs N] [--seed S] [ids…]"""
import sys, os, json, subprocess, time, concurrent.futures as cf
V = os.path.join(os.path.dirname(os.path.abspath(__file__)), "..")
args = sys.argv[1:]
tier, jobs, seed, ids = "quick", 4, os.environ.get("VERIF_SEED", "1"), []
i = 0
while i < len(args):
    if args[i] == "--tier": tier = args[i+1]; i += 2
    elif args[i] == "--jobs": jobs = int(args[i+1]); i += 2
    elif args[i] == "--seed": seed = args[i+1]; i += 2
    else: ids.append(args[i]); i += 1
if not ids:
    ids = sorted(f[:-5] for f in os.listdir(os.path.join(V, "registry")) if f.startswith("C") and f.endswith(".json"))
def one(pid):
    t0 = time.time()
    p = subprocess.run(["./check", pid, "--tier", tier], cwd=V, capture_output=True, text=True,
                       env=dict(os.environ, VERIF_SEED=str(seed)))
    last = [l for l in p.stdout.strip().split("\n") if l][-1:] or [""]
    return pid, p.returncode, time.time() - t0, last[0], p.stdout
with cf.ThreadPoolExecutor(jobs) as ex:
    res = list(ex.map(one, ids))
bad = 0
for pid, rc, dt, last, out in res:
    for l in out.split("\n"):
        if l.startswith("KNOWN-FINDING"):
            print("   ", l[:160])
    print("%-4s rc=%d %6.1fs  %s" % (pid, rc, dt, last[:200]))
    bad += rc != 0
print("%d/%d OK" % (len(res) - bad, len(res)))
sys.exit(1 if bad else 0)
