import Mathlib.Data.List.Induction
/-! Prototype: SegID accumulator synchronisation (C22 core). -/
namespace SegID
abbrev W := BitVec 16

/-- β values the beaconing ASes used: β₀ = s₀, β_{i+1} = β_i ⊕ σ_i. -/
def betas (s0 : W) : List W → List W
  | [] => []
  | x :: xs => s0 :: betas (s0 ^^^ x) xs

def beta (s0 : W) (σ : List W) (i : Nat) : W := (σ.take i).foldl (· ^^^ ·) s0

/-- Router rule in construction direction: verify with the carried SegID, then egress XORs σ. -/
def runCons (seg : W) : List W → List W
  | [] => []
  | x :: xs => seg :: runCons (seg ^^^ x) xs

/-- Router rule against construction direction, hops in *forwarding* order
    (σ_{n-1}, σ_{n-2}, …): first AS (internal ingress) uses SegID as is; every later AS XORs its own σ first. -/
def runNonConsTail (seg : W) : List W → List W
  | [] => []
  | y :: ys => (seg ^^^ y) :: runNonConsTail (seg ^^^ y) ys

def runNonCons (seg : W) : List W → List W
  | [] => []
  | _ :: ys => seg :: runNonConsTail seg ys

theorem betas_length (s0 : W) (σ : List W) : (betas s0 σ).length = σ.length := by
  induction σ generalizing s0 with
  | nil => rfl
  | cons x xs ih => simp [betas, ih]

theorem betas_getElem (s0 : W) (σ : List W) (i : Nat) (h : i < σ.length) :
    (betas s0 σ)[i]'(by rw [betas_length]; exact h) = beta s0 σ i := by
  induction σ generalizing s0 i with
  | nil => cases h
  | cons x xs ih =>
    cases i with
    | zero => simp [betas, beta]
    | succ j =>
      simp only [betas, List.getElem_cons_succ]
      rw [ih (s0 ^^^ x) j (by simpa using h)]
      simp [beta]

/-- Construction direction, any entry point `s` (shortcut): the values used are exactly β_s, β_{s+1}, … -/
theorem cons_sync (s0 : W) (σ : List W) (s : Nat) :
    runCons (beta s0 σ s) (σ.drop s) = (betas s0 σ).drop s := by
  induction σ generalizing s0 s with
  | nil => simp [runCons, betas]
  | cons x xs ih =>
    cases s with
    | zero =>
      simp only [List.drop_zero, beta, List.take_zero, List.foldl_nil]
      have : ∀ (seg : W) (l : List W), runCons seg l = betas seg l := by
        intro seg l; induction l generalizing seg with
        | nil => rfl
        | cons y ys ih' => simp [runCons, betas, ih']
      exact this _ _
    | succ j =>
      simp only [List.drop_succ_cons, betas]
      have := ih (s0 ^^^ x) j
      simpa [beta] using this

theorem xor_cancel (a b : W) : a ^^^ b ^^^ b = a := by
  rw [BitVec.xor_assoc, BitVec.xor_self, BitVec.xor_zero]

/-- Against construction direction over the whole segment: starting from β_{n-1}
    the routers use β_{n-1}, β_{n-2}, …, β_0. -/
theorem noncons_tail_sync (s0 : W) (σ : List W) :
    runNonConsTail (beta s0 σ σ.length) σ.reverse = (betas s0 σ).reverse := by
  induction σ using List.reverseRecOn generalizing s0 with
  | nil => simp [runNonConsTail, betas]
  | append_singleton xs x ih =>
    have hb : beta s0 (xs ++ [x]) (xs ++ [x]).length = beta s0 xs xs.length ^^^ x := by
      simp only [beta]
      rw [List.take_of_length_le (Nat.le_refl _), List.take_of_length_le (Nat.le_refl _)]
      simp [List.foldl_append]
    have hbetas : betas s0 (xs ++ [x]) = betas s0 xs ++ [beta s0 xs xs.length] := by
      clear ih hb
      induction xs generalizing s0 with
      | nil => simp [betas, beta]
      | cons y ys ih' => simp [betas, beta, ih' (s0 ^^^ y)]
    rw [hb, hbetas]
    simp only [List.reverse_append, List.reverse_singleton, List.singleton_append,
      runNonConsTail, xor_cancel]
    rw [ih]

end SegID
