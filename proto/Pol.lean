/-! Prototype: routing.Policy.Match right-to-left add/remove == first matching rule (C42 core). -/
namespace Pol
inductive Act | accept | reject | other
structure Rule (A : Type) where
  applies : Bool            -- From/To matchers on the IA pair
  net     : A → Bool        -- NetworkMatcher.IPSet membership
  act     : Act

/-- What the code does: start from the default set, walk rules from LAST to FIRST. -/
def matchImpl {A} (dflt : Bool) (rs : List (Rule A)) (a : A) : Bool :=
  rs.foldr (fun r acc =>
    if r.applies then
      match r.act with
      | .accept => acc || r.net a
      | .reject => acc && !r.net a
      | .other  => acc
    else acc) dflt

/-- Spec: first rule (in order) that applies, has accept/reject action and whose network contains a. -/
def firstMatch {A} (dflt : Bool) : List (Rule A) → A → Bool
  | [], _ => dflt
  | r :: rs, a =>
    if r.applies && r.net a then
      match r.act with
      | .accept => true
      | .reject => false
      | .other  => firstMatch dflt rs a
    else firstMatch dflt rs a

theorem match_eq_first {A} (dflt : Bool) (rs : List (Rule A)) (a : A) :
    matchImpl dflt rs a = firstMatch dflt rs a := by
  induction rs with
  | nil => rfl
  | cons r rs ih =>
    simp only [matchImpl, List.foldr_cons, firstMatch] at *
    rw [ih]
    cases h1 : r.applies <;> cases h2 : r.net a <;> cases h3 : r.act <;> simp
end Pol
