/-! Prototype: one's complement fold (C20 core), core Lean only. -/
namespace Csum

def fold (c : Nat) : Nat :=
  if h : c ≤ 0xffff then c else fold (c / 65536 + c % 65536)
termination_by c
decreasing_by omega

theorem fold_le (c : Nat) : fold c ≤ 0xffff := by
  induction c using Nat.strongRecOn with
  | _ c ih =>
    unfold fold
    split
    · assumption
    · exact ih _ (by omega)

theorem fold_mod (c : Nat) : fold c % 65535 = c % 65535 := by
  induction c using Nat.strongRecOn with
  | _ c ih =>
    unfold fold
    split
    · rfl
    · rw [ih _ (by omega)]; omega

theorem fold_eq_zero (c : Nat) : fold c = 0 ↔ c = 0 := by
  induction c using Nat.strongRecOn with
  | _ c ih =>
    unfold fold
    split
    · rfl
    · rw [ih _ (by omega)]; omega

/-- stored checksum = ~fold(S) ; verification sum folds to 0xFFFF -/
theorem verify (S : Nat) : fold (S + (0xffff - fold S)) = 0xffff := by
  have h1 := fold_le S
  have h2 := fold_mod S
  have h3 := fold_le (S + (0xffff - fold S))
  have h4 := fold_mod (S + (0xffff - fold S))
  have h5 := fold_eq_zero (S + (0xffff - fold S))
  have h6 := fold_eq_zero S
  omega

/-- a single-bit flip in a 16-bit word changes the total by ±2^k, k<16: the folded sums differ -/
theorem flip_detected (S k : Nat) (hk : k < 16) (hS : 2 ^ k ≤ S) :
    fold (S + 2 ^ k) ≠ fold S ∧ fold (S - 2 ^ k) ≠ fold S := by
  have hp : 1 ≤ 2 ^ k ∧ 2 ^ k ≤ 32768 := by
    have : k ≤ 15 := by omega
    constructor
    · exact Nat.one_le_two_pow
    · calc 2 ^ k ≤ 2 ^ 15 := Nat.pow_le_pow_right (by omega) this
        _ = 32768 := by decide
  have a := fold_mod (S + 2 ^ k)
  have b := fold_mod (S - 2 ^ k)
  have c := fold_mod S
  constructor <;> intro h <;> omega

end Csum
