/-! Prototype: path meta header arithmetic (C19 core). Core Lean only. -/
namespace Meta

structure Hdr where
  currINF : Nat
  currHF  : Nat
  s0 : Nat
  s1 : Nat
  s2 : Nat
deriving DecidableEq, Repr

def decode (w : Nat) : Hdr :=
  { currINF := w / 2^30 % 4
    currHF  := w / 2^24 % 64
    s0 := w / 2^12 % 64
    s1 := w / 2^6 % 64
    s2 := w % 64 }

def encode (m : Hdr) : Nat :=
  m.currINF % 4 * 2^30 + m.currHF % 64 * 2^24 + m.s0 % 64 * 2^12 + m.s1 % 64 * 2^6 + m.s2 % 64

/-- re-encoding a decoded line reproduces it except for the 6 reserved bits 18..23 -/
theorem encode_decode (w : Nat) (h : w < 2^32) :
    encode (decode w) = w - (w / 2^18 % 64) * 2^18 := by
  simp only [encode, decode]
  omega

theorem decode_encode (m : Hdr) (h : m.currINF < 4 ∧ m.currHF < 64 ∧ m.s0 < 64 ∧ m.s1 < 64 ∧ m.s2 < 64) :
    decode (encode m) = m := by
  obtain ⟨h1, h2, h3, h4, h5⟩ := h
  cases m
  simp only [encode, decode, Hdr.mk.injEq] at *
  refine ⟨?_, ?_, ?_, ?_, ?_⟩ <;> omega

def numHops (m : Hdr) : Nat := m.s0 + m.s1 + m.s2

/-- Base.DecodeFromBytes acceptance -/
def accept (m : Hdr) : Bool :=
  !(m.s2 > 0 && m.s1 == 0) && !(m.s1 > 0 && m.s0 == 0) && !(m.s2 > 0 && m.s0 == 0) && numHops m ≤ 64

def infIdx (m : Hdr) (hf : Nat) : Nat :=
  if hf < m.s0 then 0 else if hf < m.s0 + m.s1 then 1 else 2

def isXover (m : Hdr) : Bool :=
  m.currHF + 1 < numHops m && m.currINF != infIdx m (m.currHF + 1)

def segStart (m : Hdr) : Nat → Nat
  | 0 => 0 | 1 => m.s0 | _ => m.s0 + m.s1
def segLen (m : Hdr) : Nat → Nat
  | 0 => m.s0 | 1 => m.s1 | _ => m.s2

theorem infIdx_spec (m : Hdr) (hf : Nat) (h : hf < numHops m) :
    segStart m (infIdx m hf) ≤ hf ∧ hf < segStart m (infIdx m hf) + segLen m (infIdx m hf) := by
  unfold infIdx numHops at *
  split
  · simp [segStart, segLen]; omega
  · split
    · simp [segStart, segLen]; omega
    · simp [segStart, segLen]; omega

/-- IsXover ⇔ the current hop is the last hop of its segment and not the last hop of the path -/
theorem isXover_iff (m : Hdr) (hc : m.currHF < numHops m) (hm : m.currINF = infIdx m m.currHF) :
    isXover m = true ↔
      (m.currHF + 1 = segStart m m.currINF + segLen m m.currINF ∧ m.currHF + 1 < numHops m) := by
  unfold isXover
  rw [hm]
  unfold infIdx numHops at *
  by_cases h1 : m.currHF < m.s0 <;> by_cases h2 : m.currHF < m.s0 + m.s1 <;>
  by_cases h3 : m.currHF + 1 < m.s0 <;> by_cases h4 : m.currHF + 1 < m.s0 + m.s1 <;>
  simp [h1, h2, h3, h4, segStart, segLen] <;> omega

end Meta
