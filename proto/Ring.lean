/-! Prototype: ringbuf.Ring index bookkeeping (C48 sequential core). Core Lean only.
    Only the index/counter part is modelled here; the content refinement is the next layer. -/
namespace Ring

structure Ix where
  cap : Nat
  w : Nat          -- writeIndex (may rest at cap)
  r : Nat          -- readIndex  (may rest at cap)
  writable : Nat
  readable : Nat

/-- index effect of `Ring.write(entries[:n])` -/
def wIdx (cap w n : Nat) : Nat :=
  let k := min (cap - w) n
  if k < n then n - k else w + k

/-- index effect of `Ring.read(entries[:n])` -/
def rIdx (cap r n : Nat) : Nat :=
  let k := min (cap - r) n
  if k < n then n - k else r + k

def Inv (s : Ix) : Prop :=
  0 < s.cap ∧ s.w ≤ s.cap ∧ s.r ≤ s.cap ∧ s.writable + s.readable = s.cap ∧
  (s.r + s.readable = s.w ∨ s.r + s.readable = s.w + s.cap)

def write (s : Ix) (len : Nat) : Ix × Nat :=
  let n := min s.writable len
  ({ s with w := wIdx s.cap s.w n, writable := s.writable - n, readable := s.readable + n }, n)

def read (s : Ix) (len : Nat) : Ix × Nat :=
  let n := min s.readable len
  ({ s with r := rIdx s.cap s.r n, readable := s.readable - n, writable := s.writable + n }, n)

theorem write_inv (s : Ix) (len : Nat) (h : Inv s) : Inv (write s len).1 := by
  obtain ⟨hc, hw, hr, hsum, hmod⟩ := h
  unfold write wIdx Inv
  dsimp only
  split <;> omega

theorem read_inv (s : Ix) (len : Nat) (h : Inv s) : Inv (read s len).1 := by
  obtain ⟨hc, hw, hr, hsum, hmod⟩ := h
  unfold read rIdx Inv
  dsimp only
  split <;> omega

theorem transfer_bounds (s : Ix) (len : Nat) (h : Inv s) :
    (write s len).2 ≤ len ∧ (write s len).2 ≤ s.cap - s.readable ∧
    (read s len).2 ≤ len ∧ (read s len).2 ≤ s.readable := by
  obtain ⟨hc, hw, hr, hsum, hmod⟩ := h
  unfold write read
  dsimp only
  omega

/-- positions written by a write of n entries are exactly the n logical slots after the live window:
    slot j (0 ≤ j < n) lands at physical index `(w + j) mod cap` in the sense used by the code. -/
def phys (cap base j : Nat) : Nat := if base + j < cap then base + j else base + j - cap

theorem wIdx_spec (cap w n : Nat) (hc : 0 < cap) (hw : w ≤ cap) (hn : n ≤ cap) (hpos : 0 < n) :
    wIdx cap w n = phys cap w (n - 1) + 1 := by
  unfold wIdx phys
  dsimp only
  split <;> split <;> omega

end Ring
