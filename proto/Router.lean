import Proto.Meta
/-! Prototype: structured model of scionPacketProcessor.process (SCION path type) and the C01 theorem.
    Core Lean only. Crypto is a parameter. -/
namespace Router
open Meta

inductive LinkType | unset | core | parent | child | peer deriving DecidableEq, Repr
inductive Scope | internal | sibling | external deriving DecidableEq, Repr

structure Hop where
  inAlert : Bool
  egAlert : Bool
  exp : Nat
  consIn : Nat
  consEg : Nat
  mac : List UInt8        -- 6 bytes
deriving DecidableEq, Repr

structure Info where
  peer : Bool
  consDir : Bool
  segID : Nat             -- < 65536
  ts : Nat
deriving DecidableEq, Repr

structure Pkt where
  srcIA : Nat
  dstIA : Nat
  srcHostOk : Bool        -- SrcAddr() parses and is not v4-in-v6
  pldLenOk : Bool         -- PayloadLen field = actual payload length
  pm : Hdr
  infos : List Info
  hops : List Hop
deriving Repr

structure Iface where
  scope : Scope
  ltype : LinkType
  up : Bool
  linkId : Nat            -- identity of the Link object (sibling links are shared)
deriving Repr

structure Cfg where
  localIA : Nat
  ifaces : Nat → Option Iface     -- d.interfaces
  ltypeOf : Nat → LinkType        -- d.linkTypes (indexed by ifID, 0 = unset)

structure Ingress where
  ifID : Nat          -- pkt.Link.IfID(): 0 for internal and sibling links
  linkId : Nat
deriving Repr

inductive Disp
  | discard
  | slow (typ code ptr : Nat)
  | alertIngress | alertEgress
  | deliver
  | forward (egress : Nat)
deriving DecidableEq, Repr

abbrev Mac := List UInt8 → List UInt8     -- keyed PRF of this AS, 16-byte output

def be16 (n : Nat) : List UInt8 := [UInt8.ofNat (n / 256), UInt8.ofNat (n % 256)]
def be32 (n : Nat) : List UInt8 :=
  [UInt8.ofNat (n / 2^24), UInt8.ofNat (n / 2^16 % 256), UInt8.ofNat (n / 2^8 % 256), UInt8.ofNat (n % 256)]

/-- path.MACInput -/
def macInput (segID ts exp cin ceg : Nat) : List UInt8 :=
  [0, 0] ++ be16 segID ++ be32 ts ++ [0, UInt8.ofNat exp] ++ be16 cin ++ be16 ceg ++ [0, 0]

def macOk (mac : Mac) (inf : Info) (h : Hop) : Bool :=
  h.mac = (mac (macInput inf.segID inf.ts h.exp h.consIn h.consEg)).take 6

def expUnit : Nat := 337500   -- 24h/256 in ms; time is in ms here
def unexpired (now : Nat) (inf : Info) (h : Hop) : Bool :=
  decide (now ≤ inf.ts * 1000 + (h.exp + 1) * expUnit)

def mac2 (h : Hop) : Nat := match h.mac with
  | a :: b :: _ => a.toNat * 256 + b.toNat
  | _ => 0

def isLastHop (m : Hdr) : Bool := m.currHF + 1 == numHops m
def isFirstHop (m : Hdr) : Bool := m.currHF == 0

def determinePeer (m : Hdr) (inf : Info) : Option Bool :=
  if !inf.peer then some false
  else if m.s0 == 0 || m.s1 == 0 || m.s2 != 0 then none
  else some (m.currHF + 1 == m.s0 || m.currHF == m.s0)

def PP : Nat := 4   -- SCMP ParameterProblem
def cExpired := 52
def cBadMac := 51


def Disp.accepting : Disp → Bool
  | .deliver => true
  | .forward _ => true
  | _ => false

structure St where
  hop : Hop
  inf : Info
  peering : Bool
  p : Pkt

abbrev R := Except (Disp × Pkt)

/-- parsePath, determinePeer -/
def stParse (p : Pkt) : R St :=
  let m := p.pm
  match p.hops[m.currHF]?, p.infos[m.currINF]? with
  | none, _ => .error (.discard, p)
  | _, none => .error (.discard, p)
  | some hop, some inf =>
    if !inf.peer && (m.s0 == 1 || m.s1 == 1 || m.s2 == 1) then .error (.discard, p) else
    if m.currINF != infIdx m m.currHF then .error (.discard, p) else
    match determinePeer m inf with
    | none => .error (.discard, p)
    | some peering => .ok ⟨hop, inf, peering, p⟩

/-- validateHopExpiry … validateSrcHost -/
def stValidate (cfg : Cfg) (now : Nat) (ing : Ingress) (s : St) : R St :=
  let p := s.p; let m := p.pm; let hop := s.hop; let inf := s.inf
  if !unexpired now inf hop then .error (.slow PP cExpired m.currHF, p) else
  let hdrIn := if inf.consDir then hop.consIn else hop.consEg
  if ing.ifID != 0 && ing.ifID != hdrIn then .error (.slow PP (if inf.consDir then 49 else 50) m.currHF, p) else
  if !p.pldLenOk then .error (.slow PP 19 0, p) else
  if !isFirstHop m && ing.ifID == 0 &&
      (match cfg.ifaces hdrIn with | some l => l.linkId != ing.linkId | none => true) then .error (.discard, p) else
  let srcLocal := p.srcIA == cfg.localIA
  let dstLocal := p.dstIA == cfg.localIA
  if ing.ifID == 0 && isFirstHop m && !srcLocal then .error (.slow PP 33 0, p) else
  if ing.ifID == 0 && dstLocal then .error (.slow PP 34 0, p) else
  if ing.ifID != 0 && srcLocal then .error (.slow PP 33 0, p) else
  if ing.ifID != 0 && (isLastHop m != dstLocal) then .error (.slow PP 34 0, p) else
  if srcLocal && !p.srcHostOk then .error (.slow PP 33 0, p) else
  .ok s

def ingressUpd (ing : Ingress) (s : St) : Info :=
  if !s.inf.consDir && ing.ifID != 0 && !s.peering
  then { s.inf with segID := Nat.xor s.inf.segID (mac2 s.hop) } else s.inf

/-- updateNonConsDirIngressSegID, verifyCurrentMAC, handleIngressRouterAlert -/
def stMac (mac : Mac) (ing : Ingress) (s : St) : R St :=
  let inf1 := ingressUpd ing s
  let p1 := { s.p with infos := s.p.infos.set s.p.pm.currINF inf1 }
  if !macOk mac inf1 s.hop then .error (.slow PP cBadMac s.p.pm.currHF, p1) else
  let alertIn := if inf1.consDir then s.hop.inAlert else s.hop.egAlert
  if ing.ifID != 0 && alertIn then .error (.alertIngress, p1) else
  .ok { s with inf := inf1, p := p1 }

/-- doXover + second expiry/MAC check -/
def stXover (mac : Mac) (now : Nat) (s : St) : R St :=
  let m := s.p.pm
  if isXover m && !s.peering then
    let m' := { m with currHF := m.currHF + 1, currINF := infIdx m (m.currHF + 1) }
    let p2 := { s.p with pm := m' }
    match s.p.hops[m'.currHF]?, s.p.infos[m'.currINF]? with
    | some h2, some i2 =>
      if !unexpired now i2 h2 then .error (.slow PP cExpired m'.currHF, p2) else
      if !macOk mac i2 h2 then .error (.slow PP cBadMac m'.currHF, p2) else
      .ok { s with hop := h2, inf := i2, p := p2 }
    | _, _ => .error (.discard, p2)
  else .ok s

def stEgress (cfg : Cfg) (s : St) : Disp × Pkt :=
  let egress := if s.inf.consDir then s.hop.consEg else s.hop.consIn
  match cfg.ifaces egress with
  | none => (.slow PP 50 s.p.pm.currHF, s.p)
  | some l => if !l.up then (.slow 5 0 0, s.p) else (.forward egress, s.p)

def process (cfg : Cfg) (mac : Mac) (now : Nat) (ing : Ingress) (p : Pkt) : Disp × Pkt :=
  match stParse p with
  | .error r => r
  | .ok s0 =>
  match stValidate cfg now ing s0 with
  | .error r => r
  | .ok s1 =>
  match stMac mac ing s1 with
  | .error r => r
  | .ok s2 =>
  if s2.p.dstIA == cfg.localIA then (.deliver, s2.p) else
  match stXover mac now s2 with
  | .error r => r
  | .ok s3 => stEgress cfg s3

/-! stage lemmas -/
/-- peel an if/match chain in `h : chain = .error r` (or `.ok s`) completely -/
macro "peel_err" h:ident : tactic =>
  `(tactic| ((repeat' (split at $h:ident)) <;> (first | (cases $h:ident; rfl) | (cases $h:ident))))

theorem stParse_err (p : Pkt) (r) (h : stParse p = .error r) : r.1.accepting = false := by
  unfold stParse at h; dsimp only at h
  peel_err h

theorem stParse_ok (p : Pkt) (s) (h : stParse p = .ok s) :
    p.hops[p.pm.currHF]? = some s.hop ∧ p.infos[p.pm.currINF]? = some s.inf ∧
    determinePeer p.pm s.inf = some s.peering ∧ s.p = p := by
  unfold stParse at h; dsimp only at h
  split at h
  · cases h
  · cases h
  · rename_i hop inf hh hi
    split at h
    · cases h
    · split at h
      · cases h
      · split at h
        · cases h
        · rename_i peering hp
          cases h
          exact ⟨hh, hi, hp, rfl⟩

theorem stValidate_err cfg now ing s r (h : stValidate cfg now ing s = .error r) :
    r.1.accepting = false := by
  unfold stValidate at h; dsimp only at h
  peel_err h

theorem stValidate_ok cfg now ing s s' (h : stValidate cfg now ing s = .ok s') :
    s' = s ∧ unexpired now s.inf s.hop = true := by
  unfold stValidate at h; dsimp only at h
  split at h
  · cases h
  · rename_i hexp
    refine ⟨?_, by simpa using hexp⟩
    peel_err h

theorem stMac_err mac ing s r (h : stMac mac ing s = .error r) : r.1.accepting = false := by
  unfold stMac at h; dsimp only at h
  peel_err h

theorem stMac_ok mac ing s s' (h : stMac mac ing s = .ok s') :
    macOk mac (ingressUpd ing s) s.hop = true ∧ s'.hop = s.hop ∧ s'.inf = ingressUpd ing s := by
  unfold stMac at h; dsimp only at h
  split at h
  · cases h
  · rename_i hm
    have hm' : macOk mac (ingressUpd ing s) s.hop = true := by simpa using hm
    (repeat' (split at h)) <;> first | (cases h; exact ⟨hm', rfl, rfl⟩) | (cases h)

theorem stXover_err mac now s r (h : stXover mac now s = .error r) : r.1.accepting = false := by
  unfold stXover at h; dsimp only at h
  peel_err h

/-- C01, prototype form -/
theorem forward_mac_valid (cfg : Cfg) (mac : Mac) (now : Nat) (ing : Ingress) (p : Pkt)
    (h : (process cfg mac now ing p).1.accepting = true) :
    ∃ hop inf peering,
      p.hops[p.pm.currHF]? = some hop ∧ p.infos[p.pm.currINF]? = some inf ∧
      determinePeer p.pm inf = some peering ∧
      unexpired now inf hop = true ∧
      macOk mac (ingressUpd ing ⟨hop, inf, peering, p⟩) hop = true := by
  unfold process at h
  cases h0 : stParse p with
  | error r => simp [h0, stParse_err p r h0] at h
  | ok s0 =>
    obtain ⟨a, b, c, d⟩ := stParse_ok p s0 h0
    simp only [h0] at h
    cases h1 : stValidate cfg now ing s0 with
    | error r => simp [h1, stValidate_err _ _ _ _ r h1] at h
    | ok s1 =>
      obtain ⟨e, f⟩ := stValidate_ok _ _ _ _ _ h1
      subst e
      simp only [h1] at h
      cases h2 : stMac mac ing s1 with
      | error r => simp [h2, stMac_err _ _ _ r h2] at h
      | ok s2 =>
        obtain ⟨g, _, _⟩ := stMac_ok _ _ _ _ h2
        refine ⟨s1.hop, s1.inf, s1.peering, a, b, c, f, ?_⟩
        have : (⟨s1.hop, s1.inf, s1.peering, p⟩ : St) = s1 := by cases s1; simp_all
        rw [this]; exact g

end Router
