module verifharness

go 1.26.4

require github.com/scionproto/scion v0.0.0

require (
	go.uber.org/multierr v1.11.0 // indirect
	go.uber.org/zap v1.27.0 // indirect
)

replace github.com/scionproto/scion => /repo
