// Package wiregen holds what the engines wire (C18), spao (C21) and dispatcher (C44) share:
// canonical text dumps of real slayers values (the format lean/Scion/Util/WireText.lean parses),
// wrappers around the real SCION codec, and generators of header values.
package wiregen

import (
	"fmt"

	"github.com/gopacket/gopacket"

	"github.com/scionproto/scion/pkg/addr"
	"github.com/scionproto/scion/pkg/slayers"
	"github.com/scionproto/scion/pkg/slayers/path"
	"github.com/scionproto/scion/pkg/slayers/path/empty"
	"github.com/scionproto/scion/pkg/slayers/path/epic"
	"github.com/scionproto/scion/pkg/slayers/path/onehop"
	"github.com/scionproto/scion/pkg/slayers/path/scion"

	"verifharness/vlib"
)

type Feedback struct{ Trunc bool }

func (f *Feedback) SetTruncated() { f.Trunc = true }

func B2s(b bool) string {
	if b {
		return "1"
	}
	return "0"
}

// ---- canonical dumps of real layer values -----------------------------------------------------

func InfoStr(i path.InfoField) string {
	return fmt.Sprintf("%s.%s.%d.%d", B2s(i.Peer), B2s(i.ConsDir), i.SegID, i.Timestamp)
}

func HopStr(h path.HopField) string {
	return fmt.Sprintf("%s.%s.%d.%d.%d.%s", B2s(h.IngressRouterAlert), B2s(h.EgressRouterAlert),
		h.ExpTime, h.ConsIngress, h.ConsEgress, vlib.Hex(h.Mac[:]))
}

func MetaWord(m scion.MetaHdr) uint32 {
	return uint32(m.CurrINF&3)<<30 | uint32(m.CurrHF&63)<<24 | uint32(m.SegLen[0]&63)<<12 |
		uint32(m.SegLen[1]&63)<<6 | uint32(m.SegLen[2]&63)
}

func RawStr(r *scion.Raw) string {
	body := []byte{}
	if len(r.Raw) >= 4 {
		body = r.Raw[4:]
	}
	return fmt.Sprintf("%d %s", MetaWord(r.PathMeta), vlib.Hex(body))
}

func PathStr(p path.Path) string {
	switch v := p.(type) {
	case empty.Path:
		return "empty"
	case *scion.Raw:
		return "scion " + RawStr(v)
	case *scion.Decoded:
		b := make([]byte, v.Len())
		if err := v.SerializeTo(b); err != nil {
			return "scion-decoded-unserializable"
		}
		return fmt.Sprintf("scion %d %s", MetaWord(v.PathMeta), vlib.Hex(b[4:]))
	case *onehop.Path:
		return fmt.Sprintf("onehop %s %s %s", InfoStr(v.Info), HopStr(v.FirstHop), HopStr(v.SecondHop))
	case *epic.Path:
		return fmt.Sprintf("epic %d %d %s %s %s", v.PktID.Timestamp, v.PktID.Counter,
			vlib.Hex(v.PHVF), vlib.Hex(v.LHVF), RawStr(v.ScionPath))
	}
	return fmt.Sprintf("unknown-path-%T", p)
}

func ScionStr(s *slayers.SCION) string {
	return fmt.Sprintf("%d %d %d %d %d %d %d %d %d %d %d %s %s %s", s.Version, s.TrafficClass, s.FlowID,
		uint8(s.NextHdr), s.HdrLen, s.PayloadLen, uint8(s.PathType), uint8(s.DstAddrType),
		uint8(s.SrcAddrType), uint64(s.DstIA), uint64(s.SrcIA), vlib.Hex(s.RawDstAddr),
		vlib.Hex(s.RawSrcAddr), PathStr(s.Path))
}

// ---- real codec calls ---------------------------------------------------------------------------

// RealDecode runs SCION.DecodeFromBytes on a private copy of data.
func RealDecode(data []byte) (s *slayers.SCION, trunc bool, err error, panicked string) {
	cp := append([]byte(nil), data...)
	fb := &Feedback{}
	s = &slayers.SCION{}
	res, ok := vlib.Safe(func() string {
		err = s.DecodeFromBytes(cp, fb)
		return ""
	})
	if !ok {
		return nil, false, nil, res
	}
	return s, fb.Trunc, err, ""
}

// RealSerialize runs SCION.SerializeTo in front of payload.
func RealSerialize(s *slayers.SCION, payload []byte, fix bool) (out []byte, err error, panicked string) {
	res, ok := vlib.Safe(func() string {
		buf := gopacket.NewSerializeBuffer()
		if len(payload) > 0 {
			b, _ := buf.PrependBytes(len(payload))
			copy(b, payload)
		}
		err = s.SerializeTo(buf, gopacket.SerializeOptions{FixLengths: fix})
		if err == nil {
			out = append([]byte(nil), buf.Bytes()...)
		}
		return ""
	})
	if !ok {
		return nil, nil, res
	}
	return out, err, ""
}

// ---- value generation -------------------------------------------------------------------------

var NextHdrs = []uint8{17, 202, 200, 201, 203, 6, 0, 253}

func GenInfo(r *vlib.Rand) path.InfoField {
	return path.InfoField{Peer: r.Bool(), ConsDir: r.Bool(), SegID: uint16(r.U64()), Timestamp: uint32(r.U64())}
}

func GenHop(r *vlib.Rand) path.HopField {
	h := path.HopField{IngressRouterAlert: r.Bool(), EgressRouterAlert: r.Bool(), ExpTime: uint8(r.U64()),
		ConsIngress: uint16(r.U64()), ConsEgress: uint16(r.U64())}
	copy(h.Mac[:], r.Bytes(6))
	return h
}

var SegChoices = []int{1, 1, 2, 2, 3, 4, 5, 8, 20, 31, 61, 62, 63} // SegLen is a 6-bit field

// GenScionPath builds a scion.Decoded with a shape Base.DecodeFromBytes accepts.
func GenScionPath(r *vlib.Rand) *scion.Decoded {
	d := &scion.Decoded{}
	ninf := 1 + r.Intn(3)
	tot := 0
	for i := 0; i < ninf; i++ {
		l := SegChoices[r.Intn(len(SegChoices))]
		if tot+l+(ninf-1-i) > 64 {
			l = 1 + r.Intn(min(63, 64-tot-(ninf-1-i)))
		}
		d.PathMeta.SegLen[i] = uint8(l)
		tot += l
		d.InfoFields = append(d.InfoFields, GenInfo(r))
	}
	d.NumINF, d.NumHops = ninf, tot
	for i := 0; i < tot; i++ {
		d.HopFields = append(d.HopFields, GenHop(r))
	}
	if r.Chance(70) {
		d.PathMeta.CurrHF = uint8(r.Intn(tot))
		d.PathMeta.CurrINF = uint8(r.Intn(ninf))
	} else { // any pointer values decode
		d.PathMeta.CurrHF = uint8(r.Intn(64))
		d.PathMeta.CurrINF = uint8(r.Intn(4))
	}
	return d
}

func GenPath(r *vlib.Rand) (path.Path, string) {
	switch r.Intn(10) {
	case 0:
		return empty.Path{}, "empty"
	case 1, 2:
		return &onehop.Path{Info: GenInfo(r), FirstHop: GenHop(r), SecondHop: GenHop(r)}, "onehop"
	case 3, 4:
		raw, err := GenScionPath(r).ToRaw()
		if err != nil {
			panic(err)
		}
		return &epic.Path{PktID: epic.PktID{Timestamp: uint32(r.U64()), Counter: uint32(r.U64())},
			PHVF: r.Bytes(4), LHVF: r.Bytes(4), ScionPath: raw}, "epic"
	case 5, 6:
		raw, err := GenScionPath(r).ToRaw()
		if err != nil {
			panic(err)
		}
		return raw, "scion"
	default:
		return GenScionPath(r), "scion"
	}
}

func GenSCION(r *vlib.Rand) (*slayers.SCION, string) {
	p, tag := GenPath(r)
	s := &slayers.SCION{
		Version: uint8(r.Intn(16)), TrafficClass: uint8(r.U64()), FlowID: uint32(r.U64()) & 0xfffff,
		NextHdr: slayers.L4ProtocolType(NextHdrs[r.Intn(len(NextHdrs))]), PathType: p.Type(), Path: p,
		DstAddrType: slayers.AddrType(r.Intn(16)), SrcAddrType: slayers.AddrType(r.Intn(16)),
		DstIA: addr.IA(r.U64()), SrcIA: addr.IA(r.U64()),
	}
	if r.Chance(30) {
		s.Version = 0
	}
	if r.Chance(10) {
		s.NextHdr = slayers.L4ProtocolType(r.U64())
	}
	s.RawDstAddr = r.Bytes(s.DstAddrType.Length())
	s.RawSrcAddr = r.Bytes(s.SrcAddrType.Length())
	return s, tag
}
