// Package netlib builds small SCION networks out of the REAL components of /repo for the engines
// `segid` and `net`: per-AS forwarding keys, beaconing.DefaultExtender (origination, propagation,
// termination with peer entries), and the border routers of every AS (router.VerifNetNewAS, real
// dataPlane values joined by sibling links).  Owned by builder `net`.
package netlib

import (
	"context"
	"crypto/ecdsa"
	"crypto/elliptic"
	"crypto/rand"
	"fmt"
	"hash"
	"net/netip"
	"sort"
	"time"

	"github.com/scionproto/scion/control/beaconing"
	"github.com/scionproto/scion/control/ifstate"
	"github.com/scionproto/scion/pkg/addr"
	"github.com/scionproto/scion/pkg/scrypto"
	"github.com/scionproto/scion/pkg/scrypto/cppki"
	"github.com/scionproto/scion/pkg/scrypto/signed"
	seg "github.com/scionproto/scion/pkg/segment"
	"github.com/scionproto/scion/pkg/segment/extensions/discovery"
	"github.com/scionproto/scion/private/topology"
	"github.com/scionproto/scion/private/trust"
	"github.com/scionproto/scion/router"

	"verifharness/vlib"
)

// Link kinds.
const (
	Core = "core"
	PC   = "pc" // A is the parent of B
	Peer = "peer"
)

type Link struct {
	A    int
	AIf  uint16
	B    int
	BIf  uint16
	Kind string
}

type Iface struct {
	ID     uint16
	Nbr    int
	NbrIf  uint16
	LT     topology.LinkType // type of the link as seen from the local AS ("link to")
	Router int               // owning border router
	Link   int               // index into Net.Links
}

type AS struct {
	Idx      int
	Name     string
	IA       addr.IA
	Core     bool
	Key      []byte
	Ifs      map[uint16]*Iface
	NRouters int
	MaxExp   uint8
	Ext      *beaconing.DefaultExtender
	Routers  []*router.VerifNetRouter
}

type Net struct {
	AS    []*AS
	Links []Link
}

// SortedIfs returns the interface IDs of a in ascending order.
func (a *AS) SortedIfs() []uint16 {
	var ids []uint16
	for id := range a.Ifs {
		ids = append(ids, id)
	}
	sort.Slice(ids, func(i, j int) bool { return ids[i] < ids[j] })
	return ids
}

// Peers returns the peering interfaces of a (ascending).
func (a *AS) Peers() []uint16 {
	var ps []uint16
	for _, id := range a.SortedIfs() {
		if a.Ifs[id].LT == topology.Peer {
			ps = append(ps, id)
		}
	}
	return ps
}

func (a *AS) HostAddr(routerIdx int) addr.Host {
	return addr.HostIP(netip.AddrFrom4([4]byte{10, byte(a.Idx + 1), byte(routerIdx + 1), 1}))
}

type sgen struct{ s trust.Signer }

func (g sgen) Generate(ctx context.Context) ([]beaconing.Signer, error) {
	return []beaconing.Signer{g.s}, nil
}

var sharedKey *ecdsa.PrivateKey

func signerFor(ia addr.IA) trust.Signer {
	if sharedKey == nil {
		k, err := ecdsa.GenerateKey(elliptic.P256(), rand.Reader)
		if err != nil {
			panic(err)
		}
		sharedKey = k
	}
	return trust.Signer{PrivateKey: sharedKey, Algorithm: signed.ECDSAWithSHA256, IA: ia,
		TRCID: cppki.TRCID{ISD: ia.ISD(), Base: 1, Serial: 1}, SubjectKeyID: []byte("skid"),
		Expiration: time.Now().Add(48 * time.Hour)}
}

func linkTo(kind string, fromA bool) topology.LinkType {
	switch kind {
	case Core:
		return topology.Core
	case Peer:
		return topology.Peer
	default:
		if fromA {
			return topology.Child
		}
		return topology.Parent
	}
}

// NewNet assembles ASes and links. ias[i] is the ISD-AS of AS i, nRouters[i] its number of border
// routers; interfaces are assigned to routers round-robin shuffled by r.
func NewNet(r *vlib.Rand, ias []addr.IA, cores []bool, nRouters []int, maxExp []uint8, links []Link) (*Net, error) {
	n := &Net{Links: links}
	for i, ia := range ias {
		key := r.Bytes(16)
		a := &AS{Idx: i, Name: fmt.Sprintf("AS%d", i), IA: ia, Core: cores[i], Key: key,
			Ifs: map[uint16]*Iface{}, NRouters: nRouters[i], MaxExp: maxExp[i]}
		n.AS = append(n.AS, a)
	}
	for li, l := range links {
		A, B := n.AS[l.A], n.AS[l.B]
		if A.Ifs[l.AIf] != nil || B.Ifs[l.BIf] != nil || l.AIf == 0 || l.BIf == 0 {
			return nil, fmt.Errorf("interface id clash on link %d", li)
		}
		A.Ifs[l.AIf] = &Iface{ID: l.AIf, Nbr: l.B, NbrIf: l.BIf, LT: linkTo(l.Kind, true),
			Router: r.Intn(A.NRouters), Link: li}
		B.Ifs[l.BIf] = &Iface{ID: l.BIf, Nbr: l.A, NbrIf: l.AIf, LT: linkTo(l.Kind, false),
			Router: r.Intn(B.NRouters), Link: li}
	}
	for _, a := range n.AS {
		if err := n.initAS(a); err != nil {
			return nil, err
		}
	}
	return n, nil
}

func (n *Net) initAS(a *AS) error {
	infos := map[uint16]ifstate.InterfaceInfo{}
	var rifs []router.VerifNetIface
	for _, id := range a.SortedIfs() {
		f := a.Ifs[id]
		infos[id] = ifstate.InterfaceInfo{ID: id, IA: n.AS[f.Nbr].IA, LinkType: f.LT, RemoteID: f.NbrIf,
			MTU: 1400, InternalAddr: netip.MustParseAddrPort("10.0.0.1:30042")}
		rifs = append(rifs, router.VerifNetIface{ID: id, LinkTo: f.LT, Neighbor: n.AS[f.Nbr].IA, Owner: f.Router})
	}
	key := a.Key
	maxExp := a.MaxExp
	a.Ext = &beaconing.DefaultExtender{
		IA:        a.IA,
		SignerGen: sgen{signerFor(a.IA)},
		MAC: func() hash.Hash {
			m, err := scrypto.InitMac(key)
			if err != nil {
				panic(err)
			}
			return m
		},
		Intfs: ifstate.NewInterfaces(infos, ifstate.Config{}), MTU: 1400,
		MaxExpTime:           func() uint8 { return maxExp },
		StaticInfo:           func() *beaconing.StaticInfoCfg { return nil },
		DiscoveryInformation: func() *discovery.Extension { return nil },
	}
	rs, err := router.VerifNetNewAS(a.IA, a.Key, rifs, a.NRouters, a.HostAddr)
	if err != nil {
		return err
	}
	a.Routers = rs
	return nil
}

// Beacon is a beacon in flight: the segment so far, sitting in AS At after arriving on interface In
// (In == 0: not yet originated).
type Beacon struct {
	Seg *seg.PathSegment
	At  int
	In  uint16
	// Trail lists (AS index, egress) of the extensions so far.
	Trail [][2]int
}

// Originate starts a beacon at AS a with the given timestamp and initial segment ID.
func (n *Net) Originate(a int, ts time.Time, segID uint16) (*Beacon, error) {
	s, err := seg.CreateSegment(ts, segID)
	if err != nil {
		return nil, err
	}
	return &Beacon{Seg: s, At: a}, nil
}

func cloneSeg(s *seg.PathSegment) (*seg.PathSegment, error) {
	if len(s.ASEntries) == 0 {
		return seg.CreateSegment(s.Info.Timestamp, s.Info.SegmentID)
	}
	return seg.BeaconFromPB(seg.PathSegmentToPB(s))
}

// Propagate extends a copy of b in its current AS with the given egress interface (the real
// DefaultExtender.Extend with all peering interfaces of non-core ASes) and moves it to the
// neighbour.
func (n *Net) Propagate(b *Beacon, egress uint16) (*Beacon, error) {
	a := n.AS[b.At]
	f := a.Ifs[egress]
	if f == nil {
		return nil, fmt.Errorf("no interface %d in %s", egress, a.Name)
	}
	cp, err := cloneSeg(b.Seg)
	if err != nil {
		return nil, err
	}
	if err := a.Ext.Extend(context.Background(), cp, b.In, egress, n.peersFor(a)); err != nil {
		return nil, err
	}
	tr := append(append([][2]int{}, b.Trail...), [2]int{b.At, int(egress)})
	return &Beacon{Seg: cp, At: f.Nbr, In: f.NbrIf, Trail: tr}, nil
}

func (n *Net) peersFor(a *AS) []uint16 {
	if a.Core {
		return nil
	}
	return a.Peers()
}

// Terminate extends a copy of b in its current AS with egress 0: the registered segment.
func (n *Net) Terminate(b *Beacon) (*seg.PathSegment, error) {
	a := n.AS[b.At]
	cp, err := cloneSeg(b.Seg)
	if err != nil {
		return nil, err
	}
	if err := a.Ext.Extend(context.Background(), cp, b.In, 0, n.peersFor(a)); err != nil {
		return nil, err
	}
	return cp, nil
}

// ByIA finds an AS by its ISD-AS.
func (n *Net) ByIA(ia addr.IA) *AS {
	for _, a := range n.AS {
		if a.IA == ia {
			return a
		}
	}
	return nil
}

// MacOf builds a MAC function for the AS key.
func (a *AS) MacOf() hash.Hash {
	m, err := scrypto.InitMac(a.Key)
	if err != nil {
		panic(err)
	}
	return m
}
