// Package vlib is the plumbing shared by all harness engines: flags, deterministic PRNG,
// the ops/impl/tags line files read by ../check, stats.json, panic capture.
package vlib

import (
	"bufio"
	"encoding/hex"
	"encoding/json"
	"flag"
	"fmt"
	"os"
	"path/filepath"
	"runtime/debug"
	"strings"
)

// Rand is SplitMix64; every random choice of an engine derives from one of these.
type Rand struct{ s uint64 }

// NewRand scrambles the seed first: the SplitMix64 state advances by a constant per draw, so
// un-scrambled consecutive seeds would yield the same stream shifted by one draw.
func NewRand(seed uint64) *Rand {
	z := seed + 0x632BE59BD9B4E019
	z = (z ^ (z >> 30)) * 0xBF58476D1CE4E5B9
	z = (z ^ (z >> 27)) * 0x94D049BB133111EB
	z ^= z >> 31
	return &Rand{s: z*0x9E3779B97F4A7C15 + 0x1234567}
}

// CaseRand gives the PRNG of case idx of a run with the given seed (so a case replays alone).
func CaseRand(seed int64, idx int) *Rand {
	r := NewRand(uint64(seed))
	r.s ^= uint64(idx+1) * 0xD6E8FEB86659FD93
	r.U64()
	return r
}

func (r *Rand) U64() uint64 {
	r.s += 0x9E3779B97F4A7C15
	z := r.s
	z = (z ^ (z >> 30)) * 0xBF58476D1CE4E5B9
	z = (z ^ (z >> 27)) * 0x94D049BB133111EB
	return z ^ (z >> 31)
}
func (r *Rand) Intn(n int) int {
	if n <= 0 {
		return 0
	}
	return int(r.U64() % uint64(n))
}
func (r *Rand) Bool() bool        { return r.U64()&1 == 1 }
func (r *Rand) Chance(p int) bool { return r.Intn(100) < p } // p percent
func (r *Rand) Bytes(n int) []byte {
	b := make([]byte, n)
	for i := range b {
		b[i] = byte(r.U64())
	}
	return b
}

// Range returns a value in [lo, hi].
func (r *Rand) Range(lo, hi int) int { return lo + r.Intn(hi-lo+1) }

// Hex renders bytes as lower-case hex, "-" for empty (the model driver's convention).
func Hex(b []byte) string {
	if len(b) == 0 {
		return "-"
	}
	return hex.EncodeToString(b)
}

type Violation struct {
	Key    string `json:"key"`    // input class; matched against known_findings.json
	What   string `json:"what"`   // human-readable description
	Replay any    `json:"replay"` // concrete failing input
}

type Env struct {
	Prop   string
	Tier   string
	Seed   int64
	Out    string
	Replay string
	ops    *bufio.Writer
	impl   *bufio.Writer
	tags   *bufio.Writer
	files  []*os.File

	Evaluations int
	Distinct    map[string]struct{}
	Branches    map[string]int
	Samples     []any
	Violations  []Violation
	Rule        string
	Extra       map[string]any
	seenKeys    map[string]int
}

// Init parses the standard flags (-prop -tier -seed -out -replay); engines may register their
// own flags before calling it.
func Init() *Env {
	e := &Env{Distinct: map[string]struct{}{}, Branches: map[string]int{}, Extra: map[string]any{},
		seenKeys: map[string]int{}}
	flag.StringVar(&e.Prop, "prop", "", "property id")
	flag.StringVar(&e.Tier, "tier", "quick", "quick|thorough")
	flag.Int64Var(&e.Seed, "seed", 1, "seed")
	flag.StringVar(&e.Out, "out", ".", "output directory")
	flag.StringVar(&e.Replay, "replay", "", "replay file")
	flag.Parse()
	_ = os.MkdirAll(e.Out, 0o755)
	open := func(n string) *bufio.Writer {
		f, err := os.Create(filepath.Join(e.Out, n))
		if err != nil {
			panic(err)
		}
		e.files = append(e.files, f)
		return bufio.NewWriterSize(f, 1<<20)
	}
	e.ops, e.impl, e.tags = open("ops.txt"), open("impl.txt"), open("tags.txt")
	return e
}

// Thorough reports whether the thorough tier was requested.
func (e *Env) Thorough() bool { return e.Tier == "thorough" }

// N picks a case count by tier.
func (e *Env) N(quick, thorough int) int {
	if e.Thorough() {
		return thorough
	}
	return quick
}

// Op records one correspondence line: the op sent to the model driver, the implementation's
// canonical answer, and a branch tag ("~..." marks a trivial case, excluded from the distinct
// count).
func (e *Env) Op(op, impl, tag string) {
	op = strings.ReplaceAll(op, "\n", " ")
	impl = strings.ReplaceAll(impl, "\n", " ")
	fmt.Fprintln(e.ops, op)
	fmt.Fprintln(e.impl, impl)
	fmt.Fprintln(e.tags, tag)
	e.Evaluations++
}

// Case counts an evaluation that is not a model line (pure property-predicate cases).
func (e *Env) Case(fingerprint, tag string, trivial bool) {
	e.Evaluations++
	e.Branches[tag]++
	if !trivial {
		e.Distinct[fingerprint] = struct{}{}
	}
}

func (e *Env) Sample(s any) {
	if len(e.Samples) < 6 {
		e.Samples = append(e.Samples, s)
	}
}

// Violate records a violation of the PROPERTY ITSELF observed on the implementation.
// At most 5 per key are kept.
func (e *Env) Violate(key, what string, replay any) {
	e.seenKeys[key]++
	if e.seenKeys[key] > 5 {
		return
	}
	e.Violations = append(e.Violations, Violation{Key: key, What: what, Replay: replay})
}

// Safe runs f and converts a panic into the string "PANIC: ..." (ok=false).
func Safe(f func() string) (res string, ok bool) {
	defer func() {
		if r := recover(); r != nil {
			res = fmt.Sprintf("PANIC %v", r)
			_ = debug.Stack()
			ok = false
		}
	}()
	return f(), true
}

// Finish flushes the line files and writes stats.json.
func (e *Env) Finish() {
	e.ops.Flush()
	e.impl.Flush()
	e.tags.Flush()
	for _, f := range e.files {
		f.Close()
	}
	st := map[string]any{
		"evaluations": e.Evaluations,
		"rule":        e.Rule,
		"samples":     e.Samples,
		"violations":  e.Violations,
		"branches":    e.Branches,
		"extra":       e.Extra,
	}
	if len(e.Distinct) > 0 {
		st["distinct_nontrivial"] = len(e.Distinct)
	}
	if e.Violations == nil {
		st["violations"] = []Violation{}
	}
	b, _ := json.MarshalIndent(st, "", " ")
	if err := os.WriteFile(filepath.Join(e.Out, "stats.json"), b, 0o644); err != nil {
		panic(err)
	}
}
