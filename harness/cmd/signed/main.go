// Engine "signed" (C38): ties lean/Scion/Model/Signed.lean to pkg/scrypto/signed and evaluates
// the C38 property predicate (written from the statement) on the real Sign/Verify with real
// P-256/P-384/P-521 keys.
//
// Correspondence lines:
//
//	enc <kind> <algo> <keyid> <sec> <nanos> <meta> <adlen> <body> <ad>*
//	      -> ok <HeaderAndBody hex> <signature pre-image hex> | err
//	   impl: real Sign (HeaderAndBody of its result) and the real computeSignatureInput (hook)
//	ver <kind> <sigok> <hb> (O <hdr> <body> <unknown> (P <algo> <keyid> <sec> <nanos> <meta> <adlen> | E) | X) <ad>*
//	      -> ok <algo> <keyid> <sec> <nanos> <meta> <adlen> <body> | err
//	   impl: real Verify; the facts are what the two proto.Unmarshal calls of
//	   extractHeaderAndBody yield (real proto.Unmarshal / ExtractUnverifiedHeader) and "sigok" from
//	   an independent hash + ecdsa.VerifyASN1. The model decides canonicity, lengths, algorithm.
package main

import (
	"bytes"
	"crypto"
	"crypto/ecdsa"
	"crypto/ed25519"
	"crypto/elliptic"
	"crypto/sha256"
	"crypto/sha512"
	"encoding/asn1"
	"fmt"
	"math/big"
	"strings"
	"time"

	"google.golang.org/protobuf/encoding/protowire"
	"google.golang.org/protobuf/proto"
	"google.golang.org/protobuf/types/known/timestamppb"

	cryptopb "github.com/scionproto/scion/pkg/proto/crypto"
	"github.com/scionproto/scion/pkg/scrypto/signed"

	"verifharness/vlib"
)

var curves = []elliptic.Curve{elliptic.P256(), elliptic.P384(), elliptic.P521()}
var curveNames = []string{"P-256", "P-384", "P-521"}

// detKey derives a private key from the seeded PRNG (so that a case replays with the same key).
func detKey(c elliptic.Curve, r *vlib.Rand) *ecdsa.PrivateKey {
	n := (c.Params().BitSize + 7) / 8
	for {
		b := r.Bytes(n)
		if c.Params().BitSize%8 != 0 {
			b[0] &= byte(1<<(c.Params().BitSize%8)) - 1
		}
		k, err := ecdsa.ParseRawPrivateKey(c, b)
		if err == nil {
			return k
		}
	}
}

type hdrT struct {
	algo  int
	keyID []byte
	ts    time.Time
	meta  []byte
	adLen int
}

func (h hdrT) real() signed.Header {
	return signed.Header{SignatureAlgorithm: signed.SignatureAlgorithm(h.algo), VerificationKeyID: h.keyID,
		Timestamp: h.ts, Metadata: h.meta, AssociatedDataLength: h.adLen}
}

func hdrWords(algo int, keyID []byte, ts time.Time, meta []byte, adLen int, body []byte) string {
	return fmt.Sprintf("%d %s %d %d %s %d %s", algo, vlib.Hex(keyID), ts.Unix(), ts.Nanosecond(),
		vlib.Hex(meta), adLen, vlib.Hex(body))
}

func adWords(ad [][]byte) string {
	var sb strings.Builder
	for _, d := range ad {
		sb.WriteByte(' ')
		sb.WriteString(vlib.Hex(d))
	}
	return sb.String()
}

func hashFor(algo int, data []byte) []byte {
	switch algo {
	case 1:
		s := sha256.Sum256(data)
		return s[:]
	case 2:
		s := sha512.Sum384(data)
		return s[:]
	case 3:
		s := sha512.Sum512(data)
		return s[:]
	}
	return nil
}

func concat(xs ...[]byte) []byte {
	var out []byte
	for _, x := range xs {
		out = append(out, x...)
	}
	return out
}

func kindOf(key crypto.PublicKey) string {
	switch k := key.(type) {
	case nil:
		return "n"
	case *ecdsa.PublicKey:
		if k == nil {
			return "n"
		}
		return "e"
	default:
		return "o"
	}
}

type env struct {
	*vlib.Env
	r *vlib.Rand
}

// encOp: one Sign call against the model's encoder.
func (e *env) encOp(h hdrT, body []byte, signer crypto.Signer, ad [][]byte, tag string) *cryptopb.SignedMessage {
	kind := "n"
	if signer != nil {
		kind = kindOf(signer.Public())
	}
	op := "enc " + kind + " " + hdrWords(h.algo, h.keyID, h.ts, h.meta, h.adLen, body) + adWords(ad)
	var msg *cryptopb.SignedMessage
	ans, _ := vlib.Safe(func() string {
		m, err := signed.Sign(h.real(), body, signer, ad...)
		if err != nil {
			return "err"
		}
		msg = m
		// algorithm 0 is not in signatureAlgorithmDetails: the real function returns the raw
		// bytes it would otherwise hash
		pre, _ := signed.VerifComputeSignatureInput(signed.UnknownSignatureAlgorithm, m.HeaderAndBody, ad...)
		// statement-level cross check of the hashed branch
		dig, _ := signed.VerifComputeSignatureInput(signed.SignatureAlgorithm(h.algo), m.HeaderAndBody, ad...)
		if !bytes.Equal(dig, hashFor(h.algo, pre)) {
			e.Violate("C38/hash-input", "computeSignatureInput does not hash hdrAndBody||associated data",
				map[string]any{"op": op})
		}
		return "ok " + vlib.Hex(m.HeaderAndBody) + " " + vlib.Hex(pre)
	})
	e.Op(op, ans, tag)
	return msg
}

type verRes struct {
	ok  bool
	msg *signed.Message
}

// verOp: one Verify call against the model; returns whether the real code accepted.
func (e *env) verOp(m *cryptopb.SignedMessage, key crypto.PublicKey, ad [][]byte, tag string, asOp bool) verRes {
	var res verRes
	// Verify gets a private copy; the pristine message is used for the facts and to check that
	// verification does not modify its input
	orig := m
	m = &cryptopb.SignedMessage{HeaderAndBody: append([]byte(nil), orig.HeaderAndBody...),
		Signature: append([]byte(nil), orig.Signature...)}
	ans, _ := vlib.Safe(func() string {
		got, err := signed.Verify(m, key, ad...)
		if err != nil {
			return "err"
		}
		res = verRes{true, got}
		return "ok " + hdrWords(int(got.Header.SignatureAlgorithm), got.Header.VerificationKeyID,
			got.Header.Timestamp, got.Header.Metadata, got.Header.AssociatedDataLength, got.Body)
	})
	if !bytes.Equal(m.HeaderAndBody, orig.HeaderAndBody) || !bytes.Equal(m.Signature, orig.Signature) {
		e.Violate("C38/verify-modified-input", "Verify modified the bytes of the message it was given ("+tag+")",
			map[string]any{"hb_before": vlib.Hex(orig.HeaderAndBody), "hb_after": vlib.Hex(m.HeaderAndBody),
				"sig_before": vlib.Hex(orig.Signature), "sig_after": vlib.Hex(m.Signature), "ad": adWords(ad), "verify": ans})
	}
	m = orig
	if strings.HasPrefix(ans, "PANIC") {
		e.Violate("C38/panic", "Verify panicked: "+ans, map[string]any{"hb": vlib.Hex(m.HeaderAndBody),
			"sig": vlib.Hex(m.Signature), "ad": adWords(ad)})
	}
	if !asOp {
		e.Case(tag+"/"+vlib.Hex(m.HeaderAndBody)+"/"+vlib.Hex(m.Signature)+adWords(ad), tag, false)
		return res
	}
	// facts: what the two proto.Unmarshal calls of extractHeaderAndBody yield, and whether the
	// signature is valid for sha(hb || ad...) (independent of computeSignatureInput)
	facts := "X"
	sigok := 0
	var outer cryptopb.HeaderAndBody
	if err := proto.Unmarshal(m.HeaderAndBody, &outer); err == nil {
		facts = fmt.Sprintf("O %s %s %s ", vlib.Hex(outer.Header), vlib.Hex(outer.Body),
			vlib.Hex(outer.ProtoReflect().GetUnknown()))
		uh, err1 := signed.ExtractUnverifiedHeader(m)
		if err1 != nil {
			facts += "E"
		} else {
			facts += fmt.Sprintf("P %d %s %d %d %s %d", int(uh.SignatureAlgorithm), vlib.Hex(uh.VerificationKeyID),
				uh.Timestamp.Unix(), uh.Timestamp.Nanosecond(), vlib.Hex(uh.Metadata), uh.AssociatedDataLength)
			if pk, ok := key.(*ecdsa.PublicKey); ok && pk != nil {
				if dig := hashFor(int(uh.SignatureAlgorithm), concat(append([][]byte{m.HeaderAndBody}, ad...)...)); dig != nil {
					if ecdsa.VerifyASN1(pk, dig, m.Signature) {
						sigok = 1
					}
				}
			}
		}
	}
	op := fmt.Sprintf("ver %s %d %s %s%s", kindOf(key), sigok, vlib.Hex(m.HeaderAndBody), facts, adWords(ad))
	e.Op(op, ans, tag)
	return res
}

func randTime(r *vlib.Rand) time.Time {
	switch r.Intn(10) {
	case 0, 1, 2:
		return time.Time{}
	case 3:
		return time.Unix(0, 0)
	case 4:
		return time.Unix(int64(r.Intn(100)), 0)
	case 5:
		return time.Unix(-int64(r.Intn(1<<30)), int64(r.Intn(1000000000)))
	case 6:
		return time.Unix(int64(r.Intn(1<<31)), 999999999)
	case 7:
		return time.Unix(1<<33+int64(r.Intn(1<<20)), int64(r.Intn(128)))
	default:
		return time.Unix(1700000000+int64(r.Intn(1<<24)), int64(r.Intn(1000000000)))
	}
}

func randBytes(r *vlib.Rand, maxLen int) []byte {
	switch r.Intn(8) {
	case 0:
		return nil
	case 1:
		return r.Bytes(1)
	case 2:
		return r.Bytes(127 + r.Intn(3)) // varint length boundary 127/128
	}
	return r.Bytes(r.Intn(maxLen + 1))
}

func randAD(r *vlib.Rand) [][]byte {
	n := r.Intn(5)
	ad := make([][]byte, 0, n)
	for i := 0; i < n; i++ {
		ad = append(ad, randBytes(r, 40))
	}
	return ad
}

func adLen(ad [][]byte) int {
	n := 0
	for _, d := range ad {
		n += len(d)
	}
	return n
}

// resplit cuts the concatenation of ad differently.
func resplit(r *vlib.Rand, ad [][]byte) [][]byte {
	all := concat(ad...)
	var out [][]byte
	for len(all) > 0 {
		k := 1 + r.Intn(len(all))
		out = append(out, all[:k])
		all = all[k:]
		if r.Chance(20) {
			out = append(out, nil)
		}
	}
	if r.Chance(30) {
		out = append([][]byte{{}}, out...)
	}
	return out
}

type ecdsaSig struct{ R, S *big.Int }

// negateS turns the DER signature (r, s) into (r, n-s).
func negateS(c elliptic.Curve, sig []byte) []byte {
	var s ecdsaSig
	if _, err := asn1.Unmarshal(sig, &s); err != nil {
		return nil
	}
	s.S = new(big.Int).Sub(c.Params().N, s.S)
	out, err := asn1.Marshal(s)
	if err != nil {
		return nil
	}
	return out
}

func isNegation(c elliptic.Curve, a, b []byte) bool {
	var x, y ecdsaSig
	if _, err := asn1.Unmarshal(a, &x); err != nil {
		return false
	}
	if _, err := asn1.Unmarshal(b, &y); err != nil {
		return false
	}
	return x.R.Cmp(y.R) == 0 && new(big.Int).Add(x.S, y.S).Cmp(c.Params().N) == 0
}

func rebuildHB(h hdrT, body []byte) []byte {
	var ts *timestamppb.Timestamp
	if !h.ts.IsZero() {
		ts = timestamppb.New(h.ts)
	}
	rawHdr, _ := proto.Marshal(&cryptopb.Header{
		SignatureAlgorithm: cryptopb.SignatureAlgorithm(h.algo), VerificationKeyId: h.keyID,
		Timestamp: ts, Metadata: h.meta, AssociatedDataLength: int32(h.adLen)})
	hb, _ := proto.Marshal(&cryptopb.HeaderAndBody{Header: rawHdr, Body: body})
	return hb
}

// swapFields re-encodes a canonical HeaderAndBody with the body field before the header field
// (nil if one of them is absent): same length, same parsed content, different bytes.
func swapFields(hb []byte) []byte {
	var outer cryptopb.HeaderAndBody
	if proto.Unmarshal(hb, &outer) != nil || len(outer.Header) == 0 || len(outer.Body) == 0 {
		return nil
	}
	out := protowire.AppendTag(nil, 2, protowire.BytesType)
	out = protowire.AppendBytes(out, outer.Body)
	out = protowire.AppendTag(out, 1, protowire.BytesType)
	out = protowire.AppendBytes(out, outer.Header)
	if len(out) != len(hb) || bytes.Equal(out, hb) {
		return nil
	}
	return out
}

func sameHeader(got *signed.Message, h hdrT, body []byte) bool {
	return int(got.Header.SignatureAlgorithm) == h.algo && bytes.Equal(got.Header.VerificationKeyID, h.keyID) &&
		got.Header.Timestamp.Equal(h.ts) && bytes.Equal(got.Header.Metadata, h.meta) &&
		got.Header.AssociatedDataLength == h.adLen && bytes.Equal(got.Body, body)
}

func main() {
	e0 := vlib.Init()
	e := &env{Env: e0, r: vlib.NewRand(uint64(e0.Seed))}
	e.Rule = "seeded P-256/384/521 keys; random headers (all algorithms incl. unknown, timestamps zero/epoch/" +
		"negative/ns boundary, key id, metadata), bodies 0..200 B, associated data lists 0..4 slices; every " +
		"message is signed by the real Sign and verified by the real Verify untouched, with the associated data " +
		"re-split, and after one mutation (byte of header/body/AD/signature, AD grown/shrunk, message/AD boundary " +
		"moved, (r,n-s), other key/curve/key type, other algorithm); distinct = distinct op lines"
	nMsgs := e.N(260, 900)
	perRegion := e.N(6, 24)
	for i := 0; i < nMsgs; i++ {
		e.oneMessage(i, perRegion)
	}
	e.malformedEnc(e.N(600, 6000))
	if e.Thorough() {
		e.exhaustive(1)
	} else {
		e.exhaustive(0)
	}
	e.Finish()
}

// malformedEnc: Sign calls that must fail or that stress the encoder.
func (e *env) malformedEnc(n int) {
	r := e.r
	ed := ed25519.NewKeyFromSeed(r.Bytes(32))
	for i := 0; i < n; i++ {
		ci := r.Intn(3)
		key := detKey(curves[ci], r)
		ad := randAD(r)
		h := hdrT{algo: 1 + r.Intn(3), keyID: randBytes(r, 40), ts: randTime(r), meta: randBytes(r, 20), adLen: adLen(ad)}
		body := randBytes(r, 60)
		tag := "enc/ok"
		var signer crypto.Signer = key
		switch r.Intn(8) {
		case 0:
			h.algo = []int{0, 4, 5, 7, 255, 1 << 16}[r.Intn(6)]
			tag = "enc/unknown-algo"
		case 1:
			h.adLen += []int{1, -1, 256, -h.adLen - 1, 1 << 31, 1 << 32}[r.Intn(6)]
			tag = "enc/adlen-mismatch"
		case 2:
			signer = ed
			tag = "enc/other-key-type"
		case 3:
			signer = nil
			tag = "~enc/nil-signer"
		}
		msg := e.encOp(h, body, signer, ad, tag)
		// a request with an algorithm inconsistent with the key must not yield a message that verifies
		if msg != nil && signer != nil && (tag == "enc/unknown-algo" || tag == "enc/other-key-type") {
			if _, err := signed.Verify(msg, signer.Public(), ad...); err == nil {
				e.Violate("C38/accepted-inconsistent-algo", "message with an algorithm inconsistent with the key was signed and verifies",
					map[string]any{"algo": h.algo, "key_kind": kindOf(signer.Public()), "hb": vlib.Hex(msg.HeaderAndBody),
						"sig": vlib.Hex(msg.Signature), "ad": adWords(ad)})
			}
		}
		if msg != nil && tag == "enc/adlen-mismatch" {
			e.Violate("C38/signed-adlen-mismatch", "Sign accepted a header whose associated data length differs from the data",
				map[string]any{"ad_len": h.adLen, "ad": adWords(ad), "hb": vlib.Hex(msg.HeaderAndBody)})
		}
	}
}

func (e *env) oneMessage(i int, perRegion int) {
	r := e.r
	ci := i % 3
	c := curves[ci]
	key := detKey(c, r)
	other := detKey(c, r)
	otherCurve := detKey(curves[(ci+1+r.Intn(2))%3], r)
	ad := randAD(r)
	h := hdrT{algo: ci + 1, keyID: randBytes(r, 40), ts: randTime(r), meta: randBytes(r, 20), adLen: adLen(ad)}
	if r.Chance(25) {
		h.algo = 1 + r.Intn(3) // hash not matching the curve: consistent by checkPubKeyAlgo
	}
	body := randBytes(r, 200)
	cn := curveNames[ci]
	msg := e.encOp(h, body, key, ad, "enc/ok/"+cn)
	if msg == nil {
		e.Violate("C38/sign-failed", "Sign rejected a well-formed request", map[string]any{"hdr": fmt.Sprint(h)})
		return
	}
	replay := func(what string, m *cryptopb.SignedMessage, ad2 [][]byte, extra map[string]any) map[string]any {
		d := map[string]any{"curve": cn, "priv_d": fmt.Sprintf("%x", key.D), "algo": h.algo,
			"key_id": vlib.Hex(h.keyID), "ts_unix": h.ts.Unix(), "ts_nanos": h.ts.Nanosecond(),
			"metadata": vlib.Hex(h.meta), "ad_len": h.adLen, "body": vlib.Hex(body), "ad": adWords(ad),
			"signed_hb": vlib.Hex(msg.HeaderAndBody), "signed_sig": vlib.Hex(msg.Signature),
			"mutation": what, "verified_hb": vlib.Hex(m.HeaderAndBody), "verified_sig": vlib.Hex(m.Signature),
			"verified_ad": adWords(ad2)}
		for k, v := range extra {
			d[k] = v
		}
		return d
	}
	// M0: untouched
	res := e.verOp(msg, key.Public(), ad, "ver/untouched/"+cn, true)
	if !res.ok {
		e.Violate("C38/untouched-rejected", "untouched message does not verify", replay("none", msg, ad, nil))
		return
	}
	if !sameHeader(res.msg, h, body) {
		e.Violate("C38/returned-not-signed", "Verify returned a header/body different from the signed one",
			replay("none", msg, ad, map[string]any{"returned": fmt.Sprintf("%+v", res.msg)}))
	}
	// M1: the same associated data cut differently is the same data
	if rs := resplit(r, ad); true {
		if !e.verOp(msg, key.Public(), rs, "ver/resplit", true).ok {
			e.Violate("C38/resplit-rejected", "same concatenated associated data, different split, rejected",
				replay("resplit", msg, rs, nil))
		}
	}
	must := func(what, tag string, m *cryptopb.SignedMessage, k crypto.PublicKey, ad2 [][]byte, asOp bool) {
		res := e.verOp(m, k, ad2, tag, asOp)
		if !res.ok {
			return
		}
		vk := "C38/accepted-" + strings.SplitN(what, " ", 2)[0]
		e.Violate(vk, "mutated message verifies: "+what, replay(what, m, ad2,
			map[string]any{"returned": fmt.Sprintf("%+v", res.msg)}))
	}
	clone := func() *cryptopb.SignedMessage {
		return &cryptopb.SignedMessage{HeaderAndBody: append([]byte(nil), msg.HeaderAndBody...),
			Signature: append([]byte(nil), msg.Signature...)}
	}
	// M2: bytes of HeaderAndBody (header and body regions)
	for k := 0; k < 2*perRegion; k++ {
		m := clone()
		p := r.Intn(len(m.HeaderAndBody))
		x := byte(1 << r.Intn(8))
		if r.Bool() {
			x = byte(1 + r.Intn(255))
		}
		m.HeaderAndBody[p] ^= x
		must(fmt.Sprintf("hb-byte pos=%d xor=%#x", p, x), "ver/mut-hb", m, key.Public(), ad, true)
	}
	// M3: associated data
	for k := 0; k < perRegion && adLen(ad) > 0; k++ {
		all := concat(ad...)
		p := r.Intn(len(all))
		all[p] ^= byte(1 + r.Intn(255))
		must(fmt.Sprintf("ad-byte pos=%d", p), "ver/mut-ad", msg, key.Public(), [][]byte{all}, true)
	}
	{
		all := concat(ad...)
		must("ad-grow by one byte", "ver/mut-ad-grow", msg, key.Public(), [][]byte{all, {byte(r.Intn(256))}}, true)
		if len(all) > 0 {
			must("ad-shrink by one byte", "ver/mut-ad-shrink", msg, key.Public(), [][]byte{all[:len(all)-1]}, true)
			must("ad-dropped entirely", "ver/mut-ad-drop", msg, key.Public(), nil, true)
			// boundary moved: same concatenation hb||ad, cut elsewhere
			k := 1 + r.Intn(len(all))
			m := clone()
			m.HeaderAndBody = append(m.HeaderAndBody, all[:k]...)
			must(fmt.Sprintf("boundary-shift %d AD bytes into the message", k), "ver/mut-boundary", m, key.Public(),
				[][]byte{all[k:]}, true)
		}
		k := 1 + r.Intn(len(msg.HeaderAndBody)-1)
		m := clone()
		cut := len(m.HeaderAndBody) - k
		tail := append([]byte(nil), m.HeaderAndBody[cut:]...)
		m.HeaderAndBody = m.HeaderAndBody[:cut]
		must(fmt.Sprintf("boundary-shift %d message bytes into the AD", k), "ver/mut-boundary", m, key.Public(),
			[][]byte{tail, all}, true)
	}
	// M4: signature
	for k := 0; k < perRegion; k++ {
		m := clone()
		p := r.Intn(len(m.Signature))
		m.Signature[p] ^= byte(1 + r.Intn(255))
		must(fmt.Sprintf("sig-byte pos=%d", p), "ver/mut-sig", m, key.Public(), ad, true)
	}
	{
		m := clone()
		m.Signature = append(m.Signature, 0)
		must("sig-grow trailing byte", "ver/mut-sig-len", m, key.Public(), ad, true)
		m = clone()
		m.Signature = m.Signature[:len(m.Signature)-1]
		must("sig-shrink", "ver/mut-sig-len", m, key.Public(), ad, true)
		m = clone()
		m.Signature = nil
		must("sig-empty", "ver/mut-sig-len", m, key.Public(), ad, true)
	}
	if neg := negateS(c, msg.Signature); neg != nil && !bytes.Equal(neg, msg.Signature) {
		m := clone()
		m.Signature = neg
		res := e.verOp(m, key.Public(), ad, "ver/sig-negated-s", true)
		if res.ok {
			e.Violate("C38/ecdsa-s-negation", "signature (r,s) replaced by (r,n-s): a different signature verifies ("+cn+")",
				replay("sig (r,s)->(r,n-s)", m, ad, nil))
		}
	}
	// M5: keys
	must("key-other same curve", "ver/key-other", msg, other.Public(), ad, true)
	must("key-other curve", "ver/key-other-curve", msg, otherCurve.Public(), ad, true)
	if i%7 == 0 {
		must("keytype-ed25519", "ver/key-type", msg, ed25519.NewKeyFromSeed(r.Bytes(32)).Public(), ad, true)
		must("keytype-nil", "~ver/key-nil", msg, nil, ad, true)
		must("keytype-value-not-pointer", "ver/key-type", msg, *key.Public().(*ecdsa.PublicKey), ad, true)
	}
	// M6: algorithm
	for _, a := range []int{0, 1, 2, 3, 4, 1 << 16} {
		if a == h.algo {
			continue
		}
		h2 := h
		h2.algo = a
		m := clone()
		m.HeaderAndBody = rebuildHB(h2, body)
		must(fmt.Sprintf("algo-swap %d->%d", h.algo, a), "ver/algo-swap", m, key.Public(), ad, true)
	}
	// header fields re-encoded (not only byte flips)
	{
		h2 := h
		h2.meta = append(append([]byte(nil), h.meta...), 1)
		m := clone()
		m.HeaderAndBody = rebuildHB(h2, body)
		must("hdr-metadata changed", "ver/mut-hdr-field", m, key.Public(), ad, true)
		h2 = h
		h2.ts = h.ts.Add(time.Nanosecond)
		m = clone()
		m.HeaderAndBody = rebuildHB(h2, body)
		must("hdr-timestamp changed", "ver/mut-hdr-field", m, key.Public(), ad, true)
		m = clone()
		m.HeaderAndBody = rebuildHB(h, append(append([]byte(nil), body...), 0))
		must("body-grown", "ver/mut-body", m, key.Public(), ad, true)
	}
	// length-preserving re-encoding: the same header and body, fields of HeaderAndBody in the opposite order
	if sw := swapFields(msg.HeaderAndBody); sw != nil {
		m := clone()
		m.HeaderAndBody = sw
		must("hb-reencoded fields of HeaderAndBody swapped (same length, same parsed content)", "ver/hb-reencoded", m, key.Public(), ad, true)
	}
	// crafted boundary shift: associated data that starts with encoded HeaderAndBody fields (a second
	// `header` field whose associated_data_length matches what remains, optionally preceded by a second
	// `body` field or an unknown field); what remains may be empty
	if i%4 == 0 {
		tail := r.Bytes(r.Intn(30))
		if r.Chance(30) {
			tail = nil
		}
		hX := h
		hX.meta = []byte("swapped")
		hX.adLen = len(tail)
		rawHX, _ := proto.Marshal(&cryptopb.Header{SignatureAlgorithm: cryptopb.SignatureAlgorithm(hX.algo),
			VerificationKeyId: hX.keyID, Metadata: hX.meta, AssociatedDataLength: int32(hX.adLen)})
		x, _ := proto.Marshal(&cryptopb.HeaderAndBody{Header: rawHX})
		variant := "header"
		switch r.Intn(4) {
		case 1: // body field first
			b2, _ := proto.Marshal(&cryptopb.HeaderAndBody{Body: []byte("other body")})
			x = concat(b2, x)
			variant = "body+header"
		case 2: // unknown field (number 7, varint) first
			x = concat([]byte{0x38, 0x01}, x)
			variant = "unknown+header"
		}
		ad2 := [][]byte{x, tail}
		h3 := h
		h3.adLen = len(x) + len(tail)
		m3 := e.encOp(h3, body, key, ad2, "enc/ok/crafted-ad")
		if m3 != nil {
			forged := &cryptopb.SignedMessage{HeaderAndBody: concat(m3.HeaderAndBody, x), Signature: m3.Signature}
			tag := "ver/boundary-crafted/" + variant
			if len(tail) == 0 {
				tag += "/empty-rest"
			}
			res := e.verOp(forged, key.Public(), [][]byte{tail}, tag, true)
			if res.ok {
				d := replay("the leading "+fmt.Sprint(len(x))+" bytes of the associated data (encoded HeaderAndBody fields: "+variant+") moved to the end of HeaderAndBody",
					forged, [][]byte{tail}, map[string]any{"returned": fmt.Sprintf("%+v", res.msg)})
				d["ad"] = adWords(ad2)
				d["ad_len"] = h3.adLen
				d["signed_hb"] = vlib.Hex(m3.HeaderAndBody)
				d["signed_sig"] = vlib.Hex(m3.Signature)
				e.Violate("C38/noncanonical-boundary-shift",
					"bytes moved from the associated data into HeaderAndBody: same signature verifies and Verify returns a header that was never signed",
					d)
			}
		}
	}
	if i < 3 {
		e.Sample(map[string]any{"curve": cn, "hb": vlib.Hex(msg.HeaderAndBody), "ad": adWords(ad)})
	}
}

// exhaustive: every byte position of HeaderAndBody, associated data and signature; quick: every
// position x all 8 single-bit flips for one small message per curve; thorough: additionally all 255
// byte values for `full` further messages per curve.
func (e *env) exhaustive(full int) {
	r := e.r
	for ci, c := range curves {
		for mi := 0; mi < 1+full; mi++ {
			key := detKey(c, r)
			ad := [][]byte{r.Bytes(3 + r.Intn(6)), r.Bytes(2 + r.Intn(5))}
			h := hdrT{algo: ci + 1, keyID: r.Bytes(4 + r.Intn(8)), ts: time.Unix(1700000000+int64(r.Intn(1000)), int64(r.Intn(1e9))),
				meta: r.Bytes(r.Intn(4)), adLen: adLen(ad)}
			body := r.Bytes(8 + r.Intn(24))
			msg, err := signed.Sign(h.real(), body, key, ad...)
			if err != nil {
				e.Violate("C38/sign-failed", "Sign rejected a well-formed request", map[string]any{"hdr": fmt.Sprint(h)})
				continue
			}
			all := concat(ad...)
			vals := []byte{1, 2, 4, 8, 16, 32, 64, 128}
			if mi > 0 {
				vals = vals[:0]
				for v := 1; v < 256; v++ {
					vals = append(vals, byte(v))
				}
			}
			try := func(region string, pos int, x byte, m *cryptopb.SignedMessage, ad2 [][]byte) {
				tag := "exh/" + region + "/" + curveNames[ci]
				got, err := signed.Verify(m, key.Public(), ad2...)
				e.Case(fmt.Sprintf("%s/%d/%d/%d/%d", tag, mi, pos, x, e.Seed), tag, false)
				if err != nil {
					return
				}
				k := "C38/accepted-" + region + "-byte"
				if region == "sig" && isNegation(c, msg.Signature, m.Signature) {
					k = "C38/ecdsa-s-negation"
				}
				e.Violate(k, fmt.Sprintf("single-byte mutation of %s at %d (xor %#x) verifies", region, pos, x),
					map[string]any{"curve": curveNames[ci], "priv_d": fmt.Sprintf("%x", key.D),
						"signed_hb": vlib.Hex(msg.HeaderAndBody), "signed_sig": vlib.Hex(msg.Signature), "ad": adWords(ad),
						"verified_hb": vlib.Hex(m.HeaderAndBody), "verified_sig": vlib.Hex(m.Signature),
						"verified_ad": adWords(ad2), "returned": fmt.Sprintf("%+v", got)})
			}
			for p := range msg.HeaderAndBody {
				for _, x := range vals {
					m := &cryptopb.SignedMessage{HeaderAndBody: append([]byte(nil), msg.HeaderAndBody...), Signature: msg.Signature}
					m.HeaderAndBody[p] ^= x
					try("hb", p, x, m, ad)
				}
			}
			for p := range all {
				for _, x := range vals {
					a2 := append([]byte(nil), all...)
					a2[p] ^= x
					try("ad", p, x, msg, [][]byte{a2})
				}
			}
			for p := range msg.Signature {
				for _, x := range vals {
					m := &cryptopb.SignedMessage{HeaderAndBody: msg.HeaderAndBody, Signature: append([]byte(nil), msg.Signature...)}
					m.Signature[p] ^= x
					try("sig", p, x, m, ad)
				}
			}
		}
	}
}
