package main

// Topology-aware packet builder for the border-router fast path (engine `router`).
// A scenario is a local AS configuration, a path of 1-3 segments in which the local AS holds one
// hop (two at a cross-over), and the way the packet reaches this router. Valid scenarios are
// built first; named mutators then perturb one aspect.

import (
	"encoding/binary"
	"fmt"
	"time"

	"github.com/scionproto/scion/pkg/scrypto"
	"github.com/scionproto/scion/pkg/slayers/path"

	"verifharness/vlib"
)

const (
	scInt = 0
	scSib = 1
	scExt = 2
	scNil = 3 // no link installed (only the link type table entry)

	ltUnset  = 0
	ltCore   = 1
	ltParent = 2
	ltChild  = 3
	ltPeer   = 4
)

var scopeName = []string{"int", "sib", "ext", "none"}

type ifaceCfg struct {
	id    uint16
	scope int
	lt    int
	up    bool
	link  int // identity of the link object: 0 internal, 1..9 sibling links, >= 10 external links
}

type asCfg struct {
	ia   uint64
	key  []byte
	ifs  []ifaceCfg
	svcs []uint16
}

func (c *asCfg) find(id uint16) *ifaceCfg {
	for i := range c.ifs {
		if c.ifs[i].id == id {
			return &c.ifs[i]
		}
	}
	return nil
}

type hopSpec struct {
	consIn, consEg   uint16
	exp              uint8
	key              []byte
	inAlert, egAlert bool
	mac              [6]byte
	rsv              byte // reserved bits of the flags byte (upper six)
}

type segSpec struct {
	consDir, peer bool
	ts            uint32
	beta0         uint16
	hops          []hopSpec // in construction order
	betas         []uint16  // betas[c] = accumulator the MAC of cons hop c was computed with
	segID         uint16    // value carried in the packet
	rsv0, rsv1    byte      // reserved bits of the info field
}

type scenario struct {
	kind     string
	cfg      asCfg
	segs     []segSpec
	local    int // travel index (global) of the local AS's (first) hop
	xover    bool
	postX    bool // arrival after the cross-over was done by the sibling ingress router
	currHF   int
	currINF  int
	metaRsv  byte
	srcIA    uint64
	dstIA    uint64
	srcType  byte
	dstType  byte
	srcHost  []byte
	dstHost  []byte
	tc       byte
	flow     uint32
	version  byte
	hbh      []byte // complete extension header bytes (nil: none); first byte patched with next hdr
	e2e      []byte
	l4proto  byte
	l4       []byte
	inLink   int    // link identity the packet arrives on
	inIfID   uint16 // IfID() of that link
	inScope  int
	pathType byte
	hdrLenD  int // delta on HdrLen (lines)
	payLenD  int // delta on PayloadLen
	now      time.Time
	// raw-level edits applied after serialisation
	post []func(raw []byte) []byte
	// expectation of the generator ("" = none): canonical disposition prefix
	expect string
	mut    string
}

func macOf(key []byte, segID uint16, ts uint32, h *hopSpec) [6]byte {
	m, err := scrypto.InitMac(key)
	if err != nil {
		panic(err)
	}
	return path.MAC(m, path.InfoField{SegID: segID, Timestamp: ts},
		path.HopField{ExpTime: h.exp, ConsIngress: h.consIn, ConsEgress: h.consEg}, nil)
}

// chain computes the MACs and accumulators of a segment (construction order).
func (s *segSpec) chain() {
	s.betas = make([]uint16, len(s.hops)+1)
	b := s.beta0
	for c := range s.hops {
		s.betas[c] = b
		s.hops[c].mac = macOf(s.hops[c].key, b, s.ts, &s.hops[c])
		if !(s.peer && c == 0) { // a peering hop does not advance the accumulator
			b ^= binary.BigEndian.Uint16(s.hops[c].mac[:2])
		}
	}
	s.betas[len(s.hops)] = b
}

// travel returns the construction index of the hop at travel position t of the segment.
func (s *segSpec) cons(t int) int {
	if s.consDir {
		return t
	}
	return len(s.hops) - 1 - t
}

// carried returns the SegID the packet carries when it reaches cons hop c.
func (s *segSpec) carried(c int, fromExternal bool) uint16 {
	if s.consDir || !fromExternal || (s.peer && c == 0) {
		return s.betas[c]
	}
	return s.betas[c+1]
}

func (sc *scenario) totalHops() int {
	n := 0
	for i := range sc.segs {
		n += len(sc.segs[i].hops)
	}
	return n
}

// locate maps a global travel index to (segment, travel position in segment).
func (sc *scenario) locate(g int) (int, int) {
	for i := range sc.segs {
		if g < len(sc.segs[i].hops) {
			return i, g
		}
		g -= len(sc.segs[i].hops)
	}
	return -1, -1
}

func (sc *scenario) hopAt(g int) (*segSpec, *hopSpec) {
	si, t := sc.locate(g)
	if si < 0 {
		return nil, nil
	}
	s := &sc.segs[si]
	return s, &s.hops[s.cons(t)]
}

func randKey(r *vlib.Rand) []byte { return r.Bytes(16) }

func randIfID(r *vlib.Rand, avoid map[uint16]bool) uint16 {
	for {
		var v uint16
		switch r.Intn(4) {
		case 0:
			v = uint16(r.Range(1, 8))
		case 1:
			v = uint16(r.Range(1, 300))
		default:
			v = uint16(r.Range(1, 65535))
		}
		if !avoid[v] {
			avoid[v] = true
			return v
		}
	}
}

var withinPairs = [][2]int{{ltCore, ltCore}, {ltChild, ltParent}, {ltParent, ltChild}, {ltChild, ltPeer}, {ltPeer, ltChild}}
var xoverPairs = [][2]int{{ltCore, ltChild}, {ltChild, ltCore}, {ltChild, ltChild}}

func otherIA(r *vlib.Rand, local uint64) uint64 {
	for {
		v := uint64(r.Range(1, 4))<<48 | uint64(0xff00)<<32 | uint64(r.Range(0x100, 0x140))
		if r.Chance(10) {
			v = r.U64()
		}
		if v != local && v != 0 {
			return v
		}
	}
}

// baseScenario builds a valid scenario of a random shape.
func baseScenario(r *vlib.Rand, now time.Time) *scenario {
	sc := &scenario{now: now, pathType: 1}
	sc.cfg.ia = uint64(r.Range(1, 4))<<48 | uint64(0xff00)<<32 | uint64(r.Range(0x100, 0x140))
	sc.cfg.key = randKey(r)
	// shape
	nseg := r.Range(1, 3)
	peer := false
	if nseg == 2 && r.Chance(30) {
		peer = true
	}
	used := map[uint16]bool{}
	for i := 0; i < nseg; i++ {
		n := r.Range(2, 4)
		if r.Chance(10) {
			n = r.Range(2, 9)
		}
		if peer && r.Chance(25) {
			n = 1
		}
		s := segSpec{consDir: r.Bool(), peer: peer, beta0: uint16(r.U64())}
		if r.Chance(70) { // the usual orientation: up segment against, down segment along
			s.consDir = i == nseg-1 && nseg > 1 || (nseg == 1 && r.Bool())
			if nseg == 3 && i == 1 {
				s.consDir = r.Bool()
			}
		}
		if peer {
			s.consDir = i == 1
		}
		for c := 0; c < n; c++ {
			h := hopSpec{consIn: uint16(r.Range(1, 65535)), consEg: uint16(r.Range(1, 65535)),
				exp: uint8(r.Range(0, 255)), key: randKey(r)}
			if r.Chance(50) {
				h.exp = 63
			}
			s.hops = append(s.hops, h)
		}
		s.hops[0].consIn = 0
		s.hops[n-1].consEg = 0
		sc.segs = append(sc.segs, s)
	}
	if peer {
		// the peering hops are cons hop 0 of both segments; they carry the peering interface
		sc.segs[0].hops[0].consIn = uint16(r.Range(1, 65535))
		sc.segs[1].hops[0].consIn = uint16(r.Range(1, 65535))
		if len(sc.segs[0].hops) == 1 {
			sc.segs[0].hops[0].consEg = 0
		}
	}
	total := sc.totalHops()
	// position of the local AS
	L := r.Intn(total)
	switch r.Intn(6) {
	case 0:
		L = 0
	case 1:
		L = total - 1
	case 2:
		if nseg > 1 { // a segment boundary
			L = len(sc.segs[0].hops) - 1
			if nseg == 3 && r.Bool() {
				L += len(sc.segs[1].hops)
			}
		}
	}
	si, t := sc.locate(L)
	seg := &sc.segs[si]
	atBoundary := t == len(seg.hops)-1 && si+1 < nseg
	sc.local = L
	sc.currHF, sc.currINF = L, si
	isFirst, isLast := L == 0, L == total-1
	sc.xover = atBoundary && !peer
	if si > 0 && t == 0 && !peer {
		// first hop after a cross-over can only be reached via the hop before: move there
		L--
		sc.local = L
		si, t = sc.locate(L)
		seg = &sc.segs[si]
		sc.currHF, sc.currINF = L, si
		sc.xover = true
		isFirst = L == 0
		isLast = false
	}
	// interfaces of the local AS
	var inID, egID uint16
	if !isFirst {
		inID = randIfID(r, used)
	}
	if !isLast {
		egID = randIfID(r, used)
	}
	var pair [2]int
	if sc.xover {
		pair = xoverPairs[r.Intn(len(xoverPairs))]
	} else {
		pair = withinPairs[r.Intn(len(withinPairs))]
		if peer {
			if t == len(seg.hops)-1 && si == 0 {
				pair = [2]int{ltChild, ltPeer}
			} else if si == 1 && t == 0 {
				pair = [2]int{ltPeer, ltChild}
			} else if si == 0 {
				pair = [2]int{ltChild, ltParent}
			} else {
				pair = [2]int{ltParent, ltChild}
			}
		}
	}
	sc.cfg.ifs = append(sc.cfg.ifs, ifaceCfg{id: 0, scope: scInt, lt: ltUnset, up: true, link: 0})
	// ingress side
	sc.inLink, sc.inIfID, sc.inScope = 0, 0, scInt
	inSibling := false
	if !isFirst {
		if r.Chance(25) && !isLast {
			// the interface belongs to a sibling router: the packet comes over the sibling link
			sib := r.Range(1, 2)
			sc.cfg.ifs = append(sc.cfg.ifs, ifaceCfg{id: inID, scope: scSib, lt: pair[0], up: true, link: sib})
			sc.inLink, sc.inIfID, sc.inScope = sib, 0, scSib
			inSibling = true
		} else {
			sc.cfg.ifs = append(sc.cfg.ifs, ifaceCfg{id: inID, scope: scExt, lt: pair[0], up: true, link: 10})
			sc.inLink, sc.inIfID, sc.inScope = 10, inID, scExt
		}
	}
	if !isLast {
		if !isFirst && !inSibling && r.Chance(30) {
			sib := r.Range(1, 2)
			sc.cfg.ifs = append(sc.cfg.ifs, ifaceCfg{id: egID, scope: scSib, lt: pair[1], up: true, link: sib})
		} else {
			sc.cfg.ifs = append(sc.cfg.ifs, ifaceCfg{id: egID, scope: scExt, lt: pair[1], up: true, link: 11})
		}
	}
	// decoys
	for k := r.Intn(4); k > 0; k-- {
		id := randIfID(r, used)
		d := ifaceCfg{id: id, lt: r.Range(0, 4), up: r.Chance(70)}
		if r.Bool() {
			d.scope, d.link = scExt, 12+k
		} else {
			d.scope, d.link = scSib, r.Range(1, 2)
		}
		sc.cfg.ifs = append(sc.cfg.ifs, d)
	}
	if r.Chance(70) {
		sc.cfg.svcs = append(sc.cfg.svcs, 2)
	}
	if r.Chance(40) {
		sc.cfg.svcs = append(sc.cfg.svcs, 1)
	}
	// the local hop field(s)
	setTravel := func(s *segSpec, h *hopSpec, tin, teg uint16) {
		if s.consDir {
			h.consIn, h.consEg = tin, teg
		} else {
			h.consIn, h.consEg = teg, tin
		}
		h.key = sc.cfg.key
	}
	if sc.xover {
		h0 := &seg.hops[seg.cons(t)]
		unused0 := uint16(0)
		if r.Chance(50) {
			unused0 = uint16(r.Range(1, 65535))
		}
		setTravel(seg, h0, inID, unused0)
		s2 := &sc.segs[si+1]
		h1 := &s2.hops[s2.cons(0)]
		unused1 := uint16(0)
		if r.Chance(50) {
			unused1 = uint16(r.Range(1, 65535))
		}
		setTravel(s2, h1, unused1, egID)
		if inSibling {
			// the sibling ingress router already did the cross-over
			sc.postX = true
			sc.currHF, sc.currINF = L+1, si+1
		}
	} else {
		setTravel(seg, &seg.hops[seg.cons(t)], inID, egID)
	}
	// timestamps: every hop valid for at least 3 more seconds
	for i := range sc.segs {
		s := &sc.segs[i]
		minLife := int64(1 << 40)
		for c := range s.hops {
			if l := (int64(s.hops[c].exp) + 1) * 3375 / 10; l < minLife {
				minLife = l
			}
		}
		age := int64(0)
		if minLife > 5 {
			age = int64(r.Intn(int(minLife - 4)))
		}
		s.ts = uint32(now.Unix() - age)
		s.rsv0, s.rsv1 = 0, 0
	}
	sc.rechain()
	// addresses
	sc.srcIA, sc.dstIA = otherIA(r, sc.cfg.ia), otherIA(r, sc.cfg.ia)
	if isFirst {
		sc.srcIA = sc.cfg.ia
	}
	if isLast {
		sc.dstIA = sc.cfg.ia
	}
	sc.srcType, sc.srcHost = 0, []byte{10, 0, byte(r.Intn(256)), byte(r.Range(1, 254))}
	if r.Chance(25) {
		sc.srcType, sc.srcHost = 3, append([]byte{0x20, 0x01, 0x0d, 0xb8}, r.Bytes(12)...)
	}
	sc.dstType, sc.dstHost = 0, []byte{10, 1, byte(r.Intn(256)), byte(r.Range(1, 254))}
	switch r.Intn(6) {
	case 0:
		sc.dstType, sc.dstHost = 3, append([]byte{0x20, 0x01, 0x0d, 0xb8}, r.Bytes(12)...)
	case 1:
		svc := []uint16{1, 2, 0x8002, 0x8001, 0x10, 2, 2}[r.Intn(7)]
		sc.dstType, sc.dstHost = 4, []byte{byte(svc >> 8), byte(svc), 0, 0}
	}
	sc.tc, sc.flow = byte(r.U64()), uint32(r.U64())&0xFFFFF
	// extensions and L4
	if r.Chance(25) {
		n := r.Range(0, 3)
		sc.hbh = append([]byte{0, byte(n)}, r.Bytes(2+4*n)...)
	}
	if r.Chance(25) {
		n := r.Range(0, 3)
		sc.e2e = append([]byte{0, byte(n)}, r.Bytes(2+4*n)...)
	}
	switch r.Intn(8) {
	case 0, 1, 2, 3:
		sc.l4proto = 17
		sc.l4 = append(be16(uint16(r.U64())), be16(uint16(r.U64()))...)
		pl := r.Bytes(r.Intn(40))
		sc.l4 = append(sc.l4, be16(uint16(8+len(pl)))...)
		sc.l4 = append(sc.l4, 0, 0)
		sc.l4 = append(sc.l4, pl...)
	case 4:
		sc.l4proto = 6
		sc.l4 = r.Bytes(20 + r.Intn(20))
	case 5:
		sc.l4proto = 202
		typ := []byte{128, 129, 130, 131}[r.Intn(4)]
		body := r.Bytes(4 + r.Intn(8))
		if typ >= 130 {
			body = r.Bytes(20)
		}
		sc.l4 = append([]byte{typ, 0, byte(r.U64()), byte(r.U64())}, body...)
	case 6:
		sc.l4proto = byte([]int{0, 1, 99, 253, 254, 204}[r.Intn(6)])
		sc.l4 = r.Bytes(r.Intn(30))
	case 7:
		sc.l4proto = 17
		sc.l4 = r.Bytes(8 + r.Intn(1200))
	}
	sc.kind = fmt.Sprintf("s%d", nseg)
	switch {
	case peer:
		sc.kind += "p"
	}
	switch {
	case isFirst:
		sc.kind += "/src"
	case isLast:
		sc.kind += "/dst"
	case sc.postX:
		sc.kind += "/postx"
	case sc.xover:
		sc.kind += "/xover"
	case atBoundary:
		sc.kind += "/peerout"
	case peer && si == 1 && t == 0:
		sc.kind += "/peerin"
	default:
		sc.kind += "/transit"
	}
	sc.kind += "/" + scopeName[sc.inScope]
	return sc
}

// rechain recomputes MACs/accumulators of every segment and the carried SegIDs for the position
// of the local AS.
func (sc *scenario) rechain() {
	for i := range sc.segs {
		sc.segs[i].chain()
	}
	si, t := sc.locate(sc.local)
	for i := range sc.segs {
		s := &sc.segs[i]
		switch {
		case i < si: // already traversed: value after the last hop
			if s.consDir {
				s.segID = s.betas[len(s.hops)]
			} else {
				s.segID = s.betas[0]
			}
		case i == si:
			s.segID = s.carried(s.cons(t), sc.inScope == scExt)
		default: // not yet started
			s.segID = s.betas[s.cons(0)]
		}
	}
	if sc.postX && si+1 < len(sc.segs) {
		// current segment is the next one; the previous one was completed by the ingress router
		p := &sc.segs[si]
		p.segID = p.betas[p.cons(t)]
	}
}

func be16(v uint16) []byte { return []byte{byte(v >> 8), byte(v)} }

func be64(v uint64) []byte {
	b := make([]byte, 8)
	binary.BigEndian.PutUint64(b, v)
	return b
}

// serialize renders the packet.
func (sc *scenario) serialize() []byte {
	var pth []byte
	var segLen [3]int
	for i := range sc.segs {
		segLen[i] = len(sc.segs[i].hops)
	}
	line := uint32(sc.currINF&3)<<30 | uint32(sc.currHF&63)<<24 | uint32(sc.metaRsv&63)<<18 |
		uint32(segLen[0]&63)<<12 | uint32(segLen[1]&63)<<6 | uint32(segLen[2]&63)
	pth = binary.BigEndian.AppendUint32(pth, line)
	for i := range sc.segs {
		s := &sc.segs[i]
		b0 := s.rsv0 << 2
		if s.consDir {
			b0 |= 1
		}
		if s.peer {
			b0 |= 2
		}
		pth = append(pth, b0, s.rsv1)
		pth = append(pth, be16(s.segID)...)
		pth = binary.BigEndian.AppendUint32(pth, s.ts)
	}
	for i := range sc.segs {
		s := &sc.segs[i]
		for t := range s.hops {
			h := &s.hops[s.cons(t)]
			b0 := h.rsv << 2
			if h.egAlert {
				b0 |= 1
			}
			if h.inAlert {
				b0 |= 2
			}
			pth = append(pth, b0, h.exp)
			pth = append(pth, be16(h.consIn)...)
			pth = append(pth, be16(h.consEg)...)
			pth = append(pth, h.mac[:]...)
		}
	}
	var pld []byte
	next := sc.l4proto
	if sc.e2e != nil {
		e := append([]byte(nil), sc.e2e...)
		e[0] = next
		pld = append(e, sc.l4...)
		next = 201
	} else {
		pld = append([]byte(nil), sc.l4...)
	}
	if sc.hbh != nil {
		h := append([]byte(nil), sc.hbh...)
		h[0] = next
		pld = append(h, pld...)
		next = 200
	}
	hdrBytes := 12 + 16 + len(sc.dstHost) + len(sc.srcHost) + len(pth)
	raw := make([]byte, 0, hdrBytes+len(pld))
	first := uint32(sc.version&0xF)<<28 | uint32(sc.tc)<<20 | sc.flow&0xFFFFF
	raw = binary.BigEndian.AppendUint32(raw, first)
	raw = append(raw, next, byte(hdrBytes/4+sc.hdrLenD))
	raw = append(raw, be16(uint16(len(pld)+sc.payLenD))...)
	raw = append(raw, sc.pathType, sc.dstType<<4|sc.srcType&0xF, 0, 0)
	raw = append(raw, be64(sc.dstIA)...)
	raw = append(raw, be64(sc.srcIA)...)
	raw = append(raw, sc.dstHost...)
	raw = append(raw, sc.srcHost...)
	raw = append(raw, pth...)
	raw = append(raw, pld...)
	for _, f := range sc.post {
		raw = f(raw)
	}
	return raw
}

// pathOffset is the offset of the path meta header in the serialised packet.
func (sc *scenario) pathOffset() int { return 12 + 16 + len(sc.dstHost) + len(sc.srcHost) }

func (sc *scenario) numINF() int { return len(sc.segs) }

func (sc *scenario) hopOffset(g int) int { return sc.pathOffset() + 4 + 8*sc.numINF() + 12*g }
func (sc *scenario) infOffset(i int) int { return sc.pathOffset() + 4 + 8*i }
