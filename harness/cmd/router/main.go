// Engine "router" (C01, C05, C06, C07): drives the real border-router fast path
// (scionPacketProcessor.processPkt, through the verif hook router.VerifR1*) on packets from a
// topology-aware builder + named mutators, emits one op line per configuration step / packet for
// the Lean model driver (sm_router), and evaluates the property predicates of pred.go — written
// from the property statements — on the implementation's answers.
package main

import (
	"flag"
	"fmt"
	"sort"
	"strings"
	"time"

	"github.com/scionproto/scion/pkg/addr"
	"github.com/scionproto/scion/private/topology"
	"github.com/scionproto/scion/router"

	"verifharness/vlib"
)

type world struct {
	dp    *router.VerifR1DP
	links map[int]*router.VerifR1Link
	cfg   asCfg
}

// install configures the real data plane from cfg and emits the cfg op lines.
func install(e *vlib.Env, w *world, c *asCfg) {
	if w.dp == nil {
		dp, err := router.VerifR1NewDP(addr.IA(c.ia), c.key)
		if err != nil {
			panic(err)
		}
		w.dp = dp
	} else if err := w.dp.Reconfigure(addr.IA(c.ia), c.key); err != nil {
		panic(err)
	}
	w.links = map[int]*router.VerifR1Link{}
	w.cfg = *c
	e.Op(fmt.Sprintf("cfg reset %d %s", c.ia, vlib.Hex(c.key)), "ok", "~cfg")
	svc := map[addr.SVC]bool{}
	for _, s := range c.svcs {
		svc[addr.SVC(s)] = true
		e.Op(fmt.Sprintf("cfg svc %d", s), "ok", "~cfg")
	}
	ifs := append([]ifaceCfg(nil), c.ifs...)
	sort.SliceStable(ifs, func(i, j int) bool { return ifs[i].id < ifs[j].id })
	for _, i := range ifs {
		var l *router.VerifR1Link
		if i.scope != scNil {
			l = w.links[i.link]
			if l == nil {
				l = &router.VerifR1Link{Name: i.link, Up: i.up, Svc: svc}
				switch i.scope {
				case scInt:
					l.Kind = router.Internal
				case scSib:
					l.Kind = router.Sibling
				case scExt:
					l.Kind, l.ID = router.External, i.id
				}
				w.links[i.link] = l
			}
		}
		w.dp.SetInterface(i.id, l, topology.LinkType(i.lt), 0)
		up := 0
		if l != nil && l.Up {
			up = 1
		}
		e.Op(fmt.Sprintf("cfg if %d %s %d %d %d", i.id, scopeName[i.scope], i.lt, up, i.link), "ok", "~cfg")
	}
}

// ingressLink returns the link object the packet is said to arrive on (creating an unregistered
// one if the configuration does not know it).
func (w *world) ingressLink(name int, ifID uint16, scope int) *router.VerifR1Link {
	if l := w.links[name]; l != nil {
		return l
	}
	l := &router.VerifR1Link{Name: name, Up: true, ID: ifID}
	switch scope {
	case scInt:
		l.Kind = router.Internal
	case scSib:
		l.Kind = router.Sibling
	default:
		l.Kind = router.External
	}
	return l
}

type answer struct {
	kind     string // fwd dlv slow alert drop done PANIC
	egress   int
	typ      int
	code     int
	ptr      int
	host     addr.Host
	port     int
	raw      []byte
	text     string
	panicMsg string
}

func hostStr(h addr.Host) string {
	switch h.Type() {
	case addr.HostTypeIP:
		return "ip " + vlib.Hex(h.IP().AsSlice())
	case addr.HostTypeSVC:
		return fmt.Sprintf("svc %04x", uint16(h.SVC()))
	}
	return "none -"
}

// run pushes one packet through the real fast path and canonicalises the outcome.
func run(w *world, raw []byte, link *router.VerifR1Link) answer {
	var a answer
	in := w.links[0]
	if in != nil {
		in.Calls = 0
	}
	txt, ok := vlib.Safe(func() string {
		res := w.dp.Process(raw, link)
		a.raw = res.Raw
		switch res.Disp {
		case router.VerifR1Discard:
			a.kind = "drop"
			return "drop"
		case router.VerifR1Done:
			a.kind = "done"
			return "done"
		case router.VerifR1Slow:
			if res.SPType == -1 || res.SPType == -2 {
				a.kind = "alert"
				a.typ = res.SPType
				return fmt.Sprintf("alert %s %s", map[int]string{-1: "in", -2: "eg"}[res.SPType], vlib.Hex(res.Raw))
			}
			a.kind, a.typ, a.code, a.ptr = "slow", res.SPType, res.Code, res.Pointer
			return fmt.Sprintf("slow %d %d %d %s", res.SPType, res.Code, res.Pointer, vlib.Hex(res.Raw))
		case router.VerifR1Forward:
			if in != nil && in.Calls > 0 {
				a.kind, a.host, a.port, a.egress = "dlv", in.Host, int(in.Port), int(res.Egress)
				return fmt.Sprintf("dlv %s %d %s", hostStr(in.Host), in.Port, vlib.Hex(res.Raw))
			}
			a.kind, a.egress = "fwd", int(res.Egress)
			return fmt.Sprintf("fwd %d %s", res.Egress, vlib.Hex(res.Raw))
		}
		return fmt.Sprintf("disp-%d", res.Disp)
	})
	if !ok {
		a.kind = "PANIC"
		a.panicMsg = txt
		w.dp.VerifR1FreshProcessor()
		txt = "PANIC"
	}
	a.text = txt
	// packets of another path type are outside this engine's model (OHP/EPIC/BFD: engine router2)
	if len(raw) >= 12 && raw[8] != 1 && a.kind != "PANIC" {
		a.kind, a.text = "other", "otherpath"
	}
	return a
}

// skipUnmodelled reports packets whose local delivery depends on the nested decoding of a quoted
// packet inside an SCMP error message (resolveLocalDst/getDstPortSCMP: property C11's model).
func skipUnmodelled(raw []byte, localIA uint64) bool {
	d := decodeIn(raw)
	if d == nil || d.dstIA != localIA {
		return false
	}
	return d.lastNext == 202 && len(d.l4) >= 1 && d.l4[0] < 128 &&
		(d.l4[0] == 1 || d.l4[0] == 2 || d.l4[0] == 4 || d.l4[0] == 5 || d.l4[0] == 6)
}

func main() {
	search := flag.Bool("search", false, "directed search: larger stream, mutators only")
	only := flag.String("mut", "", "restrict to one mutator (debugging)")
	e := vlib.Init()
	w := &world{}
	e.Rule = "topology-aware builder: 1-3 segments (2-9 hops, peering, shortcuts), both construction directions, local AS " +
		"at every hop position (source/transit/cross-over/peering/destination), ingress over external, sibling and internal " +
		"links, IPv4/IPv6/SVC hosts, HBH/E2E extensions, UDP/TCP/SCMP payloads, real AES-CMAC hop MACs with per-AS keys; every valid " +
		"base packet is followed by a copy perturbed by one of the named mutators; C06 additionally enumerates the complete " +
		"link-type x scope x segment-change table with validly MACed packets; non-trivial = accepted by the SCION decoder; " +
		"distinct by (configuration, ingress, raw bytes)"
	n := e.N(20000, 150000)
	if *search {
		n *= 6
	}
	st := &stats{byMut: map[string]int{}}
	if e.Replay != "" {
		replayRun(e, w, st)
		e.Finish()
		return
	}
	if e.Prop == "C06" {
		linkTable(e, w, st)
	}
	// processor reuse: deterministic two-packet sequences on one processor (all properties, so
	// that the op stream of every check contains them)
	seqTable(e, w, st)
	for i := 0; i < n; i++ {
		r := vlib.CaseRand(e.Seed, i)
		now := time.Now()
		base := baseScenario(r, now)
		if !*search || r.Chance(15) {
			emit(e, w, st, base, "base")
		}
		// a mutant of a fresh copy of the same scenario
		r2 := vlib.CaseRand(e.Seed, i)
		now = time.Now()
		sc := baseScenario(r2, now)
		for try := 0; try < 8; try++ {
			m := mutators[1+r.Intn(len(mutators)-1)]
			if *only != "" && m.name != *only {
				continue
			}
			if m.f(r, sc) {
				sc.mut = m.name
				emit(e, w, st, sc, m.name)
				break
			}
		}
	}
	e.Extra["skipped_slow_clock"] = st.skippedClock
	e.Extra["skipped_unmodelled"] = st.skippedUnmodelled
	e.Extra["mutators"] = st.byMut
	e.Extra["expectations_checked"] = st.expectChecked
	e.Finish()
}

type stats struct {
	skippedClock      int
	skippedUnmodelled int
	expectChecked     int
	byMut             map[string]int
	lastCfg           string
	panics            int
	prevCfg           string
	prevRaw           []byte
	prevLink          *router.VerifR1Link
}

func cfgKey(c *asCfg) string {
	var sb strings.Builder
	fmt.Fprintf(&sb, "%d %x %v|", c.ia, c.key, c.svcs)
	ifs := append([]ifaceCfg(nil), c.ifs...)
	sort.SliceStable(ifs, func(i, j int) bool { return ifs[i].id < ifs[j].id })
	for _, i := range ifs {
		fmt.Fprintf(&sb, "%v;", i)
	}
	return sb.String()
}

// emit runs one scenario: configuration (if changed), packet, predicates.
func emit(e *vlib.Env, w *world, st *stats, sc *scenario, mut string) {
	raw := sc.serialize()
	if len(raw) > 8000 {
		return
	}
	if skipUnmodelled(raw, sc.cfg.ia) {
		st.skippedUnmodelled++
		return
	}
	if k := cfgKey(&sc.cfg); k != st.lastCfg {
		install(e, w, &sc.cfg)
		st.lastCfg = k
	}
	link := w.ingressLink(sc.inLink, sc.inIfID, sc.inScope)
	t0 := time.Now()
	a := run(w, raw, link)
	t1 := time.Now()
	if t1.Sub(t0) > 200*time.Millisecond || t0.Sub(sc.now) > 500*time.Millisecond {
		st.skippedClock++
		return
	}
	op := fmt.Sprintf("pkt %d %d %d %s", t0.UnixNano(), link.ID, link.Name, vlib.Hex(raw))
	tag := a.kind
	switch a.kind {
	case "slow":
		tag = fmt.Sprintf("slow/%d/%d", a.typ, a.code)
	case "alert":
		tag = fmt.Sprintf("alert/%d", a.typ)
	case "drop":
		if decodeIn(raw) == nil {
			tag = "~drop-undecodable"
		}
	case "other":
		tag = "~otherpath"
	}
	e.Op(op, a.text, tag)
	if a.kind == "PANIC" && st.panics < 3 {
		st.panics++
		e.Extra[fmt.Sprintf("panic_%d", st.panics)] = map[string]any{"msg": a.panicMsg, "op": clip(op), "mutator": mut}
	}
	st.byMut[mut]++
	e.Branches["kind/"+sc.kind]++
	if mut == "base" || mut == "table" {
		e.Branches[mut+"->"+tag]++
	}
	in := &input{cfg: &w.cfg, raw: raw, link: link, t0: t0, t1: t1, mut: mut, kind: sc.kind}
	if st.prevCfg == st.lastCfg {
		in.prevRaw, in.prevLink = st.prevRaw, st.prevLink // same processor handled this one before
	}
	st.prevCfg, st.prevRaw, st.prevLink = st.lastCfg, raw, link
	if sc.expect != "" {
		st.expectChecked++
		if !strings.HasPrefix(a.text+" ", sc.expect) && a.text != strings.TrimSpace(sc.expect) {
			// what the generator knows from the documented behaviour; attribute to the property
			// the mutator belongs to
			if p := expectProp(mut); p == e.Prop {
				e.Violate(e.Prop+"/expect-"+mut, fmt.Sprintf("mutator %s: expected answer %q, router answered %q",
					mut, strings.TrimSpace(sc.expect), clip(a.text)), in.replay(a))
			}
		}
	}
	switch e.Prop {
	case "C01":
		predC01(e, in, a)
	case "C05":
		predC05(e, in, a)
	case "C06":
		predC06(e, in, a)
	case "C07":
		predC07(e, in, a)
	case "C08":
		// C08 (fast-path part): the real processPkt must not panic on any input; the model's
		// process_total theorem says the modelled fast path never reaches `crash`.
		if a.kind == "PANIC" {
			e.Violate("C08/panic/fastpath", "processPkt panicked: "+clip(a.text), in.replay(a))
		}
	}
	if len(e.Samples) < 4 && a.kind != "drop" {
		e.Sample(map[string]any{"scenario": sc.kind, "mutator": mut, "op": clip(op), "impl": clip(a.text)})
	}
}

func clip(s string) string {
	if len(s) > 160 {
		return s[:160] + "..."
	}
	return s
}

// expectProp says which property a mutator's documented expectation belongs to.
func expectProp(mut string) string {
	switch mut {
	case "mac-flip-cur", "mac-flip-next", "mac-wrong-key", "segid-flip", "ts-change", "exp-change",
		"expired-cur", "expired-next", "currinf-peer-mismatch":
		return "C01"
	case "src-local-ext", "dst-local-notlast", "dst-other-last", "src-other-first", "wrong-sibling",
		"dummy-hop-spoof", "src-host-kind", "transit-local-src-wrong-link":
		return "C05"
	case "alert-foreign-flag-xover":
		return "C07"
	case "egress-zero-internal", "egress-unknown", "egress-sibling-from-inside", "seq-first", "seq-second", "table-seg-start":
		return "C06"
	}
	return ""
}
