package main

// Property predicates for C01, C05, C06, C07, written from the property statements and the SCION
// header specification; evaluated on what the real router did. They use the repository's own
// decoder (slayers) to look at the received packet, never the Lean model.

import (
	"bytes"
	"crypto/aes"
	"encoding/binary"
	"fmt"
	"time"

	"github.com/dchest/cmac"
	"github.com/gopacket/gopacket"

	"github.com/scionproto/scion/pkg/slayers"
	"github.com/scionproto/scion/pkg/slayers/path"
	"github.com/scionproto/scion/pkg/slayers/path/scion"
	"github.com/scionproto/scion/router"

	"verifharness/vlib"
)

type input struct {
	cfg    *asCfg
	raw    []byte
	link   *router.VerifR1Link
	t0, t1 time.Time
	mut    string
	kind   string
	// the packet the same processor handled immediately before (nil: fresh processor)
	prevRaw  []byte
	prevLink *router.VerifR1Link
}

func (in *input) replay(a answer) map[string]any {
	ifs := []string{}
	for _, i := range in.cfg.ifs {
		ifs = append(ifs, fmt.Sprintf("if %d scope=%s type=%d up=%v link=%d", i.id, scopeName[i.scope], i.lt, i.up, i.link))
	}
	prev := map[string]any{}
	if in.prevRaw != nil && in.prevLink != nil {
		prev = map[string]any{"packet": vlib.Hex(in.prevRaw), "ingress_link": in.prevLink.Name,
			"ingress_ifid": in.prevLink.ID, "ingress_scope": int(in.prevLink.Kind)}
	}
	return map[string]any{
		"previous_packet_on_same_processor": prev,
		"local_ia":                          fmt.Sprintf("%#x", in.cfg.ia), "key": vlib.Hex(in.cfg.key), "interfaces": ifs, "svcs": in.cfg.svcs,
		"ingress_link": in.link.Name, "ingress_ifid": in.link.ID, "ingress_scope": int(in.link.Kind),
		"scenario": in.kind, "mutator": in.mut, "now_unix_ns": in.t0.UnixNano(),
		"packet": vlib.Hex(in.raw), "router_answer": clip(a.text),
	}
}

// decoded is the received packet as the repository's decoder sees it.
type decoded struct {
	scn      slayers.SCION
	p        *scion.Raw
	srcIA    uint64
	dstIA    uint64
	lastNext byte
	l4       []byte
	pathOff  int
}

func decodeIn(raw []byte) *decoded {
	d := &decoded{}
	cp := append([]byte(nil), raw...)
	if err := d.scn.DecodeFromBytes(cp, gopacket.NilDecodeFeedback); err != nil {
		return nil
	}
	p, ok := d.scn.Path.(*scion.Raw)
	if !ok || d.scn.PathType != scion.PathType {
		return nil
	}
	d.p = p
	d.srcIA, d.dstIA = uint64(d.scn.SrcIA), uint64(d.scn.DstIA)
	d.pathOff = slayers.CmnHdrLen + d.scn.AddrHdrLen()
	d.lastNext, d.l4 = byte(d.scn.NextHdr), d.scn.Payload
	if d.lastNext == byte(slayers.HopByHopClass) {
		var h slayers.HopByHopExtnSkipper
		if err := h.DecodeFromBytes(d.l4, gopacket.NilDecodeFeedback); err != nil {
			return nil
		}
		d.lastNext, d.l4 = byte(h.NextHdr), h.Payload
	}
	if d.lastNext == byte(slayers.End2EndClass) {
		var h slayers.EndToEndExtnSkipper
		if err := h.DecodeFromBytes(d.l4, gopacket.NilDecodeFeedback); err != nil {
			return nil
		}
		d.lastNext, d.l4 = byte(h.NextHdr), h.Payload
	}
	return d
}

func (d *decoded) numHops() int { return d.p.NumHops }
func (d *decoded) currHF() int  { return int(d.p.PathMeta.CurrHF) }
func (d *decoded) currINF() int { return int(d.p.PathMeta.CurrINF) }

// segOf returns the index of the segment that contains hop g (from the segment lengths).
func (d *decoded) segOf(g int) int {
	acc := 0
	for i := 0; i < 3; i++ {
		acc += int(d.p.PathMeta.SegLen[i])
		if g < acc {
			return i
		}
	}
	return 3
}

// wellFormed: the pointers designate a hop of the path and the info field of its segment.
func (d *decoded) wellFormed() bool {
	return d.currHF() < d.numHops() && d.segOf(d.currHF()) == d.currINF() && d.currINF() < d.p.NumINF
}

// peeringHop: the current hop is one of the two hop fields of a peering link traversal.
func (d *decoded) peeringHop() bool {
	inf, err := d.p.GetInfoField(d.currINF())
	if err != nil || !inf.Peer {
		return false
	}
	s0 := int(d.p.PathMeta.SegLen[0])
	return d.currHF() == s0-1 || d.currHF() == s0
}

// segmentChange: this AS also has to process the first hop of the next segment.
func (d *decoded) segmentChange() bool {
	g := d.currHF()
	return g+1 < d.numHops() && d.segOf(g+1) != d.segOf(g) && !d.peeringHop()
}

// macValid recomputes the hop-field MAC from the SCION header specification (doc/protocols/
// scion-header.rst, "Hop Field MAC computation"), independently of pkg/slayers/path:
// AES-CMAC under the AS key over the 16-byte block
//
//	0(2) SegID(2) Timestamp(4) 0(1) ExpTime(1) ConsIngress(2) ConsEgress(2) 0(2),
//
// truncated to 6 bytes.
func macValid(key []byte, inf path.InfoField, hf path.HopField, segID uint16) bool {
	block, err := aes.NewCipher(key)
	if err != nil {
		return false
	}
	m, err := cmac.New(block)
	if err != nil {
		return false
	}
	var in [16]byte
	binary.BigEndian.PutUint16(in[2:4], segID)
	binary.BigEndian.PutUint32(in[4:8], inf.Timestamp)
	in[9] = hf.ExpTime
	binary.BigEndian.PutUint16(in[10:12], hf.ConsIngress)
	binary.BigEndian.PutUint16(in[12:14], hf.ConsEgress)
	m.Write(in[:])
	want := m.Sum(nil)
	return bytes.Equal(want[:6], hf.Mac[:])
}

// expiry instant of a hop field: Timestamp + (1 + ExpTime) * (24h / 256)
func expiry(inf path.InfoField, hf path.HopField) time.Time {
	return time.Unix(int64(inf.Timestamp), 0).Add(time.Duration(int64(hf.ExpTime)+1) * (24 * time.Hour / 256))
}

func accepted(a answer) bool { return a.kind == "fwd" || a.kind == "dlv" }

// ---------------------------------------------------------------------------------------------
// C01

func predC01(e *vlib.Env, in *input, a answer) {
	d := decodeIn(in.raw)
	bad := func(key, what string) { e.Violate("C01/"+key, what, in.replay(a)) }
	if d == nil {
		if accepted(a) {
			bad("undecodable-forwarded", "a packet the SCION decoder rejects was forwarded")
		}
		return
	}
	if !d.wellFormed() {
		if accepted(a) {
			bad("malformed-forwarded", "forwarded although the path pointers designate no hop field")
		}
		return
	}
	g := d.currHF()
	hf, _ := d.p.GetHopField(g)
	inf, _ := d.p.GetInfoField(d.currINF())
	// the accumulator the hop's MAC is defined over: the carried SegID, after the ingress
	// router's update when travelling against construction direction (never on peering hops)
	acc := inf.SegID
	if !inf.ConsDir && in.link.Kind == router.External && !d.peeringHop() {
		acc ^= binary.BigEndian.Uint16(hf.Mac[:2])
	}
	type chk struct {
		g       int
		macOK   bool
		expired bool // certainly expired when processing started
		live    bool // certainly unexpired when processing ended
	}
	mk := func(g int, inf path.InfoField, hf path.HopField, acc uint16) chk {
		x := expiry(inf, hf)
		return chk{g, macValid(in.cfg.key, inf, hf, acc), x.Before(in.t0), !x.Before(in.t1)}
	}
	checks := []chk{mk(g, inf, hf, acc)}
	xover := d.segmentChange() && d.dstIA != in.cfg.ia
	if xover {
		hf2, _ := d.p.GetHopField(g + 1)
		inf2, _ := d.p.GetInfoField(d.segOf(g + 1))
		checks = append(checks, mk(g+1, inf2, hf2, inf2.SegID))
	}
	hopPtr := func(g int) int { return d.pathOff + scion.MetaLen + path.InfoLen*d.p.NumINF + path.HopLen*g }
	if accepted(a) {
		for _, c := range checks {
			if !c.macOK {
				bad("forwarded-bad-mac", fmt.Sprintf("forwarded/delivered although the MAC of hop %d is not valid under the AS key", c.g))
			}
			if c.expired {
				bad("forwarded-expired", fmt.Sprintf("forwarded/delivered although hop %d has expired", c.g))
			}
		}
	}
	// an SCMP that names a MAC / expiry failure must point at a hop that fails that check
	if a.kind == "slow" && a.typ == 4 && (a.code == 51 || a.code == 52) {
		hit := false
		for _, c := range checks {
			if a.ptr == hopPtr(c.g) {
				hit = true
				if a.code == 51 && c.macOK {
					bad("scmp-mac-on-valid-hop", fmt.Sprintf("InvalidHopFieldMAC reported for hop %d whose MAC is valid", c.g))
				}
				if a.code == 52 && c.live {
					bad("scmp-expired-on-live-hop", fmt.Sprintf("PathExpired reported for hop %d which has not expired", c.g))
				}
			}
		}
		if !hit {
			bad("scmp-pointer", fmt.Sprintf("SCMP code %d points at offset %d which is not the offending hop field", a.code, a.ptr))
		}
	}
	// a packet failing either check is dropped or answered with an SCMP, never anything else
	for _, c := range checks {
		if (!c.macOK || c.expired) && a.kind == "PANIC" {
			bad("panic", "router panicked")
		}
	}
}

// ---------------------------------------------------------------------------------------------
// C05

func predC05(e *vlib.Env, in *input, a answer) {
	d := decodeIn(in.raw)
	bad := func(key, what string) { e.Violate("C05/"+key, what, in.replay(a)) }
	if d == nil || !d.wellFormed() {
		if accepted(a) {
			bad("malformed-forwarded", "undecodable or malformed packet accepted")
		}
		return
	}
	local := in.cfg.ia
	first, last := d.currHF() == 0, d.currHF() == d.numHops()-1
	if in.link.Kind == router.External {
		// entering from another AS
		if d.srcIA == local && accepted(a) {
			bad("foreign-claims-local-src", "packet from another AS claiming the local AS as source was accepted")
		}
		if a.kind == "dlv" && !(last && d.dstIA == local) {
			bad("delivered-not-last-or-not-local", "delivered locally although not (last hop and destination local)")
		}
		if a.kind == "fwd" && last && d.dstIA == local {
			bad("last-local-not-delivered", "at last hop with local destination but forwarded instead of delivered")
		}
		if accepted(a) && last != (d.dstIA == local) {
			bad("last-xor-local-accepted", "accepted although exactly one of (last hop, destination local) holds")
		}
		return
	}
	// from inside the AS (internal network: hosts or sibling routers)
	if a.kind == "dlv" {
		bad("inside-delivered", "packet from inside the AS was delivered locally by the router")
	}
	if a.kind == "fwd" {
		if first && d.srcIA != local {
			bad("first-hop-foreign-src", "first-hop packet from inside the AS with a non-local source was forwarded")
		}
		if d.dstIA == local {
			bad("inside-to-local", "packet from inside the AS destined to the local AS was forwarded")
		}
	}
	if !first && accepted(a) {
		// accepted (= not dropped at the transit check) only over the sibling link that owns the
		// interface by which the packet entered the AS
		hf, _ := d.p.GetHopField(d.currHF())
		inf, _ := d.p.GetInfoField(d.currINF())
		// after a cross-over done by the ingress router the entry interface is in the previous hop
		if d.currHF() > 0 && d.segOf(d.currHF()-1) != d.segOf(d.currHF()) && !d.peeringHop() {
			hf, _ = d.p.GetHopField(d.currHF() - 1)
			inf, _ = d.p.GetInfoField(d.segOf(d.currHF() - 1))
		}
		entry := hf.ConsEgress
		if inf.ConsDir {
			entry = hf.ConsIngress
		}
		owner := in.cfg.find(entry)
		ok := owner != nil && owner.scope == scSib && owner.link == in.link.Name && in.link.Kind == router.Sibling
		if !ok && accepted(a) {
			bad("transit-not-via-owning-sibling", fmt.Sprintf("non-first-hop packet from inside the AS forwarded although it did not arrive over the sibling link owning interface %d", entry))
		}
	}
}

// ---------------------------------------------------------------------------------------------
// C06

var allowedWithin = map[[2]int]bool{{ltCore, ltCore}: true, {ltChild, ltParent}: true, {ltParent, ltChild}: true,
	{ltChild, ltPeer}: true, {ltPeer, ltChild}: true}
var allowedChange = map[[2]int]bool{{ltCore, ltChild}: true, {ltChild, ltCore}: true, {ltChild, ltChild}: true}

func (c *asCfg) ltOf(id int) int {
	if i := c.find(uint16(id)); i != nil {
		return i.lt
	}
	return ltUnset
}

func predC06(e *vlib.Env, in *input, a answer) {
	bad := func(key, what string) { e.Violate("C06/"+key, what, in.replay(a)) }
	if a.kind != "fwd" {
		return
	}
	d := decodeIn(in.raw)
	if d == nil || !d.wellFormed() {
		bad("malformed-forwarded", "undecodable or malformed packet forwarded")
		return
	}
	eg := in.cfg.find(uint16(a.egress))
	if eg == nil || eg.scope == scNil {
		bad("egress-unknown", fmt.Sprintf("forwarded to interface %d which is not configured", a.egress))
		return
	}
	if in.link.Kind != router.External {
		if eg.scope != scExt {
			bad("inside-not-to-external", fmt.Sprintf("packet from inside the AS forwarded to interface %d which is not an external interface of this router", a.egress))
		}
		// The pair of AS-level links traversed must be admissible no matter over which local link
		// the packet arrived. When the packet comes from a sibling router and THIS router takes it
		// across the segment change, nobody else has looked at the pair: the link by which the
		// packet entered the AS (travel-direction ingress interface of the current hop) and the
		// egress link must form an admissible segment-change pair.
		if d.segmentChange() {
			hf, _ := d.p.GetHopField(d.currHF())
			inf, _ := d.p.GetInfoField(d.currINF())
			entry := hf.ConsEgress
			if inf.ConsDir {
				entry = hf.ConsIngress
			}
			pair := [2]int{in.cfg.ltOf(int(entry)), eg.lt}
			if !allowedChange[pair] {
				bad("segment-change-pair-from-inside", fmt.Sprintf("packet handed over by a sibling/internal link forwarded across a segment change: entered the AS by interface %d (link type %d), leaves by interface %d (link type %d)", entry, pair[0], a.egress, pair[1]))
			}
		}
		return
	}
	pair := [2]int{in.cfg.ltOf(int(in.link.ID)), eg.lt}
	if d.segmentChange() {
		if !allowedChange[pair] {
			bad("segment-change-pair", fmt.Sprintf("forwarded across a segment change with link types %d -> %d", pair[0], pair[1]))
		}
	} else if !allowedWithin[pair] {
		bad("within-segment-pair", fmt.Sprintf("forwarded within a segment with link types %d -> %d", pair[0], pair[1]))
	}
}

// ---------------------------------------------------------------------------------------------
// C07

func predC07(e *vlib.Env, in *input, a answer) {
	bad := func(key, what string) { e.Violate("C07/"+key, what, in.replay(a)) }
	if !accepted(a) {
		return
	}
	d := decodeIn(in.raw)
	if d == nil {
		bad("undecodable-forwarded", "undecodable packet forwarded")
		return
	}
	if len(a.raw) != len(in.raw) {
		bad("length", fmt.Sprintf("packet length changed from %d to %d", len(in.raw), len(a.raw)))
		return
	}
	// mutable: the byte holding CurrINF/CurrHF and the SegID of the segment(s) processed here
	mask := make([]bool, len(in.raw))
	mask[d.pathOff] = true
	segs := []int{d.currINF()}
	if d.segmentChange() {
		segs = append(segs, d.currINF()+1)
	}
	for _, s := range segs {
		o := d.pathOff + scion.MetaLen + path.InfoLen*s
		if o+4 <= len(mask) {
			mask[o+2], mask[o+3] = true, true
		}
	}
	// reserved bits that the re-serialisation of the meta line / an info field clears (known
	// finding C07/reserved-bits-cleared): position -> mask of the reserved bits in that byte
	rsv := map[int]byte{d.pathOff + 1: 0xFC}
	for _, s := range segs {
		o := d.pathOff + scion.MetaLen + path.InfoLen*s
		rsv[o], rsv[o+1] = 0xFC, 0xFF
	}
	for i := range in.raw {
		if in.raw[i] == a.raw[i] || mask[i] {
			continue
		}
		if m, ok := rsv[i]; ok && (in.raw[i]^a.raw[i])&^m == 0 && a.raw[i]&m == 0 {
			bad("reserved-bits-cleared", fmt.Sprintf("byte %d: reserved bits of the path meta header / current info field cleared (%02x -> %02x)", i, in.raw[i], a.raw[i]))
			continue
		}
		region := "payload/extension"
		hdrEnd := d.pathOff + d.p.Len()
		switch {
		case i < d.pathOff:
			region = "common/address header"
		case i < d.pathOff+4:
			region = "path meta header (not the pointers)"
		case i < d.pathOff+4+8*d.p.NumINF:
			region = "info field"
		case i < hdrEnd:
			region = "hop field"
		}
		bad("other-bytes", fmt.Sprintf("byte %d (%s) changed from %02x to %02x", i, region, in.raw[i], a.raw[i]))
		return
	}
	// the pointers themselves: forwarding moves along the path, never backwards or off it
	if d.wellFormed() {
		out := a.raw[d.pathOff]
		newHF, newINF := int(out&0x3F), int(out>>6)
		adv := newHF - d.currHF()
		if adv < 0 || adv > 2 || newHF >= d.numHops() || newINF != d.segOf(newHF) {
			bad("pointers", fmt.Sprintf("pointers moved from (%d,%d) to (%d,%d)", d.currINF(), d.currHF(), newINF, newHF))
		}
	}
}

// ---------------------------------------------------------------------------------------------
// C06: complete link-type table, through validly MACed packets

func linkTable(e *vlib.Env, w *world, st *stats) {
	r := vlib.NewRand(uint64(e.Seed) + 99)
	// arrival over an external link ON the first hop of a later segment (the segment boundary
	// lies on the inter-AS link): the hop is traversed within ONE segment, within-segment table
	for inLT := 0; inLT <= 4; inLT++ {
		for egLT := 0; egLT <= 4; egLT++ {
			for cd := 0; cd < 2; cd++ {
				sc := tableScenario(r, inLT, egLT, false, 2, 2, cd == 1, false)
				// prepend a foreign two-hop segment
				pre := segSpec{consDir: cd == 0, beta0: uint16(r.U64()), ts: sc.segs[0].ts}
				for c := 0; c < 2; c++ {
					pre.hops = append(pre.hops, hopSpec{consIn: uint16(r.Range(401, 600)), consEg: uint16(r.Range(401, 600)), exp: 63, key: randKey(r)})
				}
				// the local hop becomes the first hop of the second segment
				loc := sc.segs[0]
				lh := loc.hops[loc.cons(1)]
				loc.hops = loc.hops[1:]
				if !loc.consDir {
					loc.hops = sc.segs[0].hops[:2]
				}
				loc.hops[loc.cons(0)] = lh
				sc.segs = []segSpec{pre, loc}
				sc.local, sc.currHF, sc.currINF = 2, 2, 1
				sc.rechain()
				sc.kind = "table/seg-start"
				if allowedWithin[[2]int{inLT, egLT}] {
					sc.expect = fmt.Sprintf("fwd %d ", sc.travelEg(2))
				} else {
					sc.expect = fmt.Sprintf("slow 4 48 %d ", sc.hopPtr(2))
				}
				emit(e, w, st, sc, "table-seg-start")
			}
		}
	}
	for inLT := 0; inLT <= 4; inLT++ {
		for egLT := 0; egLT <= 4; egLT++ {
			for xo := 0; xo < 2; xo++ {
				for inSc := 0; inSc < 3; inSc++ { // 0 internal, 1 sibling, 2 external
					for egSc := 0; egSc < 4; egSc++ { // internal(0) sibling external none
						for cd := 0; cd < 2; cd++ {
							for post := 0; post < 2; post++ {
								if post == 1 && !(xo == 1 && inSc == 1) {
									continue
								}
								sc := tableScenario(r, inLT, egLT, xo == 1, inSc, egSc, cd == 1, post == 1)
								if sc != nil {
									emit(e, w, st, sc, "table")
								}
							}
						}
					}
				}
			}
		}
	}
}

// seqTable: processor reuse. One configuration, one processor: a legitimate cross-over packet
// (child -> child over interfaces 1, 2) is handled first, then a within-segment transit packet
// with validly MACed hop over interfaces 3 (type i) -> 4 (type e); repeated for every pair, both
// directions. Whatever the first packet left behind in the processor must not matter.
func seqTable(e *vlib.Env, w *world, st *stats) {
	r := vlib.NewRand(uint64(e.Seed) + 177)
	for inLT := 0; inLT <= 4; inLT++ {
		for egLT := 0; egLT <= 4; egLT++ {
			for cd := 0; cd < 2; cd++ {
				for first := 0; first < 2; first++ { // 0: cross-over first, 1: peering hop first
					now := time.Now()
					cfg := asCfg{ia: 0x1ff0000000110, key: randKey(r)}
					cfg.ifs = []ifaceCfg{{id: 0, scope: scInt, up: true, link: 0},
						{id: 1, scope: scExt, lt: ltChild, up: true, link: 10}, {id: 2, scope: scExt, lt: ltChild, up: true, link: 11},
						{id: 3, scope: scExt, lt: inLT, up: true, link: 12}, {id: 4, scope: scExt, lt: egLT, up: true, link: 13},
						{id: 5, scope: scExt, lt: ltPeer, up: true, link: 14}}
					mk := func(consDir bool, n int, peer bool) segSpec {
						s := segSpec{consDir: consDir, peer: peer, beta0: uint16(r.U64()), ts: uint32(now.Unix() - 100)}
						for c := 0; c < n; c++ {
							s.hops = append(s.hops, hopSpec{consIn: uint16(r.Range(401, 600)), consEg: uint16(r.Range(401, 600)), exp: 63, key: randKey(r)})
						}
						return s
					}
					set := func(s *segSpec, c int, tin, teg uint16) {
						h := &s.hops[c]
						if s.consDir {
							h.consIn, h.consEg = tin, teg
						} else {
							h.consIn, h.consEg = teg, tin
						}
						h.key = cfg.key
					}
					fin := func(sc *scenario) {
						sc.rechain()
						sc.srcIA, sc.dstIA = 0x1ff0000000111, 0x1ff0000000112
						sc.srcHost, sc.dstHost = []byte{10, 0, 0, 1}, []byte{10, 0, 0, 2}
						sc.l4proto, sc.l4 = 17, []byte{0, 1, 0, 2, 0, 8, 0, 0}
					}
					// packet 1
					p1 := &scenario{now: now, pathType: 1, kind: "seq/first", cfg: cfg}
					if first == 0 {
						p1.segs = []segSpec{mk(false, 2, false), mk(true, 2, false)}
						p1.local, p1.xover, p1.currHF, p1.currINF = 1, true, 1, 0
						set(&p1.segs[0], p1.segs[0].cons(1), 1, 0)
						set(&p1.segs[1], p1.segs[1].cons(0), 0, 2)
						p1.expect = "fwd 2 "
					} else {
						p1.segs = []segSpec{mk(false, 2, true), mk(true, 2, true)}
						p1.local, p1.currHF, p1.currINF = 1, 1, 0
						set(&p1.segs[0], p1.segs[0].cons(1), 1, 5) // child -> peer
						p1.expect = "fwd 5 "
					}
					p1.inLink, p1.inIfID, p1.inScope = 10, 1, scExt
					fin(p1)
					emit(e, w, st, p1, "seq-first")
					// packet 2: within one segment, 3 -> 4
					p2 := &scenario{now: now, pathType: 1, kind: "seq/second", cfg: cfg}
					p2.segs = []segSpec{mk(cd == 1, 3, false)}
					p2.local, p2.currHF, p2.currINF = 1, 1, 0
					set(&p2.segs[0], p2.segs[0].cons(1), 3, 4)
					p2.inLink, p2.inIfID, p2.inScope = 12, 3, scExt
					fin(p2)
					if allowedWithin[[2]int{inLT, egLT}] {
						p2.expect = "fwd 4 "
					} else {
						p2.expect = fmt.Sprintf("slow 4 48 %d ", p2.hopPtr(1))
					}
					emit(e, w, st, p2, "seq-second")
				}
			}
		}
	}
}

// tableScenario builds a valid packet whose only open question is the interface pair.
func tableScenario(r *vlib.Rand, inLT, egLT int, xover bool, inSc, egSc int, consDir, postX bool) *scenario {
	now := time.Now()
	sc := &scenario{now: now, pathType: 1, kind: "table"}
	sc.cfg.ia = 0x1ff0000000110
	sc.cfg.key = randKey(r)
	inID, egID := uint16(r.Range(1, 200)), uint16(r.Range(201, 400))
	mkSeg := func(cd bool, n int) segSpec {
		s := segSpec{consDir: cd, beta0: uint16(r.U64()), ts: uint32(now.Unix() - 100)}
		for c := 0; c < n; c++ {
			s.hops = append(s.hops, hopSpec{consIn: uint16(r.Range(401, 600)), consEg: uint16(r.Range(401, 600)), exp: 63, key: randKey(r)})
		}
		return s
	}
	sc.cfg.ifs = []ifaceCfg{{id: 0, scope: scInt, lt: ltUnset, up: true, link: 0}}
	if inSc == 0 && xover {
		return nil // a host-originated packet starts a segment: no cross-over at hop 0
	}
	// ingress
	switch inSc {
	case 0:
		sc.inLink, sc.inIfID, sc.inScope = 0, 0, scInt
		inID = 0
		if inLT != 0 {
			return nil // link type of the internal interface is not configurable
		}
	case 1:
		sc.cfg.ifs = append(sc.cfg.ifs, ifaceCfg{id: inID, scope: scSib, lt: inLT, up: true, link: 1})
		sc.inLink, sc.inIfID, sc.inScope = 1, 0, scSib
	case 2:
		sc.cfg.ifs = append(sc.cfg.ifs, ifaceCfg{id: inID, scope: scExt, lt: inLT, up: true, link: 10})
		sc.inLink, sc.inIfID, sc.inScope = 10, inID, scExt
	}
	switch egSc {
	case 0:
		egID = 0
		if egLT != 0 {
			return nil
		}
	case 1:
		sc.cfg.ifs = append(sc.cfg.ifs, ifaceCfg{id: egID, scope: scSib, lt: egLT, up: true, link: 2})
	case 2:
		sc.cfg.ifs = append(sc.cfg.ifs, ifaceCfg{id: egID, scope: scExt, lt: egLT, up: true, link: 11})
	case 3:
		sc.cfg.ifs = append(sc.cfg.ifs, ifaceCfg{id: egID, scope: scNil, lt: egLT})
	}
	set := func(s *segSpec, c int, tin, teg uint16) {
		h := &s.hops[c]
		if s.consDir {
			h.consIn, h.consEg = tin, teg
		} else {
			h.consIn, h.consEg = teg, tin
		}
		h.key = sc.cfg.key
	}
	if !xover {
		s := mkSeg(consDir, 3)
		sc.segs = []segSpec{s}
		sc.local = 1
		if inSc == 0 {
			sc.local = 0
		}
		sc.currHF, sc.currINF = sc.local, 0
		set(&sc.segs[0], sc.segs[0].cons(sc.local), inID, egID)
	} else {
		s0, s1 := mkSeg(!consDir, 2), mkSeg(consDir, 2)
		sc.segs = []segSpec{s0, s1}
		sc.local, sc.xover = 1, true
		sc.currHF, sc.currINF = 1, 0
		set(&sc.segs[0], sc.segs[0].cons(1), inID, 0)
		set(&sc.segs[1], sc.segs[1].cons(0), 0, egID)
		if postX {
			sc.postX = true
			sc.currHF, sc.currINF = 2, 1
		}
	}
	sc.rechain()
	sc.srcIA, sc.dstIA = 0x1ff0000000111, 0x1ff0000000112
	if inSc == 0 {
		sc.srcIA = sc.cfg.ia
	}
	sc.srcHost, sc.dstHost = []byte{10, 0, 0, 1}, []byte{10, 0, 0, 2}
	sc.l4proto, sc.l4 = 17, []byte{0, 1, 0, 2, 0, 8, 0, 0}
	return sc
}
