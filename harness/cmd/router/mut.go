package main

// Named mutators: each perturbs one aspect of a valid scenario. A mutator returns false when it
// does not apply to the scenario's shape. `expect` (optional) is what the generator knows the
// canonical answer must start with, from the router's documented behaviour.

import (
	"fmt"

	"verifharness/vlib"
)

type mutator struct {
	name string
	f    func(r *vlib.Rand, sc *scenario) bool
}

func (sc *scenario) curSegHop() (*segSpec, *hopSpec) { return sc.hopAt(sc.currHF) }

func (sc *scenario) isFirst() bool { return sc.currHF == 0 }
func (sc *scenario) isLast() bool  { return sc.currHF == sc.totalHops()-1 }

// hopPtr is the SCMP pointer the documentation prescribes for hop g.
func (sc *scenario) hopPtr(g int) int { return sc.hopOffset(g) }

// travelIn / travelEg give the id of the interface by which the packet enters / leaves the AS of
// travel hop g.
func (sc *scenario) travelIn(g int) uint16 {
	s, h := sc.hopAt(g)
	if s.consDir {
		return h.consIn
	}
	return h.consEg
}
func (sc *scenario) travelEg(g int) uint16 {
	s, h := sc.hopAt(g)
	if s.consDir {
		return h.consEg
	}
	return h.consIn
}
func (sc *scenario) setTravelIn(g int, v uint16) {
	s, h := sc.hopAt(g)
	if s.consDir {
		h.consIn = v
	} else {
		h.consEg = v
	}
}
func (sc *scenario) setTravelEg(g int, v uint16) {
	s, h := sc.hopAt(g)
	if s.consDir {
		h.consEg = v
	} else {
		h.consIn = v
	}
}

// egHop is the travel index of the hop whose egress the packet leaves by.
func (sc *scenario) egHop() int {
	if sc.xover && !sc.postX {
		return sc.currHF + 1
	}
	return sc.currHF
}

func (sc *scenario) freshIf(r *vlib.Rand) uint16 {
	used := map[uint16]bool{0: true}
	for _, i := range sc.cfg.ifs {
		used[i.id] = true
	}
	return randIfID(r, used)
}

func (sc *scenario) setExpiry(r *vlib.Rand, s *segSpec, h *hopSpec, deltaSec int64) {
	// expiry instant = ts + (exp+1)*337.5 s ; choose exp with an even (exp+1) so that it is whole
	if h.exp%2 == 0 {
		h.exp++
	}
	life := (int64(h.exp) + 1) * 3375 / 10
	s.ts = uint32(sc.now.Unix() + deltaSec - life)
}

var mutators = []mutator{
	{"none", func(r *vlib.Rand, sc *scenario) bool { return true }},
	{"mac-flip-cur", func(r *vlib.Rand, sc *scenario) bool {
		_, h := sc.curSegHop()
		h.mac[r.Intn(6)] ^= 1 << r.Intn(8)
		sc.expect = fmt.Sprintf("slow 4 51 %d ", sc.hopPtr(sc.currHF))
		return true
	}},
	{"mac-flip-next", func(r *vlib.Rand, sc *scenario) bool {
		if !sc.xover || sc.postX {
			return false
		}
		_, h := sc.hopAt(sc.currHF + 1)
		h.mac[r.Intn(6)] ^= 1 << r.Intn(8)
		sc.expect = fmt.Sprintf("slow 4 51 %d ", sc.hopPtr(sc.currHF+1))
		return true
	}},
	{"mac-wrong-key", func(r *vlib.Rand, sc *scenario) bool {
		_, h := sc.hopAt(sc.egHop())
		h.key = randKey(r)
		sc.rechain()
		sc.expect = fmt.Sprintf("slow 4 51 %d ", sc.hopPtr(sc.egHop()))
		return true
	}},
	{"segid-flip", func(r *vlib.Rand, sc *scenario) bool {
		s, _ := sc.curSegHop()
		s.segID ^= 1 << r.Intn(16)
		sc.expect = fmt.Sprintf("slow 4 51 %d ", sc.hopPtr(sc.currHF))
		return true
	}},
	{"segid-neighbour", func(r *vlib.Rand, sc *scenario) bool {
		// the accumulator value of the neighbouring hop (one update too many / too few)
		s, _ := sc.curSegHop()
		_, t := sc.locate(sc.currHF)
		c := s.cons(t)
		old := s.segID
		if s.segID == s.betas[c] {
			s.segID = s.betas[c+1]
		} else {
			s.segID = s.betas[c]
		}
		return s.segID != old
	}},
	{"ts-change", func(r *vlib.Rand, sc *scenario) bool {
		s, _ := sc.curSegHop()
		s.ts += uint32(r.Range(1, 2))
		sc.expect = fmt.Sprintf("slow 4 51 %d ", sc.hopPtr(sc.currHF))
		return true
	}},
	{"exp-change", func(r *vlib.Rand, sc *scenario) bool {
		_, h := sc.curSegHop()
		if h.exp < 255 {
			h.exp++ // lives longer: only the MAC can tell
			sc.expect = fmt.Sprintf("slow 4 51 %d ", sc.hopPtr(sc.currHF))
		} else {
			h.exp--
		}
		return true
	}},
	{"cons-field-change", func(r *vlib.Rand, sc *scenario) bool {
		// change the interface id the router does not route by (still MAC protected)
		if sc.isFirst() {
			sc.setTravelIn(sc.currHF, sc.travelIn(sc.currHF)+1)
		} else if sc.isLast() || sc.xover {
			sc.setTravelEg(sc.currHF, sc.travelEg(sc.currHF)+1)
		} else {
			return false
		}
		return true
	}},
	{"expired-cur", func(r *vlib.Rand, sc *scenario) bool {
		s, h := sc.curSegHop()
		d := []int64{-1, -2, -3, -60, -337, -338, -100000}[r.Intn(7)]
		sc.setExpiry(r, s, h, d)
		sc.rechain()
		sc.expect = fmt.Sprintf("slow 4 52 %d ", sc.hopPtr(sc.currHF))
		return true
	}},
	{"expire-soon", func(r *vlib.Rand, sc *scenario) bool {
		s, h := sc.curSegHop()
		d := []int64{2, 3, 30, 300, 336, 337, 338}[r.Intn(7)]
		sc.setExpiry(r, s, h, d)
		sc.rechain()
		return true
	}},
	{"expired-next", func(r *vlib.Rand, sc *scenario) bool {
		if !sc.xover || sc.postX {
			return false
		}
		s, h := sc.hopAt(sc.currHF + 1)
		sc.setExpiry(r, s, h, []int64{-1, -2, -50, -5000}[r.Intn(4)])
		sc.rechain()
		sc.expect = fmt.Sprintf("slow 4 52 %d ", sc.hopPtr(sc.currHF+1))
		return true
	}},
	{"exp-zero", func(r *vlib.Rand, sc *scenario) bool {
		// ExpTime 0 means one unit (337.5 s), not zero: a fresh hop with exp 0 is valid
		s, h := sc.curSegHop()
		h.exp = 0
		s.ts = uint32(sc.now.Unix() - int64(r.Range(0, 330)))
		for c := range s.hops {
			if &s.hops[c] != h && s.hops[c].exp < 2 {
				s.hops[c].exp = 2
			}
		}
		sc.rechain()
		return true
	}},
	{"wrong-ingress", func(r *vlib.Rand, sc *scenario) bool {
		if sc.inScope != scExt {
			return false
		}
		id := sc.freshIf(r)
		sc.cfg.ifs = append(sc.cfg.ifs, ifaceCfg{id: id, scope: scExt, lt: r.Range(0, 4), up: true, link: 40})
		sc.inLink, sc.inIfID = 40, id
		s, _ := sc.curSegHop()
		code := 50
		if s.consDir {
			code = 49
		}
		sc.expect = fmt.Sprintf("slow 4 %d %d ", code, sc.hopPtr(sc.currHF))
		return true
	}},
	{"paylen-lie", func(r *vlib.Rand, sc *scenario) bool {
		sc.payLenD = []int{1, -1, 4, -4, 100, 256, -256}[r.Intn(7)]
		if len(sc.hbh)+len(sc.e2e)+len(sc.l4)+sc.payLenD < 0 {
			sc.payLenD = 1
		}
		sc.expect = "slow 4 19 0 "
		return true
	}},
	{"truncate", func(r *vlib.Rand, sc *scenario) bool {
		k := r.Range(1, 40)
		sc.post = append(sc.post, func(raw []byte) []byte {
			if k > len(raw) {
				return raw[:0]
			}
			return raw[:len(raw)-k]
		})
		return true
	}},
	{"append", func(r *vlib.Rand, sc *scenario) bool {
		extra := r.Bytes(r.Range(1, 16))
		sc.post = append(sc.post, func(raw []byte) []byte { return append(raw, extra...) })
		sc.expect = "slow 4 19 0 "
		return true
	}},
	{"src-local-ext", func(r *vlib.Rand, sc *scenario) bool {
		if sc.inScope != scExt {
			return false
		}
		sc.srcIA = sc.cfg.ia
		sc.expect = "slow 4 33 20 "
		return true
	}},
	{"dst-local-notlast", func(r *vlib.Rand, sc *scenario) bool {
		if sc.isLast() {
			return false
		}
		sc.dstIA = sc.cfg.ia
		if sc.inScope == scExt || sc.isFirst() {
			sc.expect = "slow 4 34 12 "
		}
		return true
	}},
	{"dst-other-last", func(r *vlib.Rand, sc *scenario) bool {
		if !sc.isLast() {
			return false
		}
		sc.dstIA = otherIA(r, sc.cfg.ia)
		if sc.inScope == scExt {
			sc.expect = "slow 4 34 12 "
		}
		return true
	}},
	{"src-other-first", func(r *vlib.Rand, sc *scenario) bool {
		if !sc.isFirst() {
			return false
		}
		sc.srcIA = otherIA(r, sc.cfg.ia)
		sc.expect = "slow 4 33 20 "
		return true
	}},
	{"swap-ia", func(r *vlib.Rand, sc *scenario) bool {
		sc.srcIA, sc.dstIA = sc.dstIA, sc.srcIA
		return true
	}},
	{"internal-transit", func(r *vlib.Rand, sc *scenario) bool {
		// a host inside the AS replays / injects a packet that is not on its first hop
		if sc.isFirst() {
			return false
		}
		sc.inLink, sc.inIfID, sc.inScope = 0, 0, scInt
		if r.Bool() {
			sc.rechain() // with the SegID an egress router would expect
		}
		return true
	}},
	{"transit-local-src-wrong-link", func(r *vlib.Rand, sc *scenario) bool {
		// a host (or the wrong sibling) injects a packet that is not on its first hop and claims
		// the local AS as source: valid MAC on the local hop, external egress
		if sc.isFirst() || sc.xover || sc.isLast() || sc.inScope == scInt {
			return false
		}
		eg := sc.cfg.find(sc.travelEg(sc.currHF))
		if eg == nil || eg.scope != scExt {
			return false
		}
		eg.up = true
		if sc.inScope == scSib && r.Bool() {
			sc.inLink = 3 - sc.inLink
			sc.cfg.ifs = append(sc.cfg.ifs, ifaceCfg{id: sc.freshIf(r), scope: scSib, lt: r.Range(0, 4), up: true, link: sc.inLink})
		} else {
			sc.inLink, sc.inIfID, sc.inScope = 0, 0, scInt
		}
		sc.srcIA = sc.cfg.ia
		sc.rechain()
		sc.expect = "drop"
		return true
	}},
	{"currinf-peer-mismatch", func(r *vlib.Rand, sc *scenario) bool {
		// peering path; the local AS holds a regular hop of the first segment, but CurrINF points
		// at the (Peer-flagged) info field of the other segment, under which the hop's MAC is
		// valid and its interfaces make sense: CurrINF does not match CurrHF, must be discarded
		in, eg := sc.freshIf(r), uint16(0)
		sc.cfg.ifs = append(sc.cfg.ifs, ifaceCfg{id: in, scope: scExt, lt: ltParent, up: true, link: 44})
		eg = sc.freshIf(r)
		sc.cfg.ifs = append(sc.cfg.ifs, ifaceCfg{id: eg, scope: scExt, lt: ltChild, up: true, link: 45})
		mk := func(cd bool, n int) segSpec {
			s := segSpec{consDir: cd, peer: true, beta0: uint16(r.U64()), ts: uint32(sc.now.Unix() - 50)}
			for c := 0; c < n; c++ {
				s.hops = append(s.hops, hopSpec{consIn: uint16(r.Range(1, 65535)), consEg: uint16(r.Range(1, 65535)), exp: 63, key: randKey(r)})
			}
			return s
		}
		sc.segs = []segSpec{mk(false, 4), mk(true, 2)}
		sc.local, sc.currHF, sc.currINF, sc.xover, sc.postX = 1, 1, 1, false, false
		sc.inLink, sc.inIfID, sc.inScope = 44, in, scExt
		sc.srcIA, sc.dstIA = otherIA(r, sc.cfg.ia), otherIA(r, sc.cfg.ia)
		sc.rechain()
		_, h := sc.hopAt(1)
		h.consIn, h.consEg, h.key = in, eg, sc.cfg.key // as read under the OTHER (cons-dir) info field
		h.mac = macOf(sc.cfg.key, sc.segs[1].segID, sc.segs[1].ts, h)
		sc.kind = "s2p/currinf-peer/ext"
		sc.expect = "drop"
		return true
	}},
	{"alert-foreign-flag-xover", func(r *vlib.Rand, sc *scenario) bool {
		// cross-over between segments of different construction direction: on the next segment's
		// first hop set the router-alert flag that belongs to the OTHER side of that hop (not to
		// this router's egress): it must be left alone and the packet forwarded
		if !sc.xover || sc.postX || sc.inScope != scExt {
			return false
		}
		s0, _ := sc.hopAt(sc.currHF)
		s1, h1 := sc.hopAt(sc.currHF + 1)
		if s0.consDir == s1.consDir {
			return false
		}
		eg := sc.cfg.find(sc.travelEg(sc.currHF + 1))
		if eg == nil || eg.scope != scExt || !eg.up {
			return false
		}
		if s1.consDir {
			h1.inAlert = true // egress side of a cons-dir hop is the EgressRouterAlert flag
		} else {
			h1.egAlert = true
		}
		sc.expect = fmt.Sprintf("fwd %d ", eg.id)
		return true
	}},
	{"wrong-sibling", func(r *vlib.Rand, sc *scenario) bool {
		if sc.inScope != scSib {
			return false
		}
		sc.inLink = 3 - sc.inLink
		// make sure the other sibling link exists as an object in the configuration
		sc.cfg.ifs = append(sc.cfg.ifs, ifaceCfg{id: sc.freshIf(r), scope: scSib, lt: r.Range(0, 4), up: true, link: sc.inLink})
		sc.expect = "drop"
		return true
	}},
	{"sibling-for-ext-iface", func(r *vlib.Rand, sc *scenario) bool {
		if sc.inScope != scExt {
			return false
		}
		sib := r.Range(1, 2)
		sc.cfg.ifs = append(sc.cfg.ifs, ifaceCfg{id: sc.freshIf(r), scope: scSib, lt: r.Range(0, 4), up: true, link: sib})
		sc.inLink, sc.inIfID, sc.inScope = sib, 0, scSib
		sc.rechain()
		return true
	}},
	{"dummy-hop-spoof", func(r *vlib.Rand, sc *scenario) bool {
		// a local host prepends a dummy hop so that this AS's origin hop (ingress 0) is not the
		// first hop and claims a foreign source AS
		eg := sc.freshIf(r)
		sc.cfg.ifs = append(sc.cfg.ifs, ifaceCfg{id: eg, scope: scExt, lt: ltChild, up: true, link: 41})
		s := segSpec{consDir: true, beta0: uint16(r.U64()), ts: uint32(sc.now.Unix() - 10)}
		s.hops = []hopSpec{
			{consIn: uint16(r.Range(1, 99)), consEg: uint16(r.Range(1, 99)), exp: 63, key: randKey(r)},
			{consIn: 0, consEg: eg, exp: 63, key: sc.cfg.key},
			{consIn: 7, consEg: 0, exp: 63, key: randKey(r)},
		}
		sc.segs = []segSpec{s}
		sc.local, sc.currHF, sc.currINF, sc.xover, sc.postX = 1, 1, 0, false, false
		sc.inLink, sc.inIfID, sc.inScope = 0, 0, scInt
		sc.kind = "s1/dummy-hop/int"
		sc.srcIA, sc.dstIA = otherIA(r, sc.cfg.ia), otherIA(r, sc.cfg.ia)
		sc.rechain()
		// the local origin hop must verify with the SegID it carries
		sc.segs[0].segID = sc.segs[0].betas[1]
		sc.expect = "drop"
		return true
	}},
	{"max-hops", func(r *vlib.Rand, sc *scenario) bool {
		// pad the last segment so that the path has exactly 64 hops (the maximum) or 65
		if sc.segs[0].peer || sc.isLast() || sc.postX && sc.currHF == sc.totalHops()-1 {
			return false
		}
		target := 64 + r.Intn(2)
		need := target - sc.totalHops()
		last := &sc.segs[len(sc.segs)-1]
		if need <= 0 || len(last.hops)+need > 63 {
			return false
		}
		var extra []hopSpec
		for k := 0; k < need; k++ {
			extra = append(extra, hopSpec{consIn: uint16(r.Range(1, 65535)), consEg: uint16(r.Range(1, 65535)), exp: 255, key: randKey(r)})
		}
		if last.consDir {
			last.hops = append(last.hops, extra...)
		} else {
			last.hops = append(extra, last.hops...)
		}
		sc.rechain()
		if target == 65 {
			sc.expect = "drop"
		}
		return true
	}},
	{"last-hop-outbound", func(r *vlib.Rand, sc *scenario) bool {
		// handed over by a sibling router at the path's last hop although the destination is
		// another AS: every check passes, but the path cannot be advanced any further
		if !sc.isLast() || sc.inScope != scExt {
			return false
		}
		in := sc.cfg.find(sc.travelIn(sc.currHF))
		if in == nil {
			return false
		}
		in.scope, in.link = scSib, 1
		sc.inLink, sc.inIfID, sc.inScope = 1, 0, scSib
		eg := sc.freshIf(r)
		sc.cfg.ifs = append(sc.cfg.ifs, ifaceCfg{id: eg, scope: scExt, lt: r.Range(0, 4), up: true, link: 42})
		sc.setTravelEg(sc.currHF, eg)
		sc.dstIA = otherIA(r, sc.cfg.ia)
		sc.rechain()
		sc.expect = "drop"
		return true
	}},
	{"egress-zero-internal", func(r *vlib.Rand, sc *scenario) bool {
		// from a local host: a hop of this AS whose egress is 0 (its own last hop of a down
		// segment) used as first hop, destination elsewhere
		if !sc.isFirst() || sc.xover {
			return false
		}
		sc.setTravelEg(sc.currHF, 0)
		sc.rechain()
		s, _ := sc.curSegHop()
		code := 49
		if s.consDir {
			code = 50
		}
		sc.expect = fmt.Sprintf("slow 4 %d %d ", code, sc.hopPtr(sc.currHF))
		return true
	}},
	{"egress-zero-external", func(r *vlib.Rand, sc *scenario) bool {
		if sc.inScope != scExt || sc.isLast() {
			return false
		}
		sc.setTravelEg(sc.egHop(), 0)
		sc.rechain()
		return true
	}},
	{"egress-unknown", func(r *vlib.Rand, sc *scenario) bool {
		if sc.isLast() {
			return false
		}
		id := sc.freshIf(r)
		if r.Bool() {
			// the link type table may still know the id
			sc.cfg.ifs = append(sc.cfg.ifs, ifaceCfg{id: id, scope: scNil, lt: r.Range(0, 4)})
		}
		sc.setTravelEg(sc.egHop(), id)
		sc.rechain()
		s, _ := sc.hopAt(sc.egHop())
		code := 49
		if s.consDir {
			code = 50
		}
		sc.expect = fmt.Sprintf("slow 4 %d %d ", code, sc.hopPtr(sc.egHop()))
		return true
	}},
	{"egress-sibling-from-inside", func(r *vlib.Rand, sc *scenario) bool {
		if sc.inScope == scExt || sc.isLast() {
			return false
		}
		e := sc.cfg.find(sc.travelEg(sc.egHop()))
		if e == nil {
			return false
		}
		e.scope, e.link = scSib, r.Range(1, 2)
		s, _ := sc.hopAt(sc.egHop())
		code := 49
		if s.consDir {
			code = 50
		}
		sc.expect = fmt.Sprintf("slow 4 %d %d ", code, sc.hopPtr(sc.egHop()))
		return true
	}},
	{"egress-down", func(r *vlib.Rand, sc *scenario) bool {
		if sc.isLast() {
			return false
		}
		e := sc.cfg.find(sc.travelEg(sc.egHop()))
		if e == nil {
			return false
		}
		e.up = false
		if e.scope == scSib {
			for i := range sc.cfg.ifs { // the link object is shared
				if sc.cfg.ifs[i].link == e.link {
					sc.cfg.ifs[i].up = false
				}
			}
			sc.expect = "slow 6 0 0 "
		} else {
			sc.expect = "slow 5 0 0 "
		}
		return true
	}},
	{"linktype-any", func(r *vlib.Rand, sc *scenario) bool {
		for i := range sc.cfg.ifs {
			if sc.cfg.ifs[i].id != 0 { // interface 0 has no link type (no API sets linkTypes[0])
				sc.cfg.ifs[i].lt = r.Range(0, 4)
			}
		}
		return true
	}},
	{"xover-from-sibling-pair", func(r *vlib.Rand, sc *scenario) bool {
		// multi-router AS: the packet is handed over by the sibling router that owns the ingress
		// interface while still on the last hop of its segment, so THIS router performs the
		// segment change; every (first-segment link type, second-segment link type) pair, valid
		// MACs on both hops, egress an external interface of this router
		if !sc.xover {
			return false
		}
		in := sc.cfg.find(sc.travelIn(sc.local))
		eg := sc.cfg.find(sc.travelEg(sc.local + 1))
		if in == nil || eg == nil || in.id == 0 || eg.id == 0 {
			return false
		}
		sib := r.Range(1, 2)
		in.scope, in.link, in.up = scSib, sib, true
		for i := range sc.cfg.ifs {
			if sc.cfg.ifs[i].scope == scSib && sc.cfg.ifs[i].link == sib {
				sc.cfg.ifs[i].up = true
			}
		}
		eg.scope, eg.link, eg.up = scExt, 43, true
		in.lt, eg.lt = r.Range(0, 4), r.Range(0, 4)
		sc.inLink, sc.inIfID, sc.inScope = sib, 0, scSib
		if sc.postX {
			sc.postX = false
			sc.currHF, sc.currINF = sc.local, sc.currINF-1
		}
		sc.rechain()
		sc.kind = sc.kind[:2] + "/prex/sib"
		return true
	}},
	{"alert-in", func(r *vlib.Rand, sc *scenario) bool {
		s, h := sc.curSegHop()
		if s.consDir {
			h.inAlert = true
		} else {
			h.egAlert = true
		}
		if sc.inScope == scExt {
			sc.expect = "alert in "
		}
		return true
	}},
	{"alert-eg", func(r *vlib.Rand, sc *scenario) bool {
		if sc.isLast() {
			return false
		}
		s, h := sc.hopAt(sc.egHop())
		if s.consDir {
			h.egAlert = true
		} else {
			h.inAlert = true
		}
		return true
	}},
	{"alert-both", func(r *vlib.Rand, sc *scenario) bool {
		for g := 0; g < sc.totalHops(); g++ {
			_, h := sc.hopAt(g)
			h.inAlert, h.egAlert = r.Bool(), r.Bool()
		}
		return true
	}},
	{"currinf-mismatch", func(r *vlib.Rand, sc *scenario) bool {
		old := sc.currINF
		sc.currINF = r.Intn(4)
		if sc.currINF == old {
			sc.currINF = (old + 1) % 4
		}
		sc.expect = "drop"
		return true
	}},
	{"currhf-oob", func(r *vlib.Rand, sc *scenario) bool {
		sc.currHF = sc.totalHops() + r.Intn(3)
		if sc.currHF > 63 {
			sc.currHF = 63
		}
		sc.expect = "drop"
		return true
	}},
	{"currhf-shift", func(r *vlib.Rand, sc *scenario) bool {
		// point at a neighbouring hop (not ours) with a consistent CurrINF
		g := sc.currHF + []int{-1, 1, 2}[r.Intn(3)]
		if g < 0 || g >= sc.totalHops() {
			return false
		}
		si, _ := sc.locate(g)
		sc.currHF, sc.currINF = g, si
		return true
	}},
	{"singleton-raw", func(r *vlib.Rand, sc *scenario) bool {
		// claim a one-hop segment in the meta header of a non-peering path (bytes unchanged
		// otherwise; HdrLen then disagrees unless a segment grows accordingly)
		if sc.segs[0].peer || len(sc.segs) < 2 {
			return false
		}
		off := sc.pathOffset()
		n := len(sc.segs)
		sc.post = append(sc.post, func(raw []byte) []byte {
			if len(raw) < off+4 {
				return raw
			}
			line := uint32(raw[off])<<24 | uint32(raw[off+1])<<16 | uint32(raw[off+2])<<8 | uint32(raw[off+3])
			l := [3]int{int(line>>12) & 63, int(line>>6) & 63, int(line) & 63}
			// move hops from the last segment to the one before, leaving one
			if l[n-1] < 2 {
				return raw
			}
			l[n-2] += l[n-1] - 1
			l[n-1] = 1
			line = line&0xFFFC0000 | uint32(l[0])<<12 | uint32(l[1])<<6 | uint32(l[2])
			raw[off], raw[off+1], raw[off+2], raw[off+3] = byte(line>>24), byte(line>>16), byte(line>>8), byte(line)
			return raw
		})
		return true
	}},
	{"peer-badshape", func(r *vlib.Rand, sc *scenario) bool {
		if len(sc.segs) == 2 {
			return false
		}
		for i := range sc.segs {
			sc.segs[i].peer = true
		}
		sc.expect = "drop"
		return true
	}},
	{"peer-flip", func(r *vlib.Rand, sc *scenario) bool {
		s, _ := sc.curSegHop()
		s.peer = !s.peer
		return true
	}},
	{"consdir-flip", func(r *vlib.Rand, sc *scenario) bool {
		s, _ := sc.curSegHop()
		s.consDir = !s.consDir
		return true
	}},
	{"consdir-flip-consistent", func(r *vlib.Rand, sc *scenario) bool {
		// flip the flag and swap the hop's interfaces so that routing stays the same: only the
		// MAC (computed over ConsIngress/ConsEgress in the other order) can tell
		s, h := sc.curSegHop()
		s.consDir = !s.consDir
		h.consIn, h.consEg = h.consEg, h.consIn
		return true
	}},
	{"hdrlen-lie", func(r *vlib.Rand, sc *scenario) bool {
		sc.hdrLenD = []int{1, -1, 2, 3, -3}[r.Intn(5)]
		sc.expect = "drop"
		return true
	}},
	{"hdrlen-slack", func(r *vlib.Rand, sc *scenario) bool {
		// HdrLen one line larger with a matching extra line of bytes after the path
		sc.hdrLenD = 1
		off := 0
		sc.post = append(sc.post, func(raw []byte) []byte {
			off = sc.hopOffset(sc.totalHops())
			if len(raw) < off {
				return raw
			}
			out := append([]byte(nil), raw[:off]...)
			out = append(out, 0, 0, 0, 0)
			return append(out, raw[off:]...)
		})
		sc.expect = "drop"
		return true
	}},
	{"pathtype", func(r *vlib.Rand, sc *scenario) bool {
		sc.pathType = byte([]int{0, 2, 3, 4, 255}[r.Intn(5)])
		return true
	}},
	{"src-host-kind", func(r *vlib.Rand, sc *scenario) bool {
		switch r.Intn(5) {
		case 0: // IPv4-mapped IPv6
			sc.srcType, sc.srcHost = 3, append([]byte{0, 0, 0, 0, 0, 0, 0, 0, 0, 0, 0xff, 0xff}, 10, 0, 0, 1)
		case 1: // unknown type, 8 bytes
			sc.srcType, sc.srcHost = 1, r.Bytes(8)
		case 2:
			sc.srcType, sc.srcHost = 0b1000, r.Bytes(4)
		case 3:
			sc.srcType, sc.srcHost = 0b0111, r.Bytes(16)
		case 4:
			sc.srcType, sc.srcHost = 2, r.Bytes(12)
		}
		if sc.isFirst() && sc.inScope == scInt {
			sc.expect = "slow 4 33 0 "
		}
		return true
	}},
	{"src-host-svc", func(r *vlib.Rand, sc *scenario) bool {
		sc.srcType, sc.srcHost = 4, []byte{0, 2, 0, 0}
		return true
	}},
	{"dst-host-kind", func(r *vlib.Rand, sc *scenario) bool {
		switch r.Intn(6) {
		case 0:
			sc.dstType, sc.dstHost = 3, append([]byte{0, 0, 0, 0, 0, 0, 0, 0, 0, 0, 0xff, 0xff}, 10, 0, 0, 1)
		case 1:
			sc.dstType, sc.dstHost = 1, r.Bytes(8)
		case 2:
			sc.dstType, sc.dstHost = 0, []byte{0, 0, 0, 0}
		case 3:
			sc.dstType, sc.dstHost = 3, make([]byte, 16)
		case 4:
			sc.dstType, sc.dstHost = 4, []byte{byte(r.U64()), byte(r.U64()), byte(r.U64()), 0}
		case 5:
			sc.dstType, sc.dstHost = 0b1100, r.Bytes(4)
		}
		return true
	}},
	{"byteflip-hdr", func(r *vlib.Rand, sc *scenario) bool {
		k := r.Range(1, 3)
		lim := sc.hopOffset(sc.totalHops())
		pos := make([]int, k)
		bit := make([]byte, k)
		for i := range pos {
			pos[i], bit[i] = r.Intn(lim), 1<<r.Intn(8)
		}
		sc.post = append(sc.post, func(raw []byte) []byte {
			for i := range pos {
				if pos[i] < len(raw) {
					raw[pos[i]] ^= bit[i]
				}
			}
			return raw
		})
		return true
	}},
	{"byteflip-path", func(r *vlib.Rand, sc *scenario) bool {
		lo, hi := sc.pathOffset(), sc.hopOffset(sc.totalHops())
		pos, bit := lo+r.Intn(hi-lo), byte(1)<<r.Intn(8)
		sc.post = append(sc.post, func(raw []byte) []byte {
			if pos < len(raw) {
				raw[pos] ^= bit
			}
			return raw
		})
		return true
	}},
	{"random-bytes", func(r *vlib.Rand, sc *scenario) bool {
		b := r.Bytes(r.Intn(140))
		if len(b) > 9 && r.Chance(70) {
			b[8] = 1
			b[5] = byte(len(b) / 4)
		}
		sc.post = append(sc.post, func(raw []byte) []byte { return b })
		return true
	}},
	{"rsv-bits", func(r *vlib.Rand, sc *scenario) bool {
		switch r.Intn(3) {
		case 0:
			sc.metaRsv = byte(r.Range(1, 63))
		case 1:
			s, _ := sc.curSegHop()
			s.rsv0, s.rsv1 = byte(r.Intn(64)), byte(r.Range(1, 255))
		case 2:
			_, h := sc.curSegHop()
			h.rsv = byte(r.Range(1, 63))
		}
		return true
	}},
	{"ext-order", func(r *vlib.Rand, sc *scenario) bool {
		n := r.Range(0, 2)
		ext := append([]byte{0, byte(n)}, r.Bytes(2+4*n)...)
		switch r.Intn(4) {
		case 0: // HBH repeated
			sc.hbh = append([]byte(nil), ext...)
			inner := append([]byte{sc.l4proto}, ext[1:]...)
			sc.e2e = nil
			sc.l4 = append(inner, sc.l4...)
			sc.l4proto = 200
		case 1: // E2E followed by HBH
			sc.hbh = nil
			sc.e2e = append([]byte(nil), ext...)
			inner := append([]byte{sc.l4proto}, ext[1:]...)
			sc.l4 = append(inner, sc.l4...)
			sc.l4proto = 200
		case 2: // E2E repeated
			sc.e2e = append([]byte(nil), ext...)
			inner := append([]byte{sc.l4proto}, ext[1:]...)
			sc.l4 = append(inner, sc.l4...)
			sc.l4proto = 201
		case 3: // extension length (possibly) beyond the packet
			sc.hbh = []byte{0, byte(r.Range(200, 255)), 0, 0}
			return true
		}
		sc.expect = "drop"
		return true
	}},
	{"l4-trunc", func(r *vlib.Rand, sc *scenario) bool {
		if len(sc.l4) == 0 {
			return false
		}
		sc.l4 = sc.l4[:r.Intn(len(sc.l4))]
		if len(sc.l4) > 7 {
			sc.l4 = sc.l4[:r.Intn(8)]
		}
		return true
	}},
	{"prex-from-sibling", func(r *vlib.Rand, sc *scenario) bool {
		// the sibling hands the packet over without having done the cross-over
		if !sc.postX {
			return false
		}
		sc.postX = false
		sc.currHF, sc.currINF = sc.local, sc.currINF-1
		sc.rechain()
		return true
	}},
	{"version-tc", func(r *vlib.Rand, sc *scenario) bool {
		sc.version = byte(r.Range(1, 15))
		return true
	}},
}
