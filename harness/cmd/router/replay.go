package main

// Replay of a failing input recorded by ../check (replays/<id>.json): the configuration and
// the packet are pushed through the real router and the model again and the predicates are
// re-evaluated. The router reads the wall clock itself, so an input whose outcome depends on
// the hop not being expired yet reproduces only while that is still the case.

import (
	"encoding/hex"
	"encoding/json"
	"fmt"
	"os"
	"strings"
	"time"

	"verifharness/vlib"
)

type replayDoc struct {
	FailingInput *struct {
		Replay map[string]any `json:"replay"`
	} `json:"failing_input"`
	Other []struct {
		Replay map[string]any `json:"replay"`
	} `json:"other_failing_inputs"`
}

func replayRun(e *vlib.Env, w *world, st *stats) {
	b, err := os.ReadFile(e.Replay)
	if err != nil {
		panic(err)
	}
	var doc replayDoc
	if err := json.Unmarshal(b, &doc); err != nil {
		panic(err)
	}
	var ins []map[string]any
	if doc.FailingInput != nil {
		ins = append(ins, doc.FailingInput.Replay)
	}
	for _, o := range doc.Other {
		ins = append(ins, o.Replay)
	}
	for _, r := range ins {
		if r == nil || r["packet"] == nil {
			continue
		}
		var c asCfg
		fmt.Sscanf(fmt.Sprint(r["local_ia"]), "0x%x", &c.ia)
		c.key, _ = hex.DecodeString(fmt.Sprint(r["key"]))
		if ifs, ok := r["interfaces"].([]any); ok {
			for _, s := range ifs {
				var i ifaceCfg
				var scope string
				var up string
				f := strings.Fields(fmt.Sprint(s))
				if len(f) != 6 {
					continue
				}
				fmt.Sscanf(f[1], "%d", &i.id)
				scope = strings.TrimPrefix(f[2], "scope=")
				fmt.Sscanf(strings.TrimPrefix(f[3], "type="), "%d", &i.lt)
				up = strings.TrimPrefix(f[4], "up=")
				fmt.Sscanf(strings.TrimPrefix(f[5], "link="), "%d", &i.link)
				i.up = up == "true"
				for k, n := range scopeName {
					if n == scope {
						i.scope = k
					}
				}
				c.ifs = append(c.ifs, i)
			}
		}
		if sv, ok := r["svcs"].([]any); ok {
			for _, s := range sv {
				if f, ok := s.(float64); ok {
					c.svcs = append(c.svcs, uint16(f))
				}
			}
		}
		if pv, ok := r["previous_packet_on_same_processor"].(map[string]any); ok && pv["packet"] != nil {
			praw, _ := hex.DecodeString(fmt.Sprint(pv["packet"]))
			ps := &scenario{cfg: c, now: time.Now(), kind: "replay/previous", pathType: 1}
			ps.post = []func([]byte) []byte{func([]byte) []byte { return praw }}
			a, _ := pv["ingress_link"].(float64)
			b, _ := pv["ingress_ifid"].(float64)
			d, _ := pv["ingress_scope"].(float64)
			ps.inLink, ps.inIfID, ps.inScope = int(a), uint16(b), int(d)
			ps.srcHost, ps.dstHost = []byte{0, 0, 0, 0}, []byte{0, 0, 0, 0}
			emit(e, w, st, ps, "replay-previous")
		}
		raw, _ := hex.DecodeString(fmt.Sprint(r["packet"]))
		sc := &scenario{cfg: c, now: time.Now(), kind: fmt.Sprint(r["scenario"]), pathType: 1}
		sc.post = []func([]byte) []byte{func([]byte) []byte { return raw }}
		var lk, ifid, scope float64
		lk, _ = r["ingress_link"].(float64)
		ifid, _ = r["ingress_ifid"].(float64)
		scope, _ = r["ingress_scope"].(float64)
		sc.inLink, sc.inIfID, sc.inScope = int(lk), uint16(ifid), int(scope)
		sc.srcHost, sc.dstHost = []byte{0, 0, 0, 0}, []byte{0, 0, 0, 0}
		emit(e, w, st, sc, "replay:"+fmt.Sprint(r["mutator"]))
	}
}
