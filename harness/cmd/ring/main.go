// Engine "ring" (C48): ties lean/Scion/Model/Ring.lean to private/ringbuf and evaluates the
// C48 property predicate (an independent bounded-FIFO specification written from the statement)
// on the real Ring.
//
//	A. T1, sequential: random operation streams (capacity 1..16 and a few larger, empty or
//	   pre-filled rings, batches 0..20, blocking calls only where enabled, Close in the middle)
//	   against the model, comparing the returned count, the entries handed out AND the ring's
//	   bookkeeping fields and slice contents (verif hook snapshot) after every call.
//	B. T2, concurrent: up to 8 goroutines issue blocking and non-blocking batch reads/writes
//	   and a Close on a real Ring; every call is bracketed by a global atomic sequence number.
//	   A Wing-Gong search finds a linearisation consistent with the real-time order and the
//	   bounded-FIFO specification (none => violation); the linearisation is emitted for the Lean
//	   model to validate (`Ring.step` must produce the same results, and must not say "blocked").
//	   Progress: when nothing moves any more, no caller may be parked while its wait condition
//	   is false (lost wake-up), and after Close every caller returns.
package main

import (
	"context"
	"crypto/sha256"
	"flag"
	"fmt"
	"os"
	"os/exec"
	"path/filepath"
	"runtime"
	"sort"
	"strings"
	"sync"
	"sync/atomic"
	"time"

	"github.com/scionproto/scion/private/ringbuf"

	"verifharness/vlib"
)

// ---------------------------------------------------------------------------------------------
// independent specification: bounded FIFO queue (from the property statement)

type fifo struct {
	q      []int
	cap    int
	closed bool
}

// write returns (n, enabled). enabled=false: a blocking caller has to wait here.
func (f *fifo) write(es []int, block bool) (int, bool) {
	space := f.cap - len(f.q)
	if len(es) > 0 && space == 0 && !f.closed {
		if block {
			return 0, false
		}
		return 0, true
	}
	if f.closed {
		return -1, true
	}
	n := min(space, len(es))
	f.q = append(f.q, es[:n]...)
	return n, true
}

func (f *fifo) read(ln int, block bool) (int, []int, bool) {
	if ln > 0 && len(f.q) == 0 && !f.closed {
		if block {
			return 0, nil, false
		}
		return 0, nil, true
	}
	if f.closed && len(f.q) == 0 {
		return -1, nil, true
	}
	n := min(len(f.q), ln)
	out := append([]int(nil), f.q[:n]...)
	f.q = f.q[n:]
	return n, out, true
}

func (f *fifo) clone() *fifo {
	return &fifo{q: append([]int(nil), f.q...), cap: f.cap, closed: f.closed}
}

func (f *fifo) key() string { return fmt.Sprint(f.q, f.closed) }

// ---------------------------------------------------------------------------------------------

func ids(xs []int) string {
	if len(xs) == 0 {
		return "-"
	}
	s := make([]string, len(xs))
	for i, x := range xs {
		if x < 0 {
			s[i] = "nil"
		} else {
			s[i] = fmt.Sprint(x)
		}
	}
	return strings.Join(s, ",")
}

func b2s(b bool) string {
	if b {
		return "1"
	}
	return "0"
}

func toEntries(xs []int) ringbuf.EntryList {
	el := make(ringbuf.EntryList, len(xs))
	for i, x := range xs {
		el[i] = x
	}
	return el
}

func fromEntries[T any](el []T) []int {
	out := make([]int, len(el))
	for i, e := range el {
		if v, ok := any(e).(int); ok {
			out[i] = v
		} else {
			out[i] = -1
		}
	}
	return out
}

func snapshot(r *ringbuf.Ring) string {
	w, rd, wr, re, cl, ent := ringbuf.VerifConcSnapshot(r)
	return fmt.Sprintf("%d %d %d %d %s %s", w, rd, wr, re, b2s(cl), ids(fromEntries(ent)))
}

var ringSeq atomic.Int64

func newRing(cap int, full bool, base int) (*ringbuf.Ring, []int) {
	id := fmt.Sprintf("verif-%d", ringSeq.Add(1))
	if !full {
		return ringbuf.New(cap, nil, id), nil
	}
	k := 0
	var pre []int
	r := ringbuf.New(cap, func() any { v := base + k; k++; pre = append(pre, v); return v }, id)
	return r, pre
}

// safely runs f and returns the panic message, if any. (A panic inside Ring leaves its mutex
// locked only if the deferred Unlock is missing; the ring is abandoned afterwards anyway.)
func safely(f func()) (msg string) {
	defer func() {
		if r := recover(); r != nil {
			msg = fmt.Sprint(r)
		}
	}()
	f()
	return ""
}

// ---------------------------------------------------------------------------------------------
// A. sequential stream

func sequential(e *vlib.Env, r *vlib.Rand, nRings int) {
	next := 1
	for i := 0; i < nRings; i++ {
		cap := r.Range(1, 16)
		if r.Chance(5) {
			cap = r.Range(17, 40)
		}
		full := r.Chance(25)
		ring, pre := newRing(cap, full, 100000*(i%9+1))
		spec := &fifo{cap: cap, q: append([]int(nil), pre...)}
		if full {
			e.Op(fmt.Sprintf("new %d f %s", cap, ids(pre)), snapshot(ring), "new/full")
		} else {
			e.Op(fmt.Sprintf("new %d e", cap), snapshot(ring), "new/empty")
		}
		nops := r.Range(5, 60)
		closeAt := -1
		if r.Chance(50) {
			closeAt = r.Intn(nops)
		}
		var hist []string
		bad := func(key, what string) {
			e.Violate("C48/"+key, what, map[string]any{"capacity": cap, "prefilled": pre, "ops": hist})
		}
		for k := 0; k < nops; k++ {
			if k == closeAt {
				ring.Close()
				spec.closed = true
				hist = append(hist, "close")
				e.Op("c", "ok | "+snapshot(ring), "close")
				continue
			}
			_, _, wr, re, cl, _ := ringbuf.VerifConcSnapshot(ring)
			if r.Bool() {
				ln := r.Intn(21)
				if r.Chance(15) {
					ln = r.Range(0, 2)
				}
				es := make([]int, ln)
				for j := range es {
					es[j] = next
					next++
				}
				block := r.Bool()
				if ln > 0 && wr == 0 && !cl {
					block = false // would wait for ever in a sequential stream
				}
				var n int
				var blocked bool
				if p := safely(func() { n, blocked = ring.Write(toEntries(es), block) }); p != "" {
					hist = append(hist, fmt.Sprintf("write(%s, block=%v) PANIC", ids(es), block))
					e.Op(fmt.Sprintf("w %s %s", b2s(block), ids(es)), "PANIC", "panic")
					bad("panic", "Write panicked: "+p)
					break
				}
				hist = append(hist, fmt.Sprintf("write(%s, block=%v) = %d", ids(es), block, n))
				tag := "write/some"
				switch {
				case n < 0:
					tag = "write/closed"
				case n == 0 && ln > 0:
					tag = "write/full"
				case n == 0:
					tag = "~write/len0"
				case n < ln:
					tag = "write/partial"
				}
				if w, _, _, _, _, _ := ringbuf.VerifConcSnapshot(ring); n > 0 && w <= n && w < cap {
					tag += "/wrap"
				}
				e.Op(fmt.Sprintf("w %s %s", b2s(block), ids(es)), fmt.Sprintf("%d | %s", n, snapshot(ring)), tag)
				wn, en := spec.write(es, block)
				if !en || wn != n {
					bad("seq-write", fmt.Sprintf("Write of %d entries returned %d, a bounded FIFO with %d free of %d returns %d", ln, n, cap-len(spec.q)+max(wn, 0), cap, wn))
					break
				}
				if blocked {
					bad("seq-blocked-flag", "Write reported that it blocked although it could proceed at once")
					break
				}
			} else {
				ln := r.Intn(21)
				if r.Chance(15) {
					ln = r.Range(0, 2)
				}
				block := r.Bool()
				if ln > 0 && re == 0 && !cl {
					block = false
				}
				buf := make(ringbuf.EntryList, ln)
				var n int
				var blocked bool
				if p := safely(func() { n, blocked = ring.Read(buf, block) }); p != "" {
					hist = append(hist, fmt.Sprintf("read(len=%d, block=%v) PANIC", ln, block))
					e.Op(fmt.Sprintf("r %s %d", b2s(block), ln), "PANIC", "panic")
					bad("panic", "Read panicked: "+p)
					break
				}
				var got []int
				if n > 0 {
					got = fromEntries(buf[:n])
				}
				hist = append(hist, fmt.Sprintf("read(len=%d, block=%v) = %d %s", ln, block, n, ids(got)))
				tag := "read/some"
				switch {
				case n < 0:
					tag = "read/closed"
				case n == 0 && ln > 0:
					tag = "read/empty"
				case n == 0:
					tag = "~read/len0"
				case n < ln:
					tag = "read/partial"
				}
				if _, rd, _, _, _, _ := ringbuf.VerifConcSnapshot(ring); n > 0 && rd <= n && rd < cap {
					tag += "/wrap"
				}
				e.Op(fmt.Sprintf("r %s %d", b2s(block), ln), fmt.Sprintf("%d %s | %s", n, ids(got), snapshot(ring)), tag)
				rn, rout, en := spec.read(ln, block)
				if !en || rn != n || ids(rout) != ids(got) {
					bad("seq-read", fmt.Sprintf("Read(len=%d) returned %d %s, a bounded FIFO returns %d %s", ln, n, ids(got), rn, ids(rout)))
					break
				}
				if blocked {
					bad("seq-blocked-flag", "Read reported that it blocked although it could proceed at once")
					break
				}
			}
		}
	}
}

// ---------------------------------------------------------------------------------------------
// B. concurrent histories

type cop struct {
	g        int
	kind     byte // 'w', 'r', 'c'
	block    bool
	es       []int // write: entries offered
	ln       int   // read: len(entries)
	inv, ret int64 // ret = 0: still pending
	n        int
	got      []int
	blocked  bool
	panicked string
}

func (o *cop) String() string {
	res := "pending"
	if o.ret != 0 {
		res = fmt.Sprintf("%d", o.n)
		if o.kind == 'r' {
			res += " " + ids(o.got)
		}
	}
	switch o.kind {
	case 'w':
		return fmt.Sprintf("g%d [%d,%d] write(%s, block=%v) = %s", o.g, o.inv, o.ret, ids(o.es), o.block, res)
	case 'r':
		return fmt.Sprintf("g%d [%d,%d] read(len=%d, block=%v) = %s", o.g, o.inv, o.ret, o.ln, o.block, res)
	}
	return fmt.Sprintf("g%d [%d,%d] close", o.g, o.inv, o.ret)
}

// static describes the call from its immutable fields only (safe while the call is running).
func (o *cop) static() string {
	switch o.kind {
	case 'w':
		return fmt.Sprintf("g%d write(%s, block=%v)", o.g, ids(o.es), o.block)
	case 'r':
		return fmt.Sprintf("g%d read(len=%d, block=%v)", o.g, o.ln, o.block)
	}
	return fmt.Sprintf("g%d close", o.g)
}

type history struct {
	cap  int
	pre  []int
	ops  []*cop
	note string
}

func (h *history) dump() map[string]any {
	ops := append([]*cop(nil), h.ops...)
	sort.Slice(ops, func(i, j int) bool { return ops[i].inv < ops[j].inv })
	var s []string
	for _, o := range ops {
		s = append(s, o.String())
	}
	return map[string]any{"capacity": h.cap, "prefilled": h.pre, "ops_by_invocation": s, "note": h.note}
}

type gstate struct {
	cur    atomic.Pointer[cop] // op in flight
	done   atomic.Bool
	nDone  atomic.Int64
	script []*cop
}

// runHistory executes one random concurrent workload on a real Ring.
// Returns the history and "" or the key of a progress violation.
func runHistory(r *vlib.Rand, slowConfirm bool) (*history, string, string) {
	cap := r.Range(1, 16)
	full := r.Chance(20)
	ring, pre := newRing(cap, full, 500000)
	h := &history{cap: cap, pre: pre}
	ng := r.Range(2, 8)
	next := 1
	closer := -1
	if r.Chance(60) {
		closer = r.Intn(ng)
	}
	gs := make([]*gstate, ng)
	small := r.Chance(35) // many single-entry transfers: more contention on few cells
	for g := 0; g < ng; g++ {
		gs[g] = &gstate{}
		nops := r.Range(1, 6)
		closeAt := -1
		if g == closer {
			closeAt = r.Intn(nops)
		}
		role := r.Intn(3) // 0 mixed, 1 mostly writer, 2 mostly reader
		for k := 0; k < nops; k++ {
			if k == closeAt {
				gs[g].script = append(gs[g].script, &cop{g: g, kind: 'c'})
				continue
			}
			ln := r.Intn(21)
			if small {
				ln = r.Range(0, 2)
			}
			w := r.Bool()
			if role == 1 {
				w = r.Chance(85)
			} else if role == 2 {
				w = r.Chance(15)
			}
			if w {
				es := make([]int, ln)
				for j := range es {
					es[j] = next
					next++
				}
				gs[g].script = append(gs[g].script, &cop{g: g, kind: 'w', block: r.Chance(60), es: es})
			} else {
				gs[g].script = append(gs[g].script, &cop{g: g, kind: 'r', block: r.Chance(60), ln: ln})
			}
		}
	}
	var seq atomic.Int64
	exec := func(o *cop) {
		defer func() {
			if r := recover(); r != nil {
				o.panicked = fmt.Sprint(r)
				o.ret = seq.Add(1)
				o.n = -99
			}
		}()
		switch o.kind {
		case 'w':
			el := toEntries(o.es)
			o.inv = seq.Add(1)
			n, bl := ring.Write(el, o.block)
			o.ret = seq.Add(1)
			o.n, o.blocked = n, bl
		case 'r':
			buf := make(ringbuf.EntryList, o.ln)
			o.inv = seq.Add(1)
			n, bl := ring.Read(buf, o.block)
			o.ret = seq.Add(1)
			o.n, o.blocked = n, bl
			if n > 0 {
				o.got = fromEntries(buf[:n])
			}
		case 'c':
			o.inv = seq.Add(1)
			ring.Close()
			o.ret = seq.Add(1)
		}
	}
	var wg sync.WaitGroup
	start := make(chan struct{})
	var total atomic.Int64
	yield := make([]int, ng)
	for g := range yield {
		yield[g] = r.Intn(4)
	}
	for g := 0; g < ng; g++ {
		wg.Add(1)
		go func(g int) {
			defer wg.Done()
			st := gs[g]
			<-start
			for _, o := range st.script {
				for y := 0; y < yield[g]; y++ {
					runtime.Gosched()
				}
				st.cur.Store(o)
				exec(o)
				st.cur.Store(nil)
				st.nDone.Add(1)
				total.Add(1)
			}
			st.done.Store(true)
		}(g)
	}
	close(start)
	allDone := make(chan struct{})
	go func() { wg.Wait(); close(allDone) }()

	// quiescence: every goroutine finished or inside a call, and nothing completed for a while
	stuckKey, stuckWhat := "", ""
	quiet := func(d time.Duration) bool {
		t0 := time.Now()
		last := total.Load()
		for time.Since(t0) < d {
			select {
			case <-allDone:
				return true
			default:
			}
			time.Sleep(100 * time.Microsecond)
			if v := total.Load(); v != last {
				last = v
				t0 = time.Now()
			}
			for _, st := range gs {
				if !st.done.Load() && st.cur.Load() == nil {
					t0 = time.Now() // between two calls: still running
				}
			}
		}
		return true
	}
	// suspicious: a parked caller whose wait condition is false
	suspicious := func() (string, string) {
		_, _, wr, re, cl, _ := ringbuf.VerifConcSnapshot(ring)
		for _, st := range gs {
			o := st.cur.Load()
			if o == nil || st.done.Load() {
				continue
			}
			switch {
			case o.kind == 'r' && (re > 0 || cl || o.ln == 0 || !o.block):
				return "lost-wakeup-read", fmt.Sprintf("%s does not return although readable=%d closed=%v", o.static(), re, cl)
			case o.kind == 'w' && (wr > 0 || cl || len(o.es) == 0 || !o.block):
				return "lost-wakeup-write", fmt.Sprintf("%s does not return although writable=%d closed=%v", o.static(), wr, cl)
			case o.kind == 'c':
				return "close-hangs", "Close does not return"
			}
		}
		return "", ""
	}
	quiet(2 * time.Millisecond)
	if k, _ := suspicious(); k != "" {
		// re-confirm with generous waits before reporting (the machine may be loaded)
		waits := []time.Duration{300 * time.Millisecond, 3 * time.Second, 12 * time.Second}
		if !slowConfirm {
			waits = waits[:1]
		}
		for _, d := range waits {
			quiet(d)
			if k, _ = suspicious(); k == "" {
				break
			}
		}
		if k, w := suspicious(); k != "" {
			stuckKey, stuckWhat = k, w
		}
	}
	// the harness closes the ring: every caller must return
	select {
	case <-allDone:
	default:
		c := &cop{g: ng, kind: 'c'}
		exec(c)
		h.ops = append(h.ops, c)
		released := false
		for _, d := range []time.Duration{10 * time.Second, 30 * time.Second} {
			select {
			case <-allDone:
				released = true
			case <-time.After(d):
			}
			if released || !slowConfirm {
				break
			}
		}
		if !released && stuckKey == "" {
			stuckKey, stuckWhat = "not-released-by-close", "a caller is still blocked 40 s after Close"
		}
		if !released {
			// cannot wait for the goroutines; copy what is safely readable (completed ops only)
			for _, st := range gs {
				n := int(st.nDone.Load())
				h.ops = append(h.ops, st.script[:n]...)
			}
			return h, stuckKey, stuckWhat
		}
	}
	for _, st := range gs {
		h.ops = append(h.ops, st.script...)
	}
	return h, stuckKey, stuckWhat
}

// linearise searches a linearisation of the completed history (Wing & Gong, memoised).
// Returns the order, or nil; inconclusive=true if the node budget ran out.
func linearise(h *history) (order []*cop, inconclusive bool) {
	ops := append([]*cop(nil), h.ops...)
	sort.Slice(ops, func(i, j int) bool { return ops[i].inv < ops[j].inv })
	n := len(ops)
	if n > 62 {
		return nil, true
	}
	seen := map[string]struct{}{}
	budget := 3000000
	var res []*cop
	var dfs func(mask uint64, f *fifo) bool
	dfs = func(mask uint64, f *fifo) bool {
		if mask == (uint64(1)<<n)-1 {
			return true
		}
		budget--
		if budget < 0 {
			return false
		}
		key := fmt.Sprint(mask, f.key())
		if _, ok := seen[key]; ok {
			return false
		}
		seen[key] = struct{}{}
		// earliest return among the not yet linearised operations
		minRet := int64(1 << 62)
		for i, o := range ops {
			if mask&(1<<i) == 0 && o.ret < minRet {
				minRet = o.ret
			}
		}
		for i, o := range ops {
			if mask&(1<<i) != 0 || o.inv > minRet {
				continue
			}
			g := f.clone()
			ok := false
			switch o.kind {
			case 'w':
				wn, en := g.write(o.es, o.block)
				ok = en && wn == o.n
			case 'r':
				rn, out, en := g.read(o.ln, o.block)
				ok = en && rn == o.n && ids(out) == ids(o.got)
			case 'c':
				g.closed = true
				ok = true
			}
			if ok {
				res = append(res, o)
				if dfs(mask|1<<i, g) {
					return true
				}
				res = res[:len(res)-1]
			}
		}
		return false
	}
	if dfs(0, &fifo{cap: h.cap, q: append([]int(nil), h.pre...)}) {
		return res, false
	}
	return nil, budget < 0
}

var raceChild = flag.Bool("race-child", false, "internal: run only the concurrent histories (binary built with -race)")

// raceRun (thorough tier): builds this engine with the race detector and runs the concurrent
// workloads under it. A data race reported inside private/ringbuf is a violation.
func raceRun(e *vlib.Env) {
	vdir, repo := os.Getenv("VERIF_DIR"), os.Getenv("VERIF_REPO")
	if vdir == "" {
		e.Extra["race_run"] = "skipped: VERIF_DIR not set"
		return
	}
	outAbs, aerr := filepath.Abs(e.Out)
	if aerr != nil {
		e.Extra["race_run"] = "skipped: " + aerr.Error()
		return
	}
	bin := filepath.Join(outAbs, "vh_ring_race")
	args := []string{"build", "-race", "-tags", "verif", "-o", bin}
	if repo != "" && repo != "/repo" {
		tag := fmt.Sprintf("%x", sha256.Sum256([]byte(repo)))[:8]
		args = append(args, "-modfile", filepath.Join(vdir, ".work", "gomod_"+tag+".mod"))
	}
	args = append(args, "./cmd/ring")
	env := []string{}
	for _, kv := range os.Environ() {
		if strings.HasPrefix(kv, "GOSUMDB=") || strings.HasPrefix(kv, "GOTOOLCHAIN=") || strings.HasPrefix(kv, "GOFLAGS=") ||
			strings.HasPrefix(kv, "GOPROXY=") {
			continue
		}
		env = append(env, kv)
	}
	env = append(env, "GOFLAGS=-mod=mod", "GOPROXY=off")
	b := exec.Command("go", args...)
	b.Dir = filepath.Join(vdir, "harness")
	b.Env = env
	if out, err := b.CombinedOutput(); err != nil {
		t := string(out)
		if len(t) > 600 {
			t = t[len(t)-600:]
		}
		e.Extra["race_run"] = "race build not available: " + t
		return
	}
	sub := filepath.Join(outAbs, "race")
	ctx, cancel := context.WithTimeout(context.Background(), 25*time.Minute)
	defer cancel()
	c := exec.CommandContext(ctx, bin, "-prop", e.Prop, "-tier", e.Tier, "-seed", fmt.Sprint(e.Seed), "-out", sub, "-race-child")
	c.Env = append(env, "GORACE=halt_on_error=0 exitcode=0")
	out, err := c.CombinedOutput()
	txt := string(out)
	switch {
	case strings.Contains(txt, "WARNING: DATA RACE") && strings.Contains(txt, "private/ringbuf"):
		i := strings.Index(txt, "WARNING: DATA RACE")
		rep := txt[i:]
		if len(rep) > 3000 {
			rep = rep[:3000]
		}
		e.Violate("C48/data-race", "the race detector reports a data race inside private/ringbuf under the concurrent workloads", map[string]any{"report": rep, "seed": e.Seed})
		e.Extra["race_run"] = "DATA RACE"
	case strings.Contains(txt, "WARNING: DATA RACE"):
		e.Extra["race_run"] = "race report outside private/ringbuf (harness): ignored"
		fmt.Fprintln(os.Stderr, txt)
	case err != nil:
		// environmental failure of the helper (killed, out of memory, ...): recorded, never an alarm
		e.Extra["race_run"] = "skipped: race child failed without a race report: " + err.Error()
		fmt.Fprintln(os.Stderr, txt)
	default:
		e.Extra["race_run"] = "ok: concurrent workloads under -race, no report"
	}
}

func main() {
	e := vlib.Init()
	r := vlib.NewRand(uint64(e.Seed))
	if *raceChild {
		n, bad := 4000, 0
		for i := 0; i < n; i++ {
			h, stuck, _ := runHistory(vlib.CaseRand(e.Seed, 2000000+i), false)
			if stuck != "" {
				bad++
				continue
			}
			if order, inc := linearise(h); order == nil && !inc {
				bad++
			}
		}
		e.Extra["race_child_histories"] = n
		e.Extra["race_child_bad"] = bad
		e.Finish()
		return
	}
	e.Rule = "A: sequential random op streams on real Rings (capacity 1..16, some 17..40, empty or pre-filled, batches 0..20, " +
		"blocking where enabled, Close at a random point) compared with the model incl. index fields and slice contents; " +
		"B: concurrent histories (2..8 goroutines x 1..6 calls, blocking/non-blocking, capacity 1..16, batches 0..20 or 0..2, " +
		"Close by a participant or by the harness at quiescence) linearised by a Wing-Gong search against an independent bounded-FIFO " +
		"specification and replayed through the model; non-trivial = transfers at least one entry, hits full/empty/closed, or a history; " +
		"distinct by op line / by history fingerprint"
	sequential(e, r, e.N(1500, 20000))

	nh := e.N(700, 12000)
	inconcl, pendingSeen, blockedCalls := 0, 0, 0
	confirmed := false
	for i := 0; i < nh; i++ {
		hr := vlib.CaseRand(e.Seed, 1000000+i)
		h, stuck, what := runHistory(hr, !confirmed)
		if stuck != "" {
			confirmed = true
			h.note = what
			e.Violate("C48/"+stuck, what, h.dump())
			// a ring whose callers hang cannot be linearised meaningfully; go on with the next
			e.Case(fmt.Sprint("stuck", i), "history/stuck", false)
			continue
		}
		panicked := false
		for _, o := range h.ops {
			if o.panicked != "" && !panicked {
				panicked = true
				h.note = o.String() + " PANIC " + o.panicked
				e.Violate("C48/panic", "a ring operation panicked: "+o.panicked, h.dump())
			}
		}
		if panicked {
			e.Case(fmt.Sprint("panic", i), "history/panic", false)
			continue
		}
		for _, o := range h.ops {
			if o.blocked {
				blockedCalls++
			}
			if !o.block && o.blocked {
				e.Violate("C48/nonblocking-blocked", "a non-blocking call reports that it blocked", h.dump())
			}
		}
		order, inc := linearise(h)
		if order == nil && inc {
			inconcl++
			e.Case(fmt.Sprint("inconclusive", i), "~history/search-budget", true)
			continue
		}
		if order == nil {
			e.Violate("C48/not-linearizable", "no order of the calls consistent with their real-time order behaves like a bounded FIFO queue", h.dump())
			e.Case(fmt.Sprint("nolin", i), "history/not-linearizable", false)
			continue
		}
		// emit the linearisation for the model
		if h.pre != nil {
			e.Op(fmt.Sprintf("new %d f %s", h.cap, ids(h.pre)), fmt.Sprintf("0 0 0 %d 0 %s", h.cap, ids(h.pre)), "~new/full")
		} else {
			nils := make([]int, h.cap)
			for k := range nils {
				nils[k] = -1
			}
			e.Op(fmt.Sprintf("new %d e", h.cap), fmt.Sprintf("0 0 %d 0 0 %s", h.cap, ids(nils)), "~new/empty")
		}
		fp := []string{fmt.Sprint(h.cap, len(h.pre))}
		for _, o := range order {
			switch o.kind {
			case 'w':
				tag := "lin/write"
				if o.blocked {
					tag = "lin/write-after-wait"
				}
				if o.n < 0 {
					tag += "/closed"
				}
				e.Op(fmt.Sprintf("lw %s %s", b2s(o.block), ids(o.es)), fmt.Sprint(o.n), tag)
				fp = append(fp, fmt.Sprintf("w%d:%d", len(o.es), o.n))
			case 'r':
				tag := "lin/read"
				if o.blocked {
					tag = "lin/read-after-wait"
				}
				if o.n < 0 {
					tag += "/closed"
				}
				e.Op(fmt.Sprintf("lr %s %d", b2s(o.block), o.ln), fmt.Sprintf("%d %s", o.n, ids(o.got)), tag)
				fp = append(fp, fmt.Sprintf("r%d:%d", o.ln, o.n))
			case 'c':
				e.Op("lc", "ok", "lin/close")
				fp = append(fp, "c")
			}
		}
		_ = pendingSeen
		e.Case(strings.Join(fp, " "), "history/linearised", false)
		if i == 0 {
			e.Sample(h.dump())
		}
	}
	if e.Thorough() {
		raceRun(e)
	}
	e.Extra["histories"] = nh
	e.Extra["search_budget_exceeded"] = inconcl
	e.Extra["calls_that_waited"] = blockedCalls
	e.Finish()
}
