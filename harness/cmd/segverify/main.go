// Engine "segverify" (C24): real path segments (<= 10 AS entries) signed with real ECDSA keys
// through the real signing path (seg.PathSegment.AddASEntry + trust.Signer), verified by the real
// segverifier.VerifySegment + trust.Verifier over a real (in-memory sqlite) trust DB, after
// protobuf-level mutations. Ties lean/Scion/Model/SegVerify.lean and evaluates the C24 predicate
// (written from the statement) on the implementation's answers.
//
// Correspondence lines:
//
//	seg <info> (I <ts>|X 0) <ncerts> {<ia> <skid> <nbNs> <naNs> <e|o>} <nentries>
//	    {<hb> <sig> (O <hdr> <body> <unknown>|X - - -) (P <algo> <keyid> <sec> <nanos> <meta> <adlen>|E 0 - 0 0 - 0)
//	     (K <ia> <skid>|N 0 -) (B <local> <exp>|Z 0 0) <sigok bit per cert>}
//	    -> parse-err | ok - | err <first failing index>
//	ad <idx> <info> <n> {<hb> <sig>} -> the associated data slices of entry idx
package main

import (
	"context"
	"crypto"
	"crypto/ecdsa"
	"crypto/ed25519"
	"crypto/elliptic"
	"crypto/rand"
	"crypto/sha256"
	"crypto/sha512"
	"crypto/x509"
	"crypto/x509/pkix"
	"encoding/asn1"
	"fmt"
	"math/big"
	"net"
	"strings"
	"time"

	"github.com/patrickmn/go-cache"
	"google.golang.org/protobuf/encoding/protowire"
	"google.golang.org/protobuf/proto"

	"github.com/scionproto/scion/pkg/addr"
	cppb "github.com/scionproto/scion/pkg/proto/control_plane"
	cryptopb "github.com/scionproto/scion/pkg/proto/crypto"
	"github.com/scionproto/scion/pkg/scrypto/cppki"
	"github.com/scionproto/scion/pkg/scrypto/signed"
	seg "github.com/scionproto/scion/pkg/segment"
	"github.com/scionproto/scion/pkg/slayers/path"
	"github.com/scionproto/scion/private/segment/segverifier"
	infra "github.com/scionproto/scion/private/segment/verifier"
	"github.com/scionproto/scion/private/storage/db"
	"github.com/scionproto/scion/private/storage/trust/sqlite"
	"github.com/scionproto/scion/private/trust"
	"github.com/scionproto/scion/private/trust/compat"

	"verifharness/vlib"
)

const t0 = 1700000000 // base of all segment timestamps (2023-11-14)

var curves = []elliptic.Curve{elliptic.P256(), elliptic.P384(), elliptic.P521()}

func detKey(c elliptic.Curve, r *vlib.Rand) *ecdsa.PrivateKey {
	n := (c.Params().BitSize + 7) / 8
	for {
		b := r.Bytes(n)
		if c.Params().BitSize%8 != 0 {
			b[0] &= byte(1<<(c.Params().BitSize%8)) - 1
		}
		if k, err := ecdsa.ParseRawPrivateKey(c, b); err == nil {
			return k
		}
	}
}

// certKey: one AS certificate in the trust DB together with its private key.
type certKey struct {
	idx    int // index in world.certs (model's public key id)
	ia     addr.IA
	priv   crypto.Signer
	ecPub  *ecdsa.PublicKey // nil for non-ECDSA
	skid   []byte
	cert   *x509.Certificate
	inDB   bool
	class  string // main | short | late | ed25519 | rogue
}

type world struct {
	ases   []addr.IA
	certs  []*certKey            // those in the DB, in model order
	byIA   map[addr.IA][]*certKey // incl. rogue (not in DB)
	db     sqlite.DB
	caCert *x509.Certificate
	caKey  *ecdsa.PrivateKey
	serial int64
	memo   map[string]bool // (cert, digest, signature) -> ecdsa.VerifyASN1
}

// provider: trust.Provider over the real sqlite trust DB (chain validation against TRCs is
// C34's subject and stubbed out here).
type provider struct{ db sqlite.DB }

func (p provider) NotifyTRC(context.Context, cppki.TRCID, ...trust.Option) error { return nil }
func (p provider) GetChains(ctx context.Context, q trust.ChainQuery, _ ...trust.Option) ([][]*x509.Certificate, error) {
	return p.db.Chains(ctx, q)
}
func (p provider) GetSignedTRC(context.Context, cppki.TRCID, ...trust.Option) (cppki.SignedTRC, error) {
	return cppki.SignedTRC{}, nil
}

func (w *world) mkCert(ia addr.IA, pub crypto.PublicKey, skid []byte, nb, na time.Time) *x509.Certificate {
	w.serial++
	tmpl := &x509.Certificate{
		SerialNumber: big.NewInt(w.serial),
		Subject: pkix.Name{CommonName: "AS " + ia.String(),
			ExtraNames: []pkix.AttributeTypeAndValue{{Type: cppki.OIDNameIA, Value: ia.String()}}},
		NotBefore: nb, NotAfter: na, SubjectKeyId: skid,
		KeyUsage: x509.KeyUsageDigitalSignature,
	}
	der, err := x509.CreateCertificate(rand.Reader, tmpl, w.caCert, pub, w.caKey)
	if err != nil {
		panic(err)
	}
	c, err := x509.ParseCertificate(der)
	if err != nil {
		panic(err)
	}
	return c
}

func newWorld(r *vlib.Rand, name string) *world {
	w := &world{byIA: map[addr.IA][]*certKey{}, memo: map[string]bool{}}
	var err error
	w.db, err = sqlite.New(name, &db.SqliteConfig{InMemory: true})
	if err != nil {
		panic(err)
	}
	w.caKey = detKey(elliptic.P256(), r)
	caT := &x509.Certificate{SerialNumber: big.NewInt(1), Subject: pkix.Name{CommonName: "CA"},
		NotBefore: time.Unix(t0-400*86400, 0), NotAfter: time.Unix(t0+400*86400, 0), IsCA: true,
		BasicConstraintsValid: true, KeyUsage: x509.KeyUsageCertSign, SubjectKeyId: []byte{0xca}}
	der, err := x509.CreateCertificate(rand.Reader, caT, caT, w.caKey.Public(), w.caKey)
	if err != nil {
		panic(err)
	}
	w.caCert, _ = x509.ParseCertificate(der)
	w.serial = 10
	for i := 0; i < 12; i++ {
		w.ases = append(w.ases, addr.MustIAFrom(addr.ISD(1+i%2), addr.AS(0xff0000000100+uint64(i))))
	}
	add := func(ia addr.IA, priv crypto.Signer, nb, na int64, class string, inDB bool) *certKey {
		skid := r.Bytes(20)
		ck := &certKey{ia: ia, priv: priv, skid: skid, class: class, inDB: inDB}
		if p, ok := priv.Public().(*ecdsa.PublicKey); ok {
			ck.ecPub = p
		}
		ck.cert = w.mkCert(ia, priv.Public(), skid, time.Unix(nb, 0), time.Unix(na, 0))
		if inDB {
			if _, err := w.db.InsertChain(context.Background(), []*x509.Certificate{ck.cert, w.caCert}); err != nil {
				panic(err)
			}
			ck.idx = len(w.certs)
			w.certs = append(w.certs, ck)
		}
		w.byIA[ia] = append(w.byIA[ia], ck)
		return ck
	}
	day := int64(86400)
	for i, ia := range w.ases {
		// main: covers every honest segment
		add(ia, detKey(curves[i%3], r), t0-30*day, t0+30*day, "main", true)
		// short: ends inside the range of segment lifetimes (boundary cases are placed relative to it)
		add(ia, detKey(curves[(i+1)%3], r), t0-30*day, t0+3*3600+int64(r.Intn(3600)), "short", true)
		// late: starts inside the range of timestamps
		add(ia, detKey(curves[(i+2)%3], r), t0+1800+int64(r.Intn(1800)), t0+30*day, "late", true)
		// rogue: a key that is not certified at all
		add(ia, detKey(curves[i%3], r), t0-30*day, t0+30*day, "rogue", false)
	}
	// one AS certificate with a non-ECDSA key
	add(w.ases[0], ed25519.NewKeyFromSeed(r.Bytes(32)), t0-30*day, t0+30*day, "ed25519", true)
	return w
}

func (w *world) pick(ia addr.IA, class string) *certKey {
	for _, c := range w.byIA[ia] {
		if c.class == class {
			return c
		}
	}
	panic("no such cert")
}

func (c *certKey) signer(keyIDIA addr.IA, keyIDSkid []byte) trust.Signer {
	algo := signed.ECDSAWithSHA256
	if c.ecPub != nil {
		algo, _ = signed.SelectSignatureAlgorithm(c.ecPub)
	}
	return trust.Signer{PrivateKey: c.priv, Algorithm: algo, IA: keyIDIA, SubjectKeyID: keyIDSkid,
		Expiration: time.Now().Add(24 * time.Hour), TRCID: cppki.TRCID{ISD: keyIDIA.ISD(), Base: 1, Serial: 1}}
}

// entrySpec describes how one AS entry is produced.
type entrySpec struct {
	ia     addr.IA
	exp    uint8
	ck     *certKey // signing key
	kidIA  addr.IA  // IA written into the verification key id
	kidSK  []byte   // subject key id written into the verification key id
	honest bool
}

func (w *world) build(r *vlib.Rand, ts int64, segID uint16, specs []entrySpec, beacon bool) *seg.PathSegment {
	ps, err := seg.CreateSegment(time.Unix(ts, 0), segID)
	if err != nil {
		panic(err)
	}
	for i, sp := range specs {
		var next addr.IA
		eg := uint16(1 + r.Intn(60000))
		if i+1 < len(specs) {
			next = specs[i+1].ia
		} else if beacon {
			next = w.ases[r.Intn(len(w.ases))]
		} else {
			eg = 0
		}
		in := uint16(0)
		if i > 0 {
			in = uint16(1 + r.Intn(60000))
		}
		var mac [path.MacLen]byte
		copy(mac[:], r.Bytes(path.MacLen))
		e := seg.ASEntry{Local: sp.ia, Next: next, MTU: 1200 + r.Intn(8000),
			HopEntry: seg.HopEntry{IngressMTU: r.Intn(9000),
				HopField: seg.HopField{ConsIngress: in, ConsEgress: eg, ExpTime: sp.exp, MAC: mac}}}
		for k := r.Intn(3); k > 0; k-- {
			var pm [path.MacLen]byte
			copy(pm[:], r.Bytes(path.MacLen))
			e.PeerEntries = append(e.PeerEntries, seg.PeerEntry{Peer: w.ases[r.Intn(len(w.ases))],
				PeerInterface: uint16(r.Intn(65536)), PeerMTU: 1200 + r.Intn(500),
				HopField: seg.HopField{ConsIngress: uint16(1 + r.Intn(60000)), ConsEgress: eg, ExpTime: uint8(r.Intn(256)), MAC: pm}})
		}
		if err := ps.AddASEntry(context.Background(), e, sp.ck.signer(sp.kidIA, sp.kidSK)); err != nil {
			panic(fmt.Sprintf("AddASEntry: %v", err))
		}
	}
	return ps
}

func hashFor(algo int, data []byte) []byte {
	switch algo {
	case 1:
		s := sha256.Sum256(data)
		return s[:]
	case 2:
		s := sha512.Sum384(data)
		return s[:]
	case 3:
		s := sha512.Sum512(data)
		return s[:]
	}
	return nil
}

// entryFacts: what the parsers / the primitive yield on one raw entry (see file comment).
type entryFacts struct {
	parsed  bool
	local   addr.IA
	exp     uint8
	kidOK   bool
	kidIA   addr.IA
	kidSK   []byte
	sigok   []bool
	words   string
}

type segFacts struct {
	tsOK    bool
	ts      time.Time
	entries []entryFacts
	op      string
}

func (w *world) certWords() string {
	var sb strings.Builder
	fmt.Fprintf(&sb, "%d", len(w.certs))
	for _, c := range w.certs {
		k := "o"
		if c.ecPub != nil {
			k = "e"
		}
		fmt.Fprintf(&sb, " %d %s %d %d %s", uint64(c.ia), vlib.Hex(c.skid), c.cert.NotBefore.UnixNano(),
			c.cert.NotAfter.UnixNano(), k)
	}
	return sb.String()
}

func (w *world) facts(pb *cppb.PathSegment) segFacts {
	var f segFacts
	var sb strings.Builder
	sb.WriteString("seg " + vlib.Hex(pb.SegmentInfo))
	if s, err := seg.VerifSegmentFromPB(&cppb.PathSegment{SegmentInfo: pb.SegmentInfo}); err == nil {
		f.tsOK, f.ts = true, s.Info.Timestamp
		fmt.Fprintf(&sb, " I %d ", f.ts.Unix())
	} else {
		sb.WriteString(" X 0 ")
	}
	sb.WriteString(w.certWords())
	fmt.Fprintf(&sb, " %d", len(pb.AsEntries))
	ad := append([]byte(nil), pb.SegmentInfo...)
	for _, pe := range pb.AsEntries {
		var ef entryFacts
		sm := pe.GetSigned()
		if sm == nil {
			sm = &cryptopb.SignedMessage{}
		}
		hb, sig := sm.HeaderAndBody, sm.Signature
		fmt.Fprintf(&sb, " %s %s", vlib.Hex(hb), vlib.Hex(sig))
		var outer cryptopb.HeaderAndBody
		algo := 0
		if err := proto.Unmarshal(hb, &outer); err != nil {
			sb.WriteString(" X - - - E 0 - 0 0 - 0 N 0 -")
		} else {
			fmt.Fprintf(&sb, " O %s %s %s", vlib.Hex(outer.Header), vlib.Hex(outer.Body), vlib.Hex(outer.ProtoReflect().GetUnknown()))
			uh, err := signed.ExtractUnverifiedHeader(sm)
			if err != nil {
				sb.WriteString(" E 0 - 0 0 - 0 N 0 -")
			} else {
				algo = int(uh.SignatureAlgorithm)
				fmt.Fprintf(&sb, " P %d %s %d %d %s %d", algo, vlib.Hex(uh.VerificationKeyID), uh.Timestamp.Unix(),
					uh.Timestamp.Nanosecond(), vlib.Hex(uh.Metadata), uh.AssociatedDataLength)
				var kid cppb.VerificationKeyID
				if err := proto.Unmarshal(uh.VerificationKeyID, &kid); err != nil {
					sb.WriteString(" N 0 -")
				} else {
					ef.kidOK, ef.kidIA, ef.kidSK = true, addr.IA(kid.IsdAs), kid.SubjectKeyId
					fmt.Fprintf(&sb, " K %d %s", kid.IsdAs, vlib.Hex(kid.SubjectKeyId))
				}
			}
		}
		if e, err := seg.ASEntryFromPB(pe); err != nil {
			sb.WriteString(" Z 0 0")
		} else {
			ef.parsed, ef.local, ef.exp = true, e.Local, e.HopEntry.HopField.ExpTime
			fmt.Fprintf(&sb, " B %d %d", uint64(e.Local), e.HopEntry.HopField.ExpTime)
		}
		if len(w.memo) > 200000 {
			w.memo = map[string]bool{}
		}
		// the primitive's verdict per certificate, over sha(hb || info || earlier hb || earlier sig ...)
		// (only certificates of the entry's ISD-AS or of the ISD-AS named by the key id can be
		// consulted by the verifier or by the statement; the others are left at 0 unchecked)
		dig := hashFor(algo, append(append([]byte(nil), hb...), ad...))
		bits := make([]byte, len(w.certs))
		ef.sigok = make([]bool, len(w.certs))
		for j, c := range w.certs {
			bits[j] = '0'
			if dig == nil || c.ecPub == nil || !(ef.parsed && c.ia == ef.local || ef.kidOK && c.ia == ef.kidIA) {
				continue
			}
			mk := fmt.Sprintf("%d/%x/%x", j, dig, sig)
			ok, seen := w.memo[mk]
			if !seen {
				ok = ecdsa.VerifyASN1(c.ecPub, dig, sig)
				w.memo[mk] = ok
			}
			if ok {
				bits[j] = '1'
				ef.sigok[j] = true
			}
		}
		sb.WriteString(" " + string(bits))
		ad = append(append(ad, hb...), sig...)
		f.entries = append(f.entries, ef)
	}
	f.op = sb.String()
	return f
}

// lifetime of a hop field by the specification: (ExpTime+1) * 24h/256 (independent of the code under test)
func lifetime(exp uint8) time.Duration { return (time.Duration(exp) + 1) * (24 * time.Hour / 256) }

func covers(c *x509.Certificate, ts time.Time, exp uint8) bool {
	na := ts.Add(lifetime(exp))
	return !ts.Before(c.NotBefore) && !na.After(c.NotAfter)
}

// stmt evaluates the right-hand side of the statement: every entry signed, by a key certified for
// exactly that entry's ISD-AS with a certificate covering the hop field's lifetime, over the entry,
// the segment info and all earlier entries and signatures. named = additionally the entry's key id
// names that certificate (what an honest signer writes).
func (w *world) stmt(f segFacts) (holds, named bool) {
	if !f.tsOK {
		return false, false
	}
	holds, named = true, true
	for _, ef := range f.entries {
		if !ef.parsed {
			return false, false
		}
		h, n := false, false
		for j, c := range w.certs {
			if ef.sigok[j] && c.ia == ef.local && covers(c.cert, f.ts, ef.exp) {
				h = true
				if ef.kidOK && ef.kidIA == c.ia && string(ef.kidSK) == string(c.skid) {
					n = true
				}
			}
		}
		holds = holds && h
		named = named && n
	}
	return
}

type env struct {
	*vlib.Env
	r *vlib.Rand
	w *world
}

type outcome struct {
	parse bool
	ok    bool
	idx   int
}

// verify runs the real code on the protobuf segment.
func (e *env) verify(pb *cppb.PathSegment, v compat.Verifier) (outcome, string) {
	var o outcome
	ans, _ := vlib.Safe(func() string {
		s, err := seg.VerifSegmentFromPB(pb)
		if err != nil {
			return "parse-err"
		}
		o.parse = true
		err = segverifier.VerifySegment(context.Background(), v, nil, s)
		if err == nil {
			o.ok = true
			return "ok -"
		}
		// first failing entry, by the real per-entry call with the binding of VerifySegment
		o.idx = -1
		for i, as := range s.ASEntries {
			val := cppki.Validity{NotBefore: s.Info.Timestamp,
				NotAfter: s.Info.Timestamp.Add(path.ExpTimeToDuration(as.HopEntry.HopField.ExpTime))}
			if s.VerifyASEntry(context.Background(), v.WithIA(as.Local).WithValidity(val), i) != nil {
				o.idx = i
				break
			}
		}
		if o.idx < 0 {
			return "err ?"
		}
		return fmt.Sprintf("err %d", o.idx)
	})
	return o, ans
}

type mutant struct {
	name     string
	pb       *cppb.PathSegment
	mustFail bool // by the second sentence of the statement
	mustPass bool // a prefix of a verifiable segment
	note     string
}

func clonePB(pb *cppb.PathSegment) *cppb.PathSegment { return proto.Clone(pb).(*cppb.PathSegment) }

func rebuildHB(sm *cryptopb.SignedMessage, fh func(*cryptopb.Header), fb func([]byte) []byte) {
	var outer cryptopb.HeaderAndBody
	if proto.Unmarshal(sm.HeaderAndBody, &outer) != nil {
		return
	}
	if fh != nil {
		var h cryptopb.Header
		if proto.Unmarshal(outer.Header, &h) != nil {
			return
		}
		fh(&h)
		outer.Header, _ = proto.Marshal(&h)
	}
	if fb != nil {
		outer.Body = fb(outer.Body)
	}
	sm.HeaderAndBody, _ = proto.Marshal(&outer)
}

type ecdsaSig struct{ R, S *big.Int }

func negateS(c elliptic.Curve, sig []byte) []byte {
	var s ecdsaSig
	if _, err := asn1.Unmarshal(sig, &s); err != nil {
		return nil
	}
	s.S = new(big.Int).Sub(c.Params().N, s.S)
	out, _ := asn1.Marshal(s)
	return out
}

// alterBody changes one field of the signed ASEntrySignedBody.
func alterBody(r *vlib.Rand, others []addr.IA) (string, func([]byte) []byte) {
	k := r.Intn(12)
	names := []string{"isd_as", "next_isd_as", "mtu", "hop.exp_time", "hop.ingress", "hop.egress", "hop.mac",
		"ingress_mtu", "peer-added", "peer-removed-or-changed", "extension-added", "isd_as-other-AS"}
	return names[k], func(b []byte) []byte {
		var e cppb.ASEntrySignedBody
		if proto.Unmarshal(b, &e) != nil || e.HopEntry == nil || e.HopEntry.HopField == nil {
			return append(b, 0x08, 0x01)
		}
		hf := e.HopEntry.HopField
		switch k {
		case 0:
			e.IsdAs ^= 1 << uint(r.Intn(48))
		case 1:
			e.NextIsdAs ^= 1 << uint(r.Intn(48))
		case 2:
			e.Mtu++
		case 3:
			hf.ExpTime = (hf.ExpTime + 1 + uint32(r.Intn(254))) % 256
		case 4:
			hf.Ingress++
		case 5:
			hf.Egress++
			for _, p := range e.PeerEntries {
				p.HopField.Egress++
			}
		case 6:
			hf.Mac = append([]byte(nil), hf.Mac...)
			hf.Mac[r.Intn(len(hf.Mac))] ^= byte(1 + r.Intn(255))
		case 7:
			e.HopEntry.IngressMtu++
		case 8:
			e.PeerEntries = append(e.PeerEntries, &cppb.PeerEntry{PeerIsdAs: uint64(others[0]), PeerInterface: 5, PeerMtu: 1300,
				HopField: &cppb.HopField{Ingress: 77, Egress: hf.Egress, ExpTime: 63, Mac: []byte{1, 2, 3, 4, 5, 6}}})
		case 9:
			if len(e.PeerEntries) > 0 {
				e.PeerEntries = e.PeerEntries[1:]
			} else {
				e.Mtu += 2
			}
		case 10:
			e.Extensions = &cppb.PathSegmentExtensions{HiddenPath: &cppb.HiddenPathExtension{IsHidden: true}}
		case 11:
			for old := e.IsdAs; e.IsdAs == old; {
				e.IsdAs = uint64(others[r.Intn(len(others))])
			}
		}
		out, _ := proto.Marshal(&e)
		return out
	}
}

// mutants of a verifiable segment pb (others: a second verifiable segment to splice from).
func (e *env) mutants(pb, other *cppb.PathSegment, specs []entrySpec, perKind int) []mutant {
	r := e.r
	n := len(pb.AsEntries)
	var ms []mutant
	add := func(name string, mustFail bool, f func(m *cppb.PathSegment) string) {
		m := clonePB(pb)
		note := f(m)
		ms = append(ms, mutant{name: name, pb: m, mustFail: mustFail, note: note})
	}
	// prefixes
	for k := 1; k < n; k++ {
		m := clonePB(pb)
		m.AsEntries = m.AsEntries[:k]
		ms = append(ms, mutant{name: "prefix", pb: m, mustPass: true, note: fmt.Sprintf("first %d of %d entries", k, n)})
	}
	for it := 0; it < perKind; it++ {
		i := r.Intn(n)
		add("alter-body", true, func(m *cppb.PathSegment) string {
			what, f := alterBody(r, e.w.ases)
			rebuildHB(m.AsEntries[i].Signed, nil, f)
			return fmt.Sprintf("entry %d field %s", i, what)
		})
		add("alter-hb-byte", true, func(m *cppb.PathSegment) string {
			hb := m.AsEntries[i].Signed.HeaderAndBody
			p := r.Intn(len(hb))
			hb[p] ^= byte(1 << r.Intn(8))
			return fmt.Sprintf("entry %d HeaderAndBody byte %d", i, p)
		})
		add("alter-header", true, func(m *cppb.PathSegment) string {
			k := r.Intn(4)
			rebuildHB(m.AsEntries[i].Signed, func(h *cryptopb.Header) {
				switch k {
				case 0:
					h.AssociatedDataLength++
				case 1:
					h.Metadata = append(h.Metadata, 1)
				case 2:
					var kid cppb.VerificationKeyID
					_ = proto.Unmarshal(h.VerificationKeyId, &kid)
					kid.TrcSerial++
					h.VerificationKeyId, _ = proto.Marshal(&kid)
				case 3:
					h.SignatureAlgorithm = cryptopb.SignatureAlgorithm(1 + (int(h.SignatureAlgorithm) % 3))
				}
			}, nil)
			return fmt.Sprintf("entry %d header field %d", i, k)
		})
		add("reencode-swap-fields", true, func(m *cppb.PathSegment) string {
			// same header, same body, same length: the two fields of HeaderAndBody in the opposite order
			var outer cryptopb.HeaderAndBody
			sm := m.AsEntries[i].Signed
			if proto.Unmarshal(sm.HeaderAndBody, &outer) == nil && len(outer.Header) > 0 && len(outer.Body) > 0 {
				out := protowire.AppendTag(nil, 2, protowire.BytesType)
				out = protowire.AppendBytes(out, outer.Body)
				out = protowire.AppendTag(out, 1, protowire.BytesType)
				sm.HeaderAndBody = protowire.AppendBytes(out, outer.Header)
			}
			return fmt.Sprintf("entry %d of %d: HeaderAndBody re-encoded with body before header (length preserved)", i, n)
		})
		if i < n-1 {
			add("alter-earlier-sig-byte", true, func(m *cppb.PathSegment) string {
				sig := m.AsEntries[i].Signed.Signature
				p := r.Intn(len(sig))
				sig[p] ^= byte(1 + r.Intn(255))
				return fmt.Sprintf("signature of entry %d byte %d", i, p)
			})
			add("negate-s-earlier-sig", true, func(m *cppb.PathSegment) string {
				if s := negateS(specs[i].ck.ecPub.Curve, m.AsEntries[i].Signed.Signature); s != nil {
					m.AsEntries[i].Signed.Signature = s
				}
				return fmt.Sprintf("signature of entry %d (r,s)->(r,n-s)", i)
			})
			add("remove", true, func(m *cppb.PathSegment) string {
				m.AsEntries = append(m.AsEntries[:i], m.AsEntries[i+1:]...)
				return fmt.Sprintf("entry %d of %d removed", i, n)
			})
		}
		add("alter-last-sig-byte", true, func(m *cppb.PathSegment) string {
			sig := m.AsEntries[n-1].Signed.Signature
			p := r.Intn(len(sig))
			sig[p] ^= byte(1 + r.Intn(255))
			return fmt.Sprintf("signature of last entry byte %d", p)
		})
		if n >= 2 {
			j := r.Intn(n)
			for j == i {
				j = r.Intn(n)
			}
			add("reorder-swap", true, func(m *cppb.PathSegment) string {
				m.AsEntries[i], m.AsEntries[j] = m.AsEntries[j], m.AsEntries[i]
				return fmt.Sprintf("entries %d and %d swapped", i, j)
			})
			add("reorder-rotate", true, func(m *cppb.PathSegment) string {
				m.AsEntries = append(m.AsEntries[1:], m.AsEntries[0])
				return "rotated by one"
			})
		}
		if n < 10 {
			add("insert-duplicate", true, func(m *cppb.PathSegment) string {
				p := r.Intn(n + 1)
				dup := proto.Clone(m.AsEntries[i]).(*cppb.ASEntry)
				m.AsEntries = append(m.AsEntries[:p], append([]*cppb.ASEntry{dup}, m.AsEntries[p:]...)...)
				return fmt.Sprintf("copy of entry %d inserted at %d", i, p)
			})
			add("insert-foreign", true, func(m *cppb.PathSegment) string {
				p := r.Intn(n + 1)
				q := r.Intn(len(other.AsEntries))
				f := proto.Clone(other.AsEntries[q]).(*cppb.ASEntry)
				m.AsEntries = append(m.AsEntries[:p], append([]*cppb.ASEntry{f}, m.AsEntries[p:]...)...)
				return fmt.Sprintf("entry %d of another verifiable segment inserted at %d", q, p)
			})
		}
		add("splice", true, func(m *cppb.PathSegment) string {
			k := 1 + r.Intn(n)
			tail := clonePB(other).AsEntries
			if len(tail) > 10-k {
				tail = tail[:10-k]
			}
			if k == n && len(tail) == 0 {
				tail = clonePB(other).AsEntries[:1]
				m.AsEntries = m.AsEntries[:n-1]
				k = n - 1
			}
			m.AsEntries = append(m.AsEntries[:k], tail...)
			return fmt.Sprintf("first %d entries followed by entries of another verifiable segment", k)
		})
		add("info-timestamp", true, func(m *cppb.PathSegment) string {
			var inf cppb.SegmentInformation
			_ = proto.Unmarshal(m.SegmentInfo, &inf)
			d := int64(1 + r.Intn(100))
			if r.Bool() {
				d = -d
			}
			inf.Timestamp += d
			m.SegmentInfo, _ = proto.Marshal(&inf)
			return fmt.Sprintf("timestamp %+d s", d)
		})
		add("info-segid", true, func(m *cppb.PathSegment) string {
			var inf cppb.SegmentInformation
			_ = proto.Unmarshal(m.SegmentInfo, &inf)
			inf.SegmentId = (inf.SegmentId + 1 + uint32(r.Intn(65534))) % 65536
			m.SegmentInfo, _ = proto.Marshal(&inf)
			return "segment id changed"
		})
		add("info-other-segment", true, func(m *cppb.PathSegment) string {
			m.SegmentInfo = append([]byte(nil), other.SegmentInfo...)
			return "segment info of another segment"
		})
	}
	// the last signature is covered by nothing: (r, n-s) there is the C38 known finding and leaves
	// every signed byte untouched; observed, not judged
	add("negate-s-last-sig", false, func(m *cppb.PathSegment) string {
		if s := negateS(specs[n-1].ck.ecPub.Curve, m.AsEntries[n-1].Signed.Signature); s != nil {
			m.AsEntries[n-1].Signed.Signature = s
		}
		return "signature of the last entry (r,s)->(r,n-s)"
	})
	return ms
}

func (e *env) replay(name, note string, pb, orig *cppb.PathSegment, f segFacts, ans string) map[string]any {
	ent := func(p *cppb.PathSegment) []map[string]string {
		var out []map[string]string
		for _, a := range p.AsEntries {
			out = append(out, map[string]string{"hb": vlib.Hex(a.GetSigned().GetHeaderAndBody()),
				"sig": vlib.Hex(a.GetSigned().GetSignature())})
		}
		return out
	}
	d := map[string]any{"mutation": name, "detail": note, "impl": ans, "segment_info": vlib.Hex(pb.SegmentInfo),
		"entries": ent(pb), "op": f.op}
	if orig != nil {
		d["original_segment_info"] = vlib.Hex(orig.SegmentInfo)
		d["original_entries"] = ent(orig)
	}
	return d
}

// judge runs one protobuf segment through the real code, the model line and the predicate.
func (e *env) judge(m mutant, orig *cppb.PathSegment, v compat.Verifier, tag string) outcome {
	f := e.w.facts(m.pb)
	before := clonePB(m.pb)
	o, ans := e.verify(m.pb, v)
	e.Op(f.op, ans, tag)
	if !proto.Equal(before, m.pb) {
		d := e.replay(m.name, m.note, before, orig, f, ans)
		d["after_verification"] = e.replay(m.name, m.note, m.pb, nil, f, ans)["entries"]
		e.Violate("C24/verify-modified-input", "segment verification modified the bytes of the segment it was given: "+m.note, d)
		m.pb = before
	}
	if strings.HasPrefix(ans, "PANIC") {
		e.Violate("C24/panic", "verification panicked: "+ans, e.replay(m.name, m.note, m.pb, orig, f, ans))
		return o
	}
	for i, ef := range f.entries {
		if ef.parsed && ef.local.IsWildcard() { // assumption BodyNoWildcard of the theorems
			e.Violate("C24/wildcard-local-parsed", fmt.Sprintf("ASEntryFromPB accepted a wildcard local ISD-AS at entry %d", i),
				e.replay(m.name, m.note, m.pb, orig, f, ans))
		}
	}
	holds, named := e.w.stmt(f)
	e.unitUndisturbed(m, orig, v, f, o, ans, holds)
	if orig != nil && proto.Equal(m.pb, orig) {
		m.mustFail = false // the mutation did not change anything
	}
	switch {
	case o.ok && !holds:
		e.Violate("C24/accepted-"+m.name, "segment verifies although not every entry is signed by a key certified "+
			"for its ISD-AS with a covering certificate over (entry, info, earlier entries and signatures): "+m.note,
			e.replay(m.name, m.note, m.pb, orig, f, ans))
	case o.parse && !o.ok && holds && named:
		e.Violate("C24/rejected-"+m.name, "every entry is properly signed and names its certificate, yet verification fails: "+m.note,
			e.replay(m.name, m.note, m.pb, orig, f, ans))
	case m.mustFail && o.ok:
		e.Violate("C24/accepted-"+m.name, "mutated segment verifies: "+m.note, e.replay(m.name, m.note, m.pb, orig, f, ans))
	case m.mustPass && !o.ok:
		e.Violate("C24/prefix-rejected", "prefix of a verifiable segment does not verify: "+m.note,
			e.replay(m.name, m.note, m.pb, orig, f, ans))
	}
	return o
}

func (e *env) adOp(pb *cppb.PathSegment) {
	n := len(pb.AsEntries)
	idx := e.r.Intn(n + 1)
	ps := &seg.PathSegment{Info: seg.Info{Raw: pb.SegmentInfo}}
	var sb strings.Builder
	fmt.Fprintf(&sb, "ad %d %s %d", idx, vlib.Hex(pb.SegmentInfo), n)
	for _, a := range pb.AsEntries {
		ps.ASEntries = append(ps.ASEntries, seg.ASEntry{Signed: a.Signed})
		fmt.Fprintf(&sb, " %s %s", vlib.Hex(a.Signed.HeaderAndBody), vlib.Hex(a.Signed.Signature))
	}
	if idx > n {
		idx = n
	}
	var ws []string
	for _, d := range ps.VerifAssociatedData(idx) {
		ws = append(ws, vlib.Hex(d))
	}
	e.Op(sb.String(), strings.Join(ws, " "), "ad")
}

// honestSpecs: n distinct ASes, each signing with a certificate that covers the lifetime.
func (e *env) honestSpecs(n int, ts int64) []entrySpec {
	r := e.r
	perm := make([]int, len(e.w.ases))
	for i := range perm {
		perm[i] = i
	}
	for i := len(perm) - 1; i > 0; i-- {
		j := r.Intn(i + 1)
		perm[i], perm[j] = perm[j], perm[i]
	}
	var specs []entrySpec
	for i := 0; i < n; i++ {
		ia := e.w.ases[perm[i]]
		exp := uint8(r.Intn(256))
		if r.Chance(50) {
			exp = 63
		}
		ck := e.w.pick(ia, "main")
		for _, cls := range []string{"short", "late"} {
			if c := e.w.pick(ia, cls); r.Chance(30) && covers(c.cert, time.Unix(ts, 0), exp) {
				ck = c
			}
		}
		specs = append(specs, entrySpec{ia: ia, exp: exp, ck: ck, kidIA: ia, kidSK: ck.skid, honest: true})
	}
	return specs
}

func main() {
	e0 := vlib.Init()
	e := &env{Env: e0, r: vlib.NewRand(uint64(e0.Seed))}
	e.w = newWorld(e.r, fmt.Sprintf("segverify-%d", e0.Seed))
	e.Rule = "12 ASes x {main, short, late} real x509 AS certificates (P-256/384/521) in a real sqlite trust DB (+1 Ed25519 " +
		"certificate, +1 uncertified key per AS); segments of 1..10 entries signed by the real AddASEntry/trust.Signer; each is " +
		"verified untouched, as every prefix, and after protobuf-level mutations (alter body field / header field / byte, " +
		"earlier or last signature, (r,n-s), remove, swap, rotate, duplicate, foreign entry, splice, info timestamp / segment id); " +
		"plus dishonest constructions (wrong AS key, uncertified key, forged key id, certificate not covering the lifetime, " +
		"boundary lifetimes); distinct = distinct op lines"
	v := compat.Verifier{Verifier: trust.Verifier{Engine: provider{e.w.db}}}
	nSeg := e.N(50, 400)
	perKind := e.N(1, 3)
	neg := 0
	for i := 0; i < nSeg; i++ {
		n := 1 + i%10
		ts := int64(t0 + e.r.Intn(3600))
		specs := e.honestSpecs(n, ts)
		ps := e.w.build(e.r, ts, uint16(e.r.Intn(65536)), specs, e.r.Bool())
		pb := seg.PathSegmentToPB(ps)
		ospecs := e.honestSpecs(1+e.r.Intn(10), ts)
		other := seg.PathSegmentToPB(e.w.build(e.r, ts, uint16(e.r.Intn(65536)), ospecs, false))
		o := e.judge(mutant{name: "untouched", pb: pb, mustPass: true, note: fmt.Sprintf("%d entries", n)}, nil, v,
			fmt.Sprintf("honest/%d", n))
		if !o.ok {
			continue
		}
		e.adOp(pb)
		for _, m := range e.mutants(pb, other, specs, perKind) {
			o := e.judge(m, pb, v, "mut/"+m.name)
			if m.name == "negate-s-last-sig" && o.ok {
				neg++
			}
		}
		if i < 2 {
			e.Sample(map[string]any{"entries": n, "ts": ts})
		}
	}
	e.Extra["last_signature_negated_s_still_verifies"] = neg
	e.dishonest(v, e.N(120, 1500))
	e.malformed(v, e.N(60, 600))
	e.cacheHistories(e.N(6, 60))
	e.cacheIdentityHistories(e.N(8, 80))
	e.unitsInterrupted(v, e.N(24, 240))
	e.Finish()
}

// dishonest: segments built through the real signing path where one entry is signed by the wrong
// party or with a certificate that does not cover the lifetime; boundary lifetimes.
func (e *env) dishonest(v compat.Verifier, count int) {
	r := e.r
	for it := 0; it < count; it++ {
		n := 1 + r.Intn(10)
		ts := int64(t0 + r.Intn(3600))
		specs := e.honestSpecs(n, ts)
		i := r.Intn(n)
		sp := &specs[i]
		kind := []string{"wrong-as-key", "uncertified-key", "forged-keyid-skid", "forged-keyid-ia", "short-cert", "late-cert",
			"boundary-na", "boundary-nb", "ed25519-cert-named", "empty-skid", "wildcard-keyid-ia", "y10k-lifetime"}[r.Intn(12)]
		otherIA := e.w.ases[(int(uint64(sp.ia))+1+r.Intn(10))%len(e.w.ases)]
		for otherIA == sp.ia {
			otherIA = e.w.ases[r.Intn(len(e.w.ases))]
		}
		expectFail := true
		switch kind {
		case "wrong-as-key": // another AS signs an entry that claims sp.ia; key id says who signed
			ck := e.w.pick(otherIA, "main")
			sp.ck, sp.kidIA, sp.kidSK = ck, otherIA, ck.skid
		case "uncertified-key":
			ck := e.w.pick(sp.ia, "rogue")
			sp.ck, sp.kidSK = ck, ck.skid
		case "forged-keyid-skid": // uncertified key, key id names the AS's real certificate
			sp.ck = e.w.pick(sp.ia, "rogue")
			sp.kidSK = e.w.pick(sp.ia, "main").skid
		case "forged-keyid-ia": // another AS's key, key id claims the entry's IA and the AS's real skid
			sp.ck = e.w.pick(otherIA, "main")
			sp.kidIA, sp.kidSK = sp.ia, e.w.pick(sp.ia, "main").skid
		case "short-cert": // certificate ends before the hop field expires
			ck := e.w.pick(sp.ia, "short")
			sp.ck, sp.kidSK = ck, ck.skid
			sp.exp = 255
			ts = ck.cert.NotAfter.Unix() - int64(r.Intn(3600))
			expectFail = !covers(ck.cert, time.Unix(ts, 0), sp.exp)
		case "late-cert": // certificate starts after the segment timestamp
			ck := e.w.pick(sp.ia, "late")
			sp.ck, sp.kidSK = ck, ck.skid
			ts = ck.cert.NotBefore.Unix() - 1 - int64(r.Intn(600))
		case "boundary-na": // ts + lifetime lands within +-1 unit of NotAfter (half-second fractions included)
			ck := e.w.pick(sp.ia, "short")
			sp.ck, sp.kidSK = ck, ck.skid
			sp.exp = uint8(r.Intn(8))
			d := int64(lifetime(sp.exp) / time.Second) // floor
			ts = ck.cert.NotAfter.Unix() - d + int64(r.Intn(3)) - 1
			expectFail = !covers(ck.cert, time.Unix(ts, 0), sp.exp)
		case "boundary-nb":
			ck := e.w.pick(sp.ia, "late")
			sp.ck, sp.kidSK = ck, ck.skid
			sp.exp = uint8(r.Intn(64))
			ts = ck.cert.NotBefore.Unix() + int64(r.Intn(3)) - 1
			expectFail = !covers(ck.cert, time.Unix(ts, 0), sp.exp)
		case "ed25519-cert-named": // the named certificate carries a non-ECDSA key
			sp.ia = e.w.ases[0]
			sp.kidIA = sp.ia
			sp.ck = e.w.pick(sp.ia, "main")
			sp.kidSK = e.w.pick(sp.ia, "ed25519").skid
			for k := range specs { // keep ASes distinct
				if k != i && specs[k].ia == sp.ia {
					specs[k], specs[i] = specs[i], specs[k]
					i = k
					break
				}
			}
		case "y10k-lifetime": // the lifetime crosses 9999-12-31T23:59:59Z: no certificate covers it
			ts = 253402300799 - int64(r.Intn(300))
			sp.exp = uint8(1 + r.Intn(255))
		case "empty-skid":
			sp.kidSK = nil
		case "wildcard-keyid-ia":
			sp.kidIA = addr.MustIAFrom(sp.ia.ISD(), 0)
		}
		// entries other than i must stay verifiable for the moved timestamp
		for k := range specs {
			if k != i && !covers(specs[k].ck.cert, time.Unix(ts, 0), specs[k].exp) {
				c := e.w.pick(specs[k].ia, "main")
				specs[k].ck, specs[k].kidSK = c, c.skid
			}
		}
		pb := seg.PathSegmentToPB(e.w.build(r, ts, uint16(r.Intn(65536)), specs, r.Bool()))
		note := fmt.Sprintf("%s at entry %d of %d (ts=%d exp=%d)", kind, i, n, ts, specs[i].exp)
		tag := "dishonest/" + kind
		if !expectFail {
			tag += "/covered"
		}
		e.judge(mutant{name: kind, pb: pb, mustFail: expectFail, mustPass: !expectFail, note: note}, nil, v, tag)
	}
}

// malformed: unparsable pieces (the model answers parse-err / err on the same facts).
func (e *env) malformed(v compat.Verifier, count int) {
	r := e.r
	for it := 0; it < count; it++ {
		n := 1 + r.Intn(4)
		ts := int64(t0 + r.Intn(3600))
		specs := e.honestSpecs(n, ts)
		pb := seg.PathSegmentToPB(e.w.build(r, ts, uint16(r.Intn(65536)), specs, false))
		i := r.Intn(n)
		sm := pb.AsEntries[i].Signed
		kind := r.Intn(8)
		tag := "~malformed"
		switch kind {
		case 0:
			pb.SegmentInfo = append(pb.SegmentInfo, 0xff)
		case 1:
			sm.HeaderAndBody = sm.HeaderAndBody[:r.Intn(len(sm.HeaderAndBody))]
		case 2:
			sm.HeaderAndBody = r.Bytes(r.Intn(40))
		case 3:
			rebuildHB(sm, nil, func(b []byte) []byte { return b[:r.Intn(len(b))] })
		case 4:
			rebuildHB(sm, func(h *cryptopb.Header) { h.VerificationKeyId = r.Bytes(1 + r.Intn(12)) }, nil)
			tag = "malformed/keyid"
		case 5:
			sm.Signature = nil
			tag = "malformed/no-sig"
		case 6:
			rebuildHB(sm, nil, func(b []byte) []byte { // wildcard local IA
				var x cppb.ASEntrySignedBody
				_ = proto.Unmarshal(b, &x)
				x.IsdAs &= 0xffff000000000000
				out, _ := proto.Marshal(&x)
				return out
			})
		case 7:
			// non-canonical HeaderAndBody: a trailing second body field (same parsed content if equal)
			sm.HeaderAndBody = append(sm.HeaderAndBody, 0x12, 0x00)
			tag = "malformed/noncanonical"
		}
		e.judge(mutant{name: fmt.Sprintf("malformed-%d", kind), pb: pb, mustFail: true, note: fmt.Sprintf("entry %d", i)}, nil, v, tag)
	}
}

// cacheHistories: the same verifications with trust.Verifier.Cache set, as a history
// sharing one cache; the statement does not depend on what was verified before.
func (e *env) cacheHistories(count int) {
	r := e.r
	for h := 0; h < count; h++ {
		vc := compat.Verifier{Verifier: trust.Verifier{Engine: provider{e.w.db}, Cache: cache.New(time.Minute, time.Minute)}}
		var hist []map[string]any
		ia := e.w.ases[r.Intn(len(e.w.ases))]
		ck := e.w.pick(ia, []string{"short", "late"}[r.Intn(2)])
		for step := 0; step < 4; step++ {
			exp := uint8(r.Intn(256))
			var ts int64
			if ck.class == "short" {
				ts = ck.cert.NotAfter.Unix() - int64(r.Intn(2*86400))
			} else {
				ts = ck.cert.NotBefore.Unix() + int64(r.Intn(7200)) - 3600
			}
			if h%2 == 0 && step < 2 {
				// directed: first a lifetime the certificate covers, then one it does not
				exp = uint8(r.Intn(8))
				d := int64(lifetime(exp)/time.Second) + 1
				switch {
				case ck.class == "short" && step == 0:
					ts = ck.cert.NotAfter.Unix() - d - int64(r.Intn(3600))
				case ck.class == "short":
					ts = ck.cert.NotAfter.Unix() - d + 2 + int64(r.Intn(300))
				case step == 0:
					ts = ck.cert.NotBefore.Unix() + int64(r.Intn(3600))
				default:
					ts = ck.cert.NotBefore.Unix() - 1 - int64(r.Intn(3600))
				}
			}
			n := 1 + r.Intn(3)
			specs := e.honestSpecs(n, ts)
			i := r.Intn(n)
			for k := range specs {
				if k != i && specs[k].ia == ia {
					specs[k], specs[i] = specs[i], specs[k]
					i = k
				}
				c := e.w.pick(specs[k].ia, "main")
				specs[k].ck, specs[k].kidSK = c, c.skid
			}
			specs[i] = entrySpec{ia: ia, exp: exp, ck: ck, kidIA: ia, kidSK: ck.skid}
			pb := seg.PathSegmentToPB(e.w.build(r, ts, uint16(r.Intn(65536)), specs, false))
			cov := covers(ck.cert, time.Unix(ts, 0), exp)
			hist = append(hist, map[string]any{"step": step, "as": ia.String(), "cert_class": ck.class,
				"cert_not_before": ck.cert.NotBefore.Unix(), "cert_not_after": ck.cert.NotAfter.Unix(),
				"segment_ts": ts, "exp_time": exp, "lifetime_end": time.Unix(ts, 0).Add(lifetime(exp)).Unix(),
				"covered": cov, "entry": i, "entries": n})
			f := e.w.facts(pb)
			o, ans := e.verify(pb, vc)
			tag := "cache/covered"
			if !cov {
				tag = "cache/not-covered"
			}
			e.Op(f.op, ans, tag)
			holds, _ := e.w.stmt(f)
			if o.ok && !holds {
				d := e.replay("cache-history", "", pb, nil, f, ans)
				d["history"] = hist
				e.Violate("C24/cache-reuses-chain-outside-validity",
					"with Verifier.Cache set, a segment verifies although the signer's certificate does not cover the hop field "+
						"lifetime: the chain cached under (IA, subject key id) by an earlier verification is reused for a query with a "+
						"different validity window", d)
				break
			}
			if !o.ok && holds {
				d := e.replay("cache-history", "", pb, nil, f, ans)
				d["history"] = hist
				e.Violate("C24/cache-rejects-signed", "with Verifier.Cache set, a properly signed segment is rejected", d)
				break
			}
		}
	}
}

// cacheIdentityHistories: with Verifier.Cache set, the cache is warmed by an honest entry of AS Y;
// then an entry that claims ISD-AS X (signed body and key id) but is signed with Y's key and names
// Y's subject key id must still be rejected (no certificate for (X, skid(Y)) exists). Shapes per
// history (h%4): 0 warm-up segment then forged segment; 1 Y's honest entry earlier in the SAME
// segment as the forged entry; 2 forged, honest, forged again (symmetric order); 3 cold cache control.
func (e *env) cacheIdentityHistories(count int) {
	r := e.r
	for h := 0; h < count; h++ {
		vc := compat.Verifier{Verifier: trust.Verifier{Engine: provider{e.w.db}, Cache: cache.New(time.Minute, time.Minute)}}
		var hist []map[string]any
		ts := int64(t0 + r.Intn(1800))
		shape := h % 4
		// the forged segment: entry i claims X = specs[i].ia, signed by Y
		n := 2 + r.Intn(4)
		specs := e.honestSpecs(n, ts)
		for k := range specs {
			c := e.w.pick(specs[k].ia, "main")
			specs[k].ck, specs[k].kidSK = c, c.skid
		}
		i := 1 + r.Intn(n-1)
		x := specs[i].ia
		y := specs[0].ia // shape 1: Y is an honest earlier entry of the same segment
		if shape != 1 {
			for y = e.w.ases[r.Intn(len(e.w.ases))]; y == x; {
				y = e.w.ases[r.Intn(len(e.w.ases))]
			}
			for k := range specs { // keep Y out of the forged segment
				if specs[k].ia == y && k != i {
					for _, cand := range e.w.ases {
						used := cand == y || cand == x
						for _, sp := range specs {
							used = used || sp.ia == cand
						}
						if !used {
							c := e.w.pick(cand, "main")
							specs[k] = entrySpec{ia: cand, exp: specs[k].exp, ck: c, kidIA: cand, kidSK: c.skid, honest: true}
							break
						}
					}
				}
			}
		}
		cky := e.w.pick(y, "main")
		specs[i] = entrySpec{ia: x, exp: specs[i].exp, ck: cky, kidIA: x, kidSK: cky.skid}
		forged := func() *cppb.PathSegment {
			return seg.PathSegmentToPB(e.w.build(r, ts, uint16(r.Intn(65536)), specs, false))
		}
		warm := func() *cppb.PathSegment {
			ws := e.honestSpecs(1+r.Intn(3), ts)
			c := e.w.pick(y, "main")
			ws[0] = entrySpec{ia: y, exp: 63, ck: c, kidIA: y, kidSK: c.skid, honest: true}
			for k := 1; k < len(ws); k++ {
				if ws[k].ia == y {
					ws = ws[:k]
					break
				}
				c := e.w.pick(ws[k].ia, "main")
				ws[k].ck, ws[k].kidSK = c, c.skid
			}
			return seg.PathSegmentToPB(e.w.build(r, ts, uint16(r.Intn(65536)), ws, false))
		}
		step := func(what string, pb *cppb.PathSegment) bool {
			hist = append(hist, map[string]any{"step": len(hist), "what": what, "claimed_as": x.String(), "signing_as": y.String(),
				"forged_entry": i, "entries": len(pb.AsEntries), "segment_ts": ts})
			f := e.w.facts(pb)
			o, ans := e.verify(pb, vc)
			e.Op(f.op, ans, fmt.Sprintf("cache-id/%d/%s", shape, what))
			holds, _ := e.w.stmt(f)
			if o.ok && !holds {
				d := e.replay("cache-identity-history", what, pb, nil, f, ans)
				d["history"] = hist
				e.Violate("C24/cache-accepts-other-as-key",
					"with Verifier.Cache set, an entry claiming ISD-AS "+x.String()+" but signed with the key of "+y.String()+
						" (key id: "+x.String()+" + subject key id of "+y.String()+"'s certificate) verifies after an honest entry of "+
						y.String()+" was verified: the cached chain is not bound to the ISD-AS of the query", d)
				return false
			}
			if !o.ok && holds {
				d := e.replay("cache-identity-history", what, pb, nil, f, ans)
				d["history"] = hist
				e.Violate("C24/cache-rejects-signed", "with Verifier.Cache set, a properly signed segment is rejected", d)
				return false
			}
			return true
		}
		switch shape {
		case 0:
			_ = step("warm-up", warm()) && step("forged", forged())
		case 1:
			step("forged-after-honest-entry-in-same-segment", forged())
		case 2:
			_ = step("forged-cold", forged()) && step("warm-up", warm()) && step("forged", forged())
		case 3:
			step("forged-cold", forged())
		}
	}
}

// ---- second entry point: segverifier.StartVerification / Unit.Verify (what seghandler and the
// hidden-path forwarder call). Statement: a segment is reported verified only if every entry verified.

// collectUnits runs StartVerification on the segments and returns one verdict per segment
// (true = reported verified), in input order. ready is called once the units are running.
func collectUnits(ctx context.Context, v infra.Verifier, segs []*seg.PathSegment, ready func()) ([]bool, string) {
	metas := make([]*seg.Meta, len(segs))
	for i, s := range segs {
		metas[i] = &seg.Meta{Segment: s, Type: seg.TypeDown}
	}
	var verdict []bool
	res, _ := vlib.Safe(func() string {
		ch, n := segverifier.StartVerification(ctx, v, nil, metas)
		if n != len(segs) {
			return fmt.Sprintf("units=%d for %d segments", n, len(segs))
		}
		if ready != nil {
			ready()
		}
		verdict = make([]bool, len(segs))
		guard := time.NewTimer(60 * time.Second) // safety net only, never part of the synchronisation
		defer guard.Stop()
		for k := 0; k < n; k++ {
			select {
			case r := <-ch:
				for i, m := range metas {
					if r.Unit.SegMeta == m {
						verdict[i] = r.SegError() == nil && len(r.Errors) == 0
					}
				}
			case <-guard.C:
				return "no unit result within 60s"
			}
		}
		return ""
	})
	return verdict, res
}

// unitUndisturbed: with an undisturbed context the unit's verdict equals VerifySegment's (= the model's).
func (e *env) unitUndisturbed(m mutant, orig *cppb.PathSegment, v compat.Verifier, f segFacts, o outcome, ans string, holds bool) {
	if !o.parse {
		return
	}
	s, err := seg.VerifSegmentFromPB(m.pb)
	if err != nil {
		return
	}
	verdict, problem := collectUnits(context.Background(), v, []*seg.PathSegment{s}, nil)
	e.Case("unit/"+f.op, "unit/undisturbed", false)
	switch {
	case problem != "":
		e.Violate("C24/unit-broken", "StartVerification: "+problem, e.replay(m.name, m.note, m.pb, orig, f, ans))
	case verdict[0] && !holds:
		e.Violate("C24/unit-accepted-"+m.name, "StartVerification/Unit.Verify reports the segment verified although not every "+
			"entry is properly signed: "+m.note, e.replay(m.name, m.note, m.pb, orig, f, ans))
	case verdict[0] != o.ok:
		e.Violate("C24/unit-verdict-differs", fmt.Sprintf("Unit.Verify verdict verified=%v but VerifySegment ok=%v: %s",
			verdict[0], o.ok, m.note), e.replay(m.name, m.note, m.pb, orig, f, ans))
	}
}

// stallVerifier: a verifier whose crypto lookup never completes (slow chain fetch): every Verify
// announces itself and then waits for the context to end, returning the context's error.
type stallVerifier struct{ entered chan struct{} }

func (b stallVerifier) Verify(ctx context.Context, _ *cryptopb.SignedMessage, _ ...[]byte) (*signed.Message, error) {
	select {
	case b.entered <- struct{}{}:
	default:
	}
	<-ctx.Done()
	return nil, ctx.Err()
}
func (b stallVerifier) WithServer(net.Addr) infra.Verifier          { return b }
func (b stallVerifier) WithIA(addr.IA) infra.Verifier               { return b }
func (b stallVerifier) WithValidity(cppki.Validity) infra.Verifier { return b }

// unitsInterrupted: the verification context ends while an AS-entry check is in flight. No entry has
// verified, so no unit may be reported verified - whether the segment is honest or forged.
func (e *env) unitsInterrupted(v compat.Verifier, count int) {
	r := e.r
	for it := 0; it < count; it++ {
		k := 1 + r.Intn(3)
		var segs []*seg.PathSegment
		var pbs []*cppb.PathSegment
		var kinds []string
		for u := 0; u < k; u++ {
			n := 1 + r.Intn(5)
			ts := int64(t0 + r.Intn(1800))
			specs := e.honestSpecs(n, ts)
			kind := "honest"
			if r.Bool() { // forged: one entry signed with an uncertified key
				i := r.Intn(n)
				ck := e.w.pick(specs[i].ia, "rogue")
				specs[i].ck, specs[i].kidSK = ck, e.w.pick(specs[i].ia, "main").skid
				kind = "forged"
			}
			ps := e.w.build(r, ts, uint16(r.Intn(65536)), specs, false)
			segs, pbs, kinds = append(segs, ps), append(pbs, seg.PathSegmentToPB(ps)), append(kinds, kind)
		}
		mode := []string{"cancelled-in-flight", "deadline-passed"}[it%2]
		sv := stallVerifier{entered: make(chan struct{}, 64)}
		var ctx context.Context
		var cancel context.CancelFunc
		var ready func()
		if mode == "cancelled-in-flight" {
			ctx, cancel = context.WithCancel(context.Background())
			ready = func() { // cancel once every unit is inside an AS-entry check
				guard := time.NewTimer(60 * time.Second)
				defer guard.Stop()
				for u := 0; u < k; u++ {
					select {
					case <-sv.entered:
					case <-guard.C:
					}
				}
				cancel()
			}
		} else {
			ctx, cancel = context.WithDeadline(context.Background(), time.Unix(t0, 0))
		}
		verdict, problem := collectUnits(ctx, sv, segs, ready)
		cancel()
		for u := range segs {
			e.Case(fmt.Sprintf("unit-int/%d/%d/%s", it, u, vlib.Hex(pbs[u].AsEntries[0].Signed.Signature)), "unit/"+mode+"/"+kinds[u], false)
			if problem != "" {
				e.Violate("C24/unit-broken", "StartVerification ("+mode+"): "+problem, map[string]any{"mode": mode})
				break
			}
			if verdict[u] {
				f := e.w.facts(pbs[u])
				d := e.replay("unit-"+mode, kinds[u]+" segment", pbs[u], nil, f, "verified")
				d["context"] = mode
				d["units_in_batch"] = k
				e.Violate("C24/unit-verified-without-verification",
					"StartVerification/Unit.Verify reports a "+kinds[u]+" segment verified (empty error map, SegError nil) although the "+
						"context ended ("+mode+") while the AS-entry check was in flight and no entry had verified", d)
			}
		}
	}
}
