// Engine "chain" (C34): ties lean/Scion/Model/Chain.lean to pkg/scrypto/cppki
// (ValidateCert / ValidateChain / VerifyChain) and to the trust provider's TRC selection
// (private/trust activeTRCs / GetChains), and evaluates the C34 statement directly on the
// implementation's answers.
//
// Real keys, certificates and chains are generated in-process (package pki2); X.509 path
// validation enters the model as an oracle fact obtained by calling crypto/x509 directly.
package main

import (
	"bytes"
	"context"
	"crypto/x509"
	"encoding/asn1"
	"errors"
	"fmt"
	"encoding/pem"
	"net"
	"os"
	"path/filepath"
	"sort"
	"strings"
	"time"

	"github.com/scionproto/scion/pkg/addr"
	"github.com/scionproto/scion/pkg/scrypto/cppki"
	"github.com/scionproto/scion/private/trust"

	"verifharness/pki2"
	"verifharness/vlib"
)

const (
	iaCore = "1-ff00:0:110"
	iaLeaf = "1-ff00:0:111"
	iaISD2 = "2-ff00:0:210"
)

type ent struct {
	name string
	cert *x509.Certificate
	key  *pki2.Key
}

type chainEnt struct {
	name  string
	certs []*x509.Certificate
}

type trcEnt struct {
	name  string
	kind  int // 0 = real, 1 = nil, 2 = zero
	certs []*x509.Certificate
}

type world struct {
	T0                     time.Time
	R1, R2, Rx, Rexp, Risd ent
	S1, G1                 ent
	roots                  map[string]ent
	cas                    []ent // CA variants (all issued so that a good AS certificate can follow)
	chains                 []chainEnt
	trcs                   []trcEnt
	good                   chainEnt // AS good under CA1 under R1
	goodR2                 chainEnt
	goodRx                 chainEnt
	expired                chainEnt
	foreign2               chainEnt // a second well-formed chain under a root that is in no TRC
	isd2                   chainEnt
}

func h(n int) time.Duration { return time.Duration(n) * time.Hour }

type tmplMut struct {
	name string
	f    func(t *x509.Certificate)
}

type postMut struct {
	name string
	f    func(c *x509.Certificate)
}

var otherOID = asn1.ObjectIdentifier{1, 3, 6, 1, 4, 1, 55324, 9, 9}

func asTmplMuts(parentSKID []byte, skid []byte) []tmplMut {
	return []tmplMut{
		{"good", func(t *x509.Certificate) {}},
		{"ku-none", func(t *x509.Certificate) { t.KeyUsage = 0 }},
		{"ku-certsign+dig", func(t *x509.Certificate) { t.KeyUsage = x509.KeyUsageCertSign | x509.KeyUsageDigitalSignature }},
		{"ku-certsign", func(t *x509.Certificate) { t.KeyUsage = x509.KeyUsageCertSign }},
		{"ku-contentcommit", func(t *x509.Certificate) { t.KeyUsage = x509.KeyUsageContentCommitment }},
		{"ku-dig+keyenc", func(t *x509.Certificate) { t.KeyUsage = x509.KeyUsageDigitalSignature | x509.KeyUsageKeyEncipherment }},
		{"eku-no-ts", func(t *x509.Certificate) {
			t.ExtKeyUsage = []x509.ExtKeyUsage{x509.ExtKeyUsageServerAuth, x509.ExtKeyUsageClientAuth}
		}},
		{"eku-only-ts", func(t *x509.Certificate) { t.ExtKeyUsage = []x509.ExtKeyUsage{x509.ExtKeyUsageTimeStamping} }},
		{"eku-empty", func(t *x509.Certificate) { t.ExtKeyUsage = nil }},
		{"bc-ca", func(t *x509.Certificate) { t.BasicConstraintsValid = true; t.IsCA = true }},
		{"bc-valid-notca", func(t *x509.Certificate) { t.BasicConstraintsValid = true }},
		{"subj-no-ia", func(t *x509.Certificate) { t.Subject = pki2.Name("as no ia", "") }},
		{"subj-bad-ia", func(t *x509.Certificate) { t.Subject = pki2.Name("as bad ia", "1-ff00:0:zz") }},
		{"subj-wildcard-ia", func(t *x509.Certificate) { t.Subject = pki2.Name("as wild ia", "1-0") }},
		{"subj-noncanon-ia", func(t *x509.Certificate) { t.Subject = pki2.Name("as upper ia", "1-FF00:0:111") }},
		{"subj-int-ia", func(t *x509.Certificate) { t.Subject = pki2.NameRawIA("as int ia", 5) }},
		{"subj-isd2", func(t *x509.Certificate) { t.Subject = pki2.Name("as isd2", iaISD2) }},
		{"skid-missing", func(t *x509.Certificate) { t.SubjectKeyId = nil }},
		{"skid-critical", func(t *x509.Certificate) {
			t.ExtraExtensions = append(t.ExtraExtensions, pki2.SKIDExt(skid, true))
		}},
		{"akid-critical", func(t *x509.Certificate) {
			t.ExtraExtensions = append(t.ExtraExtensions, pki2.AKIDExt(parentSKID, true))
		}},
		{"ueku-root", func(t *x509.Certificate) { t.UnknownExtKeyUsage = []asn1.ObjectIdentifier{cppki.OIDExtKeyUsageRoot} }},
		{"ueku-sensitive", func(t *x509.Certificate) {
			t.UnknownExtKeyUsage = []asn1.ObjectIdentifier{cppki.OIDExtKeyUsageSensitive}
		}},
		{"ueku-other", func(t *x509.Certificate) { t.UnknownExtKeyUsage = []asn1.ObjectIdentifier{otherOID} }},
		{"ueku-other-regular", func(t *x509.Certificate) {
			t.UnknownExtKeyUsage = []asn1.ObjectIdentifier{otherOID, cppki.OIDExtKeyUsageRegular}
		}},
	}
}

func postMuts() []postMut {
	return []postMut{
		{"version2", func(c *x509.Certificate) { c.Version = 2 }},
		{"nil-serial", func(c *x509.Certificate) { c.SerialNumber = nil }},
		{"akid-empty", func(c *x509.Certificate) { c.AuthorityKeyId = nil }},
		{"sigalg-sha1", func(c *x509.Certificate) { c.SignatureAlgorithm = x509.ECDSAWithSHA1 }},
		{"sigalg-sha384", func(c *x509.Certificate) { c.SignatureAlgorithm = x509.ECDSAWithSHA384 }},
		{"sigalg-rsa", func(c *x509.Certificate) { c.SignatureAlgorithm = x509.SHA256WithRSA }},
	}
}

func caTmplMuts() []tmplMut {
	return []tmplMut{
		{"pathlen1", func(t *x509.Certificate) { t.MaxPathLen = 1; t.MaxPathLenZero = false }},
		{"pathlen-unset", func(t *x509.Certificate) { t.MaxPathLen = 0; t.MaxPathLenZero = false }},
		{"ku+digsig", func(t *x509.Certificate) { t.KeyUsage |= x509.KeyUsageDigitalSignature }},
		{"eku-client", func(t *x509.Certificate) { t.ExtKeyUsage = []x509.ExtKeyUsage{x509.ExtKeyUsageClientAuth} }},
		{"eku-server", func(t *x509.Certificate) { t.ExtKeyUsage = []x509.ExtKeyUsage{x509.ExtKeyUsageServerAuth} }},
		{"eku-ts", func(t *x509.Certificate) { t.ExtKeyUsage = []x509.ExtKeyUsage{x509.ExtKeyUsageTimeStamping} }},
		{"bc-noncritical", func(t *x509.Certificate) {
			t.ExtraExtensions = append(t.ExtraExtensions, pki2.BCExt(true, 0, false))
		}},
		{"no-ia", func(t *x509.Certificate) { t.Subject = pki2.Name("ca no ia", "") }},
		{"bad-ia", func(t *x509.Certificate) { t.Subject = pki2.Name("ca bad ia", "1-ff00:0:zz") }},
		{"ueku-root", func(t *x509.Certificate) { t.UnknownExtKeyUsage = []asn1.ObjectIdentifier{cppki.OIDExtKeyUsageRoot} }},
		{"ueku-regular", func(t *x509.Certificate) {
			t.UnknownExtKeyUsage = []asn1.ObjectIdentifier{cppki.OIDExtKeyUsageRegular}
		}},
		{"isd2-subject", func(t *x509.Certificate) { t.Subject = pki2.Name("ca isd2 by isd1 root", iaISD2) }},
	}
}

func buildWorld() *world {
	w := &world{T0: time.Now().Truncate(time.Second), roots: map[string]ent{}}
	T := w.T0
	mkRoot := func(cn, ia string, nb, na time.Time, mut func(*x509.Certificate)) ent {
		k := pki2.NewKey()
		t := pki2.RootTmpl(cn, ia, nb, na, k)
		if mut != nil {
			mut(t)
		}
		return ent{cn, pki2.MustIssue(t, k, nil, nil), k}
	}
	w.R1 = mkRoot("root1", iaCore, T.Add(-h(10)), T.Add(h(10)), nil)
	w.R2 = mkRoot("root2", iaCore, T.Add(-h(9)), T.Add(h(11)), nil)
	w.Rx = mkRoot("rootx", iaCore, T.Add(-h(10)), T.Add(h(10)), nil)
	w.Rexp = mkRoot("rootexp", iaCore, T.Add(-h(10)), T.Add(-h(1)), nil)
	w.Risd = mkRoot("rootisd2", iaISD2, T.Add(-h(10)), T.Add(h(10)), nil)
	rootPL0 := mkRoot("rootpl0", iaCore, T.Add(-h(10)), T.Add(h(10)), func(t *x509.Certificate) {
		t.MaxPathLen = 0
		t.MaxPathLenZero = true
	})
	// a root-profile certificate issued by another root: AKID != SKID
	kc := pki2.NewKey()
	rootCross := ent{"rootcross", pki2.MustIssue(pki2.RootTmpl("rootcross", iaCore, T.Add(-h(9)), T.Add(h(9)), kc),
		kc, w.R1.cert, w.R1.key), kc}
	mkVote := func(cn string, kind int) ent {
		k := pki2.NewKey()
		return ent{cn, pki2.MustIssue(pki2.VotingTmpl(cn, iaCore, T.Add(-h(10)), T.Add(h(10)), k, kind), k, nil, nil), k}
	}
	w.S1, w.G1 = mkVote("sens1", 1), mkVote("reg1", 2)

	mkCA := func(cn, ia string, nb, na time.Time, parent ent, mut func(*x509.Certificate), k *pki2.Key) ent {
		if k == nil {
			k = pki2.NewKey()
		}
		t := pki2.CATmpl(cn, ia, nb, na, k)
		if mut != nil {
			mut(t)
		}
		return ent{cn, pki2.MustIssue(t, k, parent.cert, parent.key), k}
	}
	ca1 := mkCA("ca1", iaCore, T.Add(-h(5)), T.Add(h(5)), w.R1, nil, nil)
	ca2 := mkCA("ca2", iaCore, T.Add(-h(5)), T.Add(h(5)), w.R2, nil, nil)
	cax := mkCA("cax", iaCore, T.Add(-h(5)), T.Add(h(5)), w.Rx, nil, nil)
	caShort := mkCA("ca-short", iaCore, T.Add(-h(1)), T.Add(h(1)), w.R1, nil, nil)
	caExp := mkCA("ca-expired", iaCore, T.Add(-h(5)), T.Add(-h(2)), w.R1, nil, nil)
	caFut := mkCA("ca-future", iaCore, T.Add(h(2)), T.Add(h(5)), w.R1, nil, nil)
	caOutlive := mkCA("ca-outlives-root", iaCore, T.Add(-h(5)), T.Add(h(12)), w.R1, nil, nil)
	caUnderExp := mkCA("ca-under-expired-root", iaCore, T.Add(-h(5)), T.Add(h(5)), w.Rexp, nil, nil)
	caIsd2 := mkCA("ca-isd2", iaISD2, T.Add(-h(5)), T.Add(h(5)), w.Risd, nil, nil)
	caSelf := func() ent { // self-signed CA-profile certificate
		k := pki2.NewKey()
		return ent{"ca-selfsigned", pki2.MustIssue(pki2.CATmpl("ca-selfsigned", iaCore, T.Add(-h(5)), T.Add(h(5)), k), k, nil, nil), k}
	}()
	caEd := mkCA("ca-ed25519", iaCore, T.Add(-h(5)), T.Add(h(5)), w.R1, nil, pki2.NewEdKey())
	// same subject and key as ca1, but signed by rootx: "issued by the CA" holds, rooting differs
	caTwin := mkCA("ca1", iaCore, T.Add(-h(5)), T.Add(h(5)), w.Rx, nil, ca1.key)
	w.cas = []ent{ca1, ca2, cax, caShort, caExp, caFut, caOutlive, caUnderExp, caIsd2, caSelf, caEd, caTwin}
	for _, m := range caTmplMuts() {
		w.cas = append(w.cas, mkCA("ca-"+m.name, iaCore, T.Add(-h(5)), T.Add(h(5)), w.R1, m.f, nil))
	}
	for _, m := range postMuts() {
		c := pki2.Clone(ca1.cert)
		m.f(c)
		w.cas = append(w.cas, ent{"ca1-" + m.name, c, ca1.key})
	}

	mkAS := func(cn string, nb, na time.Time, ca ent, mut func(*x509.Certificate)) (ent, error) {
		k := pki2.NewKey()
		t := pki2.ASTmpl(cn, iaLeaf, nb, na, k)
		if mut != nil {
			mut(t)
		}
		c, err := pki2.Issue(t, k, ca.cert, ca.key)
		return ent{cn, c, k}, err
	}
	add := func(name string, cs ...*x509.Certificate) chainEnt {
		ce := chainEnt{name, cs}
		w.chains = append(w.chains, ce)
		return ce
	}
	// AS variants under ca1
	for _, m := range asTmplMuts(ca1.cert.SubjectKeyId, nil) {
		m := m
		a, err := mkAS("as-"+m.name, T.Add(-h(2)), T.Add(h(2)), ca1, func(t *x509.Certificate) {
			if m.name == "skid-critical" {
				t.ExtraExtensions = append(t.ExtraExtensions, pki2.SKIDExt(t.SubjectKeyId, true))
				return
			}
			m.f(t)
		})
		if err != nil {
			continue
		}
		ce := add("as:"+m.name, a.cert, ca1.cert)
		if m.name == "good" {
			w.good = ce
		}
	}
	for _, m := range postMuts() {
		c := pki2.Clone(w.good.certs[0])
		m.f(c)
		add("as:"+m.name, c, ca1.cert)
	}
	// validity relations AS vs CA (ca1: -5h..+5h)
	for _, v := range []struct {
		name   string
		nb, na time.Duration
	}{
		{"val-equal-ca", -h(5), h(5)}, {"val-starts-1s-early", -h(5) - time.Second, h(2)},
		{"val-ends-1s-late", -h(2), h(5) + time.Second}, {"val-expired", -h(4), -h(1)},
		{"val-future", h(1), h(4)}, {"val-outside-both", -h(6), h(6)}, {"val-short", -time.Second * 30, time.Second * 30},
	} {
		a, err := mkAS("as-"+v.name, T.Add(v.nb), T.Add(v.na), ca1, nil)
		if err == nil {
			ce := add("as:"+v.name, a.cert, ca1.cert)
			if v.name == "val-expired" {
				w.expired = ce
			}
		}
	}
	// a good AS certificate under every CA variant
	for _, ca := range w.cas[1:] {
		nb, na := ca.cert.NotBefore.Add(time.Minute), ca.cert.NotAfter.Add(-time.Minute)
		a, err := mkAS("as-under-"+ca.name, nb, na, ca, nil)
		if err != nil {
			continue
		}
		ce := add("ca:"+ca.name, a.cert, ca.cert)
		switch ca.name {
		case "ca2":
			w.goodR2 = ce
		case "cax":
			w.goodRx = ce
		case "ca-isd2":
			// (subject of the AS certificate must be in ISD 2 for the ISD lookup)
		}
	}
	if a, err := mkAS("as-foreign-2", T.Add(-h(3)), T.Add(h(3)), cax, nil); err == nil {
		w.foreign2 = chainEnt{"load:foreign2", []*x509.Certificate{a.cert, cax.cert}}
	}
	{
		k := pki2.NewKey()
		t := pki2.ASTmpl("as-isd2", iaISD2, T.Add(-h(2)), T.Add(h(2)), k)
		w.isd2 = chainEnt{"load:isd2", []*x509.Certificate{pki2.MustIssue(t, k, caIsd2.cert, caIsd2.key), caIsd2.cert}}
	}
	// wrong issuer / shape defects
	g := w.good.certs
	add("shape:wrong-issuer", g[0], ca2.cert)
	add("shape:twin-ca-other-root", g[0], caTwin.cert)
	add("shape:swapped", g[1], g[0])
	add("shape:len0")
	add("shape:len1", g[0])
	add("shape:len3", g[0], g[1], w.R1.cert)
	add("shape:as-as", g[0], g[0])
	add("shape:ca-ca", g[1], g[1])
	add("shape:as-root", g[0], w.R1.cert)
	add("shape:as-nil", g[0], nil)
	add("shape:nil-ca", nil, g[1])
	add("shape:sens-ca", w.S1.cert, g[1])
	// an AS certificate issued directly by the root
	if a, err := mkAS("as-by-root", T.Add(-h(2)), T.Add(h(2)), w.R1, nil); err == nil {
		add("shape:as-by-root+ca", a.cert, ca1.cert)
		add("shape:as-by-root+root", a.cert, w.R1.cert)
	}

	w.trcs = []trcEnt{
		{"r1+r2", 0, []*x509.Certificate{w.S1.cert, w.G1.cert, w.R1.cert, w.R2.cert}},
		{"r1", 0, []*x509.Certificate{w.R1.cert, w.S1.cert, w.G1.cert}},
		{"r2", 0, []*x509.Certificate{w.S1.cert, w.R2.cert, w.G1.cert}},
		{"rx", 0, []*x509.Certificate{w.S1.cert, w.G1.cert, w.Rx.cert}},
		{"rexp+r2", 0, []*x509.Certificate{w.S1.cert, w.G1.cert, w.Rexp.cert, w.R2.cert}},
		{"rexp", 0, []*x509.Certificate{w.S1.cert, w.G1.cert, w.Rexp.cert}},
		{"isd2", 0, []*x509.Certificate{w.Risd.cert}},
		{"noroot", 0, []*x509.Certificate{w.S1.cert, w.G1.cert}},
		{"nocerts", 0, nil},
		{"r1+ascert", 0, []*x509.Certificate{w.R1.cert, w.good.certs[0]}},
		{"r1+cacert", 0, []*x509.Certificate{w.R1.cert, ca1.cert}},
		{"r1+badroot", 0, []*x509.Certificate{w.R1.cert, rootPL0.cert}},
		{"crossroot", 0, []*x509.Certificate{rootCross.cert, w.R2.cert}},
		{"r1+nilcert", 0, []*x509.Certificate{w.R1.cert, nil}},
		{"ca1-as-root", 0, []*x509.Certificate{ca1.cert}},
		// (a nil *TRC inside VerifyOptions.TRC makes VerifyChain panic in its error annotation —
		// outside the statement of C34, not generated)
		{"zero", 2, nil},
	}
	return w
}

// ---------------------------------------------------------------------------------------

func mkTRCArg(t trcEnt, T0 time.Time) *cppki.TRC {
	switch t.kind {
	case 1:
		return nil
	case 2:
		return &cppki.TRC{}
	}
	s := pki2.MkTRC(1, 1, 1, T0.Add(-h(8)), T0.Add(h(8)), 0, t.certs)
	return &s.TRC
}

func safeErr(f func() error) (err error) {
	defer func() {
		if r := recover(); r != nil {
			err = fmt.Errorf("PANIC %v", r)
		}
	}()
	return f()
}

func okRej(err error) string {
	if err == nil {
		return "ok"
	}
	if strings.HasPrefix(err.Error(), "PANIC") {
		return err.Error()
	}
	return "rej"
}

func within(c *x509.Certificate, t time.Time) bool {
	return !t.Before(c.NotBefore) && !t.After(c.NotAfter)
}

// specChain evaluates the first sentence of C34 on an ACCEPTED chain, from the statement,
// with direct crypto/x509 primitives only.
func specChain(e *vlib.Env, name string, chain []*x509.Certificate, trc trcEnt, t time.Time, ref time.Time) {
	bad := func(key, what string) {
		e.Violate("C34/"+key, what, map[string]any{"case": name, "trc": trc.name, "t_rel_ns": pki2.Rel(t, ref),
			"chain": pki2.FactsList(chain, ref)})
	}
	if len(chain) != 2 || chain[0] == nil || chain[1] == nil {
		bad("accepted-not-two", "accepted chain is not AS certificate + CA certificate")
		return
	}
	a, c := chain[0], chain[1]
	if a.KeyUsage&x509.KeyUsageDigitalSignature == 0 || a.KeyUsage&x509.KeyUsageCertSign != 0 ||
		(a.BasicConstraintsValid && a.IsCA) {
		bad("accepted-as-usage", "first certificate lacks the AS key usage / is a CA")
	}
	ts := false
	for _, u := range a.ExtKeyUsage {
		ts = ts || u == x509.ExtKeyUsageTimeStamping
	}
	if !ts {
		bad("accepted-as-usage", "AS certificate without id-kp-timeStamping")
	}
	if c.KeyUsage&x509.KeyUsageCertSign == 0 || c.KeyUsage&x509.KeyUsageDigitalSignature != 0 ||
		!c.BasicConstraintsValid || !c.IsCA || c.MaxPathLen != 0 {
		bad("accepted-ca-usage", "second certificate lacks the CA key usage / constraints")
	}
	for _, dn := range []struct {
		who string
		v   string
	}{{"as.subject", pki2.IAFact(a.Subject)}, {"as.issuer", pki2.IAFact(a.Issuer)},
		{"ca.subject", pki2.IAFact(c.Subject)}, {"ca.issuer", pki2.IAFact(c.Issuer)}} {
		if dn.v == "n" || dn.v == "e" {
			bad("accepted-no-ia", dn.who+" has no usable ISD-AS attribute")
		}
	}
	if len(a.SubjectKeyId) == 0 || len(a.AuthorityKeyId) == 0 || len(c.SubjectKeyId) == 0 || len(c.AuthorityKeyId) == 0 {
		bad("accepted-keyid", "subject/authority key id missing")
	}
	if a.Version != 3 || c.Version != 3 {
		bad("accepted-version", "not X.509 v3")
	}
	if !pki2.SigBy(a, c) || !bytes.Equal(a.RawIssuer, c.RawSubject) {
		bad("accepted-not-issued-by-ca", "AS certificate was not issued by the CA certificate")
	}
	if a.NotBefore.Before(c.NotBefore) || a.NotAfter.After(c.NotAfter) {
		bad("accepted-not-covered", "CA validity does not cover the AS validity")
	}
	rooted := false
	for _, r := range pki2.RootsOf(trc.certs) {
		if pki2.SigBy(c, r) && within(r, t) {
			rooted = true
		}
	}
	if !rooted {
		bad("accepted-not-rooted", "CA certificate does not chain to a root certificate of the TRC valid at t")
	}
	if !within(a, t) || !within(c, t) {
		bad("accepted-outside-validity", "verification time outside the AS/CA validity")
	}
}

func trcOpWord(chain []*x509.Certificate, t trcEnt, at time.Time, ref time.Time) string {
	switch t.kind {
	case 1:
		return "nil"
	case 2:
		return "zero"
	}
	var leaf, inter *x509.Certificate
	if len(chain) == 2 {
		leaf, inter = chain[0], chain[1]
	}
	roots := pki2.RootsOf(t.certs)
	ok := pki2.X509OK(leaf, inter, roots, at)
	return fmt.Sprintf("t %s %s %s", b(ok), pki2.FactsList(t.certs, ref), pki2.X509FactsWord(inter, roots, ref))
}

func b(v bool) string {
	if v {
		return "1"
	}
	return "0"
}

func instants(chain []*x509.Certificate, trcs []trcEnt, T0 time.Time, r *vlib.Rand) time.Time {
	var ins []time.Time
	for _, c := range chain {
		if c != nil {
			ins = append(ins, c.NotBefore, c.NotAfter)
		}
	}
	for _, t := range trcs {
		for _, c := range pki2.RootsOf(t.certs) {
			ins = append(ins, c.NotBefore, c.NotAfter)
		}
	}
	if len(ins) == 0 || r.Chance(35) {
		return T0.Add(time.Duration(r.Range(-600, 600)) * time.Second)
	}
	i := ins[r.Intn(len(ins))]
	d := []time.Duration{0, 1, -1, time.Second, -time.Second, time.Millisecond, -time.Millisecond, time.Hour, -time.Hour}
	return i.Add(d[r.Intn(len(d))])
}

func runVfy(e *vlib.Env, w *world, ch chainEnt, ts []trcEnt, at time.Time) {
	var args []*cppki.TRC
	asByCa := len(ch.certs) == 2 && pki2.SigBy(ch.certs[0], ch.certs[1])
	words := []string{"vfy", fmt.Sprintf("%d", pki2.Rel(at, w.T0)), pki2.FactsList(ch.certs, w.T0), b(asByCa),
		fmt.Sprintf("%d", len(ts))}
	names := []string{}
	for _, t := range ts {
		args = append(args, mkTRCArg(t, w.T0))
		words = append(words, trcOpWord(ch.certs, t, at, w.T0))
		names = append(names, t.name)
	}
	err := safeErr(func() error { return cppki.VerifyChain(ch.certs, cppki.VerifyOptions{TRC: args, CurrentTime: at}) })
	ans := okRej(err)
	tag := "vfy/rej/" + strings.SplitN(ch.name, ":", 2)[0]
	if err == nil {
		tag = "vfy/ok"
	}
	e.Op(strings.Join(words, " "), ans, tag)
	if err == nil {
		// which TRC accepted? evaluate the statement against each TRC on its own
		for _, t := range ts {
			if t.kind != 0 {
				continue
			}
			if cppki.VerifyChain(ch.certs, cppki.VerifyOptions{TRC: []*cppki.TRC{mkTRCArg(t, w.T0)}, CurrentTime: at}) == nil {
				specChain(e, ch.name, ch.certs, t, at, w.T0)
			}
		}
	}
	if len(e.Samples) < 3 && err == nil {
		e.Sample(map[string]any{"chain": ch.name, "trcs": names, "t_rel_ns": pki2.Rel(at, w.T0), "impl": ans})
	}
}

// randomised struct-level certificate: a parsed real certificate whose fields are then edited
func fuzzCert(r *vlib.Rand, w *world) *x509.Certificate {
	if r.Chance(2) {
		return nil
	}
	pool := []*x509.Certificate{w.good.certs[0], w.good.certs[1], w.R1.cert, w.S1.cert, w.G1.cert}
	c := pki2.Clone(pool[r.Intn(len(pool))])
	n := 0
	if r.Chance(80) {
		n = r.Range(1, 3)
	}
	for i := 0; i < n; i++ {
		switch r.Intn(16) {
		case 0:
			c.Version = r.Range(1, 4)
		case 1:
			c.SerialNumber = nil
		case 2:
			c.SignatureAlgorithm = x509.SignatureAlgorithm(r.Range(0, 16))
		case 3:
			c.SubjectKeyId = nil
		case 4:
			c.AuthorityKeyId = [][]byte{nil, c.SubjectKeyId, {1, 2, 3}}[r.Intn(3)]
		case 5:
			c.KeyUsage = x509.KeyUsage(r.Intn(512))
		case 6:
			c.KeyUsage ^= x509.KeyUsage(1 << uint([]int{0, 5}[r.Intn(2)]))
		case 7:
			all := []x509.ExtKeyUsage{x509.ExtKeyUsageServerAuth, x509.ExtKeyUsageClientAuth, x509.ExtKeyUsageTimeStamping,
				x509.ExtKeyUsageCodeSigning, x509.ExtKeyUsageAny}
			c.ExtKeyUsage = nil
			for _, u := range all {
				if r.Bool() {
					c.ExtKeyUsage = append(c.ExtKeyUsage, u)
				}
			}
		case 8:
			all := []asn1.ObjectIdentifier{cppki.OIDExtKeyUsageSensitive, cppki.OIDExtKeyUsageRegular,
				cppki.OIDExtKeyUsageRoot, otherOID}
			c.UnknownExtKeyUsage = nil
			for k := r.Intn(4); k > 0; k-- {
				c.UnknownExtKeyUsage = append(c.UnknownExtKeyUsage, all[r.Intn(len(all))])
			}
		case 9:
			c.BasicConstraintsValid = r.Bool()
			c.IsCA = r.Bool()
		case 10:
			c.MaxPathLen = r.Range(-1, 2)
		case 11:
			for j := range c.Extensions {
				if r.Chance(40) {
					c.Extensions[j].Critical = !c.Extensions[j].Critical
				}
			}
		case 12:
			if len(c.Extensions) > 0 {
				j := r.Intn(len(c.Extensions))
				c.Extensions = append(c.Extensions[:j:j], c.Extensions[j+1:]...)
			}
		case 13:
			nm := []string{"", "1-ff00:0:zz", iaLeaf, iaISD2, "1-0", "1-FF00:0:1"}[r.Intn(6)]
			c.Subject = pki2.Name("x", nm)
			c.Subject.Names = c.Subject.ExtraNames
		case 14:
			nm := []string{"", "1-ff00:0:zz", iaCore, "0-ff00:0:1"}[r.Intn(4)]
			c.Issuer = pki2.Name("y", nm)
			c.Issuer.Names = c.Issuer.ExtraNames
		case 15:
			c.NotBefore = c.NotBefore.Add(time.Duration(r.Range(-3, 3)) * time.Hour)
			c.NotAfter = c.NotAfter.Add(time.Duration(r.Range(-3, 3)) * time.Hour)
		}
	}
	return c
}

func certTypeNum(t cppki.CertType) int { return int(t) }

func runCert(e *vlib.Env, w *world, c *x509.Certificate, label string) {
	var ct cppki.CertType
	err := safeErr(func() error {
		var err error
		ct, err = cppki.ValidateCert(c)
		return err
	})
	ans := fmt.Sprintf("%d %s", certTypeNum(ct), b(err == nil))
	if err != nil && strings.HasPrefix(err.Error(), "PANIC") {
		ans = err.Error()
	}
	tag := fmt.Sprintf("cert/%s/%s", ct, b(err == nil))
	if c == nil {
		tag = "~cert/nil"
	}
	_ = label
	e.Op("cert "+pki2.Facts(c, w.T0), ans, tag)
}

func runVC(e *vlib.Env, w *world, name string, cs []*x509.Certificate) {
	err := safeErr(func() error { return cppki.ValidateChain(cs) })
	tag := "vc/rej/" + strings.SplitN(name, ":", 2)[0]
	if err == nil {
		tag = "vc/ok"
		// statement (structural part) on every accepted chain
		specStruct(e, name, cs, w.T0)
	}
	e.Op("vc "+pki2.FactsList(cs, w.T0), okRej(err), tag)
}

// structural part of the statement for chains accepted by ValidateChain alone
func specStruct(e *vlib.Env, name string, cs []*x509.Certificate, ref time.Time) {
	bad := func(key, what string) {
		e.Violate("C34/"+key, what, map[string]any{"case": name, "chain": pki2.FactsList(cs, ref)})
	}
	if len(cs) != 2 || cs[0] == nil || cs[1] == nil {
		bad("validated-not-two", "validated chain is not two certificates")
		return
	}
	a, c := cs[0], cs[1]
	if a.KeyUsage&x509.KeyUsageDigitalSignature == 0 || a.KeyUsage&x509.KeyUsageCertSign != 0 ||
		(a.BasicConstraintsValid && a.IsCA) {
		bad("validated-as-usage", "first certificate lacks the AS key usage / is a CA")
	}
	ts := false
	for _, u := range a.ExtKeyUsage {
		ts = ts || u == x509.ExtKeyUsageTimeStamping
	}
	if !ts {
		bad("validated-as-usage", "AS certificate without id-kp-timeStamping")
	}
	if c.KeyUsage&x509.KeyUsageCertSign == 0 || c.KeyUsage&x509.KeyUsageDigitalSignature != 0 ||
		!c.IsCA || !c.BasicConstraintsValid || c.MaxPathLen != 0 {
		bad("validated-ca-usage", "second certificate lacks the CA key usage / constraints")
	}
	for _, u := range c.ExtKeyUsage {
		if u == x509.ExtKeyUsageClientAuth || u == x509.ExtKeyUsageServerAuth {
			bad("validated-ca-usage", "CA certificate with id-kp-clientAuth/serverAuth")
		}
	}
	if len(a.SubjectKeyId) == 0 || len(a.AuthorityKeyId) == 0 || len(c.SubjectKeyId) == 0 || len(c.AuthorityKeyId) == 0 {
		bad("validated-keyid", "subject/authority key id missing")
	}
	if a.Version != 3 || c.Version != 3 {
		bad("validated-version", "not X.509 v3")
	}
	if a.NotBefore.Before(c.NotBefore) || a.NotAfter.After(c.NotAfter) {
		bad("validated-not-covered", "CA validity does not cover the AS validity")
	}
	for _, v := range []string{pki2.IAFact(a.Subject), pki2.IAFact(a.Issuer), pki2.IAFact(c.Subject), pki2.IAFact(c.Issuer)} {
		if v == "n" || v == "e" {
			bad("validated-no-ia", "ISD-AS attribute missing")
		}
	}
}

// ---------------------------------------------------------------------------------------
// provider: activeTRCs / GetChains with wall-clock time

type fakeRecurser struct{ err error }

func (f fakeRecurser) AllowRecursion(net.Addr) error { return f.err }

type fakeRouter struct{}

func (fakeRouter) ChooseServer(context.Context, addr.ISD) (net.Addr, error) {
	return &net.UDPAddr{IP: net.IPv4(127, 0, 0, 1), Port: 1}, nil
}

type fakeFetcher struct {
	chains [][]*x509.Certificate
	err    error
	called bool
}

func (f *fakeFetcher) Chains(context.Context, trust.ChainQuery, net.Addr) ([][]*x509.Certificate, error) {
	f.called = true
	return f.chains, f.err
}

func (f *fakeFetcher) TRC(context.Context, cppki.TRCID, net.Addr) (cppki.SignedTRC, error) {
	return cppki.SignedTRC{}, errors.New("not used")
}

var errRecursion = errors.New("recursion denied")
var errFetch = errors.New("fetch failed")

// planned TRC of a provider scenario: validity and grace as offsets (ns) from the call instant
type planTRC struct {
	base, serial uint64
	nb, na, gr   time.Duration
	rootsOf      int // 0: R1, 1: R2, 2: R1+R2, 3: Rx
}

var offsNeg = []time.Duration{-2 * time.Hour, -time.Hour, -time.Minute, -5 * time.Second, -time.Second, -300 * time.Millisecond}
var offsPos = []time.Duration{300 * time.Millisecond, time.Second, 5 * time.Second, time.Minute, time.Hour}

func pickOff(r *vlib.Rand, negPct int) time.Duration {
	if r.Chance(negPct) {
		return offsNeg[r.Intn(len(offsNeg))]
	}
	return offsPos[r.Intn(len(offsPos))]
}

const margin = 250 * time.Millisecond

func (w *world) rootSet(k int) []*x509.Certificate {
	switch k {
	case 0:
		return []*x509.Certificate{w.S1.cert, w.G1.cert, w.R1.cert}
	case 1:
		return []*x509.Certificate{w.S1.cert, w.G1.cert, w.R2.cert}
	case 2:
		return []*x509.Certificate{w.S1.cert, w.G1.cert, w.R1.cert, w.R2.cert}
	}
	return []*x509.Certificate{w.S1.cert, w.G1.cert, w.Rx.cert}
}

func genPlan(r *vlib.Rand) []planTRC {
	var ps []planTRC
	n := r.Range(0, 4)
	if r.Chance(60) {
		n = r.Range(2, 3)
	}
	base := uint64(r.Range(1, 2))
	serial := base
	for i := 0; i < n; i++ {
		p := planTRC{base: base, serial: serial, rootsOf: r.Intn(4)}
		p.nb = pickOff(r, 85)
		p.na = pickOff(r, 15)
		if r.Chance(8) { // inverted / degenerate validity
			p.na = pickOff(r, 90)
		}
		if serial != base || r.Chance(5) {
			// grace period such that nb+grace is away from the call instant
			for {
				g := []time.Duration{0, 100 * time.Millisecond, time.Second, 10 * time.Second, time.Minute, time.Hour, 3 * time.Hour}[r.Intn(7)]
				end := p.nb + g
				if end <= -margin || end >= margin {
					p.gr = g
					break
				}
			}
		}
		ps = append(ps, p)
		switch {
		case r.Chance(70):
			serial++
		case r.Chance(50):
			serial += 2 // gap: predecessor missing
		default:
			base = serial + 1 // trust reset: new base
			serial = base
		}
	}
	// store order is irrelevant to the DB: shuffle
	for i := len(ps) - 1; i > 0; i-- {
		j := r.Intn(i + 1)
		ps[i], ps[j] = ps[j], ps[i]
	}
	return ps
}

func planWords(ps []planTRC) string {
	w := []string{fmt.Sprintf("%d", len(ps))}
	for _, p := range ps {
		w = append(w, fmt.Sprintf("%d:%d:%d:%d:%d", p.base, p.serial, int64(p.nb), int64(p.na), int64(p.gr)))
	}
	return strings.Join(w, " ")
}

func latestOf(ps []planTRC) (int, bool) {
	best := -1
	for i, p := range ps {
		if best < 0 || p.base > ps[best].base || (p.base == ps[best].base && p.serial > ps[best].serial) {
			best = i
		}
	}
	return best, best >= 0
}

func findPlan(ps []planTRC, base, serial uint64) int {
	for i, p := range ps {
		if p.base == base && p.serial == serial {
			return i
		}
	}
	return -1
}

func classifyActiveErr(err error) string {
	switch {
	case errors.Is(err, pki2.ErrDB):
		return "dberr"
	case errors.Is(err, trust.VerifErrNotFound):
		return "notfound"
	case errors.Is(err, trust.VerifErrInactive):
		return "inactive"
	}
	return "unknown-error"
}

func renderActive(trcs []cppki.SignedTRC, err error) string {
	if err != nil {
		return classifyActiveErr(err)
	}
	id := func(t cppki.SignedTRC) string { return fmt.Sprintf("%d:%d", uint64(t.TRC.ID.Base), uint64(t.TRC.ID.Serial)) }
	switch len(trcs) {
	case 1:
		return "one " + id(trcs[0])
	case 2:
		return "two " + id(trcs[0]) + " " + id(trcs[1])
	}
	return fmt.Sprintf("len%d", len(trcs))
}

func runProvider(e *vlib.Env, w *world, r *vlib.Rand, withChains bool) {
	ps := genPlan(r)
	failL, failP := r.Chance(4), r.Chance(6)
	chainPool := []chainEnt{w.good, w.goodR2, w.goodRx, w.expired}
	// DB content and fetched content: indices into chainPool
	var dbIdx, feIdx []int
	for i := range chainPool {
		if r.Chance(55) {
			dbIdx = append(dbIdx, i)
		}
		if r.Chance(45) {
			feIdx = append(feIdx, i)
		}
	}
	allowInactive := withChains && r.Chance(8)
	wildcard := withChains && r.Chance(3)
	recursion := r.Chance(70)
	failChains := withChains && r.Chance(4)
	fetchErr := r.Chance(10)
	insertFails := r.Chance(8)

	for attempt := 0; attempt < 5; attempt++ {
		t0 := time.Now()
		db := &pki2.MemDB{FailTRCCall: map[int]bool{}, FailChains: failChains, FailInsert: insertFails}
		if failL {
			db.FailTRCCall[1] = true
		}
		if failP {
			db.FailTRCCall[2] = true
		}
		trcObjs := make([]cppki.SignedTRC, len(ps))
		for i, p := range ps {
			trcObjs[i] = pki2.MkTRC(1, p.base, p.serial, t0.Add(p.nb), t0.Add(p.na), p.gr, w.rootSet(p.rootsOf))
			db.TRCs = append(db.TRCs, trcObjs[i])
		}
		// a TRC of another ISD must never be picked
		db.TRCs = append(db.TRCs, pki2.MkTRC(2, 9, 9, t0.Add(-time.Hour), t0.Add(time.Hour), 0, w.rootSet(2)))
		for _, i := range dbIdx {
			db.ChainL = append(db.ChainL, chainPool[i].certs)
		}
		ctx := context.Background()
		actWord := fmt.Sprintf("0 %s %s %s", b(failL), b(failP), planWords(ps))

		// oracle matrix: chain i verifies against latest (0) / predecessor (1) now
		li, haveL := latestOf(ps)
		pi := -1
		if haveL {
			pi = findPlan(ps, ps[li].base, ps[li].serial-1)
		}
		var pairs []string
		okm := map[[2]int]bool{}
		for i, ch := range chainPool {
			for k, ti := range []int{li, pi} {
				if ti < 0 {
					continue
				}
				if cppki.VerifyChain(ch.certs, cppki.VerifyOptions{TRC: []*cppki.TRC{&trcObjs[ti].TRC}}) == nil {
					pairs = append(pairs, fmt.Sprintf("%d.%d", i, k))
					okm[[2]int{i, k}] = true
				}
			}
		}
		var op, ans, tag string
		var handed [][]*x509.Certificate
		var gerr error
		var spec func()
		if !withChains {
			var trcs []cppki.SignedTRC
			err := safeErr(func() error {
				var err error
				trcs, err = trust.VerifActiveTRCs(ctx, db, 1)
				return err
			})
			op, ans = "act "+actWord, renderActive(trcs, err)
			if err != nil && strings.HasPrefix(err.Error(), "PANIC") {
				ans = err.Error()
			}
			tag = "act/" + strings.SplitN(ans, " ", 2)[0]
			gerr = err
			spec = func() { specActive(e, ps, trcs, err, failL || failP) }
		} else {
			fe := &fakeFetcher{err: nil}
			for _, i := range feIdx {
				fe.chains = append(fe.chains, chainPool[i].certs)
			}
			if fetchErr {
				fe.err = errFetch
			}
			rec := fakeRecurser{}
			if !recursion {
				rec.err = errRecursion
			}
			p := trust.FetchingProvider{DB: db, Recurser: rec, Fetcher: fe, Router: fakeRouter{}}
			q := trust.ChainQuery{IA: addr.MustParseIA(iaLeaf)}
			if wildcard {
				q.IA = addr.MustParseIA("1-0")
			}
			var opts []trust.Option
			if allowInactive {
				opts = append(opts, trust.AllowInactive())
			}
			err := safeErr(func() error {
				var err error
				handed, err = p.GetChains(ctx, q, opts...)
				return err
			})
			gerr = err
			idxOf := func(ch []*x509.Certificate) int {
				for i, c := range chainPool {
					if len(ch) == 2 && ch[0] == c.certs[0] && ch[1] == c.certs[1] {
						return i
					}
				}
				return 99
			}
			render := func(chs [][]*x509.Certificate) string {
				var xs []string
				for _, ch := range chs {
					xs = append(xs, fmt.Sprintf("%d", idxOf(ch)))
				}
				if len(xs) == 0 {
					return "-"
				}
				return strings.Join(xs, ",")
			}
			lst := func(ix []int, fail bool) string {
				if fail {
					return "e"
				}
				if len(ix) == 0 {
					return "-"
				}
				s := make([]string, len(ix))
				for i, x := range ix {
					s[i] = fmt.Sprintf("%d", x)
				}
				return strings.Join(s, ",")
			}
			sort.Strings(pairs)
			pw := "-"
			if len(pairs) > 0 {
				pw = strings.Join(pairs, ",")
			}
			op = fmt.Sprintf("gc %s %s %s %s %s %s %s %s", b(wildcard), b(allowInactive), b(recursion), b(insertFails),
				lst(dbIdx, failChains), lst(feIdx, fetchErr), pw, actWord)
			switch {
			case err == nil:
				ans = "ok " + render(handed)
				tag = "gc/ok"
				if len(handed) == 0 {
					tag = "gc/ok-empty"
				} else if fe.called {
					tag = "gc/ok-fetched"
				}
			case strings.HasPrefix(err.Error(), "PANIC"):
				ans, tag = err.Error(), "gc/panic"
			case errors.Is(err, errRecursion):
				ans, tag = "err recursion", "gc/err-recursion"
			case errors.Is(err, errFetch):
				ans, tag = "err fetch", "gc/err-fetch"
			case errors.Is(err, trust.VerifErrNotFound), errors.Is(err, trust.VerifErrInactive):
				ans = "err trcs-" + classifyActiveErr(err)
				tag = "gc/" + ans[4:]
			case errors.Is(err, pki2.ErrDB):
				// by call site: Chains failed / SignedTRC failed / InsertChain failed
				switch {
				case failChains:
					ans = "err db"
				case fe.called:
					ans = "err insert"
				default:
					ans = "err trcs-dberr"
				}
				tag = "gc/" + strings.ReplaceAll(ans, " ", "-")
			default:
				ans, tag = "err wildcard", "gc/err-wildcard"
				if !wildcard {
					ans = "err unknown"
				}
			}
			if !allowInactive && !wildcard {
				spec = func() { specProvider(e, ps, handed, chainPool, okm, li, pi) }
			}
		}
		el := time.Since(t0)
		if el > margin/2 {
			continue // the wall clock moved too far during the case: redo it
		}
		_ = gerr
		e.Op(op, ans, tag)
		if spec != nil {
			spec() // the statement is evaluated only on cases whose timing was within the margin
		}
		return
	}
	e.Case("provider-case-skipped-clock", "~skipped", true)
}

// specActive: the selected TRCs are the latest one while it is valid, plus its predecessor
// only inside the latest TRC's grace period (second sentence of C34, selection part).
func specActive(e *vlib.Env, ps []planTRC, trcs []cppki.SignedTRC, err error, injected bool) {
	bad := func(key, what string) {
		e.Violate("C34/"+key, what, map[string]any{"store": planWords(ps), "result": renderActive(trcs, err)})
	}
	if err != nil || injected {
		return
	}
	li, ok := latestOf(ps)
	if !ok || len(trcs) == 0 {
		bad("active-none", "TRCs selected although the store is empty")
		return
	}
	L := ps[li]
	if uint64(trcs[0].TRC.ID.Base) != L.base || uint64(trcs[0].TRC.ID.Serial) != L.serial {
		bad("active-not-latest", "first selected TRC is not the latest TRC of the ISD")
	}
	if !(L.nb < 0 && L.na > 0) {
		bad("active-latest-invalid", "latest TRC selected outside its validity")
	}
	if len(trcs) == 2 {
		inGrace := L.base != L.serial && L.nb < 0 && L.nb+L.gr > 0
		if !inGrace {
			bad("active-pred-outside-grace", "predecessor TRC selected outside the grace period of the latest TRC")
		}
		if uint64(trcs[1].TRC.ID.Base) != L.base || uint64(trcs[1].TRC.ID.Serial) != L.serial-1 {
			bad("active-pred-wrong", "second selected TRC is not the predecessor of the latest")
		}
	}
	if len(trcs) > 2 {
		bad("active-too-many", "more than two TRCs selected")
	}
}

// specProvider: every chain handed out verifies against the latest TRC while it is valid, or
// against the predecessor during the latest TRC's grace period.
func specProvider(e *vlib.Env, ps []planTRC, handed [][]*x509.Certificate, pool []chainEnt,
	okm map[[2]int]bool, li, pi int) {
	for _, ch := range handed {
		idx := -1
		for i, c := range pool {
			if len(ch) == 2 && ch[0] == c.certs[0] && ch[1] == c.certs[1] {
				idx = i
			}
		}
		bad := func(key, what string) {
			name := "?"
			if idx >= 0 {
				name = pool[idx].name
			}
			e.Violate("C34/"+key, what, map[string]any{"store": planWords(ps), "chain": name})
		}
		if idx < 0 || li < 0 {
			bad("handed-unknown", "a chain was handed out that is unknown / no TRC exists")
			continue
		}
		L := ps[li]
		valid := L.nb < 0 && L.na > 0
		inGrace := L.base != L.serial && L.nb < 0 && L.nb+L.gr > 0
		switch {
		case !valid:
			bad("handed-latest-invalid", "chain handed out although the latest TRC is not valid")
		case okm[[2]int{idx, 0}]:
		case inGrace && pi >= 0 && okm[[2]int{idx, 1}]:
		default:
			bad("handed-unverifiable", "chain handed out that verifies neither against the valid latest TRC nor against the predecessor in the grace period")
		}
	}
}

// ---------------------------------------------------------------------------------------
// LoadChains (store.go): directories of several chain files in different orders

type loadFile struct {
	name   string // sort key prefix decides the processing order
	kind   string
	certs  []*x509.Certificate // nil: not a PEM bundle
	isd1   bool
	inVal  bool
	poolIx int // index into the verification oracle's chain list, -1 if none
}

func pemOf(cs []*x509.Certificate) []byte {
	var bb bytes.Buffer
	for _, c := range cs {
		_ = pem.Encode(&bb, &pem.Block{Type: "CERTIFICATE", Bytes: c.Raw})
	}
	return bb.Bytes()
}

func runLoad(e *vlib.Env, w *world, r *vlib.Rand, idx int) {
	ps := genPlan(r)
	failAll := r.Chance(3)
	insertFails := r.Chance(3)
	// candidate files
	cands := []loadFile{
		{kind: "good-r1", certs: w.good.certs, isd1: true, inVal: true},
		{kind: "good-r2", certs: w.goodR2.certs, isd1: true, inVal: true},
		{kind: "foreign-root", certs: w.goodRx.certs, isd1: true, inVal: true},
		{kind: "foreign-root-2", certs: w.foreign2.certs, isd1: true, inVal: true},
		{kind: "expired", certs: w.expired.certs, isd1: true, inVal: false},
		{kind: "isd2", certs: w.isd2.certs, isd1: false, inVal: true},
		{kind: "swapped", certs: []*x509.Certificate{w.good.certs[1], w.good.certs[0]}, isd1: true, inVal: true},
		{kind: "single", certs: w.good.certs[:1], isd1: true, inVal: true},
		{kind: "garbage"},
		{kind: "dup-good-r1", certs: w.good.certs, isd1: true, inVal: true},
	}
	// scenario shapes: good-then-bad, bad-then-good, bad only, several bad, random
	var pick []int
	switch r.Intn(6) {
	case 0:
		pick = []int{r.Intn(2), 2 + r.Intn(2)}
	case 1:
		pick = []int{2 + r.Intn(2), r.Intn(2)}
	case 2:
		pick = []int{2 + r.Intn(2)}
	case 3:
		pick = []int{2, 3, r.Intn(2), 3}[:r.Range(2, 3)]
	default:
		for i := range cands {
			if r.Chance(45) {
				pick = append(pick, i)
			}
		}
		for i := len(pick) - 1; i > 0; i-- {
			j := r.Intn(i + 1)
			pick[i], pick[j] = pick[j], pick[i]
		}
	}
	dir, err := os.MkdirTemp("", "pki2-load-")
	if err != nil {
		panic(err)
	}
	defer os.RemoveAll(dir)
	var files []loadFile
	for i, ci := range pick {
		f := cands[ci]
		f.name = filepath.Join(dir, fmt.Sprintf("%02d-%s.pem", i, f.kind))
		data := []byte("-----BEGIN GARBAGE-----\nAAAA\n-----END GARBAGE-----\n")
		if f.certs != nil {
			data = pemOf(f.certs)
		}
		if err := os.WriteFile(f.name, data, 0o644); err != nil {
			panic(err)
		}
		files = append(files, f)
	}
	// a non-pem file must be ignored by the glob
	_ = os.WriteFile(filepath.Join(dir, "zz-not-a-chain.txt"), pemOf(w.goodRx.certs), 0o644)

	for attempt := 0; attempt < 5; attempt++ {
		t0 := time.Now()
		db := &pki2.MemDB{FailTRCCall: map[int]bool{}, FailAllTRC: failAll, FailInsert: insertFails}
		trcObjs := make([]cppki.SignedTRC, len(ps))
		for i, p := range ps {
			trcObjs[i] = pki2.MkTRC(1, p.base, p.serial, t0.Add(p.nb), t0.Add(p.na), p.gr, w.rootSet(p.rootsOf))
			db.TRCs = append(db.TRCs, trcObjs[i])
		}
		li, haveL := latestOf(ps)
		pi := -1
		if haveL {
			pi = findPlan(ps, ps[li].base, ps[li].serial-1)
		}
		vfy := func(cs []*x509.Certificate, ti int) bool {
			return ti >= 0 && cppki.VerifyChain(cs, cppki.VerifyOptions{TRC: []*cppki.TRC{&trcObjs[ti].TRC}}) == nil
		}
		var res trust.LoadResult
		var lerr error
		out, okc := vlib.Safe(func() string {
			res, lerr = trust.LoadChains(context.Background(), dir, db)
			return ""
		})
		// facts per file, in processing (= lexical) order
		words := []string{"lc", "0", b(failAll), b(failAll), planWords(ps), fmt.Sprintf("%d", len(files))}
		seen := map[string]bool{}
		oks := make([][2]bool, len(files))
		for i, f := range files {
			if f.certs == nil {
				words = append(words, "u")
				continue
			}
			valid := cppki.ValidateChain(f.certs) == nil
			o0, o1 := false, false
			if f.isd1 {
				o0, o1 = vfy(f.certs, li), vfy(f.certs, pi)
			}
			oks[i] = [2]bool{o0, o1}
			key := string(f.certs[0].Raw)
			dup := seen[key]
			words = append(words, fmt.Sprintf("c:%s:%s:%s:%s:%s:%s:%s", b(valid), b(f.inVal), b(f.isd1), b(o0), b(o1), b(insertFails), b(dup)))
			// the chain counts as stored once the model's decision for it is "loaded"
			if valid && f.inVal && f.isd1 && !insertFails {
				L := -1
				if haveL {
					L = li
				}
				if L >= 0 {
					lp := ps[L]
					validL := lp.nb < 0 && lp.na > 0
					inGr := lp.base != lp.serial && lp.nb < 0 && lp.nb+lp.gr > 0
					if validL && !failAll && (o0 || (inGr && pi >= 0 && o1)) {
						seen[key] = true
					}
				}
			}
		}
		if time.Since(t0) > margin/2 {
			continue
		}
		// implementation answer: per file L / I, A at the file where the run stopped
		var sb strings.Builder
		loaded := map[string]bool{}
		for _, f := range res.Loaded {
			loaded[f] = true
		}
		for _, f := range files {
			_, ign := res.Ignored[f.name]
			switch {
			case loaded[f.name]:
				sb.WriteString("L")
			case ign:
				sb.WriteString("I")
			default:
				if lerr != nil {
					sb.WriteString("A")
				} else {
					sb.WriteString("?")
				}
			}
			if !loaded[f.name] && !ign {
				break
			}
		}
		ans := sb.String()
		if ans == "" {
			ans = "-"
		}
		if !okc {
			ans = out
		}
		tag := "lc/ok"
		if lerr != nil {
			tag = "lc/abort"
		} else if len(res.Loaded) == 0 {
			tag = "lc/none-loaded"
		}
		e.Op(strings.Join(words, " "), ans, tag)
		// statement: a chain enters the trust DB only if it verifies against the valid latest TRC,
		// or against the predecessor inside the grace period — whatever was loaded before it
		for i, f := range files {
			if !loaded[f.name] {
				continue
			}
			bad := func(key, what string) {
				var order []string
				for _, g := range files {
					order = append(order, filepath.Base(g.name))
				}
				e.Violate("C34/"+key, what, map[string]any{"case": idx, "file": filepath.Base(f.name), "directory": order,
					"store": planWords(ps)})
			}
			if !haveL {
				bad("loaded-no-trc", "chain file loaded although the ISD has no TRC")
				continue
			}
			lp := ps[li]
			validL := lp.nb < 0 && lp.na > 0
			inGr := lp.base != lp.serial && lp.nb < 0 && lp.nb+lp.gr > 0
			switch {
			case !f.isd1 || !validL:
				bad("loaded-latest-invalid", "chain file loaded although no valid latest TRC exists for its ISD")
			case oks[i][0]:
			case inGr && pi >= 0 && oks[i][1]:
			default:
				bad("loaded-unverifiable", "chain file inserted into the trust DB although the chain verifies against no active TRC")
			}
		}
		for _, ch := range db.Inserted {
			found := false
			for i, f := range files {
				if f.certs != nil && len(ch) == 2 && len(f.certs) == 2 && bytes.Equal(ch[0].Raw, f.certs[0].Raw) && loaded[f.name] {
					found = true
					_ = i
				}
			}
			if !found && lerr == nil {
				e.Violate("C34/inserted-not-reported", "a chain was inserted into the DB without being reported as loaded",
					map[string]any{"case": idx})
			}
		}
		return
	}
	e.Case("load-case-skipped-clock", "~skipped", true)
}

// ---------------------------------------------------------------------------------------

func main() {
	e := vlib.Init()
	r := pki2.Rand(e.Seed)
	w := buildWorld()
	e.Rule = "real P-256 keys and X.509 certificates generated in-process: every single deviation from the SCION " +
		"AS/CA/root/voting profile (template level and parsed-field level), validity relations, wrong issuer/ISD/root, " +
		"chain shapes (0,1,3 certs, swapped, nil) x TRCs (root sets, no roots, unclassifiable certs, nil, zero) x " +
		"verification times at and around every validity boundary; random field-level mutations of parsed certificates; " +
		"provider: random TRC stores (base/serial, gaps, trust resets) with validity and grace offsets >= 250 ms from the " +
		"wall clock, DB/fetcher/recursion failures; LoadChains on directories of 1-10 chain files (genuine, foreign root, " +
		"expired, other ISD, malformed, duplicate) in good-then-bad / bad-then-good / bad-only / random orders; non-trivial = reached the decision logic (not nil/skipped); " +
		"distinct by op line (facts of all objects)"

	// 1. every certificate of the world through ValidateCert, every chain through ValidateChain
	seenCert := map[*x509.Certificate]bool{}
	for _, ch := range w.chains {
		for _, c := range ch.certs {
			if !seenCert[c] {
				seenCert[c] = true
				runCert(e, w, c, ch.name)
			}
		}
		runVC(e, w, ch.name, ch.certs)
	}
	for _, t := range w.trcs {
		for _, c := range t.certs {
			if !seenCert[c] {
				seenCert[c] = true
				runCert(e, w, c, t.name)
			}
		}
	}
	// 2. every chain x every TRC at T0, then around the boundaries
	for _, ch := range w.chains {
		for _, t := range w.trcs {
			runVfy(e, w, ch, []trcEnt{t}, w.T0)
		}
	}
	nv := e.N(6000, 80000)
	for i := 0; i < nv; i++ {
		ch := w.chains[r.Intn(len(w.chains))]
		if r.Chance(40) {
			ch = []chainEnt{w.good, w.goodR2, w.goodRx}[r.Intn(3)]
		}
		nt := 1
		if r.Chance(25) {
			nt = r.Range(0, 3)
		}
		var ts []trcEnt
		for k := 0; k < nt; k++ {
			if r.Chance(60) {
				ts = append(ts, w.trcs[r.Intn(7)])
			} else {
				ts = append(ts, w.trcs[r.Intn(len(w.trcs))])
			}
		}
		runVfy(e, w, ch, ts, instants(ch.certs, ts, w.T0, r))
	}
	// 3. field-level mutations
	nf := e.N(40000, 400000)
	for i := 0; i < nf; i++ {
		runCert(e, w, fuzzCert(r, w), "fuzz")
	}
	nc := e.N(20000, 200000)
	for i := 0; i < nc; i++ {
		a, c := fuzzCert(r, w), fuzzCert(r, w)
		if r.Chance(60) {
			a = pki2.Clone(w.good.certs[0])
			if r.Chance(50) {
				a.NotBefore = w.good.certs[1].NotBefore.Add(time.Duration(r.Range(-2, 2)) * time.Second)
			}
			if r.Chance(50) {
				a.NotAfter = w.good.certs[1].NotAfter.Add(time.Duration(r.Range(-2, 2)) * time.Second)
			}
		}
		if r.Chance(60) {
			c = w.good.certs[1]
		}
		cs := []*x509.Certificate{a, c}
		switch r.Intn(20) {
		case 0:
			cs = cs[:1]
		case 1:
			cs = append(cs, w.R1.cert)
		case 2:
			cs = nil
		}
		runVC(e, w, "fuzz", cs)
	}
	// 4. provider
	na := e.N(2500, 30000)
	for i := 0; i < na; i++ {
		runProvider(e, w, r, false)
	}
	ng := e.N(2500, 30000)
	for i := 0; i < ng; i++ {
		runProvider(e, w, r, true)
	}
	nl := e.N(1500, 20000)
	for i := 0; i < nl; i++ {
		runLoad(e, w, r, i)
	}
	e.Extra["world_chains"] = len(w.chains)
	e.Extra["world_trcs"] = len(w.trcs)
	e.Finish()
}
