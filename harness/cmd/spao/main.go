// Engine "spao" (C21): ties lean/Scion/Model/Spao.lean to pkg/spao (serializeAuthenticatedData
// through the verif hook, ComputeAuthCMAC as exported) and evaluates the C21 property predicate —
// written from the statement: the tag is unchanged under single-field changes of mutable/excluded
// fields and changes under single-field changes of covered fields — on the real ComputeAuthCMAC.
//
// The fields are addressed by their position on the wire (doc/protocols/scion-header.rst): a
// variant is the base packet's header bytes with one field changed, decoded again by the real
// decoder, so the predicate does not depend on the model.
package main

import (
	"bytes"
	"crypto/aes"
	"fmt"
	"strings"

	"github.com/dchest/cmac"
	"github.com/gopacket/gopacket"

	"github.com/scionproto/scion/pkg/slayers"
	"github.com/scionproto/scion/pkg/slayers/path"
	"github.com/scionproto/scion/pkg/spao"

	"verifharness/vlib"
	"verifharness/wiregen"
)

type optv struct {
	spi uint32
	alg uint8
	ts  uint64
}

type pkt struct {
	hdr     []byte // serialized SCION header
	opt     optv
	pldType uint8
	pld     []byte
	key     []byte
	// struct-level overrides applied after decoding (fields that cannot be changed on the wire
	// without breaking the decode)
	setPathType *uint8
}

func (p *pkt) clone() *pkt {
	q := *p
	q.hdr = append([]byte(nil), p.hdr...)
	q.pld = append([]byte(nil), p.pld...)
	return &q
}

func (p *pkt) layer() (*slayers.SCION, error) {
	s, _, err, pn := wiregen.RealDecode(p.hdr)
	if pn != "" {
		return nil, fmt.Errorf("%s", pn)
	}
	if err != nil {
		return nil, err
	}
	if p.setPathType != nil {
		s.PathType = path.Type(*p.setPathType)
	}
	return s, nil
}

func (p *pkt) option() (slayers.PacketAuthOption, error) {
	return slayers.NewPacketAuthOption(slayers.PacketAuthOptionParams{
		SPI: slayers.PacketAuthSPI(p.opt.spi), Algorithm: slayers.PacketAuthAlg(p.opt.alg),
		TimestampSN: p.opt.ts, Auth: make([]byte, 16)})
}

// authData runs the real serializeAuthenticatedData.
func (p *pkt) authData() (string, []byte) {
	s, err := p.layer()
	if err != nil {
		return "undecodable", nil
	}
	opt, err := p.option()
	if err != nil {
		return "bad-option", nil
	}
	var out []byte
	res, ok := vlib.Safe(func() string {
		buf := make([]byte, spao.MACBufferSize)
		for i := range buf {
			buf[i] = 0xa5 // stale buffer contents must not leak into the input
		}
		n, err := spao.VerifSerializeAuthenticatedData(buf, s, opt, slayers.L4ProtocolType(p.pldType), p.pld)
		if err != nil {
			return "err"
		}
		out = buf[:n]
		return vlib.Hex(out)
	})
	if !ok {
		return res, nil
	}
	return res, out
}

// tag runs the real ComputeAuthCMAC.
func (p *pkt) tag() ([]byte, error) {
	s, err := p.layer()
	if err != nil {
		return nil, err
	}
	opt, err := p.option()
	if err != nil {
		return nil, err
	}
	return spao.ComputeAuthCMAC(spao.MACInput{Key: p.key, Header: opt, ScionLayer: s,
		PldType: slayers.L4ProtocolType(p.pldType), Pld: p.pld}, make([]byte, spao.MACBufferSize), make([]byte, 16))
}

func (p *pkt) opLine() string {
	s, err := p.layer()
	if err != nil {
		return ""
	}
	return fmt.Sprintf("auth %d %d %d %d %s %s", p.opt.spi, p.opt.alg, p.opt.ts, p.pldType,
		vlib.Hex(p.pld), wiregen.ScionStr(s))
}

func (p *pkt) replay() map[string]any {
	return map[string]any{"header": vlib.Hex(p.hdr), "spi": p.opt.spi, "alg": p.opt.alg, "ts": p.opt.ts,
		"pldType": p.pldType, "pld": vlib.Hex(p.pld), "key": vlib.Hex(p.key)}
}

// ---- SPI kinds (doc/protocols/authenticator-option.rst) ------------------------------------------

type spiKind struct {
	name                    string
	mk                      func(r *vlib.Rand) uint32
	coverIA, coverD, coverS bool
}

func drkey(t, d uint32) func(r *vlib.Rand) uint32 {
	return func(r *vlib.Rand) uint32 { return t<<17 | d<<16 | uint32(1+r.Intn(65535)) }
}

var spiKinds = []spiKind{
	{"nondrkey", func(r *vlib.Rand) uint32 {
		if r.Chance(20) {
			return 0
		}
		return 1<<21 + uint32(r.U64()%(1<<32-1<<21))
	}, true, true, true},
	{"drkey-ashost-sender", drkey(0, 0), false, false, true},
	{"drkey-ashost-receiver", drkey(0, 1), false, true, false},
	{"drkey-hosthost-sender", drkey(1, 0), false, false, false},
	{"drkey-hosthost-receiver", drkey(1, 1), false, false, false},
}

// ---- single-field changes -----------------------------------------------------------------------

type change struct {
	field   string
	mutable bool // per the statement: true = tag must stay, false = tag must change
	tc      bool // a traffic-class bit (known finding input class)
	apply   func(q *pkt)
}

func flipBit(off, bit int) func(q *pkt) {
	return func(q *pkt) { q.hdr[off] ^= 1 << uint(bit) }
}

// changes enumerates the single-field changes applicable to the packet, by wire position.
func changes(p *pkt, k spiKind, r *vlib.Rand) []change {
	h := p.hdr
	var cs []change
	add := func(f string, mutable bool, ap func(q *pkt)) {
		cs = append(cs, change{field: f, mutable: mutable, apply: ap})
	}
	// first line: version(4) | traffic class(8) | flow id(20)
	add("version", false, flipBit(0, 4+r.Intn(4)))
	for tcbit := 0; tcbit < 8; tcbit++ {
		off, bit := 1, 4+tcbit // TC bits 0..3 are bits 4..7 of byte 1
		if tcbit >= 4 {
			off, bit = 0, tcbit-4 // TC bits 4..7 are bits 0..3 of byte 0
		}
		// the statement: the two ECN bits (TC bits 0,1) are mutable, the six DSCP bits are covered
		cs = append(cs, change{field: fmt.Sprintf("traffic_class_bit%d", tcbit), mutable: tcbit < 2, tc: true,
			apply: flipBit(off, bit)})
	}
	add("flow_id", false, func(q *pkt) {
		b := r.Intn(20)
		q.hdr[3-b/8] ^= 1 << uint(b%8)
	})
	add("next_hdr", true, func(q *pkt) { q.hdr[4] ^= byte(1 + r.Intn(255)) })
	add("payload_len", true, func(q *pkt) { q.hdr[6+r.Intn(2)] ^= byte(1 + r.Intn(255)) })
	add("path_type", false, func(q *pkt) { v := q.hdr[8] ^ byte(1+r.Intn(3)); q.setPathType = &v })
	add("dst_addr_type", false, flipBit(9, 6+r.Intn(2)))
	add("src_addr_type", false, flipBit(9, 2+r.Intn(2)))
	dl, sl := 4*(1+int(h[9]>>4&3)), 4*(1+int(h[9]&3))
	add("dst_ia", !k.coverIA, flipBit(12+r.Intn(8), r.Intn(8)))
	add("src_ia", !k.coverIA, flipBit(20+r.Intn(8), r.Intn(8)))
	add("dst_host", !k.coverD, flipBit(28+r.Intn(dl), r.Intn(8)))
	add("src_host", !k.coverS, flipBit(28+dl+r.Intn(sl), r.Intn(8)))
	off := 28 + dl + sl
	raw := func(o int) { // SCION path meta + fields at o
		w := uint32(h[o])<<24 | uint32(h[o+1])<<16 | uint32(h[o+2])<<8 | uint32(h[o+3])
		segs := []int{int(w >> 12 & 63), int(w >> 6 & 63), int(w & 63)}
		ni, nh := 0, 0
		for _, s := range segs {
			if s > 0 {
				ni++
			}
			nh += s
		}
		add("curr_inf", true, flipBit(o, 6+r.Intn(2)))
		add("curr_hf", true, flipBit(o, r.Intn(6)))
		i := r.Intn(ni)
		io := o + 4 + 8*i
		add("info_segid", true, flipBit(io+2+r.Intn(2), r.Intn(8)))
		add("info_flags", false, flipBit(io, r.Intn(2)))
		add("info_timestamp", false, flipBit(io+4+r.Intn(4), r.Intn(8)))
		j := r.Intn(nh)
		ho := o + 4 + 8*ni + 12*j
		add("hop_router_alert", true, flipBit(ho, r.Intn(2)))
		add("hop_exptime", false, flipBit(ho+1, r.Intn(8)))
		add("hop_cons_ingress", false, flipBit(ho+2+r.Intn(2), r.Intn(8)))
		add("hop_cons_egress", false, flipBit(ho+4+r.Intn(2), r.Intn(8)))
		add("hop_mac", false, flipBit(ho+6+r.Intn(6), r.Intn(8)))
	}
	switch h[8] {
	case 1:
		raw(off)
	case 2:
		add("onehop_segid", true, flipBit(off+2+r.Intn(2), r.Intn(8)))
		add("onehop_info_flags", false, flipBit(off, r.Intn(2)))
		add("onehop_timestamp", false, flipBit(off+4+r.Intn(4), r.Intn(8)))
		add("onehop_hop1_router_alert", true, flipBit(off+8, r.Intn(2)))
		add("onehop_hop1_fields", false, flipBit(off+9+r.Intn(11), r.Intn(8)))
		add("onehop_hop2", true, func(q *pkt) {
			b := off + 20 + r.Intn(12)
			if b == off+20 {
				q.hdr[b] ^= 1 << uint(r.Intn(2)) // flag byte: defined bits only
			} else {
				q.hdr[b] ^= 1 << uint(r.Intn(8))
			}
		})
	case 3:
		add("epic_pktid", false, flipBit(off+r.Intn(8), r.Intn(8)))
		add("epic_phvf", false, flipBit(off+8+r.Intn(4), r.Intn(8)))
		add("epic_lhvf", false, flipBit(off+12+r.Intn(4), r.Intn(8)))
		raw(off + 16)
	}
	// upper layer and option
	add("upper_layer_type", false, func(q *pkt) { q.pldType ^= byte(1 + r.Intn(255)) })
	if len(p.pld) > 0 {
		add("payload_bit", false, func(q *pkt) { q.pld[r.Intn(len(q.pld))] ^= 1 << uint(r.Intn(8)) })
		add("payload_shorter", false, func(q *pkt) { q.pld = q.pld[:len(q.pld)-1] })
	}
	add("payload_longer", false, func(q *pkt) { q.pld = append(q.pld, byte(r.U64())) })
	add("algorithm", false, func(q *pkt) { q.opt.alg ^= byte(1 + r.Intn(255)) })
	add("timestamp", false, func(q *pkt) { q.opt.ts ^= 1 << uint(r.Intn(48)) })
	return cs
}

// upperCases ties the model's walk over extension headers (where the upper layer starts, i.e. what
// callers hand to ComputeAuthCMAC as PldType/Pld) to the real extension-header skippers.
func upperCases(e *vlib.Env, r *vlib.Rand, n int) {
	mk := func(class uint8, next uint8) []byte {
		buf := gopacket.NewSerializeBuffer()
		var err error
		nopt := r.Intn(3)
		if class == 200 {
			x := &slayers.HopByHopExtn{}
			x.NextHdr = slayers.L4ProtocolType(next)
			for i := 0; i < nopt; i++ {
				x.Options = append(x.Options, &slayers.HopByHopOption{OptType: slayers.OptionType(2 + r.Intn(200)), OptData: r.Bytes(r.Intn(20))})
			}
			err = x.SerializeTo(buf, gopacket.SerializeOptions{FixLengths: true})
		} else {
			x := &slayers.EndToEndExtn{}
			x.NextHdr = slayers.L4ProtocolType(next)
			for i := 0; i < nopt; i++ {
				x.Options = append(x.Options, &slayers.EndToEndOption{OptType: slayers.OptionType(2 + r.Intn(200)), OptData: r.Bytes(r.Intn(20))})
			}
			err = x.SerializeTo(buf, gopacket.SerializeOptions{FixLengths: true})
		}
		if err != nil {
			return []byte{next, 0, 1, 0} // what the layer refuses to serialize: hand-made header
		}
		return append([]byte(nil), buf.Bytes()...)
	}
	l4s := []uint8{17, 202, 6, 203, 0, 200, 201}
	for i := 0; i < n; i++ {
		l4 := l4s[r.Intn(len(l4s))]
		data := r.Bytes(r.Intn(24))
		nh := l4
		if r.Chance(50) {
			data = append(mk(201, nh), data...)
			nh = 201
		}
		if r.Chance(40) {
			data = append(mk(200, nh), data...)
			nh = 200
		}
		if r.Chance(10) {
			data = append(mk([]uint8{200, 201}[r.Intn(2)], nh), data...) // repeated / misordered
			nh = data[0]
			nh = []uint8{200, 201}[r.Intn(2)]
		}
		switch r.Intn(10) {
		case 0:
			data = data[:r.Intn(len(data)+1)]
		case 1:
			if len(data) > 1 {
				data[1] = byte(r.U64())
			}
		}
		in := append([]byte(nil), data...)
		ans, _ := vlib.Safe(func() string {
			t, d := nh, in
			if t == 200 {
				var h slayers.HopByHopExtnSkipper
				if err := h.DecodeFromBytes(d, gopacket.NilDecodeFeedback); err != nil {
					return "none"
				}
				t, d = uint8(h.NextHdr), h.Payload
			}
			if t == 201 {
				var x slayers.EndToEndExtnSkipper
				if err := x.DecodeFromBytes(d, gopacket.NilDecodeFeedback); err != nil {
					return "none"
				}
				t, d = uint8(x.NextHdr), x.Payload
			}
			return fmt.Sprintf("ok %d %d", t, len(d))
		})
		e.Op(fmt.Sprintf("upper %d %s", nh, vlib.Hex(data)), ans, "upper/"+strings.SplitN(ans, " ", 2)[0])
	}
}

func main() {
	e := vlib.Init()
	r := vlib.NewRand(uint64(e.Seed))
	e.Rule = "random SCION headers (all address types, empty/SCION/one-hop/EPIC paths) x 5 SPI kinds " +
		"(non-DRKey, DRKey AS-host/host-host, sender/receiver side) x random option/payload; per packet: " +
		"real serializeAuthenticatedData vs model bytes, ComputeAuthCMAC = CMAC(key, data||payload), and " +
		"every applicable single-field change (by wire position) -> real ComputeAuthCMAC must keep/alter " +
		"the tag as the statement says; distinct = distinct (packet, field) cases + distinct op lines"
	n := e.N(500, 8000)
	known := 0
	for i := 0; i < n; i++ {
		s, ptag := wiregen.GenSCION(r)
		hdr, err, pn := wiregen.RealSerialize(s, nil, true)
		if pn != "" || err != nil {
			continue
		}
		k := spiKinds[i%len(spiKinds)]
		p := &pkt{hdr: hdr, opt: optv{spi: k.mk(r), alg: uint8(r.Intn(3)), ts: r.U64() & (1<<48 - 1)},
			pldType: wiregen.NextHdrs[r.Intn(len(wiregen.NextHdrs))], key: r.Bytes(16)}
		switch r.Intn(8) {
		case 0:
			p.pld = nil
		case 1:
			p.pld = r.Bytes(200 + r.Intn(1200))
		default:
			p.pld = r.Bytes(1 + r.Intn(60))
		}
		// model correspondence on the base packet
		ans, data := p.authData()
		e.Op(p.opLine(), ans, ptag+"/"+k.name)
		if i < 4 {
			e.Sample(map[string]any{"op": p.opLine(), "auth_data": ans})
		}
		t0, err := p.tag()
		if err != nil || data == nil {
			e.Violate("C21/compute-error", fmt.Sprintf("ComputeAuthCMAC failed on a well-formed packet: %v", err), p.replay())
			continue
		}
		// ComputeAuthCMAC = AES-CMAC(key, authenticated data || payload)
		blk, _ := aes.NewCipher(p.key)
		m, _ := cmac.New(blk)
		m.Write(data)
		m.Write(p.pld)
		if want := m.Sum(nil); !bytes.Equal(want, t0) {
			e.Violate("C21/tag-not-cmac-of-input", "ComputeAuthCMAC is not CMAC(key, authenticated data || payload)", p.replay())
		}
		for ci, c := range changes(p, k, r) {
			q := p.clone()
			c.apply(q)
			if bytes.Equal(q.hdr, p.hdr) && bytes.Equal(q.pld, p.pld) && q.opt == p.opt && q.pldType == p.pldType && q.setPathType == nil {
				continue
			}
			t1, err := q.tag()
			if err != nil {
				// the changed header no longer decodes / serializes: not a single-field change of a
				// valid packet
				e.Case(fmt.Sprintf("%d/%d", i, ci), "~chg-invalid/"+c.field, true)
				continue
			}
			same := bytes.Equal(t0, t1)
			exp := "changes"
			if c.mutable {
				exp = "same"
			}
			e.Case(fmt.Sprintf("%d/%d", i, ci), "chg/"+c.field+"/"+exp, false)
			if line := q.opLine(); line != "" && ci%3 == i%3 {
				a2, _ := q.authData()
				e.Op(line, a2, "chg/"+c.field)
			}
			if same == c.mutable {
				continue
			}
			rp := p.replay()
			rp["changed_field"] = c.field
			rp["header_after"] = vlib.Hex(q.hdr)
			rp["tag_before"], rp["tag_after"] = vlib.Hex(t0), vlib.Hex(t1)
			what := fmt.Sprintf("changing only %s (%s) ", c.field, k.name)
			if c.mutable {
				what += "changes the authenticator although the field is mutable/excluded"
			} else {
				what += "leaves the authenticator unchanged although the field is covered"
			}
			if c.tc {
				known++
				e.Violate("C21/tc-mask-0x3f", what, rp)
			} else if c.mutable {
				e.Violate("C21/mutable-field-authenticated/"+c.field, what, rp)
			} else {
				e.Violate("C21/covered-field-not-authenticated/"+c.field, what, rp)
			}
		}
	}
	upperCases(e, r, e.N(1500, 30000))
	e.Extra["tc_mask_deviations"] = known
	e.Finish()
}
