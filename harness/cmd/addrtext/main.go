// Engine "addrtext" (C46): ties lean/Scion/Model/Addr.lean to pkg/addr and evaluates the C46
// property predicate (text round trips, separator options, rejection) directly on the
// implementation.
//
// Line protocol (texts as lower-case hex of their bytes, "-" = empty):
//
//	isd.f <n> | as.f <n> | ia.f <n> | svc.f <n>             -> <hex text>
//	isd.p <t> | as.p <t> | ia.p <t> | svc.p <t>             -> ok <n> | err syntax|range|form
//	fisd.f|fas.f|fia.f <pfx 0|1> <none|s:<hex sep>> <n>     -> <hex text>
//	fisd.p|fas.p|fia.p <pfx> <sep> <t>                      -> ok <n> | err ...
//	host.f none - | host.f svc <n>                          -> <hex text>
//	host.p <t> <oin> <oout>                                 -> ok svc <n> | ok ip <hex> | err ...
//	addr.f <ia> svc|ip <x> ; addr.p <t> <oin> <oout> ; ap.f <ia> svc|ip <x> <port> ; ap.p ...
//
// <oin>/<oout> is the IP-literal oracle: the string the Go code hands to netip.ParseAddr
// (computed here with the standard library only) and netip's answer ("x" = error).
package main

import (
	"errors"
	"fmt"
	"math/big"
	"net"
	"net/netip"
	"regexp"
	"strconv"
	"strings"

	"github.com/scionproto/scion/pkg/addr"

	"verifharness/vlib"
)

func hx(s string) string { return vlib.Hex([]byte(s)) }

func errKind(err error) string {
	switch {
	case errors.Is(err, strconv.ErrRange):
		return "err range"
	case errors.Is(err, strconv.ErrSyntax):
		return "err syntax"
	default:
		return "err form"
	}
}

type sepOpt struct {
	given bool
	sep   string
}

func (s sepOpt) word() string {
	if !s.given {
		return "none"
	}
	return "s:" + hx(s.sep)
}

func opts(pfx bool, s sepOpt) []addr.FormatOption {
	var o []addr.FormatOption
	if pfx {
		o = append(o, addr.WithDefaultPrefix())
	}
	if s.given {
		o = append(o, addr.WithSeparator(s.sep))
	}
	return o
}

func b2i(b bool) int {
	if b {
		return 1
	}
	return 0
}

// sepAllowed: the separators for which the round trip is demanded: no separator option, the
// empty one (= ":"), and every separator string without '-' that contains at least one
// character other than the sixteen characters the formatter prints for digits (theorem
// parse_format_formatted_ia_anysep; contains DESIGN §7a's single characters outside
// [0-9a-fA-F-]).
func sepAllowed(s sepOpt) bool {
	if !s.given || s.sep == "" {
		return true
	}
	if strings.Contains(s.sep, "-") {
		return false
	}
	for i := 0; i < len(s.sep); i++ {
		c := s.sep[i]
		if !(c >= '0' && c <= '9' || c >= 'a' && c <= 'f') {
			return true
		}
	}
	return false
}

var (
	reDec  = regexp.MustCompile(`^[0-9]+$`)
	reHex3 = regexp.MustCompile(`^([0-9a-fA-F]+):([0-9a-fA-F]+):([0-9a-fA-F]+)$`)
)

// denotation of an AS text with separator ':' written from the statement: decimal up to 2^32-1
// or three hex groups of at most 16 bits
func denoteAS(s string) (uint64, bool) {
	if reDec.MatchString(s) {
		v, _ := new(big.Int).SetString(s, 10)
		if v.Cmp(big.NewInt(1<<32-1)) > 0 {
			return 0, false
		}
		return v.Uint64(), true
	}
	m := reHex3.FindStringSubmatch(s)
	if m == nil {
		return 0, false
	}
	var r uint64
	for _, g := range m[1:] {
		v, _ := new(big.Int).SetString(g, 16)
		if v.Cmp(big.NewInt(0xffff)) > 0 {
			return 0, false
		}
		r = r<<16 | v.Uint64()
	}
	return r, true
}

func denoteISD(s string) (uint64, bool) {
	if !reDec.MatchString(s) {
		return 0, false
	}
	v, _ := new(big.Int).SetString(s, 10)
	if v.Cmp(big.NewInt(0xffff)) > 0 {
		return 0, false
	}
	return v.Uint64(), true
}

func denoteIA(s string) (uint64, bool) {
	p := strings.Split(s, "-")
	if len(p) != 2 {
		return 0, false
	}
	i, ok1 := denoteISD(p[0])
	a, ok2 := denoteAS(p[1])
	return i<<48 | a, ok1 && ok2
}

type eng struct {
	e *vlib.Env
	r *vlib.Rand
}

func (g *eng) bad(key, what string, replay map[string]any) {
	g.e.Violate("C46/"+key, what, replay)
}

// ---- values

var asBoundaries = []uint64{0, 1, 9, 10, 99, 100, 65535, 65536, 1<<32 - 1, 1 << 32, 1<<32 + 1,
	1<<32 + 65535, 1<<32 + 65536, 0xff00_0000_0110, 0x1_0000_0000_0000 - 1, 0x000a_000b_000c,
	0xffff_0000_0000, 0x0001_0000_ffff, 0xabcd_ef01_2345, 0x1000_0100_0010}

func (g *eng) randAS() uint64 {
	switch g.r.Intn(6) {
	case 0:
		return asBoundaries[g.r.Intn(len(asBoundaries))]
	case 1:
		return g.r.U64() & (1<<32 - 1)
	case 2:
		return g.r.U64() & (1<<48 - 1)
	case 3: // groups of different digit counts
		sh := []uint{0, 4, 8, 12}
		a := (g.r.U64() & 0xffff) >> sh[g.r.Intn(4)]
		b := (g.r.U64() & 0xffff) >> sh[g.r.Intn(4)]
		c := (g.r.U64() & 0xffff) >> sh[g.r.Intn(4)]
		return a<<32 | b<<16 | c
	case 4:
		return uint64(1)<<32 + uint64(g.r.Intn(70000))
	default:
		return uint64(1)<<32 - 1 - uint64(g.r.Intn(70000))
	}
}

func (g *eng) randISD() uint64 {
	b := []uint64{0, 1, 9, 10, 64, 65534, 65535}
	if g.r.Chance(30) {
		return b[g.r.Intn(len(b))]
	}
	return g.r.U64() & 0xffff
}

var sepChoices = []sepOpt{{false, ""}, {true, ""}, {true, ":"}, {true, "_"}, {true, "."}, {true, "~"},
	{true, "/"}, {true, " "}, {true, "g"}, {true, "G"}, {true, "#"}, {true, ","}, {true, "x"},
	// multi-character (tied only)
	{true, "::"}, {true, "_x_"}, {true, "ab_"}, {true, "0x"}, {true, "S"}, {true, "AS"},
	// outside the statement (tied only): hex digits, '-'
	{true, "a"}, {true, "F"}, {true, "1"}, {true, "0"}, {true, "-"}, {true, "1:"}}

// ---- ISD / AS / IA, plain

func (g *eng) plainValue(isd, as uint64) {
	e := g.e
	// ISD
	it := addr.ISD(isd).String()
	e.Op(fmt.Sprintf("isd.f %d", isd), hx(it), "isd.f")
	pv, err := addr.ParseISD(it)
	if err != nil || uint64(pv) != isd {
		g.bad("isd-roundtrip", "ParseISD(ISD.String()) differs", map[string]any{"isd": isd, "text": it})
	}
	g.parseOp("isd", it)
	// AS
	at := addr.AS(as).String()
	e.Op(fmt.Sprintf("as.f %d", as), hx(at), "as.f/"+asClass(as))
	if as < 1<<48 {
		pa, err := addr.ParseAS(at)
		if err != nil || uint64(pa) != as {
			g.bad("as-roundtrip", "ParseAS(AS.String()) differs", map[string]any{"as": as, "text": at})
		}
		mt, err := addr.AS(as).MarshalText()
		var ua addr.AS
		if err != nil || ua.UnmarshalText(mt) != nil || uint64(ua) != as {
			g.bad("as-roundtrip", "AS MarshalText/UnmarshalText differs", map[string]any{"as": as})
		}
		if (as <= 1<<32-1) != reDec.MatchString(at) {
			g.bad("as-form", "decimal form not exactly for AS <= 2^32-1", map[string]any{"as": as, "text": at})
		}
		g.parseOp("as", at)
		// IA
		ia := addr.MustIAFrom(addr.ISD(isd), addr.AS(as))
		iat := ia.String()
		e.Op(fmt.Sprintf("ia.f %d", uint64(ia)), hx(iat), "ia.f/"+asClass(as))
		pia, err := addr.ParseIA(iat)
		if err != nil || pia != ia || uint64(pia.ISD()) != isd || uint64(pia.AS()) != as {
			g.bad("ia-roundtrip", "ParseIA(IA.String()) differs", map[string]any{"ia": uint64(ia), "text": iat})
		}
		g.parseOp("ia", iat)
	}
}

func asClass(as uint64) string {
	switch {
	case as >= 1<<48:
		return "illegal"
	case as > 1<<32-1:
		return "hex"
	default:
		return "dec"
	}
}

// parseOp runs a plain parser on text t, records the op and checks "accepted => denotes".
func (g *eng) parseOp(kind, t string) {
	var ans, tag string
	var ok bool
	var val uint64
	switch kind {
	case "isd":
		v, err := addr.ParseISD(t)
		ok, val = err == nil, uint64(v)
		ans = okOrErr(err, uint64(v))
	case "as":
		v, err := addr.ParseAS(t)
		ok, val = err == nil, uint64(v)
		ans = okOrErr(err, uint64(v))
	case "ia":
		v, err := addr.ParseIA(t)
		ok, val = err == nil, uint64(v)
		ans = okOrErr(err, uint64(v))
	}
	tag = kind + ".p/" + strings.Fields(ans)[0]
	if !ok {
		tag = kind + ".p/" + ans[4:]
	}
	g.e.Op(kind+".p "+hx(t), ans, tag)
	if ok {
		var d uint64
		var dok bool
		switch kind {
		case "isd":
			d, dok = denoteISD(t)
		case "as":
			d, dok = denoteAS(t)
		case "ia":
			d, dok = denoteIA(t)
		}
		if !dok || d != val {
			g.bad(kind+"-accepts-wrong", "parser accepted text that does not denote the returned value",
				map[string]any{"kind": kind, "text": t, "value": val})
		}
	}
}

func okOrErr(err error, v uint64) string {
	if err != nil {
		return errKind(err)
	}
	return fmt.Sprintf("ok %d", v)
}

// ---- formatted with options

func (g *eng) formatted(isd, as uint64, pfx bool, s sepOpt) {
	e := g.e
	o := opts(pfx, s)
	ia := addr.MustIAFrom(addr.ISD(isd), addr.AS(as))
	p := b2i(pfx)
	allowed := sepAllowed(s)
	cls := "sep-other"
	switch {
	case !s.given:
		cls = "sep-default"
	case s.sep == "":
		cls = "sep-empty"
	case allowed && len(s.sep) == 1:
		cls = "sep-single"
	case allowed:
		cls = "sep-multi"
	}
	rep := map[string]any{"isd": isd, "as": as, "prefix": pfx, "separator_given": s.given, "separator": s.sep}
	// ISD
	it := addr.FormatISD(addr.ISD(isd), o...)
	e.Op(fmt.Sprintf("fisd.f %d %s %d", p, s.word(), isd), hx(it), "fisd.f")
	pi, err := addr.ParseFormattedISD(it, o...)
	e.Op(fmt.Sprintf("fisd.p %d %s %s", p, s.word(), hx(it)), okOrErr(err, uint64(pi)), "fisd.p/"+cls)
	if err != nil || uint64(pi) != isd {
		g.bad("formatted-isd-roundtrip", "ParseFormattedISD(FormatISD) differs", rep)
	}
	// AS
	at := addr.FormatAS(addr.AS(as), o...)
	e.Op(fmt.Sprintf("fas.f %d %s %d", p, s.word(), as), hx(at), "fas.f/"+asClass(as)+"/"+cls)
	pa, err := addr.ParseFormattedAS(at, o...)
	e.Op(fmt.Sprintf("fas.p %d %s %s", p, s.word(), hx(at)), okOrErr(err, uint64(pa)), "fas.p/"+asClass(as)+"/"+cls)
	if allowed && (err != nil || uint64(pa) != as) {
		key := "formatted-as-roundtrip"
		if s.given && s.sep == "" {
			key = "empty-separator"
		}
		g.bad(key, fmt.Sprintf("ParseFormattedAS(FormatAS(%d)=%q) differs", as, at), rep)
	}
	// IA
	iat := addr.FormatIA(ia, o...)
	e.Op(fmt.Sprintf("fia.f %d %s %d", p, s.word(), uint64(ia)), hx(iat), "fia.f/"+asClass(as)+"/"+cls)
	pia, err := addr.ParseFormattedIA(iat, o...)
	e.Op(fmt.Sprintf("fia.p %d %s %s", p, s.word(), hx(iat)), okOrErr(err, uint64(pia)), "fia.p/"+asClass(as)+"/"+cls)
	if allowed && (err != nil || pia != ia) {
		key := "formatted-ia-roundtrip"
		if s.given && s.sep == "" {
			key = "empty-separator"
		}
		g.bad(key, fmt.Sprintf("ParseFormattedIA(FormatIA(%s)=%q) differs", ia, iat), rep)
	}
	if s.given && s.sep == "" {
		// "an empty separator falls back to ':' as documented"
		if iat != addr.FormatIA(ia, opts(pfx, sepOpt{true, ":"})...) {
			g.bad("empty-separator", fmt.Sprintf("FormatIA with empty separator printed %q, not the ':' form", iat), rep)
		}
	}
	if !pfx && (!s.given || s.sep == ":" || s.sep == "") && iat != ia.String() {
		g.bad("format-default", "FormatIA with default options differs from IA.String()", rep)
	}
}

// formatted parse of a mutated text (tie only, plus "accepted => denotes" for the default separator)
func (g *eng) formattedParse(t string, pfx bool, s sepOpt) {
	o := opts(pfx, s)
	p := b2i(pfx)
	vi, err := addr.ParseFormattedISD(t, o...)
	g.e.Op(fmt.Sprintf("fisd.p %d %s %s", p, s.word(), hx(t)), okOrErr(err, uint64(vi)), tagOf("fisd.pm", err))
	va, err := addr.ParseFormattedAS(t, o...)
	g.e.Op(fmt.Sprintf("fas.p %d %s %s", p, s.word(), hx(t)), okOrErr(err, uint64(va)), tagOf("fas.pm", err))
	via, err := addr.ParseFormattedIA(t, o...)
	g.e.Op(fmt.Sprintf("fia.p %d %s %s", p, s.word(), hx(t)), okOrErr(err, uint64(via)), tagOf("fia.pm", err))
	if err == nil && sepAllowed(s) {
		// strip the prefixes and translate the separator back to ':' — must denote the value
		u := t
		sep := ":"
		if s.given && s.sep != "" {
			sep = s.sep
		}
		parts := strings.Split(u, "-")
		good := len(parts) == 2
		if good && pfx {
			good = strings.HasPrefix(parts[0], "ISD") && strings.HasPrefix(parts[1], "AS")
			if good {
				parts[0], parts[1] = parts[0][3:], parts[1][2:]
			}
		}
		if good {
			// the AS part: one piece (decimal) or three pieces (hex groups) around the separator
			pieces := strings.Split(parts[1], sep)
			for _, pc := range pieces {
				if strings.Contains(pc, ":") {
					good = false
				}
			}
			good = good && (len(pieces) == 1 || len(pieces) == 3)
			d, dok := denoteIA(parts[0] + "-" + strings.Join(pieces, ":"))
			good = good && dok && d == uint64(via)
		}
		if !good {
			g.bad("formatted-accepts-wrong", "ParseFormattedIA accepted text that does not denote the returned value",
				map[string]any{"text": t, "prefix": pfx, "separator_given": s.given, "separator": s.sep, "value": uint64(via)})
		}
	}
}

func tagOf(base string, err error) string {
	if err != nil {
		return base + "/" + errKind(err)[4:]
	}
	return base + "/ok"
}

// ---- malformed / non-canonical texts

const mutAlphabet = "0123456789abcdefABCDEFgGxXzZ:-_ ,#+.[]%ISDAS"

func (g *eng) mutate(s string) string {
	r := g.r
	b := []byte(s)
	n := 1 + r.Intn(2)
	for k := 0; k < n; k++ {
		switch r.Intn(7) {
		case 0: // insert
			i := r.Intn(len(b) + 1)
			c := mutAlphabet[r.Intn(len(mutAlphabet))]
			b = append(b[:i], append([]byte{c}, b[i:]...)...)
		case 1: // delete
			if len(b) > 0 {
				i := r.Intn(len(b))
				b = append(b[:i], b[i+1:]...)
			}
		case 2: // replace
			if len(b) > 0 {
				b[r.Intn(len(b))] = mutAlphabet[r.Intn(len(mutAlphabet))]
			}
		case 3: // leading zero(s) somewhere after a boundary
			i := r.Intn(len(b) + 1)
			b = append(b[:i], append([]byte("0"), b[i:]...)...)
		case 4: // upper-case
			b = []byte(strings.ToUpper(string(b)))
		case 5: // duplicate a character
			if len(b) > 0 {
				i := r.Intn(len(b))
				b = append(b[:i+1], b[i:]...)
			}
		case 6: // non-ASCII / control byte
			if len(b) > 0 {
				b[r.Intn(len(b))] = byte(r.Intn(256))
			}
		}
	}
	return string(b)
}

var fixedTexts = []string{"", "0", "00", "007", "65535", "65536", "065535", "99999", "4294967295",
	"4294967296", "04294967295", "18446744073709551615", "18446744073709551616", "ffff:ffff:ffff",
	"FFFF:FFFF:FFFF", "10000:0:0", "0:0:10000", "0:0:0", "0:0:5", "1:0:0", "0001:0000:0000",
	"00001:0:0", "ff00:0:110", "FF00:0:110", "fF00:0:110", "ff00:0", "ff00:0:1:1", "::", ":0:0",
	"0::0", "0:0:", "1-ff00:0:110", "1-FF00:0:110", "01-ff00:0:110", "65536-1", "1-4294967296",
	"1-1-1", "-", "1-", "-1", "1 -1", "+1", "-1", "1_000", "0x10", "0x1:0:0", "1:0:0x", "g:0:0",
	"1-0", "0-0", "0-1", "65535-ffff:ffff:ffff", "65535-4294967295", "a", "f", "ff", "1:2", "1-a",
	"ISD1-AS1", "ISD1-ASff00:0:110", "ISD-AS", "ISD1", "AS1", "ASAS1", "ISDISD1", "isd1-as1",
	"1-ff00_0_110", "ISD1-ASff00_0_110", "ff00_0_110", "1,2", " 1", "1 ", "1\n", "٣", "１"}

// ---- SVC

var svcNames = []string{"DS", "CS", "Wildcard", "DS_A", "CS_A", "Wildcard_A", "DS_M", "CS_M",
	"Wildcard_M", "DS_A_M", "DS_M_A", "DS_M_M", "DS_A_A", "_A", "_M", "", "ds", "cs", "wildcard",
	"WILDCARD", "Wildcard_m", "DS_", "DS_B", "BS", "SB", "SIG", "None", "<SVC:0x0003>", "<SVC:0x0003>_M",
	"<SVC:0xffff>_M", "DS ", " DS", "D", "S", "DSS", "CS_AM", "Wildcard_", "Wild", "0", "1", "DS_A_"}

func (g *eng) svcValue(v uint16) {
	s := addr.SVC(v)
	t := s.String()
	tag := "~svc.f/unnamed"
	named := s.Base() == addr.SvcDS || s.Base() == addr.SvcCS || s.Base() == addr.SvcWildcard
	if named {
		tag = "svc.f/named"
	}
	g.e.Op(fmt.Sprintf("svc.f %d", v), hx(t), tag)
	p, err := addr.ParseSVC(t)
	ptag := tagOf("svc.p", err)
	if !named {
		ptag = "~svc.p/unnamed"
	}
	g.e.Op("svc.p "+hx(t), okOrErr(err, uint64(p)), ptag)
	if named {
		if err != nil || p != s {
			g.bad("svc-roundtrip", "ParseSVC(SVC.String()) differs for a named service",
				map[string]any{"svc": v, "text": t})
		}
		// the _A spelling of the anycast form
		if !s.IsMulticast() {
			pa, err := addr.ParseSVC(t + "_A")
			if err != nil || pa != s {
				g.bad("svc-anycast-suffix", "NAME_A does not parse to the anycast service",
					map[string]any{"svc": v, "text": t + "_A"})
			}
		}
		h := addr.HostSVC(s)
		ph, err := addr.ParseHost(h.String())
		if err != nil || ph != h {
			g.bad("host-roundtrip", "ParseHost(Host.String()) differs for an SVC host",
				map[string]any{"svc": v, "text": h.String()})
		}
	} else if err == nil {
		g.bad("svc-accepts-wrong", "ParseSVC accepted the text of an unnamed service",
			map[string]any{"svc": v, "text": t, "value": uint16(p)})
	}
}

func (g *eng) svcParse(t string) {
	p, err := addr.ParseSVC(t)
	tag := tagOf("svc.pm", err)
	g.e.Op("svc.p "+hx(t), okOrErr(err, uint64(p)), tag)
	if err == nil {
		// accepted => the text is NAME, NAME_A or NAME_M and the value is the named one
		base := strings.TrimSuffix(strings.TrimSuffix(t, "_A"), "_M")
		if strings.HasSuffix(t, "_A") {
			base = strings.TrimSuffix(t, "_A")
		} else if strings.HasSuffix(t, "_M") {
			base = strings.TrimSuffix(t, "_M")
		}
		want := map[string]addr.SVC{"DS": addr.SvcDS, "CS": addr.SvcCS, "Wildcard": addr.SvcWildcard}
		w, ok := want[base]
		if strings.HasSuffix(t, "_M") {
			w |= addr.SVCMcast
		}
		if !ok || w != p {
			g.bad("svc-accepts-wrong", "ParseSVC accepted text that does not name the returned service",
				map[string]any{"text": t, "value": uint16(p)})
		}
	}
}

// ---- hosts and full addresses

var ipTexts = []string{"0.0.0.0", "127.0.0.1", "10.0.0.1", "192.0.2.1", "255.255.255.255", "::",
	"::1", "2001:db8::1", "2001:DB8::1", "fe80::1%eth0", "fe80::1%1", "::ffff:192.0.2.1",
	"ff00:0:110::1", "1:2:3:4:5:6:7:8", "2001:db8:0:0:1:0:0:1", "fe80::1%a,b", "fe80::1%a-b"}

var hostJunk = []string{"", "1.2.3", "1.2.3.4.5", "256.1.1.1", "01.2.3.4", "1.2.3.4 ", ":::", "CS,1",
	"1.2.3.4%eth0", "fe80::1%", "[::1]", "localhost", "DS_A", "CS_M", "Wildcard", "<None>",
	"<SVC:0x0003>", "ds", "1-ff00:0:110", "::1]", "[::1", "1.2.3.4:80"}

func oracleWords(in string, valid bool) (string, string) {
	if !valid {
		return "-", "x"
	}
	ip, err := netip.ParseAddr(in)
	if err != nil {
		return hx(in), "x"
	}
	return hx(in), hx(ip.String())
}

func hostAns(h addr.Host) string {
	switch h.Type() {
	case addr.HostTypeIP:
		return "ip " + hx(h.IP().String())
	case addr.HostTypeSVC:
		return fmt.Sprintf("svc %d", uint16(h.SVC()))
	}
	return "none"
}

func hostWords(h addr.Host) string {
	switch h.Type() {
	case addr.HostTypeIP:
		return "ip " + hx(h.IP().String())
	case addr.HostTypeSVC:
		return fmt.Sprintf("svc %d", uint16(h.SVC()))
	}
	return "none -"
}

func (g *eng) hostParse(t string) {
	h, err := addr.ParseHost(t)
	oi, oo := oracleWords(t, true)
	ans := errKind(err)
	if err == nil {
		ans = "ok " + hostAns(h)
	}
	g.e.Op(fmt.Sprintf("host.p %s %s %s", hx(t), oi, oo), ans, "host.p/"+strings.Join(strings.Fields(ans)[:2], "-"))
}

func (g *eng) addrParse(t string) {
	a, err := addr.ParseAddr(t)
	i := strings.IndexByte(t, ',')
	oi, oo := "-", "x"
	if i >= 0 {
		oi, oo = oracleWords(t[i+1:], true)
	}
	ans := errKind(err)
	if err == nil {
		ans = fmt.Sprintf("ok %d %s", uint64(a.IA), hostAns(a.Host))
	}
	tag := "addr.p/" + strings.Fields(ans)[0]
	if err != nil {
		tag = "addr.p/" + ans[4:]
	} else {
		tag += "-" + strings.Fields(ans)[2]
	}
	g.e.Op(fmt.Sprintf("addr.p %s %s %s", hx(t), oi, oo), ans, tag)
	if err == nil {
		g.addrDenotes("addr", t, t, a)
	}
}

// addrDenotes: an accepted "<ia>,<host>" text denotes the returned address (IA by the
// independent denotation, host = named service or the IP literal Go's netip reads).
func (g *eng) addrDenotes(kind, whole, t string, a addr.Addr) {
	i := strings.IndexByte(t, ',')
	good := i >= 0
	if good {
		d, dok := denoteIA(t[:i])
		good = dok && d == uint64(a.IA)
	}
	if good {
		h := t[i+1:]
		switch a.Host.Type() {
		case addr.HostTypeSVC:
			want := map[string]addr.SVC{"DS": addr.SvcDS, "CS": addr.SvcCS, "Wildcard": addr.SvcWildcard}
			base, m := h, addr.SVC(0)
			if strings.HasSuffix(h, "_A") {
				base = strings.TrimSuffix(h, "_A")
			} else if strings.HasSuffix(h, "_M") {
				base, m = strings.TrimSuffix(h, "_M"), addr.SVCMcast
			}
			w, ok := want[base]
			good = ok && w|m == a.Host.SVC()
		case addr.HostTypeIP:
			ip, err := netip.ParseAddr(h)
			good = err == nil && ip == a.Host.IP()
		default:
			good = false
		}
	}
	if !good {
		g.bad(kind+"-accepts-wrong", "parser accepted text that does not denote the returned address",
			map[string]any{"text": whole, "ia": uint64(a.IA), "host": a.Host.String()})
	}
}

func (g *eng) addrPortParse(t string) {
	a, port, err := addr.ParseAddrPort(t)
	oi, oo := "-", "x"
	if h, _, e2 := net.SplitHostPort(t); e2 == nil {
		if i := strings.IndexByte(h, ','); i >= 0 {
			oi, oo = oracleWords(h[i+1:], true)
		}
	}
	ans := errKind(err)
	if err == nil {
		ans = fmt.Sprintf("ok %d %s %d", uint64(a.IA), hostAns(a.Host), port)
	}
	tag := "ap.p/ok"
	if err != nil {
		tag = "ap.p/" + ans[4:]
	}
	g.e.Op(fmt.Sprintf("ap.p %s %s %s", hx(t), oi, oo), ans, tag)
	if err == nil {
		// accepted => "[<ia>,<host>]:<port>" (or "<ia>,<host>:<port>" without colons in the host)
		// with a decimal port <= 65535 that is the returned one
		j := strings.LastIndexByte(t, ':')
		good := j >= 0
		if good {
			d, dok := denoteISD(t[j+1:]) // 16-bit decimal
			good = dok && d == uint64(port)
		}
		if good {
			h := t[:j]
			if strings.HasPrefix(h, "[") && strings.HasSuffix(h, "]") {
				h = h[1 : len(h)-1]
			}
			g.addrDenotes("addrport", t, h, a)
		} else {
			g.bad("addrport-accepts-wrong", "ParseAddrPort accepted text whose port does not denote the returned port",
				map[string]any{"text": t, "port": port})
		}
	}
}

func (g *eng) fullAddr(ia addr.IA, h addr.Host, port uint16) {
	e := g.e
	a := addr.Addr{IA: ia, Host: h}
	t := a.String()
	rep := map[string]any{"ia": uint64(ia), "host": h.String(), "port": port}
	e.Op(fmt.Sprintf("host.f %s", hostWords(h)), hx(h.String()), "host.f/"+h.Type().String())
	g.hostParse(h.String())
	ph, err := addr.ParseHost(h.String())
	if err != nil || ph != h {
		g.bad("host-roundtrip", "ParseHost(Host.String()) differs", rep)
	}
	e.Op(fmt.Sprintf("addr.f %d %s", uint64(ia), hostWords(h)), hx(t), "addr.f/"+h.Type().String())
	g.addrParse(t)
	pa, err := addr.ParseAddr(t)
	if err != nil || pa != a {
		g.bad("addr-roundtrip", fmt.Sprintf("ParseAddr(Addr.String()=%q) differs", t), rep)
	}
	mt, _ := a.MarshalText()
	var ua addr.Addr
	if ua.UnmarshalText(mt) != nil || ua != a {
		g.bad("addr-roundtrip", "Addr MarshalText/UnmarshalText differs", rep)
	}
	tp := addr.FormatAddrPort(a, port)
	e.Op(fmt.Sprintf("ap.f %d %s %d", uint64(ia), hostWords(h), port), hx(tp), "ap.f/"+h.Type().String())
	g.addrPortParse(tp)
	pa2, pp, err := addr.ParseAddrPort(tp)
	// zones containing ',' ']' etc. are Go's business; only sane zones are generated for the predicate
	if err != nil || pa2 != a || pp != port {
		g.bad("addrport-roundtrip", fmt.Sprintf("ParseAddrPort(FormatAddrPort=%q) differs", tp), rep)
	}
}

func (g *eng) randIP() netip.Addr {
	r := g.r
	switch r.Intn(5) {
	case 0:
		return netip.MustParseAddr(ipTexts[r.Intn(15)]) // the sane ones (no odd zone)
	case 1:
		var b [4]byte
		copy(b[:], r.Bytes(4))
		return netip.AddrFrom4(b)
	case 2:
		var b [16]byte
		copy(b[:], r.Bytes(16))
		return netip.AddrFrom16(b)
	case 3: // sparse v6 (exercises "::" compression)
		var b [16]byte
		for i := 0; i < 3; i++ {
			b[r.Intn(16)] = byte(r.Intn(256))
		}
		return netip.AddrFrom16(b)
	default:
		var b [16]byte
		copy(b[:], r.Bytes(16))
		b[0], b[1] = 0xfe, 0x80
		return netip.AddrFrom16(b).WithZone([]string{"eth0", "1", "en0", "wlan_0", "a,b", "x,"}[r.Intn(6)])
	}
}

func (g *eng) randHost() addr.Host {
	r := g.r
	if r.Chance(35) {
		named := []addr.SVC{addr.SvcDS, addr.SvcCS, addr.SvcWildcard}
		s := named[r.Intn(3)]
		if r.Bool() {
			s = s.Multicast()
		}
		return addr.HostSVC(s)
	}
	return addr.HostIP(g.randIP())
}

func main() {
	e := vlib.Init()
	g := &eng{e: e, r: vlib.NewRand(uint64(e.Seed))}
	r := g.r
	e.Rule = "values: ISD/AS boundaries (0,1,2^16-1,2^16,2^32-1,2^32,2^48-1,...) x all option combinations + random " +
		"ISD/AS/IA (hex groups of every digit count); every value is formatted, the text parsed back (plain and with " +
		"prefix/separator options incl. empty, single, multi-character and inadmissible (hex digit, '-') separators); all 65536 SVC " +
		"values; hosts = named SVCs and random IPv4/IPv6(/zone) addresses, full addresses with port; malformed stream = " +
		"fixed table + 1-2 random edits of valid texts (insert/delete/replace/leading zero/upper-case/non-ASCII byte); " +
		"non-trivial = everything except the 65530 unnamed SVC values; predicate: round trips, empty separator = ':', " +
		"accepted text denotes the returned value (independent big.Int denotation)"

	// 1. boundaries x options
	isdB := []uint64{0, 1, 9, 10, 65534, 65535}
	for _, as := range asBoundaries {
		for _, isd := range isdB {
			g.plainValue(isd, as)
			for _, s := range sepChoices {
				for _, pfx := range []bool{false, true} {
					g.formatted(isd, as, pfx, s)
				}
			}
		}
	}
	// illegal AS values only print
	for _, as := range []uint64{1 << 48, 1<<48 + 1, 1<<63 + 5, 1<<64 - 1} {
		e.Op(fmt.Sprintf("as.f %d", as), hx(addr.AS(as).String()), "as.f/illegal")
		e.Op(fmt.Sprintf("fas.f 1 s:%s %d", hx("_"), as), hx(addr.FormatAS(addr.AS(as), addr.WithDefaultPrefix(), addr.WithSeparator("_"))), "fas.f/illegal")
	}
	// 2. random values
	n := e.N(6000, 120000)
	for i := 0; i < n; i++ {
		isd, as := g.randISD(), g.randAS()
		g.plainValue(isd, as)
		g.formatted(isd, as, r.Bool(), sepChoices[r.Intn(len(sepChoices))])
		if r.Chance(50) {
			// always some coverage of the statement's separators incl. the empty one
			g.formatted(isd, as, r.Bool(), sepChoices[r.Intn(8)])
		}
	}
	// 3. malformed / non-canonical texts
	for _, t := range fixedTexts {
		g.parseOp("isd", t)
		g.parseOp("as", t)
		g.parseOp("ia", t)
		for _, s := range sepChoices[:8] {
			g.formattedParse(t, false, s)
			g.formattedParse(t, true, s)
		}
		g.svcParse(t)
		g.hostParse(t)
		g.addrParse(t)
		g.addrPortParse(t)
	}
	m := e.N(8000, 150000)
	for i := 0; i < m; i++ {
		isd, as := g.randISD(), g.randAS()
		ia := addr.MustIAFrom(addr.ISD(isd), addr.AS(as))
		pfx := r.Bool()
		s := sepChoices[r.Intn(len(sepChoices))]
		switch r.Intn(4) {
		case 0:
			g.parseOp("isd", g.mutate(addr.ISD(isd).String()))
		case 1:
			g.parseOp("as", g.mutate(addr.AS(as).String()))
		case 2:
			g.parseOp("ia", g.mutate(ia.String()))
		case 3:
			g.formattedParse(g.mutate(addr.FormatIA(ia, opts(pfx, s)...)), pfx, s)
		}
	}
	// 4. SVC: every value; names and mutated names
	for v := 0; v < 65536; v++ {
		g.svcValue(uint16(v))
	}
	for _, t := range svcNames {
		g.svcParse(t)
		g.hostParse(t)
	}
	for i := 0; i < e.N(2000, 20000); i++ {
		g.svcParse(g.mutate(svcNames[r.Intn(11)]))
	}
	// 5. hosts, addresses, address+port
	for _, t := range append(append([]string{}, ipTexts...), hostJunk...) {
		g.hostParse(t)
		g.addrParse("1-ff00:0:110," + t)
		g.addrPortParse("[1-ff00:0:110," + t + "]:80")
	}
	e.Op("host.f none -", hx(addr.Host{}.String()), "host.f/None")
	k := e.N(3000, 60000)
	for i := 0; i < k; i++ {
		ia := addr.MustIAFrom(addr.ISD(g.randISD()), addr.AS(g.randAS()))
		h := g.randHost()
		port := uint16(r.U64())
		if r.Chance(20) {
			port = []uint16{0, 1, 80, 65535, 30041}[r.Intn(5)]
		}
		g.fullAddr(ia, h, port)
		a := addr.Addr{IA: ia, Host: h}
		switch r.Intn(3) {
		case 0:
			g.hostParse(g.mutate(h.String()))
		case 1:
			g.addrParse(g.mutate(a.String()))
		case 2:
			g.addrPortParse(g.mutate(addr.FormatAddrPort(a, port)))
		}
	}
	for _, t := range []string{"[1-ff00:0:110,CS]:80", "[1-ff00:0:110,CS]:65536", "[1-ff00:0:110,CS]:", "[1-ff00:0:110,CS]",
		"1-ff00:0:110,CS:80", "[1-ff00:0:110,CS]:80:80", "[1-ff00:0:110,CS]x:80", "[[1-ff00:0:110,CS]:80", "[1-ff00:0:110,CS]]:80",
		"[1-ff00:0:110,CS]:080", "[1-ff00:0:110,CS]:+80", "[1-1,1.2.3.4]:0", "1-1,1.2.3.4:5", "[1-1;1.2.3.4]:5", "[,]:1", "[]:1", ":1", ":",
		"[1-ff00:0:110,::1]:80", "[1-ff00:0:110,fe80::1%eth0]:80", "[1-ff00:0:110,fe80::1%e]h]:80", "a:1", "a,b:1", "1-1,CS:1"} {
		g.addrPortParse(t)
		g.addrParse(t)
	}
	e.Finish()
}
