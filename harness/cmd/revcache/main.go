// Engine "revcache" (C31): ties lean/Scion/Model/RevCache.lean to
// private/revcache/memrevcache and evaluates the C31 predicate directly on the implementation.
//
// The real cache reads the wall clock itself.  The run is therefore organised in PHASES: phase
// j takes place at wall time base+5j s (base = a whole second shortly after start; one real
// sleep between two phases).  Revocations carry whole seconds; every expiry used is either far
// away or base+4j+2 s, i.e. at least 1.5 s away from any instant at which an operation is
// executed (an operation is only issued while the measured clock is inside [phase, phase+0.5 s];
// otherwise the rest of the phase is skipped).  Many independent caches live through the same
// phases, each with its own random history; per cache the history is emitted contiguously
// (`new`, then its ops in time order).  Times in op lines are relative (base ↦ 100000 s) and
// are the planned phase instants, so the op stream is a function of the seed only.
package main

import (
	"context"
	"fmt"
	"sort"
	"strings"
	"time"

	"github.com/scionproto/scion/pkg/addr"
	"github.com/scionproto/scion/pkg/private/ctrl/path_mgmt"
	"github.com/scionproto/scion/pkg/private/ctrl/path_mgmt/proto"
	"github.com/scionproto/scion/pkg/segment/iface"
	"github.com/scionproto/scion/private/revcache"
	"github.com/scionproto/scion/private/revcache/memrevcache"

	"verifharness/vlib"
)

const (
	relBase  = 100000 // relative seconds corresponding to `base`
	phaseGap = 5      // seconds between phases
	expOff   = 3      // expiries lie at phase start + 3 s (2 s before the next phase)
	window   = 1500 * time.Millisecond
)

type line struct{ op, impl, tag string }

// specRev is the engine's own bookkeeping for the predicate: last revocation the implementation
// ACCEPTED per key.
type cacheCase struct {
	idx   int
	c     revcache.RevCache
	r     *vlib.Rand
	keys  []revcache.Key
	lines []line
	last  map[revcache.Key]*path_mgmt.RevInfo
	hist  []string
	// scripted follow-up ops (values in the ranges of the op switch) for scriptKey
	script    []int
	scriptKey revcache.Key
}

func rel(base time.Time, t uint32) int64 { return int64(t) - base.Unix() + relBase }

func showRev(base time.Time, r *path_mgmt.RevInfo) string {
	return fmt.Sprintf("%d %d %d", r.LinkType, rel(base, r.RawTimestamp), r.RawTTL)
}

func main() {
	e := vlib.Init()
	e.Rule = "independent caches x phases (real clock, 1 sleep per phase); per cache random " +
		"insert/get/clean-up/enumerate over 2-4 interfaces, timestamps from a pool of 8 seconds " +
		"(equal, older, newer) plus lifetimes of 1-9 s and timestamps up to a few seconds in the future (each followed by clean-up, look-up, older insertion, look-up), expiries at phase midpoints, in the past and far away; " +
		"non-trivial = insert or a lookup of a key that was inserted before; distinct by op line"
	nCaches := e.N(1500, 12000)
	nPhases := e.N(4, 20)
	opsPerPhase := e.N(9, 9)
	ctx := context.Background()

	start := time.Now()
	base := start.Truncate(time.Second).Add(time.Second)
	ias := []addr.IA{addr.MustParseIA("1-ff00:0:110"), addr.MustParseIA("2-ff00:0:211")}

	cases := make([]*cacheCase, nCaches)
	for i := range cases {
		r := vlib.CaseRand(e.Seed, i)
		cc := &cacheCase{idx: i, c: memrevcache.New(), r: r, last: map[revcache.Key]*path_mgmt.RevInfo{}}
		nk := r.Range(2, 4)
		for len(cc.keys) < nk {
			k := revcache.Key{IA: ias[r.Intn(2)], IfID: iface.ID(r.Range(1, 3))}
			dup := false
			for _, x := range cc.keys {
				dup = dup || x == k
			}
			if !dup {
				cc.keys = append(cc.keys, k)
			}
		}
		cases[i] = cc
	}
	// expiries (seconds relative to base): past, the phase midpoints, far future
	var expPool []int64
	expPool = append(expPool, -7, -2)
	for j := 0; j < nPhases; j++ {
		expPool = append(expPool, int64(phaseGap*j+expOff))
	}
	expPool = append(expPool, 5000)

	skipped := 0
	for ph := 0; ph < nPhases; ph++ {
		planned := base.Add(time.Duration(phaseGap*ph) * time.Second)
		if d := time.Until(planned); d > 0 {
			time.Sleep(d + 20*time.Millisecond)
		}
		nowRelMs := int64(relBase)*1000 + int64(phaseGap*ph)*1000
		for _, cc := range cases {
			for o := 0; o < opsPerPhase; o++ {
				t0 := time.Now()
				if t0.Before(planned) || t0.After(planned.Add(window)) {
					skipped++
					break
				}
				cc.oneOp(ctx, e, base, planned, nowRelMs, expPool, ph)
				if t1 := time.Now(); t1.After(planned.Add(window)) {
					// the op just executed may have run too late: forget this cache altogether
					cc.poison()
					skipped++
					break
				}
			}
		}
	}
	// emit per cache
	for _, cc := range cases {
		if cc.lines == nil {
			continue
		}
		e.Op("new", "ok", "~new")
		for _, l := range cc.lines {
			e.Op(l.op, l.impl, l.tag)
		}
		if cc.idx < 3 {
			e.Sample(map[string]any{"cache": cc.idx, "history": cc.hist})
		}
	}
	e.Extra["phases"] = nPhases
	e.Extra["caches"] = nCaches
	e.Extra["clock_skips"] = skipped
	e.Extra["real_sleeps"] = nPhases - 1
	e.Extra["wall_s"] = time.Since(start).Seconds()
	e.Finish()
}

// poison: after a late (dropped) operation the cache state is unknown to the op stream;
// forget the case entirely.
func (cc *cacheCase) poison() {
	cc.lines, cc.hist, cc.c = nil, nil, memrevcache.New()
	cc.last = map[revcache.Key]*path_mgmt.RevInfo{}
}

func (cc *cacheCase) oneOp(ctx context.Context, e *vlib.Env, base, planned time.Time, nowRelMs int64,
	expPool []int64, ph int) {
	r := cc.r
	key := cc.keys[r.Intn(len(cc.keys))]
	plannedS := planned.Unix() // planned is a whole second
	liveLast := func(k revcache.Key) *path_mgmt.RevInfo {
		l := cc.last[k]
		if l != nil && int64(l.RawTimestamp)+int64(l.RawTTL) > plannedS {
			return l
		}
		return nil
	}
	bad := func(class, what string) {
		e.Violate("C31/"+class, what, map[string]any{"cache": cc.idx, "phase": ph,
			"now_rel_s": nowRelMs / 1000, "history": append([]string(nil), cc.hist...)})
	}
	k := r.Intn(100)
	scripted := false
	if len(cc.script) > 0 { // follow-up of a short-lived / future-dated insertion
		k, cc.script, key, scripted = cc.script[0], cc.script[1:], cc.scriptKey, true
	}
	switch {
	case k < 50: // insert
		exp := base.Unix() + expPool[r.Intn(len(expPool))]
		if r.Chance(40) { // bias towards expiries that matter soon
			exp = base.Unix() + int64(phaseGap*ph+expOff) + int64(phaseGap*r.Intn(2))
			if r.Chance(15) {
				exp = base.Unix() + int64(phaseGap*(ph-1)+expOff) // expired 2 s ago
			}
		}
		ts := base.Unix() - 40 + int64(r.Intn(8))
		short := false
		if r.Chance(30) && !scripted {
			// lifetime of 1..9 s (below path_mgmt.MinRevTTL); with an expiry after the next
			// phase the timestamp then lies up to a few seconds in the FUTURE.  The cache
			// itself imposes neither a minimum lifetime nor a past timestamp.
			ts, short = exp-int64(r.Range(1, 9)), true
		}
		if scripted { // strictly older than the live one, long-lived
			if l := liveLast(key); l != nil {
				ts = int64(l.RawTimestamp) - 1 - int64(r.Intn(3))
			}
			exp = base.Unix() + 5000
		}
		if ts > exp {
			ts = exp
		}
		rev := &path_mgmt.RevInfo{IfID: key.IfID, RawIsdas: key.IA,
			LinkType: proto.LinkType(r.Intn(5)), RawTimestamp: uint32(ts), RawTTL: uint32(exp - ts)}
		op := fmt.Sprintf("ins %d %d %d %d %d %d", nowRelMs, uint64(key.IA), key.IfID, rev.LinkType,
			rel(base, rev.RawTimestamp), rev.RawTTL)
		var ok bool
		res, fine := vlib.Safe(func() string {
			var err error
			ok, err = cc.c.Insert(ctx, rev)
			if err != nil {
				return "err"
			}
			if ok {
				return "1"
			}
			return "0"
		})
		// predicate, from the statement: accepted iff unexpired and newer than the live stored one
		unexpired := exp > plannedS
		live := liveLast(key)
		want := unexpired && (live == nil || rev.RawTimestamp > live.RawTimestamp)
		tag := "ins-"
		switch {
		case !unexpired:
			tag += "expired"
		case live == nil && cc.last[key] != nil:
			tag += "over-dead"
		case live == nil:
			tag += "fresh"
		case rev.RawTimestamp > live.RawTimestamp:
			tag += "newer"
		case rev.RawTimestamp == live.RawTimestamp:
			tag += "equal"
		default:
			tag += "older"
		}
		cc.hist = append(cc.hist, op+" -> "+res)
		cc.lines = append(cc.lines, line{op, res, tag})
		if fine && res != "err" && ok != want {
			bad("insert-accept", fmt.Sprintf("Insert returned %v, statement demands %v (%s)", ok, want, tag))
		}
		if !fine {
			bad("panic", res)
		}
		if ok {
			cc.last[key] = rev
		}
		if short {
			if ts > plannedS+1 {
				tag += "+future"
			}
			tag += "+short"
			if ok && r.Chance(60) { // clean-up, look-up, older insertion, look-up
				cc.script, cc.scriptKey = []int{90, 60, 10, 60}, key
			}
		}
		if scripted {
			tag += "+after-cleanup"
		}
		cc.lines[len(cc.lines)-1].tag = tag
	case k < 85: // get
		if r.Chance(10) && !scripted {
			key = revcache.Key{IA: key.IA, IfID: 9} // never inserted
		}
		op := fmt.Sprintf("get %d %d %d", nowRelMs, uint64(key.IA), key.IfID)
		var got *path_mgmt.RevInfo
		res, fine := vlib.Safe(func() string {
			var err error
			got, err = cc.c.Get(ctx, key)
			if err != nil {
				return "err"
			}
			if got == nil {
				return "none"
			}
			return showRev(base, got)
		})
		want := liveLast(key)
		tag := "get-"
		switch {
		case cc.last[key] == nil:
			tag = "~get-never"
		case want == nil:
			tag += "expired"
		default:
			tag += "live"
		}
		cc.hist = append(cc.hist, op+" -> "+res)
		cc.lines = append(cc.lines, line{op, res, tag})
		if !fine {
			bad("panic", res)
		} else if res != "err" {
			if got != nil && int64(got.RawTimestamp)+int64(got.RawTTL) < plannedS {
				bad("returns-expired", "Get returned an expired revocation: "+res)
			} else if (got == nil) != (want == nil) || (got != nil && !got.Equal(want)) {
				bad("get-spec", "Get returned "+res+" but the last accepted live revocation is "+showOpt(base, want))
			}
		}
	case k < 93: // clean-up
		op := fmt.Sprintf("del %d", nowRelMs)
		res, fine := vlib.Safe(func() string {
			n, err := cc.c.DeleteExpired(ctx)
			if err != nil {
				return "err"
			}
			return fmt.Sprint(n)
		})
		cc.hist = append(cc.hist, op+" -> "+res)
		tag := "del"
		if res == "0" {
			tag = "del-0"
		}
		cc.lines = append(cc.lines, line{op, res, tag})
		if !fine {
			bad("panic", res)
		}
	default: // enumerate
		op := fmt.Sprintf("all %d", nowRelMs)
		var revs []*path_mgmt.RevInfo
		res, fine := vlib.Safe(func() string {
			ch, err := cc.c.GetAll(ctx)
			if err != nil {
				return "err"
			}
			for x := range ch {
				if x.Err != nil {
					return "err"
				}
				revs = append(revs, x.Rev)
			}
			sort.Slice(revs, func(i, j int) bool {
				if revs[i].RawIsdas != revs[j].RawIsdas {
					return revs[i].RawIsdas < revs[j].RawIsdas
				}
				return revs[i].IfID < revs[j].IfID
			})
			parts := []string{fmt.Sprint(len(revs))}
			for _, x := range revs {
				parts = append(parts, fmt.Sprintf("%d:%d:%d:%d:%d", uint64(x.RawIsdas), x.IfID, x.LinkType,
					rel(base, x.RawTimestamp), x.RawTTL))
			}
			return strings.Join(parts, " ")
		})
		cc.hist = append(cc.hist, op+" -> "+res)
		cc.lines = append(cc.lines, line{op, res, "all"})
		if !fine {
			bad("panic", res)
		} else if res != "err" {
			nLive := 0
			for k := range cc.last {
				if liveLast(k) != nil {
					nLive++
				}
			}
			for _, x := range revs {
				if int64(x.RawTimestamp)+int64(x.RawTTL) < plannedS {
					bad("returns-expired", "GetAll listed an expired revocation")
				}
			}
			if len(revs) != nLive {
				bad("get-spec", fmt.Sprintf("GetAll listed %d revocations, %d accepted ones are live", len(revs), nLive))
			}
		}
	}
}

func showOpt(base time.Time, r *path_mgmt.RevInfo) string {
	if r == nil {
		return "none"
	}
	return showRev(base, r)
}
