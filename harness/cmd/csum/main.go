// Engine "csum" (C20): ties lean/Scion/Model/Checksum.lean to pkg/slayers
// (SCION.computeChecksum / pseudoHeaderChecksum / upperLayerChecksum / foldChecksum as used by
// UDP.SerializeTo and SCMP.SerializeTo) and evaluates the C20 property predicate — written from
// the statement: one's-complement sum over the documented pseudo header and the upper layer —
// directly on what the real serializers produce.
package main

import (
	"encoding/binary"
	"fmt"

	"github.com/gopacket/gopacket"

	"github.com/scionproto/scion/pkg/addr"
	"github.com/scionproto/scion/pkg/slayers"

	"verifharness/vlib"
)

type pkt struct {
	proto    uint8
	srcIA    uint64
	dstIA    uint64
	srcT     slayers.AddrType
	dstT     slayers.AddrType
	src, dst []byte
	upper    []byte // upper layer as serialized by the real code (checksum stored)
	off      int    // offset of the checksum field
}

func (p *pkt) scn() *slayers.SCION {
	return &slayers.SCION{SrcIA: addr.IA(p.srcIA), DstIA: addr.IA(p.dstIA),
		SrcAddrType: p.srcT, DstAddrType: p.dstT, RawSrcAddr: p.src, RawDstAddr: p.dst}
}

func (p *pkt) clone() *pkt {
	q := *p
	q.src = append([]byte(nil), p.src...)
	q.dst = append([]byte(nil), p.dst...)
	q.upper = append([]byte(nil), p.upper...)
	return &q
}

func (p *pkt) hdrWords() string {
	return fmt.Sprintf("%d %d %s %s", p.srcIA, p.dstIA, vlib.Hex(p.src), vlib.Hex(p.dst))
}

func (p *pkt) replay() map[string]any {
	return map[string]any{"proto": p.proto, "srcIA": p.srcIA, "dstIA": p.dstIA,
		"src": vlib.Hex(p.src), "dst": vlib.Hex(p.dst), "upper": vlib.Hex(p.upper)}
}

// ---- independent specification (doc/protocols/scion-header.rst, RFC 1071) ----------------

// specPseudo builds the pseudo header bytes exactly as drawn in the documentation.
func specPseudo(p *pkt, length uint32) []byte {
	b := make([]byte, 0, 24+len(p.src)+len(p.dst))
	b = binary.BigEndian.AppendUint64(b, p.dstIA)
	b = binary.BigEndian.AppendUint64(b, p.srcIA)
	b = append(b, p.dst...)
	b = append(b, p.src...)
	b = binary.BigEndian.AppendUint32(b, length)
	b = append(b, 0, 0, 0, p.proto)
	return b
}

// specOnes is the 16-bit one's-complement sum (end-around carry) of a byte string, odd tail
// padded with a zero byte.
func specOnes(parts ...[]byte) uint16 {
	var s uint64
	for _, d := range parts {
		for i := 0; i+1 < len(d); i += 2 {
			s += uint64(d[i])<<8 | uint64(d[i+1])
		}
		if len(d)%2 == 1 {
			s += uint64(d[len(d)-1]) << 8
		}
	}
	for s>>16 != 0 {
		s = s>>16 + s&0xffff
	}
	return uint16(s)
}

// ---- real code ------------------------------------------------------------------------------

func realCompute(p *pkt) string {
	s, _ := vlib.Safe(func() string {
		c, err := p.scn().VerifComputeChecksum(p.upper, p.proto)
		if err != nil {
			return "err"
		}
		return fmt.Sprintf("ok %d", c)
	})
	return canonPanic(s)
}

func realTotal(p *pkt, length int) string {
	s, _ := vlib.Safe(func() string {
		sc := p.scn()
		c, err := sc.VerifPseudoHeaderChecksum(length, p.proto)
		if err != nil {
			return "err"
		}
		return fmt.Sprintf("ok %d", sc.VerifFoldChecksum(sc.VerifUpperLayerChecksum(p.upper, c)))
	})
	return canonPanic(s)
}

func canonPanic(s string) string {
	if len(s) >= 5 && s[:5] == "PANIC" {
		return "panic"
	}
	return s
}

var sharedBuf = gopacket.NewSerializeBuffer()

var scmpTypes = []slayers.SCMPType{
	slayers.SCMPTypeDestinationUnreachable, slayers.SCMPTypePacketTooBig,
	slayers.SCMPTypeParameterProblem, slayers.SCMPTypeExternalInterfaceDown,
	slayers.SCMPTypeInternalConnectivityDown, slayers.SCMPTypeEchoRequest,
	slayers.SCMPTypeEchoReply, slayers.SCMPTypeTracerouteRequest, slayers.SCMPTypeTracerouteReply,
	slayers.SCMPType(77),
}

func ipBytes(r *vlib.Rand, n int) []byte {
	switch r.Intn(8) {
	case 0:
		return make([]byte, n)
	case 1:
		b := make([]byte, n)
		for i := range b {
			b[i] = 0xff
		}
		return b
	}
	return r.Bytes(n)
}

func randIA(r *vlib.Rand) uint64 {
	switch r.Intn(8) {
	case 0:
		return 0
	case 1:
		return ^uint64(0)
	case 2:
		return uint64(r.Intn(1<<16))<<48 | 0xff00_0000_0000 | uint64(r.Intn(1<<16))
	}
	return r.U64()
}

// build serializes a real UDP or SCMP upper layer of total payload length n with checksums.
func build(r *vlib.Rand, proto uint8, dstT, srcT slayers.AddrType, n int) (*pkt, error) {
	p := &pkt{proto: proto, srcIA: randIA(r), dstIA: randIA(r), srcT: srcT, dstT: dstT}
	p.src = ipBytes(r, srcT.Length())
	p.dst = ipBytes(r, dstT.Length())
	scn := p.scn()
	var pld []byte
	switch r.Intn(6) {
	case 0:
		pld = make([]byte, n)
	case 1:
		pld = make([]byte, n)
		for i := range pld {
			pld[i] = 0xff
		}
	default:
		pld = r.Bytes(n)
	}
	// a reused serialize buffer full of stale bytes, as in the router/dispatcher: the serializers
	// must not depend on PrependBytes returning zeroed memory
	buf := sharedBuf
	_ = buf.Clear()
	if g, err := buf.PrependBytes(n + 16); err == nil {
		for i := range g {
			g[i] = byte(0xa5 + i)
		}
	}
	_ = buf.Clear()
	opts := gopacket.SerializeOptions{FixLengths: true, ComputeChecksums: true}
	var err error
	if proto == uint8(slayers.L4UDP) {
		udp := &slayers.UDP{SrcPort: uint16(r.U64()), DstPort: uint16(r.U64()), Checksum: uint16(r.U64())}
		udp.SetNetworkLayerForChecksum(scn)
		err = gopacket.SerializeLayers(buf, opts, udp, gopacket.Payload(pld))
		p.off = 6
	} else {
		t := scmpTypes[r.Intn(len(scmpTypes))]
		scmp := &slayers.SCMP{TypeCode: slayers.CreateSCMPTypeCode(t, slayers.SCMPCode(r.Intn(256))),
			Checksum: uint16(r.U64())}
		scmp.SetNetworkLayerForChecksum(scn)
		err = gopacket.SerializeLayers(buf, opts, scmp, gopacket.Payload(pld))
		p.off = 2
	}
	if err != nil {
		return nil, err
	}
	p.upper = append([]byte(nil), buf.Bytes()...)
	return p, nil
}

// covered data positions: 0..7 dstIA, 8..15 srcIA, dst host, src host, 4 length bytes, 3 zero
// bytes (not flipped: they are constant padding, not data), protocol, then the upper layer.
type region struct {
	name  string
	start int
	n     int
}

func regions(p *pkt) []region {
	o := 0
	var rs []region
	add := func(name string, n int) {
		rs = append(rs, region{name, o, n})
		o += n
	}
	add("dstia", 8)
	add("srcia", 8)
	add("dsthost", len(p.dst))
	add("srchost", len(p.src))
	add("length", 4)
	add("zero", 3)
	add("proto", 1)
	add("upper", len(p.upper))
	return rs
}

// flip applies a single-bit flip at covered position pos/bit and returns the flipped packet, the
// flipped pseudo-header length and the region name.
func flip(p *pkt, pos, bit int) (*pkt, int, string) {
	q := p.clone()
	length := len(p.upper)
	m := byte(1) << uint(bit)
	for _, rg := range regions(p) {
		if pos < rg.start || pos >= rg.start+rg.n {
			continue
		}
		i := pos - rg.start
		switch rg.name {
		case "dstia":
			q.dstIA ^= uint64(m) << uint(8*(7-i))
		case "srcia":
			q.srcIA ^= uint64(m) << uint(8*(7-i))
		case "dsthost":
			q.dst[i] ^= m
		case "srchost":
			q.src[i] ^= m
		case "length":
			length ^= int(m) << uint(8*(3-i))
		case "proto":
			q.proto ^= m
		case "upper":
			q.upper[i] ^= m
		}
		return q, length, rg.name
	}
	return q, length, "none"
}

func main() {
	e := vlib.Init()
	r := vlib.NewRand(uint64(e.Seed))
	e.Rule = "real UDP/SCMP SerializeTo(FixLengths,ComputeChecksums) over all 16x16 address-type " +
		"pairs x payload lengths 0..9000 (every length in thorough; all <=130 + boundaries + random in " +
		"quick, odd lengths included); per packet: stored checksum vs model, real recomputation over " +
		"the stored bytes vs model, single-bit flips of every covered region (ISD-AS, hosts, length, " +
		"protocol, upper layer incl. checksum field and odd tail); distinct = distinct op lines"

	// --- the pieces on their own: fold on arbitrary 32-bit accumulators, upper layer, pseudo hdr
	foldVals := []uint32{0, 1, 0xfffe, 0xffff, 0x10000, 0x10001, 0x1fffe, 0x1ffff, 0x20000,
		0xffff0000, 0xffff0001, 0xfffeffff, 0xffffffff, 0xfffffffe, 0x7fffffff, 0x80000000, 0x0001ffff}
	for i := 0; i < e.N(3000, 30000); i++ {
		foldVals = append(foldVals, uint32(r.U64()>>uint(r.Intn(33)+31)), uint32(r.U64()))
	}
	sc0 := &slayers.SCION{}
	for _, v := range foldVals {
		e.Op(fmt.Sprintf("fold %d", v), fmt.Sprintf("%d", sc0.VerifFoldChecksum(v)), "fold")
	}
	for i := 0; i < e.N(400, 4000); i++ {
		n := r.Intn(70)
		if r.Chance(10) {
			n = r.Intn(3000)
		}
		u := r.Bytes(n)
		c := uint32(r.U64())
		if r.Chance(50) {
			c >>= uint(r.Intn(32))
		}
		e.Op(fmt.Sprintf("ul %d %s", c, vlib.Hex(u)), fmt.Sprintf("%d", sc0.VerifUpperLayerChecksum(u, c)), "upper")
	}
	// malformed address slices: missing (error) and odd length (index out of range in the Go code)
	for i := 0; i < e.N(60, 300); i++ {
		p := &pkt{proto: uint8(r.U64()), srcIA: r.U64(), dstIA: r.U64()}
		p.src = r.Bytes([]int{0, 1, 2, 3, 4, 5, 7, 16, 17}[r.Intn(9)])
		p.dst = r.Bytes([]int{0, 1, 2, 3, 4, 5, 7, 16, 17}[r.Intn(9)])
		p.upper = r.Bytes(r.Intn(12))
		tag := "~badaddr"
		if len(p.src) > 0 && len(p.dst) > 0 && len(p.src)%2 == 0 && len(p.dst)%2 == 0 {
			tag = "rawaddr"
		}
		e.Op(fmt.Sprintf("cs %d %s %s", p.proto, p.hdrWords(), vlib.Hex(p.upper)), realCompute(p), tag)
		ln := r.Intn(1 << 20)
		if r.Chance(30) {
			ln = int(uint32(r.U64()))
		}
		e.Op(fmt.Sprintf("ph %d %d %s", p.proto, ln, p.hdrWords()), func() string {
			s, _ := vlib.Safe(func() string {
				c, err := p.scn().VerifPseudoHeaderChecksum(ln, p.proto)
				if err != nil {
					return "err"
				}
				return fmt.Sprintf("ok %d", c)
			})
			return canonPanic(s)
		}(), tag)
	}

	// --- packets
	var lengths []int
	if e.Thorough() {
		for n := 0; n <= 9000; n++ {
			lengths = append(lengths, n)
		}
	} else {
		for n := 0; n <= 130; n++ {
			lengths = append(lengths, n)
		}
		lengths = append(lengths, 255, 256, 257, 1023, 1024, 1025, 1231, 1232, 1471, 1472, 4095, 4096,
			8191, 8192, 8991, 8992, 8995, 8996, 8997, 8998, 8999, 9000)
		for i := 0; i < 360; i++ {
			lengths = append(lengths, r.Intn(9001))
		}
	}
	fullFlipBudget := e.N(0, 200) // packets whose every covered bit is flipped
	pair := r.Intn(256)
	nflips := 0
	for ci, n := range lengths {
		reps := 1
		if n <= 40 && !e.Thorough() {
			reps = 3
		}
		for rep := 0; rep < reps; rep++ {
			pair = (pair + 1) % 256 // cycles through all 16x16 (dst,src) address types
			dstT, srcT := slayers.AddrType(pair>>4), slayers.AddrType(pair&0xf)
			proto := uint8(slayers.L4UDP)
			if (ci+rep)%2 == 1 {
				proto = uint8(slayers.L4SCMP)
			}
			p, err := build(r, proto, dstT, srcT, n)
			if err != nil {
				e.Violate("C20/serialize-error", "SerializeLayers failed: "+err.Error(),
					map[string]any{"proto": proto, "dstT": dstT, "srcT": srcT, "len": n})
				continue
			}
			tag := "udp"
			if proto != uint8(slayers.L4UDP) {
				tag = "scmp"
			}
			if len(p.upper)%2 == 1 {
				tag += "-odd"
			}
			// (1) the stored checksum is what the model computes over the zeroed field
			z := p.clone()
			z.upper[p.off], z.upper[p.off+1] = 0, 0
			stored := binary.BigEndian.Uint16(p.upper[p.off:])
			e.Op(fmt.Sprintf("cs %d %s %s", p.proto, p.hdrWords(), vlib.Hex(z.upper)),
				fmt.Sprintf("ok %d", stored), tag)
			// (2) real recomputation over the stored bytes
			rv := realCompute(p)
			e.Op(fmt.Sprintf("cs %d %s %s", p.proto, p.hdrWords(), vlib.Hex(p.upper)), rv, tag+"-verify")
			e.Sample(map[string]any{"proto": p.proto, "dstT": dstT, "srcT": srcT, "len": len(p.upper),
				"stored": stored, "recomputed": rv})
			// predicate, from the statement: one's-complement sum over pseudo header and upper
			// layer equals 0xFFFF
			if s := specOnes(specPseudo(p, uint32(len(p.upper))), p.upper); s != 0xffff {
				e.Violate("C20/verify", fmt.Sprintf("one's-complement sum over pseudo header and upper layer is %#04x, not 0xffff", s), p.replay())
			}
			if rv != "ok 0" {
				e.Violate("C20/verify-real", "real recomputation over the stored bytes gives "+rv+", not 0", p.replay())
			}
			// (3) single-bit flips
			rs := regions(p)
			total := rs[len(rs)-1].start + rs[len(rs)-1].n
			doFlip := func(pos, bit int, line bool) {
				q, length, name := flip(p, pos, bit)
				if name == "zero" || name == "none" {
					return
				}
				nflips++
				got := realTotal(q, length)
				if line {
					e.Op(fmt.Sprintf("tot %d %d %s %s", q.proto, length, q.hdrWords(), vlib.Hex(q.upper)), got, "flip-"+name)
				} else {
					e.Case(fmt.Sprintf("%d/%d/%d", ci*8+rep, pos, bit), "flip-"+name, false)
				}
				spec := specOnes(specPseudo(q, uint32(length)), q.upper)
				if got == "ok 0" || spec == 0xffff {
					rp := p.replay()
					rp["flip_region"], rp["flip_pos"], rp["flip_bit"] = name, pos, bit
					e.Violate("C20/flip-undetected", fmt.Sprintf("single-bit flip in %s (covered byte %d, bit %d) leaves the sum at 0xffff", name, pos, bit), rp)
				}
			}
			if fullFlipBudget > 0 && (n < 40 || r.Chance(3)) {
				fullFlipBudget--
				for pos := 0; pos < total; pos++ {
					for bit := 0; bit < 8; bit++ {
						doFlip(pos, bit, len(p.upper) <= 64 && bit == pos%8)
					}
				}
			} else {
				// one flip per region with a model line (small packets) + sampled others
				small := len(p.upper) <= 300
				for _, rg := range rs {
					if rg.n == 0 {
						continue
					}
					doFlip(rg.start+r.Intn(rg.n), r.Intn(8), small || rg.name != "upper")
				}
				up := rs[len(rs)-1]
				if up.n > 0 {
					doFlip(up.start+up.n-1, r.Intn(8), small)      // last (odd tail) byte
					doFlip(up.start+p.off+r.Intn(2), r.Intn(8), small) // the checksum field
					for k := 0; k < 24; k++ {
						doFlip(up.start+r.Intn(up.n), r.Intn(8), false)
					}
				}
			}
		}
	}
	e.Extra["packets"] = len(lengths)
	e.Extra["flips"] = nflips
	e.Finish()
}
