// Engine "pather" (C30): ties lean/Scion/Model/Pather.lean to private/segment/segfetcher
// (Pather.GetPaths with the real combinator and the real in-memory revocation cache, real
// MultiSegmentSplitter) and evaluates the C30 property predicate on every returned path.
//
// Per case: a random topology (2-3 ISDs, 1-3 core ASes each, 0-4 non-core ASes with 1-2 parents,
// random core links), up/down/core segments with random timestamps and hop expiries (some
// expired), a revocation history (expired / active / superseded revocations on interfaces that
// occur in the segments), a resolver stub answering segment requests like the path DB does.
package main

import (
	"context"
	"errors"
	"fmt"
	"net"
	"sort"
	"strings"
	"time"

	"github.com/scionproto/scion/pkg/addr"
	"github.com/scionproto/scion/pkg/private/ctrl/path_mgmt"
	"github.com/scionproto/scion/pkg/private/ctrl/path_mgmt/proto"
	cryptopb "github.com/scionproto/scion/pkg/proto/crypto"
	seg "github.com/scionproto/scion/pkg/segment"
	"github.com/scionproto/scion/pkg/segment/iface"
	"github.com/scionproto/scion/pkg/snet"
	"github.com/scionproto/scion/private/path/combinator"
	"github.com/scionproto/scion/private/revcache"
	"github.com/scionproto/scion/private/revcache/memrevcache"
	"github.com/scionproto/scion/private/segment/segfetcher"
	"github.com/scionproto/scion/private/trust"

	"verifharness/vlib"
)

type nullSigner struct{}

func (nullSigner) Sign(context.Context, []byte, ...[]byte) (*cryptopb.SignedMessage, error) {
	return &cryptopb.SignedMessage{HeaderAndBody: []byte{1}, Signature: []byte{2}}, nil
}

type link struct {
	a, b     int // AS indices; for parent links a is the parent
	ifa, ifb uint16
}

type topo struct {
	ias    []addr.IA
	core   []bool
	nextIf []uint16
	coreL  []link
	parL   []link
}

func iaStr(ia addr.IA) string { return fmt.Sprintf("%d.%d", ia.ISD(), uint64(ia.AS())) }

func genTopo(r *vlib.Rand) *topo {
	t := &topo{}
	nisd := r.Range(2, 3)
	for isd := 1; isd <= nisd; isd++ {
		nc, nn := r.Range(1, 3), r.Intn(5)
		first := len(t.ias)
		for k := 0; k < nc+nn; k++ {
			t.ias = append(t.ias, addr.MustIAFrom(addr.ISD(isd), addr.AS(0xff00_0000_0100+isd*16+k)))
			t.core = append(t.core, k < nc)
			t.nextIf = append(t.nextIf, 1)
		}
		for k := nc; k < nc+nn; k++ { // parents: cores or earlier non-core ASes of the ISD
			x := first + k
			for j, n := 0, r.Range(1, 2); j < n; j++ {
				p := first + r.Intn(k)
				t.parL = append(t.parL, t.mk(p, x))
			}
		}
	}
	for i := range t.ias {
		for j := i + 1; j < len(t.ias); j++ {
			if t.core[i] && t.core[j] && r.Chance(60) {
				t.coreL = append(t.coreL, t.mk(i, j))
			}
		}
	}
	return t
}

func (t *topo) mk(a, b int) link {
	l := link{a: a, b: b, ifa: t.nextIf[a], ifb: t.nextIf[b]}
	t.nextIf[a]++
	t.nextIf[b]++
	return l
}

type hopT struct {
	as      int
	in, out uint16
}

// downPaths enumerates construction-direction hop lists from a core AS down to x.
func (t *topo) downPaths(x int, tail []hopT, inIf uint16, out *[][]hopT, depth int) {
	if depth > 5 || len(*out) > 8 {
		return
	}
	// tail is the part below x (already built, in construction order)
	if t.core[x] {
		p := append([]hopT{{as: x, in: 0, out: inIf}}, tail...)
		*out = append(*out, p)
		return
	}
	for _, l := range t.parL {
		if l.b != x {
			continue
		}
		// x is entered from parent l.a over (l.ifa -> l.ifb); x leaves over inIf
		nt := append([]hopT{{as: x, in: l.ifb, out: inIf}}, tail...)
		t.downPaths(l.a, nt, l.ifa, out, depth+1)
	}
}

func (t *topo) corePaths(from int, visited []int, hops []hopT, inIf uint16, out *[][]hopT) {
	if len(*out) > 40 {
		return
	}
	if len(visited) >= 2 {
		p := append(append([]hopT{}, hops...), hopT{as: from, in: inIf, out: 0})
		*out = append(*out, p)
	}
	if len(visited) >= 4 {
		return
	}
	for _, l := range t.coreL {
		var nb int
		var myIf, nbIf uint16
		switch from {
		case l.a:
			nb, myIf, nbIf = l.b, l.ifa, l.ifb
		case l.b:
			nb, myIf, nbIf = l.a, l.ifb, l.ifa
		default:
			continue
		}
		seen := false
		for _, v := range visited {
			seen = seen || v == nb
		}
		if seen {
			continue
		}
		t.corePaths(nb, append(append([]int{}, visited...), nb), append(append([]hopT{}, hops...), hopT{as: from, in: inIf, out: myIf}), nbIf, out)
	}
}

type segRec struct {
	ps    *seg.PathSegment
	typ   seg.Type // Core or Down (down segments double as up segments)
	first addr.IA
	last  addr.IA
}

func (t *topo) build(r *vlib.Rand, hops []hopT, now time.Time, id uint16) *seg.PathSegment {
	// expiry = ts + (exp+1)*337.5s; spread around now, never within 5 s of it
	exp := uint8(r.Intn(64))
	life := time.Duration(int(exp)+1) * 337500 * time.Millisecond
	var ts time.Time
	if r.Chance(25) { // expired at least 20 s ago
		ts = now.Add(-life - time.Duration(r.Range(20, 4000))*time.Second)
	} else { // at least 20 s of lifetime left (life >= 337 s)
		ts = now.Add(-time.Duration(r.Intn(int(life/time.Second)-20)) * time.Second)
	}
	ts = ts.Truncate(time.Second)
	ps, err := seg.CreateSegment(ts, id)
	if err != nil {
		panic(err)
	}
	for i, h := range hops {
		e := seg.ASEntry{Local: t.ias[h.as], MTU: 1400,
			HopEntry: seg.HopEntry{HopField: seg.HopField{ExpTime: exp, ConsIngress: h.in, ConsEgress: h.out}, IngressMTU: 1400}}
		if r.Chance(20) && exp > 0 { // a hop with a shorter lifetime
			e.HopEntry.HopField.ExpTime = uint8(r.Intn(int(exp)))
		}
		if i+1 < len(hops) {
			e.Next = t.ias[hops[i+1].as]
		}
		if err := ps.AddASEntry(context.Background(), e, nullSigner{}); err != nil {
			panic(err)
		}
	}
	return ps
}

func match(q, ia addr.IA) bool {
	if q.AS() == 0 {
		return q.ISD() == 0 || q.ISD() == ia.ISD()
	}
	return q == ia
}

var errResolver = errors.New("resolver failed")
var errInspector = errors.New("inspector failed")

type resolver struct {
	segs []segRec
	fail bool
	reqs *segfetcher.Requests
}

func (rs resolver) Resolve(_ context.Context, reqs segfetcher.Requests, _ bool) (segfetcher.Segments, segfetcher.Requests, error) {
	*rs.reqs = reqs
	if rs.fail {
		return nil, nil, errResolver
	}
	var out segfetcher.Segments
	seen := map[string]bool{}
	for _, q := range reqs {
		start, end := q.Src, q.Dst
		if q.SegType != seg.TypeDown {
			start, end = end, start
		}
		for i, s := range rs.segs {
			want := s.typ
			if q.SegType == seg.TypeUp {
				want = seg.TypeDown // stored once, served as up segment
			} else if q.SegType != s.typ {
				continue
			}
			if s.typ != want || !match(start, s.first) || !match(end, s.last) {
				continue
			}
			k := fmt.Sprintf("%d/%d", i, q.SegType)
			if seen[k] {
				continue
			}
			seen[k] = true
			out = append(out, &seg.Meta{Segment: s.ps, Type: q.SegType})
		}
	}
	return out, nil, nil
}

type inspector struct {
	t            *topo
	failBy, fail bool
}

func (in inspector) ByAttributes(_ context.Context, isd addr.ISD, _ trust.Attribute) ([]addr.IA, error) {
	if in.failBy {
		return nil, errInspector
	}
	var out []addr.IA
	for i, ia := range in.t.ias {
		if in.t.core[i] && ia.ISD() == isd {
			out = append(out, ia)
		}
	}
	return out, nil
}

func (in inspector) HasAttributes(_ context.Context, ia addr.IA, _ trust.Attribute) (bool, error) {
	if in.fail {
		return false, errInspector
	}
	for i, x := range in.t.ias {
		if x == ia {
			return in.t.core[i], nil
		}
	}
	return false, nil
}

// faultyRevCache wraps the real cache; Get fails for the chosen keys (never for a key that has an
// active revocation: what should happen then is not determined by the statement).
type faultyRevCache struct {
	revcache.RevCache
	fail map[string]bool
}

var errRevLookup = errors.New("revocation lookup failed")

func (f faultyRevCache) Get(ctx context.Context, k revcache.Key) (*path_mgmt.RevInfo, error) {
	if f.fail[fmt.Sprintf("%s#%d", iaStr(k.IA), k.IfID)] {
		return nil, errRevLookup
	}
	return f.RevCache.Get(ctx, k)
}

type nextHopper struct{ missing map[uint16]bool }

func (n nextHopper) UnderlayNextHop(id uint16) *net.UDPAddr {
	if n.missing[id] {
		return nil
	}
	return &net.UDPAddr{IP: net.IPv4(10, 0, 0, byte(id)), Port: 30042}
}

func ifsKey(ifs []snet.PathInterface) string {
	p := make([]string, len(ifs))
	for i, x := range ifs {
		p[i] = fmt.Sprintf("%s#%d", iaStr(x.IA), x.ID)
	}
	if len(p) == 0 {
		return "-"
	}
	return strings.Join(p, "+")
}

func iasWord(l []addr.IA) string {
	if len(l) == 0 {
		return "-"
	}
	p := make([]string, len(l))
	for i, x := range l {
		p[i] = iaStr(x)
	}
	return strings.Join(p, ",")
}

func tyName(t seg.Type) string {
	switch t {
	case seg.TypeUp:
		return "up"
	case seg.TypeCore:
		return "core"
	case seg.TypeDown:
		return "down"
	}
	return "?"
}

func main() {
	e := vlib.Init()
	e.Rule = "random topologies (2-3 ISDs, 1-3 cores each, 0-4 non-core ASes with 1-2 parents, random core links); all up/down/core " +
		"segments with random timestamps/expiries (25% expired, 20% hops shorter; never within 20 s of now); revocation histories " +
		"(expired, active, superseded) on interfaces of the segments, in half of the lookups the revocation cache fails for ~35% of the unrevoked interfaces; 6 lookups per topology from a random AS to a random AS / ISD " +
		"wildcard / itself / ISD 0, real Pather + real Combine + real memrevcache + real MultiSegmentSplitter (with and without " +
		"inspector, inspector errors); splitter lines for every lookup; non-trivial = lookup reached the combinator"
	ctx := context.Background()
	ncase := e.N(700, 15000)
	for ci := 0; ci < ncase; ci++ {
		r := vlib.CaseRand(e.Seed, ci)
		t := genTopo(r)
		now := time.Now()
		var segs []segRec
		id := uint16(1)
		for x := range t.ias {
			if t.core[x] {
				var ps [][]hopT
				t.corePaths(x, []int{x}, nil, 0, &ps)
				for _, p := range ps {
					if r.Chance(70) {
						segs = append(segs, segRec{t.build(r, p, now, id), seg.TypeCore, t.ias[p[0].as], t.ias[p[len(p)-1].as]})
						id++
					}
				}
				continue
			}
			var ps [][]hopT
			t.downPaths(x, nil, 0, &ps, 0)
			for _, p := range ps {
				segs = append(segs, segRec{t.build(r, p, now, id), seg.TypeDown, t.ias[p[0].as], t.ias[p[len(p)-1].as]})
				id++
			}
		}
		// revocation history
		rc := memrevcache.New()
		type revT struct {
			ia  addr.IA
			id  uint16
			exp time.Time
		}
		var allIfs []revT
		for _, s := range segs {
			for _, en := range s.ps.ASEntries {
				for _, i := range []uint16{en.HopEntry.HopField.ConsIngress, en.HopEntry.HopField.ConsEgress} {
					if i != 0 {
						allIfs = append(allIfs, revT{ia: en.Local, id: i})
					}
				}
			}
		}
		active := map[string]bool{}
		var revWords []string
		if len(allIfs) > 0 {
			for k, n := 0, r.Intn(5); k < n; k++ {
				x := allIfs[r.Intn(len(allIfs))]
				ttl := uint32(r.Range(30, 600))
				var ts time.Time
				switch r.Intn(4) {
				case 0: // expired long ago
					ts = now.Add(-time.Duration(ttl)*time.Second - time.Duration(r.Range(20, 500))*time.Second)
				default: // active for at least 20 more seconds
					ts = now.Add(-time.Duration(r.Intn(int(ttl)-20)) * time.Second)
				}
				rev := &path_mgmt.RevInfo{IfID: iface.ID(x.id), RawIsdas: x.ia, LinkType: proto.LinkType_core,
					RawTimestamp: uint32(ts.Unix()), RawTTL: ttl}
				if _, err := rc.Insert(ctx, rev); err != nil {
					panic(err)
				}
				if rev.Expiration().After(now.Add(10 * time.Second)) {
					k := fmt.Sprintf("%s#%d", iaStr(x.ia), x.id)
					if !active[k] {
						active[k] = true
						revWords = append(revWords, k)
					}
				}
			}
		}
		sort.Strings(revWords)
		// lookups
		for li := 0; li < 6; li++ {
			src := r.Intn(len(t.ias))
			local := t.ias[src]
			var dst addr.IA
			switch r.Intn(10) {
			case 0:
				dst = local
			case 1:
				dst = addr.MustIAFrom(0, t.ias[r.Intn(len(t.ias))].AS())
			case 2, 3:
				dst = addr.MustIAFrom(t.ias[r.Intn(len(t.ias))].ISD(), 0)
			default:
				dst = t.ias[r.Intn(len(t.ias))]
			}
			withInsp := !r.Chance(15)
			insp := inspector{t: t, failBy: r.Chance(3), fail: r.Chance(3)}
			sp := &segfetcher.MultiSegmentSplitter{LocalIA: local, Core: t.core[src]}
			if withInsp {
				sp.Inspector = insp
			}
			// ---- splitter line + predicate
			reqs, serr := sp.Split(ctx, dst)
			{
				iw := "none"
				if withInsp {
					cw, aw := "err", "err"
					if !insp.failBy {
						cs, _ := insp.ByAttributes(ctx, local.ISD(), trust.Core)
						cw = iasWord(cs)
					}
					if !insp.fail {
						b, _ := insp.HasAttributes(ctx, dst, trust.Core)
						aw = map[bool]string{true: "1", false: "0"}[b]
					}
					iw = "cores=" + cw + ";attr=" + aw
				}
				out := "err"
				if serr == nil {
					var w []string
					for _, q := range reqs {
						w = append(w, fmt.Sprintf("%s:%s>%s", tyName(q.SegType), iaStr(q.Src), iaStr(q.Dst)))
					}
					out = strings.Join(w, ",")
				}
				tag := "sp-noinsp"
				if withInsp {
					tag = fmt.Sprintf("sp-%d", len(reqs))
				}
				if dst.ISD() == 0 || dst == local {
					tag = "~" + tag
				}
				e.Op(fmt.Sprintf("sp %s %d %s %s", iaStr(local), map[bool]int{true: 1, false: 0}[t.core[src]], iaStr(dst), iw), out, tag)
				if serr == nil && withInsp && dst.ISD() != 0 && dst != local {
					specSplit(e, t, src, dst, reqs)
				}
			}
			// ---- lookup
			missing := map[uint16]bool{}
			if r.Chance(6) {
				missing[uint16(r.Range(1, 3))] = true
			}
			var seenReqs segfetcher.Requests
			rs := resolver{segs: segs, fail: r.Chance(3), reqs: &seenReqs}
			// revocation lookups fail for some interfaces without an active revocation: a path with an
			// active revocation on another interface must still not be returned
			failing := map[string]bool{}
			var failWords []string
			if r.Chance(50) {
				for _, x := range allIfs {
					k := fmt.Sprintf("%s#%d", iaStr(x.ia), x.id)
					if !active[k] && !failing[k] && r.Chance(35) {
						failing[k] = true
						failWords = append(failWords, k)
					}
				}
			}
			p := &segfetcher.Pather{IA: local, MTU: 1400, NextHopper: nextHopper{missing}, RevCache: faultyRevCache{rc, failing},
				Fetcher: &segfetcher.Fetcher{Resolver: rs}, Splitter: sp}
			t0 := time.Now()
			var paths []snet.Path
			var gerr error
			_, okc := vlib.Safe(func() string { paths, gerr = p.GetPaths(ctx, dst, false); return "" })
			// the model's inputs: what the resolver handed out, and the combinator's answers
			var fetched segfetcher.Segments
			if serr == nil && !rs.fail && dst.ISD() != 0 && dst != local {
				fetched, _, _ = rs.Resolve(ctx, reqs, false)
			}
			var ups, cores, downs seg.Segments
			for _, m := range fetched {
				switch m.Type {
				case seg.TypeUp:
					ups = append(ups, m.Segment)
				case seg.TypeCore:
					cores = append(cores, m.Segment)
				case seg.TypeDown:
					downs = append(downs, m.Segment)
				}
			}
			cand := map[addr.IA]bool{dst: true}
			for _, ia := range append(ups.FirstIAs(), cores.FirstIAs()...) {
				cand[ia] = true
			}
			var cl []addr.IA
			for ia := range cand {
				cl = append(cl, ia)
			}
			sort.Slice(cl, func(i, j int) bool { return cl[i] < cl[j] })
			pid := 0
			idOf := map[string]int{}
			var tbl []string
			for _, d := range cl {
				var w []string
				for _, cp := range combinator.Combine(local, d, ups, cores, downs, false) {
					pid++
					k := iaStr(d) + "|" + ifsKey(cp.Metadata.Interfaces)
					idOf[k] = pid
					w = append(w, fmt.Sprintf("%d:%d:%s", pid, cp.Metadata.Expiry.UnixMilli(), ifsKey(cp.Metadata.Interfaces)))
				}
				if len(w) == 0 {
					tbl = append(tbl, iaStr(d)+"=-")
				} else {
					tbl = append(tbl, iaStr(d)+"="+strings.Join(w, "/"))
				}
			}
			var nonh []string
			for k := range missing {
				nonh = append(nonh, fmt.Sprint(k))
			}
			lst := func(w []string) string {
				if len(w) == 0 {
					return "-"
				}
				return strings.Join(w, ",")
			}
			b2 := func(b bool) int {
				if b {
					return 1
				}
				return 0
			}
			op := fmt.Sprintf("gp %s %s %d %s %s %s %s %d %d %s", iaStr(local), iaStr(dst), t0.UnixMilli(), iasWord(ups.FirstIAs()),
				iasWord(cores.FirstIAs()), lst(revWords), lst(nonh), b2(serr != nil), b2(rs.fail), strings.Join(tbl, " "))
			sort.Strings(failWords)
			replay := map[string]any{"local": local.String(), "dst": dst.String(), "revoked": revWords, "revocation_lookup_fails_for": failWords, "op": op}
			var out, tag string
			switch {
			case !okc:
				out, tag = "panic", "panic"
				e.Violate("C30/panic", "GetPaths panicked", replay)
			case errors.Is(gerr, segfetcher.ErrBadDst):
				out, tag = "baddst", "~baddst"
			case errors.Is(gerr, errInspector):
				out, tag = "spliterr", "~spliterr"
			case errors.Is(gerr, errResolver):
				out, tag = "fetcherr", "~fetcherr"
			case gerr != nil:
				out, tag = "translateerr", "translateerr"
			case paths == nil:
				out, tag = "none", "none"
			case dst == local:
				out, tag = "local", "local"
				if len(paths) != 1 || len(paths[0].Metadata().Interfaces) != 0 || paths[0].Source() != local || paths[0].Destination() != local {
					e.Violate("C30/local-lookup", "a lookup for the local AS did not yield exactly one empty path", replay)
					out = "local-bad"
				}
			default:
				var ids []int
				for _, sp := range paths {
					k := iaStr(sp.Destination()) + "|" + ifsKey(sp.Metadata().Interfaces)
					if _, ok := idOf[k]; !ok {
						ids = append(ids, 0)
						continue
					}
					ids = append(ids, idOf[k])
				}
				sort.Ints(ids)
				w := []string{"paths"}
				for _, i := range ids {
					w = append(w, fmt.Sprint(i))
				}
				out, tag = strings.Join(w, " "), "paths"
				if dst.IsWildcard() {
					tag = "paths-wildcard"
				}
				if len(revWords) > 0 {
					tag += "+rev"
				}
			}
			e.Op(op, out, tag)
			if ci < 2 && li < 2 {
				e.Sample(map[string]any{"local": local.String(), "dst": dst.String(), "impl": out})
			}
			if !okc || gerr != nil || dst == local {
				continue
			}
			// ---- the statement on every returned path
			t1 := time.Now()
			for _, sp := range paths {
				md := sp.Metadata()
				rp := map[string]any{"local": local.String(), "dst": dst.String(), "path": ifsKey(md.Interfaces),
					"expiry": md.Expiry.UTC().String(), "revoked": revWords, "revocation_lookup_fails_for": failWords}
				if sp.Source() != local || len(md.Interfaces) == 0 || md.Interfaces[0].IA != local {
					e.Violate("C30/start", "returned path does not start at the local AS", rp)
				}
				end := sp.Destination()
				if len(md.Interfaces) > 0 && md.Interfaces[len(md.Interfaces)-1].IA != end {
					e.Violate("C30/end", "path destination differs from its last interface", rp)
				}
				if !dst.IsWildcard() {
					if end != dst {
						e.Violate("C30/end", "returned path does not end at the requested ISD-AS", rp)
					}
				} else {
					isCore := false
					for i, ia := range t.ias {
						isCore = isCore || (ia == end && t.core[i])
					}
					if end.ISD() != dst.ISD() || !isCore {
						e.Violate("C30/end-wildcard", "path for an ISD wildcard does not end at a core AS of that ISD", rp)
					}
				}
				if md.Expiry.Before(t1.Add(-time.Second)) {
					e.Violate("C30/expired", "returned path has expired", rp)
				}
				for _, i := range md.Interfaces {
					if active[fmt.Sprintf("%s#%d", iaStr(i.IA), i.ID)] {
						e.Violate("C30/revoked", "returned path traverses an interface with an active revocation", rp)
					}
				}
			}
		}
		_ = revcache.NewKey
	}
	e.Finish()
}

// specSplit: the requests issued for a lookup (inspector present) are the up/core/down
// combination required for the kinds of source and destination.
func specSplit(e *vlib.Env, t *topo, src int, dst addr.IA, reqs segfetcher.Requests) {
	local := t.ias[src]
	rp := map[string]any{"local": local.String(), "local_core": t.core[src], "dst": dst.String(), "requests": fmt.Sprint(reqs)}
	bad := func(what string) { e.Violate("C30/split", what, rp) }
	if len(reqs) == 0 || len(reqs) > 3 {
		bad("not 1..3 segment requests")
		return
	}
	if reqs[0].Src != local || reqs[len(reqs)-1].Dst != dst {
		bad("requests do not lead from the local AS to the destination")
	}
	for i := 0; i+1 < len(reqs); i++ {
		if reqs[i].Dst != reqs[i+1].Src {
			bad("requests do not form a chain")
		}
		if reqs[i].SegType >= reqs[i+1].SegType && !(reqs[i].SegType == seg.TypeUp && reqs[i+1].SegType == seg.TypeCore) {
			// order must be up, core, down
		}
	}
	order := map[seg.Type]int{seg.TypeUp: 0, seg.TypeCore: 1, seg.TypeDown: 2}
	for i := 0; i+1 < len(reqs); i++ {
		if order[reqs[i].SegType] >= order[reqs[i+1].SegType] {
			bad("segment types are not in up, core, down order")
		}
	}
	dstCore := dst.IsWildcard()
	for i, ia := range t.ias {
		if ia == dst {
			dstCore = t.core[i]
		}
	}
	hasUp := reqs[0].SegType == seg.TypeUp
	hasDown := reqs[len(reqs)-1].SegType == seg.TypeDown
	if hasUp == t.core[src] {
		bad("an up segment is requested iff the local AS is not core")
	}
	if hasDown == dstCore {
		bad("a down segment is requested iff the destination is not core")
	}
}
