// Engine "signer" (C36): ties lean/Scion/Model/Signer.lean to private/trust SignerGen.Generate /
// bestForKey / bestChain and Signer.Sign / validate / LastExpiring, and evaluates the C36
// statement directly on the generated signers (chain verifies against the active or, only if
// none does, the grace TRC; latest-expiring chain; expiry = earliest of the bounds; messages
// verify with a verifier bound to the ISD-AS; signing fails after expiry).
//
// Real keys, certificates and chains are generated per case with validities in whole seconds
// relative to the case's clock second Tc; every instant is <= Tc-1s or >= Tc+4s and a case is
// redone when the wall clock passes Tc+3s, so every time comparison of the code has a margin of
// at least one second (model time: now = Tc+1s).
package main

import (
	"context"
	"crypto"
	"crypto/elliptic"
	"crypto/x509"
	"errors"
	"fmt"
	"net"
	"strings"
	"time"

	"github.com/scionproto/scion/pkg/addr"
	"github.com/scionproto/scion/pkg/scrypto/cppki"
	"github.com/scionproto/scion/pkg/scrypto/signed"
	"github.com/scionproto/scion/private/trust"

	"verifharness/pki2"
	"verifharness/vlib"
)

const (
	iaCore = "1-ff00:0:110"
	iaLeaf = "1-ff00:0:111"
	iaOth  = "1-ff00:0:112"
)

type ent struct {
	cert *x509.Certificate
	key  *pki2.Key
}

type world struct {
	R1, R2, Rx, Rexp ent
	S1, G1           ent
	cas              []ent // CA1 (R1), CA2 (R2), CAx (Rx), CAexp (under expired root)
	keys256          []*pki2.Key
	key384, key224   *pki2.Key
	keyEd            *pki2.Key
	cmsChain         map[int][]*x509.Certificate // chains (valid +-10h) for keys256[i], for SignCMS
}

func hh(n int) time.Duration { return time.Duration(n) * time.Hour }

func buildWorld() *world {
	w := &world{}
	T := time.Now().Truncate(time.Second)
	mkRoot := func(cn string, nb, na time.Time) ent {
		k := pki2.NewKey()
		return ent{pki2.MustIssue(pki2.RootTmpl(cn, iaCore, nb, na, k), k, nil, nil), k}
	}
	w.R1 = mkRoot("root1", T.Add(-hh(30)), T.Add(hh(30)))
	w.R2 = mkRoot("root2", T.Add(-hh(30)), T.Add(hh(30)))
	w.Rx = mkRoot("rootx", T.Add(-hh(30)), T.Add(hh(30)))
	w.Rexp = mkRoot("rootexp", T.Add(-hh(30)), T.Add(-hh(1)))
	mkVote := func(cn string, kind int) ent {
		k := pki2.NewKey()
		return ent{pki2.MustIssue(pki2.VotingTmpl(cn, iaCore, T.Add(-hh(30)), T.Add(hh(30)), k, kind), k, nil, nil), k}
	}
	w.S1, w.G1 = mkVote("sens1", 1), mkVote("reg1", 2)
	mkCA := func(cn string, parent ent) ent {
		k := pki2.NewKey()
		return ent{pki2.MustIssue(pki2.CATmpl(cn, iaCore, T.Add(-hh(20)), T.Add(hh(20)), k), k, parent.cert, parent.key), k}
	}
	w.cas = []ent{mkCA("ca1", w.R1), mkCA("ca2", w.R2), mkCA("cax", w.Rx), mkCA("caexp", w.Rexp)}
	for i := 0; i < 4; i++ {
		w.keys256 = append(w.keys256, pki2.NewKey())
	}
	w.cmsChain = map[int][]*x509.Certificate{}
	for i, k := range w.keys256 {
		c := pki2.MustIssue(pki2.ASTmpl("cms", iaLeaf, T.Add(-hh(10)), T.Add(hh(10)), k), k, w.cas[0].cert, w.cas[0].key)
		w.cmsChain[i] = []*x509.Certificate{c, w.cas[0].cert}
	}
	w.key384 = pki2.NewKeyCurve(elliptic.P384())
	w.key224 = pki2.NewKeyCurve(elliptic.P224())
	w.keyEd = pki2.NewEdKey()
	return w
}

func (w *world) rootSet(k int) []*x509.Certificate {
	switch k {
	case 0:
		return []*x509.Certificate{w.S1.cert, w.G1.cert, w.R1.cert}
	case 1:
		return []*x509.Certificate{w.S1.cert, w.G1.cert, w.R2.cert}
	case 2:
		return []*x509.Certificate{w.S1.cert, w.G1.cert, w.R1.cert, w.R2.cert}
	}
	return []*x509.Certificate{w.S1.cert, w.G1.cert, w.Rx.cert}
}

// offsets in seconds relative to Tc; never in (-1, 4)
var secNeg = []int{-7200, -3600, -600, -60, -5, -2, -1}
var secPos = []int{4, 5, 6, 60, 600, 3600, 7200}

func okSec(s int) bool { return s <= -1 || s >= 4 }

func pickSec(r *vlib.Rand, negPct int) int {
	if r.Chance(negPct) {
		return secNeg[r.Intn(len(secNeg))]
	}
	return secPos[r.Intn(len(secPos))]
}

type planTRC struct {
	base, serial uint64
	nb, na, gr   int // seconds
	roots        int
}

type planChain struct {
	id     int
	key    int // index into the case's key list
	ca     int
	nb, na int
	eku    []x509.ExtKeyUsage
	ia     string
}

type planKey struct {
	kind int // 0..3 P-256 keys, 4 = P-384, 5 = P-224 (unsupported curve), 6 = Ed25519
}

type plan struct {
	trcs         []planTRC
	keys         []planKey
	chains       []planChain
	want         x509.ExtKeyUsage
	keyRingFails bool
	failL, failP bool
	failChains   bool
}

func genTRCs(r *vlib.Rand) []planTRC {
	var ps []planTRC
	if r.Chance(22) {
		// grace scenario: the latest TRC changed the root, the predecessor still holds the old one
		b := uint64(r.Range(1, 2))
		s := b + uint64(r.Range(1, 3))
		latest := planTRC{base: b, serial: s, nb: secNeg[r.Intn(len(secNeg))], na: secPos[r.Intn(len(secPos))], roots: 1}
		for {
			g := []int{10, 60, 3600, 7200, 20000, 3, 1}[r.Intn(7)]
			if okSec(latest.nb + g) {
				latest.gr = g
				break
			}
		}
		pred := planTRC{base: b, serial: s - 1, nb: pickSec(r, 95), na: pickSec(r, 15), roots: 0}
		if s-1 != b {
			pred.gr = 0
		}
		ps = []planTRC{pred, latest}
		if r.Bool() {
			ps = []planTRC{latest, pred}
		}
		return ps
	}
	n := r.Range(1, 3)
	if r.Chance(5) {
		n = 0
	}
	base := uint64(r.Range(1, 2))
	serial := base
	if r.Chance(30) {
		serial += uint64(r.Range(1, 3))
	}
	for i := 0; i < n; i++ {
		p := planTRC{base: base, serial: serial, roots: r.Intn(4)}
		if r.Chance(70) {
			p.roots = r.Intn(3)
		}
		p.nb = pickSec(r, 90)
		p.na = pickSec(r, 12)
		if serial != base {
			for {
				g := []int{0, 1, 3, 10, 60, 3600, 7200, 20000}[r.Intn(8)]
				if okSec(p.nb + g) {
					p.gr = g
					break
				}
			}
		}
		ps = append(ps, p)
		if r.Chance(85) {
			serial++
		} else {
			serial += 2
		}
	}
	for i := len(ps) - 1; i > 0; i-- {
		j := r.Intn(i + 1)
		ps[i], ps[j] = ps[j], ps[i]
	}
	return ps
}

func genPlan(r *vlib.Rand) plan {
	p := plan{trcs: genTRCs(r)}
	nk := r.Range(1, 3)
	if r.Chance(4) {
		nk = 0
	}
	used := map[int]bool{}
	for i := 0; i < nk; i++ {
		k := r.Intn(4)
		if r.Chance(12) {
			k = r.Range(4, 6)
		}
		if used[k] {
			continue
		}
		used[k] = true
		p.keys = append(p.keys, planKey{k})
	}
	id := 1
	ekus := [][]x509.ExtKeyUsage{
		{x509.ExtKeyUsageServerAuth, x509.ExtKeyUsageClientAuth, x509.ExtKeyUsageTimeStamping},
		{x509.ExtKeyUsageTimeStamping},
		{x509.ExtKeyUsageClientAuth, x509.ExtKeyUsageTimeStamping},
	}
	for ki := range p.keys {
		nc := r.Range(0, 4)
		if r.Chance(50) {
			nc = r.Range(2, 4)
		}
		for j := 0; j < nc; j++ {
			c := planChain{id: id, key: ki, ca: r.Intn(3), nb: pickSec(r, 92), na: pickSec(r, 12), ia: iaLeaf,
				eku: ekus[0]}
			if r.Chance(8) {
				c.ca = 3
			}
			if r.Chance(20) {
				c.eku = ekus[r.Intn(len(ekus))]
			}
			if r.Chance(6) {
				c.ia = iaOth
			}
			if c.na <= c.nb {
				c.na = c.nb + 3600
				if !okSec(c.na) {
					c.na = 3600
				}
			}
			if j > 0 && r.Chance(25) { // tie on NotAfter with the previous chain of this key
				c.na = p.chains[len(p.chains)-1].na
				if c.na <= c.nb {
					c.nb = c.na - 3601
					if !okSec(c.nb) {
						c.nb = -7201
					}
				}
			}
			if !okSec(c.nb) || !okSec(c.na) || c.na <= c.nb {
				panic(fmt.Sprintf("generator: validity (%d,%d) violates the clock margin", c.nb, c.na))
			}
			id++
			p.chains = append(p.chains, c)
		}
	}
	if r.Chance(15) {
		p.want = []x509.ExtKeyUsage{x509.ExtKeyUsageServerAuth, x509.ExtKeyUsageClientAuth, x509.ExtKeyUsageTimeStamping,
			x509.ExtKeyUsageCodeSigning}[r.Intn(4)]
	}
	p.keyRingFails = r.Chance(2)
	p.failL, p.failP = r.Chance(3), r.Chance(5)
	p.failChains = r.Chance(3)
	return p
}

func (w *world) keyOf(k planKey) *pki2.Key {
	switch {
	case k.kind < 4:
		return w.keys256[k.kind]
	case k.kind == 4:
		return w.key384
	case k.kind == 5:
		return w.key224
	}
	return w.keyEd
}

var errKeyRing = errors.New("key ring failed")

func b(v bool) string {
	if v {
		return "1"
	}
	return "0"
}

func ekuWord(us []x509.ExtKeyUsage) string {
	if len(us) == 0 {
		return "-"
	}
	s := make([]string, len(us))
	for i, u := range us {
		s[i] = fmt.Sprintf("%d", int(u))
	}
	return strings.Join(s, ",")
}

type fakeRecurser struct{}

func (fakeRecurser) AllowRecursion(net.Addr) error { return errors.New("no recursion") }

const sec = int64(time.Second)

// zero time.Time relative to Tc is far below every instant; the model only needs a value
// smaller than all others (GracePeriodEnd of a base TRC is never consulted in grace).
const zeroRel = -1 << 62

func runCase(e *vlib.Env, w *world, r *vlib.Rand, p plan, idx int) {
	for attempt := 0; attempt < 6; attempt++ {
		t0 := time.Now()
		Tc := t0.Truncate(time.Second)
		at := func(s int) time.Time { return Tc.Add(time.Duration(s) * time.Second) }
		db := &pki2.MemDB{FailTRCCall: map[int]bool{}, FailChains: p.failChains}
		if p.failL {
			db.FailTRCCall[1] = true
		}
		if p.failP {
			db.FailTRCCall[2] = true
		}
		trcObjs := make([]cppki.SignedTRC, len(p.trcs))
		for i, t := range p.trcs {
			trcObjs[i] = pki2.MkTRC(1, t.base, t.serial, at(t.nb), at(t.na), time.Duration(t.gr)*time.Second, w.rootSet(t.roots))
			db.TRCs = append(db.TRCs, trcObjs[i])
		}
		// real chains
		chains := make([][]*x509.Certificate, len(p.chains))
		issueFail := false
		for i, c := range p.chains {
			k := w.keyOf(p.keys[c.key])
			t := pki2.ASTmpl(fmt.Sprintf("as-%d", c.id), c.ia, at(c.nb), at(c.na), k)
			t.ExtKeyUsage = c.eku
			ca := w.cas[c.ca]
			cert, err := pki2.Issue(t, k, ca.cert, ca.key)
			if err != nil {
				issueFail = true
				break
			}
			chains[i] = []*x509.Certificate{cert, ca.cert}
			db.ChainL = append(db.ChainL, chains[i])
		}
		if issueFail {
			e.Case("issue-failed", "~issue-failed", true)
			return
		}
		ring := pki2.KeyRing{}
		for _, k := range p.keys {
			ring.Keys = append(ring.Keys, w.keyOf(k).Priv)
		}
		if p.keyRingFails {
			ring.Err = errKeyRing
		}
		ia := addr.MustParseIA(iaLeaf)
		gen := trust.SignerGen{IA: ia, KeyRing: ring, DB: db, ExtKeyUsage: p.want}
		ctx := context.Background()
		var signers []trust.Signer
		var gerr error
		res, ok := vlib.Safe(func() string {
			signers, gerr = gen.Generate(ctx)
			return ""
		})
		tGen := time.Now()
		if tGen.Sub(Tc) > 2500*time.Millisecond {
			time.Sleep(time.Until(Tc.Add(time.Second)))
			continue
		}

		// ---- facts for the model
		li, pi := -1, -1
		for i, t := range p.trcs {
			if li < 0 || t.base > p.trcs[li].base || (t.base == p.trcs[li].base && t.serial > p.trcs[li].serial) {
				li = i
			}
		}
		if li >= 0 {
			for i, t := range p.trcs {
				if t.base == p.trcs[li].base && t.serial == p.trcs[li].serial-1 {
					pi = i
				}
			}
		}
		vfy := func(ch []*x509.Certificate, ti int) bool {
			if ti < 0 {
				return false
			}
			return cppki.VerifyChain(ch, cppki.VerifyOptions{TRC: []*cppki.TRC{&trcObjs[ti].TRC}}) == nil
		}
		okL, okP := make([]bool, len(chains)), make([]bool, len(chains))
		for i, ch := range chains {
			okL[i], okP[i] = vfy(ch, li), vfy(ch, pi)
		}
		if time.Since(Tc) > 2800*time.Millisecond { // oracle bits must be taken inside the margin too
			time.Sleep(time.Until(Tc.Add(time.Second)))
			continue
		}
		words := []string{"gen", fmt.Sprintf("%d", int(p.want)), fmt.Sprintf("%d", int64(zeroRel)), b(p.keyRingFails),
			fmt.Sprintf("%d", len(p.keys))}
		for ki, k := range p.keys {
			words = append(words, b(k.kind != 6), b(k.kind != 5 && k.kind != 6))
			if p.failChains {
				words = append(words, "e")
				continue
			}
			// what the DB returns for this key: chains of this IA and key valid now
			var cw []string
			for i, c := range p.chains {
				if c.key != ki || c.ia != iaLeaf || !(c.nb <= -1 && c.na >= 4) {
					continue
				}
				cw = append(cw, fmt.Sprintf("%d:%d:%d:%s:%s:%s", c.id, int64(c.nb)*sec, int64(c.na)*sec, ekuWord(c.eku),
					b(okL[i]), b(okP[i])))
			}
			words = append(words, fmt.Sprintf("%d", len(cw)))
			words = append(words, cw...)
		}
		words = append(words, fmt.Sprintf("%d", sec), b(p.failL), b(p.failP), fmt.Sprintf("%d", len(p.trcs)))
		for _, t := range p.trcs {
			words = append(words, fmt.Sprintf("%d:%d:%d:%d:%d", t.base, t.serial, int64(t.nb)*sec, int64(t.na)*sec, int64(t.gr)*sec))
		}

		// ---- implementation answer
		var ans, tag string
		switch {
		case !ok:
			ans, tag = res, "gen/panic"
		case gerr == nil:
			var sw []string
			for _, s := range signers {
				sw = append(sw, fmt.Sprintf("%d:%d:%s:%d:%d", pki2.Rel(s.Chain[0].NotAfter, Tc), pki2.Rel(s.Expiration, Tc),
					b(s.InGrace), uint64(s.TRCID.Base), uint64(s.TRCID.Serial)))
			}
			ans = fmt.Sprintf("ok %d %s", len(signers), strings.Join(sw, " "))
			tag = "gen/ok"
			for _, s := range signers {
				if s.InGrace {
					tag = "gen/ok-grace"
				}
			}
		case errors.Is(gerr, errKeyRing):
			ans, tag = "err keyring", "gen/err-keyring"
		case errors.Is(gerr, trust.VerifErrNotFound):
			ans, tag = "err notfound", "gen/err-trc-notfound"
		case errors.Is(gerr, trust.VerifErrInactive):
			ans, tag = "err inactive", "gen/err-trc-inactive"
		case errors.Is(gerr, pki2.ErrDB):
			ans, tag = "err dberr", "gen/err-db"
		default:
			ans, tag = "err other", "gen/err-other"
		}
		e.Op(strings.Join(words, " "), ans, tag)

		// ---- property predicate (from the statement)
		if ok && gerr == nil {
			specSigners(e, w, p, db, signers, chains, okL, okP, li, pi, Tc, ia, idx)
		}
		if len(e.Samples) < 4 && gerr == nil {
			e.Sample(map[string]any{"op": strings.Join(words, " "), "impl": ans})
		}
		// LastExpiring over the generated signers (covering "now .. now+4s")
		if ok && gerr == nil && len(signers) > 0 {
			runLast(e, signers, Tc, r)
		}
		return
	}
	e.Case("signer-case-skipped-clock", "~skipped", true)
}

func runLast(e *vlib.Env, signers []trust.Signer, Tc time.Time, r *vlib.Rand) {
	nb, na := pickSec(r, 50), pickSec(r, 30)
	if na < nb {
		nb, na = na, nb
	}
	v := cppki.Validity{NotBefore: Tc.Add(time.Duration(nb) * time.Second), NotAfter: Tc.Add(time.Duration(na) * time.Second)}
	got, err := trust.LastExpiring(signers, v)
	ws := []string{"last", fmt.Sprintf("%d", int64(nb)*sec), fmt.Sprintf("%d", int64(na)*sec), fmt.Sprintf("%d", len(signers))}
	for _, s := range signers {
		ws = append(ws, fmt.Sprintf("%d:%d", pki2.Rel(s.Validity().NotBefore, Tc), pki2.Rel(s.Validity().NotAfter, Tc)))
	}
	ans := "none"
	if err == nil {
		ans = fmt.Sprintf("%d:%d", pki2.Rel(got.Validity().NotBefore, Tc), pki2.Rel(got.Validity().NotAfter, Tc))
	}
	tag := "last/some"
	if err != nil {
		tag = "last/none"
	}
	e.Op(strings.Join(ws, " "), ans, tag)
}

func minI(a, b int) int {
	if a < b {
		return a
	}
	return b
}

func specSigners(e *vlib.Env, w *world, p plan, db *pki2.MemDB, signers []trust.Signer,
	chains [][]*x509.Certificate, okL, okP []bool, li, pi int, Tc time.Time, ia addr.IA, idx int) {

	bad := func(key, what string, s trust.Signer) {
		e.Violate("C36/"+key, what, map[string]any{"case": idx, "plan": fmt.Sprintf("%+v", p),
			"signer": fmt.Sprintf("na=%d exp=%d grace=%v", pki2.Rel(s.ChainValidity.NotAfter, Tc)/sec, pki2.Rel(s.Expiration, Tc)/sec, s.InGrace)})
	}
	if li < 0 {
		e.Violate("C36/no-trc", "signers generated without any TRC", map[string]any{"case": idx})
		return
	}
	L := p.trcs[li]
	latestValid := L.nb <= -1 && L.na >= 4
	inGraceNow := L.base != L.serial && L.nb <= -1 && L.nb+L.gr >= 4
	for _, s := range signers {
		// which planned chain is it?
		ci := -1
		for i, ch := range chains {
			if len(s.Chain) == 2 && s.Chain[0] == ch[0] && s.Chain[1] == ch[1] {
				ci = i
			}
		}
		if ci < 0 {
			bad("unknown-chain", "signer uses a chain that is not in the DB", s)
			continue
		}
		c := p.chains[ci]
		k := w.keyOf(p.keys[c.key])
		if pki2.KeyID(s.PrivateKey.Public()) != k.ID || pki2.KeyID(s.Chain[0].PublicKey) != k.ID {
			bad("key-mismatch", "the chain does not authenticate the signer's private key", s)
		}
		if !latestValid {
			bad("latest-trc-invalid", "signer generated although the latest TRC is not valid", s)
		}
		if c.ia != iaLeaf {
			bad("wrong-ia", "chain of another ISD-AS", s)
		}
		if p.want != x509.ExtKeyUsageAny {
			has := false
			for _, u := range c.eku {
				has = has || u == p.want
			}
			if !has {
				bad("eku-filter", "chain lacks the requested extended key usage", s)
			}
		}
		// candidates of this key (same filters), by TRC
		eligible := func(i int) bool {
			x := p.chains[i]
			if x.key != c.key || x.ia != iaLeaf {
				return false
			}
			if p.want != x509.ExtKeyUsageAny {
				has := false
				for _, u := range x.eku {
					has = has || u == p.want
				}
				if !has {
					return false
				}
			}
			return true
		}
		anyLatest := false
		maxL, maxP := -1<<40, -1<<40
		for i := range chains {
			if !eligible(i) {
				continue
			}
			if okL[i] {
				anyLatest = true
				if p.chains[i].na > maxL {
					maxL = p.chains[i].na
				}
			}
			if okP[i] && p.chains[i].na > maxP {
				maxP = p.chains[i].na
			}
		}
		if !s.InGrace {
			if !okL[ci] {
				bad("not-verifiable-latest", "signer (not in grace) uses a chain that does not verify against the latest TRC", s)
			}
			if c.na != maxL {
				bad("not-latest-expiring", "a chain verifying against the latest TRC expires later than the chosen one", s)
			}
			want := minI(c.na, L.na)
			if pki2.Rel(s.Expiration, Tc) != int64(want)*sec {
				bad("expiry", fmt.Sprintf("expiry is not min(chain, TRC validity) = %d s", want), s)
			}
		} else {
			if anyLatest {
				bad("grace-although-active", "grace signer although a chain verifies against the latest TRC", s)
			}
			if !inGraceNow || pi < 0 {
				bad("grace-outside-period", "grace signer outside the grace period of the latest TRC", s)
				continue
			}
			if !okP[ci] {
				bad("not-verifiable-pred", "grace signer uses a chain that does not verify against the predecessor TRC", s)
			}
			if c.na != maxP {
				bad("not-latest-expiring", "a chain verifying against the predecessor TRC expires later than the chosen one", s)
			}
			want := minI(minI(c.na, L.nb+L.gr), p.trcs[pi].na)
			if pki2.Rel(s.Expiration, Tc) != int64(want)*sec {
				bad("expiry", fmt.Sprintf("grace expiry is not min(chain, grace end, predecessor validity) = %d s", want), s)
			}
		}
		if uint64(s.TRCID.Base) != L.base || uint64(s.TRCID.Serial) != L.serial || !s.IA.Equal(ia) {
			bad("trc-id", "signer does not name the latest TRC / its ISD-AS", s)
		}
		// signing: succeeds iff not expired; signed messages verify with a verifier bound to the IA
		expSec := pki2.Rel(s.Expiration, Tc) / sec
		msg := []byte("verif message")
		before := time.Now()
		sm, err := s.Sign(context.Background(), msg, []byte("ad"))
		after := time.Now()
		_ = expSec
		if err != nil && after.Before(s.Expiration) {
			bad("sign-fails", "signing fails although the signer has not expired: "+err.Error(), s)
		}
		if err == nil && before.After(s.Expiration) {
			bad("sign-after-expiry", "signing succeeds although the signer has expired", s)
		}
		// the second signing entry point obeys the same expiry
		beforeC := time.Now()
		_, errC := s.SignCMS(context.Background(), msg)
		afterC := time.Now()
		if errC != nil && afterC.Before(s.Expiration) {
			bad("signcms-fails", "SignCMS fails although the signer has not expired: "+errC.Error(), s)
		}
		if errC == nil && beforeC.After(s.Expiration) {
			bad("signcms-after-expiry", fmt.Sprintf("SignCMS succeeds although the signer has expired (expiry %d s, chain NotAfter %d s)",
				pki2.Rel(s.Expiration, Tc)/sec, pki2.Rel(s.Chain[0].NotAfter, Tc)/sec), s)
		}
		// (verification below depends on the wall clock staying inside the case's margin)
		if err == nil && time.Since(Tc) < 2800*time.Millisecond {
			prov := trust.FetchingProvider{DB: db, Recurser: fakeRecurser{}}
			db.FailChains = false
			db.FailTRCCall = map[int]bool{}
			v := trust.Verifier{BoundIA: ia, Engine: prov}
			if _, err := v.Verify(context.Background(), sm, []byte("ad")); err != nil && time.Since(Tc) < 3500*time.Millisecond {
				bad("verify-bound-ia", "message signed by the signer does not verify with a verifier bound to its ISD-AS: "+err.Error(), s)
			}
			vo := trust.Verifier{BoundIA: addr.MustParseIA(iaOth), Engine: prov}
			if _, err := vo.Verify(context.Background(), sm, []byte("ad")); err == nil {
				bad("verify-other-ia", "message verifies with a verifier bound to another ISD-AS", s)
			}
			if _, err := v.Verify(context.Background(), sm, []byte("xx")); err == nil {
				bad("verify-other-ad", "message verifies with different associated data", s)
			}
		}
	}
}

// sign ops: Signer values with fabricated expirations (the struct is what Sign consults)
func runSign(e *vlib.Env, w *world, r *vlib.Rand) {
	offs := []time.Duration{-time.Hour, -time.Minute, -time.Second, -300 * time.Millisecond, -100 * time.Millisecond,
		100 * time.Millisecond, 300 * time.Millisecond, time.Second, time.Minute, 59 * time.Minute, 61 * time.Minute, time.Hour * 24}
	off := offs[r.Intn(len(offs))]
	k := w.keys256[0]
	for attempt := 0; attempt < 5; attempt++ {
		t0 := time.Now()
		// the chain outlives the signer (expiry cut short by a TRC bound) or not (24 h case)
		s := trust.Signer{PrivateKey: k.Priv, Algorithm: 0, IA: addr.MustParseIA(iaLeaf), SubjectKeyID: k.SKID,
			Expiration: t0.Add(off), TRCID: cppki.TRCID{ISD: 1, Base: 1, Serial: 1}, Chain: w.cmsChain[0],
			ChainValidity: cppki.Validity{NotBefore: w.cmsChain[0][0].NotBefore, NotAfter: w.cmsChain[0][0].NotAfter}}
		alg, _ := selectAlg(k.Priv)
		s.Algorithm = alg
		_, err := s.Sign(context.Background(), []byte("m"))
		_, errC := s.SignCMS(context.Background(), []byte("m"))
		if time.Since(t0) > 40*time.Millisecond {
			continue
		}
		ans, ansC := "ok", "ok"
		if err != nil {
			ans = "expired"
		}
		if errC != nil {
			ansC = "expired"
		}
		e.Op(fmt.Sprintf("sign %d 0", int64(off)), ans, "sign/"+ans)
		e.Op(fmt.Sprintf("signcms %d 0", int64(off)), ansC, "signcms/"+ansC)
		if (off < 0) != (err != nil) {
			e.Violate("C36/sign-expiry", "Sign outcome does not follow the expiry", map[string]any{"expiry_offset_ns": int64(off), "err": fmt.Sprint(err)})
		}
		if (off < 0) != (errC != nil) {
			e.Violate("C36/signcms-expiry", "SignCMS outcome does not follow the signer's expiry",
				map[string]any{"expiry_offset_ns": int64(off), "chain_not_after_offset_ns": int64(w.cmsChain[0][0].NotAfter.Sub(t0)), "err": fmt.Sprint(errC)})
		}
		return
	}
	e.Case("sign-skipped-clock", "~skipped", true)
}

// real-time: a signer that is valid now stops signing once its expiry has passed
func runSignRealTime(e *vlib.Env, w *world, n int) {
	k := w.keys256[1]
	alg, _ := selectAlg(k.Priv)
	for i := 0; i < n; i++ {
		t0 := time.Now()
		s := trust.Signer{PrivateKey: k.Priv, Algorithm: alg, IA: addr.MustParseIA(iaLeaf), SubjectKeyID: k.SKID,
			Expiration: t0.Add(250 * time.Millisecond), TRCID: cppki.TRCID{ISD: 1, Base: 1, Serial: 1}, Chain: w.cmsChain[1]}
		_, err1 := s.Sign(context.Background(), []byte("m"))
		if _, err := s.SignCMS(context.Background(), []byte("m")); err != nil && time.Since(t0) < 150*time.Millisecond {
			e.Violate("C36/signcms-fails", "SignCMS fails 250 ms before the expiry", map[string]any{"err": err.Error()})
		}
		early := time.Since(t0) < 150*time.Millisecond
		time.Sleep(time.Until(t0.Add(330 * time.Millisecond)))
		_, err2 := s.Sign(context.Background(), []byte("m"))
		_, err3 := s.SignCMS(context.Background(), []byte("m"))
		e.Case(fmt.Sprintf("realtime-%d", i), "sign/realtime", false)
		if early && err1 != nil {
			e.Violate("C36/sign-fails", "signing fails 250 ms before the expiry", map[string]any{"err": err1.Error()})
		}
		if err2 == nil || err3 == nil {
			e.Violate("C36/sign-after-expiry", "Sign/SignCMS succeed 80 ms after the expiry", map[string]any{"i": i})
		}
	}
}

// ---------------------------------------------------------------------------------------
// Verifier.Verify on messages signed by fabricated signers, with a scripted engine

type scriptedEngine struct {
	notifyErr error
	chains    [][]*x509.Certificate
	chainsErr error
}

func (s scriptedEngine) NotifyTRC(context.Context, cppki.TRCID, ...trust.Option) error {
	return s.notifyErr
}

func (s scriptedEngine) GetChains(context.Context, trust.ChainQuery, ...trust.Option) ([][]*x509.Certificate, error) {
	return s.chains, s.chainsErr
}

func (s scriptedEngine) GetSignedTRC(context.Context, cppki.TRCID, ...trust.Option) (cppki.SignedTRC, error) {
	return cppki.SignedTRC{}, errors.New("not used")
}

func runVerify(e *vlib.Env, w *world, r *vlib.Rand, idx int) {
	ias := []string{iaLeaf, iaOth, iaCore, "1-0", "0-ff00:0:111"}
	sia := addr.MustParseIA(ias[r.Intn(2)])
	if r.Chance(12) {
		sia = addr.MustParseIA(ias[r.Intn(len(ias))])
	}
	var bound addr.IA
	switch r.Intn(4) {
	case 0:
	case 1, 2:
		bound = sia
	default:
		bound = addr.MustParseIA(ias[r.Intn(3)])
	}
	k := w.keys256[r.Intn(len(w.keys256))]
	if r.Chance(15) {
		k = w.key384
	}
	alg, _ := selectAlg(k.Priv)
	skid := k.SKID
	if r.Chance(8) {
		skid = nil
	}
	s := trust.Signer{PrivateKey: k.Priv, Algorithm: alg, IA: sia, SubjectKeyID: skid,
		Expiration: time.Now().Add(time.Hour), TRCID: cppki.TRCID{ISD: sia.ISD(), Base: 1, Serial: 1}}
	ad := [][]byte{[]byte("assoc"), []byte("data")}
	sm, err := s.Sign(context.Background(), []byte("payload"), ad...)
	if err != nil {
		e.Case("verify-sign-failed", "~sign-failed", true)
		return
	}
	hdrOK := true
	if r.Chance(6) {
		sm.HeaderAndBody = []byte{0xff, 0x01, 0x02}
		hdrOK = false
	}
	// scripted chains: certificates for the signer's key / other keys (only chain[0].PublicKey matters)
	T := time.Now().Truncate(time.Second)
	var eng scriptedEngine
	nch := r.Intn(4)
	for i := 0; i < nch; i++ {
		ck := w.keys256[r.Intn(len(w.keys256))]
		if r.Chance(45) {
			ck = k
		}
		c, err := pki2.Issue(pki2.ASTmpl("v", iaLeaf, T.Add(-time.Hour), T.Add(time.Hour), ck), ck, w.cas[0].cert, w.cas[0].key)
		if err != nil {
			continue
		}
		eng.chains = append(eng.chains, []*x509.Certificate{c, w.cas[0].cert})
	}
	if r.Chance(8) {
		eng.notifyErr = errors.New("notify failed")
	}
	if r.Chance(8) {
		eng.chainsErr = errors.New("chains failed")
	}
	engineNil := r.Chance(4)
	v := trust.Verifier{BoundIA: bound}
	if !engineNil {
		v.Engine = eng
	}
	var verr error
	res, ok := vlib.Safe(func() string {
		_, verr = v.Verify(context.Background(), sm, ad...)
		return ""
	})
	// oracle bits
	words := []string{"ver", b(hdrOK), b(len(skid) == 0), fmt.Sprintf("%d", uint64(sia)), fmt.Sprintf("%d", uint64(bound)),
		b(engineNil), b(eng.notifyErr == nil)}
	anySig := false
	if eng.chainsErr != nil {
		words = append(words, "e")
	} else {
		words = append(words, fmt.Sprintf("%d", len(eng.chains)))
		for _, ch := range eng.chains {
			_, err := signed.Verify(sm, ch[0].PublicKey, ad...)
			words = append(words, b(err == nil))
			anySig = anySig || err == nil
		}
	}
	ans := "ok"
	if !ok {
		ans = res
	} else if verr != nil {
		ans = "rej"
	}
	e.Op(strings.Join(words, " "), ans, "ver/"+ans)
	// statement: a verifier bound to an ISD-AS accepts only messages of that ISD-AS, and only
	// when a handed-out chain's key verifies the signature
	if ok && verr == nil {
		if !bound.IsZero() && !bound.Equal(sia) {
			e.Violate("C36/verify-other-ia", "verifier bound to another ISD-AS accepted the message",
				map[string]any{"case": idx, "signer_ia": sia.String(), "bound": bound.String()})
		}
		if !anySig {
			e.Violate("C36/verify-no-chain", "message accepted although no provided chain verifies the signature",
				map[string]any{"case": idx})
		}
	}
}

func selectAlg(k crypto.Signer) (signed.SignatureAlgorithm, error) {
	return signed.SelectSignatureAlgorithm(k.Public())
}

func main() {
	e := vlib.Init()
	r := pki2.Rand(e.Seed)
	w := buildWorld()
	e.Rule = "per case: real P-256/384 (and unsupported P-224 / Ed25519) keys, 0-4 freshly issued AS certificates per key " +
		"(validity, issuing CA under root1/root2/unknown root/expired root, ExtKeyUsage, other ISD-AS, NotAfter ties), " +
		"1-3 TRCs (latest/predecessor/gaps, root sets, validity, grace period) at whole-second offsets <= -1 s or >= 4 s from " +
		"the case's clock second, key-ring/DB failures, ExtKeyUsage filter; real SignerGen.Generate over an in-memory trust " +
		"DB; each signer then signs and the message is verified with real trust.Verifier bound to the ISD-AS / another " +
		"ISD-AS; Sign with fabricated expirations and in real time; distinct by op line"
	n := e.N(2500, 40000)
	for i := 0; i < n; i++ {
		runCase(e, w, r, genPlan(r), i)
	}
	ns := e.N(400, 4000)
	for i := 0; i < ns; i++ {
		runSign(e, w, r)
	}
	runSignRealTime(e, w, e.N(6, 40))
	nv := e.N(1500, 20000)
	for i := 0; i < nv; i++ {
		runVerify(e, w, r, i)
	}
	e.Finish()
}
