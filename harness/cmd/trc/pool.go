// Certificate / key pool for the TRC engines: REAL X.509 certificates of every class, made with
// crypto/x509 and fresh ECDSA keys at run time (nothing is read from disk or the network).
package main

import (
	"crypto"
	"crypto/ecdsa"
	"crypto/elliptic"
	"crypto/rand"
	"crypto/x509"
	"crypto/x509/pkix"
	"encoding/asn1"
	"fmt"
	"math/big"
	"time"

	"github.com/scionproto/scion/pkg/scrypto/cppki"
)

// T0 is the time origin of all generated validities (no code under test reads the wall clock).
var T0 = time.Date(2030, 1, 1, 0, 0, 0, 0, time.UTC)

func sec(n int) time.Time { return T0.Add(time.Duration(n) * time.Second) }

type kind int

const (
	kSens kind = iota
	kReg
	kRoot
	kCA
	kAS
	kBadBoth   // id-kp-sensitive and id-kp-regular together: ValidateCert fails
	kBadSigUse // sensitive voting certificate with key usage digitalSignature: ValidateCert fails
)

// pc is a pool certificate together with its private key.
type pc struct {
	Cert *x509.Certificate
	Key  crypto.Signer
	Kind kind
	Name string // subject key (ia + cn), for the generator's bookkeeping only
}

type spec struct {
	kind   kind
	ia     string // "" = no ISD-AS attribute in the subject
	cn     string
	nb, na time.Time
	serial int64
	key    crypto.Signer // nil = fresh key
	issuer *pc           // nil = self-signed
}

func newKey() crypto.Signer {
	k, err := ecdsa.GenerateKey(elliptic.P256(), rand.Reader)
	if err != nil {
		panic(err)
	}
	return k
}

func subject(ia, cn string) pkix.Name {
	n := pkix.Name{CommonName: cn}
	if ia != "" {
		n.ExtraNames = []pkix.AttributeTypeAndValue{{Type: cppki.OIDNameIA, Value: ia}}
	}
	return n
}

func mkCert(s spec) *pc {
	key := s.key
	if key == nil {
		key = newKey()
	}
	skid, err := cppki.SubjectKeyID(key.Public())
	if err != nil {
		panic(err)
	}
	tmpl := &x509.Certificate{
		SerialNumber:       big.NewInt(s.serial),
		Subject:            subject(s.ia, s.cn),
		NotBefore:          s.nb,
		NotAfter:           s.na,
		SubjectKeyId:       skid,
		SignatureAlgorithm: x509.ECDSAWithSHA256,
	}
	switch s.kind {
	case kSens:
		tmpl.ExtKeyUsage = []x509.ExtKeyUsage{x509.ExtKeyUsageTimeStamping}
		tmpl.UnknownExtKeyUsage = []asn1.ObjectIdentifier{cppki.OIDExtKeyUsageSensitive}
	case kReg:
		tmpl.ExtKeyUsage = []x509.ExtKeyUsage{x509.ExtKeyUsageTimeStamping}
		tmpl.UnknownExtKeyUsage = []asn1.ObjectIdentifier{cppki.OIDExtKeyUsageRegular}
	case kBadBoth:
		tmpl.ExtKeyUsage = []x509.ExtKeyUsage{x509.ExtKeyUsageTimeStamping}
		tmpl.UnknownExtKeyUsage = []asn1.ObjectIdentifier{cppki.OIDExtKeyUsageSensitive,
			cppki.OIDExtKeyUsageRegular}
	case kBadSigUse:
		tmpl.ExtKeyUsage = []x509.ExtKeyUsage{x509.ExtKeyUsageTimeStamping}
		tmpl.UnknownExtKeyUsage = []asn1.ObjectIdentifier{cppki.OIDExtKeyUsageSensitive}
		tmpl.KeyUsage = x509.KeyUsageDigitalSignature
	case kRoot:
		tmpl.ExtKeyUsage = []x509.ExtKeyUsage{x509.ExtKeyUsageTimeStamping}
		tmpl.UnknownExtKeyUsage = []asn1.ObjectIdentifier{cppki.OIDExtKeyUsageRoot}
		tmpl.KeyUsage = x509.KeyUsageCertSign
		tmpl.BasicConstraintsValid, tmpl.IsCA, tmpl.MaxPathLen = true, true, 1
	case kCA:
		tmpl.KeyUsage = x509.KeyUsageCertSign | x509.KeyUsageCRLSign
		tmpl.BasicConstraintsValid, tmpl.IsCA, tmpl.MaxPathLen, tmpl.MaxPathLenZero = true, true, 0, true
	case kAS:
		tmpl.KeyUsage = x509.KeyUsageDigitalSignature
		tmpl.ExtKeyUsage = []x509.ExtKeyUsage{x509.ExtKeyUsageServerAuth, x509.ExtKeyUsageClientAuth,
			x509.ExtKeyUsageTimeStamping}
	}
	parent, signer := tmpl, key
	if s.issuer != nil {
		parent, signer = s.issuer.Cert, s.issuer.Key
		tmpl.AuthorityKeyId = s.issuer.Cert.SubjectKeyId
	}
	raw, err := x509.CreateCertificate(rand.Reader, tmpl, parent, key.Public(), signer)
	if err != nil {
		panic(fmt.Sprintf("create certificate %+v: %v", s, err))
	}
	c, err := x509.ParseCertificate(raw)
	if err != nil {
		panic(err)
	}
	return &pc{Cert: c, Key: key, Kind: s.kind, Name: s.ia + "/" + s.cn}
}

// mustClass panics when the repo's own classifier disagrees with what the pool intended: the
// pool is only a convenience, the facts always come from ValidateCert.
func mustClass(p *pc, want cppki.CertType, wantErr bool) {
	ct, err := cppki.ValidateCert(p.Cert)
	if wantErr {
		if err == nil {
			panic("pool: expected an unclassifiable certificate: " + p.Name)
		}
		return
	}
	if err != nil || ct != want {
		panic(fmt.Sprintf("pool: %s classified as %v (%v), want %v", p.Name, ct, err, want))
	}
}

func selfTestPool() {
	w := spec{ia: "1-ff00:0:110", cn: "selftest", nb: sec(-1000), na: sec(1000), serial: 1}
	s := w
	s.kind = kSens
	mustClass(mkCert(s), cppki.Sensitive, false)
	s.kind = kReg
	mustClass(mkCert(s), cppki.Regular, false)
	s.kind = kRoot
	root := mkCert(s)
	mustClass(root, cppki.Root, false)
	s.kind, s.issuer, s.cn = kCA, root, "selftest ca"
	ca := mkCert(s)
	mustClass(ca, cppki.CA, false)
	s.kind, s.issuer, s.cn = kAS, ca, "selftest as"
	mustClass(mkCert(s), cppki.AS, false)
	s.issuer = nil
	s.kind = kBadBoth
	mustClass(mkCert(s), 0, true)
	s.kind = kBadSigUse
	mustClass(mkCert(s), 0, true)
}
