// Engine "trc": ties lean/Scion/Model/Trc.lean to pkg/scrypto/cppki (TRC.Validate,
// TRC.ValidateUpdate, SignedTRC.Verify, TRC.Encode/DecodeTRC) on real certificates, keys and
// CMS signatures generated at run time, and evaluates the statements of C33 / C32 directly on
// the implementation.
package main

import (
	"bytes"
	"crypto/x509"
	"fmt"
	"sort"

	"github.com/scionproto/scion/pkg/scrypto/cppki"

	"verifharness/vlib"
)

// checkNames: the subject/issuer facts are "names up to cppki.equalName"; on the pool (all names
// produced by the same encoder) that equivalence must be equality of the full distinguished
// name, i.e. of the DER subject — in particular it must see the ISD-AS attribute.
func (w *world) checkNames(e *vlib.Env) {
	var all []*x509.Certificate
	for c := range w.keys {
		all = append(all, c)
	}
	sort.Slice(all, func(i, j int) bool { return all[i].SerialNumber.Cmp(all[j].SerialNumber) < 0 })
	for i, a := range all {
		for _, b := range all[i+1:] {
			eq, raw := cppki.VerifEqualName(a.Subject, b.Subject), bytes.Equal(a.RawSubject, b.RawSubject)
			e.Case(fmt.Sprintf("name %v %v", a.SerialNumber, b.SerialNumber), fmt.Sprintf("name-eq/%v", raw), !raw)
			if eq != raw {
				e.Violate(e.Prop+"/equal-name-vs-distinguished-name",
					fmt.Sprintf("cppki.equalName=%v for subjects %q / %q whose DER encodings equal=%v", eq,
						a.Subject.String(), b.Subject.String(), raw),
					map[string]any{"a": a.Subject.String(), "b": b.Subject.String(), "a_ia": iaOf(a), "b_ia": iaOf(b)})
			}
		}
	}
}

func main() {
	e := vlib.Init()
	r := vlib.NewRand(uint64(e.Seed))
	w := newWorld(r)
	if e.Prop == "C32" { // C33 only demands "valid only if": a coarser name equality over-rejects
		w.checkNames(e)
	}
	switch e.Prop {
	case "C32":
		runC32(e, w)
	default:
		runC33(e, w)
	}
	e.Finish()
}
