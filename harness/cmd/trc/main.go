// Engine "trc": ties lean/Scion/Model/Trc.lean to pkg/scrypto/cppki (TRC.Validate,
// TRC.ValidateUpdate, SignedTRC.Verify, TRC.Encode/DecodeTRC) on real certificates, keys and
// CMS signatures generated at run time, and evaluates the statements of C33 / C32 directly on
// the implementation.
package main

import (
	"verifharness/vlib"
)

func main() {
	e := vlib.Init()
	r := vlib.NewRand(uint64(e.Seed))
	w := newWorld(r)
	switch e.Prop {
	case "C32":
		runC32(e, w)
	default:
		runC33(e, w)
	}
	e.Finish()
}
