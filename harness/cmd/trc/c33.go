// C33: TRC payloads are validated and encoded faithfully.
package main

import (
	"bytes"
	"crypto/x509"
	"encoding/asn1"
	"errors"
	"fmt"
	"time"
	"unicode/utf8"

	"github.com/scionproto/scion/pkg/addr"
	"github.com/scionproto/scion/pkg/scrypto"
	"github.com/scionproto/scion/pkg/scrypto/cppki"

	"verifharness/vlib"
)

// valErr maps the error of TRC.Validate to the model's enum BY SENTINEL (errors.Is).
func valErr(err error) string {
	if err == nil {
		return "ok"
	}
	tbl := []struct {
		e error
		n string
	}{
		{cppki.ErrInvalidTRCVersion, "version"},
		{cppki.ErrWildcardISD, "id-wildcard"},
		{cppki.ErrSerialBeforeBase, "id-serial<base"},
		{cppki.ErrReservedNumber, "id-reserved"},
		{cppki.ErrInvalidValidityPeriod, "validity"},
		{cppki.ErrGracePeriodNonZero, "grace"},
		{cppki.ErrVotesOnBaseTRC, "votes-on-base"},
		{cppki.ErrInvalidQuorumSize, "quorum"},
		{cppki.ErrNoASes, "no-ases"},
		{cppki.ErrWildcardAS, "wildcard-as"},
		{cppki.ErrDuplicateAS, "dup-as"},
		{cppki.ErrUnclassifiedCertificate, "unclassified"},
		{cppki.ErrInvalidCertType, "cert-type"},
		{cppki.ErrNotEnoughVoters, "voters"},
		{cppki.ErrCertForOtherISD, "other-isd"},
		{cppki.ErrTRCValidityNotCovered, "not-covered"},
		{cppki.ErrDuplicate, "dup"},
	}
	for _, x := range tbl {
		if errors.Is(err, x.e) {
			return "err " + x.n
		}
	}
	return "err other"
}

func isValSentinel(err error) bool { return err != nil && valErr(err) != "err other" }

// violated evaluates the rules of the C33 statement directly on the real object (independent of
// the Lean model and of TRC.Validate): the names of the rules the payload breaks.
func violated(t *cppki.TRC) []string {
	var v []string
	add := func(c bool, n string) {
		if c {
			v = append(v, n)
		}
	}
	add(t.Version != 1, "version")
	add(t.ID.ISD == 0, "wildcard-isd")
	add(t.ID.Base < 1 || t.ID.Base > t.ID.Serial, "base-serial")
	add(!t.Validity.NotAfter.After(t.Validity.NotBefore), "empty-validity")
	if t.ID.Base == t.ID.Serial {
		add(t.GracePeriod != 0, "base-grace")
		add(len(t.Votes) != 0, "base-votes")
	}
	nsens, nreg := 0, 0
	cls := make([]cppki.CertType, len(t.Certificates))
	for i, c := range t.Certificates {
		ct, err := cppki.ValidateCert(c)
		if err != nil || (ct != cppki.Sensitive && ct != cppki.Regular && ct != cppki.Root) {
			add(true, "unclassifiable-cert")
			continue
		}
		cls[i] = ct
		if ct == cppki.Sensitive {
			nsens++
		}
		if ct == cppki.Regular {
			nreg++
		}
		if ia, err := cppki.ExtractIA(c.Subject); err == nil && ia.ISD() != t.ID.ISD {
			add(true, "cert-other-isd")
		}
		add(c.NotBefore.After(t.Validity.NotBefore) || c.NotAfter.Before(t.Validity.NotAfter),
			"validity-not-covered")
	}
	add(t.Quorum < 1 || t.Quorum > 255, "quorum-range")
	add(t.Quorum > nsens || t.Quorum > nreg, "quorum-voters")
	for _, l := range [][]addr.AS{t.CoreASes, t.AuthoritativeASes} {
		add(len(l) == 0, "ases-empty")
		seen := map[addr.AS]bool{}
		for _, a := range l {
			add(a == 0, "ases-wildcard")
			add(seen[a], "ases-duplicate")
			seen[a] = true
		}
	}
	for i, a := range t.Certificates {
		for j := i + 1; j < len(t.Certificates); j++ {
			b := t.Certificates[j]
			add(bytes.Equal(a.RawIssuer, b.RawIssuer) && a.SerialNumber.Cmp(b.SerialNumber) == 0,
				"issuer-serial-duplicate")
			add(cls[i] != 0 && cls[i] == cls[j] && bytes.Equal(a.RawSubject, b.RawSubject),
				"subject-duplicate")
		}
	}
	return v
}

func sameTRC(a, b *cppki.TRC) string {
	switch {
	case a.Version != b.Version:
		return "version"
	case a.ID != b.ID:
		return "id"
	case !a.Validity.NotBefore.Equal(b.Validity.NotBefore) || !a.Validity.NotAfter.Equal(b.Validity.NotAfter):
		return "validity"
	case a.GracePeriod != b.GracePeriod:
		return "grace"
	case a.NoTrustReset != b.NoTrustReset:
		return "noTrustReset"
	case fmt.Sprint(a.Votes) != fmt.Sprint(b.Votes):
		return "votes"
	case a.Quorum != b.Quorum:
		return "quorum"
	case fmt.Sprint(a.CoreASes) != fmt.Sprint(b.CoreASes):
		return "core"
	case fmt.Sprint(a.AuthoritativeASes) != fmt.Sprint(b.AuthoritativeASes):
		return "auth"
	case a.Description != b.Description:
		return "description"
	case len(a.Certificates) != len(b.Certificates):
		return "certs"
	}
	for i := range a.Certificates {
		if !bytes.Equal(a.Certificates[i].Raw, b.Certificates[i].Raw) {
			return "certs"
		}
	}
	return ""
}

// roundTrippable: the part of the domain on which the statement's round trip is meaningful
// (DESIGN §7a): whole-second validity and grace period, AS numbers and ID numbers that the
// ASN.1 form can carry, valid UTF-8 description.
func roundTrippable(t *cppki.TRC) bool {
	if t.Validity.NotBefore.Nanosecond() != 0 || t.Validity.NotAfter.Nanosecond() != 0 ||
		t.GracePeriod%time.Second != 0 || !utf8.ValidString(t.Description) {
		return false
	}
	for _, l := range [][]addr.AS{t.CoreASes, t.AuthoritativeASes} {
		for _, a := range l {
			if a > addr.MaxAS {
				return false
			}
		}
	}
	return t.ID.Serial < 1<<62 && t.ID.Base < 1<<62
}

type replayTRC struct {
	Version                 int
	ISD                     int
	Base, Serial            uint64
	NotBefore, NotAfter     string
	GraceNs                 int64
	NoTrustReset            bool
	Votes                   []int
	Quorum                  int
	Core, Auth              []string
	Certs                   []string
	Notes                   []string
	Facts                   string
}

func (w *world) replay(p *payload) replayTRC {
	t := &p.T
	r := replayTRC{Version: t.Version, ISD: int(t.ID.ISD), Base: uint64(t.ID.Base), Serial: uint64(t.ID.Serial),
		NotBefore: t.Validity.NotBefore.UTC().Format(time.RFC3339Nano), NotAfter: t.Validity.NotAfter.UTC().Format(time.RFC3339Nano),
		GraceNs: int64(t.GracePeriod), NoTrustReset: t.NoTrustReset, Votes: t.Votes, Quorum: t.Quorum,
		Notes: p.Notes, Facts: w.in.trc(t)}
	for _, a := range t.CoreASes {
		r.Core = append(r.Core, a.String())
	}
	for _, a := range t.AuthoritativeASes {
		r.Auth = append(r.Auth, a.String())
	}
	for _, c := range t.Certificates {
		r.Certs = append(r.Certs, fmt.Sprintf("%s cn=%q ia=%v serial=%v [%s,%s]", clsLetter(c), c.Subject.CommonName,
			iaOf(c), c.SerialNumber, c.NotBefore.Format(time.RFC3339), c.NotAfter.Format(time.RFC3339)))
	}
	return r
}

func iaOf(c *x509.Certificate) string {
	ia, err := cppki.ExtractIA(c.Subject)
	if err != nil {
		return "-"
	}
	return ia.String()
}

// checkPayload: one payload through the real Validate (tie line + statement predicate) and, if
// valid, through Encode -> DecodeTRC.
func (w *world) checkPayload(e *vlib.Env, p *payload) {
	t := &p.T
	facts := w.in.trc(t)
	verr := t.Validate()
	ans := valErr(verr)
	tag := ans
	if verr == nil {
		tag = "ok/base"
		if t.ID.Base != t.ID.Serial {
			tag = "ok/update"
		}
	}
	e.Op("val "+facts, ans, tag)
	e.Sample(map[string]any{"op": "val " + facts, "impl": ans})
	viol := violated(t)
	if verr == nil && len(viol) > 0 {
		e.Violate("C33/accepted-"+viol[0], fmt.Sprintf("TRC.Validate accepts a payload that breaks the rule(s) %v", viol),
			w.replay(p))
	}
	// Encode must refuse what Validate refuses; on valid payloads the round trip must hold.
	enc, eerr := t.Encode()
	if verr != nil {
		if eerr == nil {
			e.Violate("C33/encoded-invalid", "TRC.Encode encodes a payload that Validate rejects", w.replay(p))
		}
		return
	}
	if !roundTrippable(t) {
		e.Case("rt-skip", "~rt-outside-domain", true)
		return
	}
	if eerr != nil {
		e.Violate("C33/encode-fails", "TRC.Encode fails on a valid payload: "+eerr.Error(), w.replay(p))
		return
	}
	dec, derr := cppki.DecodeTRC(enc)
	if derr != nil {
		e.Violate("C33/roundtrip-decode-fails", "DecodeTRC rejects the encoding of a valid payload: "+derr.Error(),
			w.replay(p))
		return
	}
	if d := sameTRC(t, &dec); d != "" {
		e.Violate("C33/roundtrip-differs", "DecodeTRC(Encode(t)) differs from t in field "+d, w.replay(p))
		return
	}
	if !bytes.Equal(dec.Raw, enc) {
		e.Violate("C33/roundtrip-raw", "decoded TRC does not keep its encoding", w.replay(p))
	}
	if len(violated(&dec)) > 0 {
		e.Violate("C33/decoded-invalid", "decoded TRC breaks a rule", w.replay(p))
	}
	e.Case("rt "+facts, "roundtrip-ok", false)
}

// ---- hand-made DER (bypasses Encode's own Validate) to drive DecodeTRC with invalid payloads

type derID struct {
	ISD    int64 `asn1:"iSD"`
	Serial int64 `asn1:"serialNumber"`
	Base   int64 `asn1:"baseNumber"`
}
type derValidity struct {
	NotBefore time.Time `asn1:"notBefore,generalized"`
	NotAfter  time.Time `asn1:"notAfter,generalized"`
}
type derPayload struct {
	Version           int64           `asn1:"version"`
	ID                derID           `asn1:"iD"`
	Validity          derValidity     `asn1:"validity"`
	GracePeriod       int64           `asn1:"gracePeriod"`
	NoTrustReset      bool            `asn1:"noTrustReset"`
	Votes             []int64         `asn1:"votes"`
	Quorum            int64           `asn1:"votingQuorum"`
	CoreASes          []string        `asn1:"coreASes"`
	AuthoritativeASes []string        `asn1:"authoritativeASes"`
	Description       string          `asn1:"description,utf8"`
	Certificates      []asn1.RawValue `asn1:"certificates"`
}

func rawDER(t *cppki.TRC) ([]byte, bool) {
	a := derPayload{Version: int64(t.Version - 1),
		ID:       derID{ISD: int64(t.ID.ISD), Serial: int64(t.ID.Serial), Base: int64(t.ID.Base)},
		Validity: derValidity{NotBefore: t.Validity.NotBefore.UTC(), NotAfter: t.Validity.NotAfter.UTC()},
		GracePeriod: int64(t.GracePeriod / time.Second), NoTrustReset: t.NoTrustReset, Quorum: int64(t.Quorum),
		Description: t.Description, Votes: []int64{}, CoreASes: []string{}, AuthoritativeASes: []string{},
		Certificates: []asn1.RawValue{}}
	for _, v := range t.Votes {
		a.Votes = append(a.Votes, int64(v))
	}
	for _, as := range t.CoreASes {
		a.CoreASes = append(a.CoreASes, as.String())
	}
	for _, as := range t.AuthoritativeASes {
		a.AuthoritativeASes = append(a.AuthoritativeASes, as.String())
	}
	for _, c := range t.Certificates {
		var rv asn1.RawValue
		if _, err := asn1.Unmarshal(c.Raw, &rv); err != nil {
			return nil, false
		}
		a.Certificates = append(a.Certificates, rv)
	}
	b, err := asn1.Marshal(a)
	return b, err == nil
}

// checkDecode: DecodeTRC on the hand-made DER of a (possibly invalid) payload must not hand out
// a payload that breaks a rule; when it runs Validate its verdict is tied to the model.
func (w *world) checkDecode(e *vlib.Env, p *payload) {
	t := &p.T
	if !roundTrippable(t) {
		return
	}
	der, ok := rawDER(t)
	if !ok {
		return
	}
	dec, err := cppki.DecodeTRC(der)
	switch {
	case err == nil:
		facts := w.in.trc(&dec)
		e.Op("val "+facts, "ok", "dec/ok")
		if v := violated(&dec); len(v) > 0 {
			e.Violate("C33/decode-accepted-"+v[0], fmt.Sprintf("DecodeTRC returns a payload that breaks the rule(s) %v", v),
				w.replay(p))
		}
		if len(violated(t)) == 0 {
			if d := sameTRC(t, &dec); d != "" {
				e.Violate("C33/roundtrip-differs", "hand-encoded valid payload decodes differently in field "+d, w.replay(p))
			}
		}
	case isValSentinel(err):
		// decoding proper succeeded, the verdict is Validate's on the same facts
		e.Op("val "+w.in.trc(t), valErr(err), "dec/"+valErr(err))
	default:
		e.Case("dec "+w.in.trc(t), "dec/syntax-reject", len(violated(t)) > 0)
		if len(violated(t)) == 0 {
			e.Violate("C33/roundtrip-decode-fails", "DecodeTRC rejects a hand-encoded valid payload: "+err.Error(), w.replay(p))
		}
	}
}

// ---- mutations: every rule of Validate has at least one way to be broken, plus neutral ones

type mutator struct {
	name string
	f    func(w *world, t *cppki.TRC)
}

func countKind(t *cppki.TRC, ct cppki.CertType) int {
	n := 0
	for _, c := range t.Certificates {
		if k, err := cppki.ValidateCert(c); err == nil && k == ct {
			n++
		}
	}
	return n
}

func (w *world) insertCert(t *cppki.TRC, c *x509.Certificate) {
	i := w.r.Intn(len(t.Certificates) + 1)
	t.Certificates = append(t.Certificates[:i:i], append([]*x509.Certificate{c}, t.Certificates[i:]...)...)
}

func (w *world) firstOf(t *cppki.TRC, ct cppki.CertType) int {
	for i, c := range t.Certificates {
		if k, err := cppki.ValidateCert(c); err == nil && k == ct {
			return i
		}
	}
	return -1
}

// reissued returns the re-issued version (same subject, other key/serial) of pool certificate c.
func (w *world) reissued(c *x509.Certificate, v int) *x509.Certificate {
	for _, grp := range []*[nAS][]*pc{&w.sens, &w.reg, &w.root} {
		for i := 0; i < nAS; i++ {
			if grp[i][0].Cert == c {
				return grp[i][v].Cert
			}
		}
	}
	return nil
}

var mutators = []mutator{
	{"version", func(w *world, t *cppki.TRC) { t.Version = []int{0, 2, -1, 3}[w.r.Intn(4)] }},
	{"isd0", func(w *world, t *cppki.TRC) { t.ID.ISD = 0 }},
	{"base0", func(w *world, t *cppki.TRC) { t.ID.Base = 0 }},
	{"base0serial0", func(w *world, t *cppki.TRC) { t.ID.Base, t.ID.Serial = 0, 0 }},
	{"base>serial", func(w *world, t *cppki.TRC) { t.ID.Base = t.ID.Serial + scrypto.Version(w.r.Range(1, 3)) }},
	{"validity-empty", func(w *world, t *cppki.TRC) { t.Validity.NotAfter = t.Validity.NotBefore }},
	{"validity-reversed", func(w *world, t *cppki.TRC) {
		t.Validity.NotAfter = t.Validity.NotBefore.Add(-time.Duration(w.r.Range(1, 3)) * time.Second)
	}},
	{"validity-1s", func(w *world, t *cppki.TRC) { t.Validity.NotAfter = t.Validity.NotBefore.Add(time.Second) }},
	{"base-grace", func(w *world, t *cppki.TRC) { t.ID.Serial = t.ID.Base; t.GracePeriod = time.Duration(w.r.Range(1, 9)) * time.Second }},
	{"base-neg-grace", func(w *world, t *cppki.TRC) { t.ID.Serial = t.ID.Base; t.GracePeriod = -time.Second }},
	{"base-votes", func(w *world, t *cppki.TRC) { t.ID.Serial = t.ID.Base; t.Votes = []int{w.r.Intn(3)} }},
	{"quorum-0", func(w *world, t *cppki.TRC) { t.Quorum = 0 }},
	{"quorum-neg", func(w *world, t *cppki.TRC) { t.Quorum = []int{-1, -2, -255, -256, -300, -1 << 31, -1 << 40}[w.r.Intn(7)] }},
	{"quorum-256", func(w *world, t *cppki.TRC) { t.Quorum = []int{256, 257, 1000, 1 << 32}[w.r.Intn(4)] }},
	{"quorum-255", func(w *world, t *cppki.TRC) { t.Quorum = 255 }},
	{"quorum-sens+1", func(w *world, t *cppki.TRC) { t.Quorum = countKind(t, cppki.Sensitive) + 1 }},
	{"quorum-reg+1", func(w *world, t *cppki.TRC) { t.Quorum = countKind(t, cppki.Regular) + 1 }},
	{"quorum-max", func(w *world, t *cppki.TRC) { t.Quorum = min(countKind(t, cppki.Sensitive), countKind(t, cppki.Regular)) }},
	{"core-empty", func(w *world, t *cppki.TRC) { t.CoreASes = nil }},
	{"auth-empty", func(w *world, t *cppki.TRC) { t.AuthoritativeASes = []addr.AS{} }},
	{"core-wildcard", func(w *world, t *cppki.TRC) {
		i := w.r.Intn(len(t.CoreASes) + 1)
		t.CoreASes = append(t.CoreASes[:i:i], append([]addr.AS{0}, t.CoreASes[i:]...)...)
	}},
	{"auth-wildcard", func(w *world, t *cppki.TRC) {
		i := w.r.Intn(len(t.AuthoritativeASes) + 1)
		t.AuthoritativeASes = append(t.AuthoritativeASes[:i:i], append([]addr.AS{0}, t.AuthoritativeASes[i:]...)...)
	}},
	{"core-dup", func(w *world, t *cppki.TRC) {
		if len(t.CoreASes) > 0 {
			t.CoreASes = append(t.CoreASes, t.CoreASes[w.r.Intn(len(t.CoreASes))])
		}
	}},
	{"auth-dup", func(w *world, t *cppki.TRC) {
		if len(t.AuthoritativeASes) > 0 {
			t.AuthoritativeASes = append([]addr.AS{t.AuthoritativeASes[len(t.AuthoritativeASes)-1]}, t.AuthoritativeASes...)
		}
	}},
	{"core-big-as", func(w *world, t *cppki.TRC) { t.CoreASes = append(t.CoreASes, addr.MaxAS+1+addr.AS(w.r.Intn(5))) }},
	{"core-bgp-as", func(w *world, t *cppki.TRC) { t.CoreASes = append(t.CoreASes, addr.AS(w.r.Range(1, 70000))) }},
	{"cert-ca", func(w *world, t *cppki.TRC) { w.insertCert(t, w.ca.Cert) }},
	{"cert-as", func(w *world, t *cppki.TRC) { w.insertCert(t, w.as.Cert) }},
	{"cert-bad-both", func(w *world, t *cppki.TRC) { w.insertCert(t, w.badBoth.Cert) }},
	{"cert-bad-siguse", func(w *world, t *cppki.TRC) { w.insertCert(t, w.badSigUse.Cert) }},
	{"cert-other-isd", func(w *world, t *cppki.TRC) { w.insertCert(t, w.otherISD[w.r.Intn(3)].Cert) }},
	{"trc-isd-2", func(w *world, t *cppki.TRC) { t.ID.ISD = 2 }},
	{"no-certs", func(w *world, t *cppki.TRC) { t.Certificates = nil }},
	{"drop-cert", func(w *world, t *cppki.TRC) {
		if n := len(t.Certificates); n > 0 {
			i := w.r.Intn(n)
			t.Certificates = append(t.Certificates[:i:i], t.Certificates[i+1:]...)
		}
	}},
	{"tight-cert", func(w *world, t *cppki.TRC) { w.insertCert(t, w.tight[w.r.Intn(3)].Cert) }},
	{"tight-early", func(w *world, t *cppki.TRC) {
		w.insertCert(t, w.tight[w.r.Intn(3)].Cert)
		t.Validity.NotBefore = sec(0).Add(-[]time.Duration{time.Nanosecond, time.Second, time.Hour}[w.r.Intn(3)])
	}},
	{"tight-late", func(w *world, t *cppki.TRC) {
		w.insertCert(t, w.tight[w.r.Intn(3)].Cert)
		t.Validity.NotAfter = sec(5000).Add([]time.Duration{time.Nanosecond, time.Second, time.Hour}[w.r.Intn(3)])
	}},
	// voting certificates WITHOUT an ISD-AS attribute must cover the TRC validity like any other
	{"noia-tight-cert", func(w *world, t *cppki.TRC) {
		if c := w.noIATight[w.r.Intn(2)].Cert; !hasCert(t, c) {
			w.insertCert(t, c)
		}
	}},
	{"noia-tight-early", func(w *world, t *cppki.TRC) {
		if c := w.noIATight[w.r.Intn(2)].Cert; !hasCert(t, c) {
			w.insertCert(t, c)
		}
		t.Validity.NotBefore = sec(0).Add(-[]time.Duration{time.Nanosecond, time.Second, time.Hour}[w.r.Intn(3)])
	}},
	{"noia-tight-late", func(w *world, t *cppki.TRC) {
		if c := w.noIATight[w.r.Intn(2)].Cert; !hasCert(t, c) {
			w.insertCert(t, c)
		}
		t.Validity.NotAfter = sec(5000).Add([]time.Duration{time.Nanosecond, time.Second, time.Hour}[w.r.Intn(3)])
	}},
	{"noia-short-cert", func(w *world, t *cppki.TRC) {
		if c := w.noIAShort[w.r.Intn(2)].Cert; !hasCert(t, c) {
			w.insertCert(t, c)
		}
	}},
	{"noia-short-cert-covering", func(w *world, t *cppki.TRC) { // TRC validity shrunk into the short certificate's
		if c := w.noIAShort[w.r.Intn(2)].Cert; !hasCert(t, c) {
			w.insertCert(t, c)
		}
		t.Validity = cppki.Validity{NotBefore: sec(100 + w.r.Intn(3)), NotAfter: sec(4000 - w.r.Intn(3))}
	}},
	{"validity-outside-all", func(w *world, t *cppki.TRC) {
		if w.r.Bool() {
			t.Validity.NotBefore = sec(-10001)
		} else {
			t.Validity.NotAfter = sec(10001)
		}
	}},
	{"validity-subsecond", func(w *world, t *cppki.TRC) {
		t.Validity.NotBefore = t.Validity.NotBefore.Add(time.Duration(w.r.Range(1, 999)) * time.Millisecond)
	}},
	{"dup-cert", func(w *world, t *cppki.TRC) {
		if n := len(t.Certificates); n > 0 {
			w.insertCert(t, t.Certificates[w.r.Intn(n)])
		}
	}},
	{"dup-subject", func(w *world, t *cppki.TRC) { // re-issued certificate next to the original
		if n := len(t.Certificates); n > 0 {
			if c := w.reissued(t.Certificates[w.r.Intn(n)], 1+w.r.Intn(2)); c != nil {
				w.insertCert(t, c)
			}
		}
	}},
	{"clash-issuer-serial", func(w *world, t *cppki.TRC) { // different classes, same issuer+serial
		if w.firstOf(t, cppki.Root) < 0 || !hasCert(t, w.root[0][0].Cert) {
			w.insertCert(t, w.root[0][0].Cert)
		}
		w.insertCert(t, w.clashRegAsRoot.Cert)
	}},
	{"same-subject-other-class", func(w *world, t *cppki.TRC) { // allowed: uniqueness is per class
		w.insertCert(t, w.clashRegAsRoot.Cert)
		for i, c := range t.Certificates {
			if c == w.root[0][0].Cert {
				t.Certificates[i] = w.root[0][1].Cert
			}
		}
	}},
	{"same-cn-other-ia", func(w *world, t *cppki.TRC) { // code: duplicate (equalName ignores ISD-AS)
		if !hasCert(t, w.reg[0][0].Cert) {
			w.insertCert(t, w.reg[0][0].Cert)
		}
		w.insertCert(t, w.sameCNOtherIA.Cert)
	}},
	{"shuffle", func(w *world, t *cppki.TRC) { w.shuffle(t.Certificates) }},
	{"update-votes", func(w *world, t *cppki.TRC) {
		t.ID.Serial = t.ID.Base + scrypto.Version(w.r.Range(1, 4))
		t.Votes = []int{w.r.Range(-3, 9), w.r.Range(0, 3)}
		t.GracePeriod = time.Duration(w.r.Intn(100)) * time.Second
	}},
	{"big-serial", func(w *world, t *cppki.TRC) { t.ID.Serial = scrypto.Version(1<<61 + w.r.Intn(9)) }},
	{"no-ia-voters", func(w *world, t *cppki.TRC) {
		if !hasCert(t, w.noIASens.Cert) {
			w.insertCert(t, w.noIASens.Cert)
		}
		if !hasCert(t, w.noIAReg.Cert) {
			w.insertCert(t, w.noIAReg.Cert)
		}
	}},
}

func hasCert(t *cppki.TRC, c *x509.Certificate) bool {
	for _, x := range t.Certificates {
		if x == c {
			return true
		}
	}
	return false
}

func runC33(e *vlib.Env, w *world) {
	e.Rule = "payloads built from a pool of real X.509 certificates (sensitive/regular/root of 6 ASes, re-issued " +
		"versions, no-ISD-AS voters, other ISD, CA/AS/unclassifiable, exactly-covering validity, issuer+serial clash): " +
		"valid base/non-base payloads, then every mutator alone on several payloads, then random pairs and triples " +
		"(order of checks); each through the real Validate (tie line, distinct by fact line), the statement " +
		"predicate, Encode->DecodeTRC, and DecodeTRC of hand-made DER; non-trivial = every line (accepted or rejected by a rule)"
	nValid := e.N(300, 4000)
	for i := 0; i < nValid; i++ {
		p := w.validAny()
		w.checkPayload(e, p)
		w.checkDecode(e, p)
	}
	per := e.N(25, 300)
	for _, m := range mutators {
		for i := 0; i < per; i++ {
			p := w.validAny()
			apply(e, m.name, func() { m.f(w, &p.T) })
			p.Notes = []string{m.name}
			w.checkPayload(e, p)
			w.checkDecode(e, p)
		}
	}
	nMulti := e.N(2500, 40000)
	for i := 0; i < nMulti; i++ {
		p := w.validAny()
		for k := w.r.Range(2, 3); k > 0; k-- {
			m := mutators[w.r.Intn(len(mutators))]
			apply(e, m.name, func() { m.f(w, &p.T) })
			p.Notes = append(p.Notes, m.name)
		}
		w.checkPayload(e, p)
		if i%4 == 0 {
			w.checkDecode(e, p)
		}
	}
}
