// Abstraction of the real objects to the facts consumed by lean/Scion/Model/Trc.lean.
// Mechanical: every fact is a field copy or the result of one of the repo's own functions.
// This file is part of the trusted base.
package main

import (
	"crypto/x509"
	"crypto/x509/pkix"
	"encoding/asn1"
	"fmt"
	"strconv"
	"strings"

	"github.com/scionproto/scion/pkg/scrypto/cms/oid"
	"github.com/scionproto/scion/pkg/scrypto/cms/protocol"
	"github.com/scionproto/scion/pkg/scrypto/cppki"
)

// interner numbers byte strings (identity) and distinguished names (up to cppki's equalName).
type interner struct {
	bytes map[string]int
	names []pkix.Name
	cache map[*x509.Certificate]string
}

func newInterner() *interner {
	return &interner{bytes: map[string]int{}, cache: map[*x509.Certificate]string{}}
}

func (in *interner) b(space string, b []byte) int {
	k := space + "\x00" + string(b)
	if v, ok := in.bytes[k]; ok {
		return v
	}
	v := len(in.bytes) + 1
	in.bytes[k] = v
	return v
}

func (in *interner) name(n pkix.Name) int {
	for i, m := range in.names {
		if cppki.VerifEqualName(m, n) {
			return i + 1
		}
	}
	in.names = append(in.names, n)
	return len(in.names)
}

func clsLetter(c *x509.Certificate) string {
	ct, err := cppki.ValidateCert(c)
	if err != nil {
		return "x"
	}
	switch ct {
	case cppki.Sensitive:
		return "s"
	case cppki.Regular:
		return "r"
	case cppki.Root:
		return "o"
	case cppki.CA:
		return "c"
	case cppki.AS:
		return "a"
	}
	return "x"
}

func skiValue(c *x509.Certificate) []byte {
	for _, ext := range c.Extensions {
		if oid.ExtensionSubjectKeyIdentifier.Equal(ext.Id) {
			return ext.Value
		}
	}
	return nil
}

// cert renders `id:cls:subj:issN:issR:serial:ski:iaKind:isd:nb:na`.
func (in *interner) cert(c *x509.Certificate) string {
	if s, ok := in.cache[c]; ok {
		return s
	}
	iaKind, isd := 1, 0
	ia, err := cppki.VerifFindIA(c.Subject)
	switch {
	case err != nil:
		iaKind = 0
	case ia != nil:
		iaKind, isd = 2, int(ia.ISD())
	}
	ski := "-"
	if v := skiValue(c); v != nil {
		ski = strconv.Itoa(in.b("ski", v))
	}
	s := fmt.Sprintf("%d:%s:%d:%d:%d:%d:%s:%d:%d:%d:%d",
		in.b("raw", c.Raw), clsLetter(c), in.name(c.Subject), in.name(c.Issuer),
		in.b("issuer", c.RawIssuer), in.b("serial", []byte(c.SerialNumber.String())), ski,
		iaKind, isd, c.NotBefore.UnixNano(), c.NotAfter.UnixNano())
	in.cache[c] = s
	return s
}

func (in *interner) certID(c *x509.Certificate) int { return in.b("raw", c.Raw) }

func joinInts[T ~int | ~int64 | ~uint64](xs []T) string {
	if len(xs) == 0 {
		return "-"
	}
	p := make([]string, len(xs))
	for i, x := range xs {
		p[i] = fmt.Sprint(x)
	}
	return strings.Join(p, ",")
}

func b01(b bool) string {
	if b {
		return "1"
	}
	return "0"
}

// trc renders the 13 words of a payload:
// version isd base serial nb na grace noTrustReset quorum votes core auth certs
func (in *interner) trc(t *cppki.TRC) string {
	core := make([]uint64, len(t.CoreASes))
	for i, a := range t.CoreASes {
		core[i] = uint64(a)
	}
	auth := make([]uint64, len(t.AuthoritativeASes))
	for i, a := range t.AuthoritativeASes {
		auth[i] = uint64(a)
	}
	certs := "-"
	if len(t.Certificates) > 0 {
		p := make([]string, len(t.Certificates))
		for i, c := range t.Certificates {
			p[i] = in.cert(c)
		}
		certs = strings.Join(p, ",")
	}
	return fmt.Sprintf("%d %d %d %d %d %d %d %s %d %s %s %s %s",
		t.Version, t.ID.ISD, uint64(t.ID.Base), uint64(t.ID.Serial),
		t.Validity.NotBefore.UnixNano(), t.Validity.NotAfter.UnixNano(), int64(t.GracePeriod),
		b01(t.NoTrustReset), t.Quorum, joinInts(t.Votes), joinInts(core), joinInts(auth), certs)
}

// signer renders `kind:issuer:serial:ski:ok1+ok2…` for one CMS SignerInfo:
// kind 1/3 = SID of that version well-formed, 0 = FindCertificate fails whatever the
// certificates; ok… = ids of the candidate certificates under which the real
// SignedTRC.verifySignerInfo succeeds.
func (in *interner) signer(s *cppki.SignedTRC, si protocol.SignerInfo,
	cands []*x509.Certificate) string {

	kind, iss, ser, ski := 0, 0, 0, 0
	// FindCertificate on an empty list: ErrNoCertificate iff the SID is usable.
	if _, err := si.FindCertificate(nil); err == protocol.ErrNoCertificate {
		switch si.Version {
		case 1:
			kind = 1
			var isn protocol.IssuerAndSerialNumber
			if isn, err = sidISN(si); err == nil && isn.SerialNumber != nil {
				iss = in.b("issuer", isn.Issuer.FullBytes)
				ser = in.b("serial", []byte(isn.SerialNumber.String()))
			} else {
				kind = 0
			}
		case 3:
			kind = 3
			ski = in.b("ski", si.SID.Bytes)
		}
	}
	var ok []int
	seen := map[int]bool{}
	for _, c := range cands {
		id := in.certID(c)
		if seen[id] {
			continue
		}
		seen[id] = true
		if s.VerifVerifySignerInfo(c, si) == nil {
			ok = append(ok, id)
		}
	}
	oks := "-"
	if len(ok) > 0 {
		p := make([]string, len(ok))
		for i, x := range ok {
			p[i] = strconv.Itoa(x)
		}
		oks = strings.Join(p, "+")
	}
	return fmt.Sprintf("%d:%d:%d:%d:%s", kind, iss, ser, ski, oks)
}

// sidISN decodes a version-1 signer identifier (same decoding as the unexported
// SignerInfo.issuerAndSerialNumberSID).
func sidISN(si protocol.SignerInfo) (protocol.IssuerAndSerialNumber, error) {
	var isn protocol.IssuerAndSerialNumber
	_, err := asn1.Unmarshal(si.SID.FullBytes, &isn)
	return isn, err
}
