// C32: TRC updates are accepted only with the required votes and signatures.
package main

import (
	"bytes"
	"flag"
	"crypto"
	"crypto/x509"
	"encoding/asn1"
	"fmt"
	"sort"
	"strings"
	"time"

	"github.com/scionproto/scion/pkg/addr"
	"github.com/scionproto/scion/pkg/scrypto"
	"github.com/scionproto/scion/pkg/scrypto/cms/protocol"
	"github.com/scionproto/scion/pkg/scrypto/cppki"

	"verifharness/vlib"
)

// ucase is one verification case: predecessor payload (may be nil), successor payload and the
// list of (certificate, key) pairs that sign it, plus raw signer-info edits.
type ucase struct {
	pred    *cppki.TRC
	t       cppki.TRC
	signers []*x509.Certificate // signed with the pool key of the certificate
	post    []func(w *world, sis []protocol.SignerInfo) []protocol.SignerInfo
	notes   []string
}

func idxOf(t *cppki.TRC, ct cppki.CertType) []int {
	var r []int
	for i, c := range t.Certificates {
		if k, err := cppki.ValidateCert(c); err == nil && k == ct {
			r = append(r, i)
		}
	}
	return r
}

func (w *world) perm(xs []int) []int {
	p := append([]int(nil), xs...)
	for i := len(p) - 1; i > 0; i-- {
		j := w.r.Intn(i + 1)
		p[i], p[j] = p[j], p[i]
	}
	return p
}

func indexOfCert(t *cppki.TRC, c *x509.Certificate) int {
	for i, x := range t.Certificates {
		if x == c {
			return i
		}
	}
	return -1
}

// next version of a pool certificate (same subject, other key and serial), nil if none.
func (w *world) nextVersion(c *x509.Certificate) *x509.Certificate {
	for _, grp := range []*[nAS][]*pc{&w.sens, &w.reg, &w.root} {
		for i := 0; i < nAS; i++ {
			for v := 0; v+1 < len(grp[i]); v++ {
				if grp[i][v].Cert == c {
					return grp[i][v+1].Cert
				}
			}
		}
	}
	return nil
}

// newVoterCerts: voting certificates of t that are not byte-identical in pred (statement level).
func newVoterCerts(pred, t *cppki.TRC) []*x509.Certificate {
	var r []*x509.Certificate
	for _, ct := range []cppki.CertType{cppki.Sensitive, cppki.Regular} {
		for _, i := range idxOf(t, ct) {
			c := t.Certificates[i]
			found := false
			if pred != nil {
				for _, j := range idxOf(pred, ct) {
					if bytes.Equal(pred.Certificates[j].Raw, c.Raw) {
						found = true
					}
				}
			}
			if !found {
				r = append(r, c)
			}
		}
	}
	return r
}

// validPred: a valid predecessor (base or not) built from version-0 pool certificates.
func (w *world) validPred() *cppki.TRC {
	p := w.validBase()
	if w.r.Chance(40) {
		p.T.ID.Serial += scrypto.Version(w.r.Range(1, 3))
		p.T.Votes = []int{0}
		p.T.GracePeriod = time.Hour
	}
	t := p.T
	return &t
}

// regularUpdate / sensitiveUpdate build a successor that the statement allows, with the signer
// set it needs.
func (w *world) regularUpdate(pred *cppki.TRC) *ucase {
	u := &ucase{pred: pred, t: cloneTRC(*pred), notes: []string{"regular"}}
	t := &u.t
	t.ID.Serial = pred.ID.Serial + 1
	t.GracePeriod = time.Duration(w.r.Intn(4)) * time.Hour
	t.Description = "regular update"
	regs := idxOf(pred, cppki.Regular)
	must := map[int]bool{}
	for _, i := range regs { // re-issue some regular voters: they must vote
		if w.r.Chance(30) {
			if n := w.nextVersion(pred.Certificates[i]); n != nil {
				t.Certificates[i] = n
				must[i] = true
			}
		}
	}
	for _, i := range idxOf(pred, cppki.Root) { // re-issue some roots: the old root acknowledges
		if w.r.Chance(30) {
			if n := w.nextVersion(pred.Certificates[i]); n != nil {
				t.Certificates[i] = n
				u.signers = append(u.signers, pred.Certificates[i])
			}
		}
	}
	if w.r.Chance(30) {
		w.shuffle(t.Certificates)
	}
	var votes []int
	for _, i := range w.perm(regs) {
		if must[i] || len(votes) < pred.Quorum || w.r.Chance(30) {
			votes = append(votes, i)
		}
	}
	t.Votes = w.perm(votes)
	for _, i := range t.Votes {
		u.signers = append(u.signers, pred.Certificates[i])
	}
	u.signers = append(u.signers, newVoterCerts(pred, t)...)
	return u
}

func (w *world) sensitiveUpdate(pred *cppki.TRC) *ucase {
	u := &ucase{pred: pred, t: cloneTRC(*pred), notes: []string{"sensitive"}}
	t := &u.t
	t.ID.Serial = pred.ID.Serial + 1
	t.GracePeriod = time.Duration(w.r.Intn(4)) * time.Hour
	t.Description = "sensitive update"
	switch w.r.Intn(7) {
	case 0: // nothing else changes
	case 1: // core / authoritative ASes change
		for a := addr.AS(0xff0000000200 + uint64(w.r.Intn(9))); ; a++ {
			dup := false
			for _, c := range t.CoreASes {
				dup = dup || c == a
			}
			if !dup {
				t.CoreASes = append(t.CoreASes, a)
				break
			}
		}
		u.notes = append(u.notes, "core+")
	case 2: // re-issue sensitive voters
		for _, i := range idxOf(pred, cppki.Sensitive) {
			if w.r.Bool() {
				if n := w.nextVersion(pred.Certificates[i]); n != nil {
					t.Certificates[i] = n
				}
			}
		}
		u.notes = append(u.notes, "sens-reissued")
	case 3: // add voters / roots of an AS not yet present
		for a := 0; a < nAS; a++ {
			for _, g := range []*[nAS][]*pc{&w.sens, &w.reg, &w.root} {
				if !hasCert(t, g[a][0].Cert) && !hasCert(t, g[a][1].Cert) && !hasCert(t, g[a][2].Cert) && w.r.Chance(25) {
					w.insertCert(t, g[a][0].Cert)
				}
			}
		}
		u.notes = append(u.notes, "certs+")
	case 4: // remove a certificate while staying valid
		for tries := 0; tries < 4; tries++ {
			i := w.r.Intn(len(t.Certificates))
			c := cloneTRC(*t)
			c.Certificates = append(c.Certificates[:i:i], c.Certificates[i+1:]...)
			c.Quorum = min(c.Quorum, max(1, min(countKind(&c, cppki.Sensitive), countKind(&c, cppki.Regular))))
			if c.Validate() == nil {
				*t = c
				break
			}
		}
		u.notes = append(u.notes, "certs-")
	case 5: // quorum changes
		t.Quorum = w.r.Range(1, min(countKind(t, cppki.Sensitive), countKind(t, cppki.Regular)))
		u.notes = append(u.notes, "quorum")
	case 6: // replace everything
		n := w.validBase()
		t.Certificates, t.Quorum, t.CoreASes, t.AuthoritativeASes = n.T.Certificates, n.T.Quorum, n.T.CoreASes, n.T.AuthoritativeASes
		u.notes = append(u.notes, "all-new")
	}
	sens := idxOf(pred, cppki.Sensitive)
	var votes []int
	for _, i := range w.perm(sens) {
		if len(votes) < pred.Quorum || w.r.Chance(30) {
			votes = append(votes, i)
		}
	}
	t.Votes = votes
	for _, i := range votes {
		u.signers = append(u.signers, pred.Certificates[i])
	}
	u.signers = append(u.signers, newVoterCerts(pred, t)...)
	return u
}

func (w *world) baseCase() *ucase {
	p := w.validBase()
	u := &ucase{t: p.T, notes: []string{"base"}}
	u.signers = newVoterCerts(nil, &u.t)
	return u
}

// signInfos signs payload bytes raw with each (certificate, pool key).
func (w *world) signInfos(raw []byte, certs []*x509.Certificate) []protocol.SignerInfo {
	eci, err := protocol.NewDataEncapsulatedContentInfo(raw)
	if err != nil {
		panic(err)
	}
	sd, err := protocol.NewSignedData(eci)
	if err != nil {
		panic(err)
	}
	for _, c := range certs {
		if err := sd.AddSignerInfo([]*x509.Certificate{c}, w.keys[c]); err != nil {
			panic(err)
		}
	}
	return sd.SignerInfos
}

// forge: a signer info made with key of `with` but naming certificate `as`.
func (w *world) forge(raw []byte, as, with *x509.Certificate) protocol.SignerInfo {
	si := w.signInfos(raw, []*x509.Certificate{with})[0]
	sid, err := protocol.NewIssuerAndSerialNumber(as)
	if err != nil {
		panic(err)
	}
	si.SID = sid
	return si
}

func (u *ucase) build(w *world) (cppki.SignedTRC, error) {
	t := u.t
	verr := t.Validate()
	if verr == nil {
		raw, err := t.Encode()
		if err != nil {
			t.Raw = []byte("unencodable payload")
		} else {
			t.Raw = raw
		}
	} else {
		t.Raw = []byte("invalid payload")
	}
	sis := w.signInfos(t.Raw, u.signers)
	// shuffle the signer infos: their order must not matter
	for i := len(sis) - 1; i > 0; i-- {
		j := w.r.Intn(i + 1)
		sis[i], sis[j] = sis[j], sis[i]
	}
	u.t = t
	for _, f := range u.post {
		sis = f(w, sis)
	}
	return cppki.SignedTRC{TRC: t, SignerInfos: sis}, verr
}

// signedBy: some signer info names c (as the real FindCertificate sees it) and verifies under c.
func signedBy(s *cppki.SignedTRC, c *x509.Certificate) bool {
	for _, si := range s.SignerInfos {
		if f, err := si.FindCertificate([]*x509.Certificate{c}); err == nil && f == c {
			if s.VerifVerifySignerInfo(c, si) == nil {
				return true
			}
		}
	}
	return false
}

func kindOf(c *x509.Certificate) cppki.CertType {
	k, err := cppki.ValidateCert(c)
	if err != nil {
		return cppki.Invalid
	}
	return k
}

// c32Broken evaluates the statement of C32 on an ACCEPTED (pred, signed) pair, directly on the
// real objects: the names of the clauses that do not hold.
func c32Broken(pred *cppki.TRC, s *cppki.SignedTRC) []string {
	var v []string
	add := func(c bool, n string) {
		if c {
			v = append(v, n)
		}
	}
	t := &s.TRC
	if len(violated(t)) > 0 {
		add(true, "invalid-payload")
	}
	if t.ID.Base == t.ID.Serial {
		add(pred != nil, "base-with-predecessor")
		for _, c := range t.Certificates {
			if k := kindOf(c); k == cppki.Sensitive || k == cppki.Regular {
				add(!signedBy(s, c), "base-voter-not-signed")
			}
		}
		return v
	}
	if pred == nil {
		return append(v, "no-predecessor")
	}
	add(pred.ID.ISD != t.ID.ISD, "isd")
	add(pred.ID.Base != t.ID.Base, "base-number")
	add(pred.ID.Serial+1 != t.ID.Serial || pred.ID.Serial+1 == 0, "serial")
	add(pred.NoTrustReset != t.NoTrustReset, "no-trust-reset")
	distinct := map[int]bool{}
	nSens, nReg := 0, 0
	for _, i := range t.Votes {
		if i < 0 || i >= len(pred.Certificates) {
			add(true, "vote-out-of-range")
			continue
		}
		switch kindOf(pred.Certificates[i]) {
		case cppki.Sensitive:
			nSens++
		case cppki.Regular:
			nReg++
		default:
			add(true, "vote-by-non-voter")
		}
		if !distinct[i] {
			add(!signedBy(s, pred.Certificates[i]), "voter-not-signed")
		}
		distinct[i] = true
	}
	add(len(distinct) < pred.Quorum, "quorum-of-distinct-voters")
	add(len(distinct) != len(t.Votes), "duplicate-vote")
	add(nSens > 0 && nReg > 0, "mixed-votes")
	for _, c := range newVoterCerts(pred, t) {
		add(!signedBy(s, c), "new-voter-not-signed")
	}
	if nReg > 0 && nSens == 0 { // regular update
		add(pred.Quorum != t.Quorum, "regular-quorum-changed")
		add(fmt.Sprint(pred.CoreASes) != fmt.Sprint(t.CoreASes), "regular-core-changed")
		add(fmt.Sprint(pred.AuthoritativeASes) != fmt.Sprint(t.AuthoritativeASes), "regular-auth-changed")
		raws := func(x *cppki.TRC, ct cppki.CertType) []string {
			var r []string
			for _, i := range idxOf(x, ct) {
				r = append(r, string(x.Certificates[i].Raw))
			}
			sort.Strings(r)
			return r
		}
		add(strings.Join(raws(pred, cppki.Sensitive), "|") != strings.Join(raws(t, cppki.Sensitive), "|"),
			"regular-sensitive-changed")
		for _, ct := range []cppki.CertType{cppki.Root, cppki.Regular} {
			subj := func(x *cppki.TRC) []string {
				var r []string
				for _, i := range idxOf(x, ct) {
					r = append(r, string(x.Certificates[i].RawSubject))
				}
				sort.Strings(r)
				return r
			}
			if strings.Join(subj(pred), "|") != strings.Join(subj(t), "|") {
				// distinguish "names differ only in attributes that cppki.equalName does not see"
				names := func(x *cppki.TRC) []string {
					var r []string
					for _, i := range idxOf(x, ct) {
						r = append(r, x.Certificates[i].Subject.ToRDNSequence().String())
					}
					sort.Strings(r)
					return r
				}
				if strings.Join(names(pred), "|") == strings.Join(names(t), "|") {
					add(true, "regular-update-dn-isd-as-changed")
				} else {
					add(true, map[cppki.CertType]string{cppki.Root: "regular-root-added-or-removed",
						cppki.Regular: "regular-voter-added-or-removed"}[ct])
				}
			}
			for _, i := range idxOf(pred, ct) {
				pc := pred.Certificates[i]
				for _, j := range idxOf(t, ct) {
					c := t.Certificates[j]
					if bytes.Equal(pc.RawSubject, c.RawSubject) && !bytes.Equal(pc.Raw, c.Raw) {
						if ct == cppki.Regular {
							add(!distinct[i], "replaced-voter-did-not-vote")
						} else {
							add(!signedBy(s, pc), "replaced-root-did-not-acknowledge")
						}
					}
				}
			}
		}
	}
	return v
}

type replayUpd struct {
	Pred, Succ *replayTRC
	Signers    []string
	Notes      []string
	Op         string
}

func (w *world) runCase(e *vlib.Env, u *ucase) {
	s, verr := u.build(w)
	in := w.in
	// candidates for the verification table: every certificate of both payloads
	var cands []*x509.Certificate
	if u.pred != nil {
		cands = append(cands, u.pred.Certificates...)
	}
	cands = append(cands, s.TRC.Certificates...)
	sis := make([]string, len(s.SignerInfos))
	for i, si := range s.SignerInfos {
		sis[i] = in.signer(&s, si, cands)
	}
	sisS := "-"
	if len(sis) > 0 {
		sisS = strings.Join(sis, ",")
	}
	predS := "nil"
	if u.pred != nil {
		predS = in.trc(u.pred)
	}
	op := "upd " + in.trc(&s.TRC) + " P " + predS + " S " + sisS

	isBase := s.TRC.ID.Base == s.TRC.ID.Serial
	var upd cppki.Update
	var uerr error
	ans, ok := vlib.Safe(func() string {
		if !isBase {
			upd, uerr = s.TRC.ValidateUpdate(u.pred)
		}
		err := s.Verify(u.pred)
		var head string
		switch {
		case err == nil:
			head = "ok"
		case isBase && u.pred != nil: // checked before the payload is looked at
			head = "base-pred"
		case verr != nil:
			head = "val " + strings.TrimPrefix(valErr(verr), "err ")
		case !isBase && uerr != nil:
			head = "upd-rej"
		default:
			head = "sig-rej"
		}
		if !isBase && uerr == nil {
			idx := func(t *cppki.TRC, cs []*x509.Certificate, sorted bool) string {
				var r []int
				for _, c := range cs {
					r = append(r, indexOfCert(t, c))
				}
				if sorted {
					sort.Ints(r)
				}
				return joinInts(r)
			}
			ty := "sensitive"
			if upd.Type == cppki.RegularUpdate {
				ty = "regular"
			}
			head += fmt.Sprintf(" | %s nv=%s v=%s a=%s", ty, idx(&s.TRC, upd.NewVoters, true),
				idx(u.pred, upd.Votes, false), idx(u.pred, upd.RootAcknowledgments, true))
		}
		if err == nil {
			if b := c32Broken(u.pred, &s); len(b) > 0 {
				e.Violate("C32/accepted-"+b[0], fmt.Sprintf("SignedTRC.Verify accepts although %v", b),
					w.replayUpd(u, sis, op))
			}
		}
		return head
	})
	if !ok {
		e.Violate("C32/panic", "Verify/ValidateUpdate panicked: "+ans, w.replayUpd(u, sis, op))
	}
	tag := strings.SplitN(ans, " ", 2)[0]
	if strings.Contains(ans, "| regular") {
		tag += "/regular"
	} else if strings.Contains(ans, "| sensitive") {
		tag += "/sensitive"
	} else if isBase {
		tag += "/base"
	}
	if strings.HasPrefix(ans, "val ") {
		tag = ans
	}
	e.Op(op, ans, tag)
	e.Sample(map[string]any{"notes": u.notes, "impl": ans})
}

func (w *world) replayUpd(u *ucase, sis []string, op string) replayUpd {
	r := replayUpd{Signers: sis, Notes: u.notes, Op: op}
	st := w.replay(&payload{T: u.t})
	r.Succ = &st
	if u.pred != nil {
		pt := w.replay(&payload{T: *u.pred})
		r.Pred = &pt
	}
	return r
}

// ---- case mutations (each breaks one clause of the statement, or is neutral)

type umut struct {
	name string
	f    func(w *world, u *ucase)
}

func dropSigner(u *ucase, c *x509.Certificate) {
	var r []*x509.Certificate
	for _, x := range u.signers {
		if x != c {
			r = append(r, x)
		}
	}
	u.signers = r
}

// predCertAt: the predecessor certificate named by vote number k, nil when there is no such vote,
// no predecessor, or the vote is out of range (mutators compose, so any of these can happen).
func predCertAt(u *ucase, k int) *x509.Certificate {
	if u.pred == nil || k < 0 || k >= len(u.t.Votes) {
		return nil
	}
	if v := u.t.Votes[k]; v >= 0 && v < len(u.pred.Certificates) {
		return u.pred.Certificates[v]
	}
	return nil
}

// apply runs a mutator; a panic inside a mutator (a generator bug, never a verdict about the code
// under test) is counted and the mutation abandoned — the case is still a legitimate input.
func apply(e *vlib.Env, name string, f func()) {
	defer func() {
		if r := recover(); r != nil {
			n, _ := e.Extra["generator_panics"].(int)
			e.Extra["generator_panics"] = n + 1
			e.Extra["generator_panic_last"] = fmt.Sprintf("%s: %v", name, r)
		}
	}()
	f()
}

func (w *world) otherClassIdx(u *ucase) int { // index in pred of a voter of the class that is NOT voting
	v0 := predCertAt(u, 0)
	if v0 == nil {
		return -1
	}
	k := kindOf(v0)
	want := cppki.Sensitive
	if k == cppki.Sensitive {
		want = cppki.Regular
	}
	ix := idxOf(u.pred, want)
	if len(ix) == 0 {
		return -1
	}
	return ix[w.r.Intn(len(ix))]
}

var umuts = []umut{
	{"none", func(w *world, u *ucase) {}},
	{"dup-vote", func(w *world, u *ucase) {
		if n := len(u.t.Votes); n > 0 {
			u.t.Votes = append(u.t.Votes, u.t.Votes[w.r.Intn(n)])
			u.t.Votes = w.perm(u.t.Votes)
		}
	}},
	{"dup-vote-replacing", func(w *world, u *ucase) { // same count, one voter twice instead of another
		if c := predCertAt(u, 1); c != nil {
			dropSigner(u, c)
			u.t.Votes[1] = u.t.Votes[0]
		}
	}},
	{"too-few-votes", func(w *world, u *ucase) {
		if u.pred != nil && u.pred.Quorum >= 1 && len(u.t.Votes) >= u.pred.Quorum {
			u.t.Votes = u.t.Votes[:u.pred.Quorum-1]
		}
	}},
	{"wrong-class-vote-appended", func(w *world, u *ucase) {
		if i := w.otherClassIdx(u); i >= 0 {
			u.t.Votes = append(u.t.Votes, i)
			u.signers = append(u.signers, u.pred.Certificates[i])
		}
	}},
	{"wrong-class-vote-first", func(w *world, u *ucase) {
		if i := w.otherClassIdx(u); i >= 0 {
			u.t.Votes = append([]int{i}, u.t.Votes...)
			u.signers = append(u.signers, u.pred.Certificates[i])
		}
	}},
	{"root-votes", func(w *world, u *ucase) {
		if u.pred == nil {
			return
		}
		if ix := idxOf(u.pred, cppki.Root); len(ix) > 0 {
			i := ix[w.r.Intn(len(ix))]
			u.t.Votes = append(u.t.Votes, i)
			u.signers = append(u.signers, u.pred.Certificates[i])
		}
	}},
	{"vote-out-of-range", func(w *world, u *ucase) {
		if u.pred == nil {
			return
		}
		n := len(u.pred.Certificates)
		bad := []int{-1, n, n + 1, n + 100, -n, 1 << 40}[w.r.Intn(6)]
		if w.r.Bool() {
			u.t.Votes = append(u.t.Votes, bad)
		} else {
			u.t.Votes = append([]int{bad}, u.t.Votes...)
		}
	}},
	{"missing-signature", func(w *world, u *ucase) {
		if n := len(u.signers); n > 0 {
			dropSigner(u, u.signers[w.r.Intn(n)])
		}
	}},
	{"no-signatures", func(w *world, u *ucase) { u.signers = nil }},
	{"corrupt-signature", func(w *world, u *ucase) {
		u.post = append(u.post, func(w *world, sis []protocol.SignerInfo) []protocol.SignerInfo {
			if len(sis) > 0 {
				i := w.r.Intn(len(sis))
				sig := append([]byte(nil), sis[i].Signature...)
				if len(sig) == 0 {
					return sis
				}
				sig[len(sig)-1-w.r.Intn(min(8, len(sig)))] ^= 1 << uint(w.r.Intn(8))
				sis[i].Signature = sig
			}
			return sis
		})
	}},
	{"forged-signer", func(w *world, u *ucase) { // signed with somebody else's key
		if n := len(u.signers); n > 0 {
			c := u.signers[w.r.Intn(n)]
			dropSigner(u, c)
			u.post = append(u.post, func(w *world, sis []protocol.SignerInfo) []protocol.SignerInfo {
				return append(sis, w.forge(u.t.Raw, c, w.otherISD[0].Cert))
			})
		}
	}},
	{"signature-over-other-payload", func(w *world, u *ucase) {
		if n := len(u.signers); n > 0 {
			c := u.signers[w.r.Intn(n)]
			dropSigner(u, c)
			u.post = append(u.post, func(w *world, sis []protocol.SignerInfo) []protocol.SignerInfo {
				return append(sis, w.signInfos([]byte("another payload"), []*x509.Certificate{c})...)
			})
		}
	}},
	{"extra-unrelated-signer", func(w *world, u *ucase) { u.signers = append(u.signers, w.otherISD[1].Cert) }},
	{"extra-root-signer", func(w *world, u *ucase) {
		if ix := idxOf(&u.t, cppki.Root); len(ix) > 0 {
			u.signers = append(u.signers, u.t.Certificates[ix[0]])
		}
	}},
	{"duplicate-signer-info", func(w *world, u *ucase) {
		if n := len(u.signers); n > 0 {
			u.signers = append(u.signers, u.signers[w.r.Intn(n)])
		}
	}},
	{"unsupported-sid-version", func(w *world, u *ucase) {
		u.post = append(u.post, func(w *world, sis []protocol.SignerInfo) []protocol.SignerInfo {
			si := w.signInfos(u.t.Raw, []*x509.Certificate{w.otherISD[1].Cert})[0]
			si.Version = []int{0, 2, 4}[w.r.Intn(3)]
			return append(sis, si)
		})
	}},
	{"sid-by-subject-key-id", func(w *world, u *ucase) { // CMS v3 identifiers are honoured too
		u.post = append(u.post, func(w *world, sis []protocol.SignerInfo) []protocol.SignerInfo {
			if len(sis) > 0 && len(u.signers) > 0 {
				i := w.r.Intn(len(sis))
				for _, c := range u.signers {
					if f, err := sis[i].FindCertificate([]*x509.Certificate{c}); err == nil && f == c {
						sis[i].Version = 3
						sis[i].SID = asn1.RawValue{Class: asn1.ClassContextSpecific, Tag: 0, Bytes: skiValue(c)}
						if w.r.Chance(30) { // a key id that matches nobody
							sis[i].SID.Bytes = []byte{4, 2, 1, 2}
						}
						break
					}
				}
			}
			return sis
		})
	}},
	{"serial+2", func(w *world, u *ucase) { u.t.ID.Serial++ }},
	{"serial-same", func(w *world, u *ucase) {
		if u.pred != nil && u.pred.ID.Serial > u.pred.ID.Base {
			u.t.ID.Serial = u.pred.ID.Serial
		}
	}},
	{"base-number-changed", func(w *world, u *ucase) {
		if u.t.ID.Base > 1 {
			u.t.ID.Base--
		} else if u.t.ID.Serial > u.t.ID.Base+1 {
			u.t.ID.Base++
		}
	}},
	{"no-trust-reset-flipped", func(w *world, u *ucase) { u.t.NoTrustReset = !u.t.NoTrustReset }},
	{"nil-predecessor", func(w *world, u *ucase) { u.pred = nil }},
	{"quorum-changed", func(w *world, u *ucase) {
		m := min(countKind(&u.t, cppki.Sensitive), countKind(&u.t, cppki.Regular))
		if u.t.Quorum < m {
			u.t.Quorum++
		} else if u.t.Quorum > 1 {
			u.t.Quorum--
		}
	}},
	{"core-changed", func(w *world, u *ucase) {
		if n := len(u.t.CoreASes); n > 1 && w.r.Bool() {
			u.t.CoreASes[0], u.t.CoreASes[n-1] = u.t.CoreASes[n-1], u.t.CoreASes[0] // reordering counts
		} else {
			u.t.CoreASes = append(u.t.CoreASes, 0xff0000000300)
		}
	}},
	{"auth-changed", func(w *world, u *ucase) { u.t.AuthoritativeASes = append(u.t.AuthoritativeASes, 0xff0000000301) }},
	// successor AS lists that are a proper prefix / suffix / sub-sequence of the predecessor's:
	// not "unchanged", so never a regular update (fine as a sensitive one)
	{"core-drop-last", func(w *world, u *ucase) { dropASes(w, u, true, "last", 1) }},
	{"auth-drop-last", func(w *world, u *ucase) { dropASes(w, u, false, "last", 1) }},
	{"core-drop-last-k", func(w *world, u *ucase) { dropASes(w, u, true, "last", 2+w.r.Intn(2)) }},
	{"auth-drop-last-k", func(w *world, u *ucase) { dropASes(w, u, false, "last", 2+w.r.Intn(2)) }},
	{"core-drop-first", func(w *world, u *ucase) { dropASes(w, u, true, "first", 1) }},
	{"auth-drop-first", func(w *world, u *ucase) { dropASes(w, u, false, "first", 1) }},
	{"core-drop-middle", func(w *world, u *ucase) { dropASes(w, u, true, "middle", 1) }},
	{"auth-drop-middle", func(w *world, u *ucase) { dropASes(w, u, false, "middle", 1) }},
	// a NEW sensitive and a NEW regular voter with the same subject DN: both must show proof of
	// possession; exactly one of the two signatures is missing
	{"twin-voters-one-signature-missing", func(w *world, u *ucase) {
		i := w.r.Intn(len(w.twinSens))
		pair := []*x509.Certificate{w.twinSens[i].Cert, w.twinReg[i].Cert}
		for _, c := range pair {
			if u.pred != nil && hasCert(u.pred, c) {
				return // not new in this update
			}
		}
		for _, c := range pair {
			if !hasCert(&u.t, c) {
				w.insertCert(&u.t, c)
			}
			dropSigner(u, c)
		}
		u.signers = append(u.signers, pair[w.r.Intn(2)])
	}},
	{"twin-voters-both-sign", func(w *world, u *ucase) {
		i := w.r.Intn(len(w.twinSens))
		for _, c := range []*x509.Certificate{w.twinSens[i].Cert, w.twinReg[i].Cert} {
			if u.pred != nil && hasCert(u.pred, c) {
				return
			}
			if !hasCert(&u.t, c) {
				w.insertCert(&u.t, c)
			}
			dropSigner(u, c)
			u.signers = append(u.signers, c)
		}
	}},
	{"sensitive-reissued", func(w *world, u *ucase) {
		if ix := idxOf(&u.t, cppki.Sensitive); len(ix) > 0 {
			i := ix[w.r.Intn(len(ix))]
			if n := w.nextVersion(u.t.Certificates[i]); n != nil {
				u.t.Certificates[i] = n
				u.signers = append(u.signers, n)
			}
		}
	}},
	{"cert-added", func(w *world, u *ucase) {
		g := []*[nAS][]*pc{&w.sens, &w.reg, &w.root}[w.r.Intn(3)]
		for a := 0; a < nAS; a++ {
			if !hasCert(&u.t, g[a][0].Cert) && !hasCert(&u.t, g[a][1].Cert) && !hasCert(&u.t, g[a][2].Cert) {
				w.insertCert(&u.t, g[a][0].Cert)
				u.signers = append(u.signers, g[a][0].Cert)
				return
			}
		}
	}},
	{"cert-removed", func(w *world, u *ucase) {
		ct := []cppki.CertType{cppki.Sensitive, cppki.Regular, cppki.Root}[w.r.Intn(3)]
		if ix := idxOf(&u.t, ct); len(ix) > 0 {
			i := ix[w.r.Intn(len(ix))]
			u.t.Certificates = append(u.t.Certificates[:i:i], u.t.Certificates[i+1:]...)
		}
	}},
	{"cert-swapped-for-other-subject", func(w *world, u *ucase) { // same count, another subject
		ct := []cppki.CertType{cppki.Regular, cppki.Root}[w.r.Intn(2)]
		g := map[cppki.CertType]*[nAS][]*pc{cppki.Regular: &w.reg, cppki.Root: &w.root}[ct]
		if ix := idxOf(&u.t, ct); len(ix) > 0 {
			i := ix[w.r.Intn(len(ix))]
			for a := 0; a < nAS; a++ {
				if !hasCert(&u.t, g[a][0].Cert) && !hasCert(&u.t, g[a][1].Cert) && !hasCert(&u.t, g[a][2].Cert) {
					u.t.Certificates[i] = g[a][0].Cert
					u.signers = append(u.signers, g[a][0].Cert)
					return
				}
			}
		}
	}},
	{"reissued-voter-does-not-vote", func(w *world, u *ucase) {
		if u.pred == nil {
			return
		}
		for _, i := range idxOf(u.pred, cppki.Regular) {
			voted := false
			for _, v := range u.t.Votes {
				voted = voted || v == i
			}
			j := indexOfCert(&u.t, u.pred.Certificates[i])
			if !voted && j >= 0 {
				if n := w.nextVersion(u.pred.Certificates[i]); n != nil {
					u.t.Certificates[j] = n
					u.signers = append(u.signers, n)
					return
				}
			}
		}
	}},
	{"voter-moved-to-other-as", func(w *world, u *ucase) {
		// the regular voter "1-ff00:0:110 regular" of AS 110 is replaced by a certificate with the
		// same common name but ISD-AS 1-ff00:0:111 (another distinguished name, another key)
		if u.pred == nil || !*flagDN {
			return
		}
		i := indexOfCert(u.pred, w.reg[0][0].Cert)
		j := indexOfCert(&u.t, w.reg[0][0].Cert)
		if i < 0 || j < 0 {
			return
		}
		u.t.Certificates[j] = w.sameCNOtherIA.Cert
		u.signers = append(u.signers, w.sameCNOtherIA.Cert)
		voted := false
		for _, v := range u.t.Votes {
			voted = voted || v == i
		}
		if v0 := predCertAt(u, 0); !voted && v0 != nil && kindOf(v0) == cppki.Regular {
			u.t.Votes = append(u.t.Votes, i)
			u.signers = append(u.signers, u.pred.Certificates[i])
		}
		u.notes = append(u.notes, "dn-changed")
	}},
	{"predecessor-with-ca-cert", func(w *world, u *ucase) {
		if u.pred != nil {
			p := cloneTRC(*u.pred)
			p.Certificates = append(p.Certificates, w.ca.Cert)
			u.pred = &p
		}
	}},
	{"invalid-payload", func(w *world, u *ucase) {
		m := mutators[w.r.Intn(len(mutators))]
		m.f(w, &u.t)
		u.notes = append(u.notes, m.name)
	}},
	{"base-with-predecessor", func(w *world, u *ucase) {
		if u.pred != nil {
			u.t.ID.Serial = u.t.ID.Base
			u.t.Votes, u.t.GracePeriod = nil, 0
		}
	}},
}

// noIAWorld: predecessor of ISD 1 and successor of ISD 2 that are both valid payloads (voters
// without ISD-AS attribute fit any ISD): the only way to reach the ISD comparison.
func (w *world) isdChange() *ucase {
	p := cppki.TRC{Version: 1, ID: cppki.TRCID{ISD: 1, Base: 1, Serial: 1},
		Validity: cppki.Validity{NotBefore: sec(0), NotAfter: sec(5000)}, Quorum: 1,
		CoreASes: []addr.AS{w.ases[0]}, AuthoritativeASes: []addr.AS{w.ases[0]},
		Certificates: []*x509.Certificate{w.noIASens.Cert, w.noIAReg.Cert}}
	u := &ucase{pred: &p, t: cloneTRC(p), notes: []string{"isd-change"}}
	u.t.ID.Serial = 2
	u.t.ID.ISD = 2
	u.t.Votes = []int{w.r.Intn(2)}
	u.signers = []*x509.Certificate{p.Certificates[u.t.Votes[0]]}
	return u
}

// dropASes makes the successor's core (or authoritative) AS list the predecessor's list minus k
// entries at the given place, at least one entry remaining.  The predecessor's list is first
// extended (on a copy; the predecessor is not signature-checked) so that enough entries exist.
func dropASes(w *world, u *ucase, core bool, where string, k int) {
	if u.pred == nil {
		return
	}
	p := cloneTRC(*u.pred)
	p.Raw = u.pred.Raw
	lst := &p.AuthoritativeASes
	if core {
		lst = &p.CoreASes
	}
	for a := addr.AS(0xff0000000400); len(*lst) < k+2; a++ {
		dup := false
		for _, x := range *lst {
			dup = dup || x == a
		}
		if !dup {
			*lst = append(*lst, a)
		}
	}
	u.pred = &p
	n := len(*lst)
	var next []addr.AS
	switch where {
	case "last":
		next = append(next, (*lst)[:n-k]...)
	case "first":
		next = append(next, (*lst)[k:]...)
	default:
		i := 1 + w.r.Intn(n-2)
		next = append(append(next, (*lst)[:i]...), (*lst)[i+1:]...)
	}
	if core {
		u.t.CoreASes = next
	} else {
		u.t.AuthoritativeASes = next
	}
	u.notes = append(u.notes, fmt.Sprintf("%s-ases-dropped-%s-%d", map[bool]string{true: "core", false: "auth"}[core], where, k))
}

var _ crypto.Signer

// -dn enables the generator case "regular update that moves a voter to another ISD-AS while
// keeping the common name" (candidate finding: cppki.equalName ignores the ISD-AS attribute).
var flagDN = flag.Bool("dn", false, "generate regular updates whose DN changes only in the ISD-AS attribute")

func runC32(e *vlib.Env, w *world) {
	e.Rule = "predecessor/successor pairs from a pool of real certificates with real CMS signatures: regular updates " +
		"(re-issued regular voters and roots), sensitive updates (7 shapes), base TRCs; each alone and with every case " +
		"mutation (duplicate / wrong-class / out-of-range votes, too few votes, missing, corrupted, forged, foreign-payload " +
		"and malformed signer infos, v3 signer ids, ID / flag changes, regular-update restrictions, invalid payloads, odd " +
		"predecessors) and random pairs of mutations; real ValidateUpdate + SignedTRC.Verify vs the model (verdict, update " +
		"type, new voters, votes, root acknowledgments); statement predicate on every accepted pair; distinct by op line"
	mk := func() *ucase {
		switch w.r.Intn(10) {
		case 0, 1, 2, 3:
			return w.regularUpdate(w.validPred())
		case 4, 5, 6, 7:
			return w.sensitiveUpdate(w.validPred())
		case 8:
			return w.isdChange()
		default:
			return w.baseCase()
		}
	}
	for i := e.N(250, 3000); i > 0; i-- {
		w.runCase(e, mk())
	}
	per := e.N(30, 400)
	for _, m := range umuts {
		for i := 0; i < per; i++ {
			u := mk()
			apply(e, m.name, func() { m.f(w, u) })
			u.notes = append(u.notes, m.name)
			w.runCase(e, u)
		}
	}
	for i := e.N(1200, 20000); i > 0; i-- {
		u := mk()
		for k := 0; k < 2; k++ {
			m := umuts[w.r.Intn(len(umuts))]
			apply(e, m.name, func() { m.f(w, u) })
			u.notes = append(u.notes, m.name)
		}
		w.runCase(e, u)
	}
}
