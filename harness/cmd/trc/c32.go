package main

import "verifharness/vlib"

func runC32(e *vlib.Env, w *world) {}
