// The generator's world: a pool of real certificates of ISD 1 (and a few deliberately odd ones)
// and builders for mostly-valid TRC payloads.
package main

import (
	"crypto"
	"crypto/x509"
	"fmt"
	"time"

	"github.com/scionproto/scion/pkg/addr"
	"github.com/scionproto/scion/pkg/scrypto"
	"github.com/scionproto/scion/pkg/scrypto/cppki"

	"verifharness/vlib"
)

const nAS = 6

type world struct {
	in  *interner
	r   *vlib.Rand
	ser int64
	// [as][version]: version 0 = original, 1.. = re-issued (same subject, new key and serial)
	sens, reg, root [nAS][]*pc
	noIASens, noIAReg   *pc
	twinSens, twinReg   [3]*pc // sensitive + regular voter with the SAME subject DN (distinct keys, serials)
	noIATight           [2]*pc // sens, reg voters WITHOUT ISD-AS, valid exactly [sec(0), sec(5000)]
	noIAShort           [2]*pc // sens, reg voters WITHOUT ISD-AS, valid [sec(100), sec(4000)] only
	otherISD            [3]*pc // sens, reg, root of ISD 2
	ca, as              *pc
	badBoth, badSigUse  *pc
	tight               [3]*pc // sens, reg, root valid exactly [sec(0), sec(5000)]
	clashRegAsRoot      *pc    // regular voter with the subject AND serial of root[0][0]
	sameCNOtherIA       *pc    // regular voter of AS 1 with the common name of reg[0][0]
	keys                map[*x509.Certificate]crypto.Signer
	ases                [nAS]addr.AS
}

func iaStr(isd int, i int) string { return fmt.Sprintf("%d-ff00:0:%x", isd, 0x110+i) }

func (w *world) next() int64 { w.ser++; return w.ser }

func (w *world) add(p *pc) *pc { w.keys[p.Cert] = p.Key; return p }

func newWorld(r *vlib.Rand) *world {
	selfTestPool()
	w := &world{in: newInterner(), r: r, ser: 1000, keys: map[*x509.Certificate]crypto.Signer{}}
	wide := func(k kind, ia, cn string) spec {
		return spec{kind: k, ia: ia, cn: cn, nb: sec(-10000), na: sec(10000), serial: w.next()}
	}
	for i := 0; i < nAS; i++ {
		w.ases[i] = addr.AS(0xff0000000110 + uint64(i))
		for v := 0; v < 3; v++ {
			w.sens[i] = append(w.sens[i], w.add(mkCert(wide(kSens, iaStr(1, i), iaStr(1, i)+" sensitive"))))
			w.reg[i] = append(w.reg[i], w.add(mkCert(wide(kReg, iaStr(1, i), iaStr(1, i)+" regular"))))
			w.root[i] = append(w.root[i], w.add(mkCert(wide(kRoot, iaStr(1, i), iaStr(1, i)+" root"))))
		}
	}
	w.noIASens = w.add(mkCert(wide(kSens, "", "sensitive without ia")))
	w.noIAReg = w.add(mkCert(wide(kReg, "", "regular without ia")))
	for k, kk := range []kind{kSens, kReg} {
		t := wide(kk, "", "tight voter without ia")
		t.nb, t.na = sec(0), sec(5000)
		w.noIATight[k] = w.add(mkCert(t))
		t = wide(kk, "", "short-lived voter without ia")
		t.nb, t.na = sec(100), sec(4000)
		w.noIAShort[k] = w.add(mkCert(t))
	}
	for i := range w.twinSens {
		w.twinSens[i] = w.add(mkCert(wide(kSens, iaStr(1, i), iaStr(1, i)+" voter")))
		w.twinReg[i] = w.add(mkCert(wide(kReg, iaStr(1, i), iaStr(1, i)+" voter")))
	}
	w.otherISD[0] = w.add(mkCert(wide(kSens, iaStr(2, 0), "sensitive")))
	w.otherISD[1] = w.add(mkCert(wide(kReg, iaStr(2, 0), "regular")))
	w.otherISD[2] = w.add(mkCert(wide(kRoot, iaStr(2, 0), "root")))
	s := wide(kCA, iaStr(1, 0), "ca")
	s.issuer = w.root[0][0]
	w.ca = w.add(mkCert(s))
	s = wide(kAS, iaStr(1, 0), "as")
	s.issuer = w.ca
	w.as = w.add(mkCert(s))
	w.badBoth = w.add(mkCert(wide(kBadBoth, iaStr(1, 0), "both usages")))
	w.badSigUse = w.add(mkCert(wide(kBadSigUse, iaStr(1, 0), "digital signature")))
	for k, kk := range []kind{kSens, kReg, kRoot} {
		t := wide(kk, iaStr(1, nAS-1), "tight")
		t.nb, t.na = sec(0), sec(5000)
		w.tight[k] = w.add(mkCert(t))
	}
	// self-signed, so issuer = subject: a regular voter carrying root[0][0]'s subject and serial
	// clashes with it on issuer+serial while being unique by subject within its class.
	c := wide(kReg, iaStr(1, 0), iaStr(1, 0)+" root")
	c.serial = w.root[0][0].Cert.SerialNumber.Int64()
	w.clashRegAsRoot = w.add(mkCert(c))
	// same standard attributes (CN) as reg[0][0] but another ISD-AS attribute: cppki.equalName
	// compares parsed names via ToRDNSequence, which drops the non-standard ISD-AS attribute.
	w.sameCNOtherIA = w.add(mkCert(wide(kReg, iaStr(1, 1), iaStr(1, 0)+" regular")))
	return w
}

// payload is a TRC under construction together with the generator's knowledge about it.
type payload struct {
	T     cppki.TRC
	Notes []string
}

func (w *world) pick(n int) []int { // n distinct AS indices
	p := make([]int, nAS)
	for i := range p {
		p[i] = i
	}
	for i := nAS - 1; i > 0; i-- {
		j := w.r.Intn(i + 1)
		p[i], p[j] = p[j], p[i]
	}
	return p[:n]
}

func (w *world) shuffle(cs []*x509.Certificate) {
	for i := len(cs) - 1; i > 0; i-- {
		j := w.r.Intn(i + 1)
		cs[i], cs[j] = cs[j], cs[i]
	}
}

// validBase builds a payload that satisfies every rule (base TRC of ISD 1).
func (w *world) validBase() *payload {
	ns, nr, no := w.r.Range(1, 4), w.r.Range(1, 4), w.r.Intn(4)
	var certs []*x509.Certificate
	for _, i := range w.pick(ns) {
		certs = append(certs, w.sens[i][0].Cert)
	}
	for _, i := range w.pick(nr) {
		certs = append(certs, w.reg[i][0].Cert)
	}
	for _, i := range w.pick(no) {
		certs = append(certs, w.root[i][0].Cert)
	}
	if w.r.Chance(15) {
		certs = append(certs, w.noIASens.Cert)
		ns++
	}
	if w.r.Chance(15) {
		certs = append(certs, w.noIAReg.Cert)
		nr++
	}
	if w.r.Chance(20) {
		k := w.r.Intn(3)
		certs = append(certs, w.tight[k].Cert)
		if k == 0 {
			ns++
		} else if k == 1 {
			nr++
		}
	}
	if w.r.Chance(12) { // a voter without ISD-AS whose validity covers the TRC's exactly
		k := w.r.Intn(2)
		certs = append(certs, w.noIATight[k].Cert)
		if k == 0 {
			ns++
		} else {
			nr++
		}
	}
	if w.r.Chance(12) { // subjects are unique per class only: a sensitive and a regular voter may share a DN
		i := w.r.Intn(len(w.twinSens))
		certs = append(certs, w.twinSens[i].Cert, w.twinReg[i].Cert)
		ns++
		nr++
	}
	if w.r.Chance(70) {
		w.shuffle(certs)
	}
	var core, auth []addr.AS
	for _, i := range w.pick(w.r.Range(1, 4)) {
		core = append(core, w.ases[i])
	}
	for _, i := range w.pick(w.r.Range(1, 3)) {
		auth = append(auth, w.ases[i])
	}
	base := scrypto.Version(w.r.Range(1, 5))
	q := w.r.Range(1, min(ns, nr))
	return &payload{T: cppki.TRC{
		Version:           1,
		ID:                cppki.TRCID{ISD: 1, Base: base, Serial: base},
		Validity:          cppki.Validity{NotBefore: sec(0), NotAfter: sec(5000)},
		NoTrustReset:      w.r.Chance(30),
		Quorum:            q,
		CoreASes:          core,
		AuthoritativeASes: auth,
		Description:       []string{"", "ISD 1", "Zürich ISD — test", "x"}[w.r.Intn(4)],
		Certificates:      certs,
	}}
}

// validAny turns a valid base payload into a non-base one half of the time (votes and grace
// period are unconstrained by Validate on a non-base TRC).
func (w *world) validAny() *payload {
	p := w.validBase()
	if w.r.Bool() {
		p.T.ID.Serial += scrypto.Version(w.r.Range(1, 3))
		p.T.GracePeriod = time.Duration(w.r.Intn(3)) * time.Hour
		for n := w.r.Intn(4); n > 0; n-- {
			p.T.Votes = append(p.T.Votes, w.r.Range(-1, 8))
		}
	}
	return p
}

func cloneTRC(t cppki.TRC) cppki.TRC {
	c := t
	c.Raw = nil
	c.Votes = append([]int(nil), t.Votes...)
	c.CoreASes = append([]addr.AS(nil), t.CoreASes...)
	c.AuthoritativeASes = append([]addr.AS(nil), t.AuthoritativeASes...)
	c.Certificates = append([]*x509.Certificate(nil), t.Certificates...)
	return c
}
