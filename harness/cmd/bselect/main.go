// Engine "bselect" (C26): ties lean/Scion/Model/Select.lean to
// control/beacon/selection_algo.go (DefaultSelectionAlgorithm().SelectBeacons) and evaluates the
// C26 property predicate, written from the statement, on the implementation's results.
package main

import (
	"context"
	"fmt"
	"sort"
	"strings"

	"github.com/scionproto/scion/control/beacon"
	"github.com/scionproto/scion/pkg/addr"
	seg "github.com/scionproto/scion/pkg/segment"

	"verifharness/vlib"
)

type lnk struct {
	ia uint64
	eg uint16
}

type cand struct {
	id    int
	links []lnk
}

func (c cand) String() string {
	p := make([]string, len(c.links))
	for i, l := range c.links {
		p[i] = fmt.Sprintf("%d.%d", l.ia, l.eg)
	}
	return fmt.Sprintf("%d=%s", c.id, strings.Join(p, ","))
}

func toBeacon(c cand) beacon.Beacon {
	ps := &seg.PathSegment{}
	for _, l := range c.links {
		ps.ASEntries = append(ps.ASEntries, seg.ASEntry{
			Local:    addr.IA(l.ia),
			HopEntry: seg.HopEntry{HopField: seg.HopField{ConsEgress: l.eg}},
		})
	}
	return beacon.Beacon{Segment: ps, InIfID: uint16(c.id)}
}

// genSet builds a candidate list. Links come from a small universe so that shared links,
// duplicates and equal diversities are frequent.
func genSet(r *vlib.Rand, small bool) []cand {
	n := r.Intn(9)
	if small { // the first cases are small so that the first reported failing input is readable
		n = r.Intn(4)
	} else if r.Chance(10) {
		n = r.Range(9, 16)
	}
	univIA := r.Range(1, 5)
	univISD := r.Range(1, 3)
	univIf := r.Range(1, 3)
	maxLen := r.Range(1, 6)
	mk := func() []lnk {
		l := r.Range(1, maxLen)
		if r.Chance(3) {
			l = 0
		}
		out := make([]lnk, l)
		for i := range out {
			// the same AS numbers occur in several ISDs: links that differ only in the ISD are different links
			out[i] = lnk{ia: uint64(1+r.Intn(univISD))<<48 | uint64(0xff00_0000_0100+r.Intn(univIA)), eg: uint16(1 + r.Intn(univIf))}
		}
		return out
	}
	cs := make([]cand, n)
	for i := range cs {
		cs[i].links = mk()
		if i > 0 && r.Chance(15) { // exact duplicate of an earlier candidate
			cs[i].links = append([]lnk(nil), cs[r.Intn(i)].links...)
		}
		if i > 0 && r.Chance(15) { // extension of the first one (diversity 0, longer)
			cs[i].links = append(append([]lnk(nil), cs[0].links...), mk()...)
		}
		if i > 0 && r.Chance(12) { // the first candidate's links moved to another ISD (same AS numbers, same interfaces)
			cs[i].links = append([]lnk(nil), cs[0].links...)
			for j := range cs[i].links {
				if j == 0 || r.Chance(60) {
					cs[i].links[j].ia = cs[i].links[j].ia&(1<<48-1) | uint64(4+r.Intn(2))<<48
				}
			}
			if r.Chance(50) {
				cs[i].links = append(cs[i].links, mk()...)
			}
		}
		if i > 0 && r.Chance(10) { // totally disjoint
			for j := range cs[i].links {
				cs[i].links[j].ia = uint64(2)<<48 | uint64(0xff00_0000_0200+i*8+j)
			}
		}
	}
	if !r.Chance(20) { // the statement's precondition: ordered by length (stable)
		sort.SliceStable(cs, func(i, j int) bool { return len(cs[i].links) < len(cs[j].links) })
	}
	for i := range cs {
		cs[i].id = i + 1
	}
	return cs
}

func diversity(best, other cand) int {
	d := 0
	for _, l := range best.links {
		found := false
		for _, o := range other.links {
			if l == o {
				found = true
			}
		}
		if !found {
			d++
		}
	}
	return d
}

// spec evaluates the statement of C26 on a result (ids). It returns "" if the statement holds.
func spec(cs []cand, k int, res []int) string {
	n := len(cs)
	if k < 1 {
		return "" // outside the quantifier (k >= 1); only "no panic" is demanded
	}
	byID := map[int]cand{}
	for _, c := range cs {
		byID[c.id] = c
	}
	for _, id := range res {
		if _, ok := byID[id]; !ok {
			return "result contains a beacon that is not a candidate"
		}
	}
	if n <= k {
		if len(res) != n {
			return "n <= k but not all candidates returned"
		}
		for i := range res {
			if res[i] != cs[i].id {
				return "n <= k but candidates changed"
			}
		}
		return ""
	}
	if len(res) != k {
		return fmt.Sprintf("n > k but %d instead of k=%d candidates returned", len(res), k)
	}
	if k == 1 {
		return "" // DESIGN §7a: exactly one candidate from the list
	}
	for i := 0; i < k-1; i++ {
		if res[i] != cs[i].id {
			return "the k-1 first candidates are not the first k-1 results"
		}
	}
	last := byID[res[k-1]]
	if res[k-1] < k { // ids are positions+1: must be one of the remaining candidates
		return "the further candidate is one of the k-1 first ones"
	}
	best := cs[0]
	dFirst := -1
	for i := 0; i < k-1; i++ {
		dFirst = max(dFirst, diversity(best, cs[i]))
	}
	dRest, lRest := -1, 0
	for _, c := range cs[k-1:] {
		d := diversity(best, c)
		if d > dRest || (d == dRest && len(c.links) < lRest) {
			dRest, lRest = d, len(c.links)
		}
	}
	if dRest > dFirst {
		if diversity(best, last) != dRest {
			return "a remaining candidate is more diverse than the served ones but the result's last is not the most diverse"
		}
		if len(last.links) != lRest {
			return "the result's last is not the shortest among the equally most diverse"
		}
		return ""
	}
	if last.id != cs[k-1].id {
		return "no remaining candidate is more diverse, yet the last is not the first remaining candidate"
	}
	return ""
}

func main() {
	e := vlib.Init()
	e.Rule = "random candidate lists (n 0..16, links over a universe of 1-3 ISDs x 1-5 AS numbers (the same AS numbers in every ISD) x 1-3 egress ifs, copies of the first candidate moved to another ISD, lengths 0..12, " +
		"duplicates, extensions of the first, disjoint ones; 80% ordered by length) x every k in 1..n+2 (k in {-1,0} only counted); " +
		"non-trivial = 2 <= k < n (selection branch); distinct by op text; spec predicate on every case with k >= 1"
	algo := beacon.DefaultSelectionAlgorithm()
	nsets := e.N(12000, 120000)
	for i := 0; i < nsets; i++ {
		r := vlib.CaseRand(e.Seed, i)
		cs := genSet(r, i < 400)
		bs := make([]beacon.Beacon, len(cs))
		words := make([]string, len(cs))
		for j, c := range cs {
			bs[j] = toBeacon(c)
			words[j] = c.String()
		}
		for k := -1; k <= len(cs)+2; k++ {
			var res []int
			in := append([]beacon.Beacon(nil), bs...)
			ans, ok := vlib.Safe(func() string {
				out := algo.SelectBeacons(context.Background(), in, k)
				p := []string{"ok"}
				for _, b := range out {
					res = append(res, int(b.InIfID))
					p = append(p, fmt.Sprint(b.InIfID))
				}
				return strings.Join(p, " ")
			})
			tag := "~all"
			switch {
			case len(cs) <= k || k < 1:
			case k == 1:
				tag = "k=1"
			default:
				tag = "pick-first-remaining"
				if len(res) == k && res[k-1] != k {
					tag = "pick-diverse"
				}
			}
			replay := map[string]any{"k": k, "candidates": words, "result": ans}
			if k < 1 {
				// outside the statement's quantifier (k >= 1): neither compared with the model nor
				// judged — only counted (a panic here is not a violation of C26).
				t := "~k<1/ok"
				if !ok {
					t = "~k<1/panic"
				}
				e.Case(fmt.Sprintf("%d %v", k, words), t, true)
				continue
			}
			if !ok {
				ans = "panic"
				e.Violate("C26/panic", fmt.Sprintf("SelectBeacons panicked for k=%d with %d candidates", k, len(cs)), replay)
			} else if why := spec(cs, k, res); why != "" {
				e.Violate("C26/selection", why, replay)
			}
			// the input slice must not be modified
			for j := range in {
				if in[j].InIfID != bs[j].InIfID {
					e.Violate("C26/input-modified", "SelectBeacons reordered its input", replay)
					break
				}
			}
			op := fmt.Sprintf("sel %d %s", k, strings.Join(words, " "))
			e.Op(strings.TrimRight(op, " "), ans, tag)
			if i < 3 && k == 2 {
				e.Sample(replay)
			}
		}
	}
	e.Finish()
}
