package main

import (
	"crypto/sha256"
	"encoding/hex"
	"fmt"
	"strings"
	"time"

	"github.com/gopacket/gopacket"

	"github.com/scionproto/scion/pkg/addr"
	"github.com/scionproto/scion/pkg/slayers"
	"github.com/scionproto/scion/pkg/slayers/path/scion"
	"github.com/scionproto/scion/router"

	"verifharness/netlib"
	"verifharness/vlib"
)

var (
	srcHost = addr.MustParseHost("10.0.0.7")
	dstHost = addr.MustParseHost("10.0.0.8")
)

// extension-header variants of a packet: none, hop-by-hop, end-to-end (with a packet
// authenticator option), both
const (
	extNone = iota
	extHBH
	extE2E
	extBoth
)

var extNames = []string{"plain", "hbh", "e2e-spao", "hbh+e2e"}

func mkPacket(src, dst addr.IA, sh, dh addr.Host, rawPath []byte, traceroute bool) ([]byte, error) {
	return mkPacketExt(src, dst, sh, dh, rawPath, traceroute, extNone)
}

// mkPacketExt wraps a raw SCION path into a packet with a UDP or SCMP traceroute payload, preceded
// by the requested extension headers.
func mkPacketExt(src, dst addr.IA, sh, dh addr.Host, rawPath []byte, traceroute bool, ext int) ([]byte, error) {
	var rp scion.Raw
	if err := rp.DecodeFromBytes(rawPath); err != nil {
		return nil, err
	}
	s := &slayers.SCION{NextHdr: slayers.L4UDP, PathType: scion.PathType, Path: &rp, FlowID: 1, SrcIA: src, DstIA: dst}
	if err := s.SetSrcAddr(sh); err != nil {
		return nil, err
	}
	if err := s.SetDstAddr(dh); err != nil {
		return nil, err
	}
	buf := gopacket.NewSerializeBuffer()
	opts := gopacket.SerializeOptions{FixLengths: true, ComputeChecksums: true}
	l4 := slayers.L4UDP
	if traceroute {
		l4 = slayers.L4SCMP
	}
	layers := []gopacket.SerializableLayer{s}
	s.NextHdr = l4
	var hbh *slayers.HopByHopExtn
	var e2e *slayers.EndToEndExtn
	if ext == extHBH || ext == extBoth {
		hbh = &slayers.HopByHopExtn{}
		hbh.Options = []*slayers.HopByHopOption{{OptType: 0x1e, OptData: []byte{1, 2, 3, 4, 5, 6}}}
		hbh.NextHdr = l4
		s.NextHdr = slayers.HopByHopClass
		layers = append(layers, hbh)
	}
	if ext == extE2E || ext == extBoth {
		spi, err := slayers.MakePacketAuthSPIDRKey(1, slayers.PacketAuthHostHost, slayers.PacketAuthSenderSide)
		if err != nil {
			return nil, err
		}
		auth, err := slayers.NewPacketAuthOption(slayers.PacketAuthOptionParams{SPI: spi,
			Algorithm: slayers.PacketAuthCMAC, TimestampSN: 0x0102030405, Auth: make([]byte, 16)})
		if err != nil {
			return nil, err
		}
		e2e = &slayers.EndToEndExtn{}
		e2e.Options = []*slayers.EndToEndOption{auth.EndToEndOption}
		e2e.NextHdr = l4
		if hbh != nil {
			hbh.NextHdr = slayers.End2EndClass
		} else {
			s.NextHdr = slayers.End2EndClass
		}
		layers = append(layers, e2e)
	}
	if traceroute {
		scmp := &slayers.SCMP{TypeCode: slayers.CreateSCMPTypeCode(slayers.SCMPTypeTracerouteRequest, 0)}
		scmp.SetNetworkLayerForChecksum(s)
		layers = append(layers, scmp, &slayers.SCMPTraceroute{Identifier: 4242, Sequence: 7})
	} else {
		udp := &slayers.UDP{SrcPort: 40001, DstPort: 40002}
		udp.SetNetworkLayerForChecksum(s)
		layers = append(layers, udp, gopacket.Payload([]byte("payload!")))
	}
	if err := gopacket.SerializeLayers(buf, opts, layers...); err != nil {
		return nil, err
	}
	return append([]byte(nil), buf.Bytes()...), nil
}

// decoded header of a raw packet
type hdr struct {
	s   slayers.SCION
	dec *scion.Decoded
}

func parse(raw []byte) (*hdr, error) {
	h := &hdr{}
	if err := h.s.DecodeFromBytes(raw, gopacket.NilDecodeFeedback); err != nil {
		return nil, err
	}
	rp, ok := h.s.Path.(*scion.Raw)
	if !ok {
		return nil, fmt.Errorf("not a SCION path")
	}
	d, err := rp.ToDecoded()
	if err != nil {
		return nil, err
	}
	h.dec = d
	return h, nil
}

func b2i(b bool) int {
	if b {
		return 1
	}
	return 0
}

// flat renders the abstract path (the PATH part of the op lines).
func flat(d *scion.Decoded) string {
	var sb strings.Builder
	fmt.Fprintf(&sb, "%d %d %d %d %d %d", d.PathMeta.CurrINF, d.PathMeta.CurrHF,
		d.PathMeta.SegLen[0], d.PathMeta.SegLen[1], d.PathMeta.SegLen[2], len(d.InfoFields))
	for _, i := range d.InfoFields {
		fmt.Fprintf(&sb, " %d %d %d %d", b2i(i.ConsDir), b2i(i.Peer), i.SegID, i.Timestamp)
	}
	fmt.Fprintf(&sb, " %d", len(d.HopFields))
	for _, h := range d.HopFields {
		fmt.Fprintf(&sb, " %d %d %d %s %d %d", h.ConsIngress, h.ConsEgress, h.ExpTime, hex.EncodeToString(h.Mac[:]),
			b2i(h.IngressRouterAlert), b2i(h.EgressRouterAlert))
	}
	return sb.String()
}

// where a packet currently is
type place struct {
	as     int
	router int
	link   *router.VerifNetLink
	arr    string // h | s<k> | e<ifid>
}

// stop describes how a run ended.
type stop struct {
	kind    string // delivered | slow | drop | loop | lost
	as      int
	router  int
	res     router.VerifNetResult
	at      place
	hf      int    // CurrHF of the packet when it stopped
	host    string // resolved destination host when delivered
	rawIn   []byte // packet as it entered the last router
	lastRaw []byte
}

type runner struct {
	e       *vlib.Env
	w       *world
	seen    map[[16]byte]bool
	emit    bool
	tagBase string
}

func (rn *runner) op(op, impl, tag string) {
	if !rn.emit {
		return
	}
	h := sha256.Sum256([]byte(op))
	var k [16]byte
	copy(k[:], h[:16])
	if rn.seen[k] {
		return
	}
	rn.seen[k] = true
	rn.e.Op(op, impl, tag)
}

func (rn *runner) ifaceWords(a *netlib.AS, r *router.VerifNetRouter) string {
	var sb strings.Builder
	ids := a.SortedIfs()
	n := 0
	for _, id := range ids {
		f := a.Ifs[id]
		up := true
		if l := a.Routers[f.Router].External[id]; l != nil {
			up = l.Up
		}
		if removedIf[[2]int{a.Idx, int(id)}] {
			continue
		}
		n++
		fmt.Fprintf(&sb, " %d %d %d %d", id, int(f.LT), b2i(up), f.Router)
	}
	return fmt.Sprintf("%d%s", n, sb.String())
}

var removedIf = map[[2]int]bool{}

// hostEntry returns the place where a host of AS a hands a packet with the given first egress
// interface to its border router.
func (rn *runner) hostEntry(a int, firstEgress uint16) (place, bool) {
	A := rn.w.net.AS[a]
	f := A.Ifs[firstEgress]
	if f == nil {
		return place{}, false
	}
	r := A.Routers[f.Router]
	return place{as: a, router: f.Router, link: r.Internal, arr: "h"}, true
}

// run pushes raw from place p through the real routers until it is delivered, answered or dropped.
// trace receives "IA#ifid" for every external interface crossed (egress then ingress).
func (rn *runner) run(p place, raw []byte, tag string) (trace []string, st stop) {
	n := rn.w.net
	for step := 0; step < 200; step++ {
		A := n.AS[p.as]
		R := A.Routers[p.router]
		h, perr := parse(raw)
		nowMs := time.Now().UnixMilli()
		res := R.Process(raw, p.link)
		if res.Panic != "" {
			rn.e.Violate("C08/panic", "router panicked: "+res.Panic, map[string]any{"raw": hex.EncodeToString(raw)})
		}
		st = stop{as: p.as, router: p.router, res: res, at: p, rawIn: raw, lastRaw: res.Raw, hf: -1}
		var after *hdr
		if res.Disp != 0 {
			after, _ = parse(res.Raw)
			if after != nil {
				st.hf = int(after.dec.PathMeta.CurrHF)
			}
		}
		if st.hf < 0 && perr == nil {
			st.hf = int(h.dec.PathMeta.CurrHF)
		}
		// model line
		if perr == nil && rn.emit && !nearExpiry(h.dec, nowMs) {
			op := fmt.Sprintf("rt %s %d %d %s %d %d %s %s", hex.EncodeToString(A.Key), nowMs, p.router, p.arr,
				b2i(h.s.SrcIA == A.IA), b2i(h.s.DstIA == A.IA), rn.ifaceWords(A, R), flat(h.dec))
			impl, t := "drop", "drop"
			switch res.Disp {
			case 1:
				if res.Egress == 0 {
					impl, t = "dlv "+flat(after.dec), "dlv"
				} else {
					impl = fmt.Sprintf("fwd %d %s", res.Egress, flat(after.dec))
					t = "fwd/" + map[router.LinkScope]string{router.External: "ext", router.Sibling: "sib"}[res.OutScope]
					if int(after.dec.PathMeta.CurrINF) != int(h.dec.PathMeta.CurrINF) && res.OutScope == router.External &&
						!h.dec.InfoFields[h.dec.PathMeta.CurrINF].Peer {
						t += "/xover"
					}
					if h.dec.InfoFields[h.dec.PathMeta.CurrINF].Peer {
						t += "/peerpath"
					}
				}
			case 2:
				switch res.SlowType {
				case -1:
					impl, t = fmt.Sprintf("alert in %d %s", res.Egress, flat(after.dec)), "alert/in"
				case -2:
					impl, t = fmt.Sprintf("alert eg %d %s", res.Egress, flat(after.dec)), "alert/eg"
				default:
					impl = fmt.Sprintf("slow %d %d %d %s", res.SlowType, res.SlowCode, res.Egress, flat(after.dec))
					t = fmt.Sprintf("slow/%d/%d", res.SlowType, res.SlowCode)
				}
			}
			rn.op(op, impl, "rt/"+t+"/"+p.arr[:1])
		}
		switch res.Disp {
		case 0, 3:
			st.kind = "drop"
			return trace, st
		case 2:
			st.kind = "slow"
			return trace, st
		}
		// forwarded
		switch res.OutScope {
		case router.Internal:
			st.kind = "delivered"
			st.host = R.Internal.ResolvedHost.String()
			return trace, st
		case router.Sibling:
			nr := A.Routers[res.OutSib]
			p = place{as: p.as, router: res.OutSib, link: nr.Siblings[p.router], arr: fmt.Sprintf("s%d", p.router)}
			if p.link == nil {
				st.kind = "lost"
				return trace, st
			}
		case router.External:
			f := A.Ifs[res.Egress]
			if f == nil {
				st.kind = "lost"
				return trace, st
			}
			B := n.AS[f.Nbr]
			g := B.Ifs[f.NbrIf]
			trace = append(trace, fmt.Sprintf("%s#%d", A.IA, res.Egress), fmt.Sprintf("%s#%d", B.IA, f.NbrIf))
			l := B.Routers[g.Router].External[f.NbrIf]
			p = place{as: f.Nbr, router: g.Router, link: l, arr: fmt.Sprintf("e%d", f.NbrIf)}
		default:
			st.kind = "lost"
			return trace, st
		}
		raw = res.Raw
	}
	st.kind = "loop"
	return trace, st
}

// nearExpiry: some hop's expiry lies within 3 s of now (the model gets `now` from the harness clock,
// the router reads its own).
func nearExpiry(d *scion.Decoded, nowMs int64) bool {
	for _, i := range d.InfoFields {
		for _, h := range d.HopFields {
			exp := int64(i.Timestamp)*1000 + (int64(h.ExpTime)+1)*337500
			if exp-nowMs < 3000 && nowMs-exp < 3000 {
				return true
			}
		}
	}
	return false
}

// reply runs the slow path at the router where st stopped and follows the answer; returns the
// answer's trace and final stop, or ok=false when the router sends nothing.
func (rn *runner) reply(st stop, tag string) (sent bool, reply []byte, trace []string, fin stop) {
	n := rn.w.net
	A := n.AS[st.as]
	R := A.Routers[st.router]
	rep, err := R.SlowPath()
	before, perr := parse(st.res.Raw)
	ext := st.at.link.Kind == router.External
	if err != nil {
		if perr == nil && st.res.SlowType >= 0 {
			rn.op(fmt.Sprintf("scmp %d %s", b2i(ext), flat(before.dec)), "none", "scmp/none")
		}
		return false, nil, nil, stop{}
	}
	if perr == nil {
		if a, err := parse(rep); err == nil && (st.res.SlowType >= 0 || a.s.NextHdr == slayers.L4SCMP && a.s.SrcIA == A.IA) {
			rn.op(fmt.Sprintf("scmp %d %s", b2i(ext), flat(before.dec)), "ok "+flat(a.dec),
				"scmp/"+map[bool]string{true: "ext", false: "int"}[ext])
		}
	}
	// the reply leaves through the link the packet came in on
	var p place
	switch st.at.link.Kind {
	case router.Internal:
		fin = stop{kind: "delivered", as: st.as, router: st.router, lastRaw: rep, host: hostOf(rep)}
		return true, rep, nil, fin
	case router.Sibling:
		k := st.at.link.Sibling
		p = place{as: st.as, router: k, link: A.Routers[k].Siblings[st.router], arr: fmt.Sprintf("s%d", st.router)}
	case router.External:
		f := A.Ifs[st.at.link.ID]
		B := n.AS[f.Nbr]
		g := B.Ifs[f.NbrIf]
		trace = append(trace, fmt.Sprintf("%s#%d", A.IA, f.ID), fmt.Sprintf("%s#%d", B.IA, f.NbrIf))
		p = place{as: f.Nbr, router: g.Router, link: B.Routers[g.Router].External[f.NbrIf], arr: fmt.Sprintf("e%d", f.NbrIf)}
	}
	t2, fin := rn.run(p, rep, tag)
	return true, rep, append(trace, t2...), fin
}

func hostOf(raw []byte) string {
	h, err := parse(raw)
	if err != nil {
		return "?"
	}
	a, err := h.s.DstAddr()
	if err != nil {
		return "?"
	}
	return a.String()
}
