// Engine "net" (C02 C03 C04 C10, second run of C22): random SCION networks made of the REAL
// beacon extender (per-AS keys, peer entries), the REAL path combinator and REAL border-router
// data planes (several per AS, joined by sibling links).  Packets are pushed router by router.
// Every router invocation, slow-path reply and host-side reversal is also written as an op line
// and replayed through the Lean model (Scion.Net.routerStep / scmpPrepare / reverseCursor).
package main

import (
	"bytes"
	"encoding/hex"
	"fmt"
	"strings"

	"github.com/gopacket/gopacket"

	"github.com/scionproto/scion/pkg/private/ctrl/path_mgmt/proto"
	"github.com/scionproto/scion/pkg/private/util"
	seg "github.com/scionproto/scion/pkg/segment"
	"github.com/scionproto/scion/pkg/slayers"
	"github.com/scionproto/scion/pkg/slayers/path"
	"github.com/scionproto/scion/pkg/slayers/path/scion"
	"github.com/scionproto/scion/private/path/combinator"
	"github.com/scionproto/scion/router"
	_ "github.com/scionproto/scion/router/underlayproviders/udpip"

	"verifharness/netlib"
	"verifharness/vlib"
)

type netlibNet = netlib.Net

type pathCase struct {
	src, dst int
	p        combinator.Path
	dec      *scion.Decoded
	shape    string
	ifs      []string // metadata interfaces "IA#id"
}

func shapeOf(d *scion.Decoded) string {
	var parts []string
	for i := 0; i < d.NumINF; i++ {
		s := "up"
		if d.InfoFields[i].ConsDir {
			s = "down"
		}
		parts = append(parts, fmt.Sprintf("%s%d", s, d.PathMeta.SegLen[i]))
	}
	sh := strings.Join(parts, "+")
	if d.InfoFields[0].Peer {
		sh += "/peer"
	}
	return sh
}

func (w *world) paths(r *vlib.Rand) []pathCase {
	var out []pathCase
	n := w.net
	for s := range n.AS {
		for d := range n.AS {
			if s == d {
				continue
			}
			ps := combinator.Combine(n.AS[s].IA, n.AS[d].IA, w.segsAt[s], w.coreSegs, w.segsAt[d], r.Chance(30))
			for _, p := range ps {
				var rp scion.Raw
				if err := rp.DecodeFromBytes(p.SCIONPath.Raw); err != nil {
					continue
				}
				dec, err := rp.ToDecoded()
				if err != nil {
					continue
				}
				pc := pathCase{src: s, dst: d, p: p, dec: dec, shape: shapeOf(dec)}
				for _, i := range p.Metadata.Interfaces {
					pc.ifs = append(pc.ifs, fmt.Sprintf("%s#%d", i.IA, i.ID))
				}
				out = append(out, pc)
			}
		}
	}
	return out
}

// recoverEdges finds, for a path returned by Combine, the list of (segment, type, shortcut, peer
// entry) that explains it: the hop-field MACs of every path segment must be those of a registered
// segment from the shortcut entry on (the first one possibly a peer entry).
func (w *world) recoverEdges(pc pathCase) ([]combinator.VerifNetEdge, bool) {
	type cand struct {
		s *seg.PathSegment
		t proto.PathSegType
	}
	var cands []cand
	for _, s := range w.segsAt[pc.src] {
		cands = append(cands, cand{s, proto.PathSegType_up})
	}
	for _, s := range w.coreSegs {
		cands = append(cands, cand{s, proto.PathSegType_core})
	}
	for _, s := range w.segsAt[pc.dst] {
		cands = append(cands, cand{s, proto.PathSegType_down})
	}
	d := pc.dec
	var edges []combinator.VerifNetEdge
	off := 0
	for i := 0; i < d.NumINF; i++ {
		n := int(d.PathMeta.SegLen[i])
		hops := append([]path.HopField(nil), d.HopFields[off:off+n]...)
		off += n
		down := d.InfoFields[i].ConsDir
		if !down {
			for a, b := 0, len(hops)-1; a < b; a, b = a+1, b-1 {
				hops[a], hops[b] = hops[b], hops[a]
			}
		}
		found := false
		for _, c := range cands {
			if (c.t == proto.PathSegType_down) != down || util.TimeToSecs(c.s.Info.Timestamp) != d.InfoFields[i].Timestamp {
				continue
			}
			sc := len(c.s.ASEntries) - n
			if sc < 0 {
				continue
			}
			okTail := true
			for k := 1; k < n; k++ {
				if c.s.ASEntries[sc+k].HopEntry.HopField.MAC != hops[k].Mac {
					okTail = false
				}
			}
			if !okTail {
				continue
			}
			peer := -1
			if c.s.ASEntries[sc].HopEntry.HopField.MAC == hops[0].Mac && !d.InfoFields[i].Peer {
				peer = 0
			} else if d.InfoFields[i].Peer {
				for k, pe := range c.s.ASEntries[sc].PeerEntries {
					if pe.HopField.MAC == hops[0].Mac {
						peer = k + 1
					}
				}
			}
			if peer < 0 {
				continue
			}
			edges = append(edges, combinator.VerifNetEdge{Segment: c.s, Type: c.t, Shortcut: sc, Peer: peer})
			found = true
			break
		}
		if !found {
			return nil, false
		}
	}
	return edges, true
}

func edgeWords(n *netlibNet, e combinator.VerifNetEdge) string {
	var sb strings.Builder
	peer := "-"
	if e.Peer != 0 {
		peer = fmt.Sprint(e.Peer - 1)
	}
	fmt.Fprintf(&sb, " %d %d %d %s %d %d %d", b2i(e.Type == proto.PathSegType_down), b2i(e.Type == proto.PathSegType_core),
		e.Shortcut, peer, e.Segment.Info.SegmentID, util.TimeToSecs(e.Segment.Info.Timestamp), len(e.Segment.ASEntries))
	for _, a := range e.Segment.ASEntries {
		h := a.HopEntry.HopField
		fmt.Fprintf(&sb, " %d %d %d %d %s %d", uint64(a.Local), h.ConsIngress, h.ConsEgress, h.ExpTime,
			hex.EncodeToString(h.MAC[:]), len(a.PeerEntries))
		for _, p := range a.PeerEntries {
			fmt.Fprintf(&sb, " %d %d %d %s %d %d", p.HopField.ConsIngress, p.HopField.ConsEgress, p.HopField.ExpTime,
				hex.EncodeToString(p.HopField.MAC[:]), uint64(p.Peer), p.PeerInterface)
		}
	}
	return sb.String()
}

// pathOfLine ties the Lean transcription of pathSolution.Path (pathOf / pathIfaces) to the real one.
func (g *engine) pathOfLine(pc pathCase) {
	edges, ok := g.w.recoverEdges(pc)
	if !ok {
		g.e.Case("po-unexplained|"+pc.shape, "~po/unexplained", true)
		return
	}
	res, _ := vlib.Safe(func() string {
		p := combinator.VerifNetPathOf(edges)
		if !bytes.Equal(p.SCIONPath.Raw, pc.p.SCIONPath.Raw) {
			return "mismatch"
		}
		var rp scion.Raw
		if err := rp.DecodeFromBytes(p.SCIONPath.Raw); err != nil {
			return "undecodable"
		}
		dec, err := rp.ToDecoded()
		if err != nil {
			return "undecodable"
		}
		var sb strings.Builder
		fmt.Fprintf(&sb, "ok %s | %d", flat(dec), len(p.Metadata.Interfaces))
		for _, i := range p.Metadata.Interfaces {
			fmt.Fprintf(&sb, " %d %d", uint64(i.IA), i.ID)
		}
		return sb.String()
	})
	if res == "mismatch" || res == "undecodable" || strings.HasPrefix(res, "PANIC") {
		g.e.Case("po-"+res+"|"+pc.shape, "~po/"+res, true)
		return
	}
	var sb strings.Builder
	fmt.Fprintf(&sb, "po %d", len(edges))
	for _, e := range edges {
		sb.WriteString(edgeWords(g.w.net, e))
	}
	g.rn.op(sb.String(), res, "po/"+pc.shape)
}

func rev(s []string) []string {
	o := make([]string, len(s))
	for i, x := range s {
		o[len(s)-1-i] = x
	}
	return o
}

func same(a, b []string) bool {
	if len(a) != len(b) {
		return false
	}
	for i := range a {
		if a[i] != b[i] {
			return false
		}
	}
	return true
}

type engine struct {
	e  *vlib.Env
	r  *vlib.Rand
	rn *runner
	w  *world
}

func (g *engine) replay(pc pathCase, extra map[string]any) map[string]any {
	n := g.w.net
	m := map[string]any{"topology": g.w.desc, "src": n.AS[pc.src].IA.String(), "dst": n.AS[pc.dst].IA.String(),
		"shape": pc.shape, "interfaces": pc.ifs, "raw_path": hex.EncodeToString(pc.p.SCIONPath.Raw)}
	var links []string
	for _, l := range n.Links {
		links = append(links, fmt.Sprintf("%s#%d-%s-%s#%d", n.AS[l.A].IA, l.AIf, l.Kind, n.AS[l.B].IA, l.BIf))
	}
	m["links"] = links
	var rts []string
	for _, a := range n.AS {
		rts = append(rts, fmt.Sprintf("%s:%d", a.IA, a.NRouters))
	}
	m["routers"] = rts
	for k, v := range extra {
		m[k] = v
	}
	return m
}

// forward sends a packet with the (possibly modified) raw path from the source host.
func (g *engine) forward(pc pathCase, rawPath []byte, traceroute bool) ([]string, stop, bool) {
	return g.forwardExt(pc, rawPath, traceroute, extNone)
}

func (g *engine) forwardExt(pc pathCase, rawPath []byte, traceroute bool, ext int) ([]string, stop, bool) {
	n := g.w.net
	raw, err := mkPacketExt(n.AS[pc.src].IA, n.AS[pc.dst].IA, srcHost, dstHost, rawPath, traceroute, ext)
	if err != nil {
		return nil, stop{}, false
	}
	_, first := hopIfs(pc.dec, 0) // the host hands the packet to the router owning the first egress
	pl, ok := g.rn.hostEntry(pc.src, first)
	if !ok {
		return nil, stop{}, false
	}
	tr, st := g.rn.run(pl, raw, pc.shape)
	return tr, st, true
}

// c02 checks delivery and the interface trace; returns the forward stop for C03.
func (g *engine) c02(pc pathCase, prop string) (stop, bool) {
	n := g.w.net
	tr, st, ok := g.forward(pc, pc.p.SCIONPath.Raw, false)
	if !ok {
		g.e.Violate(prop+"/"+pc.shape, "cannot build a packet for a combined path", g.replay(pc, nil))
		return st, false
	}
	fp := pc.shape + "|" + strings.Join(pc.ifs, " ") + fmt.Sprint(nRoutersOnPath(g, pc))
	g.e.Case(fp, "path/"+pc.shape, false)
	good := st.kind == "delivered" && st.as == pc.dst && st.host == dstHost.String() && same(tr, pc.ifs)
	if !good && (prop == "C02" || prop == "C22") {
		what := fmt.Sprintf("path %s from %s to %s: %s at %s (router %d, disposition %d, slow %d/%d); "+
			"interfaces crossed %v, metadata %v", pc.shape, n.AS[pc.src].IA, n.AS[pc.dst].IA, st.kind, n.AS[st.as].IA,
			st.router, st.res.Disp, st.res.SlowType, st.res.SlowCode, tr, pc.ifs)
		g.e.Violate(prop+"/"+pc.shape, what, g.replay(pc, map[string]any{"trace": tr, "stop": st.kind}))
	}
	return st, good
}

func nRoutersOnPath(g *engine, pc pathCase) []int {
	var o []int
	for _, i := range pc.p.Metadata.Interfaces {
		a := g.w.net.ByIA(i.IA)
		if a == nil || a.Ifs[uint16(i.ID)] == nil {
			o = append(o, -1)
			continue
		}
		o = append(o, a.Ifs[uint16(i.ID)].Router)
	}
	return o
}

// c03 reverses the delivered packet at the destination host and sends the reply.
func (g *engine) c03(pc pathCase, st stop, prop string) {
	n := g.w.net
	h, err := parse(st.lastRaw)
	if err != nil {
		g.e.Violate(prop+"/"+pc.shape, "delivered packet does not decode", g.replay(pc, nil))
		return
	}
	rp := h.s.Path.(*scion.Raw)
	before := flat(h.dec)
	rv, err := rp.Reverse()
	if err != nil {
		g.e.Violate(prop+"/"+pc.shape, "cannot reverse the delivered path: "+err.Error(), g.replay(pc, nil))
		return
	}
	rr := rv.(*scion.Raw)
	rawRev := make([]byte, rr.Len())
	_ = rr.SerializeTo(rawRev)
	if d2, err := rr.ToDecoded(); err == nil {
		g.rn.op("rev "+before, "ok "+flat(d2), "rev/"+pc.shape)
	}
	pkt, err := mkPacket(n.AS[pc.dst].IA, n.AS[pc.src].IA, dstHost, srcHost, rawRev, false)
	if err != nil {
		g.e.Violate(prop+"/"+pc.shape, "cannot build the reply", g.replay(pc, nil))
		return
	}
	ifs := rev(pc.ifs)
	firstIf, _ := hopIfs(pc.dec, pc.dec.NumHops-1)
	pl, ok := g.rn.hostEntry(pc.dst, firstIf)
	if !ok {
		return
	}
	tr, fin := g.rn.run(pl, pkt, pc.shape)
	g.e.Case("rev|"+pc.shape+"|"+strings.Join(ifs, " "), "reverse/"+pc.shape, false)
	if !(fin.kind == "delivered" && fin.as == pc.src && fin.host == srcHost.String() && same(tr, ifs)) {
		g.e.Violate(prop+"/"+pc.shape, fmt.Sprintf("reply over the reversed %s path from %s back to %s: %s at %s "+
			"(disposition %d, slow %d/%d); crossed %v, expected %v", pc.shape, n.AS[pc.dst].IA, n.AS[pc.src].IA, fin.kind,
			n.AS[fin.as].IA, fin.res.Disp, fin.res.SlowType, fin.res.SlowCode, tr, ifs),
			g.replay(pc, map[string]any{"reversed_path": hex.EncodeToString(rawRev), "trace": tr}))
	}
}

// protected bytes of the raw path: (offset, field name, hop/info index, bound on the hop index
// at which the packet must have stopped)
type protField struct {
	off   int
	name  string
	bound int
}

func protectedBytes(d *scion.Decoded) []protField {
	var fs []protField
	start := 0
	for i := 0; i < d.NumINF; i++ {
		base := 4 + 8*i
		for b := 2; b < 4; b++ {
			fs = append(fs, protField{base + b, "info.segid", start})
		}
		for b := 4; b < 8; b++ {
			fs = append(fs, protField{base + b, "info.timestamp", start})
		}
		start += int(d.PathMeta.SegLen[i])
	}
	hopOff := 4 + 8*d.NumINF
	names := []string{"", "hop.exptime", "hop.consingress", "hop.consingress", "hop.consegress", "hop.consegress",
		"hop.mac", "hop.mac", "hop.mac", "hop.mac", "hop.mac", "hop.mac"}
	for j := 0; j < d.NumHops; j++ {
		for b := 1; b < 12; b++ {
			fs = append(fs, protField{hopOff + 12*j + b, names[b], j})
		}
	}
	return fs
}

func (g *engine) c04(pc pathCase, perField int) {
	n := g.w.net
	fs := protectedBytes(pc.dec)
	for _, f := range fs {
		var bits []int
		if perField >= 8 {
			bits = []int{0, 1, 2, 3, 4, 5, 6, 7}
		} else {
			for len(bits) < perField {
				bits = append(bits, g.r.Intn(8))
			}
		}
		for _, bit := range bits {
			raw := append([]byte(nil), pc.p.SCIONPath.Raw...)
			raw[f.off] ^= 1 << bit
			_, st, ok := g.forward(pc, raw, false)
			if !ok {
				continue
			}
			g.e.Case(fmt.Sprintf("%s|%s|%d|%d", pc.shape, strings.Join(pc.ifs, " "), f.off, bit), "tamper/"+f.name+"/"+st.kind, false)
			late := st.hf > f.bound
			if st.kind == "delivered" || late {
				what := fmt.Sprintf("path %s %s->%s with bit %d of byte %d (%s) flipped: %s at %s, hop index %d "+
					"(must stop by hop %d)", pc.shape, n.AS[pc.src].IA, n.AS[pc.dst].IA, bit, f.off, f.name, st.kind,
					n.AS[st.as].IA, st.hf, f.bound)
				g.e.Violate("C04/"+f.name, what, g.replay(pc, map[string]any{"offset": f.off, "bit": bit,
					"tampered_path": hex.EncodeToString(raw)}))
			}
		}
	}
}

// hopOwner returns the index of the AS that processes hop j of the path (forward direction) and the
// interfaces through which the packet enters and leaves it (0 = none).
func hopIfs(d *scion.Decoded, j int) (in, eg uint16) {
	k, start := 0, 0
	for j >= start+int(d.PathMeta.SegLen[k]) {
		start += int(d.PathMeta.SegLen[k])
		k++
	}
	h := d.HopFields[j]
	if d.InfoFields[k].ConsDir {
		return h.ConsIngress, h.ConsEgress
	}
	return h.ConsEgress, h.ConsIngress
}

// traversed tells whether the packet crosses an AS border on the ingress / egress side of hop j:
// not before the first or after the last hop, and not between the two hops of a cross-over AS.
func traversed(d *scion.Decoded, j int) (in, eg bool) {
	in, eg = j > 0, j < d.NumHops-1
	if d.InfoFields[0].Peer {
		return
	}
	acc := 0
	for i := 0; i < d.NumINF; i++ {
		if j == acc && i > 0 {
			in = false
		}
		acc += int(d.PathMeta.SegLen[i])
		if j == acc-1 && i < d.NumINF-1 {
			eg = false
		}
	}
	return
}

// asOfHop finds the AS processing hop j by walking along the links: inside a segment, and at a
// peering segment change, consecutive hops belong to neighbouring ASes; at any other segment
// change both hops belong to the same AS.
func (g *engine) asOfHop(pc pathCase, j int) int {
	n := g.w.net
	d := pc.dec
	cur := pc.src
	segEnd := map[int]bool{}
	acc := 0
	for i := 0; i < d.NumINF; i++ {
		acc += int(d.PathMeta.SegLen[i])
		segEnd[acc-1] = true
	}
	for k := 0; k < j; k++ {
		if segEnd[k] && !d.InfoFields[0].Peer {
			continue
		}
		_, eg := hopIfs(d, k)
		f := n.AS[cur].Ifs[eg]
		if f == nil {
			return -1
		}
		cur = f.Nbr
	}
	return cur
}

func (g *engine) expectReply(pc pathCase, st stop, what string, key string, wantType int, trIA string, trIf uint64,
	extra map[string]any) {
	n := g.w.net
	sent, rep, tr, fin := g.rn.reply(st, pc.shape)
	if !sent {
		if wantType >= 0 {
			g.e.Violate(key, what+": the router does not answer", g.replay(pc, extra))
		}
		return
	}
	ok := fin.kind == "delivered" && fin.as == pc.src && fin.host == srcHost.String()
	if ok && wantType >= 0 {
		// the delivered packet is the SCMP message we expect
		gp := gopacket.NewPacket(fin.lastRaw, slayers.LayerTypeSCION, gopacket.Default)
		l := gp.Layer(slayers.LayerTypeSCMP)
		if l == nil || int(l.(*slayers.SCMP).TypeCode.Type()) != wantType {
			ok = false
			what += ": delivered packet is not the expected SCMP message"
		} else if wantType == int(slayers.SCMPTypeTracerouteReply) {
			t := gp.Layer(slayers.LayerTypeSCMPTraceroute)
			if t == nil {
				ok = false
			} else {
				tt := t.(*slayers.SCMPTraceroute)
				if tt.IA.String() != trIA || tt.Interface != trIf || tt.Identifier != 4242 || tt.Sequence != 7 {
					ok = false
					what += fmt.Sprintf(": traceroute reply reports %s#%d, expected %s#%d", tt.IA, tt.Interface, trIA, trIf)
				}
			}
		}
	}
	if !ok {
		m := map[string]any{"reply": hex.EncodeToString(rep), "reply_trace": tr, "reply_end": fin.kind}
		if fin.kind != "delivered" || fin.as != pc.src {
			what += fmt.Sprintf(": answer %s at %s (disposition %d, slow %d/%d) instead of being delivered to the source host",
				fin.kind, n.AS[fin.as].IA, fin.res.Disp, fin.res.SlowType, fin.res.SlowCode)
		} else if fin.host != srcHost.String() {
			what += fmt.Sprintf(": what the router sends back ends up at host %s of the source AS, not at the sender %s",
				fin.host, srcHost)
		}
		for k, v := range extra {
			m[k] = v
		}
		g.e.Violate(key, what, g.replay(pc, m))
	}
}

func (g *engine) c10(pc pathCase, thorough bool) {
	n := g.w.net
	d := pc.dec
	for j := 0; j < d.NumHops; j++ {
		if !thorough && d.NumHops > 3 && g.r.Chance(35) {
			continue
		}
		a := g.asOfHop(pc, j)
		if a < 0 {
			continue
		}
		A := n.AS[a]
		inIf, egIf := hopIfs(d, j)
		inTrav, egTrav := traversed(d, j)
		if !inTrav {
			inIf = 0
		}
		if !egTrav {
			egIf = 0
		}
		base := fmt.Sprintf("path %s %s->%s, hop %d (%s)", pc.shape, n.AS[pc.src].IA, n.AS[pc.dst].IA, j, A.IA)
		fpb := fmt.Sprintf("%s|%s|%d|", pc.shape, strings.Join(pc.ifs, " "), j)
		// (a) egress interface down
		if egIf != 0 && A.Ifs[egIf] != nil {
			l := A.Routers[A.Ifs[egIf].Router].External[egIf]
			l.Up = false
			_, st, ok := g.forward(pc, pc.p.SCIONPath.Raw, false)
			if ok {
				g.e.Case(fpb+"down", "inject/ifdown/"+st.kind, false)
				if st.kind == "slow" && st.as == a && st.res.SlowType == int(slayers.SCMPTypeExternalInterfaceDown) {
					g.expectReply(pc, st, base+": egress interface "+fmt.Sprint(egIf)+" down", "C10/interface-down",
						int(slayers.SCMPTypeExternalInterfaceDown), "", 0, map[string]any{"hop": j, "interface": egIf})
				} else {
					g.e.Violate("C10/interface-down", fmt.Sprintf("%s: egress interface %d down but the packet ended %s at %s "+
						"(slow %d/%d)", base, egIf, st.kind, n.AS[st.as].IA, st.res.SlowType, st.res.SlowCode),
						g.replay(pc, map[string]any{"hop": j}))
				}
			}
			l.Up = true
			// (b) egress interface unknown to every router of the AS
			var restore []func()
			for _, R := range A.Routers {
				restore = append(restore, R.VerifNetRemoveIface(egIf))
			}
			removedIf[[2]int{a, int(egIf)}] = true
			_, st, ok = g.forward(pc, pc.p.SCIONPath.Raw, false)
			if ok {
				g.e.Case(fpb+"unknown", "inject/unknown-egress/"+st.kind, false)
				if st.kind == "slow" && st.as == a && st.res.SlowType == int(slayers.SCMPTypeParameterProblem) {
					g.expectReply(pc, st, base+": egress interface "+fmt.Sprint(egIf)+" unknown", "C10/unknown-egress",
						int(slayers.SCMPTypeParameterProblem), "", 0, map[string]any{"hop": j, "interface": egIf})
				} else {
					g.e.Violate("C10/unknown-egress", fmt.Sprintf("%s: egress interface %d unknown but the packet ended %s at %s",
						base, egIf, st.kind, n.AS[st.as].IA), g.replay(pc, map[string]any{"hop": j}))
				}
			}
			for _, f := range restore {
				f()
			}
			delete(removedIf, [2]int{a, int(egIf)})
		}
		// (c) expired hop, (d) hop with an invalid MAC
		for _, kind := range []string{"expired", "badmac"} {
			var q scion.Raw
			raw := append([]byte(nil), pc.p.SCIONPath.Raw...)
			_ = q.DecodeFromBytes(raw)
			h, _ := q.GetHopField(j)
			if kind == "expired" {
				h.ExpTime = 0
			} else {
				h.Mac[g.r.Intn(6)] ^= 1 << g.r.Intn(8)
			}
			_ = q.SetHopField(h, j)
			// the offending packet with and without extension headers (one random variant besides plain)
			for _, ext := range []int{extNone, 1 + g.r.Intn(3)} {
				_, st, ok := g.forwardExt(pc, q.Raw, false, ext)
				if !ok {
					continue
				}
				g.e.Case(fpb+kind+extNames[ext], "inject/"+kind+"/"+extNames[ext]+"/"+st.kind, false)
				if st.kind == "slow" && st.res.SlowType == int(slayers.SCMPTypeParameterProblem) {
					g.expectReply(pc, st, fmt.Sprintf("%s: %s hop field (%s packet), SCMP %d/%d raised at %s", base, kind,
						extNames[ext], st.res.SlowType, st.res.SlowCode, n.AS[st.as].IA), "C10/"+kind+"-hop",
						int(slayers.SCMPTypeParameterProblem), "", 0,
						map[string]any{"hop": j, "extensions": extNames[ext], "modified_path": hex.EncodeToString(q.Raw)})
				}
			}
		}
		// (e) router alert on this hop: traceroute request, and (f) a plain UDP packet with the flag
		for _, ingressFlag := range []bool{true, false} {
			ifid := inIf
			if !ingressFlag {
				ifid = egIf
			}
			var q scion.Raw
			raw := append([]byte(nil), pc.p.SCIONPath.Raw...)
			_ = q.DecodeFromBytes(raw)
			h, _ := q.GetHopField(j)
			// the flag refers to construction direction
			k, start := 0, 0
			for j >= start+int(d.PathMeta.SegLen[k]) {
				start += int(d.PathMeta.SegLen[k])
				k++
			}
			if ingressFlag == d.InfoFields[k].ConsDir {
				h.IngressRouterAlert = true
			} else {
				h.EgressRouterAlert = true
			}
			_ = q.SetHopField(h, j)
			type variant struct {
				tracer bool
				ext    int
			}
			variants := []variant{{true, extNone}, {true, extHBH}, {true, extE2E}, {true, extBoth}, {false, extNone}}
			for _, v := range variants {
				tracer := v.tracer
				_, st, ok := g.forwardExt(pc, q.Raw, tracer, v.ext)
				if !ok {
					continue
				}
				side := map[bool]string{true: "ingress", false: "egress"}[ingressFlag]
				g.e.Case(fpb+side+fmt.Sprint(tracer)+extNames[v.ext], "inject/alert-"+side+"/"+extNames[v.ext]+"/"+st.kind, ifid == 0)
				if ifid == 0 {
					// flag on a side where the packet does not cross an AS border: no router owns it and the
					// statement demands nothing
					continue
				}
				alerted := st.kind == "slow" && st.res.SlowType < 0
				if tracer {
					owner := -1
					if f := A.Ifs[ifid]; f != nil {
						owner = f.Router
					}
					if !alerted || st.as != a || st.router != owner {
						g.e.Violate("C10/alert-owner", fmt.Sprintf("%s: %s router alert for interface %d (owned by router %d): "+
							"request ended %s at %s router %d", base, side, ifid, owner, st.kind, n.AS[st.as].IA, st.router),
							g.replay(pc, map[string]any{"hop": j, "modified_path": hex.EncodeToString(q.Raw)}))
						continue
					}
					g.expectReply(pc, st, fmt.Sprintf("%s: traceroute request (%s) with %s alert on interface %d", base,
						extNames[v.ext], side, ifid),
						"C10/traceroute-"+side, int(slayers.SCMPTypeTracerouteReply), A.IA.String(), uint64(ifid),
						map[string]any{"hop": j, "extensions": extNames[v.ext], "modified_path": hex.EncodeToString(q.Raw)})
				} else if alerted {
					// not a traceroute request: whatever the router sends in response must still reach the source
					g.expectReply(pc, st, fmt.Sprintf("%s: UDP packet with %s router alert on interface %d", base, side, ifid),
						"C10/alert-non-traceroute", -1, "", 0, map[string]any{"hop": j, "modified_path": hex.EncodeToString(q.Raw)})
				}
			}
		}
	}
}

func main() {
	e := vlib.Init()
	r := vlib.NewRand(uint64(e.Seed))
	e.Rule = "a fixed peering world first (core + two chains of depth 3 with peering links at depth 1 and 2: peering paths " +
		"with 2- and 3-hop segments, every fault at every position; once with one router per AS, once with 1-3), then " +
		"random topologies (1-2 ISDs, 1-3 core ASes, 2-6 non-core ASes with 1-2 parents, parallel links, 0-3 peering " +
		"links, 1-3 border routers per AS, random interface ids), beaconed by the real DefaultExtender (random propagation " +
		"choices), all (src,dst) pairs through the real Combine; every returned path is sent hop by hop through the real " +
		"routers (C10: traceroute requests at every position also with HBH, E2E+SPAO and HBH+E2E extension headers, " +
		"offending packets of SCMP errors also with a random extension variant); distinct = (path shape, interface sequence, routers, injected fault/tampered bit); model lines = distinct " +
		"router invocations / slow-path replies / reversals"
	prop := e.Prop
	nWorlds := map[string]int{"C02": e.N(45, 400), "C22": e.N(18, 150), "C03": e.N(30, 200), "C04": e.N(7, 12),
		"C10": e.N(8, 40)}[prop]
	if nWorlds == 0 {
		nWorlds = e.N(10, 50)
	}
	shapes := map[string]int{}
	npaths := 0
	for wi := 0; wi < nWorlds; wi++ {
		var w *world
		var err error
		fixed := false
		switch {
		case wi == 0 && prop != "C04":
			w, err = peerWorld(r, false)
			fixed = true
		case wi == 1 && (prop == "C10" || prop == "C02" || prop == "C03"):
			w, err = peerWorld(r, true)
			fixed = true
		default:
			w, err = genWorld(r, prop == "C04" || prop == "C10")
		}
		if err != nil {
			e.Violate(prop+"/beaconing", "beaconing a generated topology failed: "+err.Error(), map[string]any{"world": wi})
			continue
		}
		g := &engine{e: e, r: r, w: w, rn: &runner{e: e, w: w, seen: map[[16]byte]bool{}, emit: true}}
		if wi > 0 {
			g.rn.seen = lastSeen
		}
		lastSeen = g.rn.seen
		pcs := w.paths(r)
		for _, pc := range pcs {
			shapes[pc.shape]++
			npaths++
			switch prop {
			case "C02", "C22":
				if prop == "C02" {
					g.pathOfLine(pc)
				}
				st, ok := g.c02(pc, prop)
				if ok && prop == "C22" {
					g.c03(pc, st, prop)
				}
			case "C03":
				st, ok := g.c02(pc, prop)
				if ok {
					g.c03(pc, st, prop)
				}
			case "C04":
				if len(pcs) > 25 && !e.Thorough() && r.Chance(60) {
					continue
				}
				bits := 2
				if e.Thorough() {
					bits = 8
				}
				// emitting a model line for each of the tampered runs would be wasteful: sample
				g.rn.emit = r.Chance(25)
				g.c04(pc, bits)
				g.rn.emit = true
			case "C10":
				if fixed {
					// the fixed worlds are there for the peering shapes: every position of every
					// peering path, nothing skipped; of the other paths a sample
					if pc.dec.InfoFields[0].Peer {
						g.c10(pc, true)
					} else if r.Chance(25) {
						g.c10(pc, false)
					}
					continue
				}
				if len(pcs) > 25 && !e.Thorough() && r.Chance(60) {
					continue
				}
				g.c10(pc, e.Thorough())
			}
		}
		if wi == 0 {
			e.Sample(map[string]any{"topology": w.desc, "paths": len(pcs)})
		}
	}
	e.Extra["worlds"] = nWorlds
	e.Extra["paths"] = npaths
	e.Extra["shapes"] = shapes
	e.Finish()
}

var lastSeen map[[16]byte]bool

var _ = router.External
