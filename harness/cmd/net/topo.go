package main

import (
	"fmt"
	"time"

	"github.com/scionproto/scion/pkg/addr"
	seg "github.com/scionproto/scion/pkg/segment"

	"verifharness/netlib"
	"verifharness/vlib"
)

// world is one generated network with its registered segments.
type world struct {
	net      *netlib.Net
	coreSegs []*seg.PathSegment
	segsAt   map[int][]*seg.PathSegment // non-core AS index -> segments terminated there
	full     bool                       // every beacon is propagated on every interface (fixed worlds)
	desc     string
}

type idAlloc struct {
	r    *vlib.Rand
	used []map[uint16]bool
}

func (ia *idAlloc) fresh(a int) uint16 {
	for {
		var id uint16
		switch {
		case ia.r.Chance(75):
			id = uint16(ia.r.Range(1, 30))
		case ia.r.Chance(50):
			id = uint16(ia.r.Range(250, 260)) // around the byte boundary
		default:
			id = uint16(ia.r.Range(1, 65535))
		}
		if !ia.used[a][id] {
			ia.used[a][id] = true
			return id
		}
	}
}

// genWorld builds a random topology: 1-2 ISDs, 1-3 core ASes, 2-6 non-core ASes each with 1-2
// parents (cores or non-cores of its ISD), parallel links, core links (chain + extras), 0-3 peering
// links between non-core ASes, 1-3 border routers per AS; then beacons it.
func genWorld(r *vlib.Rand, small bool) (*world, error) {
	nISD := 1
	if r.Chance(30) {
		nISD = 2
	}
	nCore := r.Range(nISD, 3)
	nLeaf := r.Range(2, 6)
	if small {
		nLeaf = r.Range(2, 4)
	}
	var ias []addr.IA
	var cores []bool
	var isd []int
	var nr []int
	var mx []uint8
	add := func(i int, core bool, isdN int) {
		ias = append(ias, addr.MustParseIA(fmt.Sprintf("%d-ff00:0:%x", isdN, 0x110+i)))
		cores = append(cores, core)
		isd = append(isd, isdN)
		n := 1
		if r.Chance(45) {
			n = r.Range(2, 3)
		}
		nr = append(nr, n)
		mx = append(mx, uint8(r.Range(20, 255)))
	}
	for i := 0; i < nCore; i++ {
		add(i, true, 1+i%nISD)
	}
	al := &idAlloc{r: r, used: nil}
	var links []netlib.Link
	total := nCore + nLeaf
	for i := 0; i < total; i++ {
		al.used = append(al.used, map[uint16]bool{})
	}
	link := func(a, b int, kind string) {
		links = append(links, netlib.Link{A: a, AIf: al.fresh(a), B: b, BIf: al.fresh(b), Kind: kind})
	}
	// core links: chain plus extras plus parallels
	for i := 1; i < nCore; i++ {
		link(i-1, i, netlib.Core)
		if r.Chance(25) {
			link(i-1, i, netlib.Core)
		}
	}
	if nCore == 3 && r.Chance(60) {
		link(0, 2, netlib.Core)
	}
	// non-core ASes
	for i := nCore; i < total; i++ {
		// choose the ISD by the first parent
		cands := []int{}
		for j := 0; j < i; j++ {
			cands = append(cands, j)
		}
		p1 := cands[r.Intn(len(cands))]
		add(i, false, isd[p1])
		link(p1, i, netlib.PC)
		if r.Chance(20) {
			link(p1, i, netlib.PC) // parallel link
		}
		if r.Chance(40) {
			var c2 []int
			for _, j := range cands {
				if j != p1 && isd[j] == isd[p1] {
					c2 = append(c2, j)
				}
			}
			if len(c2) > 0 {
				link(c2[r.Intn(len(c2))], i, netlib.PC)
			}
		}
	}
	// peering links between non-core ASes
	np := r.Intn(4)
	for k := 0; k < np && nLeaf >= 2; k++ {
		a := nCore + r.Intn(nLeaf)
		b := nCore + r.Intn(nLeaf)
		if a == b {
			continue
		}
		link(a, b, netlib.Peer)
	}
	net, err := netlib.NewNet(r, ias, cores, nr, mx, links)
	if err != nil {
		return nil, err
	}
	w := &world{net: net, segsAt: map[int][]*seg.PathSegment{}}
	w.desc = fmt.Sprintf("isd=%d cores=%d leaves=%d links=%d", nISD, nCore, nLeaf, len(links))
	if err := w.beacon(r); err != nil {
		return nil, err
	}
	return w, nil
}

// beacon originates at every core AS: core beacons over core links (simple paths of up to 3 links),
// intra-ISD beacons over child links down to depth 4; a copy is terminated at every AS reached.
// Which continuations are taken is random (propagation order / selection).
func (w *world) beacon(r *vlib.Rand) error {
	n := w.net
	budget := 60
	var walk func(b *netlib.Beacon, visited map[int]bool, depth int, core bool) error
	walk = func(b *netlib.Beacon, visited map[int]bool, depth int, core bool) error {
		a := n.AS[b.At]
		if b.In != 0 {
			s, err := n.Terminate(b)
			if err != nil {
				return fmt.Errorf("terminate at %s: %w", a.Name, err)
			}
			if core {
				w.coreSegs = append(w.coreSegs, s)
			} else {
				w.segsAt[b.At] = append(w.segsAt[b.At], s)
			}
			budget--
		}
		if depth == 0 || budget <= 0 {
			return nil
		}
		for _, id := range a.SortedIfs() {
			f := a.Ifs[id]
			kind := n.Links[f.Link].Kind
			if core {
				if kind != netlib.Core {
					continue
				}
			} else if kind != netlib.PC || n.Links[f.Link].A != b.At || (b.In == id) {
				continue // only towards children
			}
			if visited[f.Nbr] {
				continue
			}
			if !w.full && b.In != 0 && r.Chance(15) {
				continue // not every beacon is propagated on every interface
			}
			nb, err := n.Propagate(b, id)
			if err != nil {
				return fmt.Errorf("propagate at %s: %w", a.Name, err)
			}
			visited[f.Nbr] = true
			if err := walk(nb, visited, depth-1, core); err != nil {
				return err
			}
			delete(visited, f.Nbr)
		}
		return nil
	}
	for ci, a := range n.AS {
		if !a.Core {
			continue
		}
		for _, core := range []bool{true, false} {
			ts := time.Now().Add(-time.Duration(r.Range(400, 1200)) * time.Second)
			b, err := n.Originate(ci, ts, uint16(r.U64()))
			if err != nil {
				return err
			}
			depth := 4
			if core {
				depth = 3
			}
			if err := walk(b, map[int]bool{ci: true}, depth, core); err != nil {
				return err
			}
		}
	}
	return nil
}

// peerWorld is a fixed shape that every run contains: one core AS with two chains of three
// non-core ASes below it (depths 1..3) and peering links between the two chains at depth 1 and at
// depth 2.  It yields peering paths whose up and down segments have 2, 3 hops each, so that there
// are intermediate ASes (neither source/destination nor peering AS) on Peer-flagged segments.
// multi: give the ASes 1-3 border routers (otherwise one each, so that every answer is generated by
// a router that received the packet over an external link).
func peerWorld(r *vlib.Rand, multi bool) (*world, error) {
	// 0 = core, 1..3 = chain A (depth 1..3), 4..6 = chain B
	var ias []addr.IA
	var cores []bool
	var nr []int
	var mx []uint8
	for i := 0; i < 7; i++ {
		ias = append(ias, addr.MustParseIA(fmt.Sprintf("1-ff00:0:%x", 0x210+i)))
		cores = append(cores, i == 0)
		n := 1
		if multi {
			n = r.Range(1, 3)
		}
		nr = append(nr, n)
		mx = append(mx, uint8(r.Range(20, 255)))
	}
	al := &idAlloc{r: r}
	for i := 0; i < 7; i++ {
		al.used = append(al.used, map[uint16]bool{})
	}
	var links []netlib.Link
	link := func(a, b int, kind string) {
		links = append(links, netlib.Link{A: a, AIf: al.fresh(a), B: b, BIf: al.fresh(b), Kind: kind})
	}
	link(0, 1, netlib.PC)
	link(1, 2, netlib.PC)
	link(2, 3, netlib.PC)
	link(0, 4, netlib.PC)
	link(4, 5, netlib.PC)
	link(5, 6, netlib.PC)
	link(1, 4, netlib.Peer)
	link(2, 5, netlib.Peer)
	net, err := netlib.NewNet(r, ias, cores, nr, mx, links)
	if err != nil {
		return nil, err
	}
	w := &world{net: net, segsAt: map[int][]*seg.PathSegment{}, full: true}
	w.desc = fmt.Sprintf("fixed peering world (core + two chains of depth 3, peering at depth 1 and 2), multi=%v", multi)
	if err := w.beacon(r); err != nil {
		return nil, err
	}
	return w, nil
}
