// Engine "pathseq" (C47): ties lean/Scion/Model/Seq.lean to private/path/pathpol (sequence
// expressions compiled by the ANTLR listener to a Go regexp, ACLs, policies) and evaluates the
// C47 property predicate — an independent matcher written from the statement — on the
// implementation's answers.
//
// Line protocol: see lean/Driver/Pathseq.lean.
package main

import (
	"fmt"
	"net"
	"strings"

	"github.com/scionproto/scion/pkg/addr"
	"github.com/scionproto/scion/pkg/log"
	"github.com/scionproto/scion/pkg/segment/iface"
	"github.com/scionproto/scion/pkg/snet"
	"github.com/scionproto/scion/private/path/pathpol"

	"verifharness/vlib"
)

// ---- paths

type pif struct {
	isd uint16
	as  uint64
	id  uint64
}

type vpath struct {
	ifs []pif
	md  *snet.PathMetadata
}

func (p *vpath) UnderlayNextHop() *net.UDPAddr { return nil }
func (p *vpath) Dataplane() snet.DataplanePath { return nil }
func (p *vpath) Metadata() *snet.PathMetadata  { return p.md }
func (p *vpath) Source() addr.IA {
	if len(p.md.Interfaces) == 0 {
		return 0
	}
	return p.md.Interfaces[0].IA
}
func (p *vpath) Destination() addr.IA {
	if len(p.md.Interfaces) == 0 {
		return 0
	}
	return p.md.Interfaces[len(p.md.Interfaces)-1].IA
}

func mkPath(ifs []pif) *vpath {
	md := &snet.PathMetadata{}
	for _, x := range ifs {
		md.Interfaces = append(md.Interfaces, snet.PathInterface{
			ID: iface.ID(x.id), IA: addr.MustIAFrom(addr.ISD(x.isd), addr.AS(x.as))})
	}
	return &vpath{ifs: ifs, md: md}
}

func (p *vpath) word() string {
	var s []string
	for _, x := range p.ifs {
		s = append(s, fmt.Sprintf("%d.%d.%d", x.isd, x.as, x.id))
	}
	return "p" + strings.Join(s, "/")
}

type hop struct {
	isd    uint16
	as     uint64
	in, eg uint64
}

// hopList is the statement's "hop list (ISD-AS with ingress and egress interface)" of a path
// given as an interface list: source AS with ingress 0, one hop per interface pair of a transit
// AS, destination AS with egress 0.  ok=false for an odd number of interfaces.
func (p *vpath) hopList() ([]hop, bool) {
	n := len(p.ifs)
	if n%2 != 0 {
		return nil, false
	}
	if n == 0 {
		return nil, true
	}
	hs := []hop{{p.ifs[0].isd, p.ifs[0].as, 0, p.ifs[0].id}}
	for i := 1; i+1 < n; i += 2 {
		hs = append(hs, hop{p.ifs[i].isd, p.ifs[i].as, p.ifs[i].id, p.ifs[i+1].id})
	}
	return append(hs, hop{p.ifs[n-1].isd, p.ifs[n-1].as, p.ifs[n-1].id, 0}), true
}

// ---- expressions

type asLit struct {
	kind int    // 0 absent (ISD-only hop), 1 wildcard "-0", 2 literal
	val  uint64 // numeric value of the literal
	text string // spelling
	ok   bool   // the statement gives it a meaning (DESIGN §7a: decimal <= 2^32-1, groups <= ffff)
}

type pred struct {
	isd    uint64
	as     asLit
	nif    int // 0: none, 1: #if, 2: #in,out
	i0, i1 uint64
}

type ex struct {
	op   string // h cat alt opt plus star
	p    pred
	a, b *ex
}

func (p pred) text() string {
	s := fmt.Sprintf("%d", p.isd)
	switch p.as.kind {
	case 1:
		s += "-0"
	case 2:
		s += "-" + p.as.text
	}
	switch p.nif {
	case 1:
		s += fmt.Sprintf("#%d", p.i0)
	case 2:
		s += fmt.Sprintf("#%d,%d", p.i0, p.i1)
	}
	return s
}

func (p pred) words() string {
	a := "-"
	switch p.as.kind {
	case 1:
		a = "w"
	case 2:
		a = vlib.Hex([]byte(p.as.text))
	}
	f := "-"
	switch p.nif {
	case 1:
		f = fmt.Sprintf("e%d", p.i0)
	case 2:
		f = fmt.Sprintf("b%d,%d", p.i0, p.i1)
	}
	return fmt.Sprintf("h %d %s %s", p.isd, a, f)
}

func level(e *ex) int {
	switch e.op {
	case "cat":
		return 1
	case "alt":
		return 2
	case "h":
		return 4
	}
	return 3
}

// text prints the expression in the grammar's concrete syntax.  ANTLR gives the alternatives of
// the left-recursive rule `sequence` decreasing precedence in source order: postfix ? + * bind
// tightest, then '|', then juxtaposition.  r (may be nil) adds redundant parentheses and blanks.
func (e *ex) text(r *vlib.Rand) string {
	par := func(c *ex, min int) string {
		s := c.text(r)
		if level(c) < min || (r != nil && r.Chance(15)) {
			if r != nil && r.Chance(30) {
				return "( " + s + " )"
			}
			return "(" + s + ")"
		}
		return s
	}
	sp := " "
	if r != nil && r.Chance(10) {
		sp = "  "
	}
	switch e.op {
	case "h":
		return e.p.text()
	case "cat":
		return par(e.a, 1) + sp + par(e.b, 2) // right operand: avoid relying on associativity
	case "alt":
		if r != nil && r.Chance(30) {
			return par(e.a, 2) + " | " + par(e.b, 3)
		}
		return par(e.a, 2) + "|" + par(e.b, 3)
	case "opt":
		return par(e.a, 3) + "?"
	case "plus":
		return par(e.a, 3) + "+"
	default:
		return par(e.a, 3) + "*"
	}
}

func (e *ex) words() string {
	switch e.op {
	case "h":
		return e.p.words()
	case "cat", "alt":
		return e.op + " " + e.a.words() + " " + e.b.words()
	}
	return e.op + " " + e.a.words()
}

func (e *ex) walk(f func(*ex)) {
	f(e)
	if e.a != nil {
		e.a.walk(f)
	}
	if e.b != nil {
		e.b.walk(f)
	}
}

// ---- the statement's meaning of an expression, independent of the implementation and of the
// Lean model: positions reachable after consuming a factor of the hop list

func (p pred) holds(h hop) bool {
	if p.isd != 0 && uint64(h.isd) != p.isd {
		return false
	}
	if p.as.kind == 2 && h.as != p.as.val {
		return false
	}
	switch p.nif {
	case 1:
		return p.i0 == 0 || h.in == p.i0 || h.eg == p.i0
	case 2:
		return (p.i0 == 0 || h.in == p.i0) && (p.i1 == 0 || h.eg == p.i1)
	}
	return true
}

func (e *ex) ends(hs []hop, from map[int]bool) map[int]bool {
	out := map[int]bool{}
	switch e.op {
	case "h":
		for i := range from {
			if i < len(hs) && e.p.holds(hs[i]) {
				out[i+1] = true
			}
		}
	case "cat":
		return e.b.ends(hs, e.a.ends(hs, from))
	case "alt":
		for i := range e.a.ends(hs, from) {
			out[i] = true
		}
		for i := range e.b.ends(hs, from) {
			out[i] = true
		}
	case "opt":
		for i := range from {
			out[i] = true
		}
		for i := range e.a.ends(hs, from) {
			out[i] = true
		}
	case "plus", "star":
		cur := from
		if e.op == "star" {
			for i := range from {
				out[i] = true
			}
		}
		for len(cur) > 0 {
			nxt := map[int]bool{}
			for i := range e.a.ends(hs, cur) {
				if !out[i] {
					out[i] = true
					nxt[i] = true
				}
			}
			cur = nxt
		}
	}
	return out
}

func (e *ex) denotes(hs []hop) bool { return e.ends(hs, map[int]bool{0: true})[len(hs)] }

// ---- alphabet

var (
	isds = []uint16{1, 11}
	ifs  = []uint64{1, 2, 11}
	// 3 ASes: BGP range (decimal), SCION range with hex letters, BGP range whose colon form has a
	// hex letter
	ases = []uint64{5, 0xff00_0000_0110, 65551}
	// spellings per AS, the canonical one first
	spell = map[uint64][]string{
		5:                {"5", "0:0:5"},
		0xff00_0000_0110: {"ff00:0:110", "FF00:0:110", "fF00:0:110"},
		65551:            {"65551", "0:1:f", "0:1:F"},
	}
)

func allASLits() []asLit {
	l := []asLit{{kind: 1, ok: true}}
	for _, a := range ases {
		for _, s := range spell[a] {
			l = append(l, asLit{2, a, s, true})
		}
	}
	return l
}

func allPreds() []pred {
	var ps []pred
	iv := []uint64{0, 1, 2, 11}
	for _, isd := range []uint64{0, 1, 11} {
		ps = append(ps, pred{isd: isd})
		for _, a := range allASLits() {
			ps = append(ps, pred{isd: isd, as: a})
			for _, i := range iv {
				ps = append(ps, pred{isd: isd, as: a, nif: 1, i0: i})
				for _, o := range iv {
					ps = append(ps, pred{isd: isd, as: a, nif: 2, i0: i, i1: o})
				}
			}
		}
	}
	return ps
}

type eng struct {
	e *vlib.Env
	r *vlib.Rand
}

func (g *eng) randPIf() pif {
	return pif{isds[g.r.Intn(2)], ases[g.r.Intn(3)], ifs[g.r.Intn(3)]}
}

// randPath: k hops (k = 0 or >= 2); transit ASes use one IA for both interfaces
func (g *eng) randPath(k int) *vpath {
	if k < 2 {
		return mkPath(nil)
	}
	l := []pif{g.randPIf()}
	for i := 0; i < k-2; i++ {
		x := g.randPIf()
		y := x
		y.id = ifs[g.r.Intn(3)]
		if g.r.Chance(5) {
			y = g.randPIf() // the egress interface's IA is ignored by GetSequence
		}
		l = append(l, x, y)
	}
	return mkPath(append(l, g.randPIf()))
}

func (g *eng) randPred() pred {
	r := g.r
	p := pred{isd: []uint64{0, 1, 11}[r.Intn(3)]}
	switch r.Intn(10) {
	case 0:
		return p
	case 1, 2:
		p.as = asLit{kind: 1, ok: true}
	default:
		a := ases[r.Intn(3)]
		s := spell[a]
		p.as = asLit{2, a, s[r.Intn(len(s))], true}
	}
	iv := []uint64{0, 1, 2, 11}
	switch r.Intn(3) {
	case 1:
		p.nif, p.i0 = 1, iv[r.Intn(4)]
	case 2:
		p.nif, p.i0, p.i1 = 2, iv[r.Intn(4)], iv[r.Intn(4)]
	}
	return p
}

func (g *eng) randEx(depth int) *ex {
	r := g.r
	if depth == 0 || r.Chance(25) {
		return &ex{op: "h", p: g.randPred()}
	}
	switch r.Intn(7) {
	case 0, 1, 2:
		return &ex{op: "cat", a: g.randEx(depth - 1), b: g.randEx(depth - 1)}
	case 3:
		return &ex{op: "alt", a: g.randEx(depth - 1), b: g.randEx(depth - 1)}
	case 4:
		return &ex{op: "opt", a: g.randEx(depth - 1)}
	case 5:
		return &ex{op: "plus", a: g.randEx(depth - 1)}
	default:
		return &ex{op: "star", a: g.randEx(depth - 1)}
	}
}

// sample draws a hop list from the language of x (nil, false if it gave up); used to build
// paths that a random expression has a fair chance to keep.
func (g *eng) sample(x *ex) []hop {
	r := g.r
	switch x.op {
	case "h":
		p := x.p
		h := hop{isd: isds[r.Intn(2)], as: ases[r.Intn(3)], in: ifs[r.Intn(3)], eg: ifs[r.Intn(3)]}
		if p.isd != 0 {
			h.isd = uint16(p.isd)
		}
		if p.as.kind == 2 {
			h.as = p.as.val
		}
		switch p.nif {
		case 1:
			if p.i0 != 0 {
				if r.Bool() {
					h.in = p.i0
				} else {
					h.eg = p.i0
				}
			}
		case 2:
			if p.i0 != 0 {
				h.in = p.i0
			}
			if p.i1 != 0 {
				h.eg = p.i1
			}
		}
		return []hop{h}
	case "cat":
		return append(g.sample(x.a), g.sample(x.b)...)
	case "alt":
		if r.Bool() {
			return g.sample(x.a)
		}
		return g.sample(x.b)
	case "opt":
		if r.Bool() {
			return nil
		}
		return g.sample(x.a)
	}
	n := r.Intn(3)
	if x.op == "plus" {
		n++
	}
	var out []hop
	for i := 0; i < n; i++ {
		out = append(out, g.sample(x.a)...)
	}
	return out
}

// pathOfHops turns a hop list into an interface list (the first ingress and the last egress
// interface do not exist on a path and are dropped); nil for a single hop.
func pathOfHops(hs []hop) *vpath {
	if len(hs) == 1 || len(hs) > 6 {
		return nil
	}
	var l []pif
	for i, h := range hs {
		if i > 0 {
			l = append(l, pif{h.isd, h.as, h.in})
		}
		if i < len(hs)-1 {
			l = append(l, pif{h.isd, h.as, h.eg})
		}
	}
	return mkPath(l)
}

// spellingsOf lists every spelling of an AS number the grammar admits: decimal when it fits 32
// bits, the colon form in lower case and (when it has letters) upper case; canonical first.
func spellingsOf(a uint64) []string {
	lo := fmt.Sprintf("%x:%x:%x", a>>32&0xffff, a>>16&0xffff, a&0xffff)
	var l []string
	if a <= 1<<32-1 {
		l = append(l, fmt.Sprintf("%d", a))
	}
	l = append(l, lo)
	if up := strings.ToUpper(lo); up != lo {
		l = append(l, up)
	}
	return l
}

// bigValues: predicate-judged stream over the extremes of the value ranges — decimal ASes with
// 5, 6 and 10 digits, the largest 32-bit and 48-bit AS, ISD 65535, interface 65535 — against
// wildcard and literal predicates in every spelling.
func (g *eng) bigValues() {
	bigAS := []uint64{65535, 65536, 99999, 100000, 131072, 4200000001, 1<<32 - 1, 1 << 32, 1<<48 - 1}
	bigISD := []uint16{1, 65535}
	bigIf := []uint64{1, 65535}
	any0 := &ex{op: "h", p: pred{}}
	star0 := &ex{op: "star", a: any0}
	cat := func(xs ...*ex) *ex {
		r := xs[0]
		for _, x := range xs[1:] {
			r = &ex{op: "cat", a: r, b: x}
		}
		return r
	}
	for ai, a := range bigAS {
		other := bigAS[(ai+1)%len(bigAS)]
		// paths: the AS as source, transit and destination; all ISD/interface extremes
		var paths []*vpath
		for _, isd := range bigISD {
			for _, f := range bigIf {
				for _, f2 := range bigIf {
					paths = append(paths,
						mkPath([]pif{{isd, a, f}, {1, 5, f2}}),
						mkPath([]pif{{1, 5, f2}, {isd, a, f}}),
						mkPath([]pif{{1, 5, 1}, {isd, a, f}, {isd, a, f2}, {65535, other, 2}}),
						mkPath([]pif{{isd, a, f}, {isd, other, f2}, {isd, other, f}, {1, a, f2}}))
				}
			}
		}
		paths = append(paths, mkPath([]pif{{1, other, 1}, {1, 5, 2}}), mkPath(nil))
		var preds []pred
		wild := asLit{kind: 1, ok: true}
		for _, isd := range []uint64{0, 1, 65535} {
			preds = append(preds, pred{isd: isd}, pred{isd: isd, as: wild},
				pred{isd: isd, as: wild, nif: 1, i0: 0}, pred{isd: isd, as: wild, nif: 2},
				pred{isd: isd, as: wild, nif: 1, i0: 65535}, pred{isd: isd, as: wild, nif: 2, i0: 65535},
				pred{isd: isd, as: wild, nif: 2, i1: 65535})
			for _, sp := range spellingsOf(a) {
				l := asLit{2, a, sp, true}
				preds = append(preds, pred{isd: isd, as: l}, pred{isd: isd, as: l, nif: 1, i0: 65535},
					pred{isd: isd, as: l, nif: 1, i0: 0}, pred{isd: isd, as: l, nif: 2, i0: 0, i1: 65535},
					pred{isd: isd, as: l, nif: 2, i0: 1, i1: 0})
			}
		}
		for _, p := range preds {
			hp := &ex{op: "h", p: p}
			shapes := []*ex{cat(star0, hp, star0), cat(hp, any0), cat(any0, hp, any0), cat(hp, hp),
				{op: "star", a: hp}}
			if g.e.Thorough() {
				shapes = append(shapes, cat(any0, hp), cat(hp, hp, hp), &ex{op: "plus", a: hp},
					cat(&ex{op: "opt", a: hp}, any0, star0))
			}
			for _, x := range shapes {
				g.seqCase(x, x.text(nil), paths, "big")
			}
		}
	}
	// the plain wildcard expressions of the documentation over all of them at once
	var all []*vpath
	for _, a := range bigAS {
		all = append(all, mkPath([]pif{{1, a, 1}, {65535, a, 65535}}),
			mkPath([]pif{{65535, a, 65535}, {1, 5, 1}, {1, 5, 2}, {2, a, 3}}))
	}
	for _, x := range []*ex{star0, cat(any0, any0), cat(any0, any0, any0), {op: "plus", a: any0},
		cat(&ex{op: "h", p: pred{isd: 1, as: asLit{kind: 1, ok: true}}}, star0),
		cat(&ex{op: "h", p: pred{isd: 65535, as: asLit{kind: 1, ok: true}, nif: 2, i0: 0, i1: 65535}}, star0)} {
		g.seqCase(x, x.text(nil), all, "big")
	}
}

// evalSeq runs the real NewSequence(text).Eval(paths) and returns the mask of kept paths.
func evalSeq(text string, paths []*vpath) (string, error) {
	seq, err := pathpol.NewSequence(text)
	if err != nil {
		return "", err
	}
	in := make([]snet.Path, len(paths))
	for i, p := range paths {
		in[i] = p
	}
	return maskOf(in, seq.Eval(in))
}

// maskOf maps the result back onto the input by identity; error if it is not an
// order-preserving sub-list of the input.
func maskOf(in, out []snet.Path) (string, error) {
	m := make([]byte, len(in))
	j := 0
	for i := range in {
		m[i] = '0'
		if j < len(out) && out[j] == in[i] {
			m[i] = '1'
			j++
		}
	}
	if j != len(out) {
		return "", fmt.Errorf("result is not an order-preserving sub-list of the input")
	}
	if len(m) == 0 {
		return "-", nil
	}
	return string(m), nil
}

func pathWords(paths []*vpath) string {
	w := make([]string, len(paths))
	for i, p := range paths {
		w[i] = p.word()
	}
	return strings.Join(w, " ")
}

// seqCase: one expression against a batch of paths: tie line + predicate.
func (g *eng) seqCase(x *ex, text string, paths []*vpath, class string) {
	e := g.e
	m, err := evalSeq(text, paths)
	ans := m + " " + m
	if err != nil {
		ans = "err"
		m = ""
	}
	tag := "ev/" + class + "/" + x.op
	if !strings.Contains(m, "1") {
		tag = "~" + tag + "/nohit"
	}
	e.Op("ev "+x.words()+" | "+pathWords(paths), ans, tag)
	e.Evaluations += len(paths) - 1
	// predicate
	meaningful, noncanon := true, false
	x.walk(func(n *ex) {
		if n.op == "h" && n.p.as.kind == 2 {
			meaningful = meaningful && n.p.as.ok
			if n.p.as.text != addr.AS(n.p.as.val).String() {
				noncanon = true
			}
		}
	})
	if !meaningful {
		return
	}
	key := "seq-mismatch"
	if noncanon {
		key = "as-spelling"
	}
	if err != nil {
		what := "NewSequence rejects a syntactically valid expression: " + err.Error()
		if strings.Contains(err.Error(), "order-preserving") { // maskOf's own error
			key, what = "seq-order", "Sequence.Eval: "+err.Error()
		}
		e.Violate("C47/"+key, what, map[string]any{"sequence": text, "paths": pathWords(paths)})
		return
	}
	for i, p := range paths {
		hs, ok := p.hopList()
		want := ok && x.denotes(hs)
		if (m[i] == '1') != want {
			e.Violate("C47/"+key, fmt.Sprintf("sequence %q: path kept=%v but hop list in the language=%v", text, m[i] == '1', want),
				map[string]any{"sequence": text, "path": p.md.Interfaces, "hops": fmt.Sprint(hs), "kept": m[i] == '1'})
			return
		}
	}
}

// ---- ACL / policy

type aclPred struct {
	isd uint64
	as  uint64
	ifs []uint64
}

type aclEntry struct {
	allow bool
	rule  *aclPred
	form  int // which interface-less spelling to use when the rule has a single 0 interface
}

func (a aclEntry) word() string {
	s := "-"
	if a.allow {
		s = "+"
	}
	if a.rule == nil {
		return s + "*"
	}
	s += fmt.Sprintf("%d.%d", a.rule.isd, a.rule.as)
	for _, i := range a.rule.ifs {
		s += fmt.Sprintf(".%d", i)
	}
	return s
}

// text is the entry in the textual form of policy files ("+ 1-ff00:0:110#1,0", "- 1", "+"); the
// interface-less spellings are used for an all-zero single interface depending on form.
func (a aclEntry) text() string {
	s := "-"
	if a.allow {
		s = "+"
	}
	r := a.rule
	if r == nil {
		return s
	}
	switch {
	case len(r.ifs) == 2:
		return fmt.Sprintf("%s %d-%s#%d,%d", s, r.isd, addr.AS(r.as), r.ifs[0], r.ifs[1])
	case r.ifs[0] == 0 && r.as == 0 && a.form == 2:
		return fmt.Sprintf("%s %d", s, r.isd)
	case r.ifs[0] == 0 && a.form >= 1:
		return fmt.Sprintf("%s %d-%s", s, r.isd, addr.AS(r.as))
	}
	return fmt.Sprintf("%s %d-%s#%d", s, r.isd, addr.AS(r.as), r.ifs[0])
}

// mkACL builds the ACL the way policy files do: every entry through ACLEntry.LoadFromString
// (HopPredicateFromString), so that the text form of hop predicates is part of the tie.
func mkACL(es []aclEntry) *pathpol.ACL {
	a := &pathpol.ACL{}
	for _, x := range es {
		ent := &pathpol.ACLEntry{}
		if err := ent.LoadFromString(x.text()); err != nil {
			panic("ACLEntry.LoadFromString(" + x.text() + "): " + err.Error())
		}
		a.Entries = append(a.Entries, ent)
	}
	return a
}

// accepts: the documented ACL meaning (doc/PathPolicy: first matching entry decides per
// interface; a path is kept iff no interface is denied); with two interface IDs the first
// applies to ingress (odd positions), the second to egress interfaces.
func aclAccepts(es []aclEntry, p *vpath) bool {
	for i, x := range p.ifs {
		ingress := i%2 == 1
		decided := false
		for _, en := range es {
			match := true
			if en.rule != nil {
				r := en.rule
				sel := r.ifs[0]
				if len(r.ifs) == 2 && !ingress {
					sel = r.ifs[1]
				}
				match = (r.isd == 0 || r.isd == uint64(x.isd)) && (r.as == 0 || r.as == x.as) && (sel == 0 || sel == x.id)
			}
			if match {
				decided = true
				if !en.allow {
					return false
				}
				break
			}
		}
		if !decided {
			return false
		}
	}
	return true
}

func (g *eng) randACL(valid bool) []aclEntry {
	r := g.r
	n := r.Intn(4)
	var es []aclEntry
	for i := 0; i < n; i++ {
		p := &aclPred{isd: []uint64{0, 1, 11}[r.Intn(3)], as: append([]uint64{0}, ases...)[r.Intn(4)]}
		if p.isd == 0 && p.as == 0 {
			p.isd = 1
		}
		p.ifs = []uint64{[]uint64{0, 1, 2, 11}[r.Intn(4)]}
		if r.Bool() {
			p.ifs = append(p.ifs, []uint64{0, 1, 2, 11}[r.Intn(4)])
		}
		if p.as == 0 { // "IfIDs must be 0" when the AS is a wildcard
			for k := range p.ifs {
				p.ifs[k] = 0
			}
		}
		es = append(es, aclEntry{r.Bool(), p, r.Intn(3)})
	}
	if valid {
		d := aclEntry{allow: r.Bool()}
		if r.Bool() {
			d.rule = &aclPred{ifs: []uint64{0}}
			d.form = r.Intn(3)
		}
		es = append(es, d)
	}
	return es
}

// aclForms: every interface form of a hop predicate (none; #x; #x,y; #x,0; #0,y; #0,0) for every
// AS of the alphabet, as a deny (allow) entry before the opposite default, against paths that
// cross the AS with every (in,out) combination and start/end in it with every interface.
func (g *eng) aclForms() {
	iv := []uint64{1, 2, 11}
	for _, a := range ases {
		var paths []*vpath
		for _, i := range iv {
			for _, o := range iv {
				paths = append(paths, mkPath([]pif{{1, 5, 1}, {1, a, i}, {1, a, o}, {11, 65551, 2}}))
			}
			paths = append(paths, mkPath([]pif{{1, a, i}, {11, 65551, 2}}), mkPath([]pif{{11, 65551, 2}, {1, a, i}}),
				mkPath([]pif{{11, a, i}, {1, a, i}, {1, a, 11}, {11, a, i}}))
		}
		paths = append(paths, mkPath(nil))
		var forms [][]uint64
		forms = append(forms, []uint64{0}, []uint64{0, 0})
		for _, x := range []uint64{1, 2} {
			forms = append(forms, []uint64{x}, []uint64{x, 0}, []uint64{0, x}, []uint64{x, x}, []uint64{x, 3 - x}, []uint64{x, 11})
		}
		for _, isd := range []uint64{0, 1} {
			for _, f := range forms {
				for _, allow := range []bool{false, true} {
					for form := 0; form < 2; form++ {
						if form == 1 && !(len(f) == 1 && f[0] == 0) {
							continue
						}
						es := []aclEntry{{allow, &aclPred{isd: isd, as: a, ifs: f}, form}, {allow: !allow}}
						g.aclCase(es, true, paths)
						// a second rule on the same AS behind the first: first match must win
						es2 := []aclEntry{{allow, &aclPred{isd: isd, as: a, ifs: f}, form},
							{!allow, &aclPred{isd: 1, as: a, ifs: []uint64{0}}, 1}, {allow: allow, rule: &aclPred{ifs: []uint64{0}}, form: 2}}
						g.aclCase(es2, true, paths)
					}
				}
			}
		}
	}
}

// optionsCases (predicate only, no model line): policies whose only content is 2-3 weighted
// options with ACL/sequence sub-policies.  Documented rule (evalOptions): options are tried by
// descending weight; all options of the first weight level at which some option accepts a path
// contribute; the result is the input paths, in input order, accepted by one of them (paths are
// identified by their interface list, so equal paths are kept together).
func (g *eng) optionsCases(n int) {
	r := g.r
	for c := 0; c < n; c++ {
		var paths []*vpath
		for j := 0; j < 10+r.Intn(8); j++ {
			paths = append(paths, g.randPath(2+r.Intn(3)))
		}
		if r.Chance(50) { // an equal path (same interfaces, different object) later in the list
			q := paths[r.Intn(len(paths))]
			paths = append(paths, mkPath(append([]pif{}, q.ifs...)))
		}
		in := make([]snet.Path, len(paths))
		for i, p := range paths {
			in[i] = p
		}
		type opt struct {
			w   int
			acl []aclEntry
			x   *ex
		}
		k := 2 + r.Intn(2)
		opts := make([]opt, k)
		var pol []pathpol.Option
		var desc []string
		for i := range opts {
			o := opt{w: r.Intn(2)} // equal weights are frequent
			if r.Chance(70) {
				o.acl = g.randACL(true)
			}
			if o.acl == nil || r.Chance(40) {
				// a sequence drawn towards one of the paths so that options accept different subsets
				q := paths[r.Intn(len(paths))]
				hs, _ := q.hopList()
				cur := &ex{op: "star", a: &ex{op: "h", p: pred{}}}
				if len(hs) > 0 {
					h := hs[r.Intn(len(hs))]
					hp := &ex{op: "h", p: pred{isd: uint64(h.isd), as: asLit{2, h.as, addr.AS(h.as).String(), true}}}
					cur = &ex{op: "cat", a: cur, b: &ex{op: "cat", a: hp, b: cur}}
				}
				o.x = cur
			}
			opts[i] = o
			text := ""
			if o.x != nil {
				text = o.x.text(nil)
			}
			seq, err := pathpol.NewSequence(text)
			if err != nil {
				panic(err)
			}
			var acl *pathpol.ACL
			var ts []string
			if o.acl != nil {
				acl = mkACL(o.acl)
				for _, en := range o.acl {
					ts = append(ts, en.text())
				}
			}
			sub := pathpol.NewPolicy(fmt.Sprintf("o%d", i), acl, seq, nil)
			pol = append(pol, pathpol.Option{Weight: o.w, Policy: &pathpol.ExtPolicy{Policy: sub}})
			desc = append(desc, fmt.Sprintf("w=%d acl=%v seq=%q", o.w, ts, text))
		}
		top := pathpol.NewPolicy("top", nil, nil, pol)
		ans, ok := vlib.Safe(func() string {
			m, err := maskOf(in, top.Filter(in))
			if err != nil {
				return "not-a-sublist"
			}
			return m
		})
		// expected, from the rule
		acc := func(o opt, p *vpath) bool {
			if o.acl != nil && !aclAccepts(o.acl, p) {
				return false
			}
			if o.x != nil {
				hs, hok := p.hopList()
				return hok && o.x.denotes(hs)
			}
			return true
		}
		key := func(p *vpath) string { return p.word() }
		set := map[string]bool{}
		for _, w := range []int{1, 0} {
			for _, o := range opts {
				if o.w == w {
					for _, p := range paths {
						if acc(o, p) {
							set[key(p)] = true
						}
					}
				}
			}
			if len(set) > 0 {
				break
			}
		}
		want := make([]byte, len(paths))
		for i, p := range paths {
			want[i] = '0'
			if set[key(p)] {
				want[i] = '1'
			}
		}
		tag := fmt.Sprintf("options/%d", k)
		g.e.Case("opt "+strings.Join(desc, ";")+"|"+pathWords(paths), tag, !strings.Contains(string(want), "1"))
		rep := map[string]any{"options": desc, "paths": pathWords(paths), "got": ans, "want": string(want)}
		if !ok || ans == "not-a-sublist" {
			g.e.Violate("C47/policy-options-order", "Policy.Filter with options did not return an order-preserving sub-list of the input (order changed, path lost or duplicated): "+ans, rep)
		} else if ans != string(want) {
			g.e.Violate("C47/policy-options", "Policy.Filter with options keeps a path no winning option accepts or drops one it accepts", rep)
		}
	}
}

func (g *eng) aclCase(es []aclEntry, valid bool, paths []*vpath) {
	e := g.e
	in := make([]snet.Path, len(paths))
	for i, p := range paths {
		in[i] = p
	}
	var ws []string
	for _, x := range es {
		ws = append(ws, x.word())
	}
	a := mkACL(es)
	ans, ok := vlib.Safe(func() string {
		m, err := maskOf(in, a.Eval(in))
		if err != nil {
			return "not-a-sublist"
		}
		return m
	})
	if !ok {
		ans = "panic"
	}
	tag := "acl/" + fmt.Sprint(len(es))
	if !valid {
		tag = "acl/invalid/" + ans[:1]
	}
	e.Op("acl "+strings.Join(ws, " ")+" | "+pathWords(paths), ans, tag)
	e.Evaluations += len(paths) - 1
	if !valid {
		return
	}
	var ts []string
	for _, x := range es {
		ts = append(ts, x.text())
	}
	rep := map[string]any{"acl": strings.Join(ws, " "), "acl_text": ts, "paths": pathWords(paths)}
	if !ok || ans == "not-a-sublist" {
		e.Violate("C47/acl-filter", "ACL.Eval did not return an order-preserving sub-list: "+ans, rep)
		return
	}
	for i, p := range paths {
		if (ans[i] == '1') != (len(es) == 0 || aclAccepts(es, p)) {
			rep["path"] = p.word()
			e.Violate("C47/acl-filter", "ACL.Eval keeps a path the ACL denies or drops one it allows", rep)
			return
		}
	}
}

func (g *eng) polCase(es []aclEntry, x *ex, paths []*vpath) {
	e := g.e
	in := make([]snet.Path, len(paths))
	for i, p := range paths {
		in[i] = p
	}
	var ws []string
	for _, en := range es {
		ws = append(ws, en.word())
	}
	text, xw := "", "none"
	if x != nil {
		text, xw = x.text(g.r), x.words()
	}
	seq, err := pathpol.NewSequence(text)
	if err != nil {
		e.Violate("C47/seq-mismatch", "NewSequence rejects a valid expression", map[string]any{"sequence": text})
		return
	}
	pol := pathpol.NewPolicy("p", mkACL(es), seq, nil)
	ans, ok := vlib.Safe(func() string {
		m, err := maskOf(in, pol.Filter(in))
		if err != nil {
			return "not-a-sublist"
		}
		return m
	})
	if !ok {
		ans = "panic"
	}
	e.Op("pol "+strings.Join(ws, " ")+" ; "+xw+" | "+pathWords(paths), ans, "pol/"+fmt.Sprint(len(es), x != nil))
	e.Evaluations += len(paths) - 1
	rep := map[string]any{"acl": strings.Join(ws, " "), "sequence": text, "paths": pathWords(paths)}
	if !ok || ans == "not-a-sublist" {
		e.Violate("C47/policy-filter", "Policy.Filter did not return an order-preserving sub-list: "+ans, rep)
		return
	}
	for i, p := range paths {
		want := len(es) == 0 || aclAccepts(es, p)
		if want && x != nil {
			hs, hok := p.hopList()
			want = hok && x.denotes(hs)
		}
		if (ans[i] == '1') != want {
			rep["path"] = p.word()
			e.Violate("C47/policy-filter", "Policy.Filter keeps a path it does not accept or drops one it accepts", rep)
			return
		}
	}
}

// ---- enumeration of small expressions

func smallExprs(leaves []pred, ops int) []*ex {
	byOps := make([][]*ex, ops+1)
	for _, p := range leaves {
		byOps[0] = append(byOps[0], &ex{op: "h", p: p})
	}
	for n := 1; n <= ops; n++ {
		for _, a := range byOps[n-1] {
			for _, u := range []string{"opt", "plus", "star"} {
				byOps[n] = append(byOps[n], &ex{op: u, a: a})
			}
		}
		for k := 0; k <= n-1; k++ {
			for _, a := range byOps[k] {
				for _, b := range byOps[n-1-k] {
					byOps[n] = append(byOps[n], &ex{op: "cat", a: a, b: b}, &ex{op: "alt", a: a, b: b})
				}
			}
		}
	}
	var all []*ex
	for _, l := range byOps {
		all = append(all, l...)
	}
	return all
}

func main() {
	log.Discard()
	e := vlib.Init()
	g := &eng{e: e, r: vlib.NewRand(uint64(e.Seed))}
	r := g.r
	e.Rule = "alphabet: ISDs {1,11}, ASes {5, ff00:0:110, 65551} each literal in every spelling (decimal / colon form, " +
		"lower/upper/mixed-case hex), interfaces {1,2,11} (+0 at the ends); (a) every hop predicate P (all ISD/AS/#if/#in,out " +
		"forms and spellings) as `0* P 0*` x all 2-hop paths (quick: a seeded third) + random 3/4-hop paths; (b) all expressions with <= 2 operators " +
		"(quick: a seeded sample; thorough: all) over 6 predicates x all interface lists of length 0,2,4 over 4 interfaces; " +
		"(c) random expressions of depth <= 4 with random redundant parentheses/blanks x random paths of 0,2,3,4 hops and " +
		"odd interface lists; (c') extremes: ASes 65535, 65536, 99999, 100000, 131072, 4200000001, 2^32-1, 2^32, 2^48-1 (every spelling), ISD 65535, interface 65535 as source/transit/destination against wildcard and literal predicates in 5 (thorough: 9) expression shapes; (d) (e) predicate only: policies with 2-3 weighted options (equal and different weights, ACL/sequence sub-policies accepting different, interleaving subsets, equal paths repeated) judged against the documented weight rule and order preservation; random ACLs / policies (valid default entry; a few without, for the panic branch) x random " +
		"paths; one op = one expression (ACL) against a batch of paths; non-trivial = at least one path kept; predicate: " +
		"independent matcher over the hop list, order-preserving sub-list"

	// all paths with 2 hops
	var two []*vpath
	var allIf []pif
	for _, i := range isds {
		for _, a := range ases {
			for _, f := range ifs {
				allIf = append(allIf, pif{i, a, f})
			}
		}
	}
	for _, x := range allIf {
		for _, y := range allIf {
			two = append(two, mkPath([]pif{x, y}))
		}
	}
	// (a) every predicate
	any0 := &ex{op: "star", a: &ex{op: "h", p: pred{}}}
	for _, p := range allPreds() {
		x := &ex{op: "cat", a: any0, b: &ex{op: "cat", a: &ex{op: "h", p: p}, b: any0}}
		var paths []*vpath
		if e.Thorough() {
			paths = append(paths, two...)
		} else { // a seeded third of the 2-hop paths
			for _, q := range two {
				if r.Chance(33) {
					paths = append(paths, q)
				}
			}
		}
		for i := 0; i < e.N(20, 300); i++ {
			paths = append(paths, g.randPath(3+r.Intn(2)))
		}
		g.seqCase(x, x.text(nil), paths, "pred")
	}
	// (b) small expressions
	leaves := []pred{{}, {isd: 1}, {isd: 1, as: asLit{2, 5, "5", true}},
		{isd: 0, as: asLit{kind: 1, ok: true}, nif: 1, i0: 1},
		{isd: 1, as: asLit{2, 0xff00_0000_0110, "FF00:0:110", true}, nif: 2, i0: 1, i1: 2},
		{isd: 11, as: asLit{2, 5, "0:0:5", true}, nif: 2, i0: 0, i1: 2}}
	four := []pif{{1, 5, 1}, {1, 5, 2}, {1, 0xff00_0000_0110, 1}, {11, 5, 2}}
	var small []*vpath
	small = append(small, mkPath(nil))
	for _, a := range four {
		for _, b := range four {
			small = append(small, mkPath([]pif{a, b}))
			for _, c := range four {
				for _, d := range four {
					small = append(small, mkPath([]pif{a, b, c, d}))
				}
			}
		}
	}
	exprs := smallExprs(leaves, 2)
	e.Extra["small_exprs_total"] = len(exprs)
	for i, x := range exprs {
		if !e.Thorough() && i >= 6+18+72 && !r.Chance(12) {
			continue
		}
		g.seqCase(x, x.text(nil), small, "small")
	}
	// (c) random expressions
	n := e.N(2500, 40000)
	for i := 0; i < n; i++ {
		x := g.randEx(1 + r.Intn(4))
		var paths []*vpath
		for k := 0; k < 24; k++ {
			switch r.Intn(12) {
			case 0:
				paths = append(paths, mkPath(nil))
			case 1: // odd number of interfaces: skipped by Eval
				p := g.randPath(2 + r.Intn(2))
				paths = append(paths, mkPath(p.ifs[:len(p.ifs)-1]))
			default:
				paths = append(paths, g.randPath(2+r.Intn(3)))
			}
		}
		// paths drawn from the expression's own language (hit rate)
		for k := 0; k < 8; k++ {
			if p := pathOfHops(g.sample(x)); p != nil {
				paths = append(paths, p)
			}
		}
		g.seqCase(x, x.text(r), paths, "rand")
	}
	// (c') extremes of the value ranges
	g.bigValues()
	// literals the statement gives no meaning to (tie only): out-of-range decimal / hex groups, AS 0 in colon form
	for _, t := range []string{"4294967296", "281474976710656", "10000:0:0", "0:0:12345", "0:0:0", "1:0:0", "0:1:0", "4294967295", "0:ffff:ffff", "0:FFFF:ffff"} {
		v, err := addr.ParseAS(t)
		x := &ex{op: "cat", a: any0, b: &ex{op: "cat", a: &ex{op: "h", p: pred{isd: 0, as: asLit{2, uint64(v), t, err == nil && v != 0}}}, b: any0}}
		paths := []*vpath{mkPath([]pif{{1, 1 << 32, 1}, {1, 5, 2}}), mkPath([]pif{{1, 1<<32 - 1, 1}, {1, 5, 2}}),
			mkPath([]pif{{1, 0, 1}, {1, 65536, 2}}), mkPath([]pif{{1, 0x12345, 1}, {1, 5, 2}})}
		g.seqCase(x, x.text(nil), paths, "edge")
	}
	// empty sequence keeps everything, also odd paths
	{
		p := g.randPath(3)
		paths := []*vpath{mkPath(nil), p, mkPath(p.ifs[:3])}
		in := []snet.Path{paths[0], paths[1], paths[2]}
		seq, _ := pathpol.NewSequence("")
		m, err := maskOf(in, seq.Eval(in))
		if err != nil {
			m = "not-a-sublist"
		}
		e.Op("ev none | "+pathWords(paths), m+" "+m, "ev/none")
		if m != "111" {
			e.Violate("C47/seq-mismatch", "the empty sequence does not keep every path", map[string]any{"mask": m})
		}
	}
	// (d) ACL and policy
	g.aclForms()
	g.optionsCases(e.N(1500, 20000))
	k := e.N(1500, 30000)
	for i := 0; i < k; i++ {
		var paths []*vpath
		for j := 0; j < 16; j++ {
			switch r.Intn(10) {
			case 0:
				paths = append(paths, mkPath(nil))
			case 1:
				p := g.randPath(3)
				paths = append(paths, mkPath(p.ifs[:len(p.ifs)-1]))
			default:
				paths = append(paths, g.randPath(2+r.Intn(3)))
			}
		}
		if r.Chance(20) { // repeated element: order and multiplicity
			paths = append(paths, paths[r.Intn(len(paths))])
		}
		valid := !r.Chance(8)
		es := g.randACL(valid)
		g.aclCase(es, valid || len(es) == 0, paths)
		if valid || len(es) == 0 {
			var x *ex
			if !r.Chance(10) {
				x = g.randEx(1 + r.Intn(3))
			}
			g.polCase(es, x, paths)
		}
	}
	e.Finish()
}
