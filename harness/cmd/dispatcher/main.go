// Engine "dispatcher" (C44): ties lean/Scion/Model/Dispatcher.lean to
// dispatcher.Server.processMsgNextHop (verif hook) and evaluates the C44 property predicate —
// written from the statement with an independent parse of the datagram (gopacket.NewPacket over
// the slayers decoders) — on what the real function returns.
package main

import (
	"bytes"
	"encoding/binary"
	"fmt"
	"net"
	"net/netip"
	"sort"
	"strings"

	"github.com/gopacket/gopacket"

	"github.com/scionproto/scion/dispatcher"
	"github.com/scionproto/scion/pkg/addr"
	"github.com/scionproto/scion/pkg/slayers"
	"github.com/scionproto/scion/pkg/slayers/path"
	"github.com/scionproto/scion/pkg/slayers/path/epic"

	"verifharness/vlib"
	"verifharness/wiregen"
)

type svcKey struct {
	ia  uint64
	svc uint16
}

type world struct {
	e       *vlib.Env
	r       *vlib.Rand
	servers map[bool]*dispatcher.Server
	svcs    map[svcKey]netip.AddrPort
	prevHop netip.AddrPort
	hosts   []netip.Addr // addresses "this host" may have
	// coincide: make the destination the datagram derives (host and port / identifier / quoted
	// source port / registered service address) equal to the previous hop's underlay address
	coincide bool
}

func newServer(isDisp bool) *dispatcher.Server {
	conn, err := net.ListenUDP("udp", &net.UDPAddr{IP: net.IPv4(127, 0, 0, 1), Port: 0})
	if err != nil {
		panic(err)
	}
	return dispatcher.NewServer(isDisp, map[addr.Addr]netip.AddrPort{}, conn)
}

// svcKeys lists the registered services in a fixed order (map iteration order is random).
func (w *world) svcKeys() []svcKey {
	var ks []svcKey
	for k := range w.svcs {
		ks = append(ks, k)
	}
	sort.Slice(ks, func(i, j int) bool {
		if ks[i].ia != ks[j].ia {
			return ks[i].ia < ks[j].ia
		}
		return ks[i].svc < ks[j].svc
	})
	return ks
}

func (w *world) setSvcs(isDisp bool) string {
	m := map[addr.Addr]netip.AddrPort{}
	var words []string
	for k, ap := range w.svcs {
		m[addr.Addr{IA: addr.IA(k.ia), Host: addr.HostSVC(addr.SVC(k.svc))}] = ap
		words = append(words, fmt.Sprintf("%d:%d:%s:%d", k.ia, k.svc, vlib.Hex(ap.Addr().AsSlice()), ap.Port()))
	}
	sort.Strings(words)
	w.servers[isDisp].ServiceAddresses = m
	return fmt.Sprintf("cfg %s %s", wiregen.B2s(isDisp), strings.Join(words, " "))
}

// ---- datagram generation ---------------------------------------------------------------------

func (w *world) randHost() netip.Addr { return w.hosts[w.r.Intn(len(w.hosts))] }

func mapped(a netip.Addr) netip.Addr {
	if a.Is4() {
		return netip.AddrFrom16(a.As16())
	}
	return a
}

func (w *world) genOpts(hbh bool) (o []*slayers.HopByHopOption, e []*slayers.EndToEndOption) {
	r := w.r
	for i := r.Intn(3); i > 0; i-- {
		t := slayers.OptionType(r.Intn(5))
		d := r.Bytes(r.Intn(14))
		al := [2]uint8{0, 0}
		if r.Bool() {
			x := []uint8{2, 4, 8}[r.Intn(3)]
			al = [2]uint8{x, uint8(r.Intn(int(x)))}
		}
		if hbh {
			o = append(o, &slayers.HopByHopOption{OptType: t, OptData: d, OptAlign: al})
		} else {
			e = append(e, &slayers.EndToEndOption{OptType: t, OptData: d, OptAlign: al})
		}
	}
	return
}

var scmpErrTypes = []slayers.SCMPType{1, 2, 4, 5, 6}

// scmpBody returns the bytes after the 4-byte SCMP header for the given type.
func (w *world) scmpBody(t slayers.SCMPType, depth int) []byte {
	r := w.r
	switch t {
	case slayers.SCMPTypeEchoRequest, slayers.SCMPTypeEchoReply:
		b := make([]byte, 4)
		binary.BigEndian.PutUint16(b, uint16(w.port()))
		binary.BigEndian.PutUint16(b[2:], uint16(r.U64()))
		return append(b, r.Bytes(r.Intn(12))...)
	case slayers.SCMPTypeTracerouteRequest, slayers.SCMPTypeTracerouteReply:
		b := r.Bytes(20)
		binary.BigEndian.PutUint16(b, uint16(w.port()))
		return b
	case 1, 2, 4:
		return append(r.Bytes(4), w.quote(depth)...)
	case 5:
		return append(r.Bytes(16), w.quote(depth)...)
	case 6:
		return append(r.Bytes(24), w.quote(depth)...)
	}
	return r.Bytes(r.Intn(40))
}

func (w *world) port() int {
	if w.coincide && w.r.Chance(85) {
		return int(w.prevHop.Port())
	}
	if w.r.Chance(8) {
		return 0
	}
	return 1 + w.r.Intn(65535)
}

// quote builds an offending packet (possibly truncated, possibly with extension headers).
func (w *world) quote(depth int) []byte {
	r := w.r
	if depth > 1 || r.Chance(6) {
		return r.Bytes(r.Intn(30))
	}
	q, _ := w.datagram(depth+1, true)
	switch r.Intn(8) {
	case 0:
		return q[:r.Intn(len(q)+1)]
	case 1:
		return nil
	}
	return q
}

// datagram builds a SCION datagram. inner=true biases towards what a quoted packet looks like.
func (w *world) datagram(depth int, inner bool) ([]byte, string) {
	r := w.r
	s, _ := wiregen.GenSCION(r)
	// destination host: mostly an IP address of this host or a registered service
	dstSel := r.Intn(10)
	if w.coincide && depth == 0 {
		dstSel = 3 // an IP host, overwritten below with the previous hop's address
		if r.Chance(25) {
			// a service registered at exactly the previous hop's address and port
			k := svcKey{0x1ff0000000110, []uint16{1, 2, 0x8001, 0xffff}[r.Intn(4)]}
			w.svcs[k] = w.prevHop
			s.DstIA = addr.IA(k.ia)
			s.DstAddrType = slayers.T4Svc
			s.RawDstAddr = []byte{byte(k.svc >> 8), byte(k.svc), 0, 0}
			dstSel = -1
		}
	}
	switch dstSel {
	case -1:
	case 0, 1:
		var k svcKey
		if len(w.svcs) > 0 && r.Chance(75) {
			k = w.svcKeys()[r.Intn(len(w.svcs))]
		} else {
			k = svcKey{r.U64(), uint16(r.U64())}
		}
		s.DstIA = addr.IA(k.ia)
		s.DstAddrType = slayers.T4Svc
		s.RawDstAddr = []byte{byte(k.svc >> 8), byte(k.svc), 0, 0}
		if r.Chance(10) {
			s.RawDstAddr[2+r.Intn(2)] = byte(r.U64())
		}
	case 2:
		// any address type, random bytes (8/12-byte addresses, unknown types)
	default:
		h := w.randHost()
		if r.Chance(15) {
			h = mapped(h)
		}
		if w.coincide && depth == 0 {
			h = w.prevHop.Addr()
			if r.Chance(20) {
				h = mapped(h)
			}
		}
		if h.Is4() {
			s.DstAddrType = slayers.T4Ip
		} else {
			s.DstAddrType = slayers.T16Ip
		}
		s.RawDstAddr = h.AsSlice()
	}
	if r.Chance(70) { // source: a parseable address so that replies can be built
		h := netip.AddrFrom4([4]byte(r.Bytes(4)))
		switch r.Intn(4) {
		case 0:
			h = netip.AddrFrom16([16]byte(r.Bytes(16)))
		case 1:
			h = mapped(h)
		}
		if h.Is4() {
			s.SrcAddrType = slayers.T4Ip
		} else {
			s.SrcAddrType = slayers.T16Ip
		}
		s.RawSrcAddr = h.AsSlice()
		if r.Chance(10) {
			s.SrcAddrType = slayers.T4Svc
			s.RawSrcAddr = r.Bytes(4)
		}
	}
	// upper layers
	var l4 uint8
	var upper []byte
	kind := ""
	switch r.Intn(12) {
	case 0, 1, 2, 3:
		l4 = 17
		kind = "udp"
		u := make([]byte, 8)
		binary.BigEndian.PutUint16(u, uint16(w.port()))
		binary.BigEndian.PutUint16(u[2:], uint16(w.port()))
		pl := r.Bytes(r.Intn(20))
		binary.BigEndian.PutUint16(u[4:], uint16(8+len(pl)))
		if r.Chance(10) {
			binary.BigEndian.PutUint16(u[4:], uint16(r.Intn(12)))
		}
		upper = append(u, pl...)
		if r.Chance(8) {
			upper = upper[:r.Intn(len(upper)+1)]
		}
	case 4, 5, 6, 7, 8, 9:
		l4 = 202
		var t slayers.SCMPType
		switch r.Intn(10) {
		case 0, 1:
			t = slayers.SCMPTypeEchoRequest
		case 2:
			t = slayers.SCMPTypeTracerouteRequest
		case 3:
			t = slayers.SCMPTypeEchoReply
		case 4:
			t = slayers.SCMPTypeTracerouteReply
		case 5, 6, 7, 8:
			t = scmpErrTypes[r.Intn(len(scmpErrTypes))]
			if inner && r.Chance(70) {
				t = []slayers.SCMPType{128, 130, 129, 131, 128, 129, 131, 1, 200}[r.Intn(9)]
			}
		default:
			t = slayers.SCMPType(r.U64())
		}
		upper = append([]byte{byte(t), byte(r.U64()), byte(r.U64()), byte(r.U64())}, w.scmpBody(t, depth)...)
		switch {
		case t == 128 || t == 130:
			kind = "scmp-req"
		case t == 129 || t == 131:
			kind = "scmp-reply"
		case t == 1 || t == 2 || t == 4 || t == 5 || t == 6:
			kind = "scmp-err"
		default:
			kind = "scmp-other"
		}
		if r.Chance(8) {
			upper = upper[:r.Intn(len(upper)+1)]
		}
	default:
		l4 = []uint8{6, 203, 0, 253, 200, 201}[r.Intn(6)]
		upper = r.Bytes(r.Intn(30))
		kind = "other-l4"
	}
	// extension headers
	next := l4
	var ext []byte
	mkExt := func(class uint8, hbh bool) {
		buf := gopacket.NewSerializeBuffer()
		ho, eo := w.genOpts(hbh)
		var err error
		if hbh {
			x := &slayers.HopByHopExtn{Options: ho}
			x.NextHdr = slayers.L4ProtocolType(next)
			err = x.SerializeTo(buf, gopacket.SerializeOptions{FixLengths: true})
		} else {
			x := &slayers.EndToEndExtn{Options: eo}
			x.NextHdr = slayers.L4ProtocolType(next)
			err = x.SerializeTo(buf, gopacket.SerializeOptions{FixLengths: true})
		}
		if err != nil {
			return
		}
		ext = append(append([]byte(nil), buf.Bytes()...), ext...)
		next = class
	}
	if r.Chance(25) {
		mkExt(201, false)
		kind += "+e2e"
	}
	if r.Chance(20) {
		mkExt(200, true)
		kind += "+hbh"
	}
	if r.Chance(4) { // misordered / repeated
		if r.Bool() {
			mkExt(200, true)
		} else {
			mkExt(201, false)
		}
	}
	s.NextHdr = slayers.L4ProtocolType(next)
	payload := append(ext, upper...)
	out, err, pn := wiregen.RealSerialize(s, payload, true)
	if s.DstAddrType == slayers.T4Svc {
		kind += "+svc"
	}
	if err != nil || pn != "" {
		return r.Bytes(40), "unserializable"
	}
	return out, kind
}

// ---- independent reading of a datagram (for the predicate) ---------------------------------------

type view struct {
	ok   bool
	scn  *slayers.SCION
	l4   string // "udp", "scmp", "" (by the NextHdr chain; extension headers are skipped, not parsed)
	udp  *slayers.UDP
	scmp *slayers.SCMP
}

// readDatagram reads the layers of a datagram the way the statement talks about them: SCION
// header, optional HBH and E2E extension (only their lengths matter), then SCION/UDP or SCMP.
func readDatagram(data []byte) (v view) {
	defer func() {
		if recover() != nil {
			v = view{}
		}
	}()
	var (
		scn  slayers.SCION
		hbh  slayers.HopByHopExtnSkipper
		e2e  slayers.EndToEndExtnSkipper
		udp  slayers.UDP
		scmp slayers.SCMP
	)
	scn.RecyclePaths() // as the dispatcher: an unknown path type is carried as an opaque path
	parser := gopacket.NewDecodingLayerParser(slayers.LayerTypeSCION, &scn, &hbh, &e2e, &udp, &scmp)
	parser.IgnoreUnsupported = true
	var decoded []gopacket.LayerType
	if err := parser.DecodeLayers(append([]byte(nil), data...), &decoded); err != nil || len(decoded) == 0 {
		if len(decoded) == 0 {
			return view{}
		}
	}
	v.ok, v.scn = true, &scn
	switch decoded[len(decoded)-1] {
	case slayers.LayerTypeSCIONUDP:
		v.l4, v.udp = "udp", &udp
	case slayers.LayerTypeSCMP:
		v.l4, v.scmp = "scmp", &scmp
	}
	return v
}

// sameHost: the same SCION host; an IPv4-mapped IPv6 address and its IPv4 form are one address
// (PackAddr unmaps on purpose).
func sameHost(a, b addr.Host) bool {
	if a.Type() == addr.HostTypeIP && b.Type() == addr.HostTypeIP {
		return a.IP().Unmap() == b.IP().Unmap()
	}
	return a == b
}

func unmapEq(a, b netip.Addr) bool { return a.Unmap() == b.Unmap() }

func (w *world) run(isDisp bool, data []byte, underlay netip.Addr, tag string) {
	e := w.e
	srv := w.servers[isDisp]
	in := append([]byte(nil), data...)
	ul := underlay
	if !isDisp && w.r.Bool() {
		ul = netip.Addr{} // what Serve passes when the dispatcher function is off
	}
	var out []byte
	var target netip.AddrPort
	var ferr error
	res, ok := vlib.Safe(func() string {
		out, target, ferr = srv.VerifProcessMsgNextHop(in, ul, w.prevHop)
		return ""
	})
	ulHex := "-"
	if ul.IsValid() {
		ulHex = vlib.Hex(ul.AsSlice())
	}
	op := fmt.Sprintf("pkt %s %s", ulHex, vlib.Hex(data))
	rep := map[string]any{"datagram": vlib.Hex(data), "underlay": ul.String(), "isDispatcher": isDisp,
		"prevHop": w.prevHop.String(), "kind": tag}
	if !ok {
		e.Op(op, res, tag+"/PANIC")
		e.Violate("C44/panic", "processMsgNextHop panicked: "+res, rep)
		return
	}
	var ans, branch string
	reply := false
	switch {
	case ferr != nil:
		ans, branch = "error", "error"
	case !target.IsValid():
		ans, branch = "drop", "drop"
	case len(out) > 0 && len(in) > 0 && &out[0] == &in[0]:
		ans = fmt.Sprintf("fwd %s %d", vlib.Hex(target.Addr().AsSlice()), target.Port())
		branch = "fwd"
	default:
		reply = true
		scn, scmp := srv.VerifLayers()
		ans = fmt.Sprintf("reply %d %s", scmp.TypeCode.Type(), wiregen.ScionStr(scn))
		branch = "reply"
	}
	mode := "disp"
	if !isDisp {
		mode = "nodisp"
	}
	trivial := ""
	e.Op(op, ans, trivial+mode+"/"+tag+"/"+branch)
	rep["result"] = ans

	// ---- property predicate, from the statement
	v := readDatagram(data)
	switch branch {
	case "error":
		e.Violate("C44/unrecoverable-error", "processMsgNextHop returned a non-nil error (Serve would stop)", rep)
	case "fwd":
		if !isDisp {
			e.Violate("C44/disabled-forwards", "dispatcher function disabled but a packet was forwarded", rep)
		}
		if !bytes.Equal(out, data) {
			e.Violate("C44/forward-modified", "forwarded packet differs from the received one", rep)
		}
		if !unmapEq(target.Addr(), ul) {
			e.Violate("C44/reflected-to-other-host",
				"forwarded to an IP address that is not the outer IP destination of the datagram", rep)
		}
		if !v.ok || v.l4 == "" {
			e.Violate("C44/forwarded-non-l4", "forwarded a datagram that is neither SCION/UDP nor SCMP", rep)
			return
		}
		// target derived from the packet's own SCION destination
		if v.scn.DstAddrType == slayers.T4Svc && v.l4 == "udp" {
			k := svcKey{uint64(v.scn.DstIA), binary.BigEndian.Uint16(v.scn.RawDstAddr)}
			if ap, ok := w.svcs[k]; !ok || ap != target {
				e.Violate("C44/wrong-svc-target", "SVC destination forwarded to something else than the registered address", rep)
			}
		} else {
			if !bytes.Equal(target.Addr().AsSlice(), v.scn.RawDstAddr) {
				e.Violate("C44/target-not-scion-dst", "forwarded to an address that is not the SCION destination host", rep)
			}
			want, ok := w.expectedPort(v)
			if !ok || want != target.Port() {
				rep["expected_port"] = want
				e.Violate("C44/wrong-port", "forwarded to a port that is not the destination port / reply identifier / quoted source port / quoted request identifier (an error quoting an echo/traceroute reply or another SCMP type must be dropped)", rep)
			}
		}
	case "reply":
		if target != w.prevHop {
			e.Violate("C44/reply-not-to-prev-hop", "SCMP info reply sent elsewhere than to the previous hop", rep)
		}
		if !v.ok || v.scmp == nil ||
			(v.scmp.TypeCode.Type() != slayers.SCMPTypeEchoRequest && v.scmp.TypeCode.Type() != slayers.SCMPTypeTracerouteRequest) {
			e.Violate("C44/reply-to-non-request", "a reply was generated for something that is not an echo/traceroute request", rep)
			return
		}
		scn, scmp := srv.VerifLayers()
		if scmp.TypeCode.Type() != v.scmp.TypeCode.Type()+1 || scmp.TypeCode.Code() != 0 {
			e.Violate("C44/reply-type", "reply type is not the reply of the request type", rep)
		}
		if scn.DstIA != v.scn.SrcIA || scn.SrcIA != v.scn.DstIA {
			e.Violate("C44/reply-ia-not-swapped", "ISD-AS not swapped in the reply", rep)
		}
		od, e1 := v.scn.DstAddr()
		os, e2 := v.scn.SrcAddr()
		nd, e3 := scn.DstAddr()
		ns, e4 := scn.SrcAddr()
		if e1 != nil || e2 != nil || e3 != nil || e4 != nil || !sameHost(nd, os) || !sameHost(ns, od) {
			e.Violate("C44/reply-hosts-not-swapped", "host addresses not swapped in the reply", rep)
		}
		// path reversed: compare with the library's own reversal of an independent decode
		if want, ok := reversedPathDump(v.scn); !ok || want != wiregen.PathStr(scn.Path) {
			rep["expected_path"] = want
			e.Violate("C44/reply-path-not-reversed", "reply path is not the reversed request path", rep)
		}
	case "drop":
		// nothing is demanded: dropping is always allowed by the statement
	}
	_ = reply
}

func reversedPathDump(orig *slayers.SCION) (s string, ok bool) {
	defer func() {
		if recover() != nil {
			ok = false
		}
	}()
	var p path.Path = orig.Path
	if ep, isEpic := p.(*epic.Path); isEpic {
		p = ep.ScionPath
	}
	rp, err := p.Reverse()
	if err != nil {
		return "", false
	}
	return wiregen.PathStr(rp), true
}

// expectedPort is the port the statement names: UDP destination port; identifier of an
// echo/traceroute reply; for SCMP errors the quoted packet's UDP source port or echo/traceroute
// identifier.
func (w *world) expectedPort(v view) (uint16, bool) {
	if v.l4 == "udp" {
		return v.udp.DstPort, true
	}
	pl := v.scmp.Payload
	var msgLen int
	switch v.scmp.TypeCode.Type() {
	case slayers.SCMPTypeEchoReply:
		if len(pl) < 4 {
			return 0, false
		}
		return binary.BigEndian.Uint16(pl), true
	case slayers.SCMPTypeTracerouteReply:
		if len(pl) < 20 {
			return 0, false
		}
		return binary.BigEndian.Uint16(pl), true
	case 1, 2, 4:
		msgLen = 4
	case 5:
		msgLen = 16
	case 6:
		msgLen = 24
	default:
		return 0, false
	}
	if len(pl) <= msgLen {
		return 0, false
	}
	// the quoted (offending) packet
	q := gopacket.NewPacket(append([]byte(nil), pl[msgLen:]...), slayers.LayerTypeSCION, gopacket.Default)
	if u := q.Layer(slayers.LayerTypeSCIONUDP); u != nil {
		return u.(*slayers.UDP).SrcPort, u.(*slayers.UDP).SrcPort != 0
	}
	// A quoted SCMP packet names a local application only if it is something this host SENT: an
	// echo or traceroute REQUEST, whose identifier the local application chose. The identifier of
	// a quoted reply (or anything else) was chosen by the remote side: an error about it must be
	// dropped, not relayed to a remotely chosen port.
	qs := q.Layer(slayers.LayerTypeSCMP)
	if qs == nil {
		return 0, false
	}
	switch qs.(*slayers.SCMP).TypeCode.Type() {
	case slayers.SCMPTypeEchoRequest:
		if l := q.Layer(slayers.LayerTypeSCMPEcho); l != nil {
			return l.(*slayers.SCMPEcho).Identifier, true
		}
	case slayers.SCMPTypeTracerouteRequest:
		if l := q.Layer(slayers.LayerTypeSCMPTraceroute); l != nil {
			return l.(*slayers.SCMPTraceroute).Identifier, true
		}
	}
	return 0, false
}

var prevHops = []netip.AddrPort{netip.MustParseAddrPort("10.9.9.9:30042"),
	netip.MustParseAddrPort("[2001:db8:9::9]:31000"), netip.MustParseAddrPort("10.1.2.3:30041")}

func main() {
	e := vlib.Init()
	r := vlib.NewRand(uint64(e.Seed))
	w := &world{e: e, r: r, servers: map[bool]*dispatcher.Server{true: newServer(true), false: newServer(false)}}
	e.Rule = "SCION datagrams (UDP; SCMP echo/traceroute request+reply, 5 error types with quoted packets " +
		"(UDP/SCMP, extension headers, truncated, nested), unknown types; other L4; optional HBH/E2E with options; " +
		"all address types incl. SVC and IPv4-mapped; 4 path types) x outer destination (own, mapped, other) x " +
		"15% of datagrams whose derived destination (host+port / identifier / quoted source port / registered " +
		"service) is deliberately the previous hop's underlay address, with matching and mismatching outer " +
		"destination x " +
		"dispatcher on/off x SVC maps, plus bit flips, truncations and random bytes, through the real " +
		"processMsgNextHop on one long-lived Server per mode; distinct = distinct op lines"
	w.hosts = []netip.Addr{netip.MustParseAddr("10.1.2.3"), netip.MustParseAddr("192.168.7.9"),
		netip.MustParseAddr("2001:db8::77"), netip.MustParseAddr("fd00::1:2")}
	w.prevHop = prevHops[0]
	n := e.N(6000, 120000)
	for i := 0; i < n; i++ {
		if i%500 == 0 { // new SVC map
			w.svcs = map[svcKey]netip.AddrPort{}
			for k := r.Intn(4); k > 0; k-- {
				h := w.randHost()
				if r.Chance(20) {
					h = netip.AddrFrom4([4]byte(r.Bytes(4)))
				}
				w.svcs[svcKey{uint64(r.Intn(3)) + 0x1ff0000000110, []uint16{1, 2, 0x8001, 0xffff}[r.Intn(4)]}] =
					netip.AddrPortFrom(h, uint16(1+r.Intn(65535)))
			}
			for _, d := range []bool{true, false} {
				e.Op(w.setSvcs(d), "ok", "~cfg")
			}
		}
		isDisp := r.Chance(75)
		if i%500 == 0 || i%500 == 250 {
			// the model driver keeps one configuration: re-announce on every mode switch
		}
		w.prevHop = prevHops[r.Intn(len(prevHops))]
		w.coincide = r.Chance(15)
		data, kind := w.datagram(0, false)
		if w.coincide {
			kind = "toprev:" + kind
		}
		tag := kind
		switch r.Intn(12) {
		case 0:
			data[r.Intn(len(data))] ^= 1 << uint(r.Intn(8))
			tag = kind + "/bitflip"
		case 1:
			data = data[:r.Intn(len(data)+1)]
			tag = kind + "/truncated"
		case 2:
			if r.Chance(30) {
				data = r.Bytes(r.Intn(100))
				tag = "random"
			}
		}
		// outer destination
		var underlay netip.Addr
		v := readDatagram(data)
		switch {
		case w.coincide && r.Chance(55):
			underlay = w.randHost() // outer destination is this host, SCION destination the previous hop
		case v.ok && r.Chance(75):
			if a, ok := netip.AddrFromSlice(v.scn.RawDstAddr); ok && v.scn.DstAddrType != slayers.T4Svc {
				underlay = a
			} else if v.scn.DstAddrType == slayers.T4Svc && len(v.scn.RawDstAddr) >= 2 {
				if ap, ok := w.svcs[svcKey{uint64(v.scn.DstIA), binary.BigEndian.Uint16(v.scn.RawDstAddr)}]; ok {
					underlay = ap.Addr()
				}
			}
			if !underlay.IsValid() {
				underlay = w.randHost()
			}
			if r.Chance(15) {
				if underlay.Is4() {
					underlay = mapped(underlay)
				} else {
					underlay = underlay.Unmap()
				}
			}
		default:
			underlay = w.randHost()
		}
		// the model driver holds one Cfg: announce the mode of this datagram
		e.Op(w.setSvcs(isDisp), "ok", "~cfg")
		w.run(isDisp, data, underlay, tag)
	}
	e.Finish()
}
