// Engine "extend" (C23): ties lean/Scion/Model/Extend.lean to control/beaconing.DefaultExtender
// (+ pkg/segment AddASEntry/Validate, trust.LastExpiring, path.ExpTimeFromDuration) and evaluates
// the C23 property predicate on every AS entry the real extender produces.
//
// Per case a beacon is originated and propagated through a chain of ASes, each with its own
// key, interface table, MTU, maximum expiry and signers (ECDSA via pkg/scrypto/signed with
// validity windows around the segment timestamp and now).  Two MAC modes: "xor" (the extender's
// hash.Hash is `input XOR key`, which the Lean driver mirrors — exposes the complete MAC input
// layout to the model comparison) and "aes" (real scrypto.HFMacFactory; predicate only).
package main

import (
	"context"
	"crypto/ecdsa"
	"crypto/elliptic"
	"encoding/binary"
	"fmt"
	"hash"
	"net/netip"
	"sort"
	"strings"
	"time"

	"github.com/scionproto/scion/control/beaconing"
	"github.com/scionproto/scion/control/ifstate"
	"github.com/scionproto/scion/pkg/addr"
	cryptopb "github.com/scionproto/scion/pkg/proto/crypto"
	"github.com/scionproto/scion/pkg/scrypto"
	"github.com/scionproto/scion/pkg/scrypto/cppki"
	"github.com/scionproto/scion/pkg/scrypto/signed"
	seg "github.com/scionproto/scion/pkg/segment"
	"github.com/scionproto/scion/pkg/segment/extensions/discovery"
	"github.com/scionproto/scion/pkg/slayers/path"
	"github.com/scionproto/scion/private/topology"

	"verifharness/vlib"
)

// ---- xor "MAC": Sum = input XOR key (16 bytes)
type xorHash struct {
	key []byte
	buf []byte
}

func (x *xorHash) Write(p []byte) (int, error) { x.buf = append(x.buf, p...); return len(p), nil }
func (x *xorHash) Sum(b []byte) []byte {
	out := make([]byte, 16)
	for i := range out {
		if i < len(x.buf) {
			out[i] = x.buf[i] ^ x.key[i]
		}
	}
	return append(b, out...)
}
func (x *xorHash) Reset()         { x.buf = x.buf[:0] }
func (x *xorHash) Size() int      { return 16 }
func (x *xorHash) BlockSize() int { return 16 }

// ---- signers
type detRand struct{ r *vlib.Rand }

func (d detRand) Read(p []byte) (int, error) { copy(p, d.r.Bytes(len(p))); return len(p), nil }

var keys = map[int]*ecdsa.PrivateKey{}

func keyOf(i int) *ecdsa.PrivateKey {
	if k, ok := keys[i]; ok {
		return k
	}
	k, err := ecdsa.GenerateKey(elliptic.P256(), detRand{vlib.NewRand(uint64(1000 + i))})
	if err != nil {
		panic(err)
	}
	keys[i] = k
	return k
}

type sgn struct {
	idx  int
	val  cppki.Validity
	used *int // index of the signer that signed last
}

func (s sgn) Validity() cppki.Validity { return s.val }
func (s sgn) Sign(_ context.Context, msg []byte, ad ...[]byte) (*cryptopb.SignedMessage, error) {
	*s.used = s.idx
	l := 0
	for _, d := range ad {
		l += len(d)
	}
	return signed.Sign(signed.Header{SignatureAlgorithm: signed.ECDSAWithSHA256,
		Timestamp: time.Unix(1_700_000_000, 0), AssociatedDataLength: l}, msg, keyOf(s.idx), ad...)
}

type keyVerifier struct{ idx int }

func (v keyVerifier) Verify(_ context.Context, m *cryptopb.SignedMessage, ad ...[]byte) (*signed.Message, error) {
	return signed.Verify(m, keyOf(v.idx).Public(), ad...)
}

// ---- AS description
type ifc struct {
	id  uint16
	ia  addr.IA
	rid uint16
	mtu uint16
}

type asCfg struct {
	ia     addr.IA
	key    []byte
	mtu    uint16
	maxExp uint8
	ifs    []ifc
}

func iaStr(ia addr.IA) string { return fmt.Sprintf("%d.%d", ia.ISD(), uint64(ia.AS())) }

func randIA(r *vlib.Rand) addr.IA {
	return addr.MustIAFrom(addr.ISD(r.Range(1, 4)), addr.AS(0xff00_0000_0100+r.Intn(40)))
}

func (a asCfg) macFactory(aes bool) func() hash.Hash {
	if aes {
		f, err := scrypto.HFMacFactory(a.key)
		if err != nil {
			panic(err)
		}
		return f
	}
	return func() hash.Hash { return &xorHash{key: a.key} }
}

func (a asCfg) find(id uint16) *ifc {
	for i := range a.ifs {
		if a.ifs[i].id == id {
			return &a.ifs[i]
		}
	}
	return nil
}

// specMAC computes a hop-field MAC from the layout documented in doc/protocols/scion-header
// ("Hop Field MAC Computation"): 0(16) SegID(16) Timestamp(32) 0(8) ExpTime(8) ConsIngress(16)
// ConsEgress(16) 0(16); the first 6 bytes of the MAC over that block.  Written independently of
// path.MACInput on purpose.
func specMAC(h hash.Hash, segID uint16, ts uint32, exp uint8, in, eg uint16) [path.MacLen]byte {
	var b [16]byte
	b[2], b[3] = byte(segID>>8), byte(segID)
	b[4], b[5], b[6], b[7] = byte(ts>>24), byte(ts>>16), byte(ts>>8), byte(ts)
	b[9] = exp
	b[10], b[11] = byte(in>>8), byte(in)
	b[12], b[13] = byte(eg>>8), byte(eg)
	h.Reset()
	_, _ = h.Write(b[:])
	var m [path.MacLen]byte
	copy(m[:], h.Sum(nil))
	return m
}

func main() {
	e := vlib.Init()
	e.Rule = "chains of 1-5 ASes extending one beacon with the real DefaultExtender: per AS random key, MTU (rarely 0), " +
		"max expiry (every value 0..255 in the first 256 cases, then random), 3-6 interfaces (rarely wildcard remote / remote id 0), " +
		"0-3 peers (some unknown/unset), 1-3 signers with validity windows [ts-a, now+b], b in {-100,5,100,337,338,1000,3600,6h,12h,24h,1e6}s " +
		"and exact ts+ExpTimeToDuration boundaries, ingress/egress mostly consistent with the position, sometimes 0/unknown; " +
		"xor-MAC chains are compared with the model line by line, AES-CMAC chains by predicate only; " +
		"concurrent mode: 6 goroutines originate/propagate different beacons through ONE shared extender, meeting inside the MAC factory, each result judged like a sequential one; " +
		"ExpTimeFromDuration on boundary and random durations; non-trivial = extension succeeded"
	ctx := context.Background()
	ncase := e.N(2500, 60000)
	bs := []int64{-100, 5, 100, 337, 338, 675, 1000, 3600, 21600, 43200, 86400, 86401, 1000000}
	for ci := 0; ci < ncase; ci++ {
		r := vlib.CaseRand(e.Seed, ci)
		aes := r.Chance(25)
		now0 := time.Now()
		nowSec := now0.Unix()
		tsSec := nowSec - int64([]int{0, 1, 10, 300, 1000, 5000, 20000, 50000, 90000}[r.Intn(9)])
		if r.Chance(3) {
			tsSec = nowSec + 30 // timestamp in the future: no signer can cover [ts, now]
		}
		segID := uint16(r.U64())
		pseg, err := seg.CreateSegment(time.Unix(tsSec, 0), segID)
		if err != nil {
			panic(err)
		}
		L := r.Range(1, 5)
		ias := make([]addr.IA, L+1)
		for i := range ias {
			ias[i] = randIA(r)
		}
		var cfgs []asCfg       // ASes that extended so far (for independent MAC verification)
		var signerOf []int     // key index that signed entry j
		for step := 0; step < L; step++ {
			a := asCfg{ia: ias[step], key: r.Bytes(16), mtu: uint16(r.Range(1200, 1500)), maxExp: uint8(r.Intn(256))}
			if ci < 256 && step == 0 {
				a.maxExp = uint8(ci)
			}
			if r.Chance(2) {
				a.mtu = 0
			}
			nif := r.Range(3, 6)
			used := map[uint16]bool{}
			for len(a.ifs) < nif {
				id := uint16(r.Range(1, 14))
				if used[id] {
					continue
				}
				used[id] = true
				f := ifc{id: id, ia: randIA(r), rid: uint16(r.Range(1, 9)), mtu: uint16(r.Range(1200, 1500))}
				if r.Chance(5) {
					f.rid = 0
				}
				if r.Chance(4) {
					f.ia = addr.MustIAFrom(0, f.ia.AS())
				}
				a.ifs = append(a.ifs, f)
			}
			// ingress: interface towards the previous AS; egress: towards the next AS
			var ingress, egress uint16
			if step > 0 {
				a.ifs[0].ia = ias[step-1]
				ingress = a.ifs[0].id
			}
			a.ifs[1].ia = ias[step+1]
			if r.Chance(6) {
				a.ifs[1].ia = randIA(r) // next hop of this entry will not match the next AS
			}
			egress = a.ifs[1].id
			last := step == L-1
			if last && r.Chance(40) {
				egress = 0 // terminate
			}
			switch r.Intn(40) {
			case 0:
				ingress = 0
			case 1:
				ingress = a.ifs[2].id
			case 2:
				ingress = 77 // unknown
			case 3:
				egress = 0
			case 4:
				egress = 78 // unknown
			case 5:
				ingress, egress = 0, 0
			}
			var peers []uint16
			for i, n := 0, r.Intn(4); i < n; i++ {
				p := a.ifs[r.Intn(len(a.ifs))].id
				if r.Chance(10) {
					p = uint16(r.Range(60, 70))
				}
				peers = append(peers, p)
			}
			// signers
			var usedIdx = -1
			var sgs []beaconing.Signer
			var sgWords []string
			for i, n := 0, r.Range(1, 3); i < n; i++ {
				nb := tsSec - int64([]int{0, 1, 100, 100000}[r.Intn(4)])
				na := nowSec + bs[r.Intn(len(bs))]
				if r.Chance(15) { // certificate roll-over: a newer signer, not yet valid at the segment timestamp
					nb = tsSec + int64(r.Range(1, 600))
					if r.Bool() {
						na = nowSec + 2000000
					}
				}
				if r.Chance(25) { // around ts + ExpTimeToDuration(e) for a random e (half-second grid)
					ex := int64(r.Intn(256))
					na = tsSec + ((ex+1)*3375)/10 + int64(r.Intn(3)) - 1
					if na-nowSec < 5 && na-nowSec > -5 {
						na = nowSec + 5
					}
				}
				if r.Chance(1) {
					sgWords = nil
					sgs = nil
					break
				}
				idx := ci*16 + step*4 + i
				idx = idx % 64 // a pool of 64 keys
				sgs = append(sgs, sgn{idx: idx, val: cppki.Validity{NotBefore: time.Unix(nb, 0), NotAfter: time.Unix(na, 0)}, used: &usedIdx})
				sgWords = append(sgWords, fmt.Sprintf("%d:%d", nb, na))
			}
			infos := map[uint16]ifstate.InterfaceInfo{}
			var ifWords []string
			for _, f := range a.ifs {
				infos[f.id] = ifstate.InterfaceInfo{ID: f.id, IA: f.ia, LinkType: topology.Child, RemoteID: f.rid, MTU: f.mtu,
					InternalAddr: netip.MustParseAddrPort("10.0.0.1:30042")}
				ifWords = append(ifWords, fmt.Sprintf("%d:%s:%d:%d", f.id, iaStr(f.ia), f.rid, f.mtu))
			}
			sort.Strings(ifWords)
			ext := &beaconing.DefaultExtender{
				IA: a.ia, SignerGen: beaconing.SignerGenFunc(func(context.Context) ([]beaconing.Signer, error) { return sgs, nil }),
				MAC: a.macFactory(aes), Intfs: ifstate.NewInterfaces(infos, ifstate.Config{}), MTU: a.mtu,
				MaxExpTime:           func() uint8 { return a.maxExp },
				StaticInfo:           func() *beaconing.StaticInfoCfg { return nil },
				DiscoveryInformation: func() *discovery.Extension { return nil },
				EPIC:                 aes && r.Chance(30),
			}
			// op (state before the call)
			var prevWords []string
			for _, en := range pseg.ASEntries {
				var pe []string
				for _, p := range en.PeerEntries {
					pe = append(pe, fmt.Sprint(p.HopField.ConsEgress))
				}
				pw := "-"
				if len(pe) > 0 {
					pw = strings.Join(pe, "+")
				}
				prevWords = append(prevWords, fmt.Sprintf("%s>%s/%d/%d/%s/%s", iaStr(en.Local), iaStr(en.Next),
					en.HopEntry.HopField.ConsIngress, en.HopEntry.HopField.ConsEgress, vlib.Hex(en.HopEntry.HopField.MAC[:]), pw))
			}
			lst := func(w []string, sep string) string {
				if len(w) == 0 {
					return "-"
				}
				return strings.Join(w, sep)
			}
			var peerWords []string
			for _, p := range peers {
				peerWords = append(peerWords, fmt.Sprint(p))
			}
			nEntriesBefore := len(pseg.ASEntries)
			t0 := time.Now()
			var xerr error
			_, okc := vlib.Safe(func() string { xerr = ext.Extend(ctx, pseg, ingress, egress, peers); return "" })
			op := fmt.Sprintf("ext %s %d %d %s %d %d %d %d %d %s %s %s %s", iaStr(a.ia), a.mtu, a.maxExp, vlib.Hex(a.key),
				segID, tsSec, t0.UnixNano(), ingress, egress, lst(peerWords, ","), lst(ifWords, ","), lst(sgWords, ","), lst(prevWords, ","))
			appended := len(pseg.ASEntries) > nEntriesBefore
			replay := map[string]any{"op": op, "mode": map[bool]string{true: "aes", false: "xor"}[aes], "step": step}
			var out, tag string
			switch {
			case !okc:
				out, tag = "panic", "panic"
				e.Violate("C23/panic", "Extend panicked", replay)
			case xerr != nil && appended:
				out, tag = "err", "err-after-append"
			case xerr != nil:
				out, tag = "err", "err"
			default:
				en := pseg.ASEntries[len(pseg.ASEntries)-1]
				var pw []string
				for _, p := range en.PeerEntries {
					pw = append(pw, fmt.Sprintf("%d:%s:%d:%d:%s:%d:%d", p.HopField.ConsIngress, iaStr(p.Peer), p.PeerInterface,
						p.PeerMTU, vlib.Hex(p.HopField.MAC[:]), p.HopField.ConsEgress, p.HopField.ExpTime))
				}
				sw := "?"
				if usedIdx >= 0 {
					for _, s := range sgs {
						if s.(sgn).idx == usedIdx {
							sw = fmt.Sprintf("%d:%d", s.Validity().NotBefore.Unix(), s.Validity().NotAfter.Unix())
							break
						}
					}
				}
				out = fmt.Sprintf("ok %s %d %d %s %d %d %d %s %s %s", iaStr(en.Local), en.MTU, en.HopEntry.HopField.ExpTime,
					iaStr(en.Next), en.HopEntry.IngressMTU, en.HopEntry.HopField.ConsIngress, en.HopEntry.HopField.ConsEgress,
					vlib.Hex(en.HopEntry.HopField.MAC[:]), lst(pw, ","), sw)
				tag = "ok"
				if en.HopEntry.HopField.ExpTime < a.maxExp {
					tag = "ok-exp-shortened"
				}
				if len(en.PeerEntries) > 0 {
					tag += "+peers"
				}
			}
			if aes {
				e.Case(op, "aes/"+tag, xerr != nil)
			} else {
				if xerr != nil {
					tag = "~" + tag
				}
				e.Op(op, out, tag)
			}
			if ci < 3 {
				e.Sample(map[string]any{"op": op, "impl": out})
			}
			if xerr != nil || !okc {
				break // the chain ends here
			}
			// ---------- the statement of C23 on the produced entry
			cfgs = append(cfgs, a)
			signerOf = append(signerOf, usedIdx)
			idx := len(pseg.ASEntries) - 1
			en := pseg.ASEntries[idx]
			bad := func(key, what string) { e.Violate("C23/"+key, what, replay) }
			// position
			if (ingress == 0) != (idx == 0) {
				bad("position", "extension succeeded although ingress=0 does not coincide with the first entry")
			}
			if ingress == 0 && egress == 0 {
				bad("position", "extension succeeded with ingress = egress = 0")
			}
			if en.HopEntry.HopField.ConsIngress != ingress || en.HopEntry.HopField.ConsEgress != egress {
				bad("hop-interfaces", "hop field does not carry the requested ingress/egress")
			}
			// names the local AS and the neighbour behind the egress interface
			if en.Local != a.ia {
				bad("local-ia", "entry does not name the local AS")
			}
			if egress == 0 {
				if !en.Next.IsZero() {
					bad("next-ia", "terminated entry names a next AS")
				}
			} else if f := a.find(egress); f == nil || en.Next != f.ia {
				bad("next-ia", "entry does not name the neighbour behind the egress interface")
			}
			// expiry bounds
			exp := en.HopEntry.HopField.ExpTime
			if exp > a.maxExp {
				bad("expiry-max", fmt.Sprintf("hop expiry %d exceeds the configured maximum %d", exp, a.maxExp))
			}
			hopEnd := time.Unix(tsSec, 0).Add(path.ExpTimeToDuration(exp))
			for _, s := range sgs {
				if s.(sgn).idx == usedIdx && s.Validity().NotBefore.After(time.Unix(tsSec, 0)) {
					bad("signer-not-valid-at-timestamp", fmt.Sprintf("the entry is signed by a signer valid from %s only, after the segment timestamp %s: "+
						"it cannot be verified for the hop's validity period", s.Validity().NotBefore.UTC(), time.Unix(tsSec, 0).UTC()))
				}
				if s.(sgn).idx == usedIdx && hopEnd.After(s.Validity().NotAfter) {
					bad("expiry-signer", fmt.Sprintf("hop expires %s, after the signer used (%s)", hopEnd.UTC(), s.Validity().NotAfter.UTC()))
				}
			}
			// MACs verify under the AS keys with the accumulated segment identifier
			beta := segID
			for j, ej := range pseg.ASEntries {
				h := cfgs[j].macFactory(aes)()
				hf := ej.HopEntry.HopField
				want := specMAC(h, beta, uint32(tsSec), hf.ExpTime, hf.ConsIngress, hf.ConsEgress)
				if want != hf.MAC {
					bad("hop-mac", fmt.Sprintf("hop field MAC of entry %d does not verify with the accumulated segment id", j))
				}
				beta ^= binary.BigEndian.Uint16(hf.MAC[:2])
				for k, p := range ej.PeerEntries {
					pf := p.HopField
					wantP := specMAC(h, beta, uint32(tsSec), pf.ExpTime, pf.ConsIngress, pf.ConsEgress)
					if wantP != pf.MAC {
						bad("peer-mac", fmt.Sprintf("peer hop field %d of entry %d does not verify", k, j))
					}
					if j == idx {
						if pf.ConsEgress != egress || pf.ExpTime != exp {
							bad("peer-fields", "peer hop field egress/expiry differ from the hop field")
						}
						f := a.find(pf.ConsIngress)
						if f == nil || p.Peer != f.ia || p.PeerInterface != f.rid || f.rid == 0 || f.ia.IsWildcard() {
							bad("peer-fields", "peer entry does not describe the peering interface")
						}
					}
				}
			}
			// signed over the segment info and all earlier entries and signatures
			if err := pseg.VerifyASEntry(ctx, keyVerifier{usedIdx}, idx); err != nil {
				bad("signature", "the new entry's signature does not verify: "+err.Error())
			}
			tamper := func(what string, mut func(c *seg.PathSegment)) {
				c := pseg.ShallowCopy()
				c.Info.Raw = append([]byte(nil), c.Info.Raw...)
				for i := range c.ASEntries {
					s := c.ASEntries[i].Signed
					c.ASEntries[i].Signed = &cryptopb.SignedMessage{HeaderAndBody: append([]byte(nil), s.HeaderAndBody...),
						Signature: append([]byte(nil), s.Signature...)}
				}
				mut(c)
				if c.VerifyASEntry(ctx, keyVerifier{usedIdx}, idx) == nil {
					bad("signature-coverage", "the new entry's signature still verifies after changing "+what)
				}
			}
			if r.Chance(50) {
				tamper("the segment info", func(c *seg.PathSegment) { c.Info.Raw[len(c.Info.Raw)-1] ^= 1 })
				if idx > 0 {
					j := r.Intn(idx)
					tamper("an earlier entry", func(c *seg.PathSegment) { c.ASEntries[j].Signed.HeaderAndBody[3] ^= 0x10 })
					tamper("an earlier signature", func(c *seg.PathSegment) { c.ASEntries[j].Signed.Signature[5] ^= 0x10 })
				}
			}
			// the result is a valid beacon / terminated segment
			vm := seg.ValidateBeacon
			if egress == 0 {
				vm = seg.ValidateSegment
			}
			if err := pseg.Validate(vm); err != nil {
				bad("validate", "extension succeeded but the segment does not validate: "+err.Error())
			}
			if egress == 0 {
				break
			}
		}
	}
	// ---- concurrent use of one extender
	runConcurrent(e, ctx)
	// ---- ExpTimeFromDuration
	r := vlib.NewRand(uint64(e.Seed) + 5)
	unit := int64(path.MaxTTL / 256)
	efd := func(d int64) {
		v, err := path.ExpTimeFromDuration(time.Duration(d))
		out := "none"
		if err == nil {
			out = fmt.Sprint(v)
			if back := int64(path.ExpTimeToDuration(v)); back > d || d-back >= unit {
				e.Violate("C23/exptime-floor", fmt.Sprintf("ExpTimeFromDuration(%d)=%d is not the floor", d, v), map[string]any{"d": d})
			}
		}
		e.Op(fmt.Sprintf("efd %d", d), out, map[bool]string{true: "efd-ok", false: "~efd-err"}[err == nil])
	}
	for k := int64(0); k <= 257; k++ {
		for _, dd := range []int64{-1, 0, 1} {
			efd(k*unit + dd)
		}
	}
	for i, n := 0, e.N(3000, 100000); i < n; i++ {
		efd(int64(r.U64() % uint64(int64(path.MaxTTL)+unit)))
	}
	efd(-5)
	e.Finish()
}
