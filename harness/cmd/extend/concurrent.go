package main

// Concurrent mode of the "extend" engine (C23): several goroutines extend DIFFERENT beacons
// through ONE shared DefaultExtender at the same time — as the originator (one goroutine per
// egress interface) and the propagator (one per beacon) do.  The statement quantifies over all
// beacons, so every produced entry must be the one the sequential model predicts, whatever the
// interleaving.  The extender's injectable MAC factory is used as a rendezvous point: it is
// called between the preparation of the MAC input and its use, so two overlapping calls are
// made to meet exactly there.

import (
	"context"
	"encoding/binary"
	"fmt"
	"hash"
	"net/netip"
	"sort"
	"strings"
	"sync"
	"sync/atomic"
	"time"

	"github.com/scionproto/scion/control/beaconing"
	"github.com/scionproto/scion/control/ifstate"
	"github.com/scionproto/scion/pkg/addr"
	cryptopb "github.com/scionproto/scion/pkg/proto/crypto"
	"github.com/scionproto/scion/pkg/scrypto/cppki"
	"github.com/scionproto/scion/pkg/scrypto/signed"
	seg "github.com/scionproto/scion/pkg/segment"
	"github.com/scionproto/scion/pkg/segment/extensions/discovery"
	"github.com/scionproto/scion/private/topology"

	"verifharness/vlib"
)

// plainSigner: one key, no spy (shared by all goroutines).
type plainSigner struct {
	idx int
	val cppki.Validity
}

func (s plainSigner) Validity() cppki.Validity { return s.val }
func (s plainSigner) Sign(_ context.Context, msg []byte, ad ...[]byte) (*cryptopb.SignedMessage, error) {
	l := 0
	for _, d := range ad {
		l += len(d)
	}
	return signed.Sign(signed.Header{SignatureAlgorithm: signed.ECDSAWithSHA256,
		Timestamp: time.Unix(1_700_000_000, 0), AssociatedDataLength: l}, msg, keyOf(s.idx), ad...)
}

// meetingPoint pairs up two goroutines (or lets one pass after a short wait).
type meetingPoint struct {
	ch     chan struct{}
	active atomic.Bool
}

func (m *meetingPoint) meet() {
	if !m.active.Load() {
		return
	}
	select {
	case m.ch <- struct{}{}:
	case <-m.ch:
	case <-time.After(2 * time.Millisecond):
	}
}

func prevWord(en seg.ASEntry) string {
	var pe []string
	for _, p := range en.PeerEntries {
		pe = append(pe, fmt.Sprint(p.HopField.ConsEgress))
	}
	pw := "-"
	if len(pe) > 0 {
		pw = strings.Join(pe, "+")
	}
	return fmt.Sprintf("%s>%s/%d/%d/%s/%s", iaStr(en.Local), iaStr(en.Next),
		en.HopEntry.HopField.ConsIngress, en.HopEntry.HopField.ConsEgress, vlib.Hex(en.HopEntry.HopField.MAC[:]), pw)
}

func entryWord(en seg.ASEntry, signer string) string {
	var pw []string
	for _, p := range en.PeerEntries {
		pw = append(pw, fmt.Sprintf("%d:%s:%d:%d:%s:%d:%d", p.HopField.ConsIngress, iaStr(p.Peer), p.PeerInterface,
			p.PeerMTU, vlib.Hex(p.HopField.MAC[:]), p.HopField.ConsEgress, p.HopField.ExpTime))
	}
	ps := "-"
	if len(pw) > 0 {
		ps = strings.Join(pw, ",")
	}
	return fmt.Sprintf("ok %s %d %d %s %d %d %d %s %s %s", iaStr(en.Local), en.MTU, en.HopEntry.HopField.ExpTime,
		iaStr(en.Next), en.HopEntry.IngressMTU, en.HopEntry.HopField.ConsIngress, en.HopEntry.HopField.ConsEgress,
		vlib.Hex(en.HopEntry.HopField.MAC[:]), ps, signer)
}

type job struct {
	pseg    *seg.PathSegment
	segID   uint16
	tsSec   int64
	ingress uint16
	egress  uint16
	peers   []uint16
	prev    []string
	prevCfg *asCfg // the AS that built the earlier entry (nil: origination)
	err     error
	ok      bool
}

func runConcurrent(e *vlib.Env, ctx context.Context) {
	const NG = 6
	rounds := e.N(120, 1500)
	r := vlib.NewRand(uint64(e.Seed) + 4242)
	nowSec := time.Now().Unix()
	for round := 0; round < rounds; round++ {
		aes := round%4 == 3
		// the shared AS
		a := asCfg{ia: addr.MustIAFrom(1, 0xff00_0000_0300), key: r.Bytes(16), mtu: 1400, maxExp: uint8(r.Intn(256))}
		up := asCfg{ia: addr.MustIAFrom(1, 0xff00_0000_0301), key: r.Bytes(16), mtu: 1400, maxExp: 63} // upstream AS
		infos := map[uint16]ifstate.InterfaceInfo{}
		var ifWords []string
		for i := 0; i < NG+3; i++ {
			f := ifc{id: uint16(i + 1), ia: addr.MustIAFrom(addr.ISD(1+i%3), addr.AS(0xff00_0000_0310+i)), rid: uint16(20 + i), mtu: uint16(1300 + i)}
			if i == NG+2 {
				f.ia = up.ia // the interface towards the upstream AS
			}
			a.ifs = append(a.ifs, f)
			infos[f.id] = ifstate.InterfaceInfo{ID: f.id, IA: f.ia, LinkType: topology.Child, RemoteID: f.rid, MTU: f.mtu,
				InternalAddr: netip.MustParseAddrPort("10.0.0.1:30042")}
			ifWords = append(ifWords, fmt.Sprintf("%d:%s:%d:%d", f.id, iaStr(f.ia), f.rid, f.mtu))
		}
		sort.Strings(ifWords)
		upIf := uint16(NG + 3)
		nb, na := nowSec-200000, nowSec+1000000
		sg := plainSigner{idx: round % 64, val: cppki.Validity{NotBefore: time.Unix(nb, 0), NotAfter: time.Unix(na, 0)}}
		sgWord := fmt.Sprintf("%d:%d", nb, na)
		mp := &meetingPoint{ch: make(chan struct{})}
		base := a.macFactory(aes)
		mk := func(c asCfg, intfs map[uint16]ifstate.InterfaceInfo, mac func() hash.Hash) *beaconing.DefaultExtender {
			return &beaconing.DefaultExtender{
				IA: c.ia, SignerGen: beaconing.SignerGenFunc(func(context.Context) ([]beaconing.Signer, error) {
					return []beaconing.Signer{sg}, nil
				}),
				MAC: mac, Intfs: ifstate.NewInterfaces(intfs, ifstate.Config{}), MTU: c.mtu,
				MaxExpTime:           func() uint8 { return c.maxExp },
				StaticInfo:           func() *beaconing.StaticInfoCfg { return nil },
				DiscoveryInformation: func() *discovery.Extension { return nil },
			}
		}
		shared := mk(a, infos, func() hash.Hash { mp.meet(); return base() })
		upExt := mk(up, map[uint16]ifstate.InterfaceInfo{9: {ID: 9, IA: a.ia, LinkType: topology.Child, RemoteID: upIf, MTU: 1400,
			InternalAddr: netip.MustParseAddrPort("10.0.0.2:30042")}}, up.macFactory(aes))
		// jobs: even goroutines originate, odd ones propagate a beacon received from the upstream AS
		jobs := make([]*job, NG)
		for g := range jobs {
			j := &job{segID: uint16(r.U64()), tsSec: nowSec - int64(r.Intn(3000)) - int64(g), egress: uint16(g + 1)}
			ps, err := seg.CreateSegment(time.Unix(j.tsSec, 0), j.segID)
			if err != nil {
				panic(err)
			}
			if g%2 == 1 {
				if err := upExt.Extend(ctx, ps, 0, 9, nil); err != nil {
					panic(err)
				}
				j.ingress = upIf
				j.prev = []string{prevWord(ps.ASEntries[0])}
				j.prevCfg = &up
			}
			for k, n := 0, r.Intn(3); k < n; k++ {
				j.peers = append(j.peers, uint16(1+r.Intn(NG+2)))
			}
			j.pseg = ps
			jobs[g] = j
		}
		// one sequential warm-up call (so that any lazily created state of the extender exists)
		{
			ps, _ := seg.CreateSegment(time.Unix(nowSec-5, 0), 1)
			_ = shared.Extend(ctx, ps, 0, 1, nil)
		}
		t0 := time.Now()
		mp.active.Store(true)
		var wg sync.WaitGroup
		start := make(chan struct{})
		for _, j := range jobs {
			wg.Add(1)
			go func() {
				defer wg.Done()
				<-start
				_, j.ok = vlib.Safe(func() string { j.err = shared.Extend(ctx, j.pseg, j.ingress, j.egress, j.peers); return "" })
			}()
		}
		close(start)
		wg.Wait()
		mp.active.Store(false)
		// judge every result exactly as in the sequential case
		for g, j := range jobs {
			var pw []string
			for _, p := range j.peers {
				pw = append(pw, fmt.Sprint(p))
			}
			lst := func(w []string) string {
				if len(w) == 0 {
					return "-"
				}
				return strings.Join(w, ",")
			}
			op := fmt.Sprintf("ext %s %d %d %s %d %d %d %d %d %s %s %s %s", iaStr(a.ia), a.mtu, a.maxExp, vlib.Hex(a.key),
				j.segID, j.tsSec, t0.UnixNano(), j.ingress, j.egress, lst(pw), strings.Join(ifWords, ","), sgWord, lst(j.prev))
			replay := map[string]any{"op": op, "mode": map[bool]string{true: "aes", false: "xor"}[aes],
				"concurrent_goroutines": NG, "goroutine": g, "round": round}
			if !j.ok {
				e.Violate("C23/panic", "Extend panicked under concurrent use of one extender", replay)
				e.Op(op, "panic", "conc-panic")
				continue
			}
			if j.err != nil {
				e.Violate("C23/concurrent-error", "a valid extension failed under concurrent use of one extender: "+j.err.Error(), replay)
				e.Op(op, "err", "conc-err")
				continue
			}
			idx := len(j.pseg.ASEntries) - 1
			en := j.pseg.ASEntries[idx]
			out := entryWord(en, sgWord)
			tag := "conc-originate"
			if j.prevCfg != nil {
				tag = "conc-propagate"
			}
			if aes {
				e.Case(op, "aes/"+tag, false)
			} else {
				e.Op(op, out, tag)
			}
			// independent predicate: MACs verify under the AS keys with the accumulated segment id
			beta := j.segID
			for k, ek := range j.pseg.ASEntries {
				c := a
				if k < idx {
					c = *j.prevCfg
				}
				h := c.macFactory(aes)()
				hf := ek.HopEntry.HopField
				if specMAC(h, beta, uint32(j.tsSec), hf.ExpTime, hf.ConsIngress, hf.ConsEgress) != hf.MAC {
					e.Violate("C23/hop-mac-concurrent", fmt.Sprintf("hop field MAC of entry %d does not verify with the accumulated "+
						"segment id: the entry was produced while other beacons were extended through the same extender", k), replay)
				}
				beta ^= binary.BigEndian.Uint16(hf.MAC[:2])
				for pi, p := range ek.PeerEntries {
					pf := p.HopField
					if specMAC(h, beta, uint32(j.tsSec), pf.ExpTime, pf.ConsIngress, pf.ConsEgress) != pf.MAC {
						e.Violate("C23/peer-mac-concurrent", fmt.Sprintf("peer hop field %d of entry %d does not verify "+
							"(concurrent use of one extender)", pi, k), replay)
					}
				}
			}
			if en.Local != a.ia || en.Next != a.find(j.egress).ia || en.HopEntry.HopField.ConsEgress != j.egress ||
				en.HopEntry.HopField.ConsIngress != j.ingress || en.HopEntry.HopField.ExpTime > a.maxExp {
				e.Violate("C23/entry-concurrent", "entry fields wrong under concurrent use of one extender", replay)
			}
			if err := j.pseg.VerifyASEntry(ctx, keyVerifier{sg.idx}, idx); err != nil {
				e.Violate("C23/signature", "signature of an entry produced concurrently does not verify", replay)
			}
		}
	}
}
