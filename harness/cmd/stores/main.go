// Engine "stores" (C27): random operation histories against the REAL in-memory SQLite path DB
// (private/storage/path/sqlite) and beacon DB (private/storage/beacon/sqlite); every operation's
// canonicalised answer is compared with the abstract store of lean/Scion/Model/Stores.lean
// (driver sm_stores) and, independently, with a reference map kept here that is written
// directly from the property statement (the Appendix-D scratch fuzzers).
//
// Determinism: nothing the stores record depends on the wall clock except LastUpdated, which is
// canonicalised to the index of the operation whose [before, after] clock bracket contains it.
// All segment timestamps, versions and expiries are relative to a fixed base instant.
package main

import (
	"context"
	"crypto/ecdsa"
	"crypto/elliptic"
	"crypto/rand"
	"encoding/hex"
	"fmt"
	"os"
	"runtime/pprof"
	"sort"
	"strings"
	"time"

	"github.com/scionproto/scion/control/beacon"
	"github.com/scionproto/scion/pkg/addr"
	"github.com/scionproto/scion/pkg/private/xtest/graph"
	"github.com/scionproto/scion/pkg/scrypto/signed"
	seg "github.com/scionproto/scion/pkg/segment"
	"github.com/scionproto/scion/pkg/segment/iface"
	"github.com/scionproto/scion/private/pathdb/query"
	storagebeacon "github.com/scionproto/scion/private/storage/beacon"
	beaconsqlite "github.com/scionproto/scion/private/storage/beacon/sqlite"
	sdb "github.com/scionproto/scion/private/storage/db"
	pathsqlite "github.com/scionproto/scion/private/storage/path/sqlite"

	"verifharness/vlib"
)

const base = int64(1_700_000_000) // fixed reference instant (s)

var (
	ctx    = context.Background()
	signer *graph.Signer
)

func mustIA(s string) addr.IA { return addr.MustParseIA(s) }
func iaStr(a addr.IA) string  { return fmt.Sprintf("%d:%d", a.ISD(), uint64(a.AS())) }
func id16(b []byte) string    { return hex.EncodeToString(b[:8]) }
func csvOr(l []string) string {
	if len(l) == 0 {
		return "-"
	}
	return strings.Join(l, ",")
}
func u64s(l []uint64) string {
	var s []string
	for _, x := range l {
		s = append(s, fmt.Sprint(x))
	}
	return csvOr(s)
}

// lastVersion reads the version of a path segment — the signing time (ns) of its last AS
// entry — directly from the signed header, independently of the store's own helper
// (private/storage/utils), so that a change there cannot also change the reference.
func lastVersion(ps *seg.PathSegment) (int64, error) {
	if len(ps.ASEntries) == 0 {
		return 0, fmt.Errorf("no AS entries")
	}
	hdr, err := signed.ExtractUnverifiedHeader(ps.ASEntries[len(ps.ASEntries)-1].Signed)
	if err != nil {
		return 0, err
	}
	return hdr.Timestamp.UnixNano(), nil
}

type ident struct {
	ias []addr.IA
	ifs [][2]uint16
}

// ---------------------------------------------------------------------------------------------
// fabricated segments

type segKey struct {
	ident  int
	peer   uint16
	infoTS int64
	ver    int64 // ns
	exp    uint8
	beacon bool
}

type segInfo struct {
	key    segKey
	seg    *seg.PathSegment
	id     string // 16 hex digits
	full   string
	ver    int64
	maxExp int64
	first  addr.IA
	last   addr.IA
	intfs  []string // isd:as:ifid, computed from the identity (NOT by the store's code)
	hops   int
}

var segCache = map[segKey]*segInfo{}

func mkSeg(ids []ident, k segKey) *segInfo {
	if s, ok := segCache[k]; ok {
		return s
	}
	id := ids[k.ident]
	ps, err := seg.CreateSegment(time.Unix(k.infoTS, 0), 7)
	if err != nil {
		panic(err)
	}
	info := &segInfo{key: k, first: id.ias[0], last: id.ias[len(id.ias)-1], hops: len(id.ias)}
	for i, ia := range id.ias {
		next := addr.IA(0)
		if i+1 < len(id.ias) {
			next = id.ias[i+1]
		} else if k.beacon {
			next = mustIA("1-ff00:0:999")
		}
		e := seg.ASEntry{Local: ia, Next: next, MTU: 1400,
			HopEntry: seg.HopEntry{HopField: seg.HopField{ConsIngress: id.ifs[i][0],
				ConsEgress: id.ifs[i][1], ExpTime: k.exp}}}
		for _, x := range id.ifs[i] {
			if x != 0 {
				info.intfs = append(info.intfs, fmt.Sprintf("%s:%d", iaStr(ia), x))
			}
		}
		if i == 1 && k.peer != 0 {
			// a peer entry changes FullID (not SegID), the interface rows, and — with a longer
			// hop lifetime — the latest hop expiry
			e.PeerEntries = []seg.PeerEntry{{Peer: mustIA("1-ff00:0:999"), PeerInterface: 5,
				PeerMTU: 1400, HopField: seg.HopField{ConsIngress: k.peer, ConsEgress: id.ifs[i][1],
					ExpTime: k.exp + 1}}}
			info.intfs = append(info.intfs, fmt.Sprintf("%s:%d", iaStr(ia), k.peer))
		}
		s := *signer
		s.Timestamp = time.Unix(0, k.ver)
		if err := ps.AddASEntry(ctx, e, s); err != nil {
			panic(err)
		}
	}
	info.seg = ps
	info.id, info.full = id16(ps.ID()), id16(ps.FullID())
	v, err := lastVersion(ps)
	if err != nil {
		panic(err)
	}
	if v != k.ver {
		panic(fmt.Sprintf("signing time %d read back as %d", k.ver, v))
	}
	info.ver = v
	info.maxExp = ps.MaxExpiry().Unix()
	segCache[k] = info
	return info
}

// ---------------------------------------------------------------------------------------------
// reference maps (the statement, in Go)

type prow struct {
	s      *segInfo
	types  map[seg.Type]bool
	groups map[uint64]bool
	lu     int
}

type brow struct {
	s     *segInfo
	usage beacon.Usage
	in    uint16
	lu    int
}

type bracket struct{ t0, t1 int64 }

type history struct {
	e      *vlib.Env
	r      *vlib.Rand
	idx    int
	pdb    *pathsqlite.Backend
	bdb    *beaconsqlite.Backend
	pref   map[string]*prow
	bref   map[string]*brow
	nqref  map[[2]addr.IA]int64
	tick   int
	br     []bracket
	log    []string
	pids   []ident
	bids   []ident
	groups []uint64
	viol   bool
}

func (h *history) violate(class, what string) {
	h.viol = true
	h.e.Violate("C27/"+class, what, map[string]any{"history": h.idx, "seed": h.e.Seed,
		"ops": append([]string(nil), h.log...)})
}

// luOf maps a LastUpdated instant to the index of the op that wrote it.
func (h *history) luOf(t time.Time) int {
	n := t.UnixNano()
	for i := len(h.br) - 1; i >= 0; i-- {
		if h.br[i].t0 <= n && n <= h.br[i].t1 {
			return i
		}
	}
	return -1
}

// do runs one op: f calls the implementation and returns its canonical answer.
func (h *history) do(op, tag string, f func() string) string {
	b := bracket{t0: time.Now().UnixNano()}
	res, _ := vlib.Safe(f)
	b.t1 = time.Now().UnixNano()
	h.br = append(h.br, b)
	// LastUpdated values are rendered after the bracket is known
	res = h.fixLU(res)
	h.e.Op(op, res, tag)
	h.log = append(h.log, op+" -> "+res)
	h.tick++
	return res
}

// results carry "@<unixnano>" placeholders for LastUpdated; replace by op indices and sort.
func (h *history) fixLU(res string) string {
	if !strings.Contains(res, "@") {
		return res
	}
	ws := strings.Fields(res)
	for i, w := range ws {
		if j := strings.LastIndex(w, "@"); j >= 0 {
			var n int64
			fmt.Sscan(w[j+1:], &n)
			ws[i] = fmt.Sprintf("%s%d", w[:j], h.luOf(time.Unix(0, n)))
		}
	}
	sort.Strings(ws[1:])
	return strings.Join(ws, " ")
}

func main() {
	e := vlib.Init()
	if pf := os.Getenv("VERIF_PROF"); pf != "" {
		f, _ := os.Create(pf)
		pprof.StartCPUProfile(f)
		defer pprof.StopCPUProfile()
	}
	e.Rule = "random histories (40-60 ops) over a fresh in-memory SQLite path DB and beacon DB: " +
		"inserts of 6+5 overlapping segment identities x peer variant x 5 info timestamps x " +
		"12 versions (5 ten seconds apart, 7 within/around one second: +1 ns, +400 ms, +999 ms, +1 s) x 3 hop lifetimes x 3 types x 4 hidden-path groups, " +
		"expiry clean-ups, prefix deletions, next-query writes, and queries with random filter " +
		"combinations; non-trivial = op on a non-empty store; distinct by op line within history"
	nHist := e.N(300, 2500)
	if os.Getenv("VERIF_STORES_HIST") != "" {
		fmt.Sscan(os.Getenv("VERIF_STORES_HIST"), &nHist)
	}
	key, err := ecdsa.GenerateKey(elliptic.P256(), rand.Reader)
	if err != nil {
		panic(err)
	}
	signer = graph.NewSigner(graph.WithPrivateKey(key))

	pids := []ident{
		{ias: []addr.IA{mustIA("1-ff00:0:110"), mustIA("1-ff00:0:111"), mustIA("1-ff00:0:112")}, ifs: [][2]uint16{{0, 1}, {2, 3}, {4, 0}}},
		{ias: []addr.IA{mustIA("1-ff00:0:110"), mustIA("1-ff00:0:111"), mustIA("1-ff00:0:112")}, ifs: [][2]uint16{{0, 9}, {8, 3}, {4, 0}}},
		{ias: []addr.IA{mustIA("1-ff00:0:120"), mustIA("1-ff00:0:111")}, ifs: [][2]uint16{{0, 1}, {7, 0}}},
		{ias: []addr.IA{mustIA("2-ff00:0:210"), mustIA("2-ff00:0:211"), mustIA("1-ff00:0:112")}, ifs: [][2]uint16{{0, 1}, {2, 3}, {4, 0}}},
		{ias: []addr.IA{mustIA("1-ff00:0:110"), mustIA("1-ff00:0:113")}, ifs: [][2]uint16{{0, 5}, {6, 0}}},
		{ias: []addr.IA{mustIA("2-ff00:0:210"), mustIA("1-ff00:0:110"), mustIA("1-ff00:0:111"), mustIA("1-ff00:0:113")}, ifs: [][2]uint16{{0, 4}, {3, 1}, {2, 8}, {6, 0}}},
	}
	bids := []ident{
		{[]addr.IA{mustIA("1-ff00:0:110")}, [][2]uint16{{0, 1}}},
		{[]addr.IA{mustIA("1-ff00:0:110"), mustIA("1-ff00:0:111")}, [][2]uint16{{0, 2}, {3, 4}}},
		{[]addr.IA{mustIA("1-ff00:0:110"), mustIA("1-ff00:0:111"), mustIA("1-ff00:0:112")}, [][2]uint16{{0, 2}, {3, 5}, {6, 7}}},
		{[]addr.IA{mustIA("2-ff00:0:210"), mustIA("1-ff00:0:111")}, [][2]uint16{{0, 2}, {8, 4}}},
		{[]addr.IA{mustIA("2-ff00:0:210")}, [][2]uint16{{0, 9}}},
		{[]addr.IA{mustIA("1-ff00:0:110"), mustIA("1-ff00:0:120")}, [][2]uint16{{0, 7}, {1, 2}}},
		{[]addr.IA{mustIA("2-ff00:0:210"), mustIA("2-ff00:0:211"), mustIA("1-ff00:0:111")}, [][2]uint16{{0, 3}, {1, 2}, {5, 6}}},
	}
	groups := []uint64{0, 0xff0000000110<<16 | 1, 0xff0000000110<<16 | 2, 0x000000000123<<16 | 7}
	run := fmt.Sprintf("%d-%d-%d", os.Getpid(), e.Seed, time.Now().UnixNano())

	for i := 0; i < nHist; i++ {
		h := &history{e: e, r: vlib.CaseRand(e.Seed, i), idx: i, pref: map[string]*prow{},
			bref: map[string]*brow{}, nqref: map[[2]addr.IA]int64{}, pids: pids, bids: bids, groups: groups}
		var err error
		h.pdb, err = pathsqlite.New(fmt.Sprintf("vp-%s-%d", run, i), &sdb.SqliteConfig{InMemory: true})
		if err != nil {
			panic(err)
		}
		h.bdb, err = beaconsqlite.New(fmt.Sprintf("vb-%s-%d", run, i), mustIA("1-ff00:0:200"),
			&sdb.SqliteConfig{InMemory: true})
		if err != nil {
			panic(err)
		}
		e.Op("new", "ok", "~new")
		h.log = nil
		// three profiles: path-DB heavy, beacon-DB heavy, mixed
		profile := i % 3
		nOps := h.r.Range(40, 60)
		for s := 0; s < nOps; s++ {
			switch {
			case profile == 0 || (profile == 2 && h.r.Bool()):
				h.pathOp()
			default:
				h.beaconOp()
			}
		}
		if i < 2 {
			e.Sample(map[string]any{"history": i, "ops": h.log[:min(len(h.log), 12)]})
		}
		h.pdb.Close()
		h.bdb.Close()
	}
	e.Extra["histories"] = nHist
	e.Extra["segments_built"] = len(segCache)
	e.Finish()
}

// ---------------------------------------------------------------------------------------------
// path DB

func (h *history) pickSeg() *segInfo {
	r := h.r
	k := segKey{ident: r.Intn(len(h.pids)), peer: uint16(r.Intn(3)) * 11,
		infoTS: base + int64(r.Intn(5))*100, exp: uint8(r.Intn(3))}
	// versions: 10 s apart, plus a cluster inside ONE wall-clock second (stored granularity is
	// ns: +1 ns, +400 ms, +999 ms are strictly newer) and across the next second boundary
	if r.Chance(45) {
		k.ver = (base + int64(r.Intn(5))*10) * 1e9
	} else {
		k.ver = (base+50)*1e9 + subSecond[r.Intn(len(subSecond))]
	}
	return mkSeg(h.pids, k)
}

var subSecond = []int64{0, 1, 400_000_000, 999_000_000, 999_999_999, 1_000_000_000, 1_000_000_001}

var segTypes = []seg.Type{seg.TypeUp, seg.TypeDown, seg.TypeCore}

func (h *history) pathOp() {
	r := h.r
	nonEmpty := len(h.pref) > 0
	tg := func(t string) string {
		if nonEmpty {
			return t
		}
		return "~" + t
	}
	switch k := r.Intn(100); {
	case k < 45: // insert
		s := h.pickSeg()
		typ := segTypes[r.Intn(3)]
		var g []uint64
		usePlain := r.Chance(20)
		if usePlain {
			g = []uint64{0}
		} else {
			g = []uint64{h.groups[r.Intn(len(h.groups))]}
			if r.Chance(25) {
				g = append(g, h.groups[r.Intn(len(h.groups))])
			}
			if r.Chance(5) {
				g = nil
			}
		}
		op := fmt.Sprintf("pins %s %s %d %d %s %s %s %d %s", s.id, s.full, s.ver, s.maxExp,
			iaStr(s.first), iaStr(s.last), csvOr(s.intfs), typ, u64s(g))
		row := h.pref[s.id]
		wi, wu := 0, 0
		tag := "pins-new"
		switch {
		case row == nil:
			wi = 1
		case s.ver > row.s.ver:
			wu = 1
			tag = "pins-newer"
			if s.full != row.s.full {
				tag = "pins-newer-fullid"
			}
			if s.ver/1e9 == row.s.ver/1e9 { // same wall-clock second, newer by < 1 s
				tag = "pins-newer-same-second"
				if !row.types[typ] || newGroup(row.groups, g) {
					tag = "pins-newer-same-second-accumulates"
				}
			} else if s.ver-row.s.ver < 1e9 {
				tag = "pins-newer-across-second"
			}
		case s.ver == row.s.ver:
			tag = "pins-equal"
		default:
			tag = "pins-older"
		}
		res := h.do(op, tag, func() string {
			var st struct{ Inserted, Updated int }
			var err error
			if usePlain {
				x, e2 := h.pdb.Insert(ctx, &seg.Meta{Segment: s.seg, Type: typ})
				st.Inserted, st.Updated, err = x.Inserted, x.Updated, e2
			} else {
				x, e2 := h.pdb.InsertWithHPGroupIDs(ctx, &seg.Meta{Segment: s.seg, Type: typ}, g)
				st.Inserted, st.Updated, err = x.Inserted, x.Updated, e2
			}
			if err != nil {
				return "err"
			}
			return fmt.Sprintf("%d %d", st.Inserted, st.Updated)
		})
		if res != fmt.Sprintf("%d %d", wi, wu) {
			h.violate("insert-stats", fmt.Sprintf("insert of %s (%s) answered %q, the statement demands \"%d %d\"",
				s.id, tag, res, wi, wu))
		}
		// the reference map follows the statement
		if wi == 1 {
			row = &prow{s: s, types: map[seg.Type]bool{}, groups: map[uint64]bool{}}
			h.pref[s.id] = row
			if len(g) == 0 {
				row.groups[0] = true
			}
		}
		if wi == 1 || wu == 1 {
			row.s, row.lu = s, h.tick-1
			row.types[typ] = true
			for _, x := range g {
				row.groups[x] = true
			}
		}
	case k < 53: // delete expired
		now := base + int64(r.Intn(8))*150 + int64(r.Intn(3)) - 1
		if len(h.pref) > 0 && r.Chance(50) { // boundary: a stored expiry and its neighbours
			now = h.pref[h.anyPathID()].s.maxExp + int64(r.Intn(3)) - 1
		}
		op := fmt.Sprintf("pdelexp %d", now)
		want := 0
		for id, row := range h.pref {
			if row.s.maxExp < now {
				delete(h.pref, id)
				want++
			}
		}
		t := "pdelexp"
		if want == 0 {
			t = "pdelexp-0"
		}
		res := h.do(op, tg(t), func() string {
			n, err := h.pdb.DeleteExpired(ctx, time.Unix(now, 0))
			if err != nil {
				return "err"
			}
			return fmt.Sprint(n)
		})
		if res != fmt.Sprint(want) {
			h.violate("cleanup", fmt.Sprintf("DeleteExpired(%d) removed %s entries, %d are expired", now, res, want))
		}
	case k < 58: // delete by (partial) id
		var pre string
		if len(h.pref) > 0 && r.Chance(70) {
			pre = h.anyPathID()
			pre = pre[:r.Range(1, 16)]
			if r.Chance(30) {
				pre = strings.ToUpper(pre)
			}
		} else {
			pre = hex.EncodeToString(r.Bytes(1))[:r.Range(1, 2)]
		}
		n := 0
		for id := range h.pref {
			if strings.HasPrefix(id, strings.ToLower(pre)) {
				delete(h.pref, id)
				n++
			}
		}
		t := "pdelseg"
		if n == 0 {
			t = "pdelseg-0"
		}
		h.do("pdelseg "+pre, tg(t), func() string {
			if err := h.pdb.DeleteSegment(ctx, pre); err != nil {
				return "err"
			}
			return "ok"
		})
	case k < 68: // next query
		ias := []addr.IA{mustIA("1-ff00:0:110"), mustIA("2-ff00:0:210")}
		src, dst := ias[r.Intn(2)], ias[r.Intn(2)]
		kk := [2]addr.IA{src, dst}
		if r.Chance(65) {
			t := (base+int64(r.Intn(6))*60)*1e9 + int64(r.Intn(2))
			old, had := h.nqref[kk]
			want := !had || t > old
			tag := "pnq-first"
			if had {
				tag = map[bool]string{true: "pnq-later", false: "pnq-not-later"}[want]
			}
			res := h.do(fmt.Sprintf("pnq %s %s %d", iaStr(src), iaStr(dst), t), tag, func() string {
				ok, err := h.pdb.InsertNextQuery(ctx, src, dst, time.Unix(0, t))
				if err != nil {
					return "err"
				}
				if ok {
					return "1"
				}
				return "0"
			})
			if want {
				h.nqref[kk] = t
			}
			if res != map[bool]string{true: "1", false: "0"}[want] {
				h.violate("nextquery", fmt.Sprintf("InsertNextQuery(%d) answered %s with stored %d (present=%v)", t, res, old, had))
			}
		} else {
			old, had := h.nqref[kk]
			tag := "pgnq"
			if !had {
				tag = "~pgnq-none"
			}
			res := h.do(fmt.Sprintf("pgnq %s %s", iaStr(src), iaStr(dst)), tag, func() string {
				t, err := h.pdb.GetNextQuery(ctx, src, dst)
				if err != nil {
					return "err"
				}
				if t.IsZero() {
					return "none"
				}
				return fmt.Sprint(t.UnixNano())
			})
			want := "none"
			if had {
				want = fmt.Sprint(old)
			}
			if res != want {
				h.violate("nextquery", "GetNextQuery answered "+res+", stored is "+want)
			}
		}
	default: // query
		h.pathQuery(tg)
	}
}

func newGroup(have map[uint64]bool, g []uint64) bool {
	for _, x := range g {
		if !have[x] {
			return true
		}
	}
	return false
}

func (h *history) anyPathID() string {
	var ids []string
	for id := range h.pref {
		ids = append(ids, id)
	}
	sort.Strings(ids)
	return ids[h.r.Intn(len(ids))]
}

func (h *history) pathQuery(tg func(string) string) {
	r := h.r
	p := &query.Params{}
	var qIDs []string
	isNil := r.Chance(8)
	if !isNil {
		if r.Chance(15) {
			n := r.Range(1, 2)
			for j := 0; j < n; j++ {
				s := h.pickSeg()
				p.SegIDs = append(p.SegIDs, s.seg.ID())
				qIDs = append(qIDs, s.id)
			}
		}
		if r.Chance(50) {
			p.SegTypes = []seg.Type{segTypes[r.Intn(3)]}
			if r.Chance(25) {
				p.SegTypes = append(p.SegTypes, segTypes[r.Intn(3)])
			}
		}
		if r.Chance(55) {
			p.HPGroupIDs = []uint64{h.groups[r.Intn(len(h.groups))]}
			if r.Chance(25) {
				p.HPGroupIDs = append(p.HPGroupIDs, h.groups[r.Intn(len(h.groups))])
			}
		}
		if r.Chance(30) {
			p.StartsAt = []addr.IA{[]addr.IA{mustIA("1-ff00:0:110"), mustIA("1-0"), mustIA("2-ff00:0:210"), mustIA("2-0"), mustIA("1-ff00:0:120")}[r.Intn(5)]}
			if r.Chance(20) {
				p.StartsAt = append(p.StartsAt, mustIA("1-ff00:0:120"))
			}
		}
		if r.Chance(30) {
			p.EndsAt = []addr.IA{[]addr.IA{mustIA("1-ff00:0:112"), mustIA("1-ff00:0:111"), mustIA("1-0"), mustIA("1-ff00:0:113"), mustIA("2-0")}[r.Intn(5)]}
		}
		if r.Chance(30) {
			n := r.Range(1, 2)
			for j := 0; j < n; j++ {
				p.Intfs = append(p.Intfs, &query.IntfSpec{
					IA:   []addr.IA{mustIA("1-ff00:0:111"), mustIA("1-ff00:0:110"), mustIA("2-ff00:0:211")}[r.Intn(3)],
					IfID: iface.ID([]uint16{1, 2, 3, 8, 7, 11, 22, 4}[r.Intn(8)])})
			}
		}
	}
	var ts, is, ss, es []string
	for _, t := range p.SegTypes {
		ts = append(ts, fmt.Sprint(int(t)))
	}
	for _, i := range p.Intfs {
		is = append(is, fmt.Sprintf("%s:%d", iaStr(i.IA), i.IfID))
	}
	for _, a := range p.StartsAt {
		ss = append(ss, iaStr(a))
	}
	for _, a := range p.EndsAt {
		es = append(es, iaStr(a))
	}
	op := fmt.Sprintf("pget %s %s %s %s %s %s", csvOr(qIDs), csvOr(ts), u64s(p.HPGroupIDs), csvOr(is), csvOr(ss), csvOr(es))

	// the statement: exactly the stored entries matching all filters
	matchIA := func(q, a addr.IA) bool {
		if q.AS() == 0 {
			return q.ISD() == a.ISD()
		}
		return q == a
	}
	var want []string
	for _, row := range h.pref {
		ok := true
		if len(qIDs) > 0 {
			ok = false
			for _, q := range qIDs {
				ok = ok || q == row.s.id
			}
		}
		any := func(l []addr.IA, a addr.IA) bool {
			if len(l) == 0 {
				return true
			}
			for _, q := range l {
				if matchIA(q, a) {
					return true
				}
			}
			return false
		}
		ok = ok && any(p.StartsAt, row.s.first) && any(p.EndsAt, row.s.last)
		if ok && len(is) > 0 {
			f := false
			for _, q := range is {
				for _, x := range row.s.intfs {
					f = f || q == x
				}
			}
			ok = f
		}
		if !ok {
			continue
		}
		var gs []uint64
		for g := range row.groups {
			if len(p.HPGroupIDs) == 0 {
				gs = append(gs, g)
			} else {
				for _, q := range p.HPGroupIDs {
					if q == g {
						gs = append(gs, g)
						break
					}
				}
			}
		}
		if len(gs) == 0 {
			continue
		}
		sort.Slice(gs, func(i, j int) bool { return gs[i] < gs[j] })
		for ty := range row.types {
			if len(p.SegTypes) > 0 {
				f := false
				for _, q := range p.SegTypes {
					f = f || q == ty
				}
				if !f {
					continue
				}
			}
			want = append(want, fmt.Sprintf("%s/%s/%d/%d/%d/%s/%d", row.s.id, row.s.full, row.s.ver,
				row.s.maxExp, ty, u64s(gs), row.lu))
		}
	}
	sort.Strings(want)
	tag := "pget-some"
	if len(want) == 0 {
		tag = "pget-none"
	}
	if isNil {
		tag = "pget-all"
	}
	res := h.do(op, tg(tag), func() string {
		var rs query.Results
		var err error
		if isNil {
			rs, err = h.pdb.GetAll(ctx)
		} else {
			rs, err = h.pdb.Get(ctx, p)
		}
		if err != nil {
			return "err"
		}
		out := []string{fmt.Sprint(len(rs))}
		for _, x := range rs {
			gs := append([]uint64(nil), x.HPGroupIDs...)
			sort.Slice(gs, func(i, j int) bool { return gs[i] < gs[j] })
			v, err := lastVersion(x.Seg)
			if err != nil {
				return "err-version"
			}
			out = append(out, fmt.Sprintf("%s/%s/%d/%d/%d/%s/@%d", id16(x.Seg.ID()), id16(x.Seg.FullID()), v,
				x.Seg.MaxExpiry().Unix(), x.Type, u64s(gs), x.LastUpdate.UnixNano()))
		}
		return strings.Join(out, " ")
	})
	wantS := strings.Join(append([]string{fmt.Sprint(len(want))}, want...), " ")
	if res != wantS {
		h.violate("query", fmt.Sprintf("%s answered [%s], the stored entries matching all filters are [%s]", op, res, wantS))
	}
}

// ---------------------------------------------------------------------------------------------
// beacon DB

var usages = []beacon.Usage{beacon.UsageProp, beacon.UsageUpReg, beacon.UsageDownReg,
	beacon.UsageProp | beacon.UsageUpReg, beacon.UsageCoreReg | beacon.UsageProp, beacon.UsageCoreReg}

func (h *history) beaconOp() {
	r := h.r
	nonEmpty := len(h.bref) > 0
	tg := func(t string) string {
		if nonEmpty {
			return t
		}
		return "~" + t
	}
	switch k := r.Intn(100); {
	case k < 45: // insert
		kk := segKey{ident: r.Intn(len(h.bids)), infoTS: base + int64(r.Intn(5))*100 + int64(r.Intn(2)),
			exp: uint8(r.Intn(3)), ver: (base + 5) * 1e9, beacon: true}
		s := mkSeg(h.bids, kk)
		u := usages[r.Intn(len(usages))]
		in := uint16(1 + r.Intn(3))
		op := fmt.Sprintf("bins %s %s %d %d %s %d %d %d", s.id, s.full, kk.infoTS, s.maxExp, iaStr(s.first), s.hops, in, int(u))
		row := h.bref[s.id]
		wi, wu := 0, 0
		tag := "bins-new"
		switch {
		case row == nil:
			wi = 1
		case kk.infoTS > row.s.key.infoTS:
			wu, tag = 1, "bins-newer"
		case kk.infoTS == row.s.key.infoTS:
			tag = "bins-equal"
		default:
			tag = "bins-older"
		}
		res := h.do(op, tag, func() string {
			st, err := h.bdb.InsertBeacon(ctx, beacon.Beacon{Segment: s.seg, InIfID: in}, u)
			if err != nil {
				return "err"
			}
			return fmt.Sprintf("%d %d", st.Inserted, st.Updated)
		})
		if res != fmt.Sprintf("%d %d", wi, wu) {
			h.violate("beacon-insert-stats", fmt.Sprintf("InsertBeacon of %s (%s) answered %q, the statement demands \"%d %d\"", s.id, tag, res, wi, wu))
		}
		if wi == 1 || wu == 1 {
			h.bref[s.id] = &brow{s: s, usage: u, in: in, lu: h.tick - 1}
		}
	case k < 52:
		now := base + int64(r.Intn(8))*150 + int64(r.Intn(3)) - 1
		if row := h.anyBeacon(); row != nil && r.Chance(50) { // boundary
			now = row.s.maxExp + int64(r.Intn(3)) - 1
		}
		want := 0
		for id, row := range h.bref {
			if row.s.maxExp < now {
				delete(h.bref, id)
				want++
			}
		}
		t := "bdelexp"
		if want == 0 {
			t = "bdelexp-0"
		}
		res := h.do(fmt.Sprintf("bdelexp %d", now), tg(t), func() string {
			n, err := h.bdb.DeleteExpiredBeacons(ctx, time.Unix(now, 0))
			if err != nil {
				return "err"
			}
			return fmt.Sprint(n)
		})
		if res != fmt.Sprint(want) {
			h.violate("beacon-cleanup", fmt.Sprintf("DeleteExpiredBeacons(%d) removed %s, %d are expired", now, res, want))
		}
	case k < 56:
		var pre string
		if len(h.bref) > 0 && r.Chance(70) {
			var ids []string
			for id := range h.bref {
				ids = append(ids, id)
			}
			sort.Strings(ids)
			pre = ids[r.Intn(len(ids))][:r.Range(1, 16)]
		} else {
			pre = hex.EncodeToString(r.Bytes(1))[:r.Range(1, 2)]
		}
		n := 0
		for id := range h.bref {
			if strings.HasPrefix(id, pre) {
				delete(h.bref, id)
				n++
			}
		}
		t := "bdel"
		if n == 0 {
			t = "bdel-0"
		}
		h.do("bdel "+pre, tg(t), func() string {
			if err := h.bdb.DeleteBeacon(ctx, pre); err != nil {
				return "err"
			}
			return "ok"
		})
	case k < 60:
		h.do("bsrc", tg("bsrc"), func() string {
			ias, err := h.bdb.BeaconSources(ctx)
			if err != nil {
				return "err"
			}
			sort.Slice(ias, func(i, j int) bool { return ias[i] < ias[j] })
			var l []string
			for _, a := range ias {
				l = append(l, iaStr(a))
			}
			return fmt.Sprintf("%d %s", len(ias), csvOr(l))
		})
	case k < 80:
		h.candidates(tg)
	default:
		h.beaconQuery(tg)
	}
}

// anyBeacon picks a stored beacon (deterministically in the seed), nil if there is none.
func (h *history) anyBeacon() *brow {
	if len(h.bref) == 0 {
		return nil
	}
	var ids []string
	for id := range h.bref {
		ids = append(ids, id)
	}
	sort.Strings(ids)
	return h.bref[ids[h.r.Intn(len(ids))]]
}

func (h *history) candidates(tg func(string) string) {
	r := h.r
	u := []beacon.Usage{beacon.UsageProp, beacon.UsageUpReg, beacon.UsageCoreReg, beacon.UsageProp | beacon.UsageUpReg}[r.Intn(4)]
	src := []addr.IA{0, mustIA("1-ff00:0:110"), mustIA("2-ff00:0:210"), 0}[r.Intn(4)]
	k := r.Intn(4)
	op := fmt.Sprintf("bcand %d %d %s", k, int(u), iaStr(src))
	var match []*brow
	for _, row := range h.bref {
		if row.usage&u == u && (src == 0 || row.s.first == src) {
			match = append(match, row)
		}
	}
	tag := "bcand-all"
	if len(match) > k {
		tag = "bcand-cut"
	}
	if len(match) == 0 || k == 0 {
		tag = "bcand-empty"
	}
	var got []beacon.Beacon
	res := h.do(op, tg(tag), func() string {
		var err error
		got, err = h.bdb.CandidateBeacons(ctx, k, u, src)
		if err != nil {
			return "err"
		}
		if len(got) == 0 {
			return "0 - - 0"
		}
		cut := len(got[len(got)-1].Segment.ASEntries)
		var lens, below []string
		at := 0
		for _, b := range got {
			l := len(b.Segment.ASEntries)
			lens = append(lens, fmt.Sprint(l))
			if len(got) < k || l < cut {
				below = append(below, id16(b.Segment.ID()))
			}
			if l == cut {
				at++
			}
		}
		sort.Strings(below)
		return fmt.Sprintf("%d %s %s %d", len(got), csvOr(lens), csvOr(below), at)
	})
	if res == "err" || strings.HasPrefix(res, "PANIC") {
		h.violate("candidates", op+" failed: "+res)
		return
	}
	// statement: non-decreasing length order, up to the requested count, stored matching entries
	wantN := min(k, len(match))
	if len(got) != wantN {
		h.violate("candidates", fmt.Sprintf("%s returned %d beacons, %d match and %d were requested", op, len(got), len(match), k))
	}
	seen := map[string]bool{}
	maxLen := 0
	for i, b := range got {
		id := id16(b.Segment.ID())
		row := h.bref[id]
		if row == nil || seen[id] || !(row.usage&u == u && (src == 0 || row.s.first == src)) ||
			id16(b.Segment.FullID()) != row.s.full || b.Segment.Info.Timestamp.Unix() != row.s.key.infoTS || b.InIfID != row.in {
			h.violate("candidates", fmt.Sprintf("%s returned %s which is not a (distinct) stored matching beacon in its stored version", op, id))
		}
		seen[id] = true
		l := len(b.Segment.ASEntries)
		if i > 0 && l < maxLen {
			h.violate("candidates", op+" not in non-decreasing length order: "+res)
		}
		maxLen = max(maxLen, l)
	}
	for _, row := range match {
		if !seen[row.s.id] && row.s.hops < maxLen && len(got) > 0 {
			h.violate("candidates", fmt.Sprintf("%s skipped the shorter matching beacon %s", op, row.s.id))
		}
	}
}

func (h *history) beaconQuery(tg func(string) string) {
	r := h.r
	p := &storagebeacon.QueryParams{}
	var ids, ss, ins, us []string
	if r.Chance(15) && len(h.bref) > 0 {
		var all []*brow
		for _, row := range h.bref {
			all = append(all, row)
		}
		sort.Slice(all, func(i, j int) bool { return all[i].s.id < all[j].s.id })
		row := all[r.Intn(len(all))]
		n := r.Range(1, 8)
		p.SegIDs = append(p.SegIDs, row.s.seg.ID()[:n])
		ids = append(ids, row.s.id[:2*n])
	}
	if r.Chance(50) {
		p.Usages = []beacon.Usage{usages[r.Intn(len(usages))]}
		if r.Chance(20) {
			p.Usages = append(p.Usages, []beacon.Usage{0, beacon.UsageDownReg}[r.Intn(2)])
		}
	}
	if r.Chance(45) {
		p.StartsAt = []addr.IA{[]addr.IA{mustIA("1-0"), mustIA("2-ff00:0:210"), mustIA("0-ff00:0:110"), 0}[r.Intn(4)]}
		if r.Chance(20) {
			p.StartsAt = append(p.StartsAt, mustIA("2-0"))
		}
	}
	if r.Chance(33) {
		p.IngressInterfaces = []uint16{uint16(1 + r.Intn(3))}
		if r.Chance(20) {
			p.IngressInterfaces = append(p.IngressInterfaces, uint16(1+r.Intn(3)))
		}
	}
	valid := "-"
	if r.Chance(33) {
		t := base + int64(r.Intn(8))*150 + int64(r.Intn(3)) - 1
		if row := h.anyBeacon(); row != nil && r.Chance(50) { // boundaries of a validity window
			t = []int64{row.s.key.infoTS, row.s.maxExp}[r.Intn(2)] + int64(r.Intn(3)) - 1
		}
		p.ValidAt = time.Unix(t, 0)
		valid = fmt.Sprint(t)
	}
	for _, a := range p.StartsAt {
		ss = append(ss, iaStr(a))
	}
	for _, x := range p.IngressInterfaces {
		ins = append(ins, fmt.Sprint(x))
	}
	for _, x := range p.Usages {
		us = append(us, fmt.Sprint(int(x)))
	}
	op := fmt.Sprintf("bget %s %s %s %s %s", csvOr(ids), csvOr(ss), csvOr(ins), csvOr(us), valid)
	var want []string
	for _, row := range h.bref {
		ok := true
		if len(ids) > 0 {
			ok = strings.HasPrefix(row.s.id, ids[0])
		}
		if ok {
			var qs []addr.IA
			for _, q := range p.StartsAt {
				if !q.IsZero() {
					qs = append(qs, q)
				}
			}
			if len(qs) > 0 {
				f := false
				for _, q := range qs {
					a := row.s.first
					f = f || ((q.ISD() == 0 || q.ISD() == a.ISD()) && (q.AS() == 0 || q.AS() == a.AS()))
				}
				ok = f
			}
		}
		if ok && len(p.IngressInterfaces) > 0 {
			f := false
			for _, x := range p.IngressInterfaces {
				f = f || x == row.in
			}
			ok = f
		}
		if ok {
			var qs []beacon.Usage
			for _, u := range p.Usages {
				if u > 0 {
					qs = append(qs, u)
				}
			}
			if len(qs) > 0 {
				f := false
				for _, u := range qs {
					f = f || row.usage&u == u
				}
				ok = f
			}
		}
		if ok && !p.ValidAt.IsZero() {
			t := p.ValidAt.Unix()
			ok = row.s.key.infoTS <= t && t <= row.s.maxExp
		}
		if ok {
			want = append(want, fmt.Sprintf("%s/%s/%d/%d/%d/%d/%d", row.s.id, row.s.full, row.s.key.infoTS, row.s.maxExp, int(row.usage), row.in, row.lu))
		}
	}
	sort.Strings(want)
	tag := "bget-some"
	if len(want) == 0 {
		tag = "bget-none"
	}
	ordered := true
	res := h.do(op, tg(tag), func() string {
		rs, err := h.bdb.GetBeacons(ctx, p)
		if err != nil {
			return "err"
		}
		out := []string{fmt.Sprint(len(rs))}
		for i, x := range rs {
			if i > 0 && x.LastUpdated.After(rs[i-1].LastUpdated) {
				ordered = false
			}
			s := x.Beacon.Segment
			out = append(out, fmt.Sprintf("%s/%s/%d/%d/%d/%d/@%d", id16(s.ID()), id16(s.FullID()), s.Info.Timestamp.Unix(),
				s.MaxExpiry().Unix(), int(x.Usage), x.Beacon.InIfID, x.LastUpdated.UnixNano()))
		}
		return strings.Join(out, " ")
	})
	wantS := strings.Join(append([]string{fmt.Sprint(len(want))}, want...), " ")
	if res != wantS {
		h.violate("beacon-query", fmt.Sprintf("%s answered [%s], the stored beacons matching all filters are [%s]", op, res, wantS))
	}
	_ = ordered // the order (LastUpdated DESC) is not part of the statement
}
