package main

// Beacon segments built by the REAL beacon extender (control/beaconing.DefaultExtender: real
// hop-field MACs chained over the SegID accumulator, peer entries, ingress/peer MTUs from the
// interface state, signatures) for a fraction of the generated topologies; the others use mkSeg.

import (
	"context"
	"crypto/ecdsa"
	"crypto/elliptic"
	"hash"
	"io"
	"net/netip"
	"sort"
	"time"

	"github.com/scionproto/scion/control/beaconing"
	"github.com/scionproto/scion/control/ifstate"
	"github.com/scionproto/scion/pkg/scrypto"
	"github.com/scionproto/scion/pkg/scrypto/cppki"
	"github.com/scionproto/scion/pkg/scrypto/signed"
	seg "github.com/scionproto/scion/pkg/segment"
	"github.com/scionproto/scion/pkg/segment/extensions/discovery"
	"github.com/scionproto/scion/private/topology"
	"github.com/scionproto/scion/private/trust"

	"verifharness/vlib"
)

type sgen struct{ s trust.Signer }

func (g sgen) Generate(ctx context.Context) ([]beaconing.Signer, error) {
	return []beaconing.Signer{g.s}, nil
}

type randReader struct{ r *vlib.Rand }

func (rr randReader) Read(p []byte) (int, error) {
	copy(p, rr.r.Bytes(len(p)))
	return len(p), nil
}

var _ io.Reader = randReader{}

type realNet struct {
	t      *topo
	ext    []*beaconing.DefaultExtender
	peers  [][]uint16
	maxExp []uint8
}

func newRealNet(r *vlib.Rand, t *topo) *realNet {
	n := &realNet{t: t}
	for a, x := range t.ases {
		ifs := map[uint16]ifstate.InterfaceInfo{}
		var peers []uint16
		add := func(id uint16, remote int, remoteID uint16, lt topology.LinkType, mtu int) {
			ifs[id] = ifstate.InterfaceInfo{ID: id, IA: t.ases[remote].ia, LinkType: lt, RemoteID: remoteID,
				MTU: uint16(mtu), InternalAddr: netip.MustParseAddrPort("10.0.0.1:30042")}
			if lt == topology.Peer {
				peers = append(peers, id)
			}
		}
		for _, l := range t.links {
			ltA, ltB := topology.Core, topology.Core
			switch l.kind {
			case kPC:
				ltA, ltB = topology.Child, topology.Parent
			case kPeer:
				ltA, ltB = topology.Peer, topology.Peer
			}
			if l.a == a {
				add(l.aIf, l.b, l.bIf, ltA, l.mtu)
			}
			if l.b == a {
				add(l.bIf, l.a, l.aIf, ltB, l.mtu)
			}
		}
		sort.Slice(peers, func(i, j int) bool { return peers[i] < peers[j] })
		key := r.Bytes(16)
		priv, err := ecdsa.GenerateKey(elliptic.P256(), randReader{r})
		if err != nil {
			panic(err)
		}
		a := a
		n.maxExp = append(n.maxExp, randExp(r))
		n.ext = append(n.ext, &beaconing.DefaultExtender{
			IA: x.ia,
			SignerGen: sgen{trust.Signer{PrivateKey: priv, Algorithm: signed.ECDSAWithSHA256, IA: x.ia,
				TRCID: cppki.TRCID{ISD: x.ia.ISD(), Base: 1, Serial: 1}, SubjectKeyID: []byte("skid"),
				Expiration: time.Now().Add(30 * time.Hour)}},
			MAC: func() hash.Hash {
				m, err := scrypto.InitMac(key)
				if err != nil {
					panic(err)
				}
				return m
			},
			Intfs: ifstate.NewInterfaces(ifs, ifstate.Config{}), MTU: uint16(x.mtu),
			MaxExpTime:           func() uint8 { return n.maxExp[a] },
			StaticInfo:           func() *beaconing.StaticInfoCfg { return nil },
			DiscoveryInformation: func() *discovery.Extension { return nil },
		})
		n.peers = append(n.peers, peers)
	}
	return n
}

// mkSeg beacons along the walk with the real extender of every AS on it and terminates at its end.
func (n *realNet) mkSeg(r *vlib.Rand, w walk, base int64) *seg.PathSegment {
	s, err := seg.CreateSegment(time.Unix(base-int64(r.Intn(7200)), 0), uint16(r.Intn(65536)))
	if err != nil {
		panic(err)
	}
	for _, st := range w {
		if r.Chance(30) {
			n.maxExp[st.as] = randExp(r)
		}
		if err := n.ext[st.as].Extend(context.Background(), s, st.in, st.eg, n.peers[st.as]); err != nil {
			panic("extender: " + err.Error())
		}
	}
	return s
}
