package main

// Concurrent mode: the result of Combine must not depend on what else runs. K goroutines, each
// with its own case (segment sets with many paths, so that building and fingerprinting paths
// dominates), are released together and call the real Combine repeatedly; every result must equal
// the result of the same case computed alone (which the sequential phase has tied to the model).
// A panic is a violation.

import (
	"encoding/hex"
	"fmt"
	"sort"
	"strings"
	"sync"

	"github.com/scionproto/scion/private/path/combinator"

	"verifharness/vlib"
)

type concCase struct {
	c         *caseT
	op        string
	all, uniq string // canonical sequential results
}

// canonical form used for the comparison: the multiset of paths, with the fingerprint (hex) for
// findAllIdentical=true, and (weight, interfaces, expiry) without (which of several equally late
// duplicates is kept is not determined).
func canonConc(ps []combinator.Path, full bool) string {
	lines := make([]string, 0, len(ps))
	for _, p := range ps {
		if full {
			lines = append(lines, renderFull(p)+" P"+hex.EncodeToString([]byte(p.Fingerprint)))
		} else {
			lines = append(lines, renderUniq(p))
		}
	}
	sort.Strings(lines)
	return strings.Join(lines, " | ")
}

type concPool struct {
	cases []*concCase
	min   int
}

func (cp *concPool) offer(r *vlib.Rand, c *caseT) {
	if len(c.all) < 6 || len(c.all) == len(c.uniq) && len(c.all) < 12 {
		return // few paths, or nothing for filterDuplicates to do
	}
	cc := &concCase{c: c, op: opLine("all", c.in.src, c.in.dst, c.in.ups, c.in.cores, c.in.downs),
		all: canonConc(c.all, true), uniq: canonConc(c.uniq, false)}
	if len(cp.cases) < 96 {
		cp.cases = append(cp.cases, cc)
		return
	}
	cp.cases[r.Intn(len(cp.cases))] = cc
}

func runConcurrent(e *vlib.Env, r *vlib.Rand, cp *concPool, rounds int) {
	if len(cp.cases) < 2 {
		return
	}
	type res struct {
		cc        *concCase
		what      string
		all, uniq string
	}
	mismatches := 0
	for round := 0; round < rounds; round++ {
		k := 4 + r.Intn(5)
		picked := make([]*concCase, k)
		for i := range picked {
			picked[i] = cp.cases[r.Intn(len(cp.cases))]
		}
		iters := 8 + r.Intn(16)
		start := make(chan struct{})
		out := make([]res, k)
		var wg sync.WaitGroup
		for i := range picked {
			wg.Add(1)
			go func(i int) {
				defer wg.Done()
				cc := picked[i]
				in := &cc.c.in
				<-start
				what, _ := vlib.Safe(func() string {
					for it := 0; it < iters; it++ {
						a := canonConc(combinator.Combine(in.src, in.dst, in.ups, in.cores, in.downs, true), true)
						u := canonConc(combinator.Combine(in.src, in.dst, in.ups, in.cores, in.downs, false), false)
						if a != cc.all || u != cc.uniq {
							out[i].all, out[i].uniq = a, u
							return "differs"
						}
					}
					return ""
				})
				out[i].cc, out[i].what = cc, what
			}(i)
		}
		close(start)
		wg.Wait()
		for _, o := range out {
			tag := "concurrent/same"
			if o.what != "" {
				tag = "concurrent/differs"
				mismatches++
				what := "Combine panicked while other Combine calls were running: " + o.what
				if o.what == "differs" {
					nSeq := strings.Count(o.cc.uniq, " | ") + 1
					nCon := strings.Count(o.uniq, " | ") + 1
					what = fmt.Sprintf("the result of Combine changed while %d other Combine calls (on other inputs) "+
						"were running: findAllIdentical=false returned %d paths alone and %d concurrently; "+
						"identical-result(findAllIdentical=true)=%v", k-1, nSeq, nCon, o.all == o.cc.all)
				}
				e.Violate(e.Prop+"/concurrent-calls-interfere", what, map[string]any{"op": o.cc.op,
					"concurrent_with": k - 1, "alone_uniq": o.cc.uniq, "concurrent_uniq": o.uniq})
			}
			e.Case(fmt.Sprintf("conc/%d/%s", round, o.cc.op[:min(len(o.cc.op), 80)]), tag, false)
		}
		if mismatches > 20 {
			break
		}
	}
	e.Extra["concurrent_rounds"] = rounds
	e.Extra["concurrent_pool"] = len(cp.cases)
}
