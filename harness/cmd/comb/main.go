// Engine "comb" (C28, C29): ties lean/Scion/Model/Combinator.lean to
// private/path/combinator (Combine = newDMG + GetPaths + pathSolution.Path + filterLongPaths +
// filterDuplicates) on random topologies and perturbed segment sets, and evaluates the two
// property predicates, written from the statements, on the implementation's output.
package main

import (
	"encoding/binary"
	"encoding/json"
	"strconv"
	"fmt"
	"os"
	"runtime"
	"sort"
	"strings"
	"sync/atomic"
	"time"

	"github.com/scionproto/scion/pkg/addr"
	seg "github.com/scionproto/scion/pkg/segment"
	"github.com/scionproto/scion/pkg/slayers/path"
	"github.com/scionproto/scion/pkg/slayers/path/scion"
	"github.com/scionproto/scion/private/path/combinator"

	"verifharness/vlib"
)

// ---------------------------------------------------------------------------------------------
// topology

const (
	kCore = iota
	kPC   // a is parent of b
	kPeer
)

type lnk struct {
	a, b     int
	aIf, bIf uint16
	kind     int
	mtu      int
}

type asN struct {
	ia    addr.IA
	core  bool
	mtu   int
	level int
	nextI uint16
}

type topo struct {
	ases  []*asN
	links []lnk
}

func (t *topo) newIf(r *vlib.Rand, a int) uint16 {
	x := t.ases[a]
	x.nextI += uint16(1 + r.Intn(3))
	return x.nextI
}

func (t *topo) addLink(r *vlib.Rand, a, b, kind int, mtus []int) {
	t.links = append(t.links, lnk{a: a, b: b, aIf: t.newIf(r, a), bIf: t.newIf(r, b), kind: kind,
		mtu: mtus[r.Intn(len(mtus))]})
}

func genTopo(r *vlib.Rand) *topo {
	t := &topo{}
	mtus := []int{1280, 1400, 1472, 1500, 9000}
	if r.Chance(15) {
		mtus = []int{1400}
	}
	nISD := 1 + r.Intn(2)
	if r.Chance(10) {
		nISD = 3
	}
	// AS numbers are only unique within an ISD: in most multi-ISD topologies every ISD numbers its
	// ASes from the same base, so that e.g. 1-ff00:0:111 and 2-ff00:0:111 are different ASes with the
	// same AS number (anything keyed on the AS number instead of the ISD-AS confuses them).
	sharedNumbers := nISD > 1 && r.Chance(75)
	ctr := map[int]int{}
	mk := func(isd int, core bool, level int) int {
		k := 0
		if sharedNumbers {
			k = isd
		}
		ctr[k]++
		asCtr := 0x110 + ctr[k]
		t.ases = append(t.ases, &asN{ia: addr.MustIAFrom(addr.ISD(isd), addr.AS(0xff0000000000+uint64(asCtr))),
			core: core, mtu: mtus[r.Intn(len(mtus))], level: level, nextI: uint16(r.Intn(4))})
		return len(t.ases) - 1
	}
	isdOf := func(i int) int { return int(t.ases[i].ia.ISD()) }
	var cores []int
	for isd := 1; isd <= nISD; isd++ {
		n := 1 + r.Intn(2)
		if nISD == 1 {
			n = 1 + r.Intn(3)
		}
		for k := 0; k < n; k++ {
			cores = append(cores, mk(isd, true, 0))
		}
	}
	// connected core graph + parallel / extra links
	for k := 1; k < len(cores); k++ {
		t.addLink(r, cores[r.Intn(k)], cores[k], kCore, mtus)
	}
	for k := r.Intn(3); k > 0 && len(cores) > 1; k-- {
		a := r.Intn(len(cores))
		b := r.Intn(len(cores) - 1)
		if b >= a {
			b++
		}
		t.addLink(r, cores[a], cores[b], kCore, mtus)
	}
	// non-core levels
	prev := cores
	for level := 1; level <= 3; level++ {
		n := 0
		switch level {
		case 1:
			n = 1 + r.Intn(4)
		case 2:
			n = r.Intn(4)
		case 3:
			n = r.Intn(3)
		}
		var cur []int
		for k := 0; k < n; k++ {
			isd := 1 + r.Intn(nISD)
			var cands []int
			for _, p := range prev {
				if isdOf(p) == isd {
					cands = append(cands, p)
				}
			}
			if level > 1 && r.Chance(25) { // also a core parent
				for _, c := range cores {
					if isdOf(c) == isd {
						cands = append(cands, c)
					}
				}
			}
			if len(cands) == 0 {
				continue
			}
			x := mk(isd, false, level)
			np := 1 + r.Intn(3)
			for j := 0; j < np; j++ {
				t.addLink(r, cands[r.Intn(len(cands))], x, kPC, mtus) // may repeat a parent: parallel links
			}
			cur = append(cur, x)
		}
		if len(cur) == 0 {
			break
		}
		prev = cur
	}
	// peering links: not between two cores
	for k := r.Intn(6); k > 0; k-- {
		a, b := r.Intn(len(t.ases)), r.Intn(len(t.ases))
		if a == b || (t.ases[a].core && t.ases[b].core) {
			continue
		}
		t.addLink(r, a, b, kPeer, mtus)
	}
	return t
}

// ---------------------------------------------------------------------------------------------
// segments

type step struct {
	as     int
	in, eg uint16
	inMTU  int
}

type walk []step

// walks enumerates loop-free walks over links of the given kind starting at origin (down the
// parent->child direction for kPC, any direction for kCore); a walk has >= 2 steps.
func (t *topo) walks(origin int, kind int, limit int) []walk {
	var out []walk
	var rec func(w walk, seen map[int]bool)
	rec = func(w walk, seen map[int]bool) {
		if len(out) >= limit || len(w) > 5 {
			return
		}
		cur := w[len(w)-1].as
		for _, l := range t.links {
			if l.kind != kind {
				continue
			}
			var nxt int
			var eg, in uint16
			switch {
			case l.a == cur:
				nxt, eg, in = l.b, l.aIf, l.bIf
			case l.b == cur && kind == kCore:
				nxt, eg, in = l.a, l.bIf, l.aIf
			default:
				continue
			}
			if seen[nxt] {
				continue
			}
			w2 := append(walk{}, w...)
			w2[len(w2)-1].eg = eg
			w2 = append(w2, step{as: nxt, in: in, inMTU: l.mtu})
			out = append(out, w2)
			seen[nxt] = true
			rec(w2, seen)
			delete(seen, nxt)
		}
	}
	rec(walk{{as: origin}}, map[int]bool{origin: true})
	return out
}

type peerIf struct {
	local    uint16
	remote   int
	remoteIf uint16
	mtu      int
}

func (t *topo) peersOf(a int) []peerIf {
	var ps []peerIf
	for _, l := range t.links {
		if l.kind != kPeer {
			continue
		}
		if l.a == a {
			ps = append(ps, peerIf{l.aIf, l.b, l.bIf, l.mtu})
		}
		if l.b == a {
			ps = append(ps, peerIf{l.bIf, l.a, l.aIf, l.mtu})
		}
	}
	return ps
}

func randMac(r *vlib.Rand) [path.MacLen]byte {
	var m [path.MacLen]byte
	copy(m[:], r.Bytes(path.MacLen))
	return m
}

func randExp(r *vlib.Rand) uint8 {
	switch r.Intn(10) {
	case 0:
		return uint8(r.Intn(256))
	case 1:
		return 0
	case 2:
		return 255
	case 3, 4:
		return uint8(60 + r.Intn(6))
	default:
		return 63
	}
}

// mkSeg builds the terminated segment for a walk (what the beacon extender of each AS on the
// walk would have produced, without signatures: Combine never looks at them).
func (t *topo) mkSeg(r *vlib.Rand, w walk, base int64, peerDrop int, mtuNoise bool) *seg.PathSegment {
	ts := base - int64(r.Intn(7200))
	if r.Chance(10) {
		ts = base - int64(r.Intn(3))
	}
	s, err := seg.CreateSegment(time.Unix(ts, 0), uint16(r.Intn(65536)))
	if err != nil {
		panic(err)
	}
	for k, st := range w {
		a := t.ases[st.as]
		e := seg.ASEntry{Local: a.ia, MTU: a.mtu}
		if mtuNoise && r.Chance(20) {
			e.MTU = 1200 + r.Intn(400)
		}
		if k+1 < len(w) {
			e.Next = t.ases[w[k+1].as].ia
		}
		e.HopEntry = seg.HopEntry{IngressMTU: st.inMTU,
			HopField: seg.HopField{ExpTime: randExp(r), ConsIngress: st.in, ConsEgress: st.eg, MAC: randMac(r)}}
		if mtuNoise && st.inMTU != 0 && r.Chance(20) {
			e.HopEntry.IngressMTU = 1200 + r.Intn(400)
		}
		if r.Chance(8) { // zero-valued optional fields: ingress MTU not announced, AS MTU unset
			e.HopEntry.IngressMTU = 0
		}
		if r.Chance(3) {
			e.MTU = 0
		}
		for _, p := range t.peersOf(st.as) {
			if r.Chance(peerDrop) {
				continue
			}
			pe := seg.PeerEntry{Peer: t.ases[p.remote].ia, PeerInterface: p.remoteIf, PeerMTU: p.mtu,
				HopField: seg.HopField{ExpTime: randExp(r), ConsIngress: p.local, ConsEgress: st.eg, MAC: randMac(r)}}
			if mtuNoise && r.Chance(20) {
				pe.PeerMTU = 1200 + r.Intn(400)
			}
			if r.Chance(12) { // optional field left at its zero value: the link is still usable
				pe.PeerMTU = 0
			}
			e.PeerEntries = append(e.PeerEntries, pe)
		}
		s.ASEntries = append(s.ASEntries, e)
	}
	return s
}

// ---------------------------------------------------------------------------------------------
// abstract form (op line) and canonical answers

func mac48(m [path.MacLen]byte) uint64 {
	var b [8]byte
	copy(b[2:], m[:])
	return binary.BigEndian.Uint64(b[:])
}

func segText(sb *strings.Builder, s *seg.PathSegment) {
	fmt.Fprintf(sb, " S %d %d %d", s.Info.Timestamp.Unix(), s.Info.SegmentID, len(s.ASEntries))
	for _, e := range s.ASEntries {
		h := e.HopEntry.HopField
		fmt.Fprintf(sb, " E %d %d %d %d %d %d %d %d", uint64(e.Local), h.ConsIngress, h.ConsEgress, h.ExpTime,
			mac48(h.MAC), e.HopEntry.IngressMTU, e.MTU, len(e.PeerEntries))
		for _, p := range e.PeerEntries {
			q := p.HopField
			fmt.Fprintf(sb, " P %d %d %d %d %d %d %d", q.ConsIngress, q.ConsEgress, q.ExpTime, mac48(q.MAC),
				uint64(p.Peer), p.PeerInterface, p.PeerMTU)
		}
	}
}

func opLine(mode string, src, dst addr.IA, ups, cores, downs []*seg.PathSegment) string {
	var sb strings.Builder
	fmt.Fprintf(&sb, "comb %s %d %d %d %d %d", mode, uint64(src), uint64(dst), len(ups), len(cores), len(downs))
	for _, l := range [][]*seg.PathSegment{ups, cores, downs} {
		for _, s := range l {
			segText(&sb, s)
		}
	}
	return sb.String()
}

func ifsText(p combinator.Path) string {
	var b []string
	for _, i := range p.Metadata.Interfaces {
		b = append(b, fmt.Sprintf("%d#%d", uint64(i.IA), uint64(i.ID)))
	}
	return strings.Join(b, ",")
}

func b01(b bool) string {
	if b {
		return "1"
	}
	return "0"
}

func decode(p combinator.Path) (*scion.Decoded, error) {
	var d scion.Decoded
	if err := d.DecodeFromBytes(p.SCIONPath.Raw); err != nil {
		return nil, err
	}
	return &d, nil
}

func renderFull(p combinator.Path) string {
	d, err := decode(p)
	if err != nil {
		return "UNDECODABLE"
	}
	var ls, is, hs []string
	for i := 0; i < d.NumINF; i++ {
		ls = append(ls, fmt.Sprint(d.PathMeta.SegLen[i]))
	}
	for _, i := range d.InfoFields {
		is = append(is, fmt.Sprintf("%d:%d:%s:%s", i.Timestamp, i.SegID, b01(i.ConsDir), b01(i.Peer)))
	}
	for _, h := range d.HopFields {
		hs = append(hs, fmt.Sprintf("%d:%d:%d:%d", h.ConsIngress, h.ConsEgress, h.ExpTime, mac48(h.Mac)))
	}
	return fmt.Sprintf("W%d L%s I%s H%s F%s M%d X%d", p.Weight, strings.Join(ls, ","), strings.Join(is, ","),
		strings.Join(hs, ","), ifsText(p), p.Metadata.MTU, p.Metadata.Expiry.UnixMilli())
}

func renderUniq(p combinator.Path) string {
	return fmt.Sprintf("W%d F%s X%d", p.Weight, ifsText(p), p.Metadata.Expiry.UnixMilli())
}

func answer(ps []combinator.Path, full bool) string {
	var ws, lines []string
	for _, p := range ps {
		ws = append(ws, fmt.Sprint(p.Weight))
		if full {
			lines = append(lines, renderFull(p))
		} else {
			lines = append(lines, renderUniq(p))
		}
	}
	sort.Strings(lines)
	return fmt.Sprintf("n %d w %s | %s", len(ps), strings.Join(ws, ","), strings.Join(lines, " | "))
}

// ---------------------------------------------------------------------------------------------
// C29 predicate: brute-force enumeration of the statement's joins, from the raw segments only

type ifc struct {
	ia addr.IA
	id uint16
}

func seqStr(s []ifc) string {
	var b []string
	for _, x := range s {
		b = append(b, fmt.Sprintf("%d#%d", uint64(x.ia), x.id))
	}
	return strings.Join(b, ",")
}

// against construction direction from entry hi down to entry lo
func upPart(s *seg.PathSegment, hi, lo int) []ifc {
	var out []ifc
	for k := hi; k > lo; k-- {
		out = append(out, ifc{s.ASEntries[k].Local, s.ASEntries[k].HopEntry.HopField.ConsIngress})
		out = append(out, ifc{s.ASEntries[k-1].Local, s.ASEntries[k-1].HopEntry.HopField.ConsEgress})
	}
	return out
}

// in construction direction from entry lo to entry hi
func downPart(s *seg.PathSegment, lo, hi int) []ifc {
	var out []ifc
	for k := lo; k < hi; k++ {
		out = append(out, ifc{s.ASEntries[k].Local, s.ASEntries[k].HopEntry.HopField.ConsEgress})
		out = append(out, ifc{s.ASEntries[k+1].Local, s.ASEntries[k+1].HopEntry.HopField.ConsIngress})
	}
	return out
}

func cat(parts ...[]ifc) []ifc {
	var out []ifc
	for _, p := range parts {
		out = append(out, p...)
	}
	return out
}

// specJoins: every interface sequence src -> dst obtainable from <= 1 up, <= 1 core, <= 1 down
// segment (in that order) joined at common ASes, shortcuts, or a peering link announced by both
// sides; sequences passing an AS more than twice are left out. Value: multiplicity.
func specJoins(src, dst addr.IA, ups, cores, downs []*seg.PathSegment) map[string]int {
	res := map[string]int{}
	add := func(s []ifc) {
		if len(s) == 0 {
			return
		}
		cnt := map[addr.IA]int{}
		for _, x := range s {
			cnt[x.ia]++
			if cnt[x.ia] > 2 {
				return
			}
		}
		res[seqStr(s)]++
	}
	last := func(s *seg.PathSegment) int { return len(s.ASEntries) - 1 }
	ia := func(s *seg.PathSegment, i int) addr.IA { return s.ASEntries[i].Local }
	for _, u := range ups {
		n := last(u)
		if ia(u, n) != src {
			continue
		}
		for i := 0; i < n; i++ {
			if ia(u, i) == dst { // up only
				add(upPart(u, n, i))
			}
			for _, c := range cores { // up + core (+ down)
				k := last(c)
				if ia(c, k) != ia(u, i) {
					continue
				}
				if ia(c, 0) == dst {
					add(cat(upPart(u, n, i), upPart(c, k, 0)))
				}
				for _, d := range downs {
					m := last(d)
					if ia(d, m) != dst {
						continue
					}
					for j := 0; j < m; j++ {
						if ia(d, j) == ia(c, 0) {
							add(cat(upPart(u, n, i), upPart(c, k, 0), downPart(d, j, m)))
						}
					}
				}
			}
		}
		for _, d := range downs {
			m := last(d)
			if ia(d, m) != dst {
				continue
			}
			for i := 0; i < n; i++ { // up + down at a common AS (shortcut when inside)
				for j := 0; j < m; j++ {
					if ia(u, i) == ia(d, j) {
						add(cat(upPart(u, n, i), downPart(d, j, m)))
					}
				}
			}
			for i := 0; i <= n; i++ { // peering link announced by both
				for j := 0; j <= m; j++ {
					for _, pu := range u.ASEntries[i].PeerEntries {
						for _, pd := range d.ASEntries[j].PeerEntries {
							if pu.Peer == ia(d, j) && pd.Peer == ia(u, i) &&
								pu.PeerInterface == pd.HopField.ConsIngress &&
								pd.PeerInterface == pu.HopField.ConsIngress {
								add(cat(upPart(u, n, i),
									[]ifc{{ia(u, i), pu.HopField.ConsIngress}, {ia(d, j), pd.HopField.ConsIngress}},
									downPart(d, j, m)))
							}
						}
					}
				}
			}
		}
	}
	for _, d := range downs {
		m := last(d)
		if ia(d, m) != dst {
			continue
		}
		for j := 0; j < m; j++ {
			if ia(d, j) == src { // down only
				add(downPart(d, j, m))
			}
			for _, c := range cores { // core + down
				k := last(c)
				if ia(c, k) == src && ia(c, 0) == ia(d, j) {
					add(cat(upPart(c, k, 0), downPart(d, j, m)))
				}
			}
		}
	}
	for _, c := range cores { // core only
		k := last(c)
		if ia(c, k) == src && ia(c, 0) == dst {
			add(upPart(c, k, 0))
		}
	}
	return res
}

// ---------------------------------------------------------------------------------------------
// C28 predicate: recomputation of everything the statement promises from the raw hop fields

type ref struct {
	kind int // 0 up, 1 core, 2 down
	s    *seg.PathSegment
	ent  int
	peer int // -1: the entry's own hop field
}

type input struct {
	src, dst          addr.IA
	ups, cores, downs []*seg.PathSegment
	byMac             map[[path.MacLen]byte][]ref
}

func (in *input) index() {
	in.byMac = map[[path.MacLen]byte][]ref{}
	for kind, l := range [][]*seg.PathSegment{in.ups, in.cores, in.downs} {
		for _, s := range l {
			for i, e := range s.ASEntries {
				in.byMac[e.HopEntry.HopField.MAC] = append(in.byMac[e.HopEntry.HopField.MAC], ref{kind, s, i, -1})
				for k, p := range e.PeerEntries {
					in.byMac[p.HopField.MAC] = append(in.byMac[p.HopField.MAC], ref{kind, s, i, k})
				}
			}
		}
	}
}

func sameHop(h path.HopField, g seg.HopField) bool {
	return h.ConsIngress == g.ConsIngress && h.ConsEgress == g.ConsEgress && h.ExpTime == g.ExpTime && h.Mac == g.MAC
}

// witness: output segment = entries a.. of input segment s of the given kind
type witness struct {
	kind int
	s    *seg.PathSegment
	a    int
	peer int // index of the peer entry used at entry a, or -1
}

// witnesses finds every input segment part the hop fields hs (construction order) are a copy of.
func (in *input) witnesses(inf path.InfoField, hs []path.HopField) []witness {
	var out []witness
	if len(hs) == 0 {
		return nil
	}
	for _, r := range in.byMac[hs[0].Mac] {
		if (r.peer >= 0) != inf.Peer {
			continue
		}
		s := r.s
		if r.ent+len(hs) != len(s.ASEntries) { // the used part always runs to the end of the segment
			continue
		}
		if uint32(s.Info.Timestamp.Unix()) != inf.Timestamp || (r.kind == 2) != inf.ConsDir {
			continue
		}
		if r.kind == 1 && (r.ent != 0 || r.peer >= 0) { // core segments are used as a whole
			continue
		}
		if r.kind == 0 && s.LastIA() != in.src || r.kind == 2 && s.LastIA() != in.dst {
			continue
		}
		ok := true
		for t, h := range hs {
			e := s.ASEntries[r.ent+t]
			g := e.HopEntry.HopField
			if t == 0 && r.peer >= 0 {
				g = e.PeerEntries[r.peer].HopField
			}
			if !sameHop(h, g) {
				ok = false
				break
			}
		}
		if ok {
			out = append(out, witness{r.kind, s, r.ent, r.peer})
		}
	}
	return out
}

type pathFacts struct {
	nseg, shortcut, peer int
}

// checkPath evaluates the per-path clauses of C28; returns "" or what is wrong.
func (in *input) checkPath(p combinator.Path) (string, pathFacts) {
	var pf pathFacts
	d, err := decode(p)
	if err != nil {
		return "SCION path does not decode: " + err.Error(), pf
	}
	if d.NumINF < 1 || d.NumINF > 3 || len(d.InfoFields) != d.NumINF {
		return "number of segments not in 1..3", pf
	}
	pf.nseg = d.NumINF
	tot := 0
	for i := 0; i < 3; i++ {
		l := int(d.PathMeta.SegLen[i])
		if (i < d.NumINF) != (l > 0) {
			return "segment lengths inconsistent with number of info fields", pf
		}
		tot += l
	}
	if tot != len(d.HopFields) || tot != d.NumHops {
		return "segment lengths do not add up to the number of hop fields", pf
	}
	// every segment is a copy of a part of an input segment; kinds strictly increasing
	var wit [][]witness
	off := 0
	for i := 0; i < d.NumINF; i++ {
		l := int(d.PathMeta.SegLen[i])
		hs := append([]path.HopField{}, d.HopFields[off:off+l]...)
		off += l
		if !d.InfoFields[i].ConsDir {
			for a, b := 0, len(hs)-1; a < b; a, b = a+1, b-1 {
				hs[a], hs[b] = hs[b], hs[a]
			}
		}
		w := in.witnesses(d.InfoFields[i], hs)
		if len(w) == 0 {
			return fmt.Sprintf("segment %d: info/hop fields are not a copy of a usable part of an input segment", i), pf
		}
		wit = append(wit, w)
	}
	var chosen []witness
	var pick func(i, minKind int, acc []witness) bool
	pick = func(i, minKind int, acc []witness) bool {
		if i == len(wit) {
			chosen = append([]witness{}, acc...)
			return true
		}
		for _, w := range wit[i] {
			if w.kind >= minKind && pick(i+1, w.kind+1, append(acc, w)) {
				return true
			}
		}
		return false
	}
	if !pick(0, 0, nil) {
		return "segments are not at most one up, one core, one down in that order", pf
	}
	for i, w := range chosen {
		if w.peer >= 0 {
			pf.peer = 1
			// a peering hop is only meaningful at the up/down boundary, on both sides
			ok := (w.kind == 0 && i+1 < len(chosen) && chosen[i+1].peer >= 0) ||
				(w.kind == 2 && i > 0 && chosen[i-1].peer >= 0)
			if !ok {
				return "peering hop without its counterpart in the adjacent segment", pf
			}
		} else if w.a > 0 {
			pf.shortcut = 1
		}
	}
	// walk the path in forwarding order
	type hopInfo struct {
		ia         addr.IA
		tIn, tEg   uint16 // interface in / out in travel direction
		firstOfSeg bool
		lastOfSeg  bool
		peerSeg    bool
	}
	var hops []hopInfo
	expiry := int64(-1)
	mtu := 1 << 30
	upd := func(v int) {
		if v < mtu {
			mtu = v
		}
	}
	for i, w := range chosen {
		n := len(w.s.ASEntries) - w.a
		ts := w.s.Info.Timestamp.UnixMilli()
		var part []hopInfo
		for t := 0; t < n; t++ {
			e := w.s.ASEntries[w.a+t]
			g := e.HopEntry.HopField
			if t == 0 && w.peer >= 0 {
				g = e.PeerEntries[w.peer].HopField
				upd(e.PeerEntries[w.peer].PeerMTU) // the peering link is traversed
			}
			if t > 0 && e.HopEntry.IngressMTU != 0 { // link between entries a+t-1 and a+t is traversed
				upd(e.HopEntry.IngressMTU)
			}
			upd(e.MTU)
			x := ts + (int64(g.ExpTime)+1)*337500
			if expiry < 0 || x < expiry {
				expiry = x
			}
			h := hopInfo{ia: e.Local, tIn: g.ConsIngress, tEg: g.ConsEgress, peerSeg: w.peer >= 0}
			if w.kind != 2 {
				h.tIn, h.tEg = g.ConsEgress, g.ConsIngress
			}
			part = append(part, h)
		}
		if w.kind != 2 {
			for a, b := 0, len(part)-1; a < b; a, b = a+1, b-1 {
				part[a], part[b] = part[b], part[a]
			}
		}
		part[0].firstOfSeg, part[len(part)-1].lastOfSeg = true, true
		_ = i
		hops = append(hops, part...)
	}
	var want []ifc
	for k, h := range hops {
		useIn, useEg := true, true
		if k == 0 {
			useIn = false // the source AS is not entered
		}
		if k == len(hops)-1 {
			useEg = false // the destination AS is not left
		}
		if h.firstOfSeg && k > 0 && !h.peerSeg {
			useIn = false // cross-over inside this AS: entered through the previous segment's hop
		}
		if h.lastOfSeg && k < len(hops)-1 && !h.peerSeg {
			useEg = false // cross-over inside this AS: left through the next segment's hop
		}
		if useIn && h.tIn != 0 {
			want = append(want, ifc{h.ia, h.tIn})
		}
		if useEg && h.tEg != 0 {
			want = append(want, ifc{h.ia, h.tEg})
		}
	}
	var got []ifc
	cnt := map[addr.IA]int{}
	for _, i := range p.Metadata.Interfaces {
		got = append(got, ifc{i.IA, uint16(i.ID)})
		cnt[i.IA]++
		if cnt[i.IA] > 2 {
			return "passes AS " + i.IA.String() + " more than twice", pf
		}
	}
	// SegID accumulator the first router needs: beta_0 = SegmentID, beta_{i+1} = beta_i ^ MAC_i[:2];
	// a segment entered in construction direction at entry a starts with beta_a, one walked against it
	// from its last entry n with beta_n; a peering hop is verified with the accumulator of the NEXT entry.
	for i, w := range chosen {
		beta := w.s.Info.SegmentID
		idx := w.a
		if w.kind != 2 {
			idx = len(w.s.ASEntries) - 1
		}
		if w.peer >= 0 && idx == w.a {
			idx++
		}
		for k := 0; k < idx; k++ {
			beta ^= binary.BigEndian.Uint16(w.s.ASEntries[k].HopEntry.HopField.MAC[:2])
		}
		if d.InfoFields[i].SegID != beta {
			return fmt.Sprintf("segment %d: SegID %d is not the accumulator %d of the input segment at its first hop",
				i, d.InfoFields[i].SegID, beta), pf
		}
	}
	if p.Weight*2 != len(p.Metadata.Interfaces) {
		return fmt.Sprintf("weight %d is not the number of inter-AS links %d", p.Weight, len(p.Metadata.Interfaces)/2), pf
	}
	if seqStr(got) != seqStr(want) {
		return "metadata interfaces " + seqStr(got) + " differ from the interfaces the hop fields traverse " + seqStr(want), pf
	}
	if p.Metadata.Expiry.UnixMilli() != expiry {
		return fmt.Sprintf("expiry %d is not the earliest hop field expiry %d", p.Metadata.Expiry.UnixMilli(), expiry), pf
	}
	if int(p.Metadata.MTU) != mtu {
		return fmt.Sprintf("MTU %d is not the minimum %d over traversed ASes and links", p.Metadata.MTU, mtu), pf
	}
	return "", pf
}

// ---------------------------------------------------------------------------------------------

type caseT struct {
	in        input
	shape     string
	all, uniq []combinator.Path
}

func pickSegs(r *vlib.Rand, pool []*seg.PathSegment, pct int) []*seg.PathSegment {
	var out []*seg.PathSegment
	for _, s := range pool {
		if r.Chance(pct) {
			out = append(out, s)
		}
	}
	return out
}

func shuffle(r *vlib.Rand, l []*seg.PathSegment) {
	for i := len(l) - 1; i > 0; i-- {
		j := r.Intn(i + 1)
		l[i], l[j] = l[j], l[i]
	}
}

// parseOp rebuilds the segment sets from the abstract form of an op line (`comb all <src> <dst> ...`),
// so that a recorded failing input can be re-executed alone (-replay).
func parseOp(op string) (*caseT, error) {
	w := strings.Fields(op)
	pos := 0
	next := func() (uint64, error) {
		if pos >= len(w) {
			return 0, fmt.Errorf("op too short")
		}
		v, err := strconv.ParseUint(w[pos], 10, 64)
		pos++
		return v, err
	}
	expect := func(t string) error {
		if pos >= len(w) || w[pos] != t {
			return fmt.Errorf("expected %s at word %d", t, pos)
		}
		pos++
		return nil
	}
	if len(w) < 2 {
		return nil, fmt.Errorf("empty op")
	}
	pos = 2 // "comb all"
	var hdr [5]uint64
	for i := range hdr {
		v, err := next()
		if err != nil {
			return nil, err
		}
		hdr[i] = v
	}
	mac := func(v uint64) (m [path.MacLen]byte) {
		var b [8]byte
		binary.BigEndian.PutUint64(b[:], v)
		copy(m[:], b[2:])
		return
	}
	nums := func(n int) ([]uint64, error) {
		out := make([]uint64, n)
		for i := range out {
			v, err := next()
			if err != nil {
				return nil, err
			}
			out[i] = v
		}
		return out, nil
	}
	segs := func(n uint64) ([]*seg.PathSegment, error) {
		var out []*seg.PathSegment
		for ; n > 0; n-- {
			if err := expect("S"); err != nil {
				return nil, err
			}
			h, err := nums(3)
			if err != nil {
				return nil, err
			}
			s, err := seg.CreateSegment(time.Unix(int64(h[0]), 0), uint16(h[1]))
			if err != nil {
				return nil, err
			}
			for k := uint64(0); k < h[2]; k++ {
				if err := expect("E"); err != nil {
					return nil, err
				}
				f, err := nums(8)
				if err != nil {
					return nil, err
				}
				e := seg.ASEntry{Local: addr.IA(f[0]), MTU: int(f[6]), HopEntry: seg.HopEntry{IngressMTU: int(f[5]),
					HopField: seg.HopField{ConsIngress: uint16(f[1]), ConsEgress: uint16(f[2]), ExpTime: uint8(f[3]), MAC: mac(f[4])}}}
				for j := uint64(0); j < f[7]; j++ {
					if err := expect("P"); err != nil {
						return nil, err
					}
					q, err := nums(7)
					if err != nil {
						return nil, err
					}
					e.PeerEntries = append(e.PeerEntries, seg.PeerEntry{Peer: addr.IA(q[4]), PeerInterface: uint16(q[5]),
						PeerMTU: int(q[6]), HopField: seg.HopField{ConsIngress: uint16(q[0]), ConsEgress: uint16(q[1]),
							ExpTime: uint8(q[2]), MAC: mac(q[3])}})
				}
				s.ASEntries = append(s.ASEntries, e)
			}
			for k := 0; k+1 < len(s.ASEntries); k++ {
				s.ASEntries[k].Next = s.ASEntries[k+1].Local
			}
			out = append(out, s)
		}
		return out, nil
	}
	c := &caseT{in: input{src: addr.IA(hdr[0]), dst: addr.IA(hdr[1])}}
	var err error
	if c.in.ups, err = segs(hdr[2]); err != nil {
		return nil, err
	}
	if c.in.cores, err = segs(hdr[3]); err != nil {
		return nil, err
	}
	if c.in.downs, err = segs(hdr[4]); err != nil {
		return nil, err
	}
	return c, nil
}

// replayOp extracts the recorded op from a replay file written by ../check (or a bare op line).
func replayOp(file string) string {
	b, err := os.ReadFile(file)
	if err != nil {
		return ""
	}
	var doc struct {
		FailingInput *struct {
			Replay struct {
				Op string `json:"op"`
			} `json:"replay"`
		} `json:"failing_input"`
	}
	if json.Unmarshal(b, &doc) == nil && doc.FailingInput != nil {
		return doc.FailingInput.Replay.Op
	}
	if strings.HasPrefix(string(b), "comb ") {
		return strings.TrimSpace(string(b))
	}
	return ""
}

func main() {
	e := vlib.Init()
	e.Rule = "random topologies (1-3 ISDs, AS numbers reused across ISDs in most multi-ISD topologies, 1-4 cores with parallel core links, up to 3 levels of multi-parent " +
		"children, parallel parent links, peering links between any non-core pair) -> beacon segments built as " +
		"seg.PathSegment along every loop-free walk (random timestamps, expiries, MACs, per-link MTUs, peer entries " +
		"randomly withheld; every sixteenth topology is beaconed by the real beaconing.DefaultExtender instead) -> per case a random (src,dst), random subsets of the segments ending at src / dst / core " +
		"segments, perturbed by duplicates (same pointer, deep copy), re-beaconed variants with other expiry/MTU, and " +
		"segments not touching src/dst; each case is run with findAllIdentical true and false; then 4-8 goroutines run Combine concurrently on cases with many paths and every result must equal the sequential one. Non-trivial = at least " +
		"one path returned; distinct by op line"
	go watchdog(e)
	if e.Replay != "" {
		if op := replayOp(e.Replay); op != "" {
			c, err := parseOp(op)
			if err != nil {
				panic("replay: " + err.Error())
			}
			e.Rule = "replay of one recorded case"
			runCase(e, c)
			e.Finish()
			return
		}
	}
	nTopo := e.N(1500, 12000)
	casesPer := 6
	base := int64(1700000000)
	shapes := map[string]int{}
	pool := &concPool{}
	real := 0
	for ti := 0; ti < nTopo; ti++ {
		r := vlib.CaseRand(e.Seed, ti)
		t := genTopo(r)
		peerDrop := []int{0, 0, 15, 40}[r.Intn(4)]
		noise := r.Chance(40)
		// beacon pool
		segsTo := map[int][]*seg.PathSegment{}
		var coreSegs []*seg.PathSegment
		var rn *realNet
		if ti%16 == 3 { // every sixteenth topology is beaconed by the real extender
			rn = newRealNet(r, t)
			real++
		}
		mk := func(w walk) *seg.PathSegment {
			if rn != nil {
				return rn.mkSeg(r, w, base)
			}
			return t.mkSeg(r, w, base, peerDrop, noise)
		}
		for c, a := range t.ases {
			if !a.core {
				continue
			}
			for _, w := range t.walks(c, kPC, 60) {
				end := w[len(w)-1].as
				segsTo[end] = append(segsTo[end], mk(w))
			}
			for _, w := range t.walks(c, kCore, 30) {
				coreSegs = append(coreSegs, mk(w))
			}
		}
		walksOf := map[*seg.PathSegment]walk{}
		_ = walksOf
		for ci := 0; ci < casesPer; ci++ {
			src, dst := r.Intn(len(t.ases)), r.Intn(len(t.ases))
			if src == dst && !r.Chance(3) {
				dst = (dst + 1) % len(t.ases)
			}
			pct := []int{100, 100, 70, 40}[r.Intn(4)]
			ups := pickSegs(r, segsTo[src], pct)
			downs := pickSegs(r, segsTo[dst], pct)
			cores := pickSegs(r, coreSegs, pct)
			if len(ups) > 6 {
				shuffle(r, ups)
				ups = ups[:6]
			}
			if len(downs) > 6 {
				shuffle(r, downs)
				downs = downs[:6]
			}
			if len(cores) > 8 {
				shuffle(r, cores)
				cores = cores[:8]
			}
			// perturbations
			perturb := func(l []*seg.PathSegment, foreign [][]*seg.PathSegment) []*seg.PathSegment {
				if len(l) > 0 && r.Chance(25) { // same pointer twice
					l = append(l, l[r.Intn(len(l))])
				}
				if len(l) > 0 && r.Chance(25) { // deep copy
					s := l[r.Intn(len(l))]
					l = append(l, s.ShallowCopy())
				}
				if len(l) > 0 && r.Chance(35) { // same links, other expiry (and, rarely, same expiry)
					s := l[r.Intn(len(l))]
					c := s.ShallowCopy()
					same := r.Chance(30)
					for i := range c.ASEntries {
						c.ASEntries[i].PeerEntries = append([]seg.PeerEntry{}, c.ASEntries[i].PeerEntries...)
						c.ASEntries[i].HopEntry.HopField.MAC = randMac(r)
						if !same {
							c.ASEntries[i].HopEntry.HopField.ExpTime = randExp(r)
						}
						for k := range c.ASEntries[i].PeerEntries {
							c.ASEntries[i].PeerEntries[k].HopField.MAC = randMac(r)
							if !same {
								c.ASEntries[i].PeerEntries[k].HopField.ExpTime = randExp(r)
							}
						}
					}
					if !same && r.Bool() {
						info, _ := seg.NewInfo(time.Unix(base-int64(r.Intn(7200)), 0), uint16(r.Intn(65536)))
						c.Info = info
					}
					l = append(l, c)
				}
				if r.Chance(20) { // segments that do not touch src / dst
					for _, f := range foreign {
						if len(f) > 0 {
							l = append(l, f[r.Intn(len(f))])
						}
					}
				}
				shuffle(r, l)
				return l
			}
			var foreignU, foreignD [][]*seg.PathSegment
			for a := range t.ases {
				if a != src {
					foreignU = append(foreignU, segsTo[a])
				}
				if a != dst {
					foreignD = append(foreignD, segsTo[a])
				}
			}
			if len(foreignU) > 2 {
				foreignU = foreignU[r.Intn(len(foreignU)-1):][:2]
			}
			if len(foreignD) > 2 {
				foreignD = foreignD[r.Intn(len(foreignD)-1):][:2]
			}
			ups = perturb(ups, foreignU)
			downs = perturb(downs, foreignD)
			cores = perturb(cores, nil)
			c := &caseT{in: input{src: t.ases[src].ia, dst: t.ases[dst].ia, ups: ups, cores: cores, downs: downs}}
			runCase(e, c)
			shapes[c.shape]++
			pool.offer(r, c)
		}
	}
	runConcurrent(e, vlib.CaseRand(e.Seed, nTopo+1), pool, e.N(60, 1500))
	e.Extra["shapes"] = shapes
	e.Extra["topologies"] = nTopo
	e.Extra["topologies_beaconed_by_real_extender"] = real
	e.Finish()
}

// watchdog: a Combine that does not come back (e.g. a search that no longer terminates on a cyclic
// core graph) must end the run with a failing input instead of exhausting the machine.
var (
	curOp    atomic.Pointer[string]
	curStart atomic.Int64
)

func watchdog(e *vlib.Env) {
	var ms runtime.MemStats
	for {
		time.Sleep(200 * time.Millisecond)
		op := curOp.Load()
		if op == nil {
			continue
		}
		runtime.ReadMemStats(&ms)
		d := time.Since(time.Unix(0, curStart.Load()))
		if d > 30*time.Second || ms.HeapAlloc > 3<<30 {
			e.Violate(e.Prop+"/no-termination", fmt.Sprintf("Combine did not return (%.1fs, heap %d MiB)",
				d.Seconds(), ms.HeapAlloc>>20), map[string]any{"op": *op})
			e.Finish()
			os.Exit(0)
		}
	}
}

func runCase(e *vlib.Env, c *caseT) {
	in := &c.in
	in.index()
	opAll := opLine("all", in.src, in.dst, in.ups, in.cores, in.downs)
	curStart.Store(time.Now().UnixNano())
	curOp.Store(&opAll)
	defer curOp.Store(nil)
	ansAll, ok1 := vlib.Safe(func() string {
		c.all = combinator.Combine(in.src, in.dst, in.ups, in.cores, in.downs, true)
		return answer(c.all, true)
	})
	ansUniq, ok2 := vlib.Safe(func() string {
		c.uniq = combinator.Combine(in.src, in.dst, in.ups, in.cores, in.downs, false)
		return answer(c.uniq, false)
	})
	replay := map[string]any{"op": opAll, "src": in.src.String(), "dst": in.dst.String()}
	bad := func(prop, key, what string) {
		if e.Prop == prop {
			e.Violate(prop+"/"+key, what, replay)
		}
	}
	if !ok1 || !ok2 {
		bad("C28", "panic", "Combine panicked: "+ansAll+" "+ansUniq)
		bad("C29", "panic", "Combine panicked: "+ansAll+" "+ansUniq)
	}
	// ---- C28, per path
	var facts pathFacts
	for _, l := range [][]combinator.Path{c.all, c.uniq} {
		prevW, prevH := -1, -1
		for i, p := range l {
			what, pf := in.checkPath(p)
			if what != "" {
				bad("C28", "path-metadata", fmt.Sprintf("path %d (%s): %s", i, ifsText(p), what))
			}
			if hw := len(p.Metadata.Interfaces) / 2; p.Weight < prevW || hw < prevH {
				bad("C28", "order", fmt.Sprintf("path %d has weight %d (%d links) after weight %d (%d links)",
					i, p.Weight, hw, prevW, prevH))
			}
			prevW, prevH = p.Weight, len(p.Metadata.Interfaces)/2
			if pf.nseg > facts.nseg {
				facts.nseg = pf.nseg
			}
			facts.shortcut |= pf.shortcut
			facts.peer |= pf.peer
		}
	}
	// ---- C28 duplicates clause / C29 completeness
	spec := specJoins(in.src, in.dst, in.ups, in.cores, in.downs)
	gotAll := map[string]int{}
	bestExp := map[string]int64{}
	for _, p := range c.all {
		k := ifsText(p)
		gotAll[k]++
		if x := p.Metadata.Expiry.UnixMilli(); gotAll[k] == 1 || x > bestExp[k] {
			bestExp[k] = x
		}
	}
	gotUniq := map[string]int{}
	for _, p := range c.uniq {
		k := ifsText(p)
		gotUniq[k]++
		if gotUniq[k] > 1 {
			bad("C28", "duplicate-kept", "two returned paths share the interface sequence "+k)
		}
		if n, ok := gotAll[k]; ok && n > 0 && p.Metadata.Expiry.UnixMilli() != bestExp[k] {
			bad("C28", "duplicate-not-latest", fmt.Sprintf("kept path %s expires at %d, a duplicate at %d",
				k, p.Metadata.Expiry.UnixMilli(), bestExp[k]))
		}
		// the kept one is one of the constructions (full rendering)
		found := false
		for _, q := range c.all {
			if renderFull(q) == renderFull(p) {
				found = true
				break
			}
		}
		if !found {
			bad("C28", "duplicate-kept", "kept path "+k+" is none of the constructions returned with findAllIdentical")
		}
	}
	var keys []string
	for k := range spec {
		keys = append(keys, k)
	}
	sort.Strings(keys)
	for _, k := range keys {
		if gotAll[k] == 0 {
			bad("C29", "missing-combination", "valid combination not returned (findAllIdentical=true): "+k)
		} else if gotAll[k] < spec[k] {
			bad("C29", "missing-combination", fmt.Sprintf("combination %s can be built in %d ways, %d returned", k, spec[k], gotAll[k]))
		} else if gotAll[k] > spec[k] {
			bad("C28", "not-a-combination", fmt.Sprintf("combination %s can be built in %d ways, %d returned", k, spec[k], gotAll[k]))
		}
		if gotUniq[k] == 0 {
			bad("C29", "missing-combination", "valid combination not returned (findAllIdentical=false): "+k)
		}
	}
	for _, m := range []map[string]int{gotAll, gotUniq} {
		var ks []string
		for k := range m {
			ks = append(ks, k)
		}
		sort.Strings(ks)
		for _, k := range ks {
			if spec[k] == 0 {
				bad("C28", "not-a-combination", "returned path is not a join of <=1 up, <=1 core, <=1 down segment: "+k)
			}
		}
	}
	// ---- correspondence lines (property-specific, see Driver/Comb.lean)
	n := len(c.all)
	c.shape = fmt.Sprintf("seg%d", facts.nseg)
	if facts.shortcut == 1 {
		c.shape += "+shortcut"
	}
	if facts.peer == 1 {
		c.shape += "+peer"
	}
	if len(c.all) != len(c.uniq) {
		c.shape += "+dup"
	}
	if in.src == in.dst {
		c.shape += "+self"
	}
	tag := c.shape
	if n == 0 {
		c.shape = "nopath"
		tag = "~nopath"
	}
	pre := func(t string) string {
		if strings.HasPrefix(tag, "~") {
			return "~" + t + "/" + tag[1:]
		}
		return t + "/" + tag
	}
	if !ok1 || !ok2 {
		e.Op(opAll, ansAll+" "+ansUniq, pre("panic"))
	} else if e.Prop == "C29" {
		var sb strings.Builder
		sb.WriteString("c29" + opAll[8:])
		for _, m := range []struct {
			mark string
			ps   []combinator.Path
		}{{"R", c.all}, {"U", c.uniq}} {
			fmt.Fprintf(&sb, " %s %d", m.mark, len(m.ps))
			for _, p := range m.ps {
				sb.WriteString(" F" + ifsText(p))
			}
		}
		e.Op(sb.String(), "missing || missing", pre("c29"))
	} else {
		var sb strings.Builder
		sb.WriteString("c28" + opAll[8:])
		var ans []string
		for _, m := range []struct {
			mark string
			ps   []combinator.Path
		}{{"R", c.all}, {"U", c.uniq}} {
			fmt.Fprintf(&sb, " %s %d", m.mark, len(m.ps))
			var ws, lines []string
			for _, p := range m.ps {
				l := renderUniq(p)
				if m.mark == "R" {
					l = renderFull(p)
				}
				sb.WriteString(" " + l)
				lines = append(lines, l)
				ws = append(ws, fmt.Sprint(p.Weight))
			}
			if m.mark == "U" {
				sort.Strings(lines) // the two Combine calls order equal-key solutions independently
			}
			ans = append(ans, "w "+strings.Join(ws, ",")+" | "+strings.Join(lines, " | "))
		}
		e.Op(sb.String(), strings.Join(ans, " || "), pre("c28"))
	}
	e.Sample(map[string]any{"src": in.src.String(), "dst": in.dst.String(), "ups": len(in.ups), "cores": len(in.cores),
		"downs": len(in.downs), "paths_all": len(c.all), "paths_uniq": len(c.uniq), "shape": c.shape})
}
