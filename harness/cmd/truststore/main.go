// Engine "truststore" (C35): real trust.FetchingProvider / trust.LoadTRCs over a real in-memory
// SQLite trust DB with a scripted fetcher, tied to lean/Scion/Model/TrustStore.lean.  The
// certificate pool, TRC builders and signing helpers are shared with engine "trc" (the
// symlinked files pool.go, world.go, facts.go, c32.go, c33.go).
package main

import (
	"time"

	"verifharness/vlib"
)

func main() {
	e := vlib.Init()
	// loadTRCs compares validity with the wall clock: centre the pool's time origin on "now"
	// (TRC validity [now-1000s, now+4000s]; "future" TRCs start at now+3600s).
	T0 = time.Now().UTC().Truncate(time.Second).Add(-1000 * time.Second)
	w := newWorld(vlib.NewRand(uint64(e.Seed)))
	runC35(e, w)
	e.Finish()
}
