// C35: the trust store only advances along verified TRC successions.
// Real trust.FetchingProvider + real in-memory SQLite trust DB + scripted fetcher, real
// trust.LoadTRCs on a scratch directory; histories of operations are tied to
// lean/Scion/Model/TrustStore.lean and the statement is evaluated on the DB contents.
package main

import (
	"bytes"
	"context"
	"crypto/sha256"
	"crypto/x509"
	"encoding/pem"
	"errors"
	"fmt"
	"net"
	"os"
	"path/filepath"
	"sort"
	"strings"
	"time"

	"github.com/scionproto/scion/pkg/addr"
	"github.com/scionproto/scion/pkg/scrypto"
	"github.com/scionproto/scion/pkg/scrypto/cppki"
	"github.com/scionproto/scion/private/storage/db"
	truststorage "github.com/scionproto/scion/private/storage/trust"
	"github.com/scionproto/scion/private/storage/trust/sqlite"
	"github.com/scionproto/scion/private/trust"

	"verifharness/vlib"
)

// link is one signed TRC in the two forms needed: mem (pool certificate pointers, to derive and
// sign successors) and wire (decoded from its DER, what a fetcher / a file delivers).
type link struct {
	mem  cppki.SignedTRC
	wire cppki.SignedTRC
	fp   int
	note string
}

func (w *world) mkLink(u *ucase, note string) *link {
	s, _ := u.build(w)
	raw, err := s.Encode()
	if err != nil {
		panic("encode signed TRC: " + err.Error())
	}
	wire, err := cppki.DecodeSignedTRC(raw)
	if err != nil {
		panic("decode signed TRC: " + err.Error())
	}
	s.Raw = raw
	h := sha256.Sum256(wire.TRC.Raw)
	return &link{mem: s, wire: wire, fp: w.in.b("trcfp", h[:]), note: note}
}

// successor builds a signed successor of l: good = acceptable update; otherwise one of several
// ways of being wrong.
func (w *world) successor(l *link, how string) *link {
	pred := l.mem.TRC
	var u *ucase
	for tries := 0; ; tries++ {
		if w.r.Bool() {
			u = w.regularUpdate(&pred)
		} else {
			u = w.sensitiveUpdate(&pred)
		}
		if u.t.Validate() == nil {
			break
		}
		if tries > 20 {
			panic("cannot build a valid successor")
		}
	}
	// keep the validity of the chain in the past/present (sec(0) .. sec(5000) around "now")
	switch how {
	case "good":
	case "unsigned":
		u.signers = nil
	case "one-signature-missing":
		if n := len(u.signers); n > 0 {
			dropSigner(u, u.signers[w.r.Intn(n)])
		}
	case "duplicate-vote":
		if n := len(u.t.Votes); n > 0 {
			u.t.Votes = append(u.t.Votes, u.t.Votes[0])
		}
	case "serial-gap":
		u.t.ID.Serial++
	case "other-base":
		u.t.ID.Base, u.t.ID.Serial = pred.ID.Serial+1, pred.ID.Serial+1
		u.t.Votes, u.t.GracePeriod = nil, 0
		u.signers = newVoterCerts(nil, &u.t)
	case "other-isd":
		return w.isdLink(2, pred.ID.Base, pred.ID.Serial+1)
	}
	return w.mkLink(u, how)
}

// isdLink: a properly signed TRC of another ISD (voters without ISD-AS fit any ISD).
func (w *world) isdLink(isd addr.ISD, base, serial scrypto.Version) *link {
	t := cppki.TRC{Version: 1, ID: cppki.TRCID{ISD: isd, Base: base, Serial: base},
		Validity: cppki.Validity{NotBefore: sec(0), NotAfter: sec(5000)}, Quorum: 1,
		CoreASes: []addr.AS{w.ases[0]}, AuthoritativeASes: []addr.AS{w.ases[0]},
		Certificates: []*x509.Certificate{w.noIASens.Cert, w.noIAReg.Cert}}
	if serial != base {
		t.ID.Serial = serial
		t.Votes = []int{0}
	}
	u := &ucase{t: t, signers: []*x509.Certificate{w.noIASens.Cert, w.noIAReg.Cert}}
	return w.mkLink(u, "other-isd")
}

func (w *world) baseLink(future bool) *link {
	u := w.baseCase()
	if future {
		u.t.Validity = cppki.Validity{NotBefore: sec(4600), NotAfter: sec(5000)}
	}
	return w.mkLink(u, "base")
}

func recStr(isd addr.ISD, base, serial scrypto.Version, fp int) string {
	return fmt.Sprintf("%d.%d.%d.%d", isd, base, serial, fp)
}

func (l *link) rec() string {
	id := l.wire.TRC.ID
	return recStr(id.ISD, id.Base, id.Serial, l.fp)
}

// ---- the scripted environment of the provider

type resp struct {
	err error
	l   *link
}

type fetcher struct {
	script []resp
	calls  int
	asked  []cppki.TRCID
}

func (f *fetcher) Chains(context.Context, trust.ChainQuery, net.Addr) ([][]*x509.Certificate, error) {
	return nil, errors.New("not scripted")
}

func (f *fetcher) TRC(_ context.Context, id cppki.TRCID, _ net.Addr) (cppki.SignedTRC, error) {
	f.calls++
	f.asked = append(f.asked, id)
	if f.calls > len(f.script) {
		return cppki.SignedTRC{}, errors.New("script exhausted")
	}
	r := f.script[f.calls-1]
	if r.err != nil {
		return cppki.SignedTRC{}, r.err
	}
	return r.l.wire, nil
}

type router struct{ fail bool }

func (r router) ChooseServer(context.Context, addr.ISD) (net.Addr, error) {
	if r.fail {
		return nil, errors.New("no server")
	}
	return &net.UDPAddr{IP: net.IPv4(127, 0, 0, 1), Port: 30252}, nil
}

type hist struct {
	w     *world
	e     *vlib.Env
	db    sqlite.DB
	known map[int]*link // by fingerprint id
	dir   string
	nLoad int
	trail []string
}

func (h *hist) dump() (string, []cppki.SignedTRC) {
	trcs, err := h.db.SignedTRCs(context.Background(), truststorage.TRCsQuery{})
	if err != nil {
		panic(err)
	}
	var recs []string
	for _, t := range trcs {
		s := sha256.Sum256(t.TRC.Raw)
		recs = append(recs, recStr(t.TRC.ID.ISD, t.TRC.ID.Base, t.TRC.ID.Serial, h.w.in.b("trcfp", s[:])))
	}
	sort.Strings(recs)
	if len(recs) == 0 {
		return "-", trcs
	}
	return strings.Join(recs, ","), trcs
}

func (h *hist) latest(isd addr.ISD) (cppki.SignedTRC, bool) {
	t, err := h.db.SignedTRC(context.Background(), cppki.TRCID{ISD: isd})
	if err != nil {
		panic(err)
	}
	return t, !t.IsZero()
}

func lessID(a, b cppki.TRCID) bool {
	return a.Base < b.Base || (a.Base == b.Base && a.Serial < b.Serial)
}

func (h *hist) violate(key, what string) {
	h.e.Violate("C35/"+key, what, map[string]any{"history": append([]string(nil), h.trail...)})
}

// monotone: the latest TRC of every ISD present before is still there and not older.
func (h *hist) latestMap(trcs []cppki.SignedTRC) map[addr.ISD]cppki.TRCID {
	m := map[addr.ISD]cppki.TRCID{}
	for _, t := range trcs {
		if cur, ok := m[t.TRC.ID.ISD]; !ok || lessID(cur, t.TRC.ID) {
			m[t.TRC.ID.ISD] = t.TRC.ID
		}
	}
	return m
}

func (h *hist) checkMonotone(before, after []cppki.SignedTRC) {
	b, a := h.latestMap(before), h.latestMap(after)
	for isd, idb := range b {
		ida, ok := a[isd]
		if !ok || lessID(ida, idb) {
			h.violate("latest-regressed", fmt.Sprintf("latest TRC of ISD %d went from %v to %v", isd, idb, ida))
		}
		if got, ok := h.latest(isd); !ok || got.TRC.ID != ida {
			h.violate("latest-query", fmt.Sprintf("DB latest of ISD %d is %v, stored maximum %v", isd, got.TRC.ID, ida))
		}
	}
	if len(after) < len(before) {
		h.violate("trc-removed", "a stored TRC disappeared")
	}
}

func (h *hist) load(files []string, links []*link) {
	h.nLoad++
	dir := filepath.Join(h.dir, fmt.Sprintf("load%d", h.nLoad))
	if err := os.MkdirAll(dir, 0o755); err != nil {
		panic(err)
	}
	var words []string
	for i, l := range links {
		name := filepath.Join(dir, fmt.Sprintf("f%02d.trc", i))
		var data []byte
		switch files[i] {
		case "bad":
			data = []byte("this is not a TRC")
			words = append(words, "bad")
		case "pem":
			data = pem.EncodeToMemory(&pem.Block{Type: "TRC", Bytes: l.mem.Raw})
		default:
			data = l.mem.Raw
		}
		if files[i] != "bad" {
			future := time.Now().Before(l.wire.TRC.Validity.NotBefore)
			words = append(words, l.rec()+"."+b01(future))
			h.known[l.fp] = l
		}
		if err := os.WriteFile(name, data, 0o644); err != nil {
			panic(err)
		}
	}
	_, before := h.dump()
	res, err := trust.LoadTRCs(context.Background(), dir, h.db)
	dump, after := h.dump()
	_ = os.RemoveAll(dir)
	fl := "-"
	if len(words) > 0 {
		fl = strings.Join(words, ",")
	}
	op := "load " + fl
	h.trail = append(h.trail, op)
	ans := fmt.Sprintf("%s n=%d db=%s", okErr(err), len(res.Loaded), dump)
	h.e.Op(op, ans, "load/"+okErr(err))
	// statement: TRCs whose validity starts in the future are ignored
	inBefore := map[string]bool{}
	for _, t := range before {
		inBefore[string(t.TRC.Raw)] = true
	}
	for _, t := range after {
		if !inBefore[string(t.TRC.Raw)] && time.Now().Before(t.TRC.Validity.NotBefore) {
			h.violate("future-trc-loaded", fmt.Sprintf("LoadTRCs stored %v whose validity starts at %v", t.TRC.ID, t.TRC.Validity.NotBefore))
		}
	}
	h.checkMonotone(before, after)
}

func okErr(err error) string {
	if err != nil {
		return "err"
	}
	return "ok"
}

// notify runs one NotifyTRC with a scripted fetcher.
func (h *hist) notify(id cppki.TRCID, allow string, script []resp) {
	w := h.w
	f := &fetcher{script: script}
	p := trust.FetchingProvider{DB: h.db, Recurser: trust.LocalOnlyRecurser{}, Fetcher: f, Router: router{fail: allow == "noserver"}}
	var opts []trust.Option
	if allow == "remote-client" {
		opts = append(opts, trust.Client(&net.UDPAddr{IP: net.IPv4(10, 0, 0, 1), Port: 1}))
	}
	// the verification table: real Verify of every scripted TRC against every TRC it could be
	// compared with (stored TRCs of the ISD and the other scripted ones)
	_, before := h.dump()
	type cand struct {
		t  *cppki.TRC
		fp int
	}
	var preds []cand
	for i := range before {
		if before[i].TRC.ID.ISD == id.ISD {
			s := sha256.Sum256(before[i].TRC.Raw)
			preds = append(preds, cand{&before[i].TRC, w.in.b("trcfp", s[:])})
		}
	}
	var sw []string
	for _, r := range script {
		if r.err != nil {
			sw = append(sw, "err")
		} else {
			sw = append(sw, r.l.rec())
			preds = append(preds, cand{&r.l.wire.TRC, r.l.fp})
			h.known[r.l.fp] = r.l
		}
	}
	var table []string
	seen := map[string]bool{}
	for _, r := range script {
		if r.err != nil {
			continue
		}
		for _, pc := range preds {
			k := fmt.Sprintf("%d>%d", pc.fp, r.l.fp)
			if seen[k] {
				continue
			}
			seen[k] = true
			wire := r.l.wire
			if wire.Verify(pc.t) == nil {
				table = append(table, k)
			}
		}
	}
	latestBefore, hadLatest := h.latest(id.ISD)
	err := p.NotifyTRC(context.Background(), id, opts...)
	dump, after := h.dump()
	op := fmt.Sprintf("notify %d %d %d %s V=%s S=%s", id.ISD, id.Base, id.Serial, b01(allow == "ok"),
		joinOr(table), joinOr(sw))
	h.trail = append(h.trail, op)
	ans := fmt.Sprintf("%s f=%d db=%s", okErr(err), f.calls, dump)
	tag := "notify/" + okErr(err) + fmt.Sprintf("/f%d", min(f.calls, 3))
	h.e.Op(op, ans, tag)
	h.e.Sample(map[string]any{"op": op, "impl": ans})

	// ---- the statement, on what the implementation did
	h.checkMonotone(before, after)
	inBefore := map[string]bool{}
	for _, t := range before {
		inBefore[string(t.TRC.Raw)] = true
	}
	var added []cppki.SignedTRC
	for _, t := range after {
		if !inBefore[string(t.TRC.Raw)] {
			added = append(added, t)
		}
	}
	sort.Slice(added, func(i, j int) bool { return lessID(added[i].TRC.ID, added[j].TRC.ID) })
	if !hadLatest {
		if len(added) > 0 || err == nil {
			h.violate("unknown-isd", "NotifyTRC for an ISD without TRC stored something or succeeded")
		}
		return
	}
	if id.Base != latestBefore.TRC.ID.Base && (len(added) > 0 || err == nil) {
		h.violate("other-base-accepted", fmt.Sprintf("notification for base %d while the latest TRC has base %d: err=%v, stored %d, fetches %d",
			id.Base, latestBefore.TRC.ID.Base, err, len(added), f.calls))
	}
	prev := latestBefore
	for i, t := range added {
		if t.TRC.ID.ISD != id.ISD || t.TRC.ID.Base != prev.TRC.ID.Base || t.TRC.ID.Serial != prev.TRC.ID.Serial+1 {
			h.violate("not-in-order", fmt.Sprintf("stored %v after %v", t.TRC.ID, prev.TRC.ID))
		}
		tt := t
		if verr := tt.Verify(&prev.TRC); verr != nil {
			h.violate("unverified-trc-stored", fmt.Sprintf("stored %v does not verify against %v: %v", t.TRC.ID, prev.TRC.ID, verr))
		}
		// it is the TRC the fetcher delivered at that step
		if i < len(script) && (script[i].err != nil || !bytes.Equal(script[i].l.wire.TRC.Raw, t.TRC.Raw)) {
			h.violate("not-in-order", fmt.Sprintf("stored %v is not the %d-th fetched TRC", t.TRC.ID, i+1))
		}
		prev = t
	}
	missing := 0
	if id.Base == latestBefore.TRC.ID.Base && id.Serial > latestBefore.TRC.ID.Serial {
		missing = int(id.Serial - latestBefore.TRC.ID.Serial)
	}
	if err == nil && len(added) != missing {
		h.violate("success-without-all", fmt.Sprintf("NotifyTRC succeeded, %d missing TRCs, %d stored", missing, len(added)))
	}
	if len(added) < missing && allow == "ok" {
		// stopped early: exactly one more fetch than stored, and that response was unusable
		if f.calls != len(added)+1 {
			h.violate("did-not-stop", fmt.Sprintf("%d TRCs stored but %d fetches", len(added), f.calls))
		} else if r := script[len(added)]; r.err == nil {
			wire := r.l.wire
			if wire.Verify(&prev.TRC) == nil {
				h.violate("stopped-on-good-trc", fmt.Sprintf("stopped at a TRC %v that verifies against %v", wire.TRC.ID, prev.TRC.ID))
			}
		}
		if err == nil {
			h.violate("silent-stop", "NotifyTRC stopped early without error")
		}
	}
	if f.calls > missing {
		h.violate("too-many-fetches", fmt.Sprintf("%d fetches for %d missing TRCs", f.calls, missing))
	}
	for i, a := range f.asked {
		want := cppki.TRCID{ISD: id.ISD, Base: id.Base, Serial: latestBefore.TRC.ID.Serial + scrypto.Version(i+1)}
		if a != want {
			h.violate("not-in-order", fmt.Sprintf("fetch %d asked for %v, expected %v", i+1, a, want))
		}
	}
}

func joinOr(xs []string) string {
	if len(xs) == 0 {
		return "-"
	}
	return strings.Join(xs, ",")
}

var dbSeq int

func runC35(e *vlib.Env, w *world) {
	e.Rule = "histories over a real FetchingProvider + in-memory SQLite trust DB: chains of really signed TRCs (regular / " +
		"sensitive updates) of ISD 1 (several base numbers) and ISD 2; ops = LoadTRCs of a scratch directory (DER/PEM, " +
		"future validity, garbage, duplicates) and NotifyTRC with stale / current / +1..+4 / other-base / unknown-ISD ids, " +
		"recursion allowed or not, and a scripted fetcher answering each request with the right TRC, an error, or a wrong " +
		"TRC (unsigned, missing signature, duplicate vote, serial gap, other base, other ISD, stale); answer = result, " +
		"number of fetches, full DB content; statement predicate on the DB before/after; distinct by op line"
	nh := e.N(90, 1500)
	for hi := 0; hi < nh; hi++ {
		dbSeq++
		store, err := sqlite.New(fmt.Sprintf("pki1_c35_%d_%d_%d", os.Getpid(), e.Seed, dbSeq),
			&db.SqliteConfig{MaxOpenReadConns: 1, MaxIdleReadConns: 1, InMemory: true})
		if err != nil {
			panic(err)
		}
		h := &hist{w: w, e: e, db: store, known: map[int]*link{}, dir: filepath.Join(e.Out, "trcs")}
		e.Op("reset", "ok", "~reset")
		h.trail = nil
		// the true chain of ISD 1
		chain := []*link{w.baseLink(false)}
		for n := w.r.Range(2, 6); n > 0; n-- {
			chain = append(chain, w.successor(chain[len(chain)-1], "good"))
		}
		have := 0 // chain[:have] is what the store should hold by now (upper bound for generation)
		nops := w.r.Range(3, 9)
		for k := 0; k < nops; k++ {
			if k == 0 || w.r.Chance(20) {
				// ---- load
				var files []string
				var links []*link
				n := 1
				if k > 0 {
					n = w.r.Intn(3)
				} else {
					n = w.r.Range(1, 2)
				}
				for i := 0; i < n && have < len(chain); i++ {
					links, files = append(links, chain[have]), append(files, []string{"der", "pem"}[w.r.Intn(2)])
					have++
				}
				if w.r.Chance(25) {
					links, files = append(links, w.baseLink(true)), append(files, "der")
				}
				if w.r.Chance(15) {
					links, files = append(links, w.isdLink(2, 1, 1)), append(files, "der")
				}
				if w.r.Chance(15) && have > 0 {
					links, files = append(links, chain[w.r.Intn(have)]), append(files, "der") // duplicate
				}
				if w.r.Chance(10) {
					i := w.r.Intn(len(links) + 1)
					links = append(links[:i:i], append([]*link{nil}, links[i:]...)...)
					files = append(files[:i:i], append([]string{"bad"}, files[i:]...)...)
				}
				h.load(files, links)
				continue
			}
			// ---- notify
			lat, ok := h.latest(1)
			id := cppki.TRCID{ISD: 1, Base: chain[0].wire.TRC.ID.Base, Serial: chain[0].wire.TRC.ID.Serial}
			pos := 0
			if ok {
				id = lat.TRC.ID
				for i, l := range chain {
					if l.wire.TRC.ID == lat.TRC.ID {
						pos = i
					}
				}
			}
			allow := "ok"
			switch c := w.r.Intn(100); {
			case c < 8:
				id.Serial -= scrypto.Version(w.r.Intn(int(id.Serial-id.Base) + 1)) // stale or current
			case c < 14:
				id.Base += scrypto.Version(w.r.Range(1, 3)) // other base, newer
				id.Serial = id.Base + scrypto.Version(w.r.Intn(3))
			case c < 18 && id.Base > 1:
				id.Base-- // other base, older
			case c < 22:
				id.ISD = addr.ISD(w.r.Range(2, 3)) // ISD 2 (maybe loaded) or unknown ISD 3
			default:
				id.Serial += scrypto.Version(w.r.Range(1, 4))
			}
			if w.r.Chance(8) {
				allow = []string{"remote-client", "noserver"}[w.r.Intn(2)]
			}
			// script: walk the true chain from the latest position
			var script []resp
			cur := chain[min(pos, len(chain)-1)]
			for s := 0; s < 5; s++ {
				var next *link
				if pos+s+1 < len(chain) {
					next = chain[pos+s+1]
				} else {
					next = w.successor(cur, "good")
					chain = append(chain, next)
				}
				switch c := w.r.Intn(100); {
				case c < 78:
					script = append(script, resp{l: next})
				case c < 85:
					script = append(script, resp{err: errors.New("fetch failed")})
				case c < 88 && pos+s > 0:
					script = append(script, resp{l: chain[w.r.Intn(pos+s)]}) // stale TRC
				default:
					how := []string{"unsigned", "one-signature-missing", "duplicate-vote", "serial-gap", "other-base", "other-isd"}[w.r.Intn(6)]
					script = append(script, resp{l: w.successor(cur, how)})
				}
				cur = next
			}
			h.notify(id, allow, script)
			if l, ok := h.latest(1); ok {
				for i, c := range chain {
					if c.wire.TRC.ID == l.TRC.ID && i+1 > have {
						have = i + 1
					}
				}
			}
		}
		store.Close()
	}
	_ = os.RemoveAll(filepath.Join(e.Out, "trcs"))
}
