// Engine "beacon" (C25): ties lean/Scion/Model/BeaconPolicy.lean to the real beacon receipt and
// propagation code and evaluates the C25 property predicate on what the implementation stores
// and sends.
//
// Per case: a random AS (core or not) with interfaces and policies; a handful of received
// beacons (signed with real ECDSA keys via pkg/scrypto/signed, some forged) go through
// seg.BeaconFromPB (as the gRPC server does) and the real beaconing.Handler with a real
// beacon.Store/CoreStore over an in-memory DB; then the real beaconing.Propagator runs with that
// store as provider, a stub extender and a recording sender.
package main

import (
	"context"
	"crypto/ecdsa"
	"crypto/elliptic"
	"fmt"
	"net"
	"net/netip"
	"sort"
	"strings"
	"sync"
	"time"

	"github.com/scionproto/scion/control/beacon"
	"github.com/scionproto/scion/control/beaconing"
	"github.com/scionproto/scion/control/ifstate"
	"github.com/scionproto/scion/pkg/addr"
	"github.com/scionproto/scion/pkg/metrics"
	"github.com/scionproto/scion/pkg/private/prom"
	cryptopb "github.com/scionproto/scion/pkg/proto/crypto"
	"github.com/scionproto/scion/pkg/scrypto/cppki"
	"github.com/scionproto/scion/pkg/scrypto/signed"
	seg "github.com/scionproto/scion/pkg/segment"
	"github.com/scionproto/scion/pkg/snet"
	"github.com/scionproto/scion/pkg/snet/path"
	infra "github.com/scionproto/scion/private/segment/verifier"
	"github.com/scionproto/scion/private/topology"

	"verifharness/vlib"
)

// ---------------------------------------------------------------------------------------------
// keys, signer, verifier

type detRand struct{ r *vlib.Rand }

func (d detRand) Read(p []byte) (int, error) {
	copy(p, d.r.Bytes(len(p)))
	return len(p), nil
}

type keyring struct {
	mu   sync.Mutex
	keys map[addr.IA]*ecdsa.PrivateKey
}

func (k *keyring) key(ia addr.IA) *ecdsa.PrivateKey {
	k.mu.Lock()
	defer k.mu.Unlock()
	if p, ok := k.keys[ia]; ok {
		return p
	}
	p, err := ecdsa.GenerateKey(elliptic.P256(), detRand{vlib.NewRand(uint64(ia))})
	if err != nil {
		panic(err)
	}
	k.keys[ia] = p
	return p
}

var ring = &keyring{keys: map[addr.IA]*ecdsa.PrivateKey{}}
var sigTime = time.Unix(1_700_000_000, 0)

type signer struct{ ia addr.IA }

func (s signer) Sign(_ context.Context, msg []byte, ad ...[]byte) (*cryptopb.SignedMessage, error) {
	l := 0
	for _, d := range ad {
		l += len(d)
	}
	return signed.Sign(signed.Header{SignatureAlgorithm: signed.ECDSAWithSHA256, Timestamp: sigTime,
		AssociatedDataLength: l}, msg, ring.key(s.ia), ad...)
}

// verifier implements infra.Verifier: an entry verifies iff it was signed with the key of the
// AS it is bound to by WithIA.
type verifier struct {
	ia    addr.IA
	calls *int
}

func (v verifier) WithServer(net.Addr) infra.Verifier         { return v }
func (v verifier) WithIA(ia addr.IA) infra.Verifier           { v.ia = ia; return v }
func (v verifier) WithValidity(cppki.Validity) infra.Verifier { return v }
func (v verifier) Verify(_ context.Context, m *cryptopb.SignedMessage, ad ...[]byte) (*signed.Message, error) {
	*v.calls++
	return signed.Verify(m, ring.key(v.ia).Public(), ad...)
}

// ---------------------------------------------------------------------------------------------
// fakes: DB, metrics, extender, sender

type rec struct {
	b     beacon.Beacon
	usage beacon.Usage
}

type memDB struct{ recs []rec }

func (d *memDB) InsertBeacon(_ context.Context, b beacon.Beacon, u beacon.Usage) (beacon.InsertStats, error) {
	d.recs = append(d.recs, rec{b, u})
	return beacon.InsertStats{Inserted: 1}, nil
}

func (d *memDB) BeaconSources(context.Context) ([]addr.IA, error) {
	m := map[addr.IA]bool{}
	var out []addr.IA
	for _, r := range d.recs {
		if ia := r.b.Segment.FirstIA(); !m[ia] {
			m[ia] = true
			out = append(out, ia)
		}
	}
	sort.Slice(out, func(i, j int) bool { return out[i] < out[j] })
	return out, nil
}

func (d *memDB) CandidateBeacons(_ context.Context, n int, u beacon.Usage, src addr.IA) ([]beacon.Beacon, error) {
	var out []beacon.Beacon
	for _, r := range d.recs {
		if r.usage&u == 0 || (src != 0 && r.b.Segment.FirstIA() != src) {
			continue
		}
		out = append(out, r.b)
	}
	sort.SliceStable(out, func(i, j int) bool {
		return len(out[i].Segment.ASEntries) < len(out[j].Segment.ASEntries)
	})
	if len(out) > n {
		out = out[:n]
	}
	return out, nil
}

type spyCounter struct{ result *string }

func (c spyCounter) With(lv ...string) metrics.Counter {
	for i := 0; i+1 < len(lv); i += 2 {
		if lv[i] == prom.LabelResult {
			*c.result = lv[i+1]
		}
	}
	return c
}
func (c spyCounter) Add(float64) {}

type stubExtender struct {
	ia    addr.IA
	intfs map[uint16]ifstate.InterfaceInfo
}

func (x stubExtender) Extend(ctx context.Context, ps *seg.PathSegment, in, eg uint16, _ []uint16) error {
	return ps.AddASEntry(ctx, seg.ASEntry{
		Local: x.ia, Next: x.intfs[eg].IA, MTU: 1400,
		HopEntry: seg.HopEntry{HopField: seg.HopField{ExpTime: 63, ConsIngress: in, ConsEgress: eg}},
	}, signer{x.ia})
}

type sent struct {
	egress uint16
	dst    addr.IA
	seg    *seg.PathSegment
}

type recSender struct {
	mu   sync.Mutex
	sent []sent
}

type oneSender struct {
	f      *recSender
	egress uint16
	dst    addr.IA
}

func (f *recSender) NewSender(_ context.Context, dst addr.IA, eg uint16, _ *net.UDPAddr) (beaconing.Sender, error) {
	return oneSender{f, eg, dst}, nil
}
func (s oneSender) Send(_ context.Context, b *seg.PathSegment) error {
	s.f.mu.Lock()
	defer s.f.mu.Unlock()
	s.f.sent = append(s.f.sent, sent{s.egress, s.dst, b})
	return nil
}
func (s oneSender) Close() error { return nil }

// ---------------------------------------------------------------------------------------------
// generation

var isds = []addr.ISD{1, 2, 3}

func mkIA(isd addr.ISD, n int) addr.IA { return addr.MustIAFrom(isd, addr.AS(0xff00_0000_0100+n)) }

func iaStr(ia addr.IA) string { return fmt.Sprintf("%d.%d", ia.ISD(), uint64(ia.AS())) }

type filt struct {
	maxHops  int
	asBlack  []addr.AS
	isdBlack []addr.ISD
	allow    int // -1 nil, 0 false, 1 true
}

func (f filt) String() string {
	a, b := []string{}, []string{}
	for _, x := range f.asBlack {
		a = append(a, fmt.Sprint(uint64(x)))
	}
	for _, x := range f.isdBlack {
		b = append(b, fmt.Sprint(x))
	}
	j := func(s []string) string {
		if len(s) == 0 {
			return "-"
		}
		return strings.Join(s, ",")
	}
	al := map[int]string{-1: "nil", 0: "0", 1: "1"}[f.allow]
	return fmt.Sprintf("%d;%s;%s;%s", f.maxHops, al, j(a), j(b))
}

func (f filt) real() beacon.Filter {
	r := beacon.Filter{MaxHopsLength: f.maxHops, AsBlackList: f.asBlack, IsdBlackList: f.isdBlack}
	if f.allow >= 0 {
		v := f.allow == 1
		r.AllowIsdLoop = &v
	}
	return r
}

type world struct {
	r      *vlib.Rand
	nAS    int
	local  addr.IA
	core   bool
	intfs  map[uint16]ifstate.InterfaceInfo
	ifids  []uint16
	pols   []filt // core: prop, coreReg; else: prop, up, down
	propAl bool   // Propagator.AllowIsdLoop
}

func (w *world) randIA() addr.IA {
	return mkIA(isds[w.r.Intn(len(isds))], w.r.Intn(w.nAS))
}

func (w *world) randFilter() filt {
	r := w.r
	f := filt{maxHops: []int{0, 0, 2, 3, 4, 5, 7, -1}[r.Intn(8)], allow: r.Intn(3) - 1}
	if r.Chance(40) {
		for i := r.Range(1, 3); i > 0; i-- {
			f.asBlack = append(f.asBlack, w.randIA().AS())
		}
	}
	if r.Chance(30) { // 1-3 entries, in any order (block lists are not sorted in the configuration)
		for i := r.Range(1, 3); i > 0; i-- {
			f.isdBlack = append(f.isdBlack, []addr.ISD{1, 2, 3, 7, 9}[r.Intn(5)])
		}
	}
	return f
}

func newWorld(r *vlib.Rand) *world {
	w := &world{r: r, nAS: r.Range(2, 5), core: r.Bool(), intfs: map[uint16]ifstate.InterfaceInfo{}}
	w.local = w.randIA()
	// every link type value: the four named ones, Unset (missing/unknown link_to) and undefined numbers
	lts := []topology.LinkType{topology.Core, topology.Parent, topology.Child, topology.Peer, topology.Unset, topology.LinkType(5), topology.LinkType(77)}
	for i, n := 0, r.Range(2, 5); i < n; i++ {
		id := uint16(r.Range(1, 9))
		if _, ok := w.intfs[id]; ok {
			continue
		}
		ia := w.randIA()
		for ia == w.local { // a neighbour is never the local AS (topology invariant)
			ia = w.randIA()
		}
		lt := lts[r.Intn(len(lts))]
		switch len(w.ifids) { // make sure beacons can arrive and can be propagated
		case 0:
			lt = lts[r.Intn(2)]
		case 1:
			lt = topology.Child
			if w.core {
				lt = topology.Core
			}
		}
		w.intfs[id] = ifstate.InterfaceInfo{ID: id, IA: ia, LinkType: lt,
			InternalAddr: netip.MustParseAddrPort("10.0.0.1:30042"), RemoteID: 1, MTU: 1400}
		w.ifids = append(w.ifids, id)
	}
	sort.Slice(w.ifids, func(i, j int) bool { return w.ifids[i] < w.ifids[j] })
	np := 3
	if w.core {
		np = 2
	}
	for i := 0; i < np; i++ {
		w.pols = append(w.pols, w.randFilter())
	}
	if r.Chance(60) { // a permissive propagation policy, so that the propagator gets work
		w.pols[0] = filt{maxHops: 0, allow: r.Intn(3) - 1}
	}
	w.propAl = r.Bool()
	return w
}

type rbeacon struct {
	inIf    uint16
	entries [][2]addr.IA // Local, Next
	forged  bool
	seg     *seg.PathSegment
}

// genBeacon builds a received beacon: mostly a consistent chain ending at (neighbour -> local).
func (w *world) genBeacon(segID uint16) rbeacon {
	r := w.r
	var b rbeacon
	b.inIf = w.ifids[r.Intn(len(w.ifids))]
	if r.Chance(60) { // prefer links beacons are accepted on
		for _, id := range w.ifids {
			if lt := w.intfs[id].LinkType; (lt == topology.Parent || lt == topology.Core) && r.Chance(60) {
				b.inIf = id
				break
			}
		}
	}
	if r.Chance(5) {
		b.inIf = 99 // no such interface
	}
	nb := w.intfs[b.inIf].IA
	if b.inIf == 99 {
		nb = w.randIA()
	}
	n := r.Range(1, 6)
	ias := make([]addr.IA, n+1)
	for i := range ias {
		ias[i] = w.randIA()
		if r.Chance(60) && i > 0 { // avoid most accidental AS loops
			for tries := 0; tries < 4; tries++ {
				dup := false
				for j := 0; j < i; j++ {
					dup = dup || ias[j] == ias[i]
				}
				if !dup {
					break
				}
				ias[i] = w.randIA()
			}
		}
	}
	ias[n-1], ias[n] = nb, w.local
	if r.Chance(8) {
		ias[n-1] = w.randIA() // last entry is (probably) not the neighbour
	}
	if r.Chance(8) {
		ias[n] = w.randIA() // next hop is (probably) not the local AS
	}
	ps, err := seg.CreateSegment(sigTime, segID)
	if err != nil {
		panic(err)
	}
	forgeAt, wrongKeyAt := -1, -1
	switch r.Intn(10) {
	case 0:
		forgeAt = r.Intn(n)
	case 1:
		wrongKeyAt = r.Intn(n)
	}
	for i := 0; i < n; i++ {
		next := ias[i+1]
		if r.Chance(2) {
			next = w.randIA() // inconsistent chain: rejected by BeaconFromPB (unless it hit the same IA)
		}
		e := seg.ASEntry{Local: ias[i], Next: next, MTU: 1400,
			HopEntry: seg.HopEntry{HopField: seg.HopField{ExpTime: 63, ConsIngress: uint16(i), ConsEgress: uint16(i + 1)}}}
		if i > 0 {
			e.HopEntry.HopField.ConsIngress = uint16(10 + i)
		}
		by := e.Local
		if i == wrongKeyAt {
			by = mkIA(9, 9) // signed by somebody else
			b.forged = true
		}
		if err := ps.AddASEntry(context.Background(), e, signer{by}); err != nil {
			panic(err)
		}
		b.entries = append(b.entries, [2]addr.IA{e.Local, e.Next})
	}
	if forgeAt >= 0 {
		s := ps.ASEntries[forgeAt].Signed.Signature
		s[len(s)-1] ^= 0x01
		s[len(s)/2] ^= 0x80
		b.forged = true
	}
	b.seg = ps
	return b
}

// ---------------------------------------------------------------------------------------------
// independent specification (written from the statement of C25)

func specAsLoop(h []addr.IA) bool {
	for i := range h {
		for j := 0; j < i; j++ {
			if h[i] == h[j] {
				return true
			}
		}
	}
	return false
}

// ISD loop as filterIsdLoop defines it (DESIGN §7a): an ISD re-entered after having been left.
func specIsdLoop(h []addr.IA) bool {
	var runs []addr.ISD
	for _, ia := range h {
		if len(runs) == 0 || runs[len(runs)-1] != ia.ISD() {
			runs = append(runs, ia.ISD())
		}
	}
	for i := range runs {
		for j := 0; j < i; j++ {
			if runs[i] == runs[j] {
				return true
			}
		}
	}
	return false
}

// specViolatesPolicy: the reasons the statement names for a stored beacon to be inadmissible
// under a policy (length, blocked AS, blocked ISD).
func specViolatesPolicy(f filt, hops []addr.IA) string {
	mh := f.maxHops
	if mh == 0 {
		mh = beacon.DefaultMaxHopsLength
	}
	if len(hops) > mh {
		return "exceeds the policy's maximum length"
	}
	for _, ia := range hops {
		for _, a := range f.asBlack {
			if ia.AS() == a {
				return "contains a blocked AS"
			}
		}
		for _, i := range f.isdBlack {
			if ia.ISD() == i {
				return "contains a blocked ISD"
			}
		}
	}
	return ""
}

func specAccepts(f filt, hops []addr.IA) bool {
	if specViolatesPolicy(f, hops) != "" || specAsLoop(hops) {
		return false
	}
	if f.allow == 0 && specIsdLoop(hops) {
		return false
	}
	return true
}

// ---------------------------------------------------------------------------------------------

func ltName(l topology.LinkType) string {
	switch l {
	case topology.Core:
		return "core"
	case topology.Parent:
		return "parent"
	case topology.Child:
		return "child"
	case topology.Peer:
		return "peer"
	case topology.Unset:
		return "unset"
	}
	return fmt.Sprintf("other%d", int(l))
}

func hopsOf(ps *seg.PathSegment) []addr.IA {
	var h []addr.IA
	for _, e := range ps.ASEntries {
		h = append(h, e.Local)
	}
	return h
}

func hopsStr(h []addr.IA) string {
	p := make([]string, len(h))
	for i, x := range h {
		p[i] = iaStr(x)
	}
	return strings.Join(p, " ")
}

func main() {
	e := vlib.Init()
	e.Rule = "random AS (core/non-core, 2-5 interfaces of every link type value (core, parent, child, peer, unset, undefined numbers), 2-3 policies with max length 0(default)/2..7/-1, " +
		"AS/ISD block lists, AllowIsdLoop nil/true/false) over 3 ISDs x 2-5 ASes; per AS 5 received beacons (1-6 entries, " +
		"mostly ending at neighbour->local, 8% wrong neighbour, 8% wrong next, 10% forged signature, 10% signed by another key, " +
		"5% unknown interface) through BeaconFromPB + real Handler + real Store/CoreStore; then real Propagator.Run over the stored " +
		"beacons on all propagation interfaces; direct Filter.Apply/FilterLoop lines on random hop lists incl. wildcard IAs; " +
		"non-trivial = beacon reached validateASEntry, or propagation decision on a stored beacon"
	ctx := context.Background()
	ncase := e.N(2500, 40000)
	polTags := func(core bool) []string {
		if core {
			return []string{"prop", "core"}
		}
		return []string{"prop", "up", "down"}
	}
	usageBit := map[string]beacon.Usage{"prop": beacon.UsageProp, "up": beacon.UsageUpReg,
		"down": beacon.UsageDownReg, "core": beacon.UsageCoreReg}
	storedWithLocal := 0
	for ci := 0; ci < ncase; ci++ {
		r := vlib.CaseRand(e.Seed, ci)
		w := newWorld(r)
		if len(w.ifids) == 0 {
			continue
		}
		db := &memDB{}
		tags := polTags(w.core)
		var inserter beaconing.BeaconInserter
		var provider beaconing.BeaconProvider
		mkPol := func(i int) beacon.Policy { return beacon.Policy{Filter: w.pols[i].real()} }
		if w.core {
			s, err := beacon.NewCoreBeaconStore(beacon.CorePolicies{Prop: mkPol(0), CoreReg: mkPol(1)}, db)
			if err != nil {
				panic(err)
			}
			inserter, provider = s, s
		} else {
			s, err := beacon.NewBeaconStore(beacon.Policies{Prop: mkPol(0), UpReg: mkPol(1), DownReg: mkPol(2)}, db)
			if err != nil {
				panic(err)
			}
			inserter, provider = s, s
		}
		intfs := ifstate.NewInterfaces(w.intfs, ifstate.Config{})
		var result string
		var vcalls int
		h := beaconing.Handler{LocalIA: w.local, Inserter: inserter, Verifier: verifier{calls: &vcalls},
			Interfaces: intfs, BeaconsHandled: spyCounter{&result}}
		polWords := make([]string, len(w.pols))
		for i, p := range w.pols {
			polWords[i] = tags[i] + ";" + p.String()
		}
		// ---- receipt
		for bi := 0; bi < 5; bi++ {
			rb := w.genBeacon(uint16(bi + 1))
			ps, err := seg.BeaconFromPB(seg.PathSegmentToPB(rb.seg))
			if err != nil {
				e.Case("", "~undecodable", true)
				continue
			}
			result, vcalls = "", 0
			before := len(db.recs)
			peer := &snet.UDPAddr{IA: w.intfs[rb.inIf].IA, Path: path.SCION{}}
			var herr error
			out, ok := vlib.Safe(func() string {
				herr = h.HandleBeacon(ctx, beacon.Beacon{Segment: ps, InIfID: rb.inIf}, peer)
				return ""
			})
			stored := len(db.recs) > before
			switch {
			case !ok:
				out = "panic"
			case stored:
				out = fmt.Sprintf("stored %d", int(db.recs[len(db.recs)-1].usage))
			case herr == nil && result == "ok_filtered":
				out = "filtered"
			case herr != nil && result == prom.ErrNotClassified:
				out = "noif"
			case herr != nil && result == "err_prefilter":
				out = "prefiltered"
			case herr != nil && result == prom.ErrVerify && vcalls == 0:
				out = "invalid"
			case herr != nil && result == prom.ErrVerify:
				out = "unverified"
			default:
				out = fmt.Sprintf("other/%s/%v", result, herr != nil)
			}
			ifw := "-"
			info, known := w.intfs[rb.inIf]
			if known {
				ifw = ltName(info.LinkType) + ":" + iaStr(info.IA)
			}
			ents := make([]string, len(rb.entries))
			for i, en := range rb.entries {
				ents[i] = iaStr(en[0]) + ">" + iaStr(en[1])
			}
			sig := 1
			if rb.forged {
				sig = 0
			}
			op := fmt.Sprintf("hb %s %s %d %d %s %s", iaStr(w.local), ifw, sig, len(polWords),
				strings.Join(polWords, " "), strings.Join(ents, " "))
			tag := strings.Fields(out)[0]
			if tag == "noif" || tag == "prefiltered" {
				tag = "~" + tag
			}
			e.Op(op, out, tag)
			replay := map[string]any{"local": w.local.String(), "core": w.core, "ingress_if": ifw,
				"policies": polWords, "entries": ents, "signatures_valid": !rb.forged, "outcome": out}
			if ci < 2 {
				e.Sample(replay)
			}
			if !ok {
				e.Violate("C25/handler-panic", "HandleBeacon panicked", replay)
				continue
			}
			if !stored {
				continue
			}
			// ---- the statement, clause by clause, on what the implementation stored
			u := db.recs[len(db.recs)-1].usage
			hops := hopsOf(ps)
			last := rb.entries[len(rb.entries)-1]
			switch {
			case !known:
				e.Violate("C25/stored-unknown-interface", "beacon stored although it arrived on no known interface", replay)
			case info.LinkType != topology.Parent && info.LinkType != topology.Core:
				e.Violate("C25/stored-wrong-link-type", "beacon stored although it arrived on a "+ltName(info.LinkType)+" link", replay)
			case last[0] != info.IA:
				e.Violate("C25/stored-wrong-neighbour", "beacon stored although its last AS entry is not the neighbour of the ingress interface", replay)
			case last[1] != w.local:
				e.Violate("C25/stored-wrong-next", "beacon stored although its last AS entry does not name the local AS as next hop", replay)
			case rb.forged:
				e.Violate("C25/stored-bad-signature", "beacon stored although not all signatures verify", replay)
			}
			if u == 0 {
				e.Violate("C25/stored-no-usage", "beacon stored without any accepting policy", replay)
			}
			var want beacon.Usage
			for i, p := range w.pols {
				if specAccepts(p, hops) {
					want |= usageBit[tags[i]]
				}
				if u&usageBit[tags[i]] != 0 {
					if why := specViolatesPolicy(p, hops); why != "" {
						e.Violate("C25/stored-against-filter", "beacon stored with usage "+tags[i]+" although it "+why, replay)
					}
				}
			}
			if u != want {
				e.Violate("C25/stored-usage-mismatch", fmt.Sprintf("stored with usage %d, accepting policies give %d", int(u), int(want)), replay)
			}
			for _, ia := range hops {
				if ia == w.local {
					storedWithLocal++
					if _, ok := e.Extra["example_stored_beacon_containing_local_as"]; !ok {
						e.Extra["example_stored_beacon_containing_local_as"] = replay
					}
					break
				}
			}
		}
		// ---- propagation
		cands, err := provider.BeaconsToPropagate(ctx)
		if err != nil {
			panic(err)
		}
		if len(cands) == 0 {
			continue
		}
		wantLT := topology.Child
		if w.core {
			wantLT = topology.Core
		}
		propIntfs := func() []*ifstate.Interface {
			return intfs.Filtered(func(i *ifstate.Interface) bool { return i.TopoInfo().LinkType == wantLT })
		}
		if len(propIntfs()) == 0 {
			continue
		}
		snd := &recSender{}
		p := &beaconing.Propagator{Extender: stubExtender{w.local, w.intfs}, SenderFactory: snd, Provider: provider,
			IA: w.local, AllInterfaces: intfs, PropagationInterfaces: propIntfs, AllowIsdLoop: w.propAl,
			Tick: beaconing.NewTick(time.Hour)}
		if _, ok := vlib.Safe(func() string { p.Run(ctx); return "" }); !ok {
			e.Violate("C25/propagator-panic", "Propagator.Run panicked", map[string]any{"local": w.local.String()})
			continue
		}
		sentOn := map[string]*seg.PathSegment{}
		for _, s := range snd.sent {
			sentOn[fmt.Sprintf("%d/%d", s.egress, s.seg.Info.SegmentID)] = s.seg
		}
		for _, pi := range propIntfs() {
			ti := pi.TopoInfo()
			for _, c := range cands {
				hops := hopsOf(c.Segment)
				ps, wasSent := sentOn[fmt.Sprintf("%d/%d", ti.ID, c.Segment.Info.SegmentID)]
				out := "ignore"
				if wasSent {
					out = "send"
				}
				al := 0
				if w.propAl {
					al = 1
				}
				op := fmt.Sprintf("pr %s %d %s %s", iaStr(w.local), al, iaStr(ti.IA), hopsStr(hops))
				e.Op(op, out, "prop-"+out)
				if !wasSent {
					continue
				}
				// the beacon as sent: its entries (now ending with the local AS) followed by the
				// neighbour behind the egress interface
				full := append(hopsOf(ps), ti.IA)
				replay := map[string]any{"local": w.local.String(), "egress_if": ti.ID, "neighbour": ti.IA.String(),
					"allow_isd_loop": w.propAl, "stored_beacon_hops": hopsStr(hops), "path_after_propagation": hopsStr(full)}
				if specAsLoop(full) {
					key := "C25/propagated-as-loop"
					for _, ia := range hops {
						if ia == w.local {
							key = "C25/propagated-as-loop-local-as"
						}
					}
					e.Violate(key, "beacon propagated over an interface where it creates an AS loop", replay)
				} else if !w.propAl && specIsdLoop(full) {
					key := "C25/propagated-isd-loop"
					if !specIsdLoop(append(append([]addr.IA{}, hops...), ti.IA)) {
						key = "C25/propagated-isd-loop-via-local-isd"
					}
					e.Violate(key, "ISD loops are disallowed, yet a beacon was propagated over an interface where it creates an ISD loop", replay)
				}
			}
		}
	}
	// ---- direct lines for the filter functions (incl. wildcard IAs and next = 0-0)
	r := vlib.NewRand(uint64(e.Seed) + 77)
	nf := e.N(15000, 200000)
	for i := 0; i < nf; i++ {
		w := &world{r: r, nAS: r.Range(1, 4)}
		n := r.Intn(7)
		hops := make([]addr.IA, n)
		for j := range hops {
			hops[j] = w.randIA()
			if r.Chance(4) {
				hops[j] = addr.IA(0)
			} else if r.Chance(3) {
				hops[j] = addr.MustIAFrom(0, hops[j].AS())
			}
		}
		ps := &seg.PathSegment{}
		for _, hp := range hops {
			ps.ASEntries = append(ps.ASEntries, seg.ASEntry{Local: hp})
		}
		b := beacon.Beacon{Segment: ps}
		if r.Bool() {
			f := w.randFilter()
			if f.allow < 0 {
				f.allow = 1
			}
			if f.maxHops == 0 && r.Bool() {
				f.maxHops = 6
			}
			acc := beacon.Filter.Apply(f.real(), b) == nil
			e.Op(fmt.Sprintf("fa %s %s", f.String(), hopsStr(hops)), map[bool]string{true: "accept", false: "reject"}[acc],
				map[bool]string{true: "fa-accept", false: "fa-reject"}[acc])
		} else {
			next := w.randIA()
			if r.Chance(15) {
				next = 0
			}
			allow := r.Bool()
			loop := beacon.FilterLoop(b, next, allow) != nil
			e.Op(fmt.Sprintf("fl %d %s %s", map[bool]int{true: 1, false: 0}[allow], iaStr(next), hopsStr(hops)),
				map[bool]string{true: "loop", false: "ok"}[loop], map[bool]string{true: "fl-loop", false: "fl-ok"}[loop])
		}
	}
	e.Extra["stored_beacons_containing_local_as"] = storedWithLocal
	e.Finish()
}
