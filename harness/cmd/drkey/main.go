// Engine "drkey" (C39): ties lean/Scion/Model/Drkey.lean to pkg/drkey (specific / generic
// derivers, DeriveKey, DeriveSV), control/drkey (ServiceEngine, secret value backend) and
// private/drkey/drkeyutil (FakeProvider.GetKeyWithinAcceptanceWindow), and evaluates the C39
// property predicate directly on the implementation:
//
//   - service-vs-host: the key the control service hands out equals the key a host derives itself
//     from the matching secret value (protocol-specific) or level-1 / host-AS key (generic);
//   - doc-derivation: both equal the derivation documented in doc/cryptography/drkey.rst, computed
//     here with crypto/aes and an input builder written from that document;
//   - domain-separation: under one parent key, different (key type, protocol, host address) give
//     different keys (AES is a permutation, so equal keys would mean equal inputs);
//   - window-epoch: a key selected by GetKeyWithinAcceptanceWindow belongs to an epoch whose
//     validity plus grace period contains the timestamp's absolute time (and that time lies in the
//     acceptance window).
package main

import (
	"bytes"
	"context"
	"crypto/aes"
	"crypto/sha256"
	"crypto/tls"
	"crypto/x509"
	"encoding/binary"
	"fmt"
	"math/big"
	"net"
	"net/netip"
	"os"
	"time"

	"golang.org/x/crypto/pbkdf2"
	"google.golang.org/grpc/credentials"
	"google.golang.org/grpc/peer"

	csdrkey "github.com/scionproto/scion/control/drkey"
	dkgrpc "github.com/scionproto/scion/control/drkey/grpc"
	"github.com/scionproto/scion/pkg/addr"
	"github.com/scionproto/scion/pkg/drkey"
	"github.com/scionproto/scion/pkg/drkey/generic"
	"github.com/scionproto/scion/pkg/drkey/specific"
	"github.com/scionproto/scion/pkg/slayers"
	"github.com/scionproto/scion/pkg/spao"
	"github.com/scionproto/scion/private/drkey/drkeyutil"
	"github.com/scionproto/scion/private/storage/db"
	l1sqlite "github.com/scionproto/scion/private/storage/drkey/level1/sqlite"
	svsqlite "github.com/scionproto/scion/private/storage/drkey/secret/sqlite"

	"verifharness/vlib"
)

// ---------------------------------------------------------------------------------------------
// reference derivation written from doc/cryptography/drkey.rst (independent of pkg/drkey)

// refHost is a host address as it appears in the SCION address header: DT/DL nibble + bytes.
type refHost struct {
	typ byte
	raw []byte
}

// refParseHost maps the textual host of a request to its SCION address-header form, using only
// net/netip and the service-address table of the SCION header specification.
func refParseHost(s string) (refHost, bool) {
	svcs := map[string]uint16{"DS": 1, "CS": 2, "Wildcard": 0x10}
	base, m := s, uint16(0)
	switch {
	case len(s) > 2 && s[len(s)-2:] == "_A":
		base = s[:len(s)-2]
	case len(s) > 2 && s[len(s)-2:] == "_M":
		base, m = s[:len(s)-2], 0x8000
	}
	if v, ok := svcs[base]; ok {
		raw := make([]byte, 4)
		binary.BigEndian.PutUint16(raw, v|m)
		return refHost{typ: 0x4, raw: raw}, true // DT=1 (service), DL=0 (4 bytes)
	}
	ip, err := netip.ParseAddr(s)
	if err != nil {
		return refHost{}, false
	}
	ip = ip.Unmap()
	if ip.Is4() {
		return refHost{typ: 0x0, raw: ip.AsSlice()}, true // DT=0, DL=0
	}
	return refHost{typ: 0x3, raw: ip.AsSlice()}, true // DT=0, DL=3 (16 bytes)
}

// refPRF is AES-CBC-MAC with a zero IV over the input padded with zeros to whole blocks.
func refPRF(key []byte, fields ...[]byte) []byte {
	var in []byte
	for _, f := range fields {
		in = append(in, f...)
	}
	for len(in)%16 != 0 {
		in = append(in, 0)
	}
	blk, err := aes.NewCipher(key)
	if err != nil {
		panic(err)
	}
	x := make([]byte, 16)
	for i := 0; i < len(in); i += 16 {
		for j := 0; j < 16; j++ {
			x[j] ^= in[i+j]
		}
		blk.Encrypt(x, x)
	}
	return x
}

func be16(v uint16) []byte { b := make([]byte, 2); binary.BigEndian.PutUint16(b, v); return b }
func be64(v uint64) []byte { b := make([]byte, 8); binary.BigEndian.PutUint64(b, v); return b }

// key types of the documentation: AS-AS, AS-host, host-AS, host-host
const (
	refAsAs, refAsHost, refHostAS, refHostHost = 0, 1, 2, 3
)

func refLevel1(sv []byte, dst uint64) []byte { return refPRF(sv, []byte{refAsAs}, be64(dst)) }

// refLevel2 is K_{A,B:H}^{p} or K_{A:H,B}^{p}: protocol-specific when the protocol has its own
// secret value hierarchy, otherwise generic (protocol in the input, generic level-1 key).
func refLevel2(l1 []byte, kt byte, specificProto bool, proto uint16, h refHost) []byte {
	if specificProto {
		return refPRF(l1, []byte{kt}, []byte{h.typ}, h.raw)
	}
	return refPRF(l1, []byte{kt}, be16(proto), []byte{h.typ}, h.raw)
}

func refLevel3(hostAS []byte, h refHost) []byte {
	return refPRF(hostAS, []byte{refHostHost}, []byte{h.typ}, h.raw)
}

func refSV(secret []byte, proto uint16, begin, end uint32) []byte {
	in := be64(uint64(len(secret)))
	in = append(in, secret...)
	in = append(in, be16(proto)...)
	in = binary.BigEndian.AppendUint32(in, begin)
	in = binary.BigEndian.AppendUint32(in, end)
	return pbkdf2.Key(in, []byte("Derive DRKey Key"), 1000, 16, sha256.New)
}

// ---------------------------------------------------------------------------------------------
// a small internet of control services

type nullSVDB struct{}

func (nullSVDB) GetValue(context.Context, drkey.SecretValueMeta, []byte) (drkey.SecretValue, error) {
	return drkey.SecretValue{}, drkey.ErrKeyNotFound
}
func (nullSVDB) InsertValue(context.Context, drkey.Protocol, drkey.Epoch) error { return nil }
func (nullSVDB) DeleteExpiredValues(context.Context, time.Time) (int, error)    { return 0, nil }
func (nullSVDB) Close() error                                                   { return nil }

type certIA struct{ ia addr.IA }

func (c certIA) VerifyParsedClientCertificate([]*x509.Certificate) (addr.IA, error) {
	return c.ia, nil
}

type cs struct {
	ia     addr.IA
	secret []byte
	dur    int64 // seconds
	eng    *csdrkey.ServiceEngine
	net    map[addr.IA]*cs
}

// Level1 implements control/drkey.Fetcher: the request goes through the remote service's real
// DRKeyLevel1 handler, authenticated as the requesting AS.
func (c *cs) Level1(ctx context.Context, meta drkey.Level1Meta) (drkey.Level1Key, error) {
	remote, ok := c.net[meta.SrcIA]
	if !ok {
		return drkey.Level1Key{}, fmt.Errorf("no such AS")
	}
	srv := &dkgrpc.Server{LocalIA: remote.ia, ClientCertificateVerifier: certIA{c.ia}, Engine: remote.eng}
	pctx := peer.NewContext(ctx, &peer.Peer{
		Addr: &net.UDPAddr{IP: net.IPv4(10, 0, 0, 1), Port: 30252},
		AuthInfo: credentials.TLSInfo{State: tls.ConnectionState{
			PeerCertificates: []*x509.Certificate{{}}}},
	})
	rep, err := srv.DRKeyLevel1(pctx, dkgrpc.Level1MetaToProtoRequest(meta))
	if err != nil {
		return drkey.Level1Key{}, err
	}
	return dkgrpc.GetLevel1KeyFromReply(meta, rep)
}

var dbSeq int

func newCS(ia addr.IA, secret []byte, dur int64, world map[addr.IA]*cs) *cs {
	dbSeq++
	svdb, err := svsqlite.NewBackend(fmt.Sprintf("drkeysv%d_%d", os.Getpid(), dbSeq),
		&db.SqliteConfig{InMemory: true})
	if err != nil {
		panic(err)
	}
	l1db, err := l1sqlite.NewBackend(fmt.Sprintf("drkeyl1%d_%d", os.Getpid(), dbSeq),
		&db.SqliteConfig{InMemory: true})
	if err != nil {
		panic(err)
	}
	arc, err := csdrkey.NewLevel1ARC(16)
	if err != nil {
		panic(err)
	}
	c := &cs{ia: ia, secret: secret, dur: dur, net: world}
	c.eng = &csdrkey.ServiceEngine{
		SecretBackend:  csdrkey.NewSecretValueBackend(svdb, secret, time.Duration(dur)*time.Second),
		LocalIA:        ia,
		DB:             l1db,
		Fetcher:        c,
		PrefetchKeeper: arc,
	}
	world[ia] = c
	return c
}

// ---------------------------------------------------------------------------------------------
// host strings

type hostCase struct {
	s   string
	abs string // "<typ>:<rawhex>" or "x": addr.ParseHost + slayers.PackAddr (the model's input form)
}

func absHost(s string) string {
	h, err := addr.ParseHost(s)
	if err != nil {
		return "x"
	}
	typ, raw, err := slayers.PackAddr(h)
	if err != nil {
		return "x"
	}
	return fmt.Sprintf("%d:%s", int(typ), vlib.Hex(raw))
}

func genHost(r *vlib.Rand) hostCase {
	var s string
	switch k := r.Intn(100); {
	case k < 30:
		s = netip.AddrFrom4([4]byte(r.Bytes(4))).String()
	case k < 38: // IPv4 addresses that look like service addresses or carry zero halves
		b := []byte{0, byte([]int{1, 2, 0x10}[r.Intn(3)]), 0, 0}
		if r.Bool() {
			b[0] = 0x80
		}
		if r.Chance(30) {
			b = []byte{byte(r.Intn(256)), 0, byte(r.Intn(256)), byte(r.Intn(256))}
		}
		s = netip.AddrFrom4([4]byte(b)).String()
	case k < 60:
		s = netip.AddrFrom16([16]byte(r.Bytes(16))).String()
	case k < 66: // sparse IPv6
		b := make([]byte, 16)
		b[r.Intn(16)] = byte(r.Range(1, 255))
		b[r.Intn(16)] = byte(r.Range(1, 255))
		s = netip.AddrFrom16([16]byte(b)).String()
	case k < 72: // IPv4-mapped IPv6: the same host as the IPv4 address
		s = "::ffff:" + netip.AddrFrom4([4]byte(r.Bytes(4))).String()
	case k < 75:
		s = "fe80::" + fmt.Sprintf("%x", r.Range(1, 0xffff)) + "%eth" + fmt.Sprint(r.Intn(3))
	case k < 92:
		s = []string{"CS", "DS", "Wildcard", "CS_M", "DS_M", "Wildcard_M", "CS_A", "DS_A", "Wildcard_A"}[r.Intn(9)]
	default:
		s = []string{"", "abc", "1.2.3", "1.2.3.4.5", "CS_X", "cs", "1.2.3.4/24", "[::1]", "BS", "::g", "_M"}[r.Intn(11)]
	}
	return hostCase{s: s, abs: absHost(s)}
}

func keyStr(k drkey.Key, err error) string {
	if err != nil {
		return "err badhost"
	}
	return "ok " + vlib.Hex(k[:])
}

// ---------------------------------------------------------------------------------------------

func bad(e *vlib.Env, key, what string, replay map[string]any) { e.Violate("C39/"+key, what, replay) }

func main() {
	e := vlib.Init()
	r := vlib.NewRand(uint64(e.Seed))
	e.Rule = "aes/cbc: random keys and blocks against crypto/aes and drkey.DeriveKey; l1/d: every deriver " +
		"method of pkg/drkey/specific and generic on random parent keys, protocols and host strings " +
		"(IPv4, IPv6, IPv4-mapped, zoned, service, malformed; service-like IPv4 values); svc: real " +
		"ServiceEngine instances of 6 ASes (sqlite secret-value and level-1 stores, level-1 fetch through " +
		"the remote DRKeyLevel1 handler) asked for AS-host / host-AS / host-host keys, local and remote " +
		"source, predefined and niche protocols; ep: epoch of the secret value for arbitrary times and " +
		"durations; win: GetKeyWithinAcceptanceWindow around every boundary of the acceptance window and " +
		"of epoch end + grace, for the previous/current/next epoch; non-trivial = a key was produced"
	ctx := context.Background()

	// --- AES self test and DeriveKey
	for i := 0; i < e.N(300, 3000); i++ {
		k, b := r.Bytes(16), r.Bytes(16)
		blk, _ := aes.NewCipher(k)
		out := make([]byte, 16)
		blk.Encrypt(out, b)
		e.Op("aes "+vlib.Hex(k)+" "+vlib.Hex(b), vlib.Hex(out), "aes")
	}
	for i := 0; i < e.N(300, 3000); i++ {
		var k drkey.Key
		copy(k[:], r.Bytes(16))
		in := r.Bytes(16 * r.Range(1, 3))
		op := "cbc " + vlib.Hex(k[:]) + " " + vlib.Hex(in)
		out, err := drkey.DeriveKey(append([]byte(nil), in...), k)
		e.Op(op, keyStr(out, err)[3:], "cbc")
		if !bytes.Equal(out[:], refPRF(k[:], in)) {
			bad(e, "doc-derivation", "DeriveKey is not AES-CBC-MAC with zero IV", map[string]any{"key": vlib.Hex(k[:]), "input": vlib.Hex(in)})
		}
	}

	// --- derivers directly (what a host runs), with the documentation as reference
	protoPool := func() uint16 {
		switch r.Intn(10) {
		case 0, 1, 2:
			return 1
		case 3:
			return 0
		case 4:
			return uint16(r.Range(2, 5))
		case 5:
			return uint16(0x100 * r.Range(0, 255)) // low byte zero
		default:
			return uint16(r.U64())
		}
	}
	nDer := e.N(6000, 100000)
	for i := 0; i < nDer; i++ {
		var k drkey.Key
		copy(k[:], r.Bytes(16))
		if i%7 == 0 {
			ia := r.U64()
			if r.Chance(20) {
				ia = []uint64{0, 1, 1 << 48, 0xffffffffffffffff, 0xff00_0000_0110 | 1<<48}[r.Intn(5)]
			}
			out, err := specific.Deriver{}.DeriveLevel1(addr.IA(ia), k)
			e.Op(fmt.Sprintf("l1 %s %d", vlib.Hex(k[:]), ia), keyStr(out, err)[3:], "l1")
			if !bytes.Equal(out[:], refLevel1(k[:], ia)) {
				bad(e, "doc-derivation", "level-1 key differs from PRF_SV(type||B)", map[string]any{"sv": vlib.Hex(k[:]), "dstIA": ia})
			}
			continue
		}
		h := genHost(r)
		proto := protoPool()
		flav := []string{"s", "g"}[r.Intn(2)]
		kind := []string{"ah", "ha", "hh"}[r.Intn(3)]
		var out drkey.Key
		var err error
		switch flav + kind {
		case "sah":
			out, err = specific.Deriver{}.DeriveASHost(h.s, k)
		case "sha":
			out, err = specific.Deriver{}.DeriveHostAS(h.s, k)
		case "shh":
			out, err = specific.Deriver{}.DeriveHostHost(h.s, k)
		case "gah":
			out, err = generic.Deriver{Proto: drkey.Protocol(proto)}.DeriveASHost(h.s, k)
		case "gha":
			out, err = generic.Deriver{Proto: drkey.Protocol(proto)}.DeriveHostAS(h.s, k)
		case "ghh":
			out, err = generic.Deriver{Proto: drkey.Protocol(proto)}.DeriveHostHost(h.s, k)
		}
		tag := "d/" + flav + kind
		if err != nil {
			tag = "~d/badhost"
		} else {
			tag += "/t" + h.abs[:1]
		}
		e.Op(fmt.Sprintf("d %s %s %d %s %s", flav, kind, proto, h.abs, vlib.Hex(k[:])), keyStr(out, err), tag)
		rh, ok := refParseHost(h.s)
		if ok != (err == nil) {
			bad(e, "doc-derivation", "host string accepted/rejected unexpectedly", map[string]any{"host": h.s})
		} else if ok {
			var want []byte
			switch kind {
			case "ah":
				want = refLevel2(k[:], refAsHost, flav == "s", proto, rh)
			case "ha":
				want = refLevel2(k[:], refHostAS, flav == "s", proto, rh)
			default:
				want = refLevel3(k[:], rh)
			}
			if !bytes.Equal(want, out[:]) {
				bad(e, "doc-derivation", "derived key differs from the documented derivation",
					map[string]any{"deriver": flav, "kind": kind, "proto": proto, "host": h.s, "key": vlib.Hex(k[:])})
			}
		}
	}

	// --- domain separation on the implementation: one parent key, many distinct requests
	for b := 0; b < e.N(60, 600); b++ {
		var k drkey.Key
		copy(k[:], r.Bytes(16))
		seen := map[string]string{}
		add := func(desc string, out drkey.Key, err error) {
			if err != nil {
				return
			}
			hx := vlib.Hex(out[:])
			if prev, ok := seen[hx]; ok && prev != desc {
				bad(e, "domain-separation", "two different derivations under one key coincide",
					map[string]any{"parent": vlib.Hex(k[:]), "a": prev, "b": desc})
			}
			seen[hx] = desc
		}
		proto := drkey.Protocol(r.Range(2, 0xffff))
		for j := 0; j < 40; j++ {
			h := genHost(r)
			rh, ok := refParseHost(h.s)
			if !ok {
				continue
			}
			id := fmt.Sprintf("%d:%x", rh.typ, rh.raw)
			o, err := specific.Deriver{}.DeriveASHost(h.s, k)
			add("specific/as-host/"+id, o, err)
			o, err = specific.Deriver{}.DeriveHostAS(h.s, k)
			add("specific/host-as/"+id, o, err)
			o, err = specific.Deriver{}.DeriveHostHost(h.s, k)
			add("host-host/"+id, o, err)
			o, err = generic.Deriver{Proto: proto}.DeriveASHost(h.s, k)
			add(fmt.Sprintf("generic/%d/as-host/%s", proto, id), o, err)
			o, err = generic.Deriver{Proto: proto}.DeriveHostAS(h.s, k)
			add(fmt.Sprintf("generic/%d/host-as/%s", proto, id), o, err)
			p2 := drkey.Protocol(r.Range(2, 0xffff))
			o, err = generic.Deriver{Proto: p2}.DeriveASHost(h.s, k)
			add(fmt.Sprintf("generic/%d/as-host/%s", p2, id), o, err)
		}
		ia := r.U64()
		o, err := specific.Deriver{}.DeriveLevel1(addr.IA(ia), k)
		add(fmt.Sprintf("level1/%d", ia), o, err)
		o, err = specific.Deriver{}.DeriveLevel1(addr.IA(ia^1), k)
		add(fmt.Sprintf("level1/%d", ia^1), o, err)
		e.Case(fmt.Sprintf("sep/%d/%d", e.Seed, b), "sep", false)
	}

	// --- the control service
	world := map[addr.IA]*cs{}
	var ias []addr.IA
	durs := []int64{3600, 86400, 1, 7, 600, 86400 * 3}
	for i := 0; i < 6; i++ {
		ia := addr.IA(r.U64())
		if i == 0 {
			ia = addr.MustParseIA("1-ff00:0:110")
		}
		ias = append(ias, ia)
		newCS(ia, r.Bytes(r.Range(1, 40)), durs[i], world)
	}
	svCache := map[string]drkey.SecretValue{}
	svOf := func(c *cs, proto drkey.Protocol, val time.Time) drkey.SecretValue {
		// the secret value a host of c's AS is handed for (proto, val): ServiceEngine.GetSecretValue
		idx := val.Unix() / c.dur
		key := fmt.Sprintf("%d/%d/%d", c.ia, proto, idx)
		if sv, ok := svCache[key]; ok {
			return sv
		}
		sv, err := c.eng.GetSecretValue(ctx, drkey.SecretValueMeta{ProtoId: proto, Validity: val})
		if err != nil {
			panic(err)
		}
		svCache[key] = sv
		return sv
	}
	nSvc := e.N(2500, 40000)
	for i := 0; i < nSvc; i++ {
		loc := world[ias[r.Intn(len(ias))]]
		src, dst := loc.ia, ias[r.Intn(len(ias))]
		switch k := r.Intn(10); {
		case k < 4: // local AS is the source (fast side)
		case k < 8: // local AS is the destination: level-1 key fetched from the source AS
			src, dst = ias[r.Intn(len(ias))], loc.ia
		default: // possibly neither
			src, dst = ias[r.Intn(len(ias))], ias[r.Intn(len(ias))]
		}
		proto := protoPool()
		val := time.Unix(int64(r.Range(1_600_000_000, 1_900_000_000)), int64(r.Intn(1_000_000_000)))
		if r.Chance(10) {
			val = time.Unix(int64(r.Intn(4_000_000_000)), 0)
		}
		sh, dh := genHost(r), genHost(r)
		kind := []string{"ah", "ha", "hh"}[r.Intn(3)]
		srcCS := world[src]
		l1proto := drkey.Protocol(proto)
		if !l1proto.IsPredefined() {
			l1proto = drkey.Generic
		}
		svL0, svLp := svOf(loc, drkey.Generic, val), svOf(loc, l1proto, val)
		svS0, svSp := svOf(srcCS, drkey.Generic, val), svOf(srcCS, l1proto, val)

		var key drkey.Key
		var ep drkey.Epoch
		var err error
		res, okRun := vlib.Safe(func() string {
			switch kind {
			case "ah":
				var k drkey.ASHostKey
				k, err = loc.eng.DeriveASHost(ctx, drkey.ASHostMeta{ProtoId: drkey.Protocol(proto), Validity: val,
					SrcIA: src, DstIA: dst, DstHost: dh.s})
				key, ep = k.Key, k.Epoch
			case "ha":
				var k drkey.HostASKey
				k, err = loc.eng.DeriveHostAS(ctx, drkey.HostASMeta{ProtoId: drkey.Protocol(proto), Validity: val,
					SrcIA: src, DstIA: dst, SrcHost: sh.s})
				key, ep = k.Key, k.Epoch
			default:
				var k drkey.HostHostKey
				k, err = loc.eng.DeriveHostHost(ctx, drkey.HostHostMeta{ProtoId: drkey.Protocol(proto), Validity: val,
					SrcIA: src, DstIA: dst, SrcHost: sh.s, DstHost: dh.s})
				key, ep = k.Key, k.Epoch
			}
			return ""
		})
		endpoint := src == loc.ia || dst == loc.ia
		var ans, tag string
		switch {
		case !okRun:
			ans, tag = res, "svc/panic"
		case err != nil && !endpoint:
			ans, tag = "err notendpoint", "~svc/notendpoint"
		case err != nil:
			ans, tag = "err badhost", "~svc/badhost"
		default:
			ans = fmt.Sprintf("ok %d %d %s", uint32(ep.NotBefore.Unix()), uint32(ep.NotAfter.Unix()), vlib.Hex(key[:]))
			side := "remote"
			if src == loc.ia {
				side = "local"
			}
			pk := "niche"
			if drkey.Protocol(proto).IsPredefined() {
				pk = fmt.Sprintf("p%d", proto)
			}
			tag = "svc/" + kind + "/" + side + "/" + pk
		}
		e.Op(fmt.Sprintf("svc %s %d %d %d %d %s %s %s %s %s %s %d %d %d", kind, uint64(loc.ia), proto,
			uint64(src), uint64(dst), sh.abs, dh.abs, vlib.Hex(svL0.Key[:]), vlib.Hex(svLp.Key[:]),
			vlib.Hex(svS0.Key[:]), vlib.Hex(svSp.Key[:]), val.Unix(), loc.dur, srcCS.dur), ans, tag)
		if err != nil || !okRun {
			continue
		}
		replay := map[string]any{"kind": kind, "local": loc.ia.String(), "proto": proto, "src": src.String(),
			"dst": dst.String(), "srcHost": sh.s, "dstHost": dh.s, "validity": val.Unix(),
			"srcSecret": vlib.Hex(srcCS.secret), "srcEpochDuration": srcCS.dur}
		// (a) the host side: a node of the source AS holding the matching secret value (protocol-
		// specific) resp. a host holding the generic level-1 / host-AS key derives the same key itself
		sv := svSp // secret value of the source AS for the level-1 protocol
		l1, _ := specific.Deriver{}.DeriveLevel1(dst, sv.Key)
		var hostKey drkey.Key
		var herr error
		if drkey.Protocol(proto).IsPredefined() {
			d := specific.Deriver{}
			switch kind {
			case "ah":
				hostKey, herr = d.DeriveASHost(dh.s, l1)
			case "ha":
				hostKey, herr = d.DeriveHostAS(sh.s, l1)
			default:
				var ha drkey.Key
				if ha, herr = d.DeriveHostAS(sh.s, l1); herr == nil {
					hostKey, herr = d.DeriveHostHost(dh.s, ha)
				}
			}
		} else {
			d := generic.Deriver{Proto: drkey.Protocol(proto)}
			switch kind {
			case "ah":
				hostKey, herr = d.DeriveASHost(dh.s, l1)
			case "ha":
				hostKey, herr = d.DeriveHostAS(sh.s, l1)
			default:
				var ha drkey.Key
				if ha, herr = d.DeriveHostAS(sh.s, l1); herr == nil {
					hostKey, herr = d.DeriveHostHost(dh.s, ha)
				}
			}
		}
		if herr != nil || hostKey != key {
			bad(e, "service-vs-host", "key served by the control service differs from the key derived by the host-side deriver from the matching secret value", replay)
		}
		// (b) the documentation, from the AS secret
		specificProto := drkey.Protocol(proto).IsPredefined()
		svProto := uint16(0)
		if specificProto {
			svProto = proto
		}
		idx := val.Unix() / srcCS.dur
		begin := uint32(idx * srcCS.dur)
		end := begin + uint32(srcCS.dur)
		want := refLevel1(refSV(srcCS.secret, svProto, begin, end), uint64(dst))
		rs, _ := refParseHost(sh.s)
		rd, _ := refParseHost(dh.s)
		switch kind {
		case "ah":
			want = refLevel2(want, refAsHost, specificProto, proto, rd)
		case "ha":
			want = refLevel2(want, refHostAS, specificProto, proto, rs)
		default:
			want = refLevel3(refLevel2(want, refHostAS, specificProto, proto, rs), rd)
		}
		if !bytes.Equal(want, key[:]) {
			bad(e, "doc-derivation", "key served by the control service differs from the documented derivation from the AS secret", replay)
		}
		if uint32(ep.NotBefore.Unix()) != begin || uint32(ep.NotAfter.Unix()) != end ||
			val.Unix() < int64(begin) || val.Unix() >= int64(end) {
			bad(e, "epoch", "epoch of the served key does not contain the requested validity time", replay)
		}
	}

	// --- secret values: DeriveSV directly and through the backend (KDF executed on both sides)
	for i := 0; i < e.N(250, 4000); i++ {
		secret := r.Bytes(r.Range(1, 40))
		switch r.Intn(12) {
		case 0:
			secret = nil
		case 1:
			secret = r.Bytes(r.Range(41, 120)) // KDF password longer than one hash block
		case 2:
			secret = r.Bytes([]int{37, 38, 39, 45, 46, 47}[r.Intn(6)]) // password length around 55/56/64
		}
		proto := protoPool()
		if i%2 == 0 {
			b, en := uint32(r.U64()), uint32(r.U64())
			if r.Chance(50) {
				b = uint32(r.Range(0, 1<<31))
				en = b + uint32(r.Range(1, 100000))
			}
			sv, err := drkey.DeriveSV(drkey.Protocol(proto), drkey.NewEpoch(b, en), secret)
			ans, tag := "err", "~svd/err"
			if err == nil {
				ans, tag = "ok "+vlib.Hex(sv.Key[:]), "svd"
				if !bytes.Equal(sv.Key[:], refSV(secret, proto, b, en)) {
					bad(e, "doc-derivation", "secret value differs from KDF(len(secret)||secret||protocol||epoch_begin||epoch_end)",
						map[string]any{"secret": vlib.Hex(secret), "proto": proto, "begin": b, "end": en})
				}
				if sv.ProtoId != drkey.Protocol(proto) || uint32(sv.Epoch.NotBefore.Unix()) != b || uint32(sv.Epoch.NotAfter.Unix()) != en {
					bad(e, "epoch", "secret value labelled with another protocol/epoch than derived for", map[string]any{"proto": proto, "begin": b, "end": en})
				}
			}
			e.Op(fmt.Sprintf("svd %s %d %d %d", vlib.Hex(secret), proto, b, en), ans, tag)
			continue
		}
		dur := int64(r.Range(1, 200000))
		if r.Chance(5) {
			dur = 0
		}
		val := int64(r.Range(0, 4_000_000_000))
		be := csdrkey.NewSecretValueBackend(nullSVDB{}, secret, time.Duration(dur)*time.Second)
		eng := &csdrkey.ServiceEngine{SecretBackend: be}
		var sv drkey.SecretValue
		var err error
		_, ok := vlib.Safe(func() string {
			sv, err = eng.GetSecretValue(ctx, drkey.SecretValueMeta{ProtoId: drkey.Protocol(proto), Validity: time.Unix(val, int64(r.Intn(1e9)))})
			return ""
		})
		ans, tag := "", "gsv"
		switch {
		case !ok:
			ans, tag = "panic", "~gsv/panic"
		case err != nil:
			ans, tag = "err", "~gsv/err"
		default:
			ans = fmt.Sprintf("ok %d %d %s", uint32(sv.Epoch.NotBefore.Unix()), uint32(sv.Epoch.NotAfter.Unix()), vlib.Hex(sv.Key[:]))
		}
		e.Op(fmt.Sprintf("gsv %s %d %d %d", vlib.Hex(secret), proto, val, dur), ans, tag)
	}

	// --- epoch of a secret value, arbitrary times and durations (no store)
	for i := 0; i < e.N(1500, 30000); i++ {
		dur := int64(r.Range(1, 200000))
		switch r.Intn(8) {
		case 0:
			dur = []int64{1, 2, 3600, 86400, 1 << 31, 1<<32 - 1, 1 << 32, 1<<32 + 5, 9_000_000_000}[r.Intn(9)]
		case 1:
			dur = -int64(r.Range(1, 100000))
		}
		val := int64(r.Range(0, 1<<33))
		switch r.Intn(8) {
		case 0:
			val = -int64(r.Range(0, 1<<33))
		case 1:
			val = int64(r.Range(0, 5)) * dur
		case 2:
			val = int64(1<<32) + int64(r.Range(-5, 5))
		}
		be := csdrkey.NewSecretValueBackend(nullSVDB{}, []byte{1, 2, 3}, time.Duration(dur)*time.Second)
		eng := &csdrkey.ServiceEngine{SecretBackend: be}
		var sv drkey.SecretValue
		var err error
		res, ok := vlib.Safe(func() string {
			sv, err = eng.GetSecretValue(ctx, drkey.SecretValueMeta{ProtoId: 1, Validity: time.Unix(val, 0)})
			return ""
		})
		ans, tag := "", "ep"
		switch {
		case !ok:
			ans, tag = res, "ep/panic"
		case err != nil:
			ans, tag = "err", "ep/err"
		default:
			ans = fmt.Sprintf("%d %d", uint32(sv.Epoch.NotBefore.Unix()), uint32(sv.Epoch.NotAfter.Unix()))
			if val < 0 || val >= 1<<32 || dur < 0 || dur >= 1<<32 {
				tag = "ep/wrap"
			}
		}
		e.Op(fmt.Sprintf("ep %d %d", val, dur), ans, tag)
	}

	// --- relative / absolute timestamps (pkg/spao/timestamp.go)
	for i := 0; i < e.N(3000, 60000); i++ {
		b := uint32(r.Range(0, 1<<32-1))
		dur := int64(r.Range(1, 400000))
		off := int64(r.Range(0, int(dur*1e9)))
		switch r.Intn(10) {
		case 0: // around the 2^48 ns limit
			off = 1<<48 + int64(r.Range(-3, 3))
		case 1: // before the epoch
			off = -int64(r.Range(1, 10e9))
		case 2:
			off = int64(r.Range(0, 5))
		case 3:
			off = int64(r.Range(0, 1<<49))
		}
		tNs := int64(b)*1e9 + off
		ep := drkey.NewEpoch(b, b+uint32(dur))
		t := time.Unix(tNs/1e9, tNs%1e9)
		if tNs < 0 {
			t = time.Unix(0, tNs)
		}
		rel, err := spao.RelativeTimestamp(ep, t)
		ans, tag := "err", "rel/toolarge"
		if err == nil {
			ans, tag = fmt.Sprintf("ok %d", rel), "rel/ok"
			if off < 0 {
				tag = "rel/before-epoch"
			}
			if back := spao.AbsoluteTimestamp(ep, rel); !back.Equal(t) {
				bad(e, "timestamp-roundtrip", "AbsoluteTimestamp(RelativeTimestamp(t)) != t",
					map[string]any{"epoch_begin": b, "t_ns": tNs})
			}
			if off >= 0 && rel >= 1<<48 {
				bad(e, "timestamp-roundtrip", "relative timestamp does not fit 48 bits", map[string]any{"epoch_begin": b, "t_ns": tNs})
			}
		}
		e.Op(fmt.Sprintf("rel %d %d", b, tNs), ans, tag)
	}

	// --- acceptance window
	nWin := e.N(20000, 400000)
	for i := 0; i < nWin; i++ {
		// epoch duration
		durNs := int64(r.Range(1, 100000)) * 1e9
		switch r.Intn(10) {
		case 0:
			durNs = []int64{1e9, 2e9, 5e9, 10e9, 3600e9, 86400e9}[r.Intn(6)]
		case 1:
			durNs += int64(r.Intn(1e9)) // sub-second remainder is truncated
		case 2:
			if r.Chance(10) {
				durNs = int64(r.Intn(1e9)) // < 1 s: division by zero
			}
		}
		dur := durNs / 1e9
		// acceptance window
		aw := int64(r.Range(0, 600)) * 1e9
		switch r.Intn(10) {
		case 0:
			aw = 0
		case 1:
			aw = int64(r.Range(0, 20e9))
		case 2:
			aw = 2*durNs + int64(r.Range(0, 20e9))
		case 3:
			aw = -int64(r.Range(0, 20e9))
		case 4:
			aw = 5 * 60 * 1e9
		}
		// reception time: near an epoch boundary or anywhere
		var tNs int64
		if dur > 0 {
			idx := int64(r.Range(0, int(int64(1<<32)/dur)))
			if r.Chance(15) {
				idx = int64(r.Range(0, 2))
			}
			off := int64(r.Range(0, int(durNs-1)))
			switch r.Intn(4) {
			case 0:
				off = int64(r.Range(0, 12e9)) % durNs
			case 1:
				off = durNs - 1 - int64(r.Range(0, 12e9))%durNs
			}
			tNs = idx*dur*1e9 + off
		} else {
			tNs = int64(r.Range(0, 4e18))
		}
		t := time.Unix(tNs/1e9, tNs%1e9)
		// timestamp: aim the absolute time of one of the three epochs at a boundary
		var ts uint64
		if dur > 0 {
			idx := (tNs / 1e9) / dur
			k := int64([]int{0, 0, -1, 1}[r.Intn(4)])
			begin := int64(uint32((idx + k) * dur))
			end := int64(uint32(begin) + uint32(dur))
			targets := []int64{tNs - aw/2, tNs + aw/2, end*1e9 + 5e9, begin * 1e9, tNs, end * 1e9, end*1e9 - 5e9}
			abs := targets[r.Intn(len(targets))] + int64(r.Range(-2, 2))
			if r.Chance(25) {
				abs += int64(r.Range(-10e9, 10e9))
			}
			if r.Chance(30) && aw > 1 { // anywhere inside the acceptance window
				abs = tNs - aw/2 + int64(r.Range(0, int(aw/2)*2))
			}
			rel := abs - begin*1e9
			if rel < 0 && r.Chance(70) {
				rel = int64(r.Range(0, 10e9))
			}
			ts = uint64(rel)
		} else {
			ts = r.U64()
		}
		switch r.Intn(40) {
		case 0:
			ts = r.U64()
		case 1:
			ts = 1<<48 - 1 - uint64(r.Intn(1000))
		case 2:
			ts = 1<<63 + uint64(r.Intn(1000))
		}
		p := &drkeyutil.FakeProvider{EpochDuration: time.Duration(durNs), AcceptanceWindow: time.Duration(aw)}
		var k drkey.ASHostKey
		var err error
		_, ok := vlib.Safe(func() string {
			k, err = p.GetKeyWithinAcceptanceWindow(t, ts, addr.IA(r.U64()), addr.HostIP(netip.AddrFrom4([4]byte{10, 0, 0, 1})))
			return ""
		})
		var ans, tag string
		switch {
		case !ok:
			ans, tag = "panic", "~win/panic"
		case err != nil:
			ans, tag = "nokey", "win/nokey"
			// no key although one of the three epochs around t (computed here from the documented
			// epoch grid, away from the uint32 wrap) qualifies: the implementation contradicts its own
			// selection rule — reported so that a broken tie comes with a concrete input
			if idx := (tNs / 1e9) / dur; dur > 0 && idx >= 1 && (idx+2)*dur < 1<<32 && ts < 1<<62 {
				for k := int64(-1); k <= 1; k++ {
					b, en := (idx+k)*dur, (idx+k+1)*dur
					abs := new(big.Int).Add(new(big.Int).Mul(big.NewInt(b), big.NewInt(1e9)), big.NewInt(int64(ts)))
					hi := new(big.Int).Add(new(big.Int).Mul(big.NewInt(en), big.NewInt(1e9)), big.NewInt(int64(drkey.GRACE_PERIOD)))
					if abs.Cmp(hi) <= 0 && abs.Cmp(big.NewInt(tNs-aw/2)) >= 0 && abs.Cmp(big.NewInt(tNs+aw/2)) <= 0 {
						bad(e, "window-miss", "no key selected although the timestamp lies in the acceptance window and in an epoch's validity plus grace period",
							map[string]any{"t_ns": tNs, "epoch_duration_ns": durNs, "acceptance_window_ns": aw, "timestamp": ts, "epoch_begin": b, "epoch_end": en})
						break
					}
				}
			}
		default:
			b, en := uint32(k.Epoch.NotBefore.Unix()), uint32(k.Epoch.NotAfter.Unix())
			ans = fmt.Sprintf("key %d %d", b, en)
			idx := (tNs / 1e9) / dur
			switch b {
			case uint32(idx * dur):
				tag = "win/current"
			case uint32((idx - 1) * dur):
				tag = "win/previous"
			case uint32((idx + 1) * dur):
				tag = "win/next"
			default:
				tag = "win/other"
			}
			// the statement, in unbounded integers
			abs := new(big.Int).Add(new(big.Int).Mul(big.NewInt(int64(b)), big.NewInt(1e9)), big.NewInt(int64(ts)))
			lo := new(big.Int).Mul(big.NewInt(int64(b)), big.NewInt(1e9))
			hi := new(big.Int).Add(new(big.Int).Mul(big.NewInt(int64(en)), big.NewInt(1e9)), big.NewInt(int64(drkey.GRACE_PERIOD)))
			wlo, whi := big.NewInt(tNs-aw/2), big.NewInt(tNs+aw/2)
			replay := map[string]any{"t_ns": tNs, "epoch_duration_ns": durNs, "acceptance_window_ns": aw,
				"timestamp": ts, "epoch_begin": b, "epoch_end": en}
			if abs.Cmp(lo) < 0 || abs.Cmp(hi) > 0 {
				bad(e, "window-epoch", "selected key's epoch (plus grace period) does not contain the timestamp's absolute time", replay)
			}
			if abs.Cmp(wlo) < 0 || abs.Cmp(whi) > 0 {
				bad(e, "window-epoch", "key selected although the timestamp's absolute time is outside the acceptance window", replay)
			}
			if tag == "win/other" {
				bad(e, "window-epoch", "selected epoch is none of previous/current/next", replay)
			}
		}
		e.Op(fmt.Sprintf("win %d %d %d %d", tNs, durNs, aw, ts), ans, tag)
	}
	e.Finish()
}
