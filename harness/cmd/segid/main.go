// Engine "segid" (C22): ties lean/Scion/Model/SegID.lean to the real extender
// (control/beaconing: Extend/extractBeta), the real combinator (calculateBeta) and
// InfoField.UpdateSegID, and evaluates the C22 statement directly on the implementation:
// walking every (direction, entry/exit AS, peering) traversal of real beaconed segments with the
// router's update rules, the accumulator must verify the MAC the beaconing AS created.
package main

import (
	"encoding/binary"
	"fmt"
	"strings"
	"time"

	"github.com/scionproto/scion/control/beaconing"
	"github.com/scionproto/scion/pkg/addr"
	"github.com/scionproto/scion/pkg/private/ctrl/path_mgmt/proto"
	"github.com/scionproto/scion/pkg/private/util"
	seg "github.com/scionproto/scion/pkg/segment"
	"github.com/scionproto/scion/pkg/slayers/path"
	"github.com/scionproto/scion/private/path/combinator"
	_ "github.com/scionproto/scion/router/underlayproviders/udpip"

	"verifharness/netlib"
	"verifharness/vlib"
)

var bruteLeft = 40

// recoverBeta finds the accumulator value under which the AS key authenticates the hop field:
// candidates first, then (a limited number of times per run) the whole 16-bit space.
func recoverBeta(a *netlib.AS, ts uint32, hf seg.HopField, cands ...uint16) (uint16, bool) {
	h := a.MacOf()
	try := func(b uint16) bool {
		m := path.MAC(h, path.InfoField{SegID: b, Timestamp: ts},
			path.HopField{ConsIngress: hf.ConsIngress, ConsEgress: hf.ConsEgress, ExpTime: hf.ExpTime}, nil)
		return m == hf.MAC
	}
	for _, c := range cands {
		if try(c) {
			return c, true
		}
	}
	if bruteLeft <= 0 {
		return 0, false
	}
	bruteLeft--
	for b := 0; b < 65536; b++ {
		if try(uint16(b)) {
			return uint16(b), true
		}
	}
	return 0, false
}

func pfx(m [path.MacLen]byte) uint16 { return binary.BigEndian.Uint16(m[:2]) }

func nums(v []uint16) string {
	var sb strings.Builder
	for _, x := range v {
		fmt.Fprintf(&sb, " %d", x)
	}
	return sb.String()
}

func list(v []uint16) string {
	if len(v) == 0 {
		return "-"
	}
	s := make([]string, len(v))
	for i, x := range v {
		s[i] = fmt.Sprint(x)
	}
	return strings.Join(s, ",")
}

func b2i(b bool) int {
	if b {
		return 1
	}
	return 0
}

func edgeOf(s *seg.PathSegment, down bool, shortcut, peer int) combinator.VerifNetEdge {
	t := proto.PathSegType_up
	if down {
		t = proto.PathSegType_down
	}
	return combinator.VerifNetEdge{Segment: s, Type: t, Shortcut: shortcut, Peer: peer}
}

func calcBeta(s *seg.PathSegment, down bool, shortcut, peer int) string {
	res, _ := vlib.Safe(func() string {
		return fmt.Sprint(combinator.VerifNetCalculateBeta(edgeOf(s, down, shortcut, peer)))
	})
	if strings.HasPrefix(res, "PANIC") {
		return "panic"
	}
	return res
}

// chain builds AS0 (core) - AS1 - ... - AS(n-1) with parent-child links and up to two peering
// links per non-core AS towards an extra AS.
func chain(r *vlib.Rand, n int) (*netlib.Net, []uint16, error) {
	var ias []addr.IA
	var cores []bool
	var nr []int
	var mx []uint8
	for i := 0; i <= n; i++ {
		ias = append(ias, addr.MustParseIA(fmt.Sprintf("1-ff00:0:%x", 0x100+i)))
		cores = append(cores, i == 0)
		nr = append(nr, 1)
		mx = append(mx, uint8(r.Range(20, 255)))
	}
	used := make([]map[uint16]bool, n+1)
	for i := range used {
		used[i] = map[uint16]bool{}
	}
	fresh := func(a int) uint16 {
		for {
			var id uint16
			if r.Chance(70) {
				id = uint16(r.Range(1, 40))
			} else {
				id = uint16(r.Range(1, 65535))
			}
			if !used[a][id] {
				used[a][id] = true
				return id
			}
		}
	}
	var links []netlib.Link
	egress := make([]uint16, n)
	for i := 0; i+1 < n; i++ {
		e, in := fresh(i), fresh(i+1)
		egress[i] = e
		links = append(links, netlib.Link{A: i, AIf: e, B: i + 1, BIf: in, Kind: netlib.PC})
	}
	for i := 1; i < n; i++ {
		np := r.Intn(3)
		if n <= 3 && np == 0 {
			np = 1
		}
		for k := 0; k < np; k++ {
			links = append(links, netlib.Link{A: i, AIf: fresh(i), B: n, BIf: fresh(n), Kind: netlib.Peer})
		}
	}
	net, err := netlib.NewNet(r, ias, cores, nr, mx, links)
	return net, egress, err
}

type chainCase struct {
	net      *netlib.Net
	s        *seg.PathSegment
	s0       uint16
	ts       uint32
	sigma    []uint16
	hopBeta  []uint16
	hopOK    []bool
	peerBeta [][]uint16
	peerOK   [][]bool
}

func mkChain(r *vlib.Rand, n int) (*chainCase, error) {
	net, egress, err := chain(r, n)
	if err != nil {
		return nil, err
	}
	s0 := uint16(r.U64())
	if r.Chance(10) {
		s0 = []uint16{0, 0xffff, 0x8000, 1}[r.Intn(4)]
	}
	tsT := time.Now().Add(-time.Duration(r.Range(1, 600)) * time.Second)
	b, err := net.Originate(0, tsT, s0)
	if err != nil {
		return nil, err
	}
	for i := 0; i+1 < n; i++ {
		if b, err = net.Propagate(b, egress[i]); err != nil {
			return nil, err
		}
	}
	s, err := net.Terminate(b)
	if err != nil {
		return nil, err
	}
	c := &chainCase{net: net, s: s, s0: s.Info.SegmentID, ts: util.TimeToSecs(s.Info.Timestamp)}
	for i, e := range s.ASEntries {
		c.sigma = append(c.sigma, pfx(e.HopEntry.HopField.MAC))
		// candidates: what extractBeta says for the segment as it was when AS i extended it
		pre := &seg.PathSegment{Info: s.Info, ASEntries: s.ASEntries[:i]}
		xb := beaconing.VerifNetExtractBeta(pre)
		a := net.ByIA(e.Local)
		hb, ok := recoverBeta(a, c.ts, e.HopEntry.HopField, xb, xb^c.sigma[i])
		c.hopBeta, c.hopOK = append(c.hopBeta, hb), append(c.hopOK, ok)
		var pbs []uint16
		var poks []bool
		for _, pe := range e.PeerEntries {
			pb, ok := recoverBeta(a, c.ts, pe.HopField, xb^c.sigma[i], xb)
			pbs, poks = append(pbs, pb), append(poks, ok)
		}
		c.peerBeta, c.peerOK = append(c.peerBeta, pbs), append(c.peerOK, poks)
	}
	return c, nil
}

type hopRef struct {
	entry int
	peer  int // index+1 into PeerEntries, 0 = regular hop entry
}

// traversal lists the hop fields of the path part (forwarding order).
func traversal(n int, down bool, s, peer int) []hopRef {
	var hs []hopRef
	for j := s; j < n; j++ {
		p := 0
		if j == s {
			p = peer
		}
		hs = append(hs, hopRef{j, p})
	}
	if !down {
		for i, j := 0, len(hs)-1; i < j; i, j = i+1, j-1 {
			hs[i], hs[j] = hs[j], hs[i]
		}
	}
	return hs
}

// walk applies the router's SegID rules (router/dataplane.go: updateNonConsDirIngressSegID,
// processEgress, no update when peering) with the real UpdateSegID, starting from the real
// calculateBeta, and verifies every hop's MAC with the key of its AS.
func (c *chainCase) walk(down bool, s, peer int) (used []uint16, final uint16, firstBad int) {
	defer func() {
		if e := recover(); e != nil {
			used, final, firstBad = nil, 0, -2 // the implementation panicked on a valid edge
		}
	}()
	inf := path.InfoField{ConsDir: down, Peer: peer != 0, Timestamp: c.ts,
		SegID: combinator.VerifNetCalculateBeta(edgeOf(c.s, down, s, peer))}
	hs := traversal(len(c.s.ASEntries), down, s, peer)
	firstBad = -1
	for k, h := range hs {
		e := c.s.ASEntries[h.entry]
		hf := e.HopEntry.HopField
		if h.peer != 0 {
			hf = e.PeerEntries[h.peer-1].HopField
		}
		first, last := k == 0, k == len(hs)-1
		peering := h.peer != 0
		inExt := !first || (down && peering)
		egExt := !last || (!down && peering)
		if !down && inExt && !peering {
			inf.UpdateSegID(hf.MAC)
		}
		used = append(used, inf.SegID)
		a := c.net.ByIA(e.Local)
		m := path.MAC(a.MacOf(), inf, path.HopField{ConsIngress: hf.ConsIngress, ConsEgress: hf.ConsEgress,
			ExpTime: hf.ExpTime}, nil)
		if m != hf.MAC && firstBad < 0 {
			firstBad = k
		}
		if down && egExt && !peering {
			inf.UpdateSegID(hf.MAC)
		}
	}
	return used, inf.SegID, firstBad
}

func main() {
	e := vlib.Init()
	r := vlib.NewRand(uint64(e.Seed))
	e.Rule = "chains of 2..64 ASes beaconed by the real DefaultExtender (random per-AS keys, interface ids, " +
		"0-2 peering links per AS): per AS entry extractBeta and the accumulators recovered from the hop/peer MACs; " +
		"per (direction, entry/exit AS, peer entry) calculateBeta and the accumulators along the traversal; " +
		"plus fabricated segments (0..5 entries, out-of-range shortcuts) and UpdateSegID on random/boundary words; " +
		"non-trivial = at least one XOR applied; predicate: MAC of every traversed hop verifies with the walked SegID"
	nchains := e.N(70, 600)
	for ci := 0; ci < nchains; ci++ {
		var n int
		switch {
		case ci < 12:
			n = 2 + ci%4
		case r.Chance(15):
			n = r.Range(30, 64)
		case r.Chance(30):
			n = r.Range(8, 29)
		default:
			n = r.Range(2, 7)
		}
		c, err := mkChain(r, n)
		if err != nil {
			e.Violate("C22/harness", "cannot beacon along a chain: "+err.Error(), map[string]any{"n": n})
			continue
		}
		for i := range c.sigma {
			pre := &seg.PathSegment{Info: c.s.Info, ASEntries: c.s.ASEntries[:i]}
			tag := "xb"
			if i == 0 {
				tag = "~xb-empty"
			}
			e.Op(fmt.Sprintf("xb %d%s", c.s0, nums(c.sigma[:i])), fmt.Sprint(beaconing.VerifNetExtractBeta(pre)), tag)
			if len(c.peerBeta[i]) > 0 {
				ans := "unrecoverable"
				if c.hopOK[i] {
					pb, okAll := c.peerBeta[i][0], true
					for k := range c.peerBeta[i] {
						okAll = okAll && c.peerOK[i][k] && c.peerBeta[i][k] == pb
					}
					if okAll {
						ans = fmt.Sprintf("%d %d", c.hopBeta[i], pb)
					}
				}
				e.Op(fmt.Sprintf("ext %d %d%s", c.s0, c.sigma[i], nums(c.sigma[:i])), ans, "ext")
			}
		}
		if ci == 0 {
			e.Sample(map[string]any{"n": n, "s0": c.s0, "sigma": c.sigma, "hopBeta": c.hopBeta, "peerBeta": c.peerBeta})
		}
		// traversals
		var positions []int
		if n <= 12 {
			for s := 0; s < n; s++ {
				positions = append(positions, s)
			}
		} else {
			positions = []int{0, 1, 2, n - 3, n - 2, n - 1, r.Intn(n), r.Intn(n), r.Intn(n)}
		}
		for _, s := range positions {
			for _, down := range []bool{true, false} {
				npe := len(c.s.ASEntries[s].PeerEntries)
				peerSel := []int{0}
				if npe >= 1 {
					peerSel = append(peerSel, 1)
				}
				if npe >= 2 {
					peerSel = append(peerSel, npe)
				}
				for _, peer := range peerSel {
					pm := uint16(0)
					if peer != 0 {
						pm = pfx(c.s.ASEntries[s].PeerEntries[peer-1].HopField.MAC)
					}
					kind := fmt.Sprintf("%s/%s", map[bool]string{true: "down", false: "up"}[down],
						map[bool]string{true: "peer", false: "plain"}[peer != 0])
					if s == n-1 {
						kind += "/last"
					} else if s == 0 {
						kind += "/full"
					} else {
						kind += "/shortcut"
					}
					e.Op(fmt.Sprintf("cb %d %d %d %d%s", b2i(down), s, b2i(peer != 0), c.s0, nums(c.sigma)),
						calcBeta(c.s, down, s, peer), "cb/"+kind)
					used, final, bad := c.walk(down, s, peer)
					// construction-time accumulators of the traversed hop fields, forwarding order
					var want []uint16
					ok := true
					for _, h := range traversal(n, down, s, peer) {
						if h.peer != 0 {
							want = append(want, c.peerBeta[h.entry][h.peer-1])
							ok = ok && c.peerOK[h.entry][h.peer-1]
						} else {
							want = append(want, c.hopBeta[h.entry])
							ok = ok && c.hopOK[h.entry]
						}
					}
					ans := "unrecoverable"
					if ok {
						ans = fmt.Sprintf("%s %d", list(want), final)
					}
					e.Op(fmt.Sprintf("sync %d %d %d %d %d%s", b2i(down), s, b2i(peer != 0), pm, c.s0, nums(c.sigma)),
						ans, "sync/"+kind)
					if bad == -2 {
						e.Violate("C22/"+kind, fmt.Sprintf("segment of %d ASes, %s at AS entry %d: calculateBeta panics",
							n, kind, s), map[string]any{"n": n, "down": down, "entry": s, "peer": peer, "s0": c.s0,
							"sigma": c.sigma})
					} else if bad >= 0 {
						e.Violate("C22/"+kind, fmt.Sprintf("segment of %d ASes, %s at AS entry %d: the SegID %#04x "+
							"walked to hop %d of the traversal does not authenticate that hop field",
							n, kind, s, used[bad], bad),
							map[string]any{"n": n, "down": down, "entry": s, "peer": peer, "s0": c.s0, "sigma": c.sigma,
								"walked": used, "construction": want, "first_bad_hop": bad})
					}
				}
			}
		}
	}
	// fabricated segments for calculateBeta/extractBeta incl. degenerate shapes
	nf := e.N(1500, 20000)
	for i := 0; i < nf; i++ {
		n := r.Intn(6)
		s := &seg.PathSegment{Info: seg.Info{SegmentID: uint16(r.U64())}}
		var sig []uint16
		for k := 0; k < n; k++ {
			var m [path.MacLen]byte
			copy(m[:], r.Bytes(path.MacLen))
			s.ASEntries = append(s.ASEntries, seg.ASEntry{HopEntry: seg.HopEntry{HopField: seg.HopField{MAC: m}}})
			sig = append(sig, pfx(m))
		}
		down, sc, peer := r.Bool(), r.Intn(n+2), r.Intn(2)
		tag := "cb-fab"
		if n == 0 {
			tag = "~cb-fab-empty"
		}
		e.Op(fmt.Sprintf("cb %d %d %d %d%s", b2i(down), sc, peer, s.Info.SegmentID, nums(sig)),
			calcBeta(s, down, sc, peer), tag)
		e.Op(fmt.Sprintf("xb %d%s", s.Info.SegmentID, nums(sig)), fmt.Sprint(beaconing.VerifNetExtractBeta(s)), tag)
	}
	nu := e.N(3000, 40000)
	bnd := []uint16{0, 1, 0x00ff, 0xff00, 0x7fff, 0x8000, 0xffff, 0x0100}
	for i := 0; i < nu; i++ {
		a, m := uint16(r.U64()), r.Bytes(path.MacLen)
		if i < len(bnd)*len(bnd) {
			a = bnd[i/len(bnd)]
			binary.BigEndian.PutUint16(m, bnd[i%len(bnd)])
		}
		var mm [path.MacLen]byte
		copy(mm[:], m)
		inf := path.InfoField{SegID: a}
		inf.UpdateSegID(mm)
		tag := "upd"
		if pfx(mm) == 0 {
			tag = "~upd-zero"
		}
		e.Op(fmt.Sprintf("upd %d %d", a, pfx(mm)), fmt.Sprint(inf.SegID), tag)
	}
	e.Extra["brute_force_left"] = bruteLeft
	e.Finish()
}
