// Engine "renewal" (C37): ties lean/Scion/Model/Renewal.lean to private/ca/renewal
// (RequestVerifier.VerifyCMSSignedRenewalRequest / ExtractChain / VerifySignature) and to
// cppki.CAPolicy.CreateChain, and evaluates the C37 statement directly on every accepted request
// and every issued chain.
//
// Requests are real CMS SignedData messages over real CSRs, built per case with the repo's own
// CMS package from freshly issued certificates (self / other AS / expired chain / wrong CSR
// subject / wrong or foreign signature / tampered payload / 0,1,3 certificates / 0,2 signer infos
// / CA as signer / wrong versions and content types / garbage).  The facts handed to the model
// are extracted from the request bytes by the harness with the CMS/x509 primitives.
package main

import (
	"bytes"
	"context"
	"crypto"
	"crypto/elliptic"
	"crypto/rand"
	"crypto/x509"
	"encoding/asn1"
	"fmt"
	"strings"
	"time"

	"github.com/scionproto/scion/pkg/scrypto/cms/protocol"
	"github.com/scionproto/scion/pkg/scrypto/cppki"
	"github.com/scionproto/scion/private/ca/renewal"

	"verifharness/pki2"
	"verifharness/vlib"
)

const (
	iaCore = "1-ff00:0:110"
	iaA    = "1-ff00:0:111"
	iaB    = "1-ff00:0:112"
	iaISD2 = "2-ff00:0:210"
)

type ent struct {
	cert *x509.Certificate
	key  *pki2.Key
}

type world struct {
	T0                    time.Time
	R1, R2, Rx            ent
	S1, G1                ent
	cas                   []ent // CA1 (R1), CA2 (R2), CAx (Rx)
	ca384, caNoIA, caShrt ent
	keys                  []*pki2.Key
	key384, keyEd         *pki2.Key
}

func hh(n int) time.Duration { return time.Duration(n) * time.Hour }

func buildWorld() *world {
	w := &world{T0: time.Now().Truncate(time.Second)}
	T := w.T0
	mkRoot := func(cn string) ent {
		k := pki2.NewKey()
		return ent{pki2.MustIssue(pki2.RootTmpl(cn, iaCore, T.Add(-hh(30)), T.Add(hh(30)), k), k, nil, nil), k}
	}
	w.R1, w.R2, w.Rx = mkRoot("root1"), mkRoot("root2"), mkRoot("rootx")
	mkVote := func(cn string, kind int) ent {
		k := pki2.NewKey()
		return ent{pki2.MustIssue(pki2.VotingTmpl(cn, iaCore, T.Add(-hh(30)), T.Add(hh(30)), k, kind), k, nil, nil), k}
	}
	w.S1, w.G1 = mkVote("sens1", 1), mkVote("reg1", 2)
	mkCA := func(cn, ia string, nb, na time.Time, parent ent, k *pki2.Key) ent {
		if k == nil {
			k = pki2.NewKey()
		}
		return ent{pki2.MustIssue(pki2.CATmpl(cn, ia, nb, na, k), k, parent.cert, parent.key), k}
	}
	w.cas = []ent{mkCA("ca1", iaCore, T.Add(-hh(20)), T.Add(hh(20)), w.R1, nil),
		mkCA("ca2", iaCore, T.Add(-hh(20)), T.Add(hh(20)), w.R2, nil),
		mkCA("cax", iaCore, T.Add(-hh(20)), T.Add(hh(20)), w.Rx, nil)}
	w.ca384 = mkCA("ca384", iaCore, T.Add(-hh(20)), T.Add(hh(20)), w.R1, pki2.NewKeyCurve(elliptic.P384()))
	w.caNoIA = mkCA("ca-no-ia", "", T.Add(-hh(20)), T.Add(hh(20)), w.R1, nil)
	w.caShrt = mkCA("ca-short", iaCore, T.Add(-hh(1)), T.Add(hh(1)), w.R1, nil)
	for i := 0; i < 6; i++ {
		w.keys = append(w.keys, pki2.NewKey())
	}
	w.key384 = pki2.NewKeyCurve(elliptic.P384())
	w.keyEd = pki2.NewEdKey()
	return w
}

func (w *world) rootSet(k int) []*x509.Certificate {
	switch k {
	case 0:
		return []*x509.Certificate{w.S1.cert, w.G1.cert, w.R1.cert}
	case 1:
		return []*x509.Certificate{w.S1.cert, w.G1.cert, w.R2.cert}
	case 2:
		return []*x509.Certificate{w.S1.cert, w.G1.cert, w.R1.cert, w.R2.cert}
	}
	return []*x509.Certificate{w.S1.cert, w.G1.cert, w.Rx.cert}
}

var secNeg = []int{-7200, -3600, -600, -60, -5, -2, -1}
var secPos = []int{4, 5, 6, 60, 600, 3600, 7200}

func okSec(s int) bool { return s <= -1 || s >= 4 }

func pickSec(r *vlib.Rand, negPct int) int {
	if r.Chance(negPct) {
		return secNeg[r.Intn(len(secNeg))]
	}
	return secPos[r.Intn(len(secPos))]
}

type planTRC struct {
	base, serial uint64
	nb, na, gr   int
	roots        int
}

type plan struct {
	trcs         []planTRC
	failL, failP bool
	ca           int // index into w.cas
	asNb, asNa   int
	asIA         string
	csrIA        string // "" = no ISD-AS attribute
	csrSigBad    bool
	csrNotCSR    bool // payload is not a CSR
	variant      int
}

const (
	vNormal = iota
	vForeignSig
	vTamperedPayload
	vTwoSignerInfos
	vNoSignerInfo
	vSignedByCA
	vCAFirst
	vOneCert
	vThreeCerts
	vNoCerts
	vVersion3
	vNonData
	vGarbage
	vTruncated
	vNotSignedData
	vUnknownSID
	vDetached
	vOtherASChain
	vSIDNamesCA
	nVariants
)

var variantName = []string{"normal", "foreign-sig", "tampered-payload", "two-signerinfos", "no-signerinfo", "signed-by-ca",
	"ca-first", "one-cert", "three-certs", "no-certs", "version3", "non-data", "garbage", "truncated", "not-signeddata",
	"unknown-sid", "detached", "other-as-chain", "sid-names-ca"}

func genTRCs(r *vlib.Rand) []planTRC {
	var ps []planTRC
	if r.Chance(22) {
		// grace scenario: the latest TRC changed the root, the predecessor still holds the old one
		b := uint64(r.Range(1, 2))
		s := b + uint64(r.Range(1, 3))
		latest := planTRC{base: b, serial: s, nb: secNeg[r.Intn(len(secNeg))], na: secPos[r.Intn(len(secPos))], roots: 1}
		for {
			g := []int{10, 60, 3600, 7200, 20000, 3, 1}[r.Intn(7)]
			if okSec(latest.nb + g) {
				latest.gr = g
				break
			}
		}
		pred := planTRC{base: b, serial: s - 1, nb: pickSec(r, 95), na: pickSec(r, 15), roots: 0}
		if s-1 != b {
			pred.gr = 0
		}
		ps = []planTRC{pred, latest}
		if r.Bool() {
			ps = []planTRC{latest, pred}
		}
		return ps
	}
	n := r.Range(1, 2)
	if r.Chance(4) {
		n = 0
	}
	if r.Chance(10) {
		n = 3
	}
	base := uint64(1)
	serial := base
	if r.Chance(40) {
		serial += uint64(r.Range(1, 3))
	}
	for i := 0; i < n; i++ {
		p := planTRC{base: base, serial: serial, roots: r.Intn(3)}
		if r.Chance(10) {
			p.roots = 3
		}
		p.nb = pickSec(r, 92)
		p.na = pickSec(r, 10)
		if serial != base {
			for {
				g := []int{0, 1, 3, 10, 60, 3600, 7200, 20000}[r.Intn(8)]
				if okSec(p.nb + g) {
					p.gr = g
					break
				}
			}
		}
		ps = append(ps, p)
		if r.Chance(88) {
			serial++
		} else {
			serial += 2
		}
	}
	for i := len(ps) - 1; i > 0; i-- {
		j := r.Intn(i + 1)
		ps[i], ps[j] = ps[j], ps[i]
	}
	return ps
}

func genPlan(r *vlib.Rand) plan {
	p := plan{trcs: genTRCs(r), ca: r.Intn(2), asNb: pickSec(r, 95), asNa: pickSec(r, 8), asIA: iaA, csrIA: iaA}
	if r.Chance(8) {
		p.ca = 2
	}
	if p.asNa <= p.asNb {
		p.asNa = p.asNb + 3600
		if !okSec(p.asNa) {
			p.asNa = 3600
		}
	}
	p.failL, p.failP = r.Chance(3), r.Chance(5)
	if r.Chance(6) {
		p.asIA = iaB
		p.csrIA = iaB
	}
	if r.Chance(3) {
		p.asIA = iaISD2
		p.csrIA = iaISD2
	}
	if r.Chance(22) {
		p.csrIA = []string{iaB, "", "1-ff00:0:zz", iaCore, "1-FF00:0:111", iaISD2}[r.Intn(6)]
	}
	if r.Chance(14) {
		// the chain of an issuing AS: CA certificate and AS certificate carry the same ISD-AS; the
		// signer info naming the CA certificate / a signature by the CA key must still be refused
		p.asIA, p.csrIA = iaCore, iaCore
		p.variant = []int{vSignedByCA, vSignedByCA, vSIDNamesCA, vNormal, vCAFirst}[r.Intn(5)]
		p.csrSigBad = false
		p.csrNotCSR = false
		return p
	}
	p.csrSigBad = r.Chance(8)
	p.csrNotCSR = r.Chance(3)
	if r.Chance(45) {
		p.variant = r.Range(1, nVariants-1)
	}
	return p
}

func b(v bool) string {
	if v {
		return "1"
	}
	return "0"
}

const sec = int64(time.Second)
const zeroRel = -1 << 62

func mkCSR(subject string, k *pki2.Key, badSig bool) []byte {
	tmpl := &x509.CertificateRequest{Subject: pki2.Name("renewed", subject)}
	der, err := x509.CreateCertificateRequest(rand.Reader, tmpl, k.Priv)
	if err != nil {
		panic(err)
	}
	if badSig {
		der[len(der)-3] ^= 0x40
	}
	return der
}

type material struct {
	as, ca    *x509.Certificate
	asKey     *pki2.Key
	otherAS   *x509.Certificate
	otherKey  *pki2.Key
	csrKey    *pki2.Key
	payload   []byte
	otherPld  []byte
	req       []byte
	buildFail bool
}

func signWith(si *protocol.SignerInfo, k crypto.Signer) {
	sm, err := si.SignedAttrs.MarshaledForSigning()
	if err != nil {
		return
	}
	hash, err := si.Hash()
	if err != nil {
		return
	}
	h := hash.New()
	h.Write(sm)
	si.Signature, _ = k.Sign(rand.Reader, h.Sum(nil), hash)
}

// buildCMS produces the request bytes of the planned variant.
func buildCMS(w *world, p plan, m *material) []byte {
	chain := []*x509.Certificate{m.as, m.ca}
	newSD := func(pld []byte) *protocol.SignedData {
		eci, err := protocol.NewDataEncapsulatedContentInfo(pld)
		if err != nil {
			panic(err)
		}
		sd, _ := protocol.NewSignedData(eci)
		return sd
	}
	der := func(sd *protocol.SignedData) []byte {
		out, err := sd.ContentInfoDER()
		if err != nil {
			m.buildFail = true
			return nil
		}
		return out
	}
	sd := newSD(m.payload)
	switch p.variant {
	case vNormal:
		must(sd.AddSignerInfo(chain, m.asKey.Priv))
	case vForeignSig: // signer info names the AS certificate, signature made with another key
		must(sd.AddSignerInfo(chain, m.asKey.Priv))
		signWith(&sd.SignerInfos[0], m.otherKey.Priv)
	case vTamperedPayload: // signed payload replaced afterwards by another CSR
		must(sd.AddSignerInfo(chain, m.asKey.Priv))
		eci, _ := protocol.NewDataEncapsulatedContentInfo(m.otherPld)
		sd.EncapContentInfo = eci
	case vTwoSignerInfos:
		must(sd.AddSignerInfo(chain, m.asKey.Priv))
		sd2 := newSD(m.payload)
		must(sd2.AddSignerInfo(chain, m.asKey.Priv))
		sd.SignerInfos = append(sd.SignerInfos, sd2.SignerInfos[0])
	case vNoSignerInfo:
		must(sd.AddCertificate(m.as))
		must(sd.AddCertificate(m.ca))
	case vSignedByCA:
		must(sd.AddSignerInfo(chain, w.cas[p.ca].key.Priv))
	case vCAFirst:
		must(sd.AddSignerInfo([]*x509.Certificate{m.ca, m.as}, m.asKey.Priv))
	case vOneCert:
		must(sd.AddSignerInfo([]*x509.Certificate{m.as}, m.asKey.Priv))
	case vThreeCerts:
		must(sd.AddSignerInfo([]*x509.Certificate{m.as, m.ca, w.R1.cert}, m.asKey.Priv))
	case vNoCerts:
		must(sd.AddSignerInfo(chain, m.asKey.Priv))
		sd.ClearCertificates()
	case vVersion3:
		must(sd.AddSignerInfo(chain, m.asKey.Priv))
		sd.Version = 3
	case vNonData:
		eci, err := protocol.NewEncapsulatedContentInfo(asn1.ObjectIdentifier{1, 2, 840, 113549, 1, 9, 16, 1, 4}, m.payload)
		if err != nil {
			m.buildFail = true
			return nil
		}
		sd, _ = protocol.NewSignedData(eci)
		must(sd.AddSignerInfo(chain, m.asKey.Priv))
		sd.Version = 1
	case vGarbage:
		return []byte("this is not a CMS message")
	case vTruncated:
		must(sd.AddSignerInfo(chain, m.asKey.Priv))
		out := der(sd)
		if len(out) > 40 {
			return out[:len(out)-17]
		}
		return out
	case vNotSignedData:
		must(sd.AddSignerInfo(chain, m.asKey.Priv))
		ci, err := sd.ContentInfo()
		if err != nil {
			m.buildFail = true
			return nil
		}
		ci.ContentType = asn1.ObjectIdentifier{1, 2, 840, 113549, 1, 7, 1} // id-data
		out, err := asn1.Marshal(ci)
		if err != nil {
			m.buildFail = true
		}
		return out
	case vUnknownSID: // signer identifier names a certificate that is not in the message
		must(sd.AddSignerInfo(chain, m.asKey.Priv))
		sid, err := protocol.NewIssuerAndSerialNumber(m.otherAS)
		if err != nil {
			m.buildFail = true
			return nil
		}
		sd.SignerInfos[0].SID = sid
	case vDetached:
		must(sd.AddSignerInfo(chain, m.asKey.Priv))
		sd.EncapContentInfo.EContent = asn1.RawValue{}
	case vSIDNamesCA: // signed with the AS key, but the signer identifier names the CA certificate
		must(sd.AddSignerInfo(chain, m.asKey.Priv))
		sid, err := protocol.NewIssuerAndSerialNumber(m.ca)
		if err != nil {
			m.buildFail = true
			return nil
		}
		sd.SignerInfos[0].SID = sid
	case vOtherASChain: // a perfectly valid request of another AS (its own chain, its own key) for THIS subject
		must(sd.AddSignerInfo([]*x509.Certificate{m.otherAS, m.ca}, m.otherKey.Priv))
	}
	return der(sd)
}

func must(err error) {
	if err != nil {
		panic(err)
	}
}

func lookupWord(failing bool, idx int, p plan) string {
	if failing {
		return "e"
	}
	if idx < 0 {
		return "z"
	}
	t := p.trcs[idx]
	return fmt.Sprintf("%d:%d:%d:%d:%d", t.base, t.serial, int64(t.nb)*sec, int64(t.na)*sec, int64(t.gr)*sec)
}

func runCase(e *vlib.Env, w *world, r *vlib.Rand, p plan, idx int) {
	for attempt := 0; attempt < 6; attempt++ {
		t0 := time.Now()
		Tc := t0.Truncate(time.Second)
		at := func(s int) time.Time { return Tc.Add(time.Duration(s) * time.Second) }
		// ---- material
		m := &material{asKey: w.keys[0], otherKey: w.keys[1], csrKey: w.keys[2+r.Intn(3)]}
		ca := w.cas[p.ca]
		m.ca = ca.cert
		var err error
		m.as, err = pki2.Issue(pki2.ASTmpl("requester", p.asIA, at(p.asNb), at(p.asNa), m.asKey), m.asKey, ca.cert, ca.key)
		if err != nil {
			e.Case("issue-failed", "~issue-failed", true)
			return
		}
		m.otherAS, err = pki2.Issue(pki2.ASTmpl("other-as", iaB, at(-3600), at(3600), m.otherKey), m.otherKey, ca.cert, ca.key)
		if err != nil {
			e.Case("issue-failed", "~issue-failed", true)
			return
		}
		m.payload = mkCSR(p.csrIA, m.csrKey, p.csrSigBad)
		if p.csrNotCSR {
			m.payload = []byte("renew me please")
		}
		m.otherPld = mkCSR(p.csrIA, w.keys[5], false)
		req, ok := func() (out []byte, ok bool) {
			defer func() {
				if recover() != nil {
					ok = false
				}
			}()
			return buildCMS(w, p, m), true
		}()
		if !ok || m.buildFail {
			e.Case(fmt.Sprintf("build-failed-%s", variantName[p.variant]), "~build-failed", true)
			return
		}
		mkDB := func() *pki2.MemDB {
			db := &pki2.MemDB{FailTRCCall: map[int]bool{}}
			if p.failL {
				db.FailTRCCall[1] = true
			}
			if p.failP {
				db.FailTRCCall[2] = true
			}
			for _, t := range p.trcs {
				db.TRCs = append(db.TRCs, pki2.MkTRC(1, t.base, t.serial, at(t.nb), at(t.na), time.Duration(t.gr)*time.Second, w.rootSet(t.roots)))
			}
			return db
		}
		ctx := context.Background()

		// ---- real calls
		var gotCSR *x509.CertificateRequest
		var verr error
		res, okc := vlib.Safe(func() string {
			gotCSR, verr = renewal.RequestVerifier{TRCFetcher: mkDB()}.VerifyCMSSignedRenewalRequest(ctx, req)
			return ""
		})
		// ---- facts (harness' own parsing)
		f := extractFacts(w, p, req, mkDB, Tc)
		var vsAns string
		if f.chain != nil && f.sd != nil {
			vsRes, vsOK := vlib.Safe(func() string {
				if err := (renewal.RequestVerifier{TRCFetcher: mkDB()}).VerifySignature(ctx, f.sd, f.chain); err != nil {
					return "rej"
				}
				return "ok"
			})
			_ = vsOK
			vsAns = vsRes
		}
		if time.Since(Tc) > 2500*time.Millisecond {
			time.Sleep(time.Until(Tc.Add(time.Second)))
			continue
		}
		trcW := fmt.Sprintf("%s %s %d %d %s %s", f.latestW, f.predW, sec, int64(zeroRel), b(f.okL), b(f.okP))
		sigW := fmt.Sprintf("%d %d %s %s %s %s %s", f.sdVersion, f.nSI, f.signerIdx, b(f.typeData), b(f.econtOK), b(f.digest), b(f.sigOK))
		csrW := fmt.Sprintf("%s %s %s %d", b(f.csrParse), f.csrIA, b(f.csrSig), f.csrKey)
		op := fmt.Sprintf("req %s %s %s %s %s %s", b(f.parseOK), b(f.certsOK), pki2.FactsList(f.certs, Tc), sigW, trcW, csrW)
		ans := "ok"
		if !okc {
			ans = res
		} else if verr != nil {
			ans = "rej"
		}
		tag := "req/" + ans + "/" + variantName[p.variant]
		if ans == "ok" && !f.okL {
			tag = "req/ok-grace/" + variantName[p.variant]
		}
		if p.asIA == iaCore {
			tag += "+issuing-as"
		}
		if !f.parseOK {
			tag = "~" + tag
		}
		e.Op(op, ans, tag)
		if len(e.Samples) < 3 && verr == nil {
			e.Sample(map[string]any{"variant": variantName[p.variant], "op": op, "impl": ans})
		}
		// ExtractChain on its own
		if f.sd != nil {
			xa := "rej"
			if f.chain != nil {
				xa = "ok " + b(f.swapped)
			}
			e.Op(fmt.Sprintf("xc %s %s", b(f.certsOK), pki2.FactsList(f.certs, Tc)), xa, "xc/"+strings.SplitN(xa, " ", 2)[0])
		}
		if vsAns != "" {
			e.Op(fmt.Sprintf("vs %s %s %s", pki2.FactsList(f.chain, Tc), sigW, trcW), vsAns, "vs/"+vsAns)
		}
		if okc && verr == nil {
			specAccepted(e, w, p, m, f, gotCSR, idx)
		}
		return
	}
	e.Case("renewal-case-skipped-clock", "~skipped", true)
}

type facts struct {
	parseOK, certsOK bool
	certs            []*x509.Certificate
	sd               *protocol.SignedData
	chain            []*x509.Certificate
	swapped          bool
	sdVersion, nSI   int
	signerIdx        string
	typeData         bool
	econtOK          bool
	digest, sigOK    bool
	latestW, predW   string
	okL, okP         bool
	csrParse         bool
	csrIA            string
	csrSig           bool
	csrKey           int
	li, pi           int
	tc               time.Time
}

func extractFacts(w *world, p plan, req []byte, mkDB func() *pki2.MemDB, Tc time.Time) facts {
	f := facts{signerIdx: "n", latestW: "z", predW: "z", csrIA: "n", li: -1, pi: -1, tc: Tc}
	ci, err := protocol.ParseContentInfo(req)
	if err != nil {
		return f
	}
	sd, err := ci.SignedDataContent()
	if err != nil {
		return f
	}
	f.parseOK, f.sd = true, sd
	certs, err := sd.X509Certificates()
	f.certsOK = err == nil
	f.certs = certs
	f.sdVersion, f.nSI = sd.Version, len(sd.SignerInfos)
	f.typeData = sd.EncapContentInfo.IsTypeData()
	pld, err := sd.EncapContentInfo.EContentValue()
	f.econtOK = err == nil
	// the chain as the verifier orders it
	if chain, err := renewal.ExtractChain(sd); err == nil {
		f.chain = chain
		f.swapped = len(certs) == 2 && chain[0] != certs[0]
	}
	// TRC side: latest / predecessor as planned, oracle = VerifyChain now
	for i, t := range p.trcs {
		if f.li < 0 || t.base > p.trcs[f.li].base || (t.base == p.trcs[f.li].base && t.serial > p.trcs[f.li].serial) {
			f.li = i
		}
	}
	isd1 := true
	if f.chain != nil {
		if ia, err := cppki.ExtractIA(f.chain[0].Subject); err == nil && ia.ISD() != 1 {
			isd1 = false // the verifier asks for the TRC of the chain's ISD: none stored for other ISDs
		}
	}
	if f.li >= 0 && isd1 {
		for i, t := range p.trcs {
			if t.base == p.trcs[f.li].base && t.serial == p.trcs[f.li].serial-1 {
				f.pi = i
			}
		}
	} else {
		f.li = -1
	}
	f.latestW = lookupWord(p.failL, f.li, p)
	f.predW = lookupWord(p.failP, f.pi, p)
	if f.chain != nil {
		db := mkDB()
		db.FailTRCCall = map[int]bool{}
		vfy := func(i int) bool {
			if i < 0 {
				return false
			}
			t := db.TRCs[i]
			return cppki.VerifyChain(f.chain, cppki.VerifyOptions{TRC: []*cppki.TRC{&t.TRC}}) == nil
		}
		f.okL, f.okP = vfy(f.li), vfy(f.pi)
	}
	// signer info facts (first signer info, as the verifier does)
	if len(sd.SignerInfos) >= 1 && f.chain != nil {
		si := sd.SignerInfos[0]
		if c, err := si.FindCertificate(f.chain); err == nil {
			switch c {
			case f.chain[0]:
				f.signerIdx = "0"
			case f.chain[1]:
				f.signerIdx = "1"
			}
		}
		if hash, err := si.Hash(); err == nil {
			if ad, err := si.GetMessageDigestAttribute(); err == nil {
				h := hash.New()
				h.Write(pld)
				f.digest = bytes.Equal(ad, h.Sum(nil))
			}
		}
		if in, err := si.SignedAttrs.MarshaledForVerifying(); err == nil {
			f.sigOK = f.chain[0].CheckSignature(si.X509SignatureAlgorithm(), in, si.Signature) == nil
		}
	}
	if csr, err := x509.ParseCertificateRequest(pld); err == nil && f.econtOK {
		f.csrParse = true
		f.csrIA = pki2.IAFact(csr.Subject)
		f.csrSig = csr.CheckSignature() == nil
		f.csrKey = pki2.KeyID(csr.PublicKey)
	}
	return f
}

// specAccepted: the statement of C37 (first sentence) on an accepted request, from the planned
// scenario and direct primitives.
func specAccepted(e *vlib.Env, w *world, p plan, m *material, f facts, got *x509.CertificateRequest, idx int) {
	bad := func(key, what string) {
		e.Violate("C37/"+key, what, map[string]any{"case": idx, "variant": variantName[p.variant], "plan": fmt.Sprintf("%+v", p)})
	}
	if f.sd == nil || len(f.sd.SignerInfos) != 1 {
		bad("accepted-signer-count", "accepted request does not have exactly one signer info")
		return
	}
	certs, _ := f.sd.X509Certificates()
	if len(certs) != 2 {
		bad("accepted-chain-shape", "accepted request does not include exactly a two-certificate chain")
		return
	}
	// which of the two is the AS certificate (by key usage), independent of ExtractChain
	as, ca := certs[0], certs[1]
	if as.KeyUsage&x509.KeyUsageCertSign != 0 {
		as, ca = ca, as
	}
	si := f.sd.SignerInfos[0]
	sid, err := protocol.NewIssuerAndSerialNumber(as)
	if err != nil || !bytes.Equal(sid.FullBytes, si.SID.FullBytes) {
		bad("accepted-signer-not-as-cert", "the signer identifier does not name the AS certificate of the included chain")
	}
	// chain verifies against the valid latest TRC or the predecessor in the grace period
	if f.li < 0 {
		bad("accepted-no-trc", "accepted without a TRC")
		return
	}
	L := p.trcs[f.li]
	latestValid := L.nb <= -1 && L.na >= 4
	inGrace := L.base != L.serial && L.nb <= -1 && L.nb+L.gr >= 4
	if !latestValid {
		bad("accepted-latest-trc-invalid", "accepted although the latest TRC is not currently valid")
	}
	chain := []*x509.Certificate{as, ca}
	okAgainst := func(i int) bool {
		if i < 0 {
			return false
		}
		t := p.trcs[i]
		trc := pki2.MkTRC(1, t.base, t.serial, time.Now().Add(-time.Hour), time.Now().Add(time.Hour), 0, w.rootSet(t.roots))
		return cppki.VerifyChain(chain, cppki.VerifyOptions{TRC: []*cppki.TRC{&trc.TRC}, CurrentTime: f.tc.Add(time.Second)}) == nil
	}
	switch {
	case okAgainst(f.li):
	case inGrace && f.pi >= 0 && okAgainst(f.pi) && p.trcs[f.pi].nb <= -1 && p.trcs[f.pi].na >= 4:
	default:
		bad("accepted-chain-unverifiable", "the chain verifies neither against the valid latest TRC nor against the (valid) predecessor in the grace period")
	}
	// the signature covers the request
	pld, _ := f.sd.EncapContentInfo.EContentValue()
	hash, herr := si.Hash()
	if herr != nil {
		bad("accepted-digest", "unknown digest algorithm")
		return
	}
	hd := hash.New()
	hd.Write(pld)
	if ad, err := si.GetMessageDigestAttribute(); err != nil || !bytes.Equal(ad, hd.Sum(nil)) {
		bad("accepted-digest", "the signed message digest is not the digest of the request payload")
	}
	if in, err := si.SignedAttrs.MarshaledForVerifying(); err != nil ||
		as.CheckSignature(si.X509SignatureAlgorithm(), in, si.Signature) != nil {
		bad("accepted-signature", "the CMS signature does not verify with the AS certificate's key")
	}
	// CSR: subject = chain's subject, valid self-signature, and it is the payload
	csr, err := x509.ParseCertificateRequest(pld)
	if err != nil {
		bad("accepted-not-csr", "payload is not a CSR")
		return
	}
	cia, aia := pki2.IAFact(csr.Subject), pki2.IAFact(as.Subject)
	if cia == "n" || cia == "e" || cia != aia {
		bad("accepted-subject-mismatch", fmt.Sprintf("CSR subject ISD-AS %s differs from the chain's %s", cia, aia))
	}
	if csr.CheckSignature() != nil {
		bad("accepted-csr-signature", "the CSR's own signature is invalid")
	}
	if got == nil || !bytes.Equal(got.Raw, csr.Raw) {
		bad("accepted-other-csr", "the returned CSR is not the signed payload")
	}
	if pki2.KeyID(as.PublicKey) != m.asKey.ID && p.variant != vOtherASChain {
		bad("accepted-foreign-key", "the signing AS certificate is not the requester's")
	}
}

// ---------------------------------------------------------------------------------------
// CAPolicy.CreateChain (explicit CurrentTime: no wall clock involved)

func sigAlgOf(k *pki2.Key, force bool) int {
	if force {
		return int(x509.ECDSAWithSHA512)
	}
	if ek, ok := k.Priv.Public().(interface{ Params() *elliptic.CurveParams }); ok {
		switch ek.Params().BitSize {
		case 256:
			return int(x509.ECDSAWithSHA256)
		case 384:
			return int(x509.ECDSAWithSHA384)
		case 521:
			return int(x509.ECDSAWithSHA512)
		}
	}
	return 0
}

func runIssue(e *vlib.Env, w *world, r *vlib.Rand, idx int) {
	cas := []ent{w.cas[0], w.cas[1], w.ca384, w.caNoIA, w.caShrt}
	ca := cas[r.Intn(len(cas))]
	if r.Chance(50) {
		ca = w.cas[0]
	}
	// signing time around the CA validity boundaries or well inside
	var now time.Time
	jit := []time.Duration{0, 1, -1, time.Second, -time.Second, 500 * time.Millisecond, -500 * time.Millisecond, time.Hour, -time.Hour}
	switch r.Intn(4) {
	case 0:
		now = ca.cert.NotBefore.Add(jit[r.Intn(len(jit))])
	case 1:
		now = w.T0.Add(time.Duration(r.Range(-3000, 3000))*time.Second + time.Duration(r.Intn(1000))*time.Millisecond)
	default:
		now = w.T0.Add(time.Duration(r.Range(-3000, 3000)) * time.Second)
	}
	val := []time.Duration{time.Second, time.Hour, 72 * time.Hour, 1500 * time.Millisecond, 0}[r.Intn(5)]
	if r.Chance(35) { // end exactly around the CA's NotAfter
		val = ca.cert.NotAfter.Sub(now) + jit[r.Intn(len(jit))]
	}
	csrIA := iaA
	if r.Chance(25) {
		csrIA = []string{"", "1-ff00:0:zz", iaB, iaISD2, "1-FF00:0:111"}[r.Intn(5)]
	}
	ck := w.keys[2+r.Intn(3)]
	if r.Chance(10) {
		ck = w.key384
	}
	if r.Chance(6) {
		ck = w.keyEd
	}
	if r.Chance(3) {
		ck = ca.key // CSR for the CA's own key
	}
	force := r.Chance(15)
	der := mkCSR(csrIA, ck, false)
	csr, err := x509.ParseCertificateRequest(der)
	if err != nil {
		e.Case("csr-parse", "~csr-parse", true)
		return
	}
	pol := cppki.CAPolicy{Validity: val, Certificate: ca.cert, Signer: ca.key.Priv, CurrentTime: now, ForceECDSAWithSHA512: force}
	var chain []*x509.Certificate
	var cerr error
	res, ok := vlib.Safe(func() string {
		chain, cerr = pol.CreateChain(csr)
		return ""
	})
	_, skidErr := cppki.SubjectKeyID(csr.PublicKey)
	// createOk oracle: crypto/x509 is able to issue for this key with this CA key
	createOK := true
	if skidErr == nil {
		t := pki2.ASTmpl("probe", iaA, now, now.Add(time.Second), ck)
		if _, err := x509.CreateCertificate(rand.Reader, t, ca.cert, csr.PublicKey, ca.key.Priv); err != nil {
			createOK = false
		}
	}
	newSKID, _ := cppki.SubjectKeyID(csr.PublicKey)
	op := fmt.Sprintf("mk %s %d %d %s %d %s %s %d %s %s", pki2.Facts(ca.cert, w.T0), int64(val), pki2.Rel(now, w.T0),
		pki2.IAFact(csr.Subject), pki2.KeyID(csr.PublicKey), b(skidErr == nil), b(createOK), sigAlgOf(ca.key, force),
		b(len(ca.cert.SubjectKeyId) == 0), b(bytes.Equal(ca.cert.SubjectKeyId, newSKID)))
	ans := "err"
	tag := "mk/err"
	switch {
	case !ok:
		ans, tag = res, "mk/panic"
	case cerr == nil && len(chain) == 2:
		ans, tag = pki2.Facts(chain[0], w.T0), "mk/ok"
	}
	e.Op(op, ans, tag)
	if ok && cerr == nil {
		specIssued(e, w, ca, csr, chain, now, val, idx)
	}
}

// specIssued: second sentence of C37 on an issued chain.
func specIssued(e *vlib.Env, w *world, ca ent, csr *x509.CertificateRequest, chain []*x509.Certificate,
	now time.Time, val time.Duration, idx int) {
	bad := func(key, what string) {
		e.Violate("C37/"+key, what, map[string]any{"case": idx, "ca": ca.cert.Subject.CommonName, "now_rel_ns": pki2.Rel(now, w.T0),
			"validity_ns": int64(val), "csr_subject": pki2.IAFact(csr.Subject)})
	}
	if len(chain) != 2 || chain[1] != ca.cert {
		bad("issued-shape", "issued chain is not [new AS certificate, CA certificate]")
		return
	}
	a := chain[0]
	if pki2.KeyID(a.PublicKey) != pki2.KeyID(csr.PublicKey) {
		bad("issued-key", "issued certificate does not carry the requested key")
	}
	if pki2.IAFact(a.Subject) != pki2.IAFact(csr.Subject) || a.Subject.String() != csr.Subject.String() {
		bad("issued-subject", "issued certificate does not carry the requested subject")
	}
	if err := cppki.ValidateChain(chain); err != nil {
		bad("issued-invalid", "issued chain is not a valid chain: "+err.Error())
	}
	if a.NotAfter.After(ca.cert.NotAfter) || a.NotBefore.Before(ca.cert.NotBefore) {
		bad("issued-outlives-ca", "issued certificate is not inside the CA certificate's validity")
	}
	if !pki2.SigBy(a, ca.cert) {
		bad("issued-signature", "issued certificate is not signed by the CA certificate")
	}
	// it verifies against a TRC holding the CA's root, at its own NotBefore (a policy with a
	// negative validity yields NotAfter < NotBefore: never valid, nothing to demand)
	if val < 0 {
		return
	}
	trc := pki2.MkTRC(1, 1, 1, w.T0.Add(-hh(25)), w.T0.Add(hh(25)), 0, w.rootSet(2))
	if err := cppki.VerifyChain(chain, cppki.VerifyOptions{TRC: []*cppki.TRC{&trc.TRC}, CurrentTime: a.NotBefore}); err != nil {
		bad("issued-unverifiable", "issued chain does not verify against the TRC of its root: "+err.Error())
	}
}

func main() {
	e := vlib.Init()
	r := pki2.Rand(e.Seed)
	w := buildWorld()
	e.Rule = "requests: real CMS SignedData over real CSRs, per case a freshly issued requester chain (validity, CA under " +
		"root1/root2/unknown root, subject ISD-AS), 0-3 TRCs (validity, grace, root sets, fetch failures) at whole-second " +
		"offsets <= -1 s or >= 4 s from the case's clock second, CSR subject equal/other/missing/malformed, bad CSR " +
		"signature, and 18 structural fabrications (foreign signature, tampered payload, 0/2 signer infos, CA as signer, " +
		"0/1/3 certificates, order, versions, content types, garbage, unknown signer id, detached, other AS's chain); " +
		"issuance: CAPolicy.CreateChain with explicit signing time at and around the CA validity boundaries, validity " +
		"ending around the CA's NotAfter, P-256/384/Ed25519 CSR keys, CSR subjects, CA variants; non-trivial = the CMS " +
		"envelope parsed; distinct by op line"
	n := e.N(2200, 30000)
	for i := 0; i < n; i++ {
		runCase(e, w, r, genPlan(r), i)
	}
	ni := e.N(3000, 40000)
	for i := 0; i < ni; i++ {
		runIssue(e, w, r, i)
	}
	e.Finish()
}
