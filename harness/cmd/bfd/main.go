// Engine "bfd" (C16): ties lean/Scion/Model/Bfd.lean to router/bfd and evaluates the C16
// property predicate (written from the statement / RFC 5880 §6.8.6) on real Sessions.
//
//	A. T1, exhaustive: the complete table of the real `transition` (all states x events, plus
//	   out-of-range values) and random packets through the real `shouldDiscard`.
//	B. T2, scripted single sessions: a real Session.Run is fed accepted packets of every state
//	   (long detection time), packets it must discard, and "silence" (a packet that arms a 1 ms
//	   detection time followed by nothing); the callbacks that the Run goroutine makes
//	   (Metrics.PacketsReceived before a packet is processed, Metrics.StateChanges after a
//	   transition, Sender.Send) are logged together with the local state read at that moment
//	   (verif hook) and the log must be accepted by the model's acceptor `Obs.step`.
//	C. T2, pairs: two real Sessions over a scripted lossy link with hostile injected packets;
//	   once drops stop both must come Up, stay Up, and go Down after silence.
package main

import (
	"context"
	"encoding/json"
	"fmt"
	"os"
	"sync"
	"sync/atomic"
	"time"

	"github.com/gopacket/gopacket/layers"
	"github.com/prometheus/client_golang/prometheus"

	"github.com/scionproto/scion/pkg/log"
	"github.com/scionproto/scion/router/bfd"

	"verifharness/vlib"
)

const (
	stAdminDown = 0
	stDown      = 1
	stInit      = 2
	stUp        = 3
)

// rfc is RFC 5880 §6.8.6 (state update on reception) for a local state in {Down, Init, Up},
// written from the RFC text, independent of the Lean model and of fsm.go.
func rfc(local, recv int) int {
	if recv == stAdminDown {
		if local != stDown {
			return stDown
		}
		return local
	}
	switch local {
	case stDown:
		if recv == stDown {
			return stInit
		} else if recv == stInit {
			return stUp
		}
	case stInit:
		if recv == stInit || recv == stUp {
			return stUp
		}
	case stUp:
		if recv == stDown {
			return stDown
		}
	}
	return local
}

// ---------------------------------------------------------------------------------------------
// instrumented session

type nopLogger struct{}

func (nopLogger) New(...any) log.Logger  { return nopLogger{} }
func (nopLogger) Debug(string, ...any)   {}
func (nopLogger) Info(string, ...any)    {}
func (nopLogger) Error(string, ...any)   {}
func (nopLogger) Enabled(log.Level) bool { return false }

type cbCounter struct {
	prometheus.Counter
	f func()
}

func (c cbCounter) Add(v float64) {
	if v != 0 {
		c.f()
	}
}
func (c cbCounter) Inc() { c.f() }

type obsEv struct {
	kind   byte // 'R' recv, 'C' chg, 'S' send, 'F' fin
	remote int  // for R
	state  int  // local state at the callback (for S: the state field of the sent packet)
	local  int  // for S: local state read at the callback
	at     time.Time
	pre    time.Time     // for R: time stamp taken before ReceiveMessage was called
	detect time.Duration // for R: detection time this packet arms
	silent bool          // for R: packet that arms a short detection time (no follow-up check)
}

type delivered struct {
	remote int
	pre    time.Time
	detect time.Duration
	silent bool
}

type sess struct {
	name string
	s    *bfd.Session
	// written by the Run goroutine only (callbacks); read after Run returned or under mu
	mu     sync.Mutex
	log    []obsEv
	nR     int
	feed   sync.Mutex // serialises ReceiveMessage callers
	sent   []delivered
	done   chan struct{}
	out    func(*layers.BFD) // Sender.Send target (nil: drop)
	reqRx  time.Duration
	cancel context.CancelFunc
}

func (x *sess) Send(p *layers.BFD) error {
	x.mu.Lock()
	x.log = append(x.log, obsEv{kind: 'S', state: int(p.State), local: bfd.VerifConcLocalState(x.s), at: time.Now()})
	x.mu.Unlock()
	if x.out != nil {
		x.out(p)
	}
	return nil
}

func newSess(name string, tx, rx time.Duration, mult int, disc uint32) *sess {
	x := &sess{name: name, done: make(chan struct{}), reqRx: rx}
	x.s = &bfd.Session{
		Sender:                x,
		LocalDiscriminator:    layers.BFDDiscriminator(disc),
		DesiredMinTxInterval:  tx,
		RequiredMinRxInterval: rx,
		DetectMult:            layers.BFDDetectMultiplier(mult),
		ReceiveQueueSize:      0,
	}
	mk := func() prometheus.Counter { return prometheus.NewCounter(prometheus.CounterOpts{Name: "x"}) }
	x.s.Metrics.PacketsReceived = cbCounter{mk(), func() {
		x.mu.Lock()
		d := delivered{remote: -1}
		if x.nR < len(x.sent) {
			d = x.sent[x.nR]
		}
		x.nR++
		x.log = append(x.log, obsEv{kind: 'R', remote: d.remote, state: bfd.VerifConcLocalState(x.s),
			at: time.Now(), pre: d.pre, detect: d.detect, silent: d.silent})
		x.mu.Unlock()
	}}
	x.s.Metrics.StateChanges = cbCounter{mk(), func() {
		x.mu.Lock()
		x.log = append(x.log, obsEv{kind: 'C', state: bfd.VerifConcLocalState(x.s), at: time.Now()})
		x.mu.Unlock()
	}}
	return x
}

func (x *sess) start() {
	ctx, cancel := context.WithCancel(log.CtxWith(context.Background(), nopLogger{}))
	x.cancel = cancel
	go func() {
		defer close(x.done)
		if err := x.s.Run(ctx); err != nil {
			panic(err)
		}
	}()
}

// deliver hands a packet to the session like the router does. Returns false if discarded.
func (x *sess) deliver(p *layers.BFD, silent bool) bool {
	x.feed.Lock()
	defer x.feed.Unlock()
	if bfd.VerifConcShouldDiscard(p) {
		x.s.ReceiveMessage(p)
		return false
	}
	det := time.Duration(p.DetectMultiplier) * max(x.reqRx, time.Duration(p.DesiredMinTxInterval)*time.Microsecond)
	x.mu.Lock()
	x.sent = append(x.sent, delivered{remote: int(p.State), pre: time.Now(), detect: det, silent: silent})
	x.mu.Unlock()
	x.s.ReceiveMessage(p)
	return true
}

// stop closes the session (no deliver may be in flight) and appends the final observation.
func (x *sess) stop() {
	x.feed.Lock()
	_ = x.s.Close()
	x.feed.Unlock()
	<-x.done
	x.cancel()
	x.log = append(x.log, obsEv{kind: 'F', state: bfd.VerifConcLocalState(x.s), at: time.Now()})
}

func (x *sess) state() int { return bfd.VerifConcLocalState(x.s) }

// emit writes the session's log as model ops.
func emit(e *vlib.Env, x *sess) {
	e.Op("new", "1", "~new")
	for _, ev := range x.log {
		switch ev.kind {
		case 'R':
			e.Op(fmt.Sprintf("recv %d %d", ev.remote, ev.state), fmt.Sprint(ev.state),
				fmt.Sprintf("recv/l%d/r%d", ev.state, ev.remote))
		case 'C':
			e.Op(fmt.Sprintf("chg %d", ev.state), fmt.Sprint(ev.state), fmt.Sprintf("chg/%d", ev.state))
		case 'S':
			e.Op(fmt.Sprintf("send %d", ev.state), fmt.Sprint(ev.state), fmt.Sprintf("send/%d", ev.state))
		case 'F':
			e.Op(fmt.Sprintf("fin %d", ev.state), fmt.Sprint(ev.state), fmt.Sprintf("fin/%d", ev.state))
		}
	}
}

func logText(x *sess) []string {
	var out []string
	for _, ev := range x.log {
		switch ev.kind {
		case 'R':
			out = append(out, fmt.Sprintf("recv(remote=%d) local=%d", ev.remote, ev.state))
		case 'C':
			out = append(out, fmt.Sprintf("statechange local=%d", ev.state))
		case 'S':
			out = append(out, fmt.Sprintf("send(state=%d) local=%d", ev.state, ev.local))
		case 'F':
			out = append(out, fmt.Sprintf("final local=%d", ev.state))
		}
	}
	if len(out) > 60 {
		out = append(out[:30], out[len(out)-30:]...)
	}
	return out
}

// specLog evaluates the statement on one session's log (independent of the model).
// timers=false: no detection timer can have fired between callbacks except after `silent`
// packets.
func specLog(e *vlib.Env, x *sess, replay any) {
	lg := x.log
	for i, ev := range lg {
		if ev.kind != 'C' && ev.state == stAdminDown {
			e.Violate("C16/admindown-entered", fmt.Sprintf("session %s is in AdminDown (a state it cannot leave) at event %d", x.name, i),
				map[string]any{"case": replay, "log": logText(x)})
			return
		}
		if ev.kind == 'S' && (ev.state == stAdminDown || ev.state != ev.local) {
			e.Violate("C16/sent-state", fmt.Sprintf("session %s sent state %d while local state is %d", x.name, ev.state, ev.local),
				map[string]any{"case": replay, "log": logText(x)})
			return
		}
		if ev.kind == 'R' && !ev.silent && ev.remote >= 0 {
			// the state after the packet = state at the next callback that is not the StateChanges
			// callback of this very packet; only decidable when no timer can have interfered:
			// the detection time armed by this packet is long and the next callback is close.
			j := i + 1
			if j < len(lg) && lg[j].kind == 'C' {
				j++
			}
			if j >= len(lg) || lg[j].kind == 'C' {
				continue
			}
			if lg[j].at.Sub(ev.pre) > ev.detect*8/10 {
				continue // the detection timer armed by this packet may have fired in between
			}
			if ev.state >= stDown && ev.state <= stUp {
				want := rfc(ev.state, ev.remote)
				if lg[j].state != want {
					e.Violate(fmt.Sprintf("C16/rfc-recv-l%d-r%d", ev.state, ev.remote),
						fmt.Sprintf("local state %d, received state %d: next state %d, RFC 5880 6.8.6 prescribes %d",
							ev.state, ev.remote, lg[j].state, want),
						map[string]any{"case": replay, "local": ev.state, "received": ev.remote, "got": lg[j].state,
							"want": want, "log": logText(x)})
					return
				}
			}
		}
	}
}

// confirmed is set once a timing-based violation has been re-confirmed with the long timeout;
// later cases then use short waits and report no further timing-based violations (a wedged
// implementation would otherwise cost a full timeout per case).
var confirmed atomic.Bool
var skipped atomic.Int64

func scale(d time.Duration) time.Duration {
	if confirmed.Load() {
		return d / 200
	}
	return d
}

// earlyDown: a timer-driven Down must not come before the detection time armed by the last
// accepted packet (DetectMult x max(RequiredMinRx, DesiredMinTx), computed here in int64 ns).
func earlyDown(x *sess) (string, bool) {
	var lastR *obsEv
	for i := range x.log {
		ev := &x.log[i]
		if ev.kind == 'R' {
			lastR = ev
		}
		if ev.kind != 'C' || ev.state != stDown || lastR == nil || i == 0 {
			continue
		}
		prev := &x.log[i-1]
		// the StateChanges callback that directly follows a packet belongs to that packet, unless
		// the packet changes nothing by RFC 5880 6.8.6 (then only the timer can have fired)
		byPacket := prev.kind == 'R' && !(prev.state >= stDown && prev.remote >= 0 && rfc(prev.state, prev.remote) == prev.state)
		afterRaw := prev.kind == 'C' && i >= 2 && x.log[i-2].kind == 'R'
		if !byPacket && !afterRaw {
			// not the transition of a packet being processed => detection timer
			if el := ev.at.Sub(lastR.pre); el < lastR.detect*99/100 {
				return fmt.Sprintf("%s went Down by its detection timer %v after the last accepted packet, whose detection time is %v", x.name, el, lastR.detect), true
			}
		}
	}
	return "", false
}

// bigDetect returns (mult, desiredMinTx in us) whose product is 2^32 us or a little more.
func bigDetect(r *vlib.Rand) (int, uint32) {
	ms := []int{2, 3, 5, 16, 255, r.Range(2, 255), r.Range(2, 255)}
	m := ms[r.Intn(len(ms))]
	tx := (uint64(1)<<32 + uint64(m) - 1) / uint64(m)
	tx += uint64(r.Intn(4))
	if tx > 0xffffffff {
		tx = 0xffffffff
	}
	return m, uint32(tx)
}

// ---------------------------------------------------------------------------------------------
// packets

func pkt(state int, my, your uint32, mult int, txUs, rxUs uint32) *layers.BFD {
	return &layers.BFD{
		Version: 1, State: layers.BFDState(state), DetectMultiplier: layers.BFDDetectMultiplier(mult),
		MyDiscriminator: layers.BFDDiscriminator(my), YourDiscriminator: layers.BFDDiscriminator(your),
		DesiredMinTxInterval: layers.BFDTimeInterval(txUs), RequiredMinRxInterval: layers.BFDTimeInterval(rxUs),
	}
}

// longPkt arms a detection time of 255 x 1000 s.
func longPkt(state int, r *vlib.Rand) *layers.BFD {
	return pkt(state, uint32(r.Range(1, 1<<30)), uint32(r.Range(1, 1<<30)), 255, 1000000000, uint32(r.Range(1, 2000)))
}

func b2s(b bool) string {
	if b {
		return "1"
	}
	return "0"
}

func randDiscPkt(r *vlib.Rand) *layers.BFD {
	p := pkt(r.Intn(4), uint32(r.Intn(3)), uint32(r.Intn(3)), r.Intn(4), uint32(r.Intn(100)), uint32(r.Intn(100)))
	pick := func(pct int) bool { return r.Chance(pct) }
	if pick(15) {
		p.Version = layers.BFDVersion(r.Intn(4))
	}
	p.AuthPresent = pick(10)
	p.Multipoint = pick(8)
	p.Poll = pick(8)
	p.Final = pick(8)
	p.Demand = pick(8)
	if pick(10) {
		p.RequiredMinEchoRxInterval = layers.BFDTimeInterval(r.Intn(3))
	}
	if pick(25) {
		t := layers.BFDAuthType(r.Intn(6))
		p.AuthHeader = &layers.BFDAuthHeader{AuthType: t}
		switch t {
		case layers.BFDAuthTypePassword:
			p.AuthHeader.Data = r.Bytes(r.Range(1, 16))
		case layers.BFDAuthTypeKeyedMD5, layers.BFDAuthTypeMeticulousKeyedMD5:
			p.AuthHeader.Data = r.Bytes(16)
		case layers.BFDAuthTypeKeyedSHA1, layers.BFDAuthTypeMeticulousKeyedSHA1:
			p.AuthHeader.Data = r.Bytes(20)
		}
	}
	return p
}

func discOp(p *layers.BFD) (string, string) {
	aht := p.AuthHeader != nil && p.AuthHeader.AuthType != layers.BFDAuthTypeNone
	op := fmt.Sprintf("disc %d %s %d %d %s %d %d %d %s %s %s %d %s", p.Version, b2s(p.AuthPresent), p.Length(),
		p.DetectMultiplier, b2s(p.Multipoint), p.MyDiscriminator, p.YourDiscriminator, int(p.State), b2s(aht),
		b2s(p.Poll), b2s(p.Final), p.RequiredMinEchoRxInterval, b2s(p.Demand))
	return op, b2s(bfd.VerifConcShouldDiscard(p))
}

// ---------------------------------------------------------------------------------------------
// B. scripted single sessions

// script items: 0..3 = accepted packet with that state (long detection time), 4 = silence
// (accepted packet of a random state arming a 1 ms detection time, then nothing), 5 = a packet that
// must be discarded.
type scriptRes struct {
	x      *sess
	script []int
	viol   bool
}

func runScript(e *vlib.Env, idx int, script []int, r *vlib.Rand, vmu *sync.Mutex) *sess {
	x := newSess(fmt.Sprintf("script-%d", idx), 2*time.Millisecond, time.Millisecond, 3, uint32(idx+1))
	x.start()
	rep := map[string]any{"kind": "script", "script": script, "legend": "0..3 accepted packet with state AdminDown/Down/Init/Up; 4 silence (packet arming 1 ms detection, state in next item); 5 discardable packet; 6 Up packet with DetectMult x DesiredMinTx >= 2^32 us"}
	for i := 0; i < len(script); i++ {
		it := script[i]
		switch {
		case it <= 3:
			x.deliver(longPkt(it, r), false)
		case it == 4:
			st := stUp
			if i+1 < len(script) && script[i+1] <= 3 {
				st = script[i+1]
				i++
			}
			p := pkt(st, 7, 9, 1, 1, 1)
			x.deliver(p, true)
			// a session that stops receiving goes Down after its detection time
			time.Sleep(3 * time.Millisecond)
			was := confirmed.Load()
			dl := time.Now().Add(scale(10 * time.Second))
			ok := false
			for round := 0; round < 2 && !ok; round++ {
				for time.Now().Before(dl) {
					if x.state() == stDown {
						ok = true
						break
					}
					time.Sleep(200 * time.Microsecond)
				}
				dl = time.Now().Add(scale(20 * time.Second)) // re-confirm before reporting
			}
			if !ok && was {
				skipped.Add(1)
			} else if !ok {
				confirmed.Store(true)
				vmu.Lock()
				e.Violate("C16/silence-not-down", fmt.Sprintf("no packet for 30 s after a packet arming a 1 ms detection time, state still %d", x.state()), rep)
				vmu.Unlock()
			}
			time.Sleep(300 * time.Microsecond)
		case it == 6:
			// an Up packet whose detection time DetectMult x DesiredMinTx is 2^32 us or more
			// (> 71 min): nothing may happen to the session for as long as we care to wait
			m, tx := bigDetect(r)
			x.deliver(pkt(stUp, uint32(r.Range(1, 1<<30)), uint32(r.Range(1, 1<<30)), m, tx, uint32(r.Range(1, 2000))), false)
			time.Sleep(50 * time.Millisecond)
		default:
			p := longPkt(r.Intn(4), r)
			switch r.Intn(6) {
			case 0:
				p.Version = 0
			case 1:
				p.MyDiscriminator = 0
			case 2:
				p.YourDiscriminator = 0
				p.State = layers.BFDState(r.Range(2, 3))
			case 3:
				p.Poll = true
			case 4:
				p.DetectMultiplier = 0
			default:
				p.Demand = true
			}
			if x.deliver(p, false) {
				vmu.Lock()
				e.Violate("C16/discard", "hook and ReceiveMessage disagree on discard", rep)
				vmu.Unlock()
			}
		}
	}
	// the peer behaves: Down, then Init => the session must be Up
	x.deliver(longPkt(stDown, r), false)
	x.deliver(longPkt(stInit, r), false)
	x.stop()
	vmu.Lock()
	defer vmu.Unlock()
	if what, bad := earlyDown(x); bad {
		e.Violate("C16/early-down", what, map[string]any{"case": rep, "log": logText(x)})
	}
	fin := x.log[len(x.log)-1].state
	if fin != stUp {
		e.Violate("C16/no-recovery", fmt.Sprintf("after the history, packets Down and Init of a well-behaved peer leave the session in state %d, not Up", fin),
			map[string]any{"case": rep, "log": logText(x)})
	}
	specLog(e, x, rep)
	return x
}

// ---------------------------------------------------------------------------------------------
// C. pairs over a lossy link

type link struct {
	to      *sess
	ch      chan *layers.BFD
	dropPct atomic.Int32 // 0..100
	cut     atomic.Bool
	rnd     *vlib.Rand
	stop    chan struct{}
	wg      sync.WaitGroup
	n, lost atomic.Int64
}

func newLink(to *sess, r *vlib.Rand) *link {
	l := &link{to: to, ch: make(chan *layers.BFD, 4096), rnd: r, stop: make(chan struct{})}
	l.wg.Add(1)
	go func() {
		defer l.wg.Done()
		for {
			select {
			case <-l.stop:
				return
			case p := <-l.ch:
				l.n.Add(1)
				if l.cut.Load() || l.rnd.Intn(100) < int(l.dropPct.Load()) {
					l.lost.Add(1)
					continue
				}
				l.to.deliver(p, false)
			}
		}
	}()
	return l
}

func (l *link) send(p *layers.BFD) {
	c := *p
	select {
	case l.ch <- &c:
	default: // full: counts as loss
	}
}

func (l *link) close() { close(l.stop); l.wg.Wait() }

func waitBoth(a, b *sess, want func(*sess) bool, d1, d2 time.Duration) (bool, time.Duration) {
	t0 := time.Now()
	for _, d := range []time.Duration{d1, d2} {
		dl := time.Now().Add(scale(d))
		for time.Now().Before(dl) {
			if want(a) && want(b) {
				return true, time.Since(t0)
			}
			time.Sleep(time.Millisecond)
		}
	}
	return false, time.Since(t0)
}

type pairOut struct {
	a, b   *sess
	toUp   time.Duration
	toDown time.Duration
}

func runPair(e *vlib.Env, idx int, r *vlib.Rand, vmu *sync.Mutex) pairOut {
	tx := time.Duration(r.Range(5, 15)) * time.Millisecond
	mult := r.Range(40, 80) // detection time 200 ms .. 1.2 s: robust on a loaded machine
	a := newSess(fmt.Sprintf("pair-%d-A", idx), tx, tx, mult, uint32(2*idx+1))
	b := newSess(fmt.Sprintf("pair-%d-B", idx), tx, tx, mult, uint32(2*idx+2))
	lab := newLink(b, vlib.NewRand(r.U64()))
	lba := newLink(a, vlib.NewRand(r.U64()))
	a.out, b.out = lab.send, lba.send
	drop := r.Range(20, 95)
	inject := r.Range(5, 60)
	chaos := time.Duration(r.Range(200, 900)) * time.Millisecond
	rep := map[string]any{"kind": "pair", "index": idx, "seed": e.Seed, "tx_ms": tx.Milliseconds(), "detect_mult": mult,
		"drop_pct": drop, "inject": inject, "chaos_ms": chaos.Milliseconds()}
	lab.dropPct.Store(int32(drop))
	lba.dropPct.Store(int32(drop))
	a.start()
	b.start()
	// phase 1: losses + hostile packets (any state, discriminators, intervals)
	var injected []string
	t0 := time.Now()
	for k := 0; k < inject && time.Since(t0) < chaos; k++ {
		tgt := a
		if r.Bool() {
			tgt = b
		}
		st := r.Intn(4)
		if r.Chance(40) {
			st = stAdminDown
		}
		p := pkt(st, uint32(r.Range(0, 5)), uint32(r.Range(0, 5)), r.Range(0, 255), uint32(r.Range(1, 3000000)), uint32(r.Range(1, 20000)))
		acc := tgt.deliver(p, false)
		if len(injected) < 80 {
			injected = append(injected, fmt.Sprintf("%s<-state=%d my=%d your=%d mult=%d tx=%dus rx=%dus accepted=%v", tgt.name,
				st, p.MyDiscriminator, p.YourDiscriminator, p.DetectMultiplier, p.DesiredMinTxInterval, p.RequiredMinRxInterval, acc))
		}
		time.Sleep(time.Duration(r.Range(0, 2*int(chaos.Microseconds())/inject)) * time.Microsecond)
	}
	for time.Since(t0) < chaos {
		time.Sleep(time.Millisecond)
	}
	rep["injected"] = injected
	// phase 2: the link delivers everything; the sessions must come Up
	lab.dropPct.Store(0)
	lba.dropPct.Store(0)
	up := func(x *sess) bool { return x.s.IsUp() }
	res := pairOut{a: a, b: b}
	ok, dt := waitBoth(a, b, up, 20*time.Second, 40*time.Second)
	res.toUp = dt
	was := confirmed.Load()
	viol := func(key, what string) {
		if was {
			skipped.Add(1)
			return
		}
		if key != "C16/early-down" {
			confirmed.Store(true)
		}
		vmu.Lock()
		a.mu.Lock()
		b.mu.Lock()
		e.Violate(key, what, map[string]any{"case": rep, "state_a": a.state(), "state_b": b.state(),
			"log_a_tail": logText(a), "log_b_tail": logText(b)})
		b.mu.Unlock()
		a.mu.Unlock()
		vmu.Unlock()
	}
	if !ok {
		viol("C16/pair-not-up", fmt.Sprintf("two sessions over a lossless link are not both Up %.0f s after the drops stopped (states %d, %d)",
			dt.Seconds(), a.state(), b.state()))
	} else {
		// phase 3: stay Up while the link keeps delivering
		detect := time.Duration(mult) * tx
		for attempt := 0; attempt < 2; attempt++ {
			a.mu.Lock()
			na := len(a.log)
			a.mu.Unlock()
			b.mu.Lock()
			nb := len(b.log)
			b.mu.Unlock()
			time.Sleep(time.Duration(r.Range(150, 400)) * time.Millisecond)
			flap, stall := false, false
			for _, x := range []*sess{a, b} {
				n0 := na
				if x == b {
					n0 = nb
				}
				x.mu.Lock()
				var last time.Time
				for _, ev := range x.log[n0:] {
					if ev.kind == 'C' && ev.state != stUp {
						flap = true
					}
					if ev.kind == 'R' {
						if !last.IsZero() && ev.at.Sub(last) > detect*8/10 {
							stall = true
						}
						last = ev.at
					}
				}
				if !last.IsZero() && time.Since(last) > detect*8/10 {
					stall = true
				}
				x.mu.Unlock()
			}
			if !flap {
				break
			}
			if stall {
				vmu.Lock()
				e.Extra["stall_flaps"] = 1
				vmu.Unlock()
				waitBoth(a, b, up, 30*time.Second, 30*time.Second)
				break
			}
			if attempt == 1 {
				viol("C16/pair-not-staying-up", "a session left Up although packets kept arriving well within the detection time")
			}
			waitBoth(a, b, up, 30*time.Second, 30*time.Second)
		}
		// phase 4: silence => Down after the detection time, not before
		lab.cut.Store(true)
		lba.cut.Store(true)
		tcut := time.Now()
		down := func(x *sess) bool { return x.state() == stDown }
		ok, dt = waitBoth(a, b, down, 20*time.Second, 40*time.Second)
		res.toDown = dt
		if !ok {
			viol("C16/pair-silence-not-down", fmt.Sprintf("link silent for %.0f s (detection time %v) but states are %d, %d",
				time.Since(tcut).Seconds(), detect, a.state(), b.state()))
		}
	}
	lab.cut.Store(true)
	lba.cut.Store(true)
	lab.close()
	lba.close()
	a.stop()
	b.stop()
	// a timer-caused Down must not come before the detection time armed by the last packet
	for _, x := range []*sess{a, b} {
		if what, bad := earlyDown(x); bad {
			viol("C16/early-down", what)
		}
	}
	vmu.Lock()
	specLog(e, a, rep)
	specLog(e, b, rep)
	vmu.Unlock()
	return res
}

// ---------------------------------------------------------------------------------------------

func main() {
	e := vlib.Init()
	r := vlib.NewRand(uint64(e.Seed))
	e.Rule = "A: complete table of the real transition (states 0..5 x events 0..7) + random packets through shouldDiscard; " +
		"B: real Session.Run driven by scripts (all local x received states, then random histories of accepted packets of any state, " +
		"silence, discardable packets), each ending with a well-behaved peer's Down, Init; callback log validated by the model acceptor; " +
		"C: pairs of real Sessions over a seeded lossy link with hostile injected packets, then lossless, then silent; " +
		"non-trivial = a callback of a running session or a defined table entry; distinct by op line"
	var vmu sync.Mutex

	// A
	sc, ec := bfd.VerifConcStateConsts(), bfd.VerifConcEventConsts()
	e.Op("consts", fmt.Sprintf("%d %d %d %d %d %d %d %d %d %d", sc[0], sc[1], sc[2], sc[3], ec[0], ec[1], ec[2], ec[3], ec[4], ec[5]), "consts")
	for s := 0; s <= 5; s++ {
		for ev := 0; ev <= 7; ev++ {
			n, ok := bfd.VerifConcTransition(s, ev)
			ans, tag := fmt.Sprint(n), fmt.Sprintf("tr/s%d", s)
			if !ok {
				ans, tag = "panic", "~tr/panic"
			}
			e.Op(fmt.Sprintf("tr %d %d", s, ev), ans, tag)
		}
	}
	jc := bfd.VerifConcJitterConsts()
	e.Op("jitconsts", fmt.Sprintf("%d %d %d", jc[0], jc[1], jc[2]), "jitconsts")
	for i, n := 0, e.N(3000, 30000); i < n; i++ {
		iv := int64(r.Range(0, 3))
		switch r.Intn(4) {
		case 0:
			iv = int64(r.Range(1, 1000))
		case 1:
			iv = int64(r.Range(1, 4000000)) * 1000 // whole microseconds up to 4 s
		case 2:
			iv = int64(r.U64() % (1 << 42))
		}
		mult := r.Intn(4)
		if r.Chance(20) {
			mult = r.Range(0, 255)
		}
		pct := r.Range(0, 30)
		d, ok := bfd.VerifConcComputeInterval(time.Duration(iv), uint(mult), pct)
		ans, tag := fmt.Sprint(int64(d)), fmt.Sprintf("jit/mult%d", min(mult, 2))
		if !ok {
			ans, tag = "panic", "~jit/panic"
		} else if mult == 1 && (int64(d) > iv*90/100 || int64(d) < iv*75/100) || mult > 1 && (int64(d) > iv || int64(d) < iv*75/100) {
			e.Violate("C16/jitter", fmt.Sprintf("computeInterval(%d ns, mult %d) = %d ns: outside the RFC 5880 6.8.7 jitter range", iv, mult, int64(d)),
				map[string]any{"interval_ns": iv, "detect_mult": mult, "pct": pct})
		}
		e.Op(fmt.Sprintf("jit %d %d %d", iv, mult, pct), ans, tag)
	}
	for i, n := 0, e.N(4000, 40000); i < n; i++ {
		p := randDiscPkt(r)
		op, ans := discOp(p)
		e.Op(op, ans, "disc/"+ans)
	}

	if e.Replay != "" {
		if b, err := os.ReadFile(e.Replay); err == nil {
			var doc struct {
				FailingInput struct {
					Replay struct {
						Case   map[string]any `json:"case"`
						Script []int          `json:"script"`
					} `json:"replay"`
				} `json:"failing_input"`
			}
			if json.Unmarshal(b, &doc) == nil {
				sc := doc.FailingInput.Replay.Script
				if sc == nil && doc.FailingInput.Replay.Case != nil {
					if arr, ok := doc.FailingInput.Replay.Case["script"].([]any); ok {
						for _, v := range arr {
							if f, ok := v.(float64); ok {
								sc = append(sc, int(f))
							}
						}
					}
				}
				if sc != nil {
					x := runScript(e, 0, sc, r, &vmu)
					emit(e, x)
					e.Finish()
					return
				}
			}
		}
	}

	// B
	var scripts [][]int
	prefix := map[int][]int{stDown: {}, stInit: {stDown}, stUp: {stDown, stInit}}
	for _, l := range []int{stDown, stInit, stUp} {
		for rr := 0; rr <= 3; rr++ {
			scripts = append(scripts, append(append([]int{}, prefix[l]...), rr))
			scripts = append(scripts, append(append([]int{}, prefix[l]...), rr, 4, r.Intn(4)))
		}
	}
	for k := 0; k < 10; k++ {
		scripts = append(scripts, []int{stDown, stInit, 6}, []int{stDown, stInit, 6, 6, stUp, 6})
	}
	for i, n := 0, e.N(240, 3000); i < n; i++ {
		ln := r.Range(1, 14)
		s := make([]int, 0, ln)
		for k := 0; k < ln; k++ {
			switch {
			case r.Chance(8):
				s = append(s, 4)
			case r.Chance(8):
				s = append(s, 5)
			case r.Chance(4):
				s = append(s, 6)
			case r.Chance(25):
				s = append(s, stAdminDown)
			default:
				s = append(s, r.Intn(4))
			}
		}
		scripts = append(scripts, s)
	}
	sres := make([]*sess, len(scripts))
	{
		var wg sync.WaitGroup
		sem := make(chan struct{}, 12)
		for i := range scripts {
			wg.Add(1)
			sem <- struct{}{}
			rr := vlib.CaseRand(e.Seed, i)
			go func(i int) {
				defer wg.Done()
				defer func() { <-sem }()
				sres[i] = runScript(e, i, scripts[i], rr, &vmu)
			}(i)
		}
		wg.Wait()
	}
	for i, x := range sres {
		emit(e, x)
		e.Case(fmt.Sprint("script ", scripts[i]), "script", false)
	}
	e.Sample(map[string]any{"script": scripts[len(scripts)-1], "log": logText(sres[len(sres)-1])})

	// C
	np := e.N(10, 60)
	pres := make([]pairOut, np)
	{
		var wg sync.WaitGroup
		sem := make(chan struct{}, 10)
		for i := 0; i < np; i++ {
			wg.Add(1)
			sem <- struct{}{}
			rr := vlib.CaseRand(e.Seed, 100000+i)
			go func(i int) {
				defer wg.Done()
				defer func() { <-sem }()
				pres[i] = runPair(e, i, rr, &vmu)
			}(i)
		}
		wg.Wait()
	}
	var maxUp, maxDown time.Duration
	for _, p := range pres {
		emit(e, p.a)
		emit(e, p.b)
		e.Case(fmt.Sprint("pair ", e.Seed, len(p.a.log), len(p.b.log)), "pair", false)
		maxUp = max(maxUp, p.toUp)
		maxDown = max(maxDown, p.toDown)
	}
	e.Extra["timing_cases_skipped_after_confirmed_violation"] = skipped.Load()
	e.Extra["scripts"] = len(scripts)
	e.Extra["pairs"] = np
	e.Extra["max_time_to_up_ms"] = maxUp.Milliseconds()
	e.Extra["max_time_to_down_ms"] = maxDown.Milliseconds()
	if np > 0 {
		e.Sample(map[string]any{"pair_log_a_tail": logText(pres[0].a)})
	}
	e.Finish()
}
