// Engine "hidden" (C45): the REAL hiddenpath.RegistryServer / AuthoritativeServer / Storer over
// the REAL in-memory SQLite path DB, with fabricated groups, peers and (really signed, really
// verified) segments, compared per operation with lean/Scion/Model/Hidden.lean (driver
// sm_hidden) and with a reference written here directly from the property statement.
//
// Besides registrations and segment requests every history contains a few operations of the
// ordinary path-DB interface on the same database (public inserts, expiry clean-up, public
// look-ups): hidden segments must stay invisible to a public (group 0) look-up.
package main

import (
	"context"
	"crypto/ecdsa"
	"crypto/elliptic"
	"crypto/rand"
	"encoding/hex"
	"errors"
	"fmt"
	"net"
	"os"
	"sort"
	"strings"
	"time"

	"github.com/scionproto/scion/pkg/addr"
	"github.com/scionproto/scion/pkg/experimental/hiddenpath"
	"github.com/scionproto/scion/pkg/private/xtest/graph"
	cryptopb "github.com/scionproto/scion/pkg/proto/crypto"
	"github.com/scionproto/scion/pkg/scrypto/cppki"
	"github.com/scionproto/scion/pkg/scrypto/signed"
	seg "github.com/scionproto/scion/pkg/segment"
	"github.com/scionproto/scion/pkg/snet"
	"github.com/scionproto/scion/private/pathdb/query"
	infra "github.com/scionproto/scion/private/segment/verifier"
	sdb "github.com/scionproto/scion/private/storage/db"
	pathsqlite "github.com/scionproto/scion/private/storage/path/sqlite"

	"verifharness/vlib"
)

const base = int64(1_700_000_000)

var (
	ctx       = context.Background()
	goodKey   *ecdsa.PrivateKey
	signers   [2]*graph.Signer // [0] good key, [1] another key (signature does not verify)
	errBadSig = errors.New("verif: signature does not verify")
)

func mustIA(s string) addr.IA { return addr.MustParseIA(s) }
func iaStr(a addr.IA) string  { return fmt.Sprintf("%d:%d", a.ISD(), uint64(a.AS())) }
func id16(b []byte) string    { return hex.EncodeToString(b[:8]) }
func csvOr(l []string) string {
	if len(l) == 0 {
		return "-"
	}
	return strings.Join(l, ",")
}

// keyVerifier really verifies AS-entry signatures against the one good public key.
type keyVerifier struct{}

func (keyVerifier) Verify(_ context.Context, m *cryptopb.SignedMessage, ad ...[]byte) (*signed.Message, error) {
	msg, err := signed.Verify(m, goodKey.Public(), ad...)
	if err != nil {
		return nil, errBadSig
	}
	return msg, nil
}
func (v keyVerifier) WithServer(net.Addr) infra.Verifier        { return v }
func (v keyVerifier) WithIA(addr.IA) infra.Verifier             { return v }
func (v keyVerifier) WithValidity(cppki.Validity) infra.Verifier { return v }

// lastVersion reads the version of a path segment — the signing time (ns) of its last AS
// entry — directly from the signed header, independently of the store's own helper
// (private/storage/utils), so that a change there cannot also change the reference.
func lastVersion(ps *seg.PathSegment) (int64, error) {
	if len(ps.ASEntries) == 0 {
		return 0, fmt.Errorf("no AS entries")
	}
	hdr, err := signed.ExtractUnverifiedHeader(ps.ASEntries[len(ps.ASEntries)-1].Signed)
	if err != nil {
		return 0, err
	}
	return hdr.Timestamp.UnixNano(), nil
}

type ident struct {
	ias []addr.IA
	ifs [][2]uint16
}

type segKey struct {
	ident  int
	infoTS int64
	ver    int64
	exp    uint8
	bad    bool
}

type segInfo struct {
	key         segKey
	seg         *seg.PathSegment
	id, full    string
	ver, maxExp int64
	first, last addr.IA
	intfs       []string
}

var segCache = map[segKey]*segInfo{}

func mkSeg(ids []ident, k segKey) *segInfo {
	if s, ok := segCache[k]; ok {
		return s
	}
	id := ids[k.ident]
	ps, err := seg.CreateSegment(time.Unix(k.infoTS, 0), 7)
	if err != nil {
		panic(err)
	}
	info := &segInfo{key: k, first: id.ias[0], last: id.ias[len(id.ias)-1]}
	for i, ia := range id.ias {
		next := addr.IA(0)
		if i+1 < len(id.ias) {
			next = id.ias[i+1]
		}
		e := seg.ASEntry{Local: ia, Next: next, MTU: 1400,
			HopEntry: seg.HopEntry{HopField: seg.HopField{ConsIngress: id.ifs[i][0],
				ConsEgress: id.ifs[i][1], ExpTime: k.exp}}}
		for _, x := range id.ifs[i] {
			if x != 0 {
				info.intfs = append(info.intfs, fmt.Sprintf("%s:%d", iaStr(ia), x))
			}
		}
		s := *signers[0]
		if k.bad && i == len(id.ias)-1 {
			s = *signers[1]
		}
		s.Timestamp = time.Unix(0, k.ver)
		if err := ps.AddASEntry(ctx, e, s); err != nil {
			panic(err)
		}
	}
	info.seg = ps
	info.id, info.full = id16(ps.ID()), id16(ps.FullID())
	v, err := lastVersion(ps)
	if err != nil {
		panic(err)
	}
	if v != k.ver {
		panic(fmt.Sprintf("signing time %d read back as %d", k.ver, v))
	}
	info.ver, info.maxExp = v, ps.MaxExpiry().Unix()
	segCache[k] = info
	return info
}

// reference: the stored record per segment id, by the rules of the statement (C27 for the store)
type row struct {
	s      *segInfo
	types  map[seg.Type]bool
	groups map[uint64]bool
}

type history struct {
	e      *vlib.Env
	r      *vlib.Rand
	idx    int
	db     *pathsqlite.Backend
	reg    hiddenpath.RegistryServer
	auth   hiddenpath.AuthoritativeServer
	local  addr.IA
	groups map[hiddenpath.GroupID]*hiddenpath.Group
	gids   []hiddenpath.GroupID // existing and non-existing ones
	ref    map[string]*row
	log    []string
	ids    []ident
	ias    []addr.IA
}

func (h *history) violate(class, what string) {
	h.e.Violate("C45/"+class, what, map[string]any{"history": h.idx, "seed": h.e.Seed,
		"ops": append([]string(nil), h.log...)})
}

func (h *history) do(op, tag string, f func() string) string {
	res, _ := vlib.Safe(f)
	h.e.Op(op, res, tag)
	h.log = append(h.log, op+" -> "+res)
	return res
}

func (h *history) store(s *segInfo, typ seg.Type, groups []uint64) {
	r := h.ref[s.id]
	if r == nil {
		r = &row{s: s, types: map[seg.Type]bool{}, groups: map[uint64]bool{}}
		h.ref[s.id] = r
	} else if s.ver > r.s.ver {
		r.s = s
	} else {
		return
	}
	r.types[typ] = true
	for _, g := range groups {
		r.groups[g] = true
	}
}

func iaSet(r *vlib.Rand, pool []addr.IA, pct int) (map[addr.IA]struct{}, []string) {
	m := map[addr.IA]struct{}{}
	var l []string
	for _, a := range pool {
		if r.Chance(pct) {
			m[a] = struct{}{}
			l = append(l, iaStr(a))
		}
	}
	return m, l
}

func main() {
	e := vlib.Init()
	e.Rule = "random histories (30-45 ops): 2-4 fabricated groups over 6 ASes in 2 ISDs with colliding AS numbers (random owner/" +
		"writers/readers/registries, local AS a registry in ~75%), registrations by members and " +
		"strangers of 0-3 really signed segments (down/up/core, good and bad signatures, unknown " +
		"groups), requests by members and strangers for 0-3 groups and 5 destinations, plus public " +
		"inserts / expiry clean-ups / public look-ups on the same DB; non-trivial = decision " +
		"reached a group check; distinct by op line within history"
	nHist := e.N(200, 1500)
	if os.Getenv("VERIF_HIDDEN_HIST") != "" {
		fmt.Sscan(os.Getenv("VERIF_HIDDEN_HIST"), &nHist)
	}
	var err error
	goodKey, err = ecdsa.GenerateKey(elliptic.P256(), rand.Reader)
	if err != nil {
		panic(err)
	}
	otherKey, _ := ecdsa.GenerateKey(elliptic.P256(), rand.Reader)
	signers[0] = graph.NewSigner(graph.WithPrivateKey(goodKey))
	signers[1] = graph.NewSigner(graph.WithPrivateKey(otherKey))

	// two ISDs with COLLIDING AS numbers (1-…:110 / 2-…:110, 1-…:111 / 2-…:111): membership is
	// by full ISD-AS, an AS number alone must never grant a role
	ias := []addr.IA{mustIA("1-ff00:0:110"), mustIA("1-ff00:0:111"), mustIA("1-ff00:0:112"),
		mustIA("1-ff00:0:113"), mustIA("2-ff00:0:110"), mustIA("2-ff00:0:111")}
	ids := []ident{
		{ias: []addr.IA{ias[0], ias[1], ias[2]}, ifs: [][2]uint16{{0, 1}, {2, 3}, {4, 0}}},
		{ias: []addr.IA{ias[0], ias[1], ias[2]}, ifs: [][2]uint16{{0, 9}, {8, 3}, {4, 0}}},
		{ias: []addr.IA{ias[0], ias[1]}, ifs: [][2]uint16{{0, 1}, {7, 0}}},
		{ias: []addr.IA{ias[4], ias[5], ias[2]}, ifs: [][2]uint16{{0, 1}, {2, 3}, {4, 0}}},
		{ias: []addr.IA{ias[0], ias[3]}, ifs: [][2]uint16{{0, 5}, {6, 0}}},
		{ias: []addr.IA{ias[4], ias[0], ias[3]}, ifs: [][2]uint16{{0, 4}, {3, 1}, {6, 0}}},
	}
	run := fmt.Sprintf("%d-%d-%d", os.Getpid(), e.Seed, time.Now().UnixNano())

	for i := 0; i < nHist; i++ {
		r := vlib.CaseRand(e.Seed, i)
		h := &history{e: e, r: r, idx: i, ref: map[string]*row{}, ids: ids, ias: ias,
			groups: map[hiddenpath.GroupID]*hiddenpath.Group{}}
		h.db, err = pathsqlite.New(fmt.Sprintf("vh-%s-%d", run, i), &sdb.SqliteConfig{InMemory: true})
		if err != nil {
			panic(err)
		}
		h.local = ias[r.Intn(4)]
		e.Op("new "+iaStr(h.local), "ok", "~new")
		nG := r.Range(2, 4)
		for g := 0; g < nG; g++ {
			owner := ias[r.Intn(len(ias))]
			gid := hiddenpath.GroupID{OwnerAS: owner.AS(), Suffix: uint16(g + 1)}
			grp := &hiddenpath.Group{ID: gid, Owner: owner}
			var ws, rs, gs []string
			grp.Writers, ws = iaSet(r, ias, 35)
			grp.Readers, rs = iaSet(r, ias, 30)
			grp.Registries, gs = iaSet(r, ias, 20)
			if r.Chance(70) {
				if _, ok := grp.Registries[h.local]; !ok {
					grp.Registries[h.local] = struct{}{}
					gs = append(gs, iaStr(h.local))
				}
			}
			h.groups[gid] = grp
			h.gids = append(h.gids, gid)
			e.Op(fmt.Sprintf("grp %d %s %s %s %s", gid.ToUint64(), iaStr(owner), csvOr(ws), csvOr(rs), csvOr(gs)), "ok", "~grp")
		}
		h.gids = append(h.gids, hiddenpath.GroupID{OwnerAS: ias[0].AS(), Suffix: 77}) // unknown
		storer := &hiddenpath.Storer{DB: h.db}
		h.reg = hiddenpath.RegistryServer{Groups: h.groups, DB: storer,
			Verifier: hiddenpath.VerifierAdapter{Verifier: keyVerifier{}}, LocalIA: h.local}
		h.auth = hiddenpath.AuthoritativeServer{Groups: h.groups, DB: storer, LocalIA: h.local}
		nOps := r.Range(30, 45)
		for s := 0; s < nOps; s++ {
			h.op()
		}
		if i < 2 {
			e.Sample(map[string]any{"history": i, "ops": h.log[:min(len(h.log), 10)]})
		}
		h.db.Close()
	}
	e.Extra["histories"] = nHist
	e.Finish()
}

func (h *history) pickSeg(bad bool) *segInfo {
	r := h.r
	ver := (base + int64(r.Intn(5))*10) * 1e9
	if r.Chance(35) { // versions inside / around one wall-clock second (stored granularity: ns)
		ver = (base+50)*1e9 + []int64{0, 1, 400_000_000, 999_000_000, 1_000_000_000}[r.Intn(5)]
	}
	return mkSeg(h.ids, segKey{ident: r.Intn(len(h.ids)), infoTS: base + int64(r.Intn(4))*100,
		ver: ver, exp: uint8(r.Intn(3)), bad: bad})
}

func (h *history) peer(g *hiddenpath.Group, role int) addr.IA {
	// role: 0 any AS, 1 a writer, 2 a reader, 3 owner, 4 a registry (fall back to any),
	// 5 / 6 / 7 the owner's / a writer's / a reader's AS number in ANOTHER ISD
	pick := func(m map[addr.IA]struct{}) (addr.IA, bool) {
		var l []addr.IA
		for a := range m {
			l = append(l, a)
		}
		if len(l) == 0 {
			return 0, false
		}
		sort.Slice(l, func(i, j int) bool { return l[i] < l[j] })
		return l[h.r.Intn(len(l))], true
	}
	if g != nil {
		switch role {
		case 1:
			if a, ok := pick(g.Writers); ok {
				return a
			}
		case 2:
			if a, ok := pick(g.Readers); ok {
				return a
			}
		case 3:
			return g.Owner
		case 4:
			if a, ok := pick(g.Registries); ok {
				return a
			}
		case 5:
			return twin(g.Owner, h.r)
		case 6:
			if a, ok := pick(g.Writers); ok {
				return twin(a, h.r)
			}
		case 7:
			if a, ok := pick(g.Readers); ok {
				return twin(a, h.r)
			}
		}
	}
	return h.ias[h.r.Intn(len(h.ias))]
}

// twin returns the ISD-AS with the same AS number in another ISD.
func twin(a addr.IA, r *vlib.Rand) addr.IA {
	isd := addr.ISD(3 - int(a.ISD())) // 1 <-> 2
	if a.ISD() > 2 || r.Chance(15) {
		isd = 42
	}
	t, err := addr.IAFrom(isd, a.AS())
	if err != nil {
		panic(err)
	}
	return t
}

var segTypes = []seg.Type{seg.TypeDown, seg.TypeUp, seg.TypeCore}

func (h *history) op() {
	r := h.r
	switch k := r.Intn(100); {
	case k < 45:
		h.register()
	case k < 80:
		h.serve()
	case k < 87: // public insert through the ordinary path-DB interface
		s := h.pickSeg(false)
		typ := segTypes[r.Intn(3)]
		op := fmt.Sprintf("pins %s %s %d %d %s %s %s %d 0", s.id, s.full, s.ver, s.maxExp,
			iaStr(s.first), iaStr(s.last), csvOr(s.intfs), typ)
		h.do(op, "pub-insert", func() string {
			st, err := h.db.Insert(ctx, &seg.Meta{Segment: s.seg, Type: typ})
			if err != nil {
				return "err"
			}
			return fmt.Sprintf("%d %d", st.Inserted, st.Updated)
		})
		h.store(s, typ, []uint64{0})
	case k < 93: // expiry clean-up
		now := base + int64(r.Intn(8))*150
		want := 0
		for id, row := range h.ref {
			if row.s.maxExp < now {
				delete(h.ref, id)
				want++
			}
		}
		t := "cleanup"
		if want == 0 {
			t = "cleanup-0"
		}
		h.do(fmt.Sprintf("pdelexp %d", now), t, func() string {
			n, err := h.db.DeleteExpired(ctx, time.Unix(now, 0))
			if err != nil {
				return "err"
			}
			return fmt.Sprint(n)
		})
	default: // public look-up: group 0 only
		dst := h.ias[r.Intn(4)]
		op := fmt.Sprintf("pget - - 0 - - %s", iaStr(dst))
		var hiddenSeen []string
		tag := "pub-lookup"
		res := h.do(op, tag, func() string {
			rs, err := h.db.Get(ctx, &query.Params{HPGroupIDs: []uint64{0}, EndsAt: []addr.IA{dst}})
			if err != nil {
				return "err"
			}
			out := []string{}
			for _, x := range rs {
				gs := append([]uint64(nil), x.HPGroupIDs...)
				sort.Slice(gs, func(i, j int) bool { return gs[i] < gs[j] })
				var g []string
				for _, y := range gs {
					g = append(g, fmt.Sprint(y))
				}
				v, _ := lastVersion(x.Seg)
				id := id16(x.Seg.ID())
				if row := h.ref[id]; row == nil || !row.groups[0] {
					hiddenSeen = append(hiddenSeen, id)
				}
				// LastUpdated is not compared in this engine: lu rendered as the model's own
				out = append(out, fmt.Sprintf("%s/%s/%d/%d/%d/%s", id, id16(x.Seg.FullID()), v,
					x.Seg.MaxExpiry().Unix(), x.Type, csvOr(g)))
			}
			sort.Strings(out)
			return strings.Join(append([]string{fmt.Sprint(len(out))}, out...), " ")
		})
		_ = res
		if len(hiddenSeen) > 0 {
			h.violate("hidden-visible-publicly", fmt.Sprintf("public look-up (group 0, dst %s) returned %v, which %s never registered publicly",
				iaStr(dst), hiddenSeen, "was"))
		}
	}
}

func (h *history) register() {
	r := h.r
	gid := h.gids[r.Intn(len(h.gids))]
	if r.Chance(85) {
		gid = h.gids[r.Intn(len(h.gids)-1)] // existing
	}
	grp := h.groups[gid]
	role := []int{1, 1, 1, 1, 0, 2, 3, 4, 6, 6, 5}[r.Intn(11)]
	peer := h.peer(grp, role)
	n := r.Range(0, 3)
	if r.Chance(60) {
		n = r.Range(1, 2)
	}
	var metas []*seg.Meta
	var infos []*segInfo
	var words []string
	allDown, allGood := true, true
	for j := 0; j < n; j++ {
		bad := r.Chance(8)
		s := h.pickSeg(bad)
		typ := seg.TypeDown
		if r.Chance(10) {
			typ = segTypes[1+r.Intn(2)]
		}
		allDown = allDown && typ == seg.TypeDown
		allGood = allGood && !bad
		metas = append(metas, &seg.Meta{Segment: s.seg, Type: typ})
		infos = append(infos, s)
		words = append(words, fmt.Sprintf("%s/%s/%d/%d/%s/%s/%d", s.id, s.full, s.ver, s.maxExp,
			iaStr(s.first), iaStr(s.last), typ))
	}
	segsW := "-"
	if len(words) > 0 {
		segsW = strings.Join(words, ";")
	}
	verifies := 1
	if !allGood {
		verifies = 0
	}
	op := fmt.Sprintf("reg %d %s %d %s", gid.ToUint64(), iaStr(peer), verifies, segsW)
	// the statement
	want, why := true, "ok"
	switch {
	case grp == nil:
		want, why = false, "unknown-group"
	case !has(grp.Writers, peer):
		want, why = false, "not-writer"
	case !has(grp.Registries, h.local):
		want, why = false, "not-registry"
	case !allDown:
		want, why = false, "wrong-type"
	case !allGood:
		want, why = false, "verify"
	}
	tag := "reg-" + why
	if why == "not-writer" {
		for w := range grp.Writers {
			if w.AS() == peer.AS() {
				tag = "reg-not-writer-as-collision"
			}
		}
	}
	if grp == nil {
		tag = "~reg-unknown-group"
	}
	res := h.do(op, tag, func() string {
		err := h.reg.Register(ctx, hiddenpath.Registration{Segments: metas, GroupID: gid,
			Peer: &snet.SVCAddr{IA: peer, SVC: addr.SvcCS}})
		if err != nil {
			return "err"
		}
		return "ok"
	})
	if (res == "ok") != want {
		h.violate("register", fmt.Sprintf("Register by %s for group %s answered %s; the statement demands %s (%s)",
			peer, gid, res, map[bool]string{true: "acceptance", false: "refusal"}[want], why))
	}
	if res == "ok" {
		for j, s := range infos {
			h.store(s, metas[j].Type, []uint64{gid.ToUint64()})
		}
	}
}

func has(m map[addr.IA]struct{}, a addr.IA) bool { _, ok := m[a]; return ok }

// asCollides: peer shares its AS number (not its ISD-AS) with a member of a requested group.
func asCollides(groups map[hiddenpath.GroupID]*hiddenpath.Group, gids []hiddenpath.GroupID, peer addr.IA) bool {
	for _, id := range gids {
		g := groups[id]
		if g == nil {
			continue
		}
		if g.Owner.AS() == peer.AS() {
			return true
		}
		for _, m := range []map[addr.IA]struct{}{g.Writers, g.Readers, g.Registries} {
			for a := range m {
				if a.AS() == peer.AS() {
					return true
				}
			}
		}
	}
	return false
}

func (h *history) serve() {
	r := h.r
	n := r.Range(1, 2)
	if r.Chance(10) {
		n = r.Intn(4)
	}
	var gids []hiddenpath.GroupID
	var gw []string
	for j := 0; j < n; j++ {
		g := h.gids[r.Intn(len(h.gids)-1)]
		if r.Chance(6) {
			g = h.gids[len(h.gids)-1]
		}
		gids = append(gids, g)
		gw = append(gw, fmt.Sprint(g.ToUint64()))
	}
	var grp *hiddenpath.Group
	if len(gids) > 0 {
		grp = h.groups[gids[0]]
	}
	peer := h.peer(grp, []int{2, 2, 1, 3, 4, 0, 0, 5, 5, 6, 7}[r.Intn(11)])
	dst := h.ias[r.Intn(4)]
	if len(h.ref) > 0 && r.Chance(55) { // a destination some stored segment ends at
		var ids []string
		for id := range h.ref {
			ids = append(ids, id)
		}
		sort.Strings(ids)
		dst = h.ref[ids[r.Intn(len(ids))]].s.last
	}
	if r.Chance(5) {
		dst = 0 // the zero ISD-AS: ISD wildcard for ISD 0, i.e. matches no stored segment
	}
	if r.Chance(5) {
		dst = mustIA("1-0") // wildcard AS: the store's ISD match (mirrored by the model)
	}
	op := fmt.Sprintf("srv %s %s %s", csvOr(gw), iaStr(dst), iaStr(peer))
	// the statement
	want, why := true, "ok"
	for _, g := range gids {
		x := h.groups[g]
		switch {
		case x == nil:
			want, why = false, "unknown-group"
		case !(x.Owner == peer || has(x.Writers, peer) || has(x.Readers, peer) || has(x.Registries, peer)):
			want, why = false, "not-member"
		case !has(x.Registries, h.local):
			want, why = false, "not-registry"
		}
		if !want {
			break
		}
	}
	var wantSegs []string
	if want {
		for _, row := range h.ref {
			under := false
			for _, g := range gids {
				under = under || row.groups[g.ToUint64()]
			}
			ends := row.s.last == dst || (dst.AS() == 0 && dst.ISD() == row.s.last.ISD())
			if under && ends {
				for t := range row.types {
					wantSegs = append(wantSegs, fmt.Sprintf("%s/%s/%d/%d", row.s.id, row.s.full, row.s.ver, t))
				}
			}
		}
		sort.Strings(wantSegs)
	}
	tag := "srv-" + why
	if why == "not-member" && asCollides(h.groups, gids, peer) {
		tag = "srv-not-member-as-collision"
	}
	if want {
		tag = "srv-ok-empty"
		if len(wantSegs) > 0 {
			tag = "srv-ok-segs"
		}
	}
	if want && dst.IsZero() {
		tag = "srv-ok-zero-dst"
	}
	if len(gids) == 0 {
		tag = "~srv-no-groups"
	}
	res := h.do(op, tag, func() string {
		metas, err := h.auth.Segments(ctx, hiddenpath.SegmentRequest{GroupIDs: gids, DstIA: dst, Peer: peer})
		if err != nil {
			return "err"
		}
		out := []string{}
		for _, m := range metas {
			v, _ := lastVersion(m.Segment)
			out = append(out, fmt.Sprintf("%s/%s/%d/%d", id16(m.Segment.ID()), id16(m.Segment.FullID()), v, m.Type))
		}
		sort.Strings(out)
		return "ok " + strings.Join(append([]string{fmt.Sprint(len(out))}, out...), " ")
	})
	if len(gids) == 0 {
		return // the statement says nothing about a request without groups (the code refuses it)
	}
	if (res != "err") != want {
		h.violate("serve", fmt.Sprintf("Segments for %s (groups %v, dst %s) answered %q; the statement demands %s (%s)",
			peer, gids, dst, res, map[bool]string{true: "an answer", false: "refusal"}[want], why))
		return
	}
	if want {
		exp := "ok " + strings.Join(append([]string{fmt.Sprint(len(wantSegs))}, wantSegs...), " ")
		if res != exp {
			h.violate("served-set", fmt.Sprintf("Segments for %s (groups %v, dst %s) returned [%s]; stored under a requested group and ending there: [%s]",
				peer, gids, dst, res, exp))
		}
	}
}
